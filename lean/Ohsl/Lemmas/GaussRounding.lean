/-
  Ohsl.Lemmas.GaussRounding — backward error analysis of `Mat.solveBasic` (Gaussian elimination with
  partial pivoting applied to the matrix and the right-hand side simultaneously, then back
  substitution) in the "rounded reals" interpretation `Fl M`.  Helper file of Ohsl/Props/C01G.lean
  (read its header first); builds on Ohsl/Lemmas/LURounding.lean.

  Contents
  * `GTrace`, `partialPivotT`, `elimRowT`, `gaussStepT`, `gaussT`: the INSTRUMENTED run of
    `gauss_with_pivot`: the same computation (it calls the model's `maxAbsInColumn`, `partialPivot`,
    `elimRow`) which additionally RECORDS the multipliers `elem` (row-permuted along with the later
    exchanges), the row permutation, and whether every pivot search returned a row on or below the
    diagonal (`reg`; since the repair of `max_abs_in_column` — it now starts from `max_index =
    start_row` — this flag is always `true`: `maxAbsInColumn_ge`, `gaussT_regular`).
    `gaussT_fst`: forgetting the trace gives `gaussWithPivot` (any scalar type).
  * (S) `partialPivot_struct`, `elimRow_struct`, `elimLoopT_struct`, `gaussStepT_struct`, `forM'_congr_gr`,
    `backsolve_congr_upper` (back substitution never reads below the diagonal).
  * (F) `maxAbsInColumn_fl`, `aug`, `gW`, `gElimLoop_fl`, `GInvF`, `gaussStepT_fl`, `gaussT_fl`: the
    invariant of the elimination — the row relation `LURowF` of LURounding.lean for the AUGMENTED
    matrix `[A | b]` (`n + 1` columns), with the recorded multipliers in the place of the entries
    below the diagonal (which `solve_basic` overwrites with rounded residues `≈ 0`).
  * (F) `LURowF_full_fn`, `gauss_factor_fl`, `solveBasic_backward_core`.
-/
import Ohsl.Lemmas.LURounding
import Mathlib.Tactic.SplitIfs
set_option linter.unusedSectionVars false
set_option linter.unusedVariables false
set_option linter.unusedSimpArgs false
namespace Ohsl
namespace Mat

/-! ### the instrumented run -/

section Trace
variable {K : Type} [Add K] [Sub K] [Mul K] [Neg K] [Zero K] [One K] [BEq K] [ScalarExt K]

/-- what the instrumented elimination records: the multipliers (`mult r c`, `c < r`: the multiplier
that eliminated column `c` of what is now row `r`), the row permutation (`perm r` is the row of the
input that is now row `r`) and `reg`: every pivot search so far returned a row on or below the
diagonal (always `true` for the repaired pivot search, `gaussT_regular`; the original search started
from `max_index = 0` and could return row `0` above the diagonal) -/
structure GTrace (K : Type) where
  mult : Nat → Nat → K
  perm : Nat → Nat
  reg : Bool

/-- nothing recorded yet -/
def GTrace.init : GTrace K := ⟨fun _ _ => 0, fun r => r, true⟩

/-- `partial_pivot`, recording the exchange -/
def partialPivotT (s : (Mat K × Array K) × GTrace K) (k : Nat) :
    Res ((Mat K × Array K) × GTrace K) := do
  let p ← maxAbsInColumn s.1.1 k k
  let mx ← partialPivot s.1.1 s.1.2 k
  pure (mx, { mult := fun r c => s.2.mult (swapIdx p k r) c
              perm := fun r => s.2.perm (swapIdx p k r)
              reg := s.2.reg && decide (k ≤ p) })

/-- one row elimination, recording the multiplier `elem` at position `(i, k)` -/
def elimRowT (k : Nat) (s : (Mat K × Array K) × GTrace K) (i : Nat) :
    Res ((Mat K × Array K) × GTrace K) := do
  let ik ← s.1.1.get i k
  let kk ← s.1.1.get k k
  let elem ← divM ik kk
  let mx ← elimRow k s.1 i
  pure (mx, { s.2 with mult := fun r c => if r = i ∧ c = k then elem else s.2.mult r c })

/-- one step of `gauss_with_pivot` (the body of its outer loop) -/
def gaussStep (mx : Mat K × Array K) (k : Nat) : Res (Mat K × Array K) := do
  let mx1 ← partialPivot mx.1 mx.2 k
  forM' (k + 1) mx1.1.rows mx1 (elimRow k)

/-- … instrumented -/
def gaussStepT (s : (Mat K × Array K) × GTrace K) (k : Nat) :
    Res ((Mat K × Array K) × GTrace K) := do
  let s1 ← partialPivotT s k
  forM' (k + 1) s1.1.1.rows s1 (elimRowT k)

/-- the instrumented `gauss_with_pivot` -/
def gaussT (m : Mat K) (x : Array K) : Res ((Mat K × Array K) × GTrace K) := do
  let n1 ← usub m.rows 1
  forM' 0 n1 ((m, x), GTrace.init) gaussStepT

theorem gaussWithPivot_eq (m : Mat K) (x : Array K) :
    gaussWithPivot m x = (do
      let n1 ← usub m.rows 1
      forM' 0 n1 (m, x) gaussStep) := by
  unfold gaussWithPivot
  cases usub m.rows 1 with
  | error e => rfl
  | ok n1 =>
    simp only [bind, Except.bind]
    congr 1

theorem foldlM_map_fst {σ τ : Type} (f : σ → Nat → Res σ) (g : σ × τ → Nat → Res (σ × τ))
    (h : ∀ s i, Except.map Prod.fst (g s i) = f s.1 i) :
    ∀ (l : List Nat) (s : σ × τ), Except.map Prod.fst (l.foldlM g s) = l.foldlM f s.1
  | [], s => rfl
  | i :: l, s => by
    simp only [List.foldlM_cons, bind, Except.bind]
    have := h s i
    cases hg : g s i with
    | error e =>
      rw [hg] at this
      simp only [Except.map] at this
      rw [← this]
      rfl
    | ok s1 =>
      rw [hg] at this
      simp only [Except.map] at this
      rw [← this]
      exact foldlM_map_fst f g h l s1

/-- a loop on an instrumented state projects to the loop on the plain state -/
theorem forM'_map_fst {σ τ : Type} (f : σ → Nat → Res σ) (g : σ × τ → Nat → Res (σ × τ))
    (h : ∀ s i, Except.map Prod.fst (g s i) = f s.1 i) (lo hi : Nat) (s : σ × τ) :
    Except.map Prod.fst (forM' lo hi s g) = forM' lo hi s.1 f :=
  foldlM_map_fst f g h _ s

theorem elimRowT_fst (k : Nat) (s : (Mat K × Array K) × GTrace K) (i : Nat) :
    Except.map Prod.fst (elimRowT k s i) = elimRow k s.1 i := by
  obtain ⟨⟨m, x⟩, tr⟩ := s
  unfold elimRowT
  simp only
  cases h1 : m.get i k with
  | error e => simp [elimRow, h1, bind, Except.bind, Except.map]
  | ok ik =>
    cases h2 : m.get k k with
    | error e => simp [elimRow, h1, h2, bind, Except.bind, Except.map]
    | ok kk =>
      cases h3 : divM ik kk with
      | error e => simp [elimRow, h1, h2, h3, bind, Except.bind, Except.map]
      | ok q =>
        cases h4 : elimRow k (m, x) i with
        | error e => simp [h3, h4, bind, Except.bind, Except.map]
        | ok mx => simp [h3, h4, bind, Except.bind, Except.map, pure, Except.pure]

theorem partialPivotT_fst (s : (Mat K × Array K) × GTrace K) (k : Nat) :
    Except.map Prod.fst (partialPivotT s k) = partialPivot s.1.1 s.1.2 k := by
  unfold partialPivotT
  cases h1 : maxAbsInColumn s.1.1 k k with
  | error e => simp [partialPivot, h1, bind, Except.bind, Except.map]
  | ok p =>
    cases h2 : partialPivot s.1.1 s.1.2 k with
    | error e => simp [bind, Except.bind, Except.map]
    | ok mx => simp [bind, Except.bind, Except.map, pure, Except.pure]

theorem gaussStepT_fst (s : (Mat K × Array K) × GTrace K) (k : Nat) :
    Except.map Prod.fst (gaussStepT s k) = gaussStep s.1 k := by
  unfold gaussStepT gaussStep
  have h1 := partialPivotT_fst s k
  cases hp : partialPivotT s k with
  | error e =>
    rw [hp] at h1
    simp only [Except.map] at h1
    rw [← h1]
    rfl
  | ok s1 =>
    rw [hp] at h1
    simp only [Except.map] at h1
    rw [← h1]
    simp only [bind, Except.bind]
    exact forM'_map_fst (elimRow k) (elimRowT k) (elimRowT_fst k) _ _ s1

/-- **forgetting the trace gives the model's `gauss_with_pivot`** (any scalar type, failures
included) -/
theorem gaussT_fst (m : Mat K) (x : Array K) :
    Except.map Prod.fst (gaussT m x) = gaussWithPivot m x := by
  rw [gaussWithPivot_eq]
  unfold gaussT
  cases usub m.rows 1 with
  | error e => rfl
  | ok n1 =>
    simp only [bind, Except.bind]
    exact forM'_map_fst gaussStep gaussStepT gaussStepT_fst 0 n1 ((m, x), GTrace.init)

/-- every successful run of `gauss_with_pivot` is the projection of a successful instrumented run -/
theorem gaussT_of_gauss {m : Mat K} {x : Array K} {mx : Mat K × Array K}
    (h : gaussWithPivot m x = .ok mx) : ∃ tr, gaussT m x = .ok (mx, tr) := by
  have := gaussT_fst m x
  rw [h] at this
  cases hg : gaussT m x with
  | error e => rw [hg] at this; simp [Except.map] at this
  | ok s =>
    rw [hg] at this
    simp only [Except.map] at this
    injection this with this
    exact ⟨s.2, by rw [← this]⟩

end Trace

/-! ### structural descriptions (any scalar type) -/

section Structural
variable {K : Type} [Add K] [Sub K] [Mul K] [Neg K] [Zero K] [One K] [BEq K] [ScalarExt K]

/-- (S) `partial_pivot` with the row `p` found by the pivot search: rows `p` and `k` of the matrix
and of the right-hand side are exchanged, nothing else changes -/
theorem partialPivot_struct {m : Mat K} {x : Array K} {n k p : Nat} (hm : WFn m n) (hx : x.size = n)
    (hk : k < n) (hp : maxAbsInColumn m k k = .ok p) {m' : Mat K} {x' : Array K}
    (h : partialPivot m x k = .ok (m', x')) :
    p < n ∧ WFn m' n ∧ x'.size = n ∧
      (∀ a b, a < n → b < n → ent m' a b = ent m (swapIdx p k a) b) ∧
      (∀ a, vf x' a = vf x (swapIdx p k a)) := by
  unfold partialPivot at h
  simp only [hp, bind, Except.bind] at h
  by_cases hpn : p < n
  · obtain ⟨m1, hm1, hI⟩ := swapRows_spec_ss hm.is hpn hk
    obtain ⟨x1, hx1, hs1, hv1⟩ := vswap_spec (x := x) (p := p) (k := k) (by omega) (by omega)
    simp only [hm1, hx1, pure, Except.pure] at h
    injection h with h
    injection h with h1 h2
    subst h1; subst h2
    refine ⟨hpn, hI.wfn, by omega, ?_, ?_⟩
    · intro a b ha hb
      rw [hI.ent_eq ha hb]
      unfold swapIdx
      split_ifs <;> rfl
    · intro a
      rw [hv1 a]
      unfold swapIdx
      by_cases h1 : a = p
      · by_cases h2 : a = k
        · subst h1; subst h2; simp
        · subst h1; simp [h2]
      · by_cases h2 : a = k
        · subst h2; simp [h1]
        · simp [h1, h2]
  · have : m.rows ≤ p := by rw [hm.2.1]; omega
    simp [swapRows, this] at h

/-- (S) one row elimination, whenever it returns: the division succeeded with quotient `q`
(`elem`), row `i` is updated in the columns `k ≤ b` (column `k` INCLUDED: entry `(i,k)` becomes
`m_ik - q·m_kk`, not `0`), component `i` of the right-hand side is updated, nothing else changes -/
theorem elimRow_struct {m : Mat K} {x : Array K} {n k i : Nat} (hm : WFn m n) (hx : x.size = n)
    (hk : k < n) (hi : i < n) (hki : k ≠ i) {m' : Mat K} {x' : Array K}
    (h : elimRow k (m, x) i = .ok (m', x')) :
    ∃ q, divM (ent m i k) (ent m k k) = .ok q ∧ WFn m' n ∧ x'.size = n ∧
    (∀ a b, a < n → b < n → ent m' a b =
        if a = i ∧ k ≤ b then ent m i b - q * ent m k b else ent m a b) ∧
    (∀ a, vf x' a = if a = i then vf x i - q * vf x k else vf x a) := by
  unfold elimRow at h
  simp only [hm.get hi hk, hm.get hk hk, bind, Except.bind] at h
  cases hq : divM (ent m i k) (ent m k k) with
  | error e => rw [hq] at h; simp at h
  | ok q =>
  refine ⟨q, rfl, ?_⟩
  rw [hq] at h
  simp only at h
  obtain ⟨m1, hm1, hP⟩ := forM'_inv
    (fun t (s : Mat K) => Is s n n (fun a b => if a = i ∧ k ≤ b ∧ b < t then
      ent m i b - q * ent m k b else ent m a b))
    k m.rows m (fun s j => do
      let kj ← s.get k j
      let ij ← s.get i j
      s.set i j (ij - q * kj)) (by rw [hm.2.1]; omega)
    (by
      have := hm.is
      refine ⟨this.wf, this.rows, this.cols, ?_⟩
      intro a b ha hb
      rw [this.entry a b ha hb]
      congr 1
      have : ¬ (a = i ∧ k ≤ b ∧ b < k) := by omega
      simp [this]) (by
      intro t s ht1 ht2 hs
      rw [hm.2.1] at ht2
      obtain ⟨s', hs', hI⟩ := hs.set hi ht2 (ent m i t - q * ent m k t)
      refine ⟨s', ?_, ⟨hI.wf, hI.rows, hI.cols, ?_⟩⟩
      · have e1 := hs.entry k t hk ht2
        have e2 := hs.entry i t hi ht2
        simp only [hki, Nat.lt_irrefl, and_false, false_and, if_false] at e1 e2
        simp only [e1, e2, bind, Except.bind]
        exact hs'
      · intro a b ha hb
        rw [hI.entry a b ha hb]
        congr 1
        by_cases hab : a = i ∧ b = t
        · obtain ⟨rfl, rfl⟩ := hab
          have : k ≤ b ∧ b < b + 1 := by omega
          simp [this]
        · have e1 : (a = i ∧ k ≤ b ∧ b < t + 1) = (a = i ∧ k ≤ b ∧ b < t) := by
            apply propext; omega
          simp only [hab, if_false, e1])
  simp only [bind, Except.bind] at hm1
  rw [hm1] at h
  have hxk : k < x.size := by omega
  have hxi : i < x.size := by omega
  simp only [aget_vf hxk, aget_vf hxi, aset_ok _ hxi, pure, Except.pure] at h
  injection h with h
  injection h with h1 h2
  subst h1; subst h2
  refine ⟨hP.wfn, by simpa using hx, ?_, ?_⟩
  · intro a b ha hb
    rw [hP.ent_eq ha hb]
    have e1 : (a = i ∧ k ≤ b ∧ b < m.rows) = (a = i ∧ k ≤ b) := by
      apply propext; rw [hm.2.1]; omega
    simp only [e1]
  · intro a
    rw [vf_set _ hxi]

/-- (S) a successful instrumented row elimination: the recorded multiplier is the quotient the
model's `elimRow` computed -/
theorem elimRowT_ok {n k i : Nat} {s s1 : (Mat K × Array K) × GTrace K} (hm : WFn s.1.1 n)
    (hk : k < n) (hi : i < n) (h : elimRowT k s i = .ok s1) :
    ∃ q, divM (ent s.1.1 i k) (ent s.1.1 k k) = .ok q ∧ elimRow k s.1 i = .ok s1.1 ∧
      s1.2.mult = (fun r c => if r = i ∧ c = k then q else s.2.mult r c) ∧
      s1.2.perm = s.2.perm ∧ s1.2.reg = s.2.reg := by
  unfold elimRowT at h
  simp only [hm.get hi hk, hm.get hk hk, bind, Except.bind] at h
  cases hq : divM (ent s.1.1 i k) (ent s.1.1 k k) with
  | error e => rw [hq] at h; simp at h
  | ok q =>
    rw [hq] at h
    simp only at h
    cases he : elimRow k s.1 i with
    | error e => rw [he] at h; simp at h
    | ok mx =>
      rw [he] at h
      simp only [pure, Except.pure] at h
      injection h with h
      subst h
      exact ⟨q, rfl, rfl, rfl, rfl, rfl⟩

/-- (S) the instrumented row loop keeps the shapes, the permutation and the flag -/
theorem elimLoopT_struct {n k : Nat} {s s' : (Mat K × Array K) × GTrace K} (hm : WFn s.1.1 n)
    (hx : s.1.2.size = n) (hk : k < n) (h : forM' (k + 1) n s (elimRowT k) = .ok s') :
    WFn s'.1.1 n ∧ s'.1.2.size = n ∧ s'.2.perm = s.2.perm ∧ s'.2.reg = s.2.reg := by
  refine forM'_ok_inv
    (fun t (u : (Mat K × Array K) × GTrace K) => WFn u.1.1 n ∧ u.1.2.size = n ∧
      u.2.perm = s.2.perm ∧ u.2.reg = s.2.reg)
    (k + 1) n s s' (elimRowT k) (by omega) ⟨hm, hx, rfl, rfl⟩ ?_ h
  intro j u u1 hj1 hj2 ⟨hw, hsz, h1, h2⟩ hf
  obtain ⟨q, _, he, _, hp, hr⟩ := elimRowT_ok hw hk hj2 hf
  obtain ⟨⟨mu, xu⟩, tu⟩ := u
  obtain ⟨⟨m1, x1⟩, t1⟩ := u1
  obtain ⟨_, _, hw1, hsz1, _, _⟩ := elimRow_struct hw hsz hk hj2 (by omega) he
  exact ⟨hw1, hsz1, hp.trans h1, hr.trans h2⟩

theorem foldlM_congr_mem {σ : Type} (f g : σ → Nat → Res σ) :
    ∀ (l : List Nat) (s : σ), (∀ i ∈ l, ∀ s, f s i = g s i) → l.foldlM f s = l.foldlM g s
  | [], s, _ => rfl
  | i :: l, s, h => by
    simp only [List.foldlM_cons, bind, Except.bind]
    rw [h i (List.mem_cons_self ..) s]
    cases g s i with
    | error e => rfl
    | ok s1 => exact foldlM_congr_mem f g l s1 (fun j hj => h j (List.mem_cons_of_mem _ hj))

/-- two loop bodies that agree on the index range give the same loop -/
theorem forM'_congr_gr {σ : Type} (f g : σ → Nat → Res σ) (lo hi : Nat)
    (h : ∀ i, lo ≤ i → i < hi → ∀ s, f s i = g s i) (s : σ) :
    forM' lo hi s f = forM' lo hi s g := by
  unfold forM'
  apply foldlM_congr_mem
  intro i hi' s
  have := List.mem_range'_1.mp hi'
  exact h i this.1 (by omega) s

/-- the body of the outer loop of `backsolve` -/
def backBody (m : Mat K) (x : Array K) (n : Nat) : Res (Array K) := do
  let k ← usub m.rows n
  let x ← forM' (m.rows - n + 1) m.rows x (fun x j => do
    let xj ← aget x j
    let xk ← aget x k
    let kj ← m.get k j
    aset x k (xk - kj * xj))
  let xk ← aget x k
  let kk ← m.get k k
  let q ← divM xk kk
  aset x k q

theorem backsolve_eq (m : Mat K) (x : Array K) :
    backsolve m x = (do
      let last ← usub m.rows 1
      let xl ← aget x last
      let d ← m.get last last
      let q ← divM xl d
      let x ← aset x last q
      forM' 2 (m.rows + 1) x (backBody m)) := rfl

/-- (S) **`backsolve` never reads below the diagonal**: two matrices with the same number of rows
whose reads `get i j` agree for `i ≤ j` give the same result (value or failure), for every
right-hand side.  In particular the rounded residues that `solve_basic` leaves below the diagonal
(instead of exact zeros) do not influence the solution. -/
theorem backsolve_congr_upper {m m' : Mat K} (hr : m'.rows = m.rows)
    (hg : ∀ i j, i ≤ j → j < m.rows → m'.get i j = m.get i j) (x : Array K) :
    backsolve m' x = backsolve m x := by
  rw [backsolve_eq, backsolve_eq, hr]
  by_cases hn : 1 ≤ m.rows
  · have hu : usub m.rows 1 = .ok (m.rows - 1) := by simp [usub, hn]
    have hb : ∀ y : Array K, forM' 2 (m.rows + 1) y (backBody m')
        = forM' 2 (m.rows + 1) y (backBody m) := by
      intro y
      apply forM'_congr_gr
      intro nn h1 h2 z
      unfold backBody
      rw [hr]
      have hus : usub m.rows nn = .ok (m.rows - nn) := by
        have : nn ≤ m.rows := by omega
        simp [usub, this]
      simp only [hus, bind, Except.bind]
      have hin : forM' (m.rows - nn + 1) m.rows z (fun x j => do
            let xj ← aget x j
            let xk ← aget x (m.rows - nn)
            let kj ← m'.get (m.rows - nn) j
            aset x (m.rows - nn) (xk - kj * xj))
          = forM' (m.rows - nn + 1) m.rows z (fun x j => do
            let xj ← aget x j
            let xk ← aget x (m.rows - nn)
            let kj ← m.get (m.rows - nn) j
            aset x (m.rows - nn) (xk - kj * xj)) := by
        apply forM'_congr_gr
        intro j hj1 hj2 w
        simp only [hg (m.rows - nn) j (by omega) hj2]
      simp only [bind, Except.bind] at hin
      rw [hin, hg (m.rows - nn) (m.rows - nn) (Nat.le_refl _) (by omega)]
    simp only [hu, bind, Except.bind, hb]
    rw [hg (m.rows - 1) (m.rows - 1) (Nat.le_refl _) (by omega)]
  · have hu : usub m.rows 1 = .error .arith := by simp [usub, hn]
    simp only [hu, bind, Except.bind]

/-- (S) a returned value of `solve_basic` comes from a successful elimination — which is the
projection of a successful instrumented elimination — followed by a successful back substitution -/
theorem solveBasic_run {n : Nat} {A : Mat K} {b x : Array K} (hA : WFn A n) (hb : b.size = n)
    (h : solveBasic A b = .ok x) :
    ∃ (m' : Mat K) (y : Array K) (tr : GTrace K), gaussT A b = .ok ((m', y), tr) ∧
      gaussWithPivot A b = .ok (m', y) ∧ backsolve m' y = .ok x := by
  unfold solveBasic at h
  have h1 : ¬ A.rows ≠ b.size := by rw [hA.2.1, hb]; simp
  have h2 : ¬ A.rows ≠ A.cols := by rw [hA.2.1, hA.2.2]; simp
  simp only [h1, h2, if_false, bind, Except.bind] at h
  cases hg : gaussWithPivot A b with
  | error e => rw [hg] at h; simp at h
  | ok s =>
    obtain ⟨m', y⟩ := s
    rw [hg] at h
    simp only at h
    obtain ⟨tr, htr⟩ := gaussT_of_gauss hg
    exact ⟨m', y, tr, htr, rfl, h⟩

/-- (S) shapes are kept by an instrumented step, and the flag stays `true` exactly when it was and
the pivot search returned a row on or below the diagonal -/
theorem gaussStepT_struct {n k : Nat} {s s' : (Mat K × Array K) × GTrace K} (hm : WFn s.1.1 n)
    (hx : s.1.2.size = n) (hk : k < n) (h : gaussStepT s k = .ok s') :
    WFn s'.1.1 n ∧ s'.1.2.size = n ∧
      ∃ p, maxAbsInColumn s.1.1 k k = .ok p ∧ s'.2.reg = (s.2.reg && decide (k ≤ p)) := by
  unfold gaussStepT at h
  cases hp : partialPivotT s k with
  | error e => simp [hp, bind, Except.bind] at h
  | ok s1 =>
    simp only [hp, bind, Except.bind] at h
    unfold partialPivotT at hp
    cases hp0 : maxAbsInColumn s.1.1 k k with
    | error e => simp [hp0, bind, Except.bind] at hp
    | ok p =>
      cases hpp : partialPivot s.1.1 s.1.2 k with
      | error e => simp [hp0, hpp, bind, Except.bind] at hp
      | ok mx1 =>
        simp only [hp0, hpp, bind, Except.bind, pure, Except.pure] at hp
        injection hp with hp
        subst hp
        obtain ⟨m1, x1⟩ := mx1
        obtain ⟨hpn, hw1, hsz1, _, _⟩ := partialPivot_struct hm hx hk hp0 hpp
        simp only [hw1.2.1] at h
        obtain ⟨hw2, hsz2, _, hreg2⟩ := elimLoopT_struct (s := ((m1, x1), _)) hw1 hsz1 hk h
        exact ⟨hw2, hsz2, p, rfl, hreg2⟩

/-- (S) the pivot search never returns a row above the one it starts from -/
theorem maxAbsInColumn_ge {m : Mat K} {col start p : Nat}
    (h : maxAbsInColumn m col start = .ok p) : start ≤ p := by
  unfold maxAbsInColumn at h
  simp only [bind, Except.bind] at h
  split at h
  · simp at h
  · rename_i s hs
    simp only [pure, Except.pure] at h
    by_cases hle : start ≤ m.rows
    · have := forM'_ok_inv (fun (i : Nat) (s : Nat × K) => start ≤ s.1) start m.rows
        ((start : Nat), (0 : K)) s _ hle (Nat.le_refl _) (by
          intro i s s1 hi1 hi2 hP hf
          obtain ⟨idx, mx⟩ := s
          simp only [bind, Except.bind] at hf
          cases hg : m.get i col with
          | error e => rw [hg] at hf; simp at hf
          | ok v =>
            rw [hg] at hf
            simp only [pure, Except.pure] at hf
            split at hf
            · injection hf with hf; subst hf; exact hi1
            · injection hf with hf; subst hf; exact hP) hs
      injection h with h
      subst h
      obtain ⟨a, b⟩ := s
      exact this
    · rw [forM'_empty _ _ _ _ (by omega)] at hs
      injection hs with hs
      subst hs
      injection h with h
      exact h.le

/-- (S) **every run is regular**: the pivot search starts at the diagonal row, so the recorded flag
is `true` whenever the instrumented elimination returns -/
theorem gaussT_regular {n : Nat} {A : Mat K} {b : Array K} (hA : WFn A n) (hb : b.size = n)
    {s : (Mat K × Array K) × GTrace K} (h : gaussT A b = .ok s) : s.2.reg = true := by
  unfold gaussT at h
  rw [hA.2.1] at h
  by_cases hn : 1 ≤ n
  · have hus : usub n 1 = .ok (n - 1) := by simp [usub, hn]
    simp only [hus, bind, Except.bind] at h
    have key := forM'_ok_inv
      (fun k (u : (Mat K × Array K) × GTrace K) => WFn u.1.1 n ∧ u.1.2.size = n ∧ u.2.reg = true)
      0 (n - 1) _ s gaussStepT (Nat.zero_le _) ⟨hA, hb, rfl⟩ ?_ h
    · exact key.2.2
    · intro k u u1 _ hk ⟨hw, hsz, hr⟩ hf
      obtain ⟨hw1, hsz1, p, hp, hreg⟩ := gaussStepT_struct hw hsz (by omega) hf
      refine ⟨hw1, hsz1, ?_⟩
      have := maxAbsInColumn_ge hp
      rw [hreg, hr]
      simp [this]
  · have hus : usub n 1 = .error .arith := by simp [usub, hn]
    simp [hus, bind, Except.bind] at h

end Structural

/-! ### the elimination in `Fl M` -/

section GaussFl
variable {M : FlModel}

/-- pivot search of `solve_basic` in `Fl M` (comparisons and `mag` are exact; the search starts from
`max_index = start_row`): the returned row `p` satisfies `k ≤ p < n`, its entry dominates the column
from the diagonal down, and if that whole sub-column is exactly zero the search returns `p = k` -/
theorem maxAbsInColumn_fl {m : Mat (Fl M)} {n k p : Nat} (hm : WFn m n) (hk : k < n)
    (h : maxAbsInColumn m k k = .ok p) :
    p < n ∧ k ≤ p ∧
      (∀ i, k ≤ i → i < n → |(ent m i k).val| ≤ |(ent m p k).val|) ∧
      ((∀ i, k ≤ i → i < n → (ent m i k).val = 0) → p = k) := by
  unfold maxAbsInColumn at h
  rw [hm.2.1] at h
  simp only [bind, Except.bind] at h
  split at h
  · simp at h
  · rename_i s hs
    simp only [pure, Except.pure] at h
    have key := forM'_ok_inv
      (fun t (s : Nat × Fl M) =>
        ((s.1 = k ∧ s.2.val = 0) ∨
          (k ≤ s.1 ∧ s.1 < n ∧ s.2.val = |(ent m s.1 k).val| ∧ 0 < s.2.val)) ∧
        ∀ i, k ≤ i → i < t → |(ent m i k).val| ≤ s.2.val)
      k n ((k : Nat), (0 : Fl M)) s _ (by omega) ?init ?step hs
    case init =>
      exact ⟨Or.inl ⟨rfl, rfl⟩, by intro i h1 h2; omega⟩
    case step =>
      intro t s s1 ht1 ht2 ⟨h1, h2⟩ hf
      obtain ⟨idx, mx⟩ := s
      simp only [hm.get ht2 hk, bind, Except.bind, pure, Except.pure] at hf
      have hmx0 : 0 ≤ mx.val := by
        rcases h1 with ⟨_, h0⟩ | ⟨_, _, _, h0⟩
        · exact h0.ge
        · exact h0.le
      by_cases hlt : mx.val < |(ent m t k).val|
      · have hl : ScalarExt.lt mx (ScalarExt.mag (ent m t k)) = true := by
          rw [Fl.lt_iff, Fl.mag_val]; exact hlt
        simp only [hl, if_true] at hf
        injection hf with hf
        subst hf
        refine ⟨Or.inr ⟨ht1, ht2, Fl.mag_val _, ?_⟩, ?_⟩
        · show 0 < (ScalarExt.mag (ent m t k)).val
          rw [Fl.mag_val]; exact lt_of_le_of_lt hmx0 hlt
        intro i hi1 hi2
        rw [Fl.mag_val]
        by_cases hit : i = t
        · subst hit; exact le_refl _
        · exact le_trans (h2 i hi1 (by omega)) (le_of_lt hlt)
      · have hl : ¬ ScalarExt.lt mx (ScalarExt.mag (ent m t k)) = true := by
          rw [Fl.lt_iff, Fl.mag_val]; exact hlt
        simp only [hl, if_false] at hf
        injection hf with hf
        subst hf
        refine ⟨h1, ?_⟩
        intro i hi1 hi2
        by_cases hit : i = t
        · subst hit; exact not_lt.1 hlt
        · exact h2 i hi1 (by omega)
    injection h with h
    obtain ⟨idx, mx⟩ := s
    simp only at h
    subst h
    obtain ⟨hcase, hdom⟩ := key
    simp only at hcase hdom
    refine ⟨?_, ?_, ?_, ?_⟩
    · rcases hcase with ⟨h0, _⟩ | ⟨_, h1, _⟩
      · omega
      · exact h1
    · rcases hcase with ⟨h0, _⟩ | ⟨h1, _⟩
      · omega
      · exact h1
    · intro i hi1 hi2
      rcases hcase with ⟨_, h0⟩ | ⟨_, _, h1, _⟩
      · have := hdom i hi1 hi2
        rw [h0] at this
        exact this.trans (abs_nonneg _)
      · rw [← h1]; exact hdom i hi1 hi2
    · intro hz
      rcases hcase with ⟨h0, _⟩ | ⟨h1, h2, h3, h4⟩
      · exact h0
      · rw [h3, hz idx h1 h2, abs_zero] at h4
        exact absurd h4 (lt_irrefl _)

/-- the augmented matrix `[m | x]`: column `n` is the right-hand side -/
def aug (n : Nat) (m : Mat (Fl M)) (x : Array (Fl M)) : Nat → Nat → Fl M :=
  fun r c => if c < n then ent m r c else vf x r

/-- the working array of the analysis: the recorded multipliers `ℓ` in the first `ρ r` columns of
row `r` (where `solve_basic` holds rounded residues), the augmented matrix elsewhere -/
def gW (n : Nat) (ρ : Nat → Nat) (ℓ : Nat → Nat → Fl M) (m : Mat (Fl M)) (x : Array (Fl M)) :
    Nat → Nat → Fl M :=
  fun r c => if c < ρ r then ℓ r c else aug n m x r c

/-- number of finished elimination steps of row `r` while the row loop of step `k` is at row `t` -/
def rhoT (k t : Nat) : Nat → Nat := fun r => if k < r ∧ r < t then k + 1 else min r k

/-- the row loop of one elimination step in `Fl M` (instrumented): the perturbed row relation of
the augmented matrix advances by one column, the new multipliers are `≤ 1 + u` in magnitude -/
theorem gElimLoop_fl (hu : M.u < 1) {n k : Nat} (B : Nat → Nat → ℝ)
    {s s' : (Mat (Fl M) × Array (Fl M)) × GTrace (Fl M)}
    (hm : WFn s.1.1 n) (hx : s.1.2.size = n) (hk : k < n)
    (hrow : ∀ r, r < n →
      LURowF (n + 1) (B r) (gW n (fun r => min r k) s.2.mult s.1.1 s.1.2) r (min r k))
    (hmax : ∀ i, k ≤ i → i < n → |(ent s.1.1 i k).val| ≤ |(ent s.1.1 k k).val|)
    (hmult : ∀ r c, r < n → c < min r k → |(s.2.mult r c).val| ≤ 1 + M.u)
    (h : forM' (k + 1) n s (elimRowT k) = .ok s') :
    (∀ r, r < n → LURowF (n + 1) (B r)
        (gW n (fun r => min r (k + 1)) s'.2.mult s'.1.1 s'.1.2) r (min r (k + 1))) ∧
    (∀ r c, r < n → c < min r (k + 1) → |(s'.2.mult r c).val| ≤ 1 + M.u) := by
  have key := forM'_ok_inv
    (fun t (u : (Mat (Fl M) × Array (Fl M)) × GTrace (Fl M)) => WFn u.1.1 n ∧ u.1.2.size = n ∧
      (∀ r, r < n → LURowF (n + 1) (B r) (gW n (rhoT k t) u.2.mult u.1.1 u.1.2) r (rhoT k t r)) ∧
      (∀ r, r < n → (r ≤ k ∨ t ≤ r) →
        (∀ c, c < n → ent u.1.1 r c = ent s.1.1 r c) ∧ vf u.1.2 r = vf s.1.2 r) ∧
      (∀ r c, r < n → c < rhoT k t r → |(u.2.mult r c).val| ≤ 1 + M.u))
    (k + 1) n s s' (elimRowT k) (by omega) ?init ?step h
  case init =>
    have e : rhoT k (k + 1) = fun r => min r k := by
      funext r
      have : ¬ (k < r ∧ r < k + 1) := by omega
      simp only [rhoT, this, if_false]
    refine ⟨hm, hx, ?_, fun _ _ _ => ⟨fun _ _ => rfl, rfl⟩, ?_⟩
    · rw [e]; exact hrow
    · rw [e]; exact hmult
  case step =>
    intro j u u1 hj1 hj2 ⟨hw, hsz, hr, hun, hmu⟩ hf
    obtain ⟨q, hq, he, hml, _, _⟩ := elimRowT_ok hw hk hj2 hf
    obtain ⟨⟨mu, xu⟩, tu⟩ := u
    obtain ⟨⟨m1, x1⟩, t1⟩ := u1
    simp only at hw hsz hr hun hmu hq he hml
    obtain ⟨q', hq', hw1, hsz1, hent, hvf⟩ := elimRow_struct hw hsz hk hj2 (by omega) he
    rw [hq] at hq'
    injection hq' with hq'
    subst hq'
    obtain ⟨hpiv, hqe⟩ := Fl.divM_ok hq
    -- the values of `rhoT` that matter
    have r1 : rhoT k (j + 1) j = k + 1 := by
      have : k < j ∧ j < j + 1 := by omega
      simp only [rhoT, this, and_self, if_true]
    have r2 : rhoT k j j = k := by
      have : ¬ (k < j ∧ j < j) := by omega
      simp only [rhoT, this, if_false]; omega
    have r3 : ∀ t, t ≤ k → ∀ T, rhoT k T t = min t k := by
      intro t ht T
      have : ¬ (k < t ∧ t < T) := by omega
      simp only [rhoT, this, if_false]
    have r4 : ∀ r, r ≠ j → rhoT k (j + 1) r = rhoT k j r := by
      intro r hrj
      have e1 : (k < r ∧ r < j + 1) = (k < r ∧ r < j) := by apply propext; omega
      simp only [rhoT, e1]
    have r5 : ∀ r, rhoT k j r ≤ k + 1 := by
      intro r; simp only [rhoT]; split <;> omega
    have r6 : ∀ r, k < r → r < j → rhoT k j r = k + 1 := by
      intro r h1 h2
      have : k < r ∧ r < j := ⟨h1, h2⟩
      simp only [rhoT, this, and_self, if_true]
    -- rows other than `j` are untouched
    have hoth : ∀ r c, r ≠ j → c < n + 1 →
        gW n (rhoT k (j + 1)) t1.mult m1 x1 r c = gW n (rhoT k j) tu.mult mu xu r c := by
      intro r c hrj hc
      simp only [gW, aug, r4 r hrj, hml]
      have c1 : ¬ (r = j ∧ c = k) := fun hh => hrj hh.1
      simp only [c1, if_false]
      by_cases hcn : c < n
      · by_cases hrn : r < n
        · rw [hent r c hrn hcn]
          have c2 : ¬ (r = j ∧ k ≤ c) := fun hh => hrj hh.1
          simp only [c2, if_false, hcn, if_true]
        · -- outside the matrix both entry functions read the same (irrelevant) buffer position
          simp only [hcn, if_true]
          have e1 : ent m1 r c = 0 := by
            unfold ent
            have : m1.data.size ≤ r * m1.cols + c := by
              rw [hw1.1, hw1.2.1, hw1.2.2]
              have : n * n ≤ r * n := Nat.mul_le_mul_right n (by omega)
              omega
            simp [this]
          have e2 : ent mu r c = 0 := by
            unfold ent
            have : mu.data.size ≤ r * mu.cols + c := by
              rw [hw.1, hw.2.1, hw.2.2]
              have : n * n ≤ r * n := Nat.mul_le_mul_right n (by omega)
              omega
            simp [this]
          rw [e1, e2]
      · simp only [hcn, if_false]
        rw [hvf r]
        simp only [hrj, if_false]
    refine ⟨hw1, hsz1, ?_, ?_, ?_⟩
    · intro r hrn
      by_cases hrj : r = j
      · subst hrj
        rw [r1]
        have h0 := hr r hrn
        rw [r2] at h0
        refine LURowF.elim hu (by omega) (by omega) q ?_ ?_ ?_ ?_ h0
        · intro c hc
          simp only [gW, aug, r1, r2, r3 k (Nat.le_refl _), Nat.min_self, hml]
          by_cases hck : c = k
          · subst hck
            have c1 : c < c + 1 := by omega
            simp only [c1, if_true, and_self]
          · by_cases hlt : c < k
            · have c1 : c < k + 1 := by omega
              have c2 : ¬ k < c := by omega
              simp only [c1, hlt, c2, hck, and_false, if_true, if_false]
            · have c1 : ¬ c < k + 1 := by omega
              have c2 : k < c := by omega
              simp only [c1, c2, hlt, hck, if_true, if_false]
              by_cases hcn : c < n
              · simp only [hcn, if_true]
                rw [hent r c hrn hcn]
                have c3 : r = r ∧ k ≤ c := ⟨rfl, by omega⟩
                simp only [c3, and_self, if_true]
              · simp only [hcn, if_false]
                rw [hvf r]
                simp only [if_true]
        · intro t c ht hc
          exact hoth t c (by omega) hc
        · show (gW n (rhoT k r) tu.mult mu xu k k).val ≠ 0
          simp only [gW, aug, r3 k (Nat.le_refl _), Nat.min_self, Nat.lt_irrefl, if_false, hk,
            if_true]
          exact hpiv
        · show q = gW n (rhoT k r) tu.mult mu xu r k / gW n (rhoT k r) tu.mult mu xu k k
          simp only [gW, aug, r2, r3 k (Nat.le_refl _), Nat.min_self, Nat.lt_irrefl, if_false, hk,
            if_true]
          exact hqe
      · rw [r4 r hrj]
        refine LURowF.transfer ?_ ?_ ?_ (hr r hrn)
        · have := r5 r; omega
        · intro c hc
          exact hoth r c hrj hc
        · intro t c ht hc
          refine hoth t c ?_ hc
          by_cases h1 : k < r ∧ r < j
          · rw [r6 r h1.1 h1.2] at ht; omega
          · have : rhoT k j r = min r k := by simp only [rhoT, h1, if_false]
            rw [this] at ht; omega
    · intro r hrn hcase
      have hrj : r ≠ j := by omega
      obtain ⟨g1, g2⟩ := hun r hrn (by omega)
      refine ⟨?_, ?_⟩
      · intro c hc
        rw [hent r c hrn hc]
        have c2 : ¬ (r = j ∧ k ≤ c) := fun hh => hrj hh.1
        simp only [c2, if_false]
        exact g1 c hc
      · rw [hvf r]
        simp only [hrj, if_false]
        exact g2
    · intro r c hrn hc
      rw [hml]
      by_cases hrj : r = j
      · subst hrj
        rw [r1] at hc
        by_cases hck : c = k
        · subst hck
          simp only [and_self, if_true]
          rw [hqe]
          have e1 := (hun r hrn (Or.inr (Nat.le_refl _))).1 c hk
          have e2 := (hun c hk (Or.inl (Nat.le_refl _))).1 c hk
          refine Fl.abs_div_le _ _ hpiv ?_
          rw [e1, e2]
          exact hmax r (by omega) hrn
        · simp only [hck, and_false, if_false]
          have := hmu r c hrn
          rw [r2] at this
          exact this (by omega)
      · have c1 : ¬ (r = j ∧ c = k) := fun hh => hrj hh.1
        simp only [c1, if_false]
        rw [r4 r hrj] at hc
        exact hmu r c hrn hc
  obtain ⟨_, _, k3, _, k5⟩ := key
  have e : rhoT k n = fun r => if r < n then min r (k + 1) else min r k := by
    funext r
    simp only [rhoT]
    by_cases h1 : k < r ∧ r < n
    · have : min r (k + 1) = k + 1 := by omega
      simp only [h1, and_self, if_true, this]
    · simp only [h1, if_false]
      by_cases h2 : r < n
      · have : min r (k + 1) = min r k := by omega
        simp only [h2, if_true, this]
      · simp only [h2, if_false]
  have e' : ∀ r, r < n → rhoT k n r = min r (k + 1) := by
    intro r hr; rw [e]; simp only [hr, if_true]
  refine ⟨?_, ?_⟩
  · intro r hr
    have := k3 r hr
    rw [e' r hr] at this
    refine LURowF.transfer (by omega) ?_ ?_ this
    · intro c hc
      simp only [gW, e' r hr]
    · intro t c ht hc
      have htn : t < n := by omega
      simp only [gW, e' t htn]
  · intro r c hr hc
    have := k5 r c hr
    rw [e' r hr] at this
    exact this hc

/-- invariant of the instrumented `gauss_with_pivot` in `Fl M` after `k` steps: shapes, and — the flag
`reg` being `true`, which it always is (`gaussT_regular`) — `perm` is a permutation, every row of the
permuted augmented input `[A | b]` satisfies the perturbed row relation with the recorded
multipliers, and these are bounded by `1 + u` -/
structure GInvF (n : Nat) (A : Mat (Fl M)) (b : Array (Fl M)) (k : Nat)
    (s : (Mat (Fl M) × Array (Fl M)) × GTrace (Fl M)) : Prop where
  wf : WFn s.1.1 n
  sz : s.1.2.size = n
  good : s.2.reg = true → ∃ σ : Nat → Nat, PermOK n s.2.perm σ ∧
    (∀ r, r < n → LURowF (n + 1) (fun c => (aug n A b (s.2.perm r) c).val)
      (gW n (fun r => min r k) s.2.mult s.1.1 s.1.2) r (min r k)) ∧
    (∀ r c, r < n → c < min r k → |(s.2.mult r c).val| ≤ 1 + M.u)

theorem gaussStepT_fl (hu : M.u < 1) {n k : Nat} {A : Mat (Fl M)} {b : Array (Fl M)}
    {s s' : (Mat (Fl M) × Array (Fl M)) × GTrace (Fl M)} (hk : k < n)
    (hs : GInvF n A b k s) (h : gaussStepT s k = .ok s') : GInvF n A b (k + 1) s' := by
  unfold gaussStepT at h
  cases hp : partialPivotT s k with
  | error e => simp [hp, bind, Except.bind] at h
  | ok s1 =>
    simp only [hp, bind, Except.bind] at h
    unfold partialPivotT at hp
    cases hp0 : maxAbsInColumn s.1.1 k k with
    | error e => simp [hp0, bind, Except.bind] at hp
    | ok p =>
      cases hpp : partialPivot s.1.1 s.1.2 k with
      | error e => simp [hp0, hpp, bind, Except.bind] at hp
      | ok mx1 =>
        simp only [hp0, hpp, bind, Except.bind, pure, Except.pure] at hp
        injection hp with hp
        subst hp
        obtain ⟨m1, x1⟩ := mx1
        obtain ⟨hpn, hw1, hsz1, hent, hvf⟩ := partialPivot_struct hs.wf hs.sz hk hp0 hpp
        simp only [hw1.2.1] at h
        obtain ⟨hw2, hsz2, hperm2, hreg2⟩ := elimLoopT_struct (s := ((m1, x1), _)) hw1 hsz1 hk h
        simp only at hperm2 hreg2
        refine ⟨hw2, hsz2, ?_⟩
        intro hreg
        rw [hreg2] at hreg
        have hreg' : s.2.reg = true ∧ k ≤ p := by
          simpa using hreg
        obtain ⟨hreg0, hkp⟩ := hreg'
        obtain ⟨σ, hperm, hrows, hmult⟩ := hs.good hreg0
        obtain ⟨_, _, hdom, _⟩ := maxAbsInColumn_fl hs.wf hk hp0
        have hsw : ∀ r, r < n → swapIdx p k r < n := fun r hr => swapIdx_lt hpn hk hr
        have hmin : ∀ r, min (swapIdx p k r) k = min r k := by
          intro r; unfold swapIdx; split_ifs <;> omega
        have hfix : ∀ t, t < k → swapIdx p k t = t := by
          intro t ht; unfold swapIdx; split_ifs <;> omega
        -- the working array after the exchange is the row-permuted working array
        have hW : ∀ r c, r < n → c < n + 1 →
            gW n (fun r => min r k) (fun r c => s.2.mult (swapIdx p k r) c) m1 x1 r c
              = gW n (fun r => min r k) s.2.mult s.1.1 s.1.2 (swapIdx p k r) c := by
          intro r c hr hc
          simp only [gW, aug, hmin]
          by_cases hcn : c < n
          · simp only [hcn, if_true]
            rw [hent r c hr hcn]
          · simp only [hcn, if_false]
            rw [hvf r]
        have a1 : ∀ r, r < n → LURowF (n + 1)
            (fun c => (aug n A b (s.2.perm (swapIdx p k r)) c).val)
            (gW n (fun r => min r k) (fun r c => s.2.mult (swapIdx p k r) c) m1 x1) r (min r k) := by
          intro r hr
          have := hrows _ (hsw r hr)
          rw [hmin] at this
          refine LURowF.transfer (by omega) (fun c hc => hW r c hr hc) ?_ this
          intro t c ht hc
          have htk : t < k := by omega
          rw [hW t c (by omega) hc, hfix t htk]
        have a2 : ∀ i, k ≤ i → i < n → |(ent m1 i k).val| ≤ |(ent m1 k k).val| := by
          intro i hi1 hi2
          rw [hent i k hi2 hk, hent k k hk hk]
          have e1 : swapIdx p k k = p := by unfold swapIdx; split_ifs <;> omega
          rw [e1]
          refine hdom _ ?_ (hsw i hi2)
          unfold swapIdx; split_ifs <;> omega
        have a3 : ∀ r c, r < n → c < min r k → |(s.2.mult (swapIdx p k r) c).val| ≤ 1 + M.u := by
          intro r c hr hc
          exact hmult _ c (hsw r hr) (by rw [hmin]; exact hc)
        obtain ⟨g1, g2⟩ := gElimLoop_fl hu
          (fun r c => (aug n A b (s.2.perm (swapIdx p k r)) c).val)
          (s := ((m1, x1), ⟨fun r c => s.2.mult (swapIdx p k r) c, fun r => s.2.perm (swapIdx p k r),
            s.2.reg && decide (k ≤ p)⟩)) (s' := s') hw1 hsz1 hk a1 a2 a3 h
        refine ⟨fun j => swapIdx p k (σ j), ?_, ?_, g2⟩
        · rw [hperm2]
          exact hperm.swap hpn hk
        · intro r hr
          rw [hperm2]
          exact g1 r hr

/-- **the instrumented `gauss_with_pivot` in `Fl M`**: whenever it returns, the invariant holds
with `k = n - 1` -/
theorem gaussT_fl (hu : M.u < 1) {n : Nat} (hn : 1 ≤ n) {A : Mat (Fl M)} {b : Array (Fl M)}
    (hA : WFn A n) (hb : b.size = n) {s : (Mat (Fl M) × Array (Fl M)) × GTrace (Fl M)}
    (h : gaussT A b = .ok s) : GInvF n A b (n - 1) s := by
  unfold gaussT at h
  rw [hA.2.1] at h
  have hus : usub n 1 = .ok (n - 1) := by simp [usub, hn]
  simp only [hus, bind, Except.bind] at h
  refine forM'_ok_inv (fun k s => GInvF n A b k s) 0 (n - 1) _ s gaussStepT (Nat.zero_le _)
    ?init ?step h
  case init =>
    refine ⟨hA, hb, fun _ => ⟨fun r => r, PermOK.id n, ?_, ?_⟩⟩
    · intro r hr
      have : min r 0 = 0 := by omega
      rw [this]
      refine LURowF.init ?_
      intro c hc
      simp only [GTrace.init, gW]
      have : ¬ c < min r 0 := by omega
      simp only [this, if_false]
    · intro r c _ hc
      omega
  case step =>
    intro k s s1 _ hk hs hf
    exact gaussStepT_fl hu (by omega) hs hf

/-! ### from the row relation to `P·[A | b] = L̂·[Û | ŷ]` with perturbation factors -/

/-- the row relation `LURowF N B w r r` written with the unit lower factor `Lfn` of `w` and full
sums over `k < n` (any `n > r`): `B c = Σ_k l̂_rk · (û_kc · Θ_k)`, `û_kc = 0` below the diagonal -/
theorem LURowF_full_fn {N n : Nat} {B : Nat → ℝ} {w : Nat → Nat → Fl M} {r : Nat} (hr : r < n)
    (h : LURowF N B w r r) :
    ∀ c, c < N → ∃ Θ : Nat → ℝ, (∀ k, M.Th r (Θ k)) ∧
      B c = ∑ k ∈ Finset.range n, Lfn (fun a b => (w a b).val) r k *
        ((if c < k then 0 else (w k c).val) * Θ k) := by
  intro c hc
  obtain ⟨θ0, θ, h0, hθ, e⟩ := h c hc
  refine ⟨fun k => if k = r then θ0 else θ k, ?_, ?_⟩
  · intro k
    beta_reduce
    by_cases hk : k = r
    · rw [if_pos hk]; exact h0
    · rw [if_neg hk]; exact hθ k
  · rw [Lsum (fun a b => (w a b).val)
      (fun k => (if c < k then 0 else (w k c).val) * (if k = r then θ0 else θ k)) hr, e]
    have e1 : ∑ k ∈ Finset.range r, (w r k).val *
          ((if c < k then 0 else (w k c).val) * (if k = r then θ0 else θ k))
        = ∑ t ∈ Finset.range r, (if t ≤ c then (w r t).val * (w t c).val * θ t else 0) := by
      apply Finset.sum_congr rfl
      intro k hk
      have hkr : ¬ k = r := by have := Finset.mem_range.mp hk; omega
      rw [if_neg hkr]
      by_cases hkc : k ≤ c
      · have : ¬ c < k := by omega
        rw [if_pos hkc, if_neg this]; ring
      · have : c < k := by omega
        rw [if_neg hkc, if_pos this]; ring
    rw [e1, if_pos rfl]
    by_cases hcr : c < r
    · rw [if_pos hcr, if_pos hcr]; ring
    · rw [if_neg hcr, if_neg hcr]; ring

/-- **the computed factorisation of the augmented matrix**: at the end of the
instrumented elimination, with `L̂ = Lfn` of the recorded multipliers, `Û` the
upper triangle of the final matrix and `ŷ` the final right-hand side:
`a_{π r, c} = Σ_k l̂_rk û_kc Θ_k` and `b_{π r} = Σ_k l̂_rk ŷ_k Θ'_k`, every `Θ` a product of at most `r`
factors `(1+δ)^{±1}`; `π` is a permutation and `|l̂_rc| ≤ 1 + u` -/
theorem gauss_factor_fl (hu : M.u < 1) {n : Nat} (hn : 1 ≤ n) {A : Mat (Fl M)} {b : Array (Fl M)}
    (hA : WFn A n) (hb : b.size = n) {m' : Mat (Fl M)} {y : Array (Fl M)} {tr : GTrace (Fl M)}
    (h : gaussT A b = .ok ((m', y), tr)) :
    WFn m' n ∧ y.size = n ∧ ∃ σ : Nat → Nat, PermOK n tr.perm σ ∧
      (∀ r c, r < n → c < r → |(tr.mult r c).val| ≤ 1 + M.u) ∧
      (∀ r c, r < n → c < n → ∃ Θ : Nat → ℝ, (∀ k, M.Th r (Θ k)) ∧
        (ent A (tr.perm r) c).val = ∑ k ∈ Finset.range n,
          Lfn (fun a b => (tr.mult a b).val) r k * (Ufn n (valEnt m') k c * Θ k)) ∧
      (∀ r, r < n → ∃ Θ : Nat → ℝ, (∀ k, M.Th r (Θ k)) ∧
        (vf b (tr.perm r)).val = ∑ k ∈ Finset.range n,
          Lfn (fun a b => (tr.mult a b).val) r k * (Θ k * (vf y k).val)) := by
  have hinv := gaussT_fl hu hn hA hb h
  have hreg : tr.reg = true := gaussT_regular hA hb h
  obtain ⟨σ, hperm, hrows, hmult⟩ := hinv.good hreg
  simp only at hperm hrows hmult
  refine ⟨hinv.wf, hinv.sz, σ, hperm, ?_, ?_, ?_⟩
  · intro r c hr hc
    exact hmult r c hr (by omega)
  all_goals
    have hmin : ∀ r, r < n → min r (n - 1) = r := by intro r hr; omega
    have hL : ∀ r k, r < n →
        Lfn (fun a b => (gW n (fun r => min r (n - 1)) tr.mult m' y a b).val) r k
          = Lfn (fun a b => (tr.mult a b).val) r k := by
      intro r k hr
      simp only [Lfn, gW, hmin r hr]
      by_cases hkr : k < r
      · simp only [hkr, if_true]
      · simp only [hkr, if_false]
  · intro r c hr hc
    have hrow := hrows r hr
    rw [hmin r hr] at hrow
    obtain ⟨Θ, hΘ, e⟩ := LURowF_full_fn (n := n) hr hrow c (by omega)
    refine ⟨Θ, hΘ, ?_⟩
    simp only [aug, hc, if_true] at e
    rw [e]
    apply Finset.sum_congr rfl
    intro k hk
    have hkn := Finset.mem_range.mp hk
    rw [hL r k hr]
    congr 2
    simp only [Ufn, valEnt, gW, aug, hmin k hkn, hc, true_and]
    by_cases hck : c < k
    · simp only [hck, if_true]
    · simp only [hck, if_false, if_true]
  · intro r hr
    have hrow := hrows r hr
    rw [hmin r hr] at hrow
    obtain ⟨Θ, hΘ, e⟩ := LURowF_full_fn (n := n) hr hrow n (by omega)
    refine ⟨Θ, hΘ, ?_⟩
    simp only [aug, Nat.lt_irrefl, if_false] at e
    rw [e]
    apply Finset.sum_congr rfl
    intro k hk
    have hkn := Finset.mem_range.mp hk
    rw [hL r k hr]
    have c1 : ¬ n < k := by omega
    have c2 : ¬ n < min k (n - 1) := by omega
    simp only [gW, aug, c1, c2, Nat.lt_irrefl, if_false]
    ring

/-- **`solve_basic`, backward error, core**: an instrumented elimination followed by a
successful back substitution.  `ΔA'` is the perturbation of the row-permuted matrix; the
right-hand side is NOT perturbed (the perturbation factors of the transformed right-hand side play
the role of the forward substitution `L̂ŷ = Pb` and are moved into `ΔA'`). -/
theorem solveBasic_backward_core (hu : M.u < 1) {n : Nat} (hn : 1 ≤ n) {A : Mat (Fl M)}
    {b x : Array (Fl M)} (hA : WFn A n) (hb : b.size = n) {m' : Mat (Fl M)} {y : Array (Fl M)}
    {tr : GTrace (Fl M)} (hg : gaussT A b = .ok ((m', y), tr))
    (hbs : backsolve m' y = .ok x) :
    x.size = n ∧ (∀ i, i < n → (ent m' i i).val ≠ 0) ∧
    ∃ ΔA : Nat → Nat → ℝ,
      (∀ r, r < n → ∑ c ∈ Finset.range n,
        ((ent A (tr.perm r) c).val + ΔA r c) * (vf x c).val = (vf b (tr.perm r)).val) ∧
      ∀ r c, r < n → c < n → |ΔA r c| ≤ (M.gq (n - 1) + M.gq (2 * n - 1)) *
        ∑ k ∈ Finset.range n,
          |Lfn (fun a b => (tr.mult a b).val) r k| * |Ufn n (valEnt m') k c| := by
  obtain ⟨hwf, hsz, σ, hperm, hmult, hfa, hfb⟩ := gauss_factor_fl hu hn hA hb hg
  obtain ⟨hxs, mu, hmu, hU⟩ := backsolve_backward_ent hu hwf hsz hn hbs
  refine ⟨hxs, fun i hi => (hU i hi).1, ?_⟩
  have hΘ' : ∀ r c, ∃ Θ : Nat → ℝ, r < n → c < n → (∀ k, M.Th r (Θ k)) ∧
      (ent A (tr.perm r) c).val = ∑ k ∈ Finset.range n,
        Lfn (fun a b => (tr.mult a b).val) r k * (Ufn n (valEnt m') k c * Θ k) := by
    intro r c
    by_cases hrc : r < n ∧ c < n
    · obtain ⟨Θ, h1, h2⟩ := hfa r c hrc.1 hrc.2
      exact ⟨Θ, fun _ _ => ⟨h1, h2⟩⟩
    · exact ⟨fun _ => 1, fun h1 h2 => absurd ⟨h1, h2⟩ hrc⟩
  choose Θ hΘ using hΘ'
  have hlam' : ∀ r, ∃ lam : Nat → ℝ, r < n → (∀ k, M.Th r (lam k)) ∧
      (vf b (tr.perm r)).val = ∑ k ∈ Finset.range n,
        Lfn (fun a b => (tr.mult a b).val) r k * (lam k * (vf y k).val) := by
    intro r
    by_cases hr : r < n
    · obtain ⟨lam, h1, h2⟩ := hfb r hr
      exact ⟨lam, fun _ => ⟨h1, h2⟩⟩
    · exact ⟨fun _ => 1, fun h => absurd h hr⟩
  choose lam hlam using hlam'
  have hth : ∀ r k c, r < n → k < n → c < n → M.Th (2 * n - 1) (lam r k * mu k c) := by
    intro r k c hr hk hc
    exact (((hlam r hr).1 k).mul hu (hmu k c hk)).mono hu (by omega)
  exact lu_compose (Lfn (fun a b => (tr.mult a b).val)) (Ufn n (valEnt m'))
    (fun r c => (ent A (tr.perm r) c).val) (fun r => (vf b (tr.perm r)).val)
    (fun k => (vf y k).val) (fun c => (vf x c).val) Θ lam mu (M.gq (n - 1)) (M.gq (2 * n - 1))
    (fun r c hr hc => (hΘ r c hr hc).2)
    (fun r hr => ((hlam r hr).2).symm)
    (fun k hk => (hU k hk).2)
    (fun r c k hr hc hk =>
      (((hΘ r c hr hc).1 k).mono hu (show r ≤ n - 1 by omega)).abs_sub_one_le hu)
    (fun r k c hr hk hc => (hth r k c hr hk hc).abs_sub_one_le hu)

/-- **`solve_basic`, backward error, two-sided core**: the same run with the perturbation of the
transformed right-hand side kept on the right: `(PA + ΔA') x̂ = Pb + Δb'` with the smaller constant
`gq (n-1) + gq n` for the matrix and `gq (n-1)` for the right-hand side -/
theorem solveBasic_backward_core2 (hu : M.u < 1) {n : Nat} (hn : 1 ≤ n) {A : Mat (Fl M)}
    {b x : Array (Fl M)} (hA : WFn A n) (hb : b.size = n) {m' : Mat (Fl M)} {y : Array (Fl M)}
    {tr : GTrace (Fl M)} (hg : gaussT A b = .ok ((m', y), tr))
    (hbs : backsolve m' y = .ok x) :
    ∃ (ΔA : Nat → Nat → ℝ) (Δb : Nat → ℝ),
      (∀ r, r < n → ∑ c ∈ Finset.range n,
        ((ent A (tr.perm r) c).val + ΔA r c) * (vf x c).val = (vf b (tr.perm r)).val + Δb r) ∧
      (∀ r c, r < n → c < n → |ΔA r c| ≤ (M.gq (n - 1) + M.gq n) *
        ∑ k ∈ Finset.range n,
          |Lfn (fun a b => (tr.mult a b).val) r k| * |Ufn n (valEnt m') k c|) ∧
      (∀ r, r < n → |Δb r| ≤ M.gq (n - 1) *
        ∑ k ∈ Finset.range n, |Lfn (fun a b => (tr.mult a b).val) r k| * |(vf y k).val|) := by
  obtain ⟨hwf, hsz, σ, hperm, hmult, hfa, hfb⟩ := gauss_factor_fl hu hn hA hb hg
  obtain ⟨hxs, mu, hmu, hU⟩ := backsolve_backward_ent hu hwf hsz hn hbs
  have hΘ' : ∀ r c, ∃ Θ : Nat → ℝ, r < n → c < n → (∀ k, M.Th r (Θ k)) ∧
      (ent A (tr.perm r) c).val = ∑ k ∈ Finset.range n,
        Lfn (fun a b => (tr.mult a b).val) r k * (Ufn n (valEnt m') k c * Θ k) := by
    intro r c
    by_cases hrc : r < n ∧ c < n
    · obtain ⟨Θ, h1, h2⟩ := hfa r c hrc.1 hrc.2
      exact ⟨Θ, fun _ _ => ⟨h1, h2⟩⟩
    · exact ⟨fun _ => 1, fun h1 h2 => absurd ⟨h1, h2⟩ hrc⟩
  choose Θ hΘ using hΘ'
  obtain ⟨ΔA, h1, h2⟩ := lu_compose (Lfn (fun a b => (tr.mult a b).val)) (Ufn n (valEnt m'))
    (fun r c => (ent A (tr.perm r) c).val)
    (fun r => ∑ k ∈ Finset.range n, Lfn (fun a b => (tr.mult a b).val) r k * (1 * (vf y k).val))
    (fun k => (vf y k).val) (fun c => (vf x c).val) Θ (fun _ _ => 1) mu (M.gq (n - 1)) (M.gq n)
    (fun r c hr hc => (hΘ r c hr hc).2)
    (fun r hr => rfl)
    (fun k hk => (hU k hk).2)
    (fun r c k hr hc hk =>
      (((hΘ r c hr hc).1 k).mono hu (show r ≤ n - 1 by omega)).abs_sub_one_le hu)
    (fun r k c hr hk hc => by
      rw [one_mul]
      exact ((hmu k c hk).mono hu (show n - k ≤ n by omega)).abs_sub_one_le hu)
  refine ⟨ΔA, fun r => (∑ k ∈ Finset.range n,
      Lfn (fun a b => (tr.mult a b).val) r k * (1 * (vf y k).val)) - (vf b (tr.perm r)).val,
    ?_, h2, ?_⟩
  · intro r hr
    rw [h1 r hr]; ring
  · intro r hr
    obtain ⟨lam, hl1, hl2⟩ := hfb r hr
    beta_reduce
    rw [hl2, ← Finset.sum_sub_distrib, Finset.mul_sum]
    refine (Finset.abs_sum_le_sum_abs _ _).trans (Finset.sum_le_sum ?_)
    intro k _
    have h3 := ((hl1 k).mono hu (show r ≤ n - 1 by omega)).abs_sub_one_le hu
    have e2 : Lfn (fun a b => (tr.mult a b).val) r k * (1 * (vf y k).val)
        - Lfn (fun a b => (tr.mult a b).val) r k * (lam k * (vf y k).val)
        = Lfn (fun a b => (tr.mult a b).val) r k * (vf y k).val * (1 - lam k) := by ring
    rw [e2, abs_mul, abs_mul, abs_sub_comm]
    have h4 : 0 ≤ |Lfn (fun a b => (tr.mult a b).val) r k| * |(vf y k).val| := by positivity
    nlinarith

end GaussFl

end Mat
end Ohsl
