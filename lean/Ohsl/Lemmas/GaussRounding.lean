/-
  Ohsl.Lemmas.GaussRounding — backward error analysis of `Mat.solveBasic` (Gaussian elimination with
  partial pivoting applied to the matrix and the right-hand side simultaneously, then back
  substitution) in the "rounded reals" interpretation `Fl M`.  Helper file of Ohsl/Props/C01G.lean
  (read its header first); builds on Ohsl/Lemmas/LURounding.lean.

  Contents
  * `GTrace`, `partialPivotT`, `elimRowT`, `gaussStepT`, `gaussT`: the INSTRUMENTED run of
    `gauss_with_pivot`: the same computation (it calls the model's `maxAbsInColumn`, `partialPivot`,
    `elimRow`) which additionally RECORDS the multipliers `elem` (row-permuted along with the later
    exchanges), the row permutation, and whether every pivot search returned a row on or below the
    diagonal (`reg`).  `gaussT_fst`: forgetting the trace gives `gaussWithPivot` (any scalar type).
  * (S) `partialPivot_struct`, `elimRow_struct`, `elimLoopT_struct`, `forM'_congr`,
    `backsolve_congr_upper` (back substitution never reads below the diagonal).
  * (F) `maxAbsInColumn_fl`, `aug`, `gW`, `gElimLoop_fl`, `GInvF`, `gaussStepT_fl`, `gaussT_fl`: the
    invariant of the elimination — the row relation `LURowF` of LURounding.lean for the AUGMENTED
    matrix `[A | b]` (`n + 1` columns), with the recorded multipliers in the place of the entries
    below the diagonal (which `solve_basic` overwrites with rounded residues `≈ 0`).
  * (F) `LURowF_full_fn`, `gauss_factor_fl`, `solveBasic_backward_core`.
-/
import Ohsl.Lemmas.LURounding
import Mathlib.Tactic.SplitIfs
set_option linter.unusedSectionVars false
set_option linter.unusedVariables false
set_option linter.unusedSimpArgs false
namespace Ohsl
namespace Mat

/-! ### the instrumented run -/

section Trace
variable {K : Type} [Add K] [Sub K] [Mul K] [Neg K] [Zero K] [One K] [BEq K] [ScalarExt K]

/-- what the instrumented elimination records: the multipliers (`mult r c`, `c < r`: the multiplier
that eliminated column `c` of what is now row `r`), the row permutation (`perm r` is the row of the
input that is now row `r`) and `reg`: every pivot search so far returned a row on or below the
diagonal (`false` after the `max_index = 0` fallback to a row above the diagonal) -/
structure GTrace (K : Type) where
  mult : Nat → Nat → K
  perm : Nat → Nat
  reg : Bool

/-- nothing recorded yet -/
def GTrace.init : GTrace K := ⟨fun _ _ => 0, fun r => r, true⟩

/-- `partial_pivot`, recording the exchange -/
def partialPivotT (s : (Mat K × Array K) × GTrace K) (k : Nat) :
    Res ((Mat K × Array K) × GTrace K) := do
  let p ← maxAbsInColumn s.1.1 k k
  let mx ← partialPivot s.1.1 s.1.2 k
  pure (mx, { mult := fun r c => s.2.mult (swapIdx p k r) c
              perm := fun r => s.2.perm (swapIdx p k r)
              reg := s.2.reg && decide (k ≤ p) })

/-- one row elimination, recording the multiplier `elem` at position `(i, k)` -/
def elimRowT (k : Nat) (s : (Mat K × Array K) × GTrace K) (i : Nat) :
    Res ((Mat K × Array K) × GTrace K) := do
  let ik ← s.1.1.get i k
  let kk ← s.1.1.get k k
  let elem ← divM ik kk
  let mx ← elimRow k s.1 i
  pure (mx, { s.2 with mult := fun r c => if r = i ∧ c = k then elem else s.2.mult r c })

/-- one step of `gauss_with_pivot` (the body of its outer loop) -/
def gaussStep (mx : Mat K × Array K) (k : Nat) : Res (Mat K × Array K) := do
  let mx1 ← partialPivot mx.1 mx.2 k
  forM' (k + 1) mx1.1.rows mx1 (elimRow k)

/-- … instrumented -/
def gaussStepT (s : (Mat K × Array K) × GTrace K) (k : Nat) :
    Res ((Mat K × Array K) × GTrace K) := do
  let s1 ← partialPivotT s k
  forM' (k + 1) s1.1.1.rows s1 (elimRowT k)

/-- the instrumented `gauss_with_pivot` -/
def gaussT (m : Mat K) (x : Array K) : Res ((Mat K × Array K) × GTrace K) := do
  let n1 ← usub m.rows 1
  forM' 0 n1 ((m, x), GTrace.init) gaussStepT

theorem gaussWithPivot_eq (m : Mat K) (x : Array K) :
    gaussWithPivot m x = (do
      let n1 ← usub m.rows 1
      forM' 0 n1 (m, x) gaussStep) := by
  unfold gaussWithPivot
  cases usub m.rows 1 with
  | error e => rfl
  | ok n1 =>
    simp only [bind, Except.bind]
    congr 1

theorem foldlM_map_fst {σ τ : Type} (f : σ → Nat → Res σ) (g : σ × τ → Nat → Res (σ × τ))
    (h : ∀ s i, Except.map Prod.fst (g s i) = f s.1 i) :
    ∀ (l : List Nat) (s : σ × τ), Except.map Prod.fst (l.foldlM g s) = l.foldlM f s.1
  | [], s => rfl
  | i :: l, s => by
    simp only [List.foldlM_cons, bind, Except.bind]
    have := h s i
    cases hg : g s i with
    | error e =>
      rw [hg] at this
      simp only [Except.map] at this
      rw [← this]
      rfl
    | ok s1 =>
      rw [hg] at this
      simp only [Except.map] at this
      rw [← this]
      exact foldlM_map_fst f g h l s1

/-- a loop on an instrumented state projects to the loop on the plain state -/
theorem forM'_map_fst {σ τ : Type} (f : σ → Nat → Res σ) (g : σ × τ → Nat → Res (σ × τ))
    (h : ∀ s i, Except.map Prod.fst (g s i) = f s.1 i) (lo hi : Nat) (s : σ × τ) :
    Except.map Prod.fst (forM' lo hi s g) = forM' lo hi s.1 f :=
  foldlM_map_fst f g h _ s

theorem elimRowT_fst (k : Nat) (s : (Mat K × Array K) × GTrace K) (i : Nat) :
    Except.map Prod.fst (elimRowT k s i) = elimRow k s.1 i := by
  obtain ⟨⟨m, x⟩, tr⟩ := s
  unfold elimRowT
  simp only
  cases h1 : m.get i k with
  | error e => simp [elimRow, h1, bind, Except.bind, Except.map]
  | ok ik =>
    cases h2 : m.get k k with
    | error e => simp [elimRow, h1, h2, bind, Except.bind, Except.map]
    | ok kk =>
      cases h3 : divM ik kk with
      | error e => simp [elimRow, h1, h2, h3, bind, Except.bind, Except.map]
      | ok q =>
        cases h4 : elimRow k (m, x) i with
        | error e => simp [h3, h4, bind, Except.bind, Except.map]
        | ok mx => simp [h3, h4, bind, Except.bind, Except.map, pure, Except.pure]

theorem partialPivotT_fst (s : (Mat K × Array K) × GTrace K) (k : Nat) :
    Except.map Prod.fst (partialPivotT s k) = partialPivot s.1.1 s.1.2 k := by
  unfold partialPivotT
  cases h1 : maxAbsInColumn s.1.1 k k with
  | error e => simp [partialPivot, h1, bind, Except.bind, Except.map]
  | ok p =>
    cases h2 : partialPivot s.1.1 s.1.2 k with
    | error e => simp [bind, Except.bind, Except.map]
    | ok mx => simp [bind, Except.bind, Except.map, pure, Except.pure]

theorem gaussStepT_fst (s : (Mat K × Array K) × GTrace K) (k : Nat) :
    Except.map Prod.fst (gaussStepT s k) = gaussStep s.1 k := by
  unfold gaussStepT gaussStep
  have h1 := partialPivotT_fst s k
  cases hp : partialPivotT s k with
  | error e =>
    rw [hp] at h1
    simp only [Except.map] at h1
    rw [← h1]
    rfl
  | ok s1 =>
    rw [hp] at h1
    simp only [Except.map] at h1
    rw [← h1]
    simp only [bind, Except.bind]
    exact forM'_map_fst (elimRow k) (elimRowT k) (elimRowT_fst k) _ _ s1

/-- **forgetting the trace gives the model's `gauss_with_pivot`** (any scalar type, failures
included) -/
theorem gaussT_fst (m : Mat K) (x : Array K) :
    Except.map Prod.fst (gaussT m x) = gaussWithPivot m x := by
  rw [gaussWithPivot_eq]
  unfold gaussT
  cases usub m.rows 1 with
  | error e => rfl
  | ok n1 =>
    simp only [bind, Except.bind]
    exact forM'_map_fst gaussStep gaussStepT gaussStepT_fst 0 n1 ((m, x), GTrace.init)

/-- every successful run of `gauss_with_pivot` is the projection of a successful instrumented run -/
theorem gaussT_of_gauss {m : Mat K} {x : Array K} {mx : Mat K × Array K}
    (h : gaussWithPivot m x = .ok mx) : ∃ tr, gaussT m x = .ok (mx, tr) := by
  have := gaussT_fst m x
  rw [h] at this
  cases hg : gaussT m x with
  | error e => rw [hg] at this; simp [Except.map] at this
  | ok s =>
    rw [hg] at this
    simp only [Except.map] at this
    injection this with this
    exact ⟨s.2, by rw [← this]⟩

end Trace

/-! ### structural descriptions (any scalar type) -/

section Structural
variable {K : Type} [Add K] [Sub K] [Mul K] [Neg K] [Zero K] [One K] [BEq K] [ScalarExt K]

/-- (S) `partial_pivot` with the row `p` found by the pivot search: rows `p` and `k` of the matrix
and of the right-hand side are exchanged, nothing else changes -/
theorem partialPivot_struct {m : Mat K} {x : Array K} {n k p : Nat} (hm : WFn m n) (hx : x.size = n)
    (hk : k < n) (hp : maxAbsInColumn m k k = .ok p) {m' : Mat K} {x' : Array K}
    (h : partialPivot m x k = .ok (m', x')) :
    p < n ∧ WFn m' n ∧ x'.size = n ∧
      (∀ a b, a < n → b < n → ent m' a b = ent m (swapIdx p k a) b) ∧
      (∀ a, vf x' a = vf x (swapIdx p k a)) := by
  unfold partialPivot at h
  simp only [hp, bind, Except.bind] at h
  by_cases hpn : p < n
  · obtain ⟨m1, hm1, hI⟩ := swapRows_spec_ss hm.is hpn hk
    obtain ⟨x1, hx1, hs1, hv1⟩ := vswap_spec (x := x) (p := p) (k := k) (by omega) (by omega)
    simp only [hm1, hx1, pure, Except.pure] at h
    injection h with h
    injection h with h1 h2
    subst h1; subst h2
    refine ⟨hpn, hI.wfn, by omega, ?_, ?_⟩
    · intro a b ha hb
      rw [hI.ent_eq ha hb]
      unfold swapIdx
      split_ifs <;> rfl
    · intro a
      rw [hv1 a]
      unfold swapIdx
      by_cases h1 : a = p
      · by_cases h2 : a = k
        · subst h1; subst h2; simp
        · subst h1; simp [h2]
      · by_cases h2 : a = k
        · subst h2; simp [h1]
        · simp [h1, h2]
  · have : m.rows ≤ p := by rw [hm.2.1]; omega
    simp [swapRows, this] at h

/-- (S) one row elimination, whenever it returns: the division succeeded with quotient `q`
(`elem`), row `i` is updated in the columns `k ≤ b` (column `k` INCLUDED: entry `(i,k)` becomes
`m_ik - q·m_kk`, not `0`), component `i` of the right-hand side is updated, nothing else changes -/
theorem elimRow_struct {m : Mat K} {x : Array K} {n k i : Nat} (hm : WFn m n) (hx : x.size = n)
    (hk : k < n) (hi : i < n) (hki : k ≠ i) {m' : Mat K} {x' : Array K}
    (h : elimRow k (m, x) i = .ok (m', x')) :
    ∃ q, divM (ent m i k) (ent m k k) = .ok q ∧ WFn m' n ∧ x'.size = n ∧
    (∀ a b, a < n → b < n → ent m' a b =
        if a = i ∧ k ≤ b then ent m i b - q * ent m k b else ent m a b) ∧
    (∀ a, vf x' a = if a = i then vf x i - q * vf x k else vf x a) := by
  unfold elimRow at h
  simp only [hm.get hi hk, hm.get hk hk, bind, Except.bind] at h
  cases hq : divM (ent m i k) (ent m k k) with
  | error e => rw [hq] at h; simp at h
  | ok q =>
  refine ⟨q, rfl, ?_⟩
  rw [hq] at h
  simp only at h
  obtain ⟨m1, hm1, hP⟩ := forM'_inv
    (fun t (s : Mat K) => Is s n n (fun a b => if a = i ∧ k ≤ b ∧ b < t then
      ent m i b - q * ent m k b else ent m a b))
    k m.rows m (fun s j => do
      let kj ← s.get k j
      let ij ← s.get i j
      s.set i j (ij - q * kj)) (by rw [hm.2.1]; omega)
    (by
      have := hm.is
      refine ⟨this.wf, this.rows, this.cols, ?_⟩
      intro a b ha hb
      rw [this.entry a b ha hb]
      congr 1
      have : ¬ (a = i ∧ k ≤ b ∧ b < k) := by omega
      simp [this]) (by
      intro t s ht1 ht2 hs
      rw [hm.2.1] at ht2
      obtain ⟨s', hs', hI⟩ := hs.set hi ht2 (ent m i t - q * ent m k t)
      refine ⟨s', ?_, ⟨hI.wf, hI.rows, hI.cols, ?_⟩⟩
      · have e1 := hs.entry k t hk ht2
        have e2 := hs.entry i t hi ht2
        simp only [hki, Nat.lt_irrefl, and_false, false_and, if_false] at e1 e2
        simp only [e1, e2, bind, Except.bind]
        exact hs'
      · intro a b ha hb
        rw [hI.entry a b ha hb]
        congr 1
        by_cases hab : a = i ∧ b = t
        · obtain ⟨rfl, rfl⟩ := hab
          have : k ≤ b ∧ b < b + 1 := by omega
          simp [this]
        · have e1 : (a = i ∧ k ≤ b ∧ b < t + 1) = (a = i ∧ k ≤ b ∧ b < t) := by
            apply propext; omega
          simp only [hab, if_false, e1])
  simp only [bind, Except.bind] at hm1
  rw [hm1] at h
  have hxk : k < x.size := by omega
  have hxi : i < x.size := by omega
  simp only [aget_vf hxk, aget_vf hxi, aset_ok _ hxi, pure, Except.pure] at h
  injection h with h
  injection h with h1 h2
  subst h1; subst h2
  refine ⟨hP.wfn, by simpa using hx, ?_, ?_⟩
  · intro a b ha hb
    rw [hP.ent_eq ha hb]
    have e1 : (a = i ∧ k ≤ b ∧ b < m.rows) = (a = i ∧ k ≤ b) := by
      apply propext; rw [hm.2.1]; omega
    simp only [e1]
  · intro a
    rw [vf_set _ hxi]

/-- (S) a successful instrumented row elimination: the recorded multiplier is the quotient the
model's `elimRow` computed -/
theorem elimRowT_ok {n k i : Nat} {s s1 : (Mat K × Array K) × GTrace K} (hm : WFn s.1.1 n)
    (hk : k < n) (hi : i < n) (h : elimRowT k s i = .ok s1) :
    ∃ q, divM (ent s.1.1 i k) (ent s.1.1 k k) = .ok q ∧ elimRow k s.1 i = .ok s1.1 ∧
      s1.2.mult = (fun r c => if r = i ∧ c = k then q else s.2.mult r c) ∧
      s1.2.perm = s.2.perm ∧ s1.2.reg = s.2.reg := by
  unfold elimRowT at h
  simp only [hm.get hi hk, hm.get hk hk, bind, Except.bind] at h
  cases hq : divM (ent s.1.1 i k) (ent s.1.1 k k) with
  | error e => rw [hq] at h; simp at h
  | ok q =>
    rw [hq] at h
    simp only at h
    cases he : elimRow k s.1 i with
    | error e => rw [he] at h; simp at h
    | ok mx =>
      rw [he] at h
      simp only [pure, Except.pure] at h
      injection h with h
      subst h
      exact ⟨q, rfl, rfl, rfl, rfl, rfl⟩

/-- (S) the instrumented row loop keeps the shapes, the permutation and the flag -/
theorem elimLoopT_struct {n k : Nat} {s s' : (Mat K × Array K) × GTrace K} (hm : WFn s.1.1 n)
    (hx : s.1.2.size = n) (hk : k < n) (h : forM' (k + 1) n s (elimRowT k) = .ok s') :
    WFn s'.1.1 n ∧ s'.1.2.size = n ∧ s'.2.perm = s.2.perm ∧ s'.2.reg = s.2.reg := by
  refine forM'_ok_inv
    (fun t (u : (Mat K × Array K) × GTrace K) => WFn u.1.1 n ∧ u.1.2.size = n ∧
      u.2.perm = s.2.perm ∧ u.2.reg = s.2.reg)
    (k + 1) n s s' (elimRowT k) (by omega) ⟨hm, hx, rfl, rfl⟩ ?_ h
  intro j u u1 hj1 hj2 ⟨hw, hsz, h1, h2⟩ hf
  obtain ⟨q, _, he, _, hp, hr⟩ := elimRowT_ok hw hk hj2 hf
  obtain ⟨⟨mu, xu⟩, tu⟩ := u
  obtain ⟨⟨m1, x1⟩, t1⟩ := u1
  obtain ⟨_, _, hw1, hsz1, _, _⟩ := elimRow_struct hw hsz hk hj2 (by omega) he
  exact ⟨hw1, hsz1, hp.trans h1, hr.trans h2⟩

theorem foldlM_congr_mem {σ : Type} (f g : σ → Nat → Res σ) :
    ∀ (l : List Nat) (s : σ), (∀ i ∈ l, ∀ s, f s i = g s i) → l.foldlM f s = l.foldlM g s
  | [], s, _ => rfl
  | i :: l, s, h => by
    simp only [List.foldlM_cons, bind, Except.bind]
    rw [h i (List.mem_cons_self ..) s]
    cases g s i with
    | error e => rfl
    | ok s1 => exact foldlM_congr_mem f g l s1 (fun j hj => h j (List.mem_cons_of_mem _ hj))

/-- two loop bodies that agree on the index range give the same loop -/
theorem forM'_congr {σ : Type} (f g : σ → Nat → Res σ) (lo hi : Nat)
    (h : ∀ i, lo ≤ i → i < hi → ∀ s, f s i = g s i) (s : σ) :
    forM' lo hi s f = forM' lo hi s g := by
  unfold forM'
  apply foldlM_congr_mem
  intro i hi' s
  have := List.mem_range'_1.mp hi'
  exact h i this.1 (by omega) s

/-- the body of the outer loop of `backsolve` -/
def backBody (m : Mat K) (x : Array K) (n : Nat) : Res (Array K) := do
  let k ← usub m.rows n
  let x ← forM' (m.rows - n + 1) m.rows x (fun x j => do
    let xj ← aget x j
    let xk ← aget x k
    let kj ← m.get k j
    aset x k (xk - kj * xj))
  let xk ← aget x k
  let kk ← m.get k k
  let q ← divM xk kk
  aset x k q

theorem backsolve_eq (m : Mat K) (x : Array K) :
    backsolve m x = (do
      let last ← usub m.rows 1
      let xl ← aget x last
      let d ← m.get last last
      let q ← divM xl d
      let x ← aset x last q
      forM' 2 (m.rows + 1) x (backBody m)) := rfl

/-- (S) **`backsolve` never reads below the diagonal**: two matrices with the same number of rows
whose reads `get i j` agree for `i ≤ j` give the same result (value or failure), for every
right-hand side.  In particular the rounded residues that `solve_basic` leaves below the diagonal
(instead of exact zeros) do not influence the solution. -/
theorem backsolve_congr_upper {m m' : Mat K} (hr : m'.rows = m.rows)
    (hg : ∀ i j, i ≤ j → j < m.rows → m'.get i j = m.get i j) (x : Array K) :
    backsolve m' x = backsolve m x := by
  rw [backsolve_eq, backsolve_eq, hr]
  by_cases hn : 1 ≤ m.rows
  · have hu : usub m.rows 1 = .ok (m.rows - 1) := by simp [usub, hn]
    have hb : ∀ y : Array K, forM' 2 (m.rows + 1) y (backBody m')
        = forM' 2 (m.rows + 1) y (backBody m) := by
      intro y
      apply forM'_congr
      intro nn h1 h2 z
      unfold backBody
      rw [hr]
      have hus : usub m.rows nn = .ok (m.rows - nn) := by
        have : nn ≤ m.rows := by omega
        simp [usub, this]
      simp only [hus, bind, Except.bind]
      have hin : forM' (m.rows - nn + 1) m.rows z (fun x j => do
            let xj ← aget x j
            let xk ← aget x (m.rows - nn)
            let kj ← m'.get (m.rows - nn) j
            aset x (m.rows - nn) (xk - kj * xj))
          = forM' (m.rows - nn + 1) m.rows z (fun x j => do
            let xj ← aget x j
            let xk ← aget x (m.rows - nn)
            let kj ← m.get (m.rows - nn) j
            aset x (m.rows - nn) (xk - kj * xj)) := by
        apply forM'_congr
        intro j hj1 hj2 w
        simp only [hg (m.rows - nn) j (by omega) hj2]
      simp only [bind, Except.bind] at hin
      rw [hin, hg (m.rows - nn) (m.rows - nn) (Nat.le_refl _) (by omega)]
    simp only [hu, bind, Except.bind, hb]
    rw [hg (m.rows - 1) (m.rows - 1) (Nat.le_refl _) (by omega)]
  · have hu : usub m.rows 1 = .error .arith := by simp [usub, hn]
    simp only [hu, bind, Except.bind]

end Structural

end Mat
end Ohsl
