/-
  Ohsl.Lemmas.C19H — the tokeniser of `Fmt.read` and the placement of tokens in the mesh
  (model: Ohsl/Model/Fmt.lean).  Class (S): arbitrary characters / strings / token lists; nothing
  here depends on what `Fmt.fixed` prints or on what `Fmt.parse` returns.

  1. `Tok.tokL`, `Tok.tokens`: the tokeniser of `Fmt.read` on character lists / strings;
     `tokL_sep_cons`, `tokL_word_sep`, `tokL_words`, `tokL_lines`, `tokens_lines`
  2. `foldl_append2_toList`: text accumulated by a `foldl` of `acc ++ f i ++ g i`
  3. `getElem?_flatMap_range`: entry `i * k + j` of a concatenation of `n` blocks of length `k`
  4. `Fmt.readToks` (`Fmt.read` on the token list), `read_eq_readToks`,
     `readToks_nodes`, `readToks_vars_size`, `readToks_rows`, `readToks_vars` (loop invariant: `place_inv`)
-/
import Ohsl.Model.Fmt
set_option linter.unusedSectionVars false
set_option linter.unusedVariables false
set_option linter.unusedSimpArgs false
namespace Ohsl

/-! ## shape predicates for one-dimensional meshes -/

namespace Mesh1
variable {T X : Type}

/-- every stored row has `nvars` entries (what `Mesh1D::new` establishes and every method keeps) -/
def RowsOk (m : Mesh1 T X) : Prop := ∀ i (h : i < m.vars.size), m.vars[i].size = m.nvars

/-- a well-shaped mesh with `n` nodes: `n` node coordinates, `n` rows of `nvars` values -/
def Shaped (m : Mesh1 T X) (n : Nat) : Prop :=
  m.nodes.size = n ∧ m.vars.size = n ∧ m.RowsOk

end Mesh1

namespace Tok

/-! ## 1. the tokeniser -/

/-- the separators of the tokeniser in `Fmt.read` -/
def isSep (c : Char) : Bool := c == ' ' || c == '\n' || c == '\t'

/-- tokeniser on character lists: split at every separator, drop the empty pieces -/
noncomputable def tokL (p : Char → Bool) (cs : List Char) : List (List Char) :=
  (cs.splitOnP p).filter (· ≠ [])

/-- the token list that `Fmt.read` forms from the text -/
def tokens (text : String) : List String :=
  ((text.split (fun c => c == ' ' || c == '\n' || c == '\t')).toList.map (·.toString)).filter (· ≠ "")

theorem ofList_ne_empty_iff (cs : List Char) : String.ofList cs ≠ "" ↔ cs ≠ [] := by
  constructor
  · rintro h rfl; exact h rfl
  · intro h he
    have := congrArg String.toList he
    simp at this
    exact h this

/-- the string tokeniser is the character-list tokeniser -/
theorem tokens_eq (text : String) : tokens text = (tokL isSep text.toList).map String.ofList := by
  have h : (text.split (fun c => c == ' ' || c == '\n' || c == '\t')).toList.map (·.toString)
      = (text.toList.splitOnP isSep).map String.ofList := by
    rw [← String.toList_split_bool]; rfl
  unfold tokens tokL
  rw [h, List.filter_map]
  congr 1
  apply List.filter_congr
  intro cs _
  by_cases hc : cs = []
  · subst hc; simp
  · have := (ofList_ne_empty_iff cs).2 hc
    simp [hc, this]

theorem tokL_nil (p : Char → Bool) : tokL p [] = [] := by
  simp [tokL, List.splitOnP_nil]

/-- a separator in front is skipped -/
theorem tokL_sep_cons {p : Char → Bool} {c : Char} (hc : p c = true) (rest : List Char) :
    tokL p (c :: rest) = tokL p rest := by
  have := List.splitOnP_append_cons_of_forall_mem (p := p) (xs := []) (by simp) c hc rest
  simp only [List.nil_append] at this
  simp [tokL, this]

/-- a non-empty separator-free word followed by a separator is the first token -/
theorem tokL_word_sep {p : Char → Bool} {w : List Char} {c : Char}
    (hw : ∀ x ∈ w, p x = false) (hne : w ≠ []) (hc : p c = true) (rest : List Char) :
    tokL p (w ++ c :: rest) = w :: tokL p rest := by
  simp [tokL, List.splitOnP_append_cons_of_forall_mem hw c hc rest, hne]

/-- a separator-free text is one token -/
theorem tokL_word {p : Char → Bool} {w : List Char} (hw : ∀ x ∈ w, p x = false) (hne : w ≠ []) :
    tokL p w = [w] := by
  simp [tokL, List.splitOnP_eq_singleton hw, hne]

/-- a word: non-empty and free of separators -/
def Word (p : Char → Bool) (w : List Char) : Prop := w ≠ [] ∧ ∀ x ∈ w, p x = false

/-- words each followed by one separator are read back as these words -/
theorem tokL_words {p : Char → Bool} {sep : Char} (hs : p sep = true) (ws : List (List Char))
    (hws : ∀ w ∈ ws, Word p w) (rest : List Char) :
    tokL p (ws.flatMap (fun w => w ++ [sep]) ++ rest) = ws ++ tokL p rest := by
  induction ws with
  | nil => simp
  | cons w ws ih =>
    have hw := hws w List.mem_cons_self
    have := ih (fun w' h' => hws w' (List.mem_cons_of_mem _ h'))
    simp only [List.flatMap_cons, List.append_assoc, List.singleton_append, List.cons_append]
    rw [tokL_word_sep hw.2 hw.1 hs, List.nil_append, this]

/-- lines of words, each word followed by `sep`, each line closed by `eol`: the tokens are the
words in reading order (this is the layout `Mesh1D::output` writes) -/
theorem tokL_lines {p : Char → Bool} {sep eol : Char} (hs : p sep = true) (he : p eol = true)
    (lines : List (List (List Char))) (hl : ∀ l ∈ lines, ∀ w ∈ l, Word p w) :
    tokL p (lines.flatMap (fun l => l.flatMap (fun w => w ++ [sep]) ++ [eol])) = lines.flatten := by
  induction lines with
  | nil => simp [tokL_nil]
  | cons l ls ih =>
    have := ih (fun l' h' => hl l' (List.mem_cons_of_mem _ h'))
    simp only [List.flatMap_cons, List.append_assoc, List.singleton_append, List.flatten_cons]
    rw [tokL_words hs l (hl l List.mem_cons_self), tokL_sep_cons he, this]

/-- string form of `tokL_lines` with the separators of `Fmt.read`: space after each word, newline
after each line -/
theorem tokens_lines (text : String) (lines : List (List String))
    (hl : ∀ l ∈ lines, ∀ w ∈ l, Word isSep w.toList)
    (ht : text.toList = lines.flatMap (fun l => l.flatMap (fun w => w.toList ++ [' ']) ++ ['\n'])) :
    tokens text = lines.flatten := by
  have h := tokL_lines (p := isSep) (sep := ' ') (eol := '\n') (by decide) (by decide)
    (lines.map (fun l => l.map String.toList)) (by
      intro l hl' w hw
      obtain ⟨l0, hl0, rfl⟩ := List.mem_map.1 hl'
      obtain ⟨w0, hw0, rfl⟩ := List.mem_map.1 hw
      exact hl l0 hl0 w0 hw0)
  have e : (lines.map (fun l => l.map String.toList)).flatMap
      (fun l => l.flatMap (fun w => w ++ [' ']) ++ ['\n']) = text.toList := by
    rw [ht, List.flatMap_map]
    congr 1
    funext l
    rw [List.flatMap_map]
  rw [tokens_eq, ← e, h]
  simp [List.map_flatten, List.map_map, Function.comp_def]

/-! ## 2. text accumulated by a fold -/

theorem foldl_append2_toList {ι : Type} (f g : ι → String) (l : List ι) (init : String) :
    (l.foldl (fun acc i => acc ++ f i ++ g i) init).toList
      = init.toList ++ l.flatMap (fun i => (f i).toList ++ (g i).toList) := by
  induction l generalizing init with
  | nil => simp
  | cons a l ih => simp [ih, String.toList_append]

/-! ## 3. indexing a concatenation of blocks of equal length -/

theorem length_flatMap_range {α : Type} (f : Nat → List α) (k : Nat) (hf : ∀ i, (f i).length = k)
    (n : Nat) : ((List.range n).flatMap f).length = n * k := by
  induction n with
  | zero => simp
  | succ n ih => rw [List.range_succ, List.flatMap_append, List.length_append, ih]; simp [hf, Nat.succ_mul]

theorem mul_add_lt_mul {i n k j : Nat} (hi : i < n) (hj : j < k) : i * k + j < n * k := by
  have h1 : (i + 1) * k ≤ n * k := Nat.mul_le_mul_right k hi
  rw [Nat.succ_mul] at h1
  omega

/-- entry `i * k + j` of `f 0 ++ f 1 ++ … ++ f (n-1)` (all of length `k`) is entry `j` of `f i` -/
theorem getElem?_flatMap_range {α : Type} (f : Nat → List α) (k : Nat) (hf : ∀ i, (f i).length = k)
    (n i j : Nat) (hi : i < n) (hj : j < k) :
    ((List.range n).flatMap f)[i * k + j]? = (f i)[j]? := by
  induction n with
  | zero => omega
  | succ n ih =>
    rw [List.range_succ, List.flatMap_append]
    rcases Nat.lt_or_ge i n with h | h
    · rw [List.getElem?_append_left (by rw [length_flatMap_range f k hf]; exact mul_add_lt_mul h hj)]
      exact ih h
    · have : i = n := by omega
      subst this
      rw [List.getElem?_append_right (by rw [length_flatMap_range f k hf]; omega),
        length_flatMap_range f k hf]
      simp

/-! ## 4. `Fmt.read` on the token list -/

theorem filter_eq_zero_range (k : Nat) (hk : 0 < k) :
    (List.range k).filter (fun x => x % k == 0) = [0] := by
  obtain ⟨k, rfl⟩ : ∃ k', k = k' + 1 := ⟨k - 1, by omega⟩
  rw [List.range_succ_eq_map, List.filter_cons]
  simp only [Nat.zero_mod, beq_self_eq_true, if_true, List.cons.injEq, true_and]
  rw [List.filter_eq_nil_iff]
  intro x hx
  obtain ⟨y, hy, rfl⟩ := List.mem_map.1 hx
  have hy' : y < k := List.mem_range.1 hy
  rw [Nat.mod_eq_of_lt (by omega)]
  simp

/-- the token indices holding node coordinates: `0, k, 2k, …` -/
theorem filter_mod_range (k n : Nat) (hk : 0 < k) :
    (List.range (n * k)).filter (fun x => x % k == 0) = (List.range n).map (· * k) := by
  induction n with
  | zero => simp
  | succ n ih =>
    rw [Nat.succ_mul, List.range_add, List.filter_append, ih, List.range_succ, List.map_append,
      List.filter_map]
    congr 1
    have : ((fun x => x % k == 0) ∘ fun x => n * k + x) = fun x => x % k == 0 := by
      funext x
      simp only [Function.comp]
      rw [Nat.mul_comm n k, Nat.mul_add_mod]
    rw [this, filter_eq_zero_range k hk]
    simp

/-- entry `(a, b)` of a jagged array, if present -/
def get2 {α : Type} (vs : Array (Array α)) (a b : Nat) : Option α := vs[a]?.bind (·[b]?)

theorem get2_modify_same {α : Type} (vs : Array (Array α)) (a b : Nat) (v : α) (row : Array α)
    (hr : vs[a]? = some row) (hb : b < row.size) :
    get2 (vs.modify a (fun r => r.setIfInBounds b v)) a b = some v := by
  simp [get2, Array.getElem?_modify, hr, Array.getElem?_setIfInBounds, hb]

theorem get2_modify_other {α : Type} (vs : Array (Array α)) (a0 b0 a b : Nat) (v : α)
    (h : ¬ (a0 = a ∧ b0 = b)) :
    get2 (vs.modify a0 (fun r => r.setIfInBounds b0 v)) a b = get2 vs a b := by
  simp only [get2, Array.getElem?_modify]
  by_cases ha : a0 = a
  · subst ha
    have hb : ¬ b0 = b := fun hb => h ⟨rfl, hb⟩
    cases hv : vs[a0]? with
    | none => simp
    | some row => simp [Array.getElem?_setIfInBounds, hb]
  · simp [ha]

/-- all rows have `w` entries -/
@[reducible] def RowsHave {α : Type} (vs : Array (Array α)) (w : Nat) : Prop :=
  ∀ (a : Nat) (row : Array α), vs[a]? = some row → row.size = w

theorem RowsHave.modify {α : Type} {vs : Array (Array α)} {w : Nat} (h : RowsHave vs w)
    (a b : Nat) (v : α) : RowsHave (vs.modify a (fun r => r.setIfInBounds b v)) w := by
  intro a' row hr
  rw [Array.getElem?_modify] at hr
  split at hr
  · cases hv : vs[a']? with
    | none => simp [hv] at hr
    | some r0 =>
      simp only [hv, Option.map_some, Option.some.injEq] at hr
      subst hr
      rw [Array.size_setIfInBounds]
      exact h a' r0 hv
  · exact h a' row hr

theorem get2_eq_getElem {α : Type} (vs : Array (Array α)) (a b : Nat) (v : α)
    (h : get2 vs a b = some v) : ∃ (ha : a < vs.size) (hb : b < vs[a].size), vs[a][b] = v := by
  unfold get2 at h
  cases hv : vs[a]? with
  | none => simp [hv] at h
  | some row =>
    obtain ⟨ha, hrow⟩ := Array.getElem?_eq_some_iff.1 hv
    simp only [hv, Option.bind_some] at h
    obtain ⟨hb, hval⟩ := Array.getElem?_eq_some_iff.1 h
    subst hrow
    exact ⟨ha, hb, hval⟩

end Tok

namespace Fmt
open Tok

/-- `Fmt.read` with the tokenisation factored out: what `Mesh1D::read` does with the token list -/
def readToks (m : Mesh1 Float Float) (toks : List String) : Mesh1 Float Float :=
  let k := m.nvars + 1
  let nodes := ((List.range toks.length).filter (· % k == 0)).map (fun i => parse (toks[i]?.getD "0"))
  let nn := nodes.length
  let vars0 : Array (Array Float) :=
    if nn ≤ m.vars.size then m.vars.extract 0 nn else m.vars ++ Array.replicate (nn - m.vars.size) (Array.replicate m.nvars 0.0)
  let vars := (List.range toks.length).foldl (fun (vs : Array (Array Float)) i =>
    if i % k == 0 then vs
    else
      let node := i / k
      let var := i % k - 1
      vs.modify node (fun row => row.setIfInBounds var (parse (toks[i]?.getD "0")))) vars0
  { m with nodes := nodes.toArray, vars := vars }

theorem read_eq_readToks (m : Mesh1 Float Float) (text : String) :
    read m text = readToks m (tokens text) := rfl

theorem readToks_nvars (m : Mesh1 Float Float) (toks : List String) :
    (readToks m toks).nvars = m.nvars := rfl

/-- the node list: token `i * (nvars+1)` is node `i` -/
theorem readToks_nodes (m : Mesh1 Float Float) (toks : List String) (n : Nat)
    (hlen : toks.length = n * (m.nvars + 1)) :
    (readToks m toks).nodes
      = ((List.range n).map (fun i => parse (toks[i * (m.nvars + 1)]?.getD "0"))).toArray := by
  unfold readToks
  simp only [hlen, filter_mod_range (m.nvars + 1) n (Nat.succ_pos _), List.map_map]
  rfl

/-- the resized variable array `self.vars.resize(nodes.size(), vec![0.0; nvars])` -/
def resized (m : Mesh1 Float Float) (nn : Nat) : Array (Array Float) :=
  if nn ≤ m.vars.size then m.vars.extract 0 nn
  else m.vars ++ Array.replicate (nn - m.vars.size) (Array.replicate m.nvars 0.0)

theorem resized_size (m : Mesh1 Float Float) (nn : Nat) : (resized m nn).size = nn := by
  unfold resized
  split
  · rw [Array.size_extract]; omega
  · rw [Array.size_append, Array.size_replicate]; omega

theorem resized_rows (m : Mesh1 Float Float) (hm : m.RowsOk) (nn : Nat) :
    RowsHave (resized m nn) m.nvars := by
  intro a row hr
  unfold resized at hr
  split at hr
  · rw [Array.getElem?_extract] at hr
    split at hr
    · obtain ⟨ha, rfl⟩ := Array.getElem?_eq_some_iff.1 hr
      exact hm _ ha
    · cases hr
  · rw [Array.getElem?_append] at hr
    split at hr
    · obtain ⟨ha, rfl⟩ := Array.getElem?_eq_some_iff.1 hr
      exact hm _ ha
    · rw [Array.getElem?_replicate] at hr
      split at hr
      · cases hr; simp
      · cases hr

/-- one step of the placement loop of `Mesh1D::read` -/
def place (k : Nat) (toks : List String) (vs : Array (Array Float)) (i : Nat) : Array (Array Float) :=
  if i % k == 0 then vs
  else vs.modify (i / k) (fun row => row.setIfInBounds (i % k - 1) (parse (toks[i]?.getD "0")))

/-- the loop invariant: after the first `t` tokens, every variable token `j < t` sits at row `j / k`,
column `j % k - 1`; the shape is unchanged -/
theorem place_inv (w n : Nat) (toks : List String) (vars0 : Array (Array Float))
    (hs : vars0.size = n) (hr : RowsHave vars0 w) (t : Nat) (ht : t ≤ n * (w + 1)) :
    let vs := (List.range t).foldl (place (w + 1) toks) vars0
    vs.size = n ∧ RowsHave vs w ∧
      ∀ j, j < t → j % (w + 1) ≠ 0 →
        get2 vs (j / (w + 1)) (j % (w + 1) - 1) = some (parse (toks[j]?.getD "0")) := by
  induction t with
  | zero => exact ⟨hs, hr, fun j hj => absurd hj (Nat.not_lt_zero _)⟩
  | succ t ih =>
    obtain ⟨i1, i2, i3⟩ := ih (by omega)
    simp only [List.range_succ, List.foldl_append, List.foldl_cons, List.foldl_nil]
    generalize (List.range t).foldl (place (w + 1) toks) vars0 = vs at i1 i2 i3
    unfold place
    by_cases h0 : t % (w + 1) = 0
    · simp only [h0, beq_self_eq_true, if_true]
      refine ⟨i1, i2, fun j hj hj0 => ?_⟩
      have : j ≠ t := by rintro rfl; exact hj0 h0
      exact i3 j (by omega) hj0
    · have hb : (t % (w + 1) == 0) = false := by simpa using h0
      simp only [hb, Bool.false_eq_true, if_false]
      refine ⟨by rw [Array.size_modify]; exact i1, i2.modify _ _ _, fun j hj hj0 => ?_⟩
      rcases Nat.lt_or_ge j t with hlt | hge
      · rw [get2_modify_other]
        · exact i3 j hlt hj0
        · rintro ⟨e1, e2⟩
          have h1 := Nat.div_add_mod j (w + 1)
          have h2 := Nat.div_add_mod t (w + 1)
          rw [e1] at h2
          omega
      · have : j = t := by omega
        subst this
        have hlt : j / (w + 1) < vs.size := by
          rw [i1]
          have hjn : j < (w + 1) * n := by rw [Nat.mul_comm]; omega
          exact Nat.div_lt_of_lt_mul hjn
        have hrow : vs[j / (w + 1)]? = some vs[j / (w + 1)] := Array.getElem?_eq_getElem hlt
        have hsz := i2 _ _ hrow
        have hm : j % (w + 1) < w + 1 := Nat.mod_lt j (by omega)
        exact get2_modify_same vs _ _ _ _ hrow (by omega)

theorem readToks_vars_eq (m : Mesh1 Float Float) (toks : List String) (n : Nat)
    (hlen : toks.length = n * (m.nvars + 1)) :
    (readToks m toks).vars
      = (List.range (n * (m.nvars + 1))).foldl (place (m.nvars + 1) toks) (resized m n) := by
  unfold readToks
  simp only [hlen, filter_mod_range (m.nvars + 1) n (Nat.succ_pos _), List.length_map,
    List.length_range]
  rfl

theorem foldl_place_size (k : Nat) (toks : List String) (l : List Nat) (vs : Array (Array Float)) :
    (l.foldl (place k toks) vs).size = vs.size := by
  induction l generalizing vs with
  | nil => rfl
  | cons i l ih =>
    rw [List.foldl_cons, ih]
    unfold place
    split
    · rfl
    · exact Array.size_modify

/-- the result has one row per node (whatever the receiving mesh looked like) -/
theorem readToks_vars_size (m : Mesh1 Float Float) (toks : List String) (n : Nat)
    (hlen : toks.length = n * (m.nvars + 1)) : (readToks m toks).vars.size = n := by
  rw [readToks_vars_eq m toks n hlen, foldl_place_size, resized_size]

/-- every row of the result has `nvars` entries, provided the rows of the receiving mesh had -/
theorem readToks_rows (m : Mesh1 Float Float) (hm : m.RowsOk) (toks : List String) (n : Nat)
    (hlen : toks.length = n * (m.nvars + 1)) : (readToks m toks).RowsOk := by
  intro i hi
  have h := (place_inv m.nvars n toks (resized m n) (resized_size m n) (resized_rows m hm n) _
    (Nat.le_refl _)).2.1
  rw [← readToks_vars_eq m toks n hlen] at h
  exact h i _ (Array.getElem?_eq_getElem hi)

/-- token `i * (nvars+1) + j + 1` is variable `j` of node `i` -/
theorem readToks_vars (m : Mesh1 Float Float) (hm : m.RowsOk) (toks : List String) (n : Nat)
    (hlen : toks.length = n * (m.nvars + 1)) (i j : Nat) (hi : i < n) (hj : j < m.nvars) :
    get2 (readToks m toks).vars i j
      = some (parse (toks[i * (m.nvars + 1) + (j + 1)]?.getD "0")) := by
  have h := (place_inv m.nvars n toks (resized m n) (resized_size m n) (resized_rows m hm n) _
    (Nat.le_refl _)).2.2 (i * (m.nvars + 1) + (j + 1)) (mul_add_lt_mul hi (by omega)) (by
      rw [Nat.mul_comm, Nat.mul_add_mod, Nat.mod_eq_of_lt (by omega)]; omega)
  rw [← readToks_vars_eq m toks n hlen] at h
  have hd : (i * (m.nvars + 1) + (j + 1)) / (m.nvars + 1) = i := by
    rw [Nat.mul_comm, Nat.mul_add_div (Nat.succ_pos _), Nat.div_eq_of_lt (by omega)]; rfl
  have hmod : (i * (m.nvars + 1) + (j + 1)) % (m.nvars + 1) = j + 1 := by
    rw [Nat.mul_comm, Nat.mul_add_mod, Nat.mod_eq_of_lt (by omega)]
  rw [hd, hmod] at h
  exact h

end Fmt
end Ohsl
