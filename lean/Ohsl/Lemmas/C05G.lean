/-
  Ohsl.Lemmas.C05G — helpers for Ohsl/Props/C05G.lean
  * `divM` of the order-free field interpretation `Alg.scalarExtField`;
  * simulation of the tridiagonal model along a map of scalars `f : K → L` that commutes with the
    operations the model uses (`+ - * 0 1`, the test `== 0` and the fallible `/`):
    `Tri.solve`, `Tri.det`, `Tri.mulVec` commute with `f`, errors included.
-/
import Ohsl.Model.Tridiag
import Ohsl.Lemmas.Alg
set_option linter.unusedSectionVars false
set_option linter.unusedVariables false
set_option linter.unusedSimpArgs false
namespace Ohsl

/-! ### the order-free field interpretation -/
namespace AlgF
section
variable {K : Type} [Field K] [DecidableEq K]
attribute [local instance] Alg.scalarExtField

theorem divM_eq (a b : K) : divM a b = if b = 0 then .error .arith else .ok (a / b) := rfl
theorem divM_ne {a b : K} (h : b ≠ 0) : divM a b = .ok (a / b) := by simp [divM_eq, h]
theorem divM_zero (a : K) : divM a (0 : K) = .error .arith := by simp [divM_eq]
end
end AlgF

/-! ### simulation along a map of scalars -/
namespace Sim

theorem aget_map {α β : Type} (f : α → β) (a : Array α) (i : Nat) :
    aget (a.map f) i = Except.map f (aget a i) := by
  unfold aget
  rw [Array.getElem?_map]
  cases a[i]? <;> rfl

theorem aset_map {α β : Type} (f : α → β) (a : Array α) (i : Nat) (v : α) :
    aset (a.map f) i (f v) = Except.map (Array.map f) (aset a i v) := by
  unfold aset
  by_cases h : i < a.size
  · simp [h, Except.map]
  · simp [h, Except.map]

/-- `bind` on both sides of a simulation -/
theorem bind_map {α β α' β' : Type} (g : α → α') (h : β → β') (x : Res α) (k : α → Res β)
    (k' : α' → Res β') (hk : ∀ a, k' (g a) = Except.map h (k a)) :
    (Except.map g x >>= k') = Except.map h (x >>= k) := by
  cases x with
  | error e => rfl
  | ok a => exact hk a

theorem foldlM_map {σ σ' : Type} (g : σ → σ') (f : σ → Nat → Res σ) (f' : σ' → Nat → Res σ')
    (hf : ∀ s i, f' (g s) i = Except.map g (f s i)) :
    ∀ (l : List Nat) (s : σ), l.foldlM f' (g s) = Except.map g (l.foldlM f s)
  | [], s => rfl
  | i :: l, s => by
    simp only [List.foldlM_cons]
    rw [hf s i]
    exact bind_map g g (f s i) _ _ (fun a => foldlM_map g f f' hf l a)

theorem forM'_map {σ σ' : Type} (g : σ → σ') (lo hi : Nat) (s : σ) (f : σ → Nat → Res σ)
    (f' : σ' → Nat → Res σ') (hf : ∀ s i, f' (g s) i = Except.map g (f s i)) :
    Mat.forM' lo hi (g s) f' = Except.map g (Mat.forM' lo hi s f) :=
  foldlM_map g f f' hf _ s

section Hom
variable {K L : Type}
variable [Add K] [Sub K] [Mul K] [Neg K] [Zero K] [One K] [BEq K] [ScalarExt K]
variable [Add L] [Sub L] [Mul L] [Neg L] [Zero L] [One L] [BEq L] [ScalarExt L]

/-- `f` commutes with every scalar operation the tridiagonal model uses -/
structure ScalarHom (f : K → L) : Prop where
  add : ∀ a b, f (a + b) = f a + f b
  sub : ∀ a b, f (a - b) = f a - f b
  mul : ∀ a b, f (a * b) = f a * f b
  zero : f 0 = 0
  one : f 1 = 1
  beq0 : ∀ a, (f a == (0 : L)) = (a == (0 : K))
  div : ∀ a b, divM (f a) (f b) = Except.map f (divM a b)

/-- the three diagonals mapped entry by entry -/
def mapTri (f : K → L) (t : Tri K) : Tri L := ⟨t.sub.map f, t.main.map f, t.sup.map f, t.n⟩

def mapSweep (f : K → L) (s : Tri.Sweep K) : Tri.Sweep L :=
  ⟨f s.beta, s.gamma.map f, s.u.map f⟩

variable {f : K → L}

@[simp] theorem mapTri_n (f : K → L) (t : Tri K) : (mapTri f t).n = t.n := rfl
@[simp] theorem mapTri_main (f : K → L) (t : Tri K) : (mapTri f t).main = t.main.map f := rfl
@[simp] theorem mapTri_sub (f : K → L) (t : Tri K) : (mapTri f t).sub = t.sub.map f := rfl
@[simp] theorem mapTri_sup (f : K → L) (t : Tri K) : (mapTri f t).sup = t.sup.map f := rfl

theorem replicate_zero (hf : ScalarHom f) (n : Nat) :
    Array.replicate n (0 : L) = (Array.replicate n (0 : K)).map f := by
  simp [hf.zero]

theorem push_zero (hf : ScalarHom f) (a : Array K) : (a.map f).push 0 = (a.push 0).map f := by
  simp [hf.zero]

theorem cons_zero (hf : ScalarHom f) (a : Array K) : #[(0 : L)] ++ a.map f = (#[(0 : K)] ++ a).map f := by
  simp [hf.zero]

/-! #### `solve` -/

/-- body of the forward sweep of `Tri.solve` -/
def sweepBody (t : Tri K) (r : Array K) (s : Tri.Sweep K) (j : Nat) : Res (Tri.Sweep K) := do
  let c ← aget (t.sup.push 0) (j - 1)
  let g ← divM c s.beta
  let gamma ← aset s.gamma j g
  let mj ← aget t.main j
  let aj ← aget (#[(0 : K)] ++ t.sub) j
  let beta := mj - aj * g
  if beta == 0 then .error .zeroPivot
  else do
    let rj ← aget r j
    let ujm1 ← aget s.u (j - 1)
    let q ← divM (rj - aj * ujm1) beta
    let u ← aset s.u j q
    pure ⟨beta, gamma, u⟩

/-- body of the back substitution of `Tri.solve` -/
def backBody (gamma : Array K) (u : Array K) (j : Nat) : Res (Array K) := do
  let g ← aget gamma (j + 1)
  let uj1 ← aget u (j + 1)
  let uj ← aget u j
  aset u j (uj - g * uj1)

theorem sweepBody_map (hf : ScalarHom f) (t : Tri K) (r : Array K) (s : Tri.Sweep K) (j : Nat) :
    sweepBody (mapTri f t) (r.map f) (mapSweep f s) j = Except.map (mapSweep f) (sweepBody t r s j) := by
  unfold sweepBody
  have hm : (mapTri f t).main = t.main.map f := rfl
  have hsb : (mapTri f t).sub = t.sub.map f := rfl
  have hsp : (mapTri f t).sup = t.sup.map f := rfl
  have h1 : (mapSweep f s).beta = f s.beta := rfl
  have h2 : (mapSweep f s).gamma = s.gamma.map f := rfl
  have h3 : (mapSweep f s).u = s.u.map f := rfl
  simp only [hm, hsb, hsp, h1, h2, h3]
  rw [push_zero hf, cons_zero hf, aget_map]
  refine bind_map f (mapSweep f) _ _ _ (fun c => ?_)
  rw [hf.div]
  refine bind_map f (mapSweep f) _ _ _ (fun g => ?_)
  rw [aset_map]
  refine bind_map (Array.map f) (mapSweep f) _ _ _ (fun gamma => ?_)
  rw [aget_map]
  refine bind_map f (mapSweep f) _ _ _ (fun mj => ?_)
  rw [aget_map]
  refine bind_map f (mapSweep f) _ _ _ (fun aj => ?_)
  simp only [← hf.mul, ← hf.sub]
  rw [hf.beq0]
  cases (mj - aj * g == 0)
  · simp only [Bool.false_eq_true, if_false]
    rw [aget_map]
    refine bind_map f (mapSweep f) _ _ _ (fun rj => ?_)
    rw [aget_map]
    refine bind_map f (mapSweep f) _ _ _ (fun ujm1 => ?_)
    simp only [← hf.mul, ← hf.sub]
    rw [hf.div]
    refine bind_map f (mapSweep f) _ _ _ (fun q => ?_)
    rw [aset_map]
    refine bind_map (Array.map f) (mapSweep f) _ _ _ (fun u => ?_)
    rfl
  · rfl

theorem backBody_map (hf : ScalarHom f) (gamma u : Array K) (j : Nat) :
    backBody (gamma.map f) (u.map f) j = Except.map (Array.map f) (backBody gamma u j) := by
  unfold backBody
  rw [aget_map]
  refine bind_map f (Array.map f) _ _ _ (fun g => ?_)
  rw [aget_map]
  refine bind_map f (Array.map f) _ _ _ (fun uj1 => ?_)
  rw [aget_map]
  refine bind_map f (Array.map f) _ _ _ (fun uj => ?_)
  rw [← hf.mul, ← hf.sub, aset_map]

theorem solve_map (hf : ScalarHom f) (t : Tri K) (r : Array K) :
    Tri.solve (mapTri f t) (r.map f) = Except.map (Array.map f) (Tri.solve t r) := by
  unfold Tri.solve
  have hn : (mapTri f t).n = t.n := rfl
  have hm : (mapTri f t).main = t.main.map f := rfl
  simp only [hn, hm, Array.size_map]
  by_cases h : t.n ≠ r.size
  · rw [if_pos h, if_pos h]; rfl
  · rw [if_neg h, if_neg h]
    rw [aget_map]
    refine bind_map f (Array.map f) _ _ _ (fun beta => ?_)
    rw [hf.beq0]
    cases (beta == 0)
    · simp only [Bool.false_eq_true, if_false]
      rw [aget_map]
      refine bind_map f (Array.map f) _ _ _ (fun r0 => ?_)
      rw [hf.div]
      refine bind_map f (Array.map f) _ _ _ (fun q => ?_)
      rw [replicate_zero hf, aset_map]
      refine bind_map (Array.map f) (Array.map f) _ _ _ (fun u => ?_)
      show (Mat.forM' 1 t.n (mapSweep f ⟨beta, Array.replicate t.n 0, u⟩)
          (sweepBody (mapTri f t) (r.map f)) >>= _)
        = Except.map _ (Mat.forM' 1 t.n _ (sweepBody t r) >>= _)
      rw [forM'_map (mapSweep f) 1 t.n _ (sweepBody t r) _ (sweepBody_map hf t r)]
      refine bind_map (mapSweep f) (Array.map f) _ _ _ (fun s => ?_)
      cases usub t.n 1 with
      | error e => rfl
      | ok n1 =>
        exact foldlM_map (Array.map f) (backBody s.gamma) (backBody (s.gamma.map f))
          (fun u j => backBody_map hf s.gamma u j) _ s.u
    · rfl

/-- body of the loop of `Tri.det` -/
def detBody (t : Tri K) (s : K × K) (j : Nat) : Res (K × K) := do
  let mj ← aget t.main (j - 1)
  let sb ← aget t.sub (j - 2)
  let sp ← aget t.sup (j - 2)
  pure (s.2, mj * s.2 - sb * sp * s.1)

theorem detBody_map (hf : ScalarHom f) (t : Tri K) (s : K × K) (j : Nat) :
    detBody (mapTri f t) (Prod.map f f s) j = Except.map (Prod.map f f) (detBody t s j) := by
  unfold detBody
  have hm : (mapTri f t).main = t.main.map f := rfl
  have hsb : (mapTri f t).sub = t.sub.map f := rfl
  have hsp : (mapTri f t).sup = t.sup.map f := rfl
  simp only [hm, hsb, hsp]
  rw [aget_map]
  refine bind_map f (Prod.map f f) _ _ _ (fun mj => ?_)
  rw [aget_map]
  refine bind_map f (Prod.map f f) _ _ _ (fun sb => ?_)
  rw [aget_map]
  refine bind_map f (Prod.map f f) _ _ _ (fun sp => ?_)
  simp only [Prod.map_fst, Prod.map_snd, ← hf.mul, ← hf.sub]
  rfl

theorem det_map (hf : ScalarHom f) (t : Tri K) :
    Tri.det (mapTri f t) = Except.map f (Tri.det t) := by
  unfold Tri.det
  have hn : (mapTri f t).n = t.n := rfl
  have hm : (mapTri f t).main = t.main.map f := rfl
  simp only [hn, hm]
  rw [aget_map]
  refine bind_map f f _ _ _ (fun m0 => ?_)
  by_cases h : t.n + 1 < 2
  · rw [if_pos h, if_pos h]; rfl
  · rw [if_neg h, if_neg h]
    rw [← hf.one, ← hf.mul]
    show (Mat.forM' 2 (t.n + 1) (Prod.map f f ((1 : K), m0 * 1)) (detBody (mapTri f t)) >>= _)
        = Except.map _ (Mat.forM' 2 (t.n + 1) _ (detBody t) >>= _)
    rw [forM'_map (Prod.map f f) 2 (t.n + 1) _ (detBody t) _ (detBody_map hf t)]
    refine bind_map (Prod.map f f) f _ _ _ (fun s => ?_)
    rfl

/-- body of the loop over the middle rows of `Tri.mulVec` -/
def mulBody (t : Tri K) (v : Array K) (res : Array K) (i : Nat) : Res (Array K) := do
  let a ← aget t.sub (i - 1)
  let x ← aget v (i - 1)
  let b ← aget t.main i
  let y ← aget v i
  let c ← aget t.sup i
  let z ← aget v (i + 1)
  aset res i (a * x + b * y + c * z)

theorem mulBody_map (hf : ScalarHom f) (t : Tri K) (v res : Array K) (i : Nat) :
    mulBody (mapTri f t) (v.map f) (res.map f) i = Except.map (Array.map f) (mulBody t v res i) := by
  unfold mulBody
  have hm : (mapTri f t).main = t.main.map f := rfl
  have hsb : (mapTri f t).sub = t.sub.map f := rfl
  have hsp : (mapTri f t).sup = t.sup.map f := rfl
  simp only [hm, hsb, hsp]
  rw [aget_map]
  refine bind_map f (Array.map f) _ _ _ (fun a => ?_)
  rw [aget_map]
  refine bind_map f (Array.map f) _ _ _ (fun x => ?_)
  rw [aget_map]
  refine bind_map f (Array.map f) _ _ _ (fun b => ?_)
  rw [aget_map]
  refine bind_map f (Array.map f) _ _ _ (fun y => ?_)
  rw [aget_map]
  refine bind_map f (Array.map f) _ _ _ (fun c => ?_)
  rw [aget_map]
  refine bind_map f (Array.map f) _ _ _ (fun z => ?_)
  rw [← hf.mul, ← hf.mul, ← hf.mul, ← hf.add, ← hf.add, aset_map]

theorem mulVec_map (hf : ScalarHom f) (t : Tri K) (v : Array K) :
    Tri.mulVec (mapTri f t) (v.map f) = Except.map (Array.map f) (Tri.mulVec t v) := by
  unfold Tri.mulVec
  have hn : (mapTri f t).n = t.n := rfl
  have hm : (mapTri f t).main = t.main.map f := rfl
  have hsb : (mapTri f t).sub = t.sub.map f := rfl
  have hsp : (mapTri f t).sup = t.sup.map f := rfl
  simp only [hn, hm, hsb, hsp, Array.size_map]
  by_cases h : t.n ≠ v.size
  · rw [if_pos h, if_pos h]; rfl
  · rw [if_neg h, if_neg h]
    rw [replicate_zero hf]
    by_cases h1 : t.n = 1
    · rw [if_pos h1, if_pos h1, aget_map]
      refine bind_map f (Array.map f) _ _ _ (fun m0 => ?_)
      rw [aget_map]
      refine bind_map f (Array.map f) _ _ _ (fun v0 => ?_)
      rw [← hf.mul, aset_map]
    · rw [if_neg h1, if_neg h1, aget_map]
      refine bind_map f (Array.map f) _ _ _ (fun m0 => ?_)
      rw [aget_map]
      refine bind_map f (Array.map f) _ _ _ (fun v0 => ?_)
      rw [aget_map]
      refine bind_map f (Array.map f) _ _ _ (fun s0 => ?_)
      rw [aget_map]
      refine bind_map f (Array.map f) _ _ _ (fun v1 => ?_)
      rw [← hf.mul, ← hf.mul, ← hf.add, aset_map]
      refine bind_map (Array.map f) (Array.map f) _ _ _ (fun res => ?_)
      cases usub t.n 1 with
      | error e => rfl
      | ok n1 =>
        show (Mat.forM' 1 n1 (Array.map f res) (mulBody (mapTri f t) (v.map f)) >>= _)
          = Except.map _ (Mat.forM' 1 n1 res (mulBody t v) >>= _)
        rw [forM'_map (Array.map f) 1 n1 res (mulBody t v) _ (mulBody_map hf t v)]
        refine bind_map (Array.map f) (Array.map f) _ _ _ (fun res => ?_)
        rw [aget_map]
        refine bind_map f (Array.map f) _ _ _ (fun a => ?_)
        rw [aget_map]
        refine bind_map f (Array.map f) _ _ _ (fun x => ?_)
        rw [aget_map]
        refine bind_map f (Array.map f) _ _ _ (fun b => ?_)
        rw [aget_map]
        refine bind_map f (Array.map f) _ _ _ (fun y => ?_)
        rw [← hf.mul, ← hf.mul, ← hf.add, aset_map]

end Hom
end Sim
end Ohsl
