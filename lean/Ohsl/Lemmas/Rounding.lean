/-
  Ohsl.Lemmas.Rounding — the FOURTH interpretation of the executable model: "rounded reals" under
  the STANDARD MODEL of floating-point arithmetic.

  The model (`Ohsl/Model/*.lean`) is polymorphic in the scalar through unbundled operation classes.
  Besides `Rat` (exact), `Float` (bit-exact, opaque to proofs) and fields / ℝ / ℂ (theorems) it can
  be instantiated at the type `Fl M` defined here: real numbers whose `+ - * /` are the exact real
  operation followed by a rounding function `M.fl`.

  ASSUMPTIONS of this interpretation (everything below is relative to them):
    * `structure FlModel` : a unit roundoff `u : ℝ` with `0 ≤ u`, and a function `fl : ℝ → ℝ` with
          `∀ x, |fl x - x| ≤ u * |x|`                       (the standard model, relative error ≤ u)
      and NOTHING else (no `u < 1`, no monotonicity, no idempotence `fl (fl x) = fl x`, no symmetry
      `fl (-x) = - fl x`; `fl 0 = 0` is a consequence).  Lemmas that need `n * u < 1` (the classical
      `γ_n = n u / (1 - n u)`) say so in their hypotheses.
    * NOT PROVED HERE, and not provable in Lean because `Float` is opaque: the link
          "IEEE-754 binary64 arithmetic with round-to-nearest, in the absence of overflow and
           underflow, satisfies `FlModel` with `u = 2⁻⁵³`"
      (the textbook standard model, e.g. Higham, *Accuracy and Stability of Numerical Algorithms*,
      (2.4)).  Theorems about `Fl M` transfer to the Rust `f64` code only under this assumption, and
      only for runs without overflow / underflow / NaN.
    * Literals (`0`, `1`) and negation are exact; `divM` by an exact zero is outside the standard model
      (IEEE gives ±inf / NaN) and is modelled as the panic class `arith`; the RAW `/` instance is
      totalised (`a / 0 = fl 0 = 0`): the Krylov and Newton models use it, so their class-F theorems
      cover breakdown runs that have no f64 counterpart; comparisons and `mag` are exact (no signed
      zero, no NaN: "bit-identical" in doc comments means equal as reals); the carrier of `Fl M` is
      all of ℝ — theorems that need representable inputs state it (`Rep`).

  API (all in namespace `Ohsl`):
    `FlModel`, `FlModel.fl_zero`, `FlModel.abs_fl_le`, `FlModel.exists_delta`,
    `FlModel.gam M n = (1+u)^n - 1` with `gam_zero/one/succ/add/nonneg/mono/gam_le_gamma`,
    `FlModel.exact` (`fl = id`, `u = 0`), `FlModel.scale u` (`fl x = (1+u) x`, attains the bounds),
    `FlModel.roundBits p` (round to nearest, `p+1` significant bits, unbounded exponent,
    `u = 2^(-p-1)`), `FlModel.roundBits_rep_int`, `FlModel.binary64 = roundBits 52`, `binary64_u`,
    `Fl M` with instances and `Fl.add_val …`, `Fl.add_err …`, `Fl.abs_add_le …`,
    `prod_one_add_delta`, `Fl.rsum`, `Fl.asum`,
    `Fl.foldl_add_rounding` (left fold from any start), `Fl.foldl_sum_rounding` (from `0`),
    `Fl.foldl_sum_rounding_head_exact` (`n-1` when the first term is representable),
    `Fl.foldl_blocks_rounding` (two-level / blocked summation),
    `Fl.perturbed_sum_bound`, `Fl.rounded_terms_sum_bound` (summation of rounded terms),
    `sum_map_range'`, `sum_map_range` (list sums over index ranges as `Finset` sums),
    `Fl.foldl_add_exact`, `Fl.foldl_sum_exact`, `Fl.foldl_blocks_exact` (no rounding error when all
    partial sums are representable), `Fl.foldl_sum_rounding_sharp` (the constant `n` is attained).
-/
import Ohsl.Model.Basic
import Mathlib.Data.Real.Basic
import Mathlib.Algebra.Order.BigOperators.Group.List
import Mathlib.Algebra.Order.Ring.Abs
import Mathlib.Algebra.BigOperators.Intervals
import Mathlib.Algebra.Order.Archimedean.Real.Basic
import Mathlib.Algebra.Order.Round
import Mathlib.Data.Int.Log
import Mathlib.Tactic.Ring
import Mathlib.Tactic.Linarith
import Mathlib.Tactic.Positivity
import Mathlib.Tactic.FieldSimp
set_option linter.unusedSectionVars false
set_option linter.unusedVariables false

namespace Ohsl

/-- The standard model of floating-point arithmetic (no overflow, no underflow): a rounding function
with relative error at most the unit roundoff `u`. -/
structure FlModel where
  /-- unit roundoff -/
  u : ℝ
  /-- rounding to the format -/
  fl : ℝ → ℝ
  u_nonneg : 0 ≤ u
  fl_err : ∀ x, |fl x - x| ≤ u * |x|

namespace FlModel
variable (M : FlModel)

theorem fl_zero : M.fl 0 = 0 := by
  have h := M.fl_err 0
  simp only [abs_zero, mul_zero, sub_zero] at h
  exact abs_nonpos_iff.mp h

theorem one_add_u_pos : 0 < 1 + M.u := by have := M.u_nonneg; linarith
theorem one_le_one_add_u : 1 ≤ 1 + M.u := by have := M.u_nonneg; linarith

/-- `|fl x| ≤ (1+u) |x|` -/
theorem abs_fl_le (x : ℝ) : |M.fl x| ≤ (1 + M.u) * |x| := by
  have h := M.fl_err x
  have : |M.fl x| ≤ |M.fl x - x| + |x| := by
    have := abs_add_le (M.fl x - x) x
    simpa using this
  linarith

/-- the `(1+δ)` form of the standard model -/
theorem exists_delta (x : ℝ) : ∃ δ : ℝ, |δ| ≤ M.u ∧ M.fl x = x * (1 + δ) := by
  by_cases hx : x = 0
  · exact ⟨0, by simpa using M.u_nonneg, by simp [hx, M.fl_zero]⟩
  · refine ⟨(M.fl x - x) / x, ?_, by field_simp; ring⟩
    rw [abs_div, div_le_iff₀ (abs_pos.mpr hx)]
    exact M.fl_err x

/-- a representable number: `fl` does not move it -/
def Rep (x : ℝ) : Prop := M.fl x = x

theorem rep_zero : M.Rep 0 := M.fl_zero

/-! ### the error constants `(1+u)^n - 1` -/

/-- accumulated relative error of `n` roundings: `(1+u)^n - 1` (`≤ n u / (1 - n u)`, see
`gam_le_gamma`) -/
def gam (n : ℕ) : ℝ := (1 + M.u) ^ n - 1

theorem one_add_gam (n : ℕ) : 1 + M.gam n = (1 + M.u) ^ n := by simp [gam]
@[simp] theorem gam_zero : M.gam 0 = 0 := by simp [gam]
@[simp] theorem gam_one : M.gam 1 = M.u := by simp [gam]
theorem gam_succ (n : ℕ) : M.gam (n + 1) = (1 + M.u) * M.gam n + M.u := by
  simp only [gam, pow_succ]; ring
theorem gam_add (m n : ℕ) : M.gam (m + n) = M.gam n * (1 + M.gam m) + M.gam m := by
  simp only [gam, pow_add]; ring
theorem gam_nonneg (n : ℕ) : 0 ≤ M.gam n := by
  have := one_le_pow₀ (n := n) M.one_le_one_add_u
  simp only [gam]; linarith
theorem gam_mono {m n : ℕ} (h : m ≤ n) : M.gam m ≤ M.gam n := by
  have := pow_le_pow_right₀ M.one_le_one_add_u h
  simp only [gam]; linarith

/-- the classical constant: `(1+u)^n - 1 ≤ γ_n = n u / (1 - n u)` when `n u < 1` -/
theorem gam_le_gamma (n : ℕ) (h : n * M.u < 1) : M.gam n ≤ n * M.u / (1 - n * M.u) := by
  have hu := M.u_nonneg
  have hpos : 0 < 1 - n * M.u := by linarith
  -- (1+u)^n (1 - n u) ≤ 1
  have key : ∀ k : ℕ, (1 + M.u) ^ k * (1 - k * M.u) ≤ 1 := by
    intro k
    induction k with
    | zero => simp
    | succ k ih =>
      have hp : 0 ≤ (1 + M.u) ^ k := pow_nonneg M.one_add_u_pos.le k
      have : (1 + M.u) ^ (k + 1) * (1 - ((k + 1 : ℕ) : ℝ) * M.u)
          = (1 + M.u) ^ k * (1 - k * M.u) - (1 + M.u) ^ k * (M.u ^ 2 * (k + 1)) := by
        push_cast; ring
      rw [this]
      have : 0 ≤ (1 + M.u) ^ k * (M.u ^ 2 * (k + 1)) := by positivity
      linarith
  have hk := key n
  rw [le_div_iff₀ hpos]
  simp only [gam]
  nlinarith

/-! ### two concrete models -/

/-- exact arithmetic is a model (`u = 0`) -/
def exact : FlModel := ⟨0, id, le_refl _, fun x => by simp⟩

/-- a model that rounds every non-zero number, always upwards in magnitude, by the full relative
error `u`: `fl x = (1+u) x`.  It attains the bounds below (`Fl.foldl_sum_rounding_sharp`). -/
def scale (u : ℝ) (hu : 0 ≤ u) : FlModel :=
  ⟨u, fun x => (1 + u) * x, hu, fun x => by
    have : (1 + u) * x - x = u * x := by ring
    rw [this, abs_mul, abs_of_nonneg hu]⟩

end FlModel

/-! ### the rounded reals -/

/-- real numbers with rounded arithmetic -/
@[ext] structure Fl (M : FlModel) where
  val : ℝ

namespace Fl
variable {M : FlModel}

instance : Add (Fl M) := ⟨fun a b => ⟨M.fl (a.val + b.val)⟩⟩
instance : Sub (Fl M) := ⟨fun a b => ⟨M.fl (a.val - b.val)⟩⟩
instance : Mul (Fl M) := ⟨fun a b => ⟨M.fl (a.val * b.val)⟩⟩
noncomputable instance : Div (Fl M) := ⟨fun a b => ⟨M.fl (a.val / b.val)⟩⟩
instance : Neg (Fl M) := ⟨fun a => ⟨-a.val⟩⟩
instance : Zero (Fl M) := ⟨⟨0⟩⟩
instance : One (Fl M) := ⟨⟨1⟩⟩
instance : Inhabited (Fl M) := ⟨0⟩
noncomputable instance : DecidableEq (Fl M) := Classical.decEq _

open Classical in
/-- `divM`: rounded quotient; an exact zero divisor is outside the standard model → `arith`.
`lt`, `mag` are exact. -/
noncomputable instance scalarExt : ScalarExt (Fl M) where
  divM a b := if b.val = 0 then .error .arith else .ok (a / b)
  lt a b := decide (a.val < b.val)
  mag a := if a.val < 0 then -a else a

@[simp] theorem add_val (a b : Fl M) : (a + b).val = M.fl (a.val + b.val) := rfl
@[simp] theorem sub_val (a b : Fl M) : (a - b).val = M.fl (a.val - b.val) := rfl
@[simp] theorem mul_val (a b : Fl M) : (a * b).val = M.fl (a.val * b.val) := rfl
@[simp] theorem div_val (a b : Fl M) : (a / b).val = M.fl (a.val / b.val) := rfl
@[simp] theorem neg_val (a : Fl M) : (-a).val = -a.val := rfl
@[simp] theorem zero_val : (0 : Fl M).val = 0 := rfl
@[simp] theorem one_val : (1 : Fl M).val = 1 := rfl
theorem mag_val (a : Fl M) : (ScalarExt.mag a).val = |a.val| := by
  simp only [ScalarExt.mag]
  split
  · rename_i h; simp [abs_of_neg h]
  · rename_i h; simp [abs_of_nonneg (not_lt.mp h)]

/-! #### one operation -/

theorem add_err (a b : Fl M) : |(a + b).val - (a.val + b.val)| ≤ M.u * |a.val + b.val| := M.fl_err _
theorem sub_err (a b : Fl M) : |(a - b).val - (a.val - b.val)| ≤ M.u * |a.val - b.val| := M.fl_err _
theorem mul_err (a b : Fl M) : |(a * b).val - (a.val * b.val)| ≤ M.u * |a.val * b.val| := M.fl_err _
theorem div_err (a b : Fl M) : |(a / b).val - (a.val / b.val)| ≤ M.u * |a.val / b.val| := M.fl_err _

theorem abs_add_val_le (a b : Fl M) : |(a + b).val| ≤ (1 + M.u) * (|a.val| + |b.val|) :=
  (M.abs_fl_le _).trans (mul_le_mul_of_nonneg_left (abs_add_le _ _) M.one_add_u_pos.le)
theorem abs_mul_val_le (a b : Fl M) : |(a * b).val| ≤ (1 + M.u) * |a.val * b.val| := M.abs_fl_le _

theorem add_err' (a b : Fl M) :
    |(a + b).val - (a.val + b.val)| ≤ M.u * (|a.val| + |b.val|) :=
  (add_err a b).trans (mul_le_mul_of_nonneg_left (abs_add_le _ _) M.u_nonneg)

/-- exact operations on representable results -/
theorem add_val_of_rep (a b : Fl M) (h : M.Rep (a.val + b.val)) : (a + b).val = a.val + b.val := h
theorem mul_val_of_rep (a b : Fl M) (h : M.Rep (a.val * b.val)) : (a * b).val = a.val * b.val := h

end Fl

/-- **product of `(1+δᵢ)`**: `|∏ (1+δᵢ) - 1| ≤ (1+u)^n - 1` when all `|δᵢ| ≤ u` -/
theorem prod_one_add_delta (M : FlModel) (ds : List ℝ) (h : ∀ d ∈ ds, |d| ≤ M.u) :
    |(ds.map (fun d => 1 + d)).prod - 1| ≤ M.gam ds.length := by
  induction ds with
  | nil => simp
  | cons d ds ih =>
    have hd : |d| ≤ M.u := h d (List.mem_cons_self ..)
    have ih' := ih (fun e he => h e (List.mem_cons_of_mem _ he))
    simp only [List.map_cons, List.prod_cons, List.length_cons]
    set P := (ds.map (fun d => 1 + d)).prod
    have e : (1 + d) * P - 1 = (P - 1) * (1 + d) + d := by ring
    have h1 : |1 + d| ≤ 1 + M.u := (abs_add_le _ _).trans (by simpa using hd)
    rw [e, M.gam_succ]
    calc |(P - 1) * (1 + d) + d| ≤ |(P - 1) * (1 + d)| + |d| := abs_add_le _ _
      _ = |P - 1| * |1 + d| + |d| := by rw [abs_mul]
      _ ≤ M.gam ds.length * (1 + M.u) + M.u := by
          have := mul_le_mul ih' h1 (abs_nonneg _) (M.gam_nonneg _)
          linarith
      _ = _ := by ring

/-- list sums over index ranges as `Finset` sums -/
theorem sum_map_range' (g : ℕ → ℝ) (s k : ℕ) :
    ((List.range' s k).map g).sum = ∑ i ∈ Finset.Ico s (s + k), g i := by
  induction k with
  | zero => simp
  | succ k ih =>
    rw [List.range'_concat, List.map_append, List.sum_append, ih, ← add_assoc,
      Finset.sum_Ico_succ_top (by omega)]
    simp

theorem sum_map_range (g : ℕ → ℝ) (n : ℕ) :
    ((List.range n).map g).sum = ∑ i ∈ Finset.range n, g i := by
  rw [List.range_eq_range', sum_map_range', Finset.range_eq_Ico, Nat.zero_add]

namespace Fl
variable {M : FlModel}

/-! ### sums -/

/-- the exact (real) sum of the values -/
def rsum (l : List (Fl M)) : ℝ := (l.map Fl.val).sum
/-- the sum of the absolute values -/
def asum (l : List (Fl M)) : ℝ := (l.map (fun x => |x.val|)).sum

@[simp] theorem rsum_nil : rsum ([] : List (Fl M)) = 0 := rfl
@[simp] theorem asum_nil : asum ([] : List (Fl M)) = 0 := rfl
@[simp] theorem rsum_cons (x : Fl M) (l : List (Fl M)) : rsum (x :: l) = x.val + rsum l := by
  simp [rsum]
@[simp] theorem asum_cons (x : Fl M) (l : List (Fl M)) : asum (x :: l) = |x.val| + asum l := by
  simp [asum]
@[simp] theorem rsum_append (l l' : List (Fl M)) : rsum (l ++ l') = rsum l + rsum l' := by
  simp [rsum]
@[simp] theorem asum_append (l l' : List (Fl M)) : asum (l ++ l') = asum l + asum l' := by
  simp [asum]
theorem rsum_map {ι : Type} (is : List ι) (f : ι → Fl M) :
    rsum (is.map f) = (is.map (fun i => (f i).val)).sum := by
  simp [rsum, Function.comp_def]
theorem asum_map {ι : Type} (is : List ι) (f : ι → Fl M) :
    asum (is.map f) = (is.map (fun i => |(f i).val|)).sum := by
  simp [asum, Function.comp_def]

theorem asum_nonneg (l : List (Fl M)) : 0 ≤ asum l :=
  List.sum_nonneg (by simp)


theorem abs_rsum_le (l : List (Fl M)) : |rsum l| ≤ asum l := by
  induction l with
  | nil => simp
  | cons x l ih =>
    simp only [rsum_cons, asum_cons]
    exact (abs_add_le _ _).trans (by linarith)

/-- **left-folded sum from an arbitrary start**: `n` additions, each rounded once. -/
theorem foldl_add_rounding (l : List (Fl M)) (s : Fl M) :
    |(l.foldl (· + ·) s).val - (s.val + rsum l)| ≤ M.gam l.length * (|s.val| + asum l) := by
  induction l generalizing s with
  | nil => simp
  | cons x l ih =>
    simp only [List.foldl_cons, List.length_cons, rsum_cons, asum_cons]
    have h1 := ih (s + x)
    have h2 := add_err' s x
    have h3 := abs_add_val_le s x
    have hp := M.gam_nonneg l.length
    have hA := asum_nonneg l
    have hu := M.u_nonneg
    set F := (l.foldl (· + ·) (s + x)).val
    set R := rsum l
    set A := asum l
    set p := M.gam l.length
    have e : F - (s.val + (x.val + R)) = (F - ((s + x).val + R)) + ((s + x).val - (s.val + x.val)) := by
      ring
    rw [e, M.gam_succ]
    have hsx : 0 ≤ |s.val| + |x.val| := by positivity
    calc |F - ((s + x).val + R) + ((s + x).val - (s.val + x.val))|
        ≤ |F - ((s + x).val + R)| + |(s + x).val - (s.val + x.val)| := abs_add_le _ _
      _ ≤ p * (|(s + x).val| + A) + M.u * (|s.val| + |x.val|) := by linarith
      _ ≤ p * ((1 + M.u) * (|s.val| + |x.val|) + A) + M.u * (|s.val| + |x.val|) := by
          have := mul_le_mul_of_nonneg_left (add_le_add_left h3 A) hp
          linarith
      _ ≤ ((1 + M.u) * p + M.u) * (|s.val| + (|x.val| + A)) := by
          have : 0 ≤ (M.u * p + M.u) * A := by positivity
          nlinarith

/-- **left-folded sum from `0`** (the model's `result = 0; result += xᵢ`): `n = length` rounded
additions — the first one is `0 + x₀`, which the abstract model rounds like any other (IEEE does
not, see `foldl_sum_rounding_head_exact`), hence `n` and not `n - 1`. -/
theorem foldl_sum_rounding (l : List (Fl M)) :
    |(l.foldl (· + ·) 0).val - rsum l| ≤ M.gam l.length * asum l := by
  simpa using foldl_add_rounding l (0 : Fl M)

/-- the usual `n - 1` when the first term is representable (`fl x₀ = x₀`, e.g. because it is itself
the result of an operation of an idempotent rounding) -/
theorem foldl_sum_rounding_head_exact (x : Fl M) (l : List (Fl M)) (hx : M.Rep x.val) :
    |((x :: l).foldl (· + ·) 0).val - rsum (x :: l)| ≤ M.gam l.length * asum (x :: l) := by
  have e : (0 : Fl M) + x = x := by
    ext
    have : M.fl x.val = x.val := hx
    simpa using this
  simpa [e] using foldl_add_rounding l x

/-- size of a computed sum -/
theorem abs_foldl_sum_le (l : List (Fl M)) :
    |(l.foldl (· + ·) 0).val| ≤ (1 + M.gam l.length) * asum l := by
  have h := foldl_sum_rounding l
  have h2 := abs_rsum_le l
  have : |(l.foldl (· + ·) 0).val| ≤ |(l.foldl (· + ·) 0).val - rsum l| + |rsum l| := by
    simpa using abs_add_le ((l.foldl (· + ·) 0).val - rsum l) (rsum l)
  linarith

/-- **blocked (two-level) summation**: every block is summed from `0`, then the block sums are
summed from `0`.  With `m` a bound on the block lengths and `w` the number of blocks the constant is
`(1+u)^(m+w) - 1`. -/
theorem foldl_blocks_rounding (L : List (List (Fl M))) (m : ℕ) (hm : ∀ l ∈ L, l.length ≤ m) :
    |((L.map (fun l : List (Fl M) => l.foldl (· + ·) 0)).foldl (· + ·) 0).val - rsum L.flatten|
      ≤ M.gam (m + L.length) * asum L.flatten := by
  have hgm := M.gam_nonneg m
  -- the block sums against the exact block sums
  have hB : |rsum (L.map (fun l : List (Fl M) => l.foldl (· + ·) 0)) - rsum L.flatten|
        ≤ M.gam m * asum L.flatten
      ∧ asum (L.map (fun l : List (Fl M) => l.foldl (· + ·) 0)) ≤ (1 + M.gam m) * asum L.flatten := by
    induction L with
    | nil => simp
    | cons l L ih =>
      obtain ⟨ih1, ih2⟩ := ih (fun l' h => hm l' (List.mem_cons_of_mem _ h))
      have hl : l.length ≤ m := hm l (List.mem_cons_self ..)
      have hg : M.gam l.length ≤ M.gam m := M.gam_mono hl
      have h1 := foldl_sum_rounding l
      have h2 := abs_foldl_sum_le l
      have hA := asum_nonneg l
      simp only [List.map_cons, List.flatten_cons, rsum_cons, asum_cons, rsum_append, asum_append]
      constructor
      · have e : ∀ a b c d : ℝ, a + b - (c + d) = (a - c) + (b - d) := by intros; ring
        rw [e]
        refine (abs_add_le _ _).trans ?_
        nlinarith
      · nlinarith
  obtain ⟨hB1, hB2⟩ := hB
  set P := L.map (fun l : List (Fl M) => l.foldl (· + ·) 0) with hP
  have h0 := foldl_sum_rounding P
  have hlen : P.length = L.length := by simp [hP]
  rw [hlen] at h0
  have hgw := M.gam_nonneg L.length
  have hA := asum_nonneg L.flatten
  rw [M.gam_add]
  set R := ((P.foldl (· + ·) 0).val)
  have e : R - rsum L.flatten = (R - rsum P) + (rsum P - rsum L.flatten) := by ring
  rw [e]
  refine (abs_add_le _ _).trans ?_
  have := mul_le_mul_of_nonneg_left hB2 hgw
  nlinarith

/-- **summation of rounded terms**: if the terms `f i` are computed quantities with relative error
`ε` w.r.t. exact reals `g i`, and `r` is any computed sum of the `f i` with constant `c`, then `r`
is a sum of the `g i` with constant `c (1+ε) + ε`.  (With `ε = u`, `c = gam k`: `gam (k+1)`.) -/
theorem perturbed_sum_bound {ι : Type} (is : List ι) (f : ι → Fl M) (g : ι → ℝ) (ε c r : ℝ)
    (hε : 0 ≤ ε) (hc : 0 ≤ c)
    (hfg : ∀ i ∈ is, |(f i).val - g i| ≤ ε * |g i|)
    (hr : |r - rsum (is.map f)| ≤ c * asum (is.map f)) :
    |r - (is.map g).sum| ≤ (c * (1 + ε) + ε) * (is.map (fun i => |g i|)).sum := by
  have hB : |rsum (is.map f) - (is.map g).sum| ≤ ε * (is.map (fun i => |g i|)).sum
      ∧ asum (is.map f) ≤ (1 + ε) * (is.map (fun i => |g i|)).sum := by
    clear hr
    induction is with
    | nil => simp
    | cons i is ih =>
      obtain ⟨ih1, ih2⟩ := ih (fun j h => hfg j (List.mem_cons_of_mem _ h))
      have h1 := hfg i (List.mem_cons_self ..)
      simp only [List.map_cons, List.sum_cons, rsum_cons, asum_cons]
      constructor
      · have e : ∀ a b c d : ℝ, a + b - (c + d) = (a - c) + (b - d) := by intros; ring
        rw [e]
        refine (abs_add_le _ _).trans ?_
        linarith
      · have : |(f i).val| ≤ |(f i).val - g i| + |g i| := by
          simpa using abs_add_le ((f i).val - g i) (g i)
        linarith
  obtain ⟨hB1, hB2⟩ := hB
  have e : r - (is.map g).sum = (r - rsum (is.map f)) + (rsum (is.map f) - (is.map g).sum) := by ring
  rw [e]
  refine (abs_add_le _ _).trans ?_
  have := mul_le_mul_of_nonneg_left hB2 hc
  nlinarith

/-- the special case used for dot products: terms rounded once (`ε = u`), sum with constant
`gam k`: total `gam (k+1)` -/
theorem rounded_terms_sum_bound {ι : Type} (is : List ι) (f : ι → Fl M) (g : ι → ℝ) (k : ℕ) (r : ℝ)
    (hfg : ∀ i ∈ is, |(f i).val - g i| ≤ M.u * |g i|)
    (hr : |r - rsum (is.map f)| ≤ M.gam k * asum (is.map f)) :
    |r - (is.map g).sum| ≤ M.gam (k + 1) * (is.map (fun i => |g i|)).sum := by
  have h := perturbed_sum_bound is f g M.u (M.gam k) r M.u_nonneg (M.gam_nonneg k) hfg hr
  have e : M.gam k * (1 + M.u) + M.u = M.gam (k + 1) := by rw [M.gam_succ]; ring
  rwa [e] at h

/-! ### no rounding error when the partial sums are representable -/

/-- if every partial sum `s + x₀ + … + x_{k-1}` (`1 ≤ k ≤ n`) is representable, the fold is exact -/
theorem foldl_add_exact (l : List (Fl M)) (s : Fl M)
    (h : ∀ k, 0 < k → k ≤ l.length → M.Rep (s.val + rsum (l.take k))) :
    (l.foldl (· + ·) s).val = s.val + rsum l := by
  induction l generalizing s with
  | nil => simp
  | cons x l ih =>
    have h1 : (s + x).val = s.val + x.val := by
      have : M.fl (s.val + rsum ((x :: l).take 1)) = _ := h 1 (by omega) (by simp)
      simpa using this
    simp only [List.foldl_cons]
    rw [ih (s + x)]
    · simp only [h1, rsum_cons]; ring
    · intro k hk hkl
      have := h (k + 1) (by omega) (by simpa using hkl)
      simp only [List.take_succ_cons, rsum_cons] at this
      rw [h1, add_assoc]
      exact this

/-- fold from `0`: exact when all prefix sums are representable -/
theorem foldl_sum_exact (l : List (Fl M)) (h : ∀ k, M.Rep (rsum (l.take k))) :
    (l.foldl (· + ·) 0).val = rsum l := by
  have := foldl_add_exact l (0 : Fl M) (fun k _ _ => by simpa using h k)
  simpa using this

/-- blocked summation is exact when the prefix sums inside every block and the prefix sums of the
whole sequence are representable -/
theorem foldl_blocks_exact (L : List (List (Fl M)))
    (hin : ∀ l ∈ L, ∀ k, M.Rep (rsum (l.take k)))
    (hout : ∀ N, M.Rep (rsum (L.flatten.take N))) :
    ((L.map (fun l : List (Fl M) => l.foldl (· + ·) 0)).foldl (· + ·) 0).val = rsum L.flatten := by
  have hblock : ∀ L' : List (List (Fl M)), (∀ l ∈ L', l ∈ L) →
      rsum (L'.map (fun l : List (Fl M) => l.foldl (· + ·) 0)) = rsum L'.flatten := by
    intro L' hsub
    induction L' with
    | nil => simp
    | cons l L' ih =>
      have := foldl_sum_exact l (hin l (hsub l (List.mem_cons_self ..)))
      have ih' := ih (fun l' h => hsub l' (List.mem_cons_of_mem _ h))
      simp only [List.map_cons, rsum_cons, List.flatten_cons, rsum_append]
      rw [this, ih']
  rw [foldl_sum_exact, hblock L (fun _ h => h)]
  intro k
  rw [← List.map_take, hblock _ (fun l h => List.mem_of_mem_take h)]
  -- a prefix of the blocks flattens to a prefix of the whole sequence
  have : (L.take k).flatten = L.flatten.take ((L.take k).flatten.length) := by
    conv_rhs => rw [← List.take_append_drop k L, List.flatten_append]
    simp
  rw [this]
  exact hout _

/-! ### the constant `n` of `foldl_sum_rounding` is attained -/

/-- in the model `fl x = (1+u) x` the sum `x + 0 + … + 0` (`n` terms) computed from `0` is
`(1+u)^n x`: the error is exactly `((1+u)^n - 1) |x|`, so `foldl_sum_rounding` (with `n`, not
`n - 1`) cannot be improved without further assumptions on `fl`. -/
theorem foldl_sum_rounding_sharp (u : ℝ) (hu : 0 ≤ u) (x : ℝ) (n : ℕ) :
    let M := FlModel.scale u hu
    let l : List (Fl M) := ⟨x⟩ :: List.replicate n 0
    |(l.foldl (· + ·) 0).val - rsum l| = M.gam l.length * asum l := by
  intro M l
  have hfold : ∀ (k : ℕ) (s : Fl M),
      ((List.replicate k (0 : Fl M)).foldl (· + ·) s).val = (1 + u) ^ k * s.val := by
    intro k
    induction k with
    | zero => intro s; simp
    | succ k ih =>
      intro s
      rw [List.replicate_succ, List.foldl_cons, ih]
      show (1 + u) ^ k * ((1 + u) * (s.val + 0)) = _
      ring
  have hr : ∀ k : ℕ, rsum (List.replicate k (0 : Fl M)) = 0 := by
    intro k
    induction k with
    | zero => simp
    | succ k ih => simp [List.replicate_succ, ih]
  have ha : ∀ k : ℕ, asum (List.replicate k (0 : Fl M)) = 0 := by
    intro k
    induction k with
    | zero => simp
    | succ k ih => simp [List.replicate_succ, ih]
  have h0 : ((0 : Fl M) + ⟨x⟩).val = (1 + u) * x := by
    show (1 + u) * (0 + x) = _
    ring
  have hR : rsum l = x := by simp [l, hr]
  have hA : asum l = |x| := by simp [l, ha]
  rw [hR, hA]
  simp only [l, List.foldl_cons, List.length_cons, List.length_replicate]
  rw [hfold, h0]
  have hg : M.gam (n + 1) = (1 + u) ^ (n + 1) - 1 := rfl
  have hge := M.gam_nonneg (n + 1)
  rw [hg] at hge ⊢
  have : (1 + u) ^ n * ((1 + u) * x) - x = ((1 + u) ^ (n + 1) - 1) * x := by ring
  rw [this, abs_mul, abs_of_nonneg hge]

end Fl
/-! ### a genuine floating-point format satisfies the standard model -/

/-- Round-to-nearest (ties upwards, Mathlib's `round`) to `p + 1` significant bits with an UNBOUNDED
exponent range: `fl x = round (x / 2^(e-p)) · 2^(e-p)` with `e = ⌊log₂ |x|⌋`.  It satisfies the
standard model with `u = 2^(-p-1)`.  This shows that `FlModel` is satisfied by a real binary
floating-point format (for `p = 52` the significand width and unit roundoff of IEEE binary64); it is
NOT a statement about Lean's `Float` / Rust's `f64` (bounded exponents, ties-to-even). -/
noncomputable def FlModel.roundBits (p : ℕ) : FlModel where
  u := 2 ^ (-(p:ℤ) - 1)
  fl x := round (x / 2 ^ (Int.log 2 |x| - p)) * 2 ^ (Int.log 2 |x| - p)
  u_nonneg := (zpow_pos two_pos _).le
  fl_err x := by
    by_cases hx : x = 0
    · simp [hx]
    · set e := Int.log 2 |x|
      set q : ℝ := 2 ^ (e - p) with hq
      have hqpos : 0 < q := zpow_pos two_pos _
      have h1 := abs_sub_round (x / q)
      have e1 : round (x / q) * q - x = -(x / q - round (x / q)) * q := by field_simp; ring
      rw [e1, abs_mul, abs_neg, abs_of_pos hqpos]
      have h2 : (2:ℝ) ^ e ≤ |x| := by
        exact_mod_cast Int.zpow_log_le_self (b := 2) (by norm_num) (abs_pos.mpr hx)
      have e2 : q = 2 ^ e * 2 ^ (-(p:ℤ)) := by rw [hq, sub_eq_add_neg, zpow_add₀ two_ne_zero]
      have e3 : (2:ℝ) ^ (-(p:ℤ) - 1) = 2 ^ (-(p:ℤ)) / 2 := by rw [zpow_sub₀ two_ne_zero, zpow_one]
      have hp : (0:ℝ) < 2 ^ (-(p:ℤ)) := zpow_pos two_pos _
      rw [e3, e2]
      have h3 : |x / q - round (x / q)| * (2 ^ e * 2 ^ (-(p:ℤ))) ≤ 1 / 2 * (2 ^ e * 2 ^ (-(p:ℤ))) :=
        mul_le_mul_of_nonneg_right h1 (mul_pos (zpow_pos two_pos _) hp).le
      rw [← e2] at h3 ⊢
      have h4 : 2 ^ e * 2 ^ (-(p:ℤ)) ≤ |x| * 2 ^ (-(p:ℤ)) := mul_le_mul_of_nonneg_right h2 hp.le
      rw [e2] at h3 ⊢
      linarith

/-- integers of at most `p+1` bits (`|k| < 2^(p+1)`) are representable in `roundBits p` -/
theorem FlModel.roundBits_rep_int (p : ℕ) (k : ℤ) (hk : |k| < 2 ^ (p + 1)) :
    (FlModel.roundBits p).Rep (k : ℝ) := by
  by_cases h0 : k = 0
  · subst h0; simpa using (FlModel.roundBits p).rep_zero
  show (round ((k:ℝ) / 2 ^ (Int.log 2 |(k:ℝ)| - p)) : ℝ) * 2 ^ (Int.log 2 |(k:ℝ)| - p) = (k:ℝ)
  have hkpos : (0:ℝ) < |(k:ℝ)| := abs_pos.mpr (by exact_mod_cast h0)
  have hlt : |(k:ℝ)| < ((2:ℕ):ℝ) ^ ((p:ℤ) + 1) := by
    have : ((|k| : ℤ) : ℝ) < (((2:ℤ) ^ (p + 1 : ℕ) : ℤ) : ℝ) := Int.cast_lt.mpr hk
    rw [Int.cast_abs] at this
    refine this.trans_le ?_
    norm_cast
  have hlog : Int.log 2 |(k:ℝ)| < (p:ℤ) + 1 := (Int.lt_zpow_iff_log_lt (by norm_num) hkpos).mp hlt
  obtain ⟨d, hd⟩ : ∃ d : ℕ, (p:ℤ) - Int.log 2 |(k:ℝ)| = d := ⟨((p:ℤ) - Int.log 2 |(k:ℝ)|).toNat, by omega⟩
  have he : Int.log 2 |(k:ℝ)| - p = -(d:ℤ) := by omega
  rw [he, zpow_neg, zpow_natCast, div_inv_eq_mul]
  have : (k:ℝ) * 2 ^ d = ((k * 2 ^ d : ℤ) : ℝ) := by push_cast; ring
  rw [this, round_intCast]
  push_cast
  field_simp

/-- binary64's significand width (53 bits), unbounded exponent: `u = 2⁻⁵³` -/
noncomputable def FlModel.binary64 : FlModel := FlModel.roundBits 52

theorem FlModel.binary64_u : FlModel.binary64.u = 2 ^ (-53 : ℤ) := by
  show (2 : ℝ) ^ (-((52 : ℕ) : ℤ) - 1) = 2 ^ (-53 : ℤ)
  norm_num

end Ohsl
