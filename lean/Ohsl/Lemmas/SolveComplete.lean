/-
  Ohsl.Lemmas.SolveComplete — completeness of the dense direct solvers over an exact field:
  a nonsingular system is never refused, and a returned value certifies nonsingularity.

  Class (E): `K` a field with `Alg.DivLaw` (`divM` fails exactly on a zero divisor) and, for the
  pivot searches, `Alg.PivotLaws`; linearly ordered fields with `Alg.scalarExt` and the model's
  `Cx ℝ` are instances.

  Contents
  * `det_zero_of_good_zero_col`  echelon shape in the first `k` columns and a zero pivot
                                  sub-column `k`  ⇒  determinant 0 (block-triangular argument)
  * `maxAbsInColumn_total`, `partialPivot_total`   the pivot search finds a NON-ZERO entry on or
                                  below the diagonal as soon as there is one (the fallback
                                  `max_index = 0` of the source is then never used)
  * `elimRow_total`, `elimLoop_total`              total correctness of the elimination, with the
                                  determinant tracked
  * `gauss_total`                 `gauss_with_pivot` succeeds on a nonsingular matrix; the result
                                  is upper triangular with the same determinant up to sign
  * `backsolve_total`             back substitution succeeds when the diagonal has no zero
  * `solveBasic_complete_ent`, `solveBasic_ok_det`, `solveLU_complete_ent`, `solveLU_ok_det`
-/
import Ohsl.Lemmas.SolveSound
import Ohsl.Lemmas.LUDet
import Mathlib.LinearAlgebra.Matrix.ToLinearEquiv
import Mathlib.Tactic.Linarith
import Mathlib.Tactic.Push
set_option linter.unusedSectionVars false
set_option linter.unusedVariables false
set_option linter.unusedSimpArgs false
namespace Ohsl
namespace Mat

/-- forget the postcondition of a total-correctness statement -/
theorem exists_ok_of_inv {σ : Type} {r : Res σ} (P : σ → Prop) (h : ∃ s, r = .ok s ∧ P s) :
    ∃ s, r = .ok s := by
  obtain ⟨s, hs, _⟩ := h
  exact ⟨s, hs⟩

/-! ### only the division law needed -/
section Exact
variable {K : Type} [Field K]

/-- two entry functions that agree in range give the same Mathlib matrix -/
theorem toMat_congr {n : Nat} {w w' : Nat → Nat → K}
    (h : ∀ a b, a < n → b < n → w a b = w' a b) : toMat n w = toMat n w' := by
  ext r c
  exact h r.val c.val r.isLt c.isLt

/-- echelon shape in the first `k` columns together with a pivot column that vanishes on and
    below the diagonal forces a zero determinant: the matrix is block triangular and its leading
    `(k+1) × (k+1)` block is upper triangular with a zero on the diagonal -/
theorem det_zero_of_good_zero_col {n k : Nat} (hk : k < n) {w : Nat → Nat → K}
    (hg : Good n k w) (hz : ∀ i, k ≤ i → i < n → w i k = 0) : (toMat n w).det = 0 := by
  rw [Matrix.twoBlockTriangular_det (toMat n w) (fun i : Fin n => i.val ≤ k)]
  · have h0 : (Matrix.toSquareBlockProp (toMat n w) fun i : Fin n => i.val ≤ k).det = 0 := by
      rw [Matrix.det_of_isUpperTriangular]
      · refine Finset.prod_eq_zero (Finset.mem_univ ⟨⟨k, hk⟩, le_refl k⟩) ?_
        simp only [Matrix.toSquareBlockProp_def, Matrix.of_apply, toMat]
        exact hz k (le_refl k) hk
      · intro i j hij
        simp only [Matrix.toSquareBlockProp_def, Matrix.of_apply, toMat]
        have h1 : j.1.val < i.1.val := hij
        have h2 : i.1.val ≤ k := i.2
        exact hg _ _ i.1.isLt (by omega) h1
    rw [h0, zero_mul]
  · intro i hi j hj
    show w i.val j.val = 0
    by_cases hjk : j.val = k
    · rw [hjk]; exact hz i.val (by omega) i.isLt
    · exact hg _ _ i.isLt (by omega) (by omega)

/-- the determinant of an upper-triangular entry function is the product of its diagonal -/
theorem det_toMat_upper {n : Nat} {w : Nat → Nat → K} (hg : ∀ i j, i < n → j < i → w i j = 0) :
    (toMat n w).det = ∏ k ∈ Finset.range n, w k k := by
  rw [Matrix.det_of_isUpperTriangular, ← Fin.prod_univ_eq_prod_range (fun k => w k k) n]
  · rfl
  · intro r c hrc
    exact hg r.val c.val r.isLt hrc

/-- one row elimination never fails when the pivot is non-zero -/
theorem elimRow_total [BEq K] [ScalarExt K] [DecidableEq K] [Alg.DivLaw K]
    {m : Mat K} {x : Array K} {n k i : Nat} (hm : WFn m n) (hx : x.size = n)
    (hk : k < n) (hi : i < n) (hp : ent m k k ≠ 0) :
    ∃ m' x', elimRow k (m, x) i = .ok (m', x') := by
  unfold elimRow
  simp only [hm.get hi hk, hm.get hk hk, bind, Except.bind, Alg.divM_law, hp, if_false]
  obtain ⟨m1, hm1, hP⟩ := forM'_inv (fun t (s : Mat K) => WFn s n)
    k m.rows m (fun s j => do
      let kj ← s.get k j
      let ij ← s.get i j
      s.set i j (ij - (ent m i k / ent m k k) * kj)) (by rw [hm.2.1]; omega) hm (by
      intro t s ht1 ht2 hs
      rw [hm.2.1] at ht2
      obtain ⟨s', hs', hI⟩ := hs.is.set hi ht2 (ent s i t - (ent m i k / ent m k k) * ent s k t)
      refine ⟨s', ?_, hI.wfn⟩
      simp only [hs.get hk ht2, hs.get hi ht2, bind, Except.bind]
      exact hs')
  simp only [bind, Except.bind] at hm1
  rw [hm1]
  have hxk : k < x.size := by omega
  have hxi : i < x.size := by omega
  simp only [aget_vf hxk, aget_vf hxi, aset_ok _ hxi, pure, Except.pure]
  exact ⟨_, _, rfl⟩

/-- the row loop of one elimination step, total correctness: it succeeds below a non-zero pivot,
    extends the echelon shape by one column and keeps the determinant -/
theorem elimLoop_total [BEq K] [ScalarExt K] [DecidableEq K] [Alg.DivLaw K]
    {n k : Nat} (hk : k < n) {m : Mat K} {x : Array K} (hm : WFn m n)
    (hx : x.size = n) (hp : ent m k k ≠ 0) (hg : Good n k (ent m)) :
    ∃ m' x', forM' (k + 1) m.rows (m, x) (elimRow k) = .ok (m', x') ∧ WFn m' n ∧ x'.size = n ∧
      Good n (k + 1) (ent m') ∧ (toMat n (ent m')).det = (toMat n (ent m)).det := by
  rw [hm.2.1]
  obtain ⟨⟨m', x'⟩, hs, hw, hsz, hpk, hg', hcol, hdet⟩ := forM'_inv
    (fun t (s : Mat K × Array K) => WFn s.1 n ∧ s.2.size = n ∧ ent s.1 k k ≠ 0 ∧
      Good n k (ent s.1) ∧ (∀ i, k < i → i < t → ent s.1 i k = 0) ∧
      (toMat n (ent s.1)).det = (toMat n (ent m)).det)
    (k + 1) n (m, x) (elimRow k) (by omega)
    ⟨hm, hx, hp, hg, by intro i h1 h2; omega, rfl⟩ (by
      rintro i ⟨ms, xs⟩ hi1 hi2 ⟨hw, hsz, hpk, hgs, hcol, hdet⟩
      simp only at hw hsz hpk hgs hcol hdet
      have hki : k ≠ i := by omega
      obtain ⟨m1, x1, hf⟩ := elimRow_total (x := xs) (i := i) hw hsz hk hi2 hpk
      obtain ⟨_, hw1, hsz1, he1, _⟩ := elimRow_spec hw hsz hk hi2 hki hf
      refine ⟨(m1, x1), hf, hw1, hsz1, ?_, ?_, ?_, ?_⟩
      · show ent m1 k k ≠ 0
        rw [he1 k k hk hk]
        have c : ¬ (k = i ∧ k ≤ k) := by omega
        simp only [c, if_false]; exact hpk
      · intro r j hr hj hjr
        show ent m1 r j = 0
        have c : ¬ (r = i ∧ k ≤ j) := by omega
        rw [he1 r j hr (by omega)]; simp only [c, if_false]
        exact hgs r j hr hj hjr
      · intro r hr1 hr2
        show ent m1 r k = 0
        rw [he1 r k (by omega) hk]
        by_cases hri : r = i
        · subst hri
          simp only [true_and, Nat.le_refl, if_true]
          field_simp
          ring
        · have c : ¬ (r = i ∧ k ≤ k) := by omega
          simp only [c, if_false]
          exact hcol r hr1 (by omega)
      · show (toMat n (ent m1)).det = _
        rw [← hdet]
        refine Matrix.det_eq_of_forall_row_eq_smul_add_const
          (fun r : Fin n => if r.val = i then - (ent ms i k / ent ms k k) else 0) ⟨k, hk⟩
          (by simp [hki]) ?_
        rintro ⟨r, hr⟩ ⟨c, hc⟩
        show ent m1 r c = ent ms r c + (if r = i then - (ent ms i k / ent ms k k) else 0) * ent ms k c
        rw [he1 r c hr hc]
        by_cases hri : r = i
        · subst hri
          by_cases hkc : k ≤ c
          · simp only [hkc, and_self, if_true]; ring
          · have hz : ent ms k c = 0 := hgs k c hk (by omega) (by omega)
            simp only [hkc, and_false, if_false, if_true, hz, mul_zero, add_zero]
        · simp only [hri, false_and, if_false, zero_mul, add_zero])
  refine ⟨m', x', hs, hw, hsz, ?_, hdet⟩
  intro r j hr hj hjr
  by_cases hjk : j = k
  · subst hjk; exact hcol r hjr hr
  · exact hg' r j hr (by omega) hjr

/-- back substitution never fails on a matrix whose diagonal has no zero -/
theorem backsolve_total [BEq K] [ScalarExt K] [DecidableEq K] [Alg.DivLaw K]
    {m : Mat K} {n : Nat} {x : Array K} (hm : WFn m n) (hx : x.size = n)
    (hn : 1 ≤ n) (hd : ∀ i, i < n → ent m i i ≠ 0) : ∃ x', backsolve m x = .ok x' := by
  unfold backsolve
  rw [hm.2.1]
  have hl : n - 1 < n := by omega
  have hu : usub n 1 = .ok (n - 1) := by simp [usub, hn]
  have hlx : n - 1 < x.size := by omega
  simp only [hu, aget_vf hlx, hm.get hl hl, bind, Except.bind, Alg.divM_law, hd _ hl, if_false,
    aset_ok _ hlx]
  apply exists_ok_of_inv (fun s => s.size = n)
  refine forM'_inv (fun _ (s : Array K) => s.size = n) 2 (n + 1) _ _ (by omega)
    (by simpa using hx) ?_
  intro nn s h1 h2 hs
  have hus : usub n nn = .ok (n - nn) := by
    have : nn ≤ n := by omega
    simp [usub, this]
  have hk : n - nn < n := by omega
  obtain ⟨s2, hs2, hsz, _⟩ := backsolve_inner hm hk s hs
  simp only [bind, Except.bind] at hs2
  simp only [hus]
  rw [hs2]
  have hk2 : n - nn < s2.size := by omega
  simp only [aget_vf hk2, hm.get hk hk, hd _ hk, if_false, aset_ok _ hk2]
  exact ⟨_, rfl, by simpa using hsz⟩

/-- **a value returned by `solve_basic` certifies nonsingularity**: the returned vector is the
    only solution (`solveBasic_unique_ent`), so the matrix has a trivial kernel -/
theorem solveBasic_ok_det [BEq K] [ScalarExt K] [DecidableEq K] [Alg.DivLaw K]
    {n : Nat} (hn : 1 ≤ n) {A : Mat K} {b x : Array K} (hA : WFn A n)
    (hb : b.size = n) (h : solveBasic A b = .ok x) : (toMat n (ent A)).det ≠ 0 := by
  intro hdet
  obtain ⟨v, hv0, hv⟩ := Matrix.exists_mulVec_eq_zero_iff.mpr hdet
  obtain ⟨_, hsol⟩ := solveBasic_sound_ent hn hA hb h
  have hz : Sol n (ent A) (vf b) (fun j => vf x j + (if hj : j < n then v ⟨j, hj⟩ else 0)) := by
    intro i hi
    have h1 := hsol i hi
    have h2 : ∑ j ∈ Finset.range n, ent A i j * (if hj : j < n then v ⟨j, hj⟩ else 0) = 0 := by
      have := congrFun hv ⟨i, hi⟩
      simp only [Matrix.mulVec, dotProduct, toMat, Matrix.of_apply, Pi.zero_apply] at this
      rw [Finset.sum_range]
      rw [← this]
      apply Finset.sum_congr rfl
      intro j _
      simp
    simp only [mul_add, Finset.sum_add_distrib, h1, h2, add_zero]
  have huniq := solveBasic_unique_ent hn hA hb h _ hz
  apply hv0
  funext j
  have := huniq j.val j.isLt
  simp only [j.isLt, dif_pos] at this
  simpa using this

end Exact

/-! ### the pivot comparison is lawful (`Alg.PivotLaws`) -/
section Strict
variable {K : Type} [Field K]

/-- the pivot search of `solve_basic`, total correctness: if column `k` has a non-zero entry on
    or below the diagonal, the returned row lies in `[k, n)` and its entry is non-zero.  (Only
    then: on an all-zero sub-column the source's initial `max_index = 0` is returned.) -/
theorem maxAbsInColumn_total [BEq K] [ScalarExt K] [DecidableEq K] [Alg.PivotLaws K]
    {m : Mat K} {n k : Nat} (hm : WFn m n) (hk : k < n)
    (hnz : ∃ i, k ≤ i ∧ i < n ∧ ent m i k ≠ 0) :
    ∃ p, maxAbsInColumn m k k = .ok p ∧ k ≤ p ∧ p < n ∧ ent m p k ≠ 0 := by
  unfold maxAbsInColumn
  rw [hm.2.1]
  obtain ⟨⟨idx, mx⟩, hs, v, hv, hle, hmx⟩ := forM'_inv
    (fun t (s : Nat × K) => ∃ v : K, s.2 = ScalarExt.mag v ∧
      (∀ k', k ≤ k' → k' < t → Alg.PivotLaws.size (ent m k' k) ≤ Alg.PivotLaws.size v) ∧
      (s.2 ≠ 0 → k ≤ s.1 ∧ s.1 < n ∧ s.2 = ScalarExt.mag (ent m s.1 k)))
    k n ((k : Nat), (0 : K))
    (fun (idx, mx) i => do
      let x ← m.get i k
      let ax := ScalarExt.mag x
      if ScalarExt.lt mx ax then pure (i, ax) else pure (idx, mx))
    (by omega)
    ⟨0, Alg.PivotLaws.mag_zero.symm, fun k' h1 h2 => by omega, fun h => absurd rfl h⟩
    (by
      rintro t ⟨idx, mx⟩ ht1 ht2 ⟨v, hv, hle, hmx⟩
      simp only at hv hle hmx
      subst hv
      simp only [hm.get ht2 hk, bind, Except.bind, Alg.PivotLaws.lt_mag]
      by_cases hlt : Alg.PivotLaws.size v < Alg.PivotLaws.size (ent m t k)
      · refine ⟨(t, ScalarExt.mag (ent m t k)), by simp [hlt, pure, Except.pure], ent m t k, rfl,
          ?_, fun _ => ⟨ht1, ht2, rfl⟩⟩
        intro k' hk' hk''
        by_cases e : k' = t
        · subst e; exact le_refl _
        · exact le_of_lt (lt_of_le_of_lt (hle k' hk' (by omega)) hlt)
      · refine ⟨(idx, ScalarExt.mag v), by simp [hlt, pure, Except.pure], v, rfl, ?_, hmx⟩
        intro k' hk' hk''
        by_cases e : k' = t
        · subst e; exact not_lt.mp hlt
        · exact hle k' hk' (by omega))
  simp only at hv hle hmx
  simp only [bind, Except.bind, pure, Except.pure] at hs
  simp only [bind, Except.bind, pure, Except.pure, hs]
  obtain ⟨i, hi1, hi2, hne⟩ := hnz
  have hmx0 : mx ≠ 0 := by
    intro e
    have hv0 : v = 0 := (Alg.mag_eq_zero_iff v).1 (hv.symm.trans e)
    have := hle i hi1 hi2
    rw [hv0] at this
    exact hne ((Alg.size_le_zero_iff _).1 this)
  obtain ⟨g1, g2, g3⟩ := hmx hmx0
  refine ⟨idx, rfl, g1, g2, ?_⟩
  intro e
  rw [e, Alg.PivotLaws.mag_zero] at g3
  exact hmx0 g3

/-- `partial_pivot`, total correctness under the same hypothesis: rows `p ≥ k` and `k` are
    exchanged, where the entry `(p, k)` is non-zero -/
theorem partialPivot_total [BEq K] [ScalarExt K] [DecidableEq K] [Alg.PivotLaws K]
    {m : Mat K} {x : Array K} {n k : Nat} (hm : WFn m n) (hx : x.size = n)
    (hk : k < n) (hnz : ∃ i, k ≤ i ∧ i < n ∧ ent m i k ≠ 0) :
    ∃ m' x' p, partialPivot m x k = .ok (m', x') ∧ k ≤ p ∧ p < n ∧ ent m p k ≠ 0 ∧
      WFn m' n ∧ x'.size = n ∧
      (∀ a b, a < n → b < n →
        ent m' a b = if a = p then ent m k b else if a = k then ent m p b else ent m a b) := by
  obtain ⟨p, hp, hkp, hpn, hne⟩ := maxAbsInColumn_total hm hk hnz
  obtain ⟨m1, hm1, hI⟩ := swapRows_spec_ss hm.is hpn hk
  obtain ⟨x1, hx1, hs1, _⟩ := vswap_spec (x := x) (p := p) (k := k) (by omega) (by omega)
  refine ⟨m1, x1, p, ?_, hkp, hpn, hne, hI.wfn, by omega, fun a b ha hb => hI.ent_eq ha hb⟩
  unfold partialPivot
  simp only [hp, hm1, hx1, bind, Except.bind, pure, Except.pure]

/-- **`gauss_with_pivot` never fails on a nonsingular matrix**; it returns an upper-triangular
    matrix whose determinant is still non-zero -/
theorem gauss_total [BEq K] [ScalarExt K] [DecidableEq K] [Alg.PivotLaws K]
    {n : Nat} (hn : 1 ≤ n) {A : Mat K} {b : Array K} (hA : WFn A n)
    (hb : b.size = n) (hdet : (toMat n (ent A)).det ≠ 0) :
    ∃ m' x', gaussWithPivot A b = .ok (m', x') ∧ WFn m' n ∧ x'.size = n ∧
      Good n (n - 1) (ent m') ∧ (toMat n (ent m')).det ≠ 0 := by
  have hu : usub n 1 = .ok (n - 1) := by simp [usub, hn]
  have key : ∃ s', gaussWithPivot A b = .ok s' ∧ (WFn s'.1 n ∧ s'.2.size = n ∧
      Good n (n - 1) (ent s'.1) ∧ (toMat n (ent s'.1)).det ≠ 0) := by
    unfold gaussWithPivot
    rw [hA.2.1]
    simp only [hu, bind, Except.bind]
    refine forM'_inv (fun k (s : Mat K × Array K) => WFn s.1 n ∧ s.2.size = n ∧
      Good n k (ent s.1) ∧ (toMat n (ent s.1)).det ≠ 0) 0 (n - 1) (A, b) _ (Nat.zero_le _)
      ⟨hA, hb, by intro i j _ hj; omega, hdet⟩ ?_
    rintro k ⟨ms, xs⟩ _ hk ⟨hw, hsz, hg, hd⟩
    simp only at hw hsz hg hd
    have hkn : k < n := by omega
    have hnz : ∃ i, k ≤ i ∧ i < n ∧ ent ms i k ≠ 0 := by
      by_contra hcon
      push Not at hcon
      exact hd (det_zero_of_good_zero_col hkn hg hcon)
    obtain ⟨m1, x1, p, hpp, hkp, hpn, hne, hw1, hsz1, he1⟩ := partialPivot_total hw hsz hkn hnz
    have hpiv : ent m1 k k ≠ 0 := by
      rw [he1 k k hkn hkn]
      by_cases hkp' : k = p
      · simp only [hkp', if_true]; rw [← hkp']; exact hkp' ▸ hne
      · simp only [hkp', if_false, if_true]; exact hne
    have hg1 : Good n k (ent m1) := by
      intro i j hi hj hji
      rw [he1 i j hi (by omega)]
      by_cases hip : i = p
      · simp only [hip, if_true]; exact hg k j hkn hj hj
      · by_cases hik : i = k
        · subst hik
          simp only [hip, if_false, if_true]; exact hg p j hpn hj (by omega)
        · simp only [hip, hik, if_false]; exact hg i j hi hj hji
    have hd1 : (toMat n (ent m1)).det ≠ 0 := by
      have e : toMat n (ent m1) = toMat n (swapFn (ent ms) p k) :=
        toMat_congr (fun a b ha hb => by rw [he1 a b ha hb]; rfl)
      rw [e]
      by_cases hpk : p = k
      · rw [hpk, swapFn_self]; exact hd
      · rw [det_toMat_swap _ hpn hkn hpk]; exact neg_ne_zero.mpr hd
    obtain ⟨m2, x2, hl, hw2, hsz2, hg2, hd2⟩ := elimLoop_total hkn hw1 hsz1 hpiv hg1
    refine ⟨(m2, x2), ?_, hw2, hsz2, hg2, by rw [hd2]; exact hd1⟩
    simp only [hpp]
    exact hl
  obtain ⟨⟨m', x'⟩, h1, h2⟩ := key
  exact ⟨m', x', h1, h2⟩

/-- **completeness of `solve_basic`** in terms of the canonical entry functions -/
theorem solveBasic_complete_ent [BEq K] [ScalarExt K] [DecidableEq K] [Alg.PivotLaws K]
    {n : Nat} (hn : 1 ≤ n) {A : Mat K} {b : Array K} (hA : WFn A n)
    (hb : b.size = n) (hdet : (toMat n (ent A)).det ≠ 0) : ∃ x, solveBasic A b = .ok x := by
  obtain ⟨m', x', hg, hw, hsz, hgood, hd⟩ := gauss_total hn hA hb hdet
  have htri : ∀ i j, i < n → j < i → ent m' i j = 0 :=
    fun i j hi hj => hgood i j hi (by omega) hj
  rw [det_toMat_upper htri] at hd
  have hdiag : ∀ i, i < n → ent m' i i ≠ 0 :=
    fun i hi => (Finset.prod_ne_zero_iff.mp hd) i (Finset.mem_range.mpr hi)
  obtain ⟨x, hx⟩ := backsolve_total hw hsz hn hdiag
  refine ⟨x, ?_⟩
  unfold solveBasic
  have h1 : ¬ A.rows ≠ b.size := by rw [hA.2.1, hb]; simp
  have h2 : ¬ A.rows ≠ A.cols := by rw [hA.2.1, hA.2.2]; simp
  simp only [h1, h2, if_false, hg, bind, Except.bind]
  exact hx

/-- **completeness of `solve_lu`** in terms of the canonical entry functions -/
theorem solveLU_complete_ent [BEq K] [LawfulBEq K] [ScalarExt K] [DecidableEq K] [Alg.PivotLaws K]
    {n : Nat} (hn : 1 ≤ n) {A : Mat K} {b : Array K} (hA : WFn A n)
    (hb : b.size = n) (hdet : (toMat n (ent A)).det ≠ 0) : ∃ x, solveLU A b = .ok x := by
  obtain ⟨s, w, pe, hs, hw, hpe, hdU, _, _⟩ := luDecomp_spec_det hA.is
  rw [det_Umat_full] at hdU
  have hprod : ∏ k ∈ Finset.range n, w k k ≠ 0 := by
    rw [hdU]
    exact mul_ne_zero (pow_ne_zero _ (by norm_num)) hdet
  have hdiag : ∀ i, i < n → ent s.lu i i ≠ 0 := by
    intro i hi
    rw [hw.ent_eq hi hi]
    exact (Finset.prod_ne_zero_iff.mp hprod) i (Finset.mem_range.mpr hi)
  obtain ⟨y, hy, hyn, _⟩ := mulVec_sum hpe.wfn hb
  obtain ⟨z, hz, hzn, _⟩ := forwardSub_spec hw.wfn hyn
  obtain ⟨x, hx⟩ := backsolve_total hw.wfn hzn hn hdiag
  refine ⟨x, ?_⟩
  unfold solveLU
  have h1 : ¬ A.rows ≠ b.size := by rw [hA.2.1, hb]; simp
  have h2 : ¬ A.rows ≠ A.cols := by rw [hA.2.1, hA.2.2]; simp
  simp only [h1, h2, if_false, hs, hy, hz, bind, Except.bind]
  exact hx

/-- **a value returned by `solve_lu` certifies nonsingularity**: every division of the back
    substitution succeeded, so the diagonal of `U` has no zero, and `det U = ± det A` -/
theorem solveLU_ok_det [BEq K] [LawfulBEq K] [ScalarExt K] [DecidableEq K] [Alg.PivotLaws K]
    {n : Nat} (hn : 1 ≤ n) {A : Mat K} {b x : Array K} (hA : WFn A n)
    (hb : b.size = n) (h : solveLU A b = .ok x) : (toMat n (ent A)).det ≠ 0 := by
  obtain ⟨s, w, pe, hs, hw, hpe, hdU, _, _⟩ := luDecomp_spec_det hA.is
  obtain ⟨y, hy, hyn, _⟩ := mulVec_sum hpe.wfn hb
  obtain ⟨z, hz, hzn, _⟩ := forwardSub_spec hw.wfn hyn
  unfold solveLU at h
  have h1 : ¬ A.rows ≠ b.size := by rw [hA.2.1, hb]; simp
  have h2 : ¬ A.rows ≠ A.cols := by rw [hA.2.1, hA.2.2]; simp
  simp only [h1, h2, if_false, hs, hy, hz, bind, Except.bind] at h
  obtain ⟨_, hbs⟩ := backsolve_spec hw.wfn hzn hn h
  rw [det_Umat_full] at hdU
  have hprod : ∏ k ∈ Finset.range n, w k k ≠ 0 := by
    apply Finset.prod_ne_zero_iff.mpr
    intro i hi
    have hi' := Finset.mem_range.mp hi
    rw [← hw.ent_eq hi' hi']
    exact (hbs i hi').1
  intro hdet
  rw [hdU, hdet, mul_zero] at hprod
  exact hprod rfl

end Strict
end Mat
end Ohsl
