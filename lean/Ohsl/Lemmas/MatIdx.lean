/-
  Ohsl.Lemmas.MatIdx — row-major storage lemmas: `i*c + j` is in range and injective on
  `i < r, j < c`; `get` after `set`; well-formedness is preserved.  Core Lean only.
-/
import Ohsl.Lemmas.Loop
namespace Ohsl
namespace Mat
variable {K : Type}

theorem idx_lt {r c i j : Nat} (hi : i < r) (hj : j < c) : i * c + j < r * c := by
  have h1 : i * c + j < i * c + c := Nat.add_lt_add_left hj _
  have h2 : i * c + c = (i + 1) * c := by rw [Nat.succ_mul]
  have h3 : (i + 1) * c ≤ r * c := Nat.mul_le_mul_right _ hi
  omega

theorem idx_inj {c i j i' j' : Nat} (hj : j < c) (hj' : j' < c) (h : i * c + j = i' * c + j') :
    i = i' ∧ j = j' := by
  have hc : 0 < c := by omega
  have e1 : (i * c + j) / c = i := by
    rw [Nat.mul_comm, Nat.mul_add_div hc, Nat.div_eq_of_lt hj]; omega
  have e2 : (i' * c + j') / c = i' := by
    rw [Nat.mul_comm, Nat.mul_add_div hc, Nat.div_eq_of_lt hj']; omega
  have : i = i' := by rw [← e1, ← e2, h]
  subst this
  exact ⟨rfl, by omega⟩

theorem aget_ok {α} {a : Array α} {i : Nat} (h : i < a.size) : aget a i = .ok a[i] := by
  simp [aget, h]

theorem aget_err {α} {a : Array α} {i : Nat} (h : a.size ≤ i) : aget a i = .error .range := by
  have : a[i]? = none := by simp [h]
  simp [aget, this]

theorem aget_eq_ok {α} {a : Array α} {i : Nat} {v : α} : aget a i = .ok v ↔ a[i]? = some v := by
  unfold aget
  cases h : a[i]? <;> simp

theorem aset_ok {α} {a : Array α} {i : Nat} (v : α) (h : i < a.size) :
    aset a i v = .ok (a.setIfInBounds i v) := by simp [aset, h]

theorem aset_err {α} {a : Array α} {i : Nat} (v : α) (h : a.size ≤ i) :
    aset a i v = .error .range := by
  have : ¬ i < a.size := by omega
  simp [aset, this]

theorem get_ok {m : Mat K} (h : m.WF) {i j : Nat} (hi : i < m.rows) (hj : j < m.cols) :
    ∃ v, m.get i j = .ok v ∧ m.data[i * m.cols + j]? = some v := by
  have hlt : i * m.cols + j < m.data.size := by rw [h]; exact idx_lt hi hj
  exact ⟨m.data[i * m.cols + j], aget_ok hlt, by simp [hlt]⟩

/-- writing an in-range entry succeeds, keeps the shape and well-formedness, is read back,
    and leaves every other in-range entry unchanged -/
theorem set_spec {m : Mat K} (h : m.WF) {i j : Nat} (hi : i < m.rows) (hj : j < m.cols) (v : K) :
    ∃ m', m.set i j v = .ok m' ∧ m'.WF ∧ m'.rows = m.rows ∧ m'.cols = m.cols ∧
      m'.get i j = .ok v ∧
      ∀ i' j', j' < m.cols → (i' ≠ i ∨ j' ≠ j) → m'.get i' j' = m.get i' j' := by
  have hlt : i * m.cols + j < m.data.size := by rw [h]; exact idx_lt hi hj
  refine ⟨{ m with data := m.data.setIfInBounds (i * m.cols + j) v }, ?_, ?_, rfl, rfl, ?_, ?_⟩
  · simp [Mat.set, aset_ok v hlt, bind, Except.bind, pure, Except.pure]
  · simp [WF] at *; exact h
  · simp [Mat.get, aget, hlt]
  · intro i' j' hj' hne
    simp only [Mat.get, aget]
    have : i * m.cols + j ≠ i' * m.cols + j' := by
      intro e
      have := idx_inj hj hj' e
      omega
    simp [Array.getElem?_setIfInBounds, this]

/-- a write whose flat offset is outside the buffer is a range panic -/
theorem set_err {m : Mat K} {i j : Nat} (v : K) (h : m.data.size ≤ i * m.cols + j) :
    m.set i j v = .error .range := by
  simp [Mat.set, aset_err v h, bind, Except.bind]

theorem new_wf (r c : Nat) (x : K) : (Mat.new r c x).WF := by simp [Mat.new, WF]

theorem new_get {r c i j : Nat} (x : K) (hi : i < r) (hj : j < c) :
    (Mat.new r c x).get i j = .ok x := by
  have := idx_lt hi hj
  simp [Mat.new, Mat.get, aget, this]

end Mat
end Ohsl
