/-
  Ohsl.Lemmas.RNE — IEEE 754 round-to-nearest, ties-to-even, as a function on the reals, and the
  proof that it is an instance of the standard model `FlModel` of Ohsl/Lemmas/Rounding.lean.

  WHAT IS DEFINED
    `roundHalfEven : ℝ → ℤ`   nearest integer, ties to the even one;
    `rne p : ℝ → ℝ`           round to nearest, ties to even, to a `(p+1)`-bit significand with an
                              UNBOUNDED exponent range: for `x ≠ 0`, `e = ⌊log₂|x|⌋`,
                              `ulp = 2^(e-p)`, `rne p x = roundHalfEven (x / ulp) · ulp`; `rne p 0 = 0`.
                              For `p = 52` and `2^-1022 ≤ |x| < 2^1024 (1 - 2^-54)` this is the IEEE 754
                              binary64 `roundTiesToEven` of the real number `x` (normal range).
    `FlModel.rne p`           the model with `fl = rne p`, `u = 2^(-p-1)`;
    `FlModel.ieee64`          `= FlModel.rne 52`, `u = 2⁻⁵³` (`ieee64_u`).

  WHAT IS PROVED (all in namespace `Ohsl`)
    `roundHalfEven_err`, `roundHalfEven_spec`, `roundHalfEven_unique` (the nearest integer, the even
      one at a tie, and it is the only integer with this property), `roundHalfEven_intCast`,
      `roundHalfEven_mono`, `roundHalfEven_neg`, `roundHalfEven_eq_round` (equal to Mathlib's `round`
      off ties);
    `rne_zero`, `rne_eq`, `rne_err` (`|rne p x - x| ≤ 2^(-p-1) |x|`), `rne_err_ulp` (half an ulp),
    `rne_fixes_grid` (`k · 2^j`, `|k| < 2^(p+1)`, are fixed points), `rne_mem_grid` (every value of
      `rne p` is of this form: the range of `rne p` is exactly the set of representable numbers),
    `rne_int`, `rne_zpow`, `rne_natCast`; with the project's `Rep`: `FlModel.rne_rep_grid`,
      `FlModel.rne_rep_int` (`|k| ≤ 2^(p+1)`), `FlModel.rne_rep_nat`, `FlModel.rne_rep_zpow`,
      `FlModel.rne_rep_fl` (every rounded result is representable);
    `rne_monotone`, `rne_neg`, `rne_idempotent`,
    `rne_eq_roundBits_off_ties` (agreement with the ties-upward model `FlModel.roundBits p` unless
      `x/ulp` is exactly halfway between two integers),
    `rne_tie_down`, `rne_tie_up` (`2^(p+1)+1 ↦ 2^(p+1)`, `2^(p+1)+3 ↦ 2^(p+1)+4`: ties really go to
      the even significand, in both directions), `roundBits_tie`, `roundBits_neg_tie`,
      `roundBits_not_odd`, `rne_ne_roundBits` (ties-upward rounding is not sign-symmetric and differs
      from `rne` at `2^(p+1)+1`); `FlModel.rne_rep_iff` (the representable numbers are exactly the
      `k · 2^j`, `|k| < 2^(p+1)`), `FlModel.rne_rep_neg`, `FlModel.rne_u_pos`, `FlModel.rne_u_lt_one`.

  WHAT IS NOT COVERED
    The exponent range is unbounded: no overflow to `±∞`, no subnormal numbers / gradual underflow,
    no signed zero, no NaN.  Nothing here is a statement about Lean's `Float` or Rust's `f64`; what
    remains ASSUMED for the transfer of class-F theorems to the `f64` code is only that the hardware
    operation returns `rne 52` of the exact real result when no overflow, underflow or NaN occurs —
    which is the IEEE 754 definition of a correctly rounded operation for `+ - × ÷ √` (it does not
    hold for libm's `powf`, `sin`, …).
-/
import Ohsl.Lemmas.Rounding
import Mathlib.Algebra.Order.Round
import Mathlib.Algebra.Group.Int.Even
import Mathlib.Data.Int.Log
import Mathlib.Tactic.Ring
import Mathlib.Tactic.Linarith
import Mathlib.Tactic.Positivity
import Mathlib.Tactic.NormNum
import Mathlib.Tactic.FieldSimp
import Mathlib.Tactic.SplitIfs
set_option linter.unusedSectionVars false
set_option linter.unusedVariables false
set_option linter.unusedSimpArgs false

namespace Ohsl

/-! ### nearest integer, ties to even -/

/-- round to the nearest integer; at a tie (`m` exactly halfway between two integers) take the even
one -/
noncomputable def roundHalfEven (m : ℝ) : ℤ :=
  let f := ⌊m⌋
  if m - f < 1 / 2 then f else if m - f > 1 / 2 then f + 1 else if Even f then f else f + 1

/-- the four cases of the definition -/
theorem roundHalfEven_cases (m : ℝ) :
    (m - ⌊m⌋ < 1 / 2 ∧ roundHalfEven m = ⌊m⌋) ∨
    (1 / 2 < m - ⌊m⌋ ∧ roundHalfEven m = ⌊m⌋ + 1) ∨
    (m - ⌊m⌋ = 1 / 2 ∧ Even ⌊m⌋ ∧ roundHalfEven m = ⌊m⌋) ∨
    (m - ⌊m⌋ = 1 / 2 ∧ ¬ Even ⌊m⌋ ∧ roundHalfEven m = ⌊m⌋ + 1) := by
  unfold roundHalfEven
  simp only []
  split_ifs with h1 h2 h3
  · exact Or.inl ⟨h1, rfl⟩
  · exact Or.inr (Or.inl ⟨h2, rfl⟩)
  · exact Or.inr (Or.inr (Or.inl ⟨by linarith [not_lt.mp h1, not_lt.mp h2], h3, rfl⟩))
  · exact Or.inr (Or.inr (Or.inr ⟨by linarith [not_lt.mp h1, not_lt.mp h2], h3, rfl⟩))

/-- **specification**: `roundHalfEven m` is strictly nearest, or it is one of the two nearest and
even -/
theorem roundHalfEven_spec (m : ℝ) :
    |(roundHalfEven m : ℝ) - m| < 1 / 2 ∨
      (|(roundHalfEven m : ℝ) - m| = 1 / 2 ∧ Even (roundHalfEven m)) := by
  have h1 := Int.floor_le m
  have h2 := Int.lt_floor_add_one m
  rcases roundHalfEven_cases m with ⟨h, hr⟩ | ⟨h, hr⟩ | ⟨h, he, hr⟩ | ⟨h, he, hr⟩ <;> rw [hr]
  · left; rw [abs_lt]; constructor <;> linarith
  · left; push_cast; rw [abs_lt]; constructor <;> linarith
  · right
    refine ⟨?_, he⟩
    rw [show ((⌊m⌋ : ℤ) : ℝ) - m = -(1 / 2) by linarith, abs_neg]
    exact abs_of_pos (by norm_num)
  · right
    refine ⟨?_, Int.even_add_one.mpr he⟩
    push_cast
    rw [show ((⌊m⌋ : ℤ) : ℝ) + 1 - m = 1 / 2 by linarith]
    exact abs_of_pos (by norm_num)

/-- the error is at most one half -/
theorem roundHalfEven_err (m : ℝ) : |(roundHalfEven m : ℝ) - m| ≤ 1 / 2 := by
  rcases roundHalfEven_spec m with h | ⟨h, _⟩
  · exact h.le
  · exact h.le

/-- **uniqueness**: an integer that is strictly nearest, or nearest and even, is the value of
`roundHalfEven` -/
theorem roundHalfEven_unique (m : ℝ) (r : ℤ)
    (h : |(r : ℝ) - m| < 1 / 2 ∨ (|(r : ℝ) - m| = 1 / 2 ∧ Even r)) : roundHalfEven m = r := by
  have h1 := Int.floor_le m
  have h2 := Int.lt_floor_add_one m
  -- `r` is `⌊m⌋` or `⌊m⌋ + 1`
  have hle : |(r : ℝ) - m| ≤ 1 / 2 := by
    rcases h with h | ⟨h, _⟩
    · exact h.le
    · exact h.le
  obtain ⟨a1, a2⟩ := abs_le.mp hle
  have b1 : ⌊m⌋ ≤ r := by
    have : ((⌊m⌋ : ℤ) : ℝ) < (r : ℝ) + 1 := by linarith
    have : ⌊m⌋ < r + 1 := by exact_mod_cast this
    omega
  have b2 : r ≤ ⌊m⌋ + 1 := by
    have : (r : ℝ) < ((⌊m⌋ : ℤ) : ℝ) + 1 + 1 := by linarith
    have : r < ⌊m⌋ + 1 + 1 := by exact_mod_cast this
    omega
  rcases (by omega : r = ⌊m⌋ ∨ r = ⌊m⌋ + 1) with hr | hr
  · -- `r = ⌊m⌋`: then `m - ⌊m⌋ ≤ 1/2`
    rw [hr] at a1 h
    rcases roundHalfEven_cases m with ⟨c, e⟩ | ⟨c, e⟩ | ⟨c, ce, e⟩ | ⟨c, ce, e⟩
    · rw [e, hr]
    · linarith
    · rw [e, hr]
    · exfalso
      rcases h with h | ⟨_, h⟩
      · rw [abs_lt] at h; linarith [h.1]
      · exact ce h
  · rw [hr] at a2 h
    push_cast at a2 h
    rcases roundHalfEven_cases m with ⟨c, e⟩ | ⟨c, e⟩ | ⟨c, ce, e⟩ | ⟨c, ce, e⟩
    · linarith
    · rw [e, hr]
    · exfalso
      rcases h with h | ⟨_, h⟩
      · rw [abs_lt] at h; linarith [h.2]
      · exact (Int.even_add_one.mp h) ce
    · rw [e, hr]

/-- integers are fixed -/
@[simp] theorem roundHalfEven_intCast (k : ℤ) : roundHalfEven (k : ℝ) = k :=
  roundHalfEven_unique _ _ (Or.inl (by simp))

@[simp] theorem roundHalfEven_zero : roundHalfEven 0 = 0 := by
  simpa using roundHalfEven_intCast 0

/-- `roundHalfEven` is monotone (two different values are at least `1` apart, each within `1/2` of
its argument) -/
theorem roundHalfEven_mono {x y : ℝ} (h : x ≤ y) : roundHalfEven x ≤ roundHalfEven y := by
  by_contra hc
  have hc' : roundHalfEven y + 1 ≤ roundHalfEven x := by omega
  have hr : ((roundHalfEven y : ℤ) : ℝ) + 1 ≤ (roundHalfEven x : ℝ) := by exact_mod_cast hc'
  have ex := abs_le.mp (roundHalfEven_err x)
  have ey := abs_le.mp (roundHalfEven_err y)
  -- everything is forced to be equal: `x = y`
  have hxy : x = y := by linarith [ex.1, ex.2, ey.1, ey.2]
  rw [hxy] at hc'
  omega

/-- `roundHalfEven` is odd: ties-to-even is symmetric under `m ↦ -m` -/
theorem roundHalfEven_neg (m : ℝ) : roundHalfEven (-m) = -roundHalfEven m := by
  apply roundHalfEven_unique
  have e : (((-roundHalfEven m : ℤ)) : ℝ) - -m = -((roundHalfEven m : ℝ) - m) := by
    push_cast; ring
  rw [e, abs_neg, even_neg]
  exact roundHalfEven_spec m

/-- off ties `roundHalfEven` is Mathlib's `round` (which rounds ties upwards) -/
theorem roundHalfEven_eq_round {m : ℝ} (h : Int.fract m ≠ 1 / 2) : roundHalfEven m = round m := by
  have h1 := Int.floor_le m
  have h2 := Int.lt_floor_add_one m
  have hf : Int.fract m = m - ⌊m⌋ := rfl
  rw [round_eq]
  rcases roundHalfEven_cases m with ⟨c, e⟩ | ⟨c, e⟩ | ⟨c, ce, e⟩ | ⟨c, ce, e⟩
  · rw [e, eq_comm, Int.floor_eq_iff]; constructor <;> linarith
  · rw [e, eq_comm, Int.floor_eq_iff]; push_cast; constructor <;> linarith
  · exact absurd (hf.trans c) h
  · exact absurd (hf.trans c) h

/-! ### rounding on a uniform grid -/

namespace RNE

/-- round to nearest, ties to the even multiple, on the uniform grid `q ℤ` -/
noncomputable def gridRNE (q x : ℝ) : ℝ := roundHalfEven (x / q) * q

theorem gridRNE_mono {q : ℝ} (hq : 0 < q) : Monotone (gridRNE q) := by
  intro x y h
  unfold gridRNE
  have h1 : roundHalfEven (x / q) ≤ roundHalfEven (y / q) :=
    roundHalfEven_mono (div_le_div_of_nonneg_right h hq.le)
  have h2 : ((roundHalfEven (x / q) : ℤ) : ℝ) ≤ ((roundHalfEven (y / q) : ℤ) : ℝ) := by
    exact_mod_cast h1
  exact mul_le_mul_of_nonneg_right h2 hq.le

/-- grid points are fixed -/
theorem gridRNE_int {q : ℝ} (hq : q ≠ 0) (k : ℤ) : gridRNE q ((k : ℝ) * q) = (k : ℝ) * q := by
  unfold gridRNE
  rw [mul_div_cancel_right₀ _ hq, roundHalfEven_intCast]

/-- a number between two grid points is rounded to a number between them -/
theorem gridRNE_between {q : ℝ} (hq : 0 < q) (k l : ℤ) {x : ℝ} (h1 : (k : ℝ) * q ≤ x)
    (h2 : x ≤ (l : ℝ) * q) :
    (k : ℝ) * q ≤ gridRNE q x ∧ gridRNE q x ≤ (l : ℝ) * q := by
  have a := gridRNE_mono hq h1
  have b := gridRNE_mono hq h2
  rw [gridRNE_int hq.ne'] at a b
  exact ⟨a, b⟩

/-- the binade of `x ≠ 0`: `2^e ≤ |x| < 2^(e+1)`, `e = ⌊log₂|x|⌋` -/
theorem binade_bounds {x : ℝ} (hx : x ≠ 0) :
    (2 : ℝ) ^ Int.log 2 |x| ≤ |x| ∧ |x| < (2 : ℝ) ^ (Int.log 2 |x| + 1) := by
  constructor
  · exact_mod_cast Int.zpow_log_le_self (b := 2) (by norm_num) (abs_pos.mpr hx)
  · exact_mod_cast Int.lt_zpow_succ_log_self (b := 2) (by norm_num) |x|

/-- the binade of a number between `2^e` and `2^(e+1)` -/
theorem log_eq_of_bounds {x : ℝ} {e : ℤ} (h1 : (2 : ℝ) ^ e ≤ x) (h2 : x < (2 : ℝ) ^ (e + 1)) :
    Int.log 2 x = e := by
  have hx : 0 < x := lt_of_lt_of_le (zpow_pos two_pos _) h1
  have a : e ≤ Int.log 2 x :=
    (Int.zpow_le_iff_le_log (b := 2) (by norm_num) hx).mp (by exact_mod_cast h1)
  have b : Int.log 2 x < e + 1 :=
    (Int.lt_zpow_iff_log_lt (b := 2) (by norm_num) hx).mp (by exact_mod_cast h2)
  omega

/-- both ends `2^e`, `2^(e+1)` of a binade are points of its grid `2^(e-p) ℤ` -/
theorem two_zpow_grid (p : ℕ) (e : ℤ) :
    (2 : ℝ) ^ e = (((2 : ℤ) ^ p : ℤ) : ℝ) * 2 ^ (e - p) ∧
      (2 : ℝ) ^ (e + 1) = (((2 : ℤ) ^ (p + 1) : ℤ) : ℝ) * 2 ^ (e - p) := by
  constructor
  · push_cast
    rw [← zpow_natCast, ← zpow_add₀ two_ne_zero]
    congr 1; ring
  · push_cast
    rw [← zpow_natCast, ← zpow_add₀ two_ne_zero]
    congr 1; push_cast; ring

end RNE

open RNE

/-! ### IEEE 754 round-to-nearest-even with a `(p+1)`-bit significand, unbounded exponent -/

/-- **IEEE 754 `roundTiesToEven`** to the binary format with a `(p+1)`-bit significand (`p` stored
fraction bits) and an unbounded exponent range: the significand `x / ulp` (`2^p ≤ |x/ulp| < 2^(p+1)`,
`ulp = 2^(⌊log₂|x|⌋ - p)`) is rounded to the nearest integer, ties to the even one. -/
noncomputable def rne (p : ℕ) (x : ℝ) : ℝ :=
  if x = 0 then 0
  else roundHalfEven (x / 2 ^ (Int.log 2 |x| - p)) * 2 ^ (Int.log 2 |x| - p)

@[simp] theorem rne_zero (p : ℕ) : rne p 0 = 0 := by simp [rne]

/-- the defining formula holds for every `x` (for `x = 0` both sides are `0`) -/
theorem rne_eq (p : ℕ) (x : ℝ) : rne p x = gridRNE (2 ^ (Int.log 2 |x| - p)) x := by
  unfold rne gridRNE
  split_ifs with h
  · simp [h]
  · rfl

/-- half an ulp: `|rne p x - x| ≤ ulp / 2`, `ulp = 2^(⌊log₂|x|⌋ - p)` -/
theorem rne_err_ulp (p : ℕ) (x : ℝ) : |rne p x - x| ≤ 2 ^ (Int.log 2 |x| - p) / 2 := by
  rw [rne_eq]
  unfold gridRNE
  set q : ℝ := 2 ^ (Int.log 2 |x| - p) with hq
  have hqpos : 0 < q := zpow_pos two_pos _
  have h1 := roundHalfEven_err (x / q)
  have e1 : (roundHalfEven (x / q) : ℝ) * q - x = ((roundHalfEven (x / q) : ℝ) - x / q) * q := by
    field_simp
  rw [e1, abs_mul, abs_of_pos hqpos]
  have := mul_le_mul_of_nonneg_right h1 hqpos.le
  linarith

/-- **the standard model**: relative error at most `2^(-p-1)` -/
theorem rne_err (p : ℕ) (x : ℝ) : |rne p x - x| ≤ 2 ^ (-(p : ℤ) - 1) * |x| := by
  by_cases hx : x = 0
  · simp [hx]
  · refine (rne_err_ulp p x).trans ?_
    have h2 := (binade_bounds hx).1
    have e2 : (2 : ℝ) ^ (Int.log 2 |x| - p) = 2 ^ Int.log 2 |x| * 2 ^ (-(p : ℤ)) := by
      rw [sub_eq_add_neg, zpow_add₀ two_ne_zero]
    have e3 : (2 : ℝ) ^ (-(p : ℤ) - 1) = 2 ^ (-(p : ℤ)) / 2 := by
      rw [zpow_sub₀ two_ne_zero, zpow_one]
    have hp : (0 : ℝ) < 2 ^ (-(p : ℤ)) := zpow_pos two_pos _
    rw [e2, e3]
    have := mul_le_mul_of_nonneg_right h2 hp.le
    linarith

/-! ### sign symmetry -/

/-- **sign symmetry**: `rne p (-x) = - rne p x` (ties-upward rounding does not have this, see
`roundBits_not_odd`) -/
theorem rne_neg (p : ℕ) (x : ℝ) : rne p (-x) = -rne p x := by
  rw [rne_eq, rne_eq, abs_neg]
  unfold gridRNE
  rw [neg_div, roundHalfEven_neg]
  push_cast; ring

/-! ### representable numbers are fixed, and every value is representable -/

namespace RNE
theorem gridRNE_of_eq {q : ℝ} (hq : q ≠ 0) (n : ℤ) {x : ℝ} (h : x = (n : ℝ) * q) :
    gridRNE q x = x := by
  rw [h]; exact gridRNE_int hq n

theorem gridRNE_zero (q : ℝ) : gridRNE q 0 = 0 := by simp [gridRNE]

theorem int_abs_lt_cast {p : ℕ} {k : ℤ} (hk : |k| < 2 ^ (p + 1)) :
    |(k : ℝ)| < (2 : ℝ) ^ ((p : ℤ) + 1) := by
  have h : ((|k| : ℤ) : ℝ) < (((2 : ℤ) ^ (p + 1) : ℤ) : ℝ) := Int.cast_lt.mpr hk
  rw [Int.cast_abs] at h
  have e : (((2 : ℤ) ^ (p + 1) : ℤ) : ℝ) = (2 : ℝ) ^ ((p : ℤ) + 1) := by
    push_cast
    rw [← zpow_natCast]
    congr 1
  rwa [e] at h
end RNE

/-- **the representable numbers are fixed points**: `k · 2^j` with a significand `|k| < 2^(p+1)`
of at most `p+1` bits and ANY exponent `j` -/
theorem rne_fixes_grid (p : ℕ) (k j : ℤ) (hk : |k| < 2 ^ (p + 1)) :
    rne p ((k : ℝ) * 2 ^ j) = (k : ℝ) * 2 ^ j := by
  by_cases h0 : k = 0
  · subst h0; simp
  have h2j : (0 : ℝ) < 2 ^ j := zpow_pos two_pos _
  have hk0 : (k : ℝ) ≠ 0 := by exact_mod_cast h0
  have hx0 : (k : ℝ) * 2 ^ j ≠ 0 := mul_ne_zero hk0 h2j.ne'
  have habs : |(k : ℝ) * 2 ^ j| = |(k : ℝ)| * 2 ^ j := by rw [abs_mul, abs_of_pos h2j]
  have hlt : |(k : ℝ) * 2 ^ j| < (2 : ℝ) ^ ((p : ℤ) + 1 + j) := by
    rw [habs, zpow_add₀ two_ne_zero]
    exact mul_lt_mul_of_pos_right (int_abs_lt_cast hk) h2j
  have hb := (binade_bounds hx0).1
  have hlog : Int.log 2 |(k : ℝ) * 2 ^ j| < (p : ℤ) + 1 + j :=
    (zpow_lt_zpow_iff_right₀ (one_lt_two (α := ℝ))).mp (hb.trans_lt hlt)
  rw [rne_eq]
  generalize Int.log 2 |(k : ℝ) * 2 ^ j| = e at hlog
  obtain ⟨d, hd⟩ : ∃ d : ℕ, j - (e - p) = d := ⟨(j - (e - p)).toNat, by omega⟩
  apply gridRNE_of_eq (zpow_pos two_pos _).ne' (k * 2 ^ d)
  push_cast
  rw [mul_assoc, ← zpow_natCast, ← zpow_add₀ two_ne_zero, ← hd]
  congr 2; ring

/-- **every value of `rne p` is representable**: of the form `k · 2^j` with `|k| < 2^(p+1)`.
Together with `rne_fixes_grid`: the range of `rne p` is exactly the set of these numbers. -/
theorem rne_mem_grid (p : ℕ) (x : ℝ) :
    ∃ k j : ℤ, |k| < 2 ^ (p + 1) ∧ rne p x = (k : ℝ) * 2 ^ j := by
  have hN1 : (1 : ℤ) < 2 ^ (p + 1) := one_lt_pow₀ (by norm_num) (by omega)
  by_cases hx : x = 0
  · exact ⟨0, 0, by simp, by simp [hx]⟩
  have hb := (binade_bounds hx).2
  obtain ⟨g1, g2⟩ := two_zpow_grid p (Int.log 2 |x|)
  have hr : rne p x = _ := rne_eq p x
  have hq : (0 : ℝ) < 2 ^ (Int.log 2 |x| - p) := zpow_pos two_pos _
  unfold gridRNE at hr
  -- the rounded significand is at most `2^(p+1)` in absolute value
  obtain ⟨a1, a2⟩ := abs_lt.mp hb
  have hm1 : x / 2 ^ (Int.log 2 |x| - p) ≤ (((2 : ℤ) ^ (p + 1) : ℤ) : ℝ) := by
    rw [div_le_iff₀ hq, ← g2]; exact a2.le
  have hm2 : (((-(2 : ℤ) ^ (p + 1) : ℤ)) : ℝ) ≤ x / 2 ^ (Int.log 2 |x| - p) := by
    rw [le_div_iff₀ hq, Int.cast_neg, neg_mul, ← g2]; exact a1.le
  have hr1 := roundHalfEven_mono hm1
  have hr2 := roundHalfEven_mono hm2
  rw [roundHalfEven_intCast] at hr1 hr2
  generalize roundHalfEven (x / 2 ^ (Int.log 2 |x| - p)) = r at hr hr1 hr2
  by_cases c1 : r = 2 ^ (p + 1)
  · refine ⟨1, Int.log 2 |x| + 1, by simpa using hN1, ?_⟩
    rw [hr, c1, ← g2]; simp
  by_cases c2 : r = -2 ^ (p + 1)
  · refine ⟨-1, Int.log 2 |x| + 1, by simpa using hN1, ?_⟩
    rw [hr, c2, Int.cast_neg, neg_mul, ← g2]; simp
  · refine ⟨r, Int.log 2 |x| - p, ?_, hr⟩
    rw [abs_lt]
    generalize (2 : ℤ) ^ (p + 1) = N at *
    omega

/-- **idempotence**: a rounded number is not moved by rounding again -/
theorem rne_idempotent (p : ℕ) (x : ℝ) : rne p (rne p x) = rne p x := by
  obtain ⟨k, j, hk, h⟩ := rne_mem_grid p x
  rw [h]; exact rne_fixes_grid p k j hk

/-- powers of two (any integer exponent) are fixed -/
theorem rne_zpow (p : ℕ) (e : ℤ) : rne p ((2 : ℝ) ^ e) = 2 ^ e := by
  have h := rne_fixes_grid p 1 e (by simpa using one_lt_pow₀ (M₀ := ℤ) (by norm_num) (by omega))
  simpa using h

/-- integers of absolute value `≤ 2^(p+1)` (binary64: `≤ 2⁵³`) are fixed -/
theorem rne_int (p : ℕ) (k : ℤ) (hk : |k| ≤ 2 ^ (p + 1)) : rne p (k : ℝ) = k := by
  have e1 : (((2 : ℤ) ^ (p + 1) : ℤ) : ℝ) = (2 : ℝ) ^ ((p : ℤ) + 1) := by
    push_cast
    rw [← zpow_natCast]
    congr 1
  rcases hk.lt_or_eq with h | h
  · simpa using rne_fixes_grid p k 0 h
  · rcases abs_eq (by positivity : (0 : ℤ) ≤ 2 ^ (p + 1)) |>.mp h with h | h
    · rw [h, e1]; exact rne_zpow p _
    · rw [h, Int.cast_neg, e1, rne_neg, rne_zpow]

/-- natural numbers `≤ 2^(p+1)` are fixed: the casts `n as f64`, `n ≤ 2⁵³`, are exact -/
theorem rne_natCast (p : ℕ) (n : ℕ) (hn : n ≤ 2 ^ (p + 1)) : rne p (n : ℝ) = n := by
  have := rne_int p (n : ℤ) (by
    rw [abs_of_nonneg (by positivity)]
    exact_mod_cast hn)
  simpa using this

/-! ### monotonicity -/

theorem rne_nonneg (p : ℕ) {x : ℝ} (hx : 0 ≤ x) : 0 ≤ rne p x := by
  rw [rne_eq]
  have := gridRNE_mono (zpow_pos two_pos (Int.log 2 |x| - p)) hx
  rwa [gridRNE_zero] at this

theorem rne_nonpos (p : ℕ) {x : ℝ} (hx : x ≤ 0) : rne p x ≤ 0 := by
  have := rne_nonneg p (neg_nonneg.mpr hx)
  rw [rne_neg] at this
  linarith

/-- a positive number is rounded inside the closure of its binade -/
theorem rne_pos_bounds (p : ℕ) {x : ℝ} (hx : 0 < x) :
    (2 : ℝ) ^ Int.log 2 x ≤ rne p x ∧ rne p x ≤ (2 : ℝ) ^ (Int.log 2 x + 1) := by
  have hb := binade_bounds hx.ne'
  rw [rne_eq]
  rw [abs_of_pos hx] at hb ⊢
  obtain ⟨g1, g2⟩ := two_zpow_grid p (Int.log 2 x)
  have hq : (0 : ℝ) < 2 ^ (Int.log 2 x - p) := zpow_pos two_pos _
  have := gridRNE_between hq ((2 : ℤ) ^ p) ((2 : ℤ) ^ (p + 1)) (x := x)
    (by rw [← g1]; exact hb.1) (by rw [← g2]; exact hb.2.le)
  rw [← g1, ← g2] at this
  exact this

theorem rne_mono_pos (p : ℕ) {x y : ℝ} (hx : 0 < x) (hxy : x ≤ y) : rne p x ≤ rne p y := by
  have hy : 0 < y := lt_of_lt_of_le hx hxy
  have hlog : Int.log 2 x ≤ Int.log 2 y := Int.log_mono_right hx hxy
  rcases hlog.eq_or_lt with he | hlt
  · rw [rne_eq, rne_eq, abs_of_pos hx, abs_of_pos hy, he]
    exact gridRNE_mono (zpow_pos two_pos _) hxy
  · have h1 := (rne_pos_bounds p hx).2
    have h2 := (rne_pos_bounds p hy).1
    have h3 : (2 : ℝ) ^ (Int.log 2 x + 1) ≤ 2 ^ Int.log 2 y :=
      zpow_le_zpow_right₀ one_le_two (by omega)
    linarith

/-- **round-to-nearest-even with `p + 1` significant bits is monotone.**  Inside a binade the grid
is uniform (`gridRNE_mono`); across binades the powers of two are grid points of both neighbouring
binades (`rne_pos_bounds`); negative arguments by sign symmetry (`rne_neg`). -/
theorem rne_monotone (p : ℕ) : Monotone (rne p) := by
  intro x y hxy
  by_cases hx : 0 < x
  · exact rne_mono_pos p hx hxy
  · have hx0 : x ≤ 0 := not_lt.mp hx
    by_cases hy : y < 0
    · have h := rne_mono_pos p (neg_pos.mpr hy) (neg_le_neg hxy)
      rw [rne_neg, rne_neg] at h
      linarith
    · exact (rne_nonpos p hx0).trans (rne_nonneg p (not_lt.mp hy))

/-! ### comparison with the ties-upward model `roundBits` -/

/-- **off ties `rne p` is `roundBits p`**: the two roundings agree at `x` unless the significand
`x / ulp` is exactly halfway between two integers -/
theorem rne_eq_roundBits_off_ties (p : ℕ) (x : ℝ)
    (h : Int.fract (x / 2 ^ (Int.log 2 |x| - p)) ≠ 1 / 2) :
    rne p x = (FlModel.roundBits p).fl x := by
  rw [rne_eq]
  show gridRNE _ x = round (x / 2 ^ (Int.log 2 |x| - p)) * 2 ^ (Int.log 2 |x| - p)
  unfold gridRNE
  rw [roundHalfEven_eq_round h]

/-- `rne p` as a model of floating-point arithmetic: `u = 2^(-p-1)` -/
noncomputable def FlModel.rne (p : ℕ) : FlModel where
  u := 2 ^ (-(p : ℤ) - 1)
  fl := Ohsl.rne p
  u_nonneg := (zpow_pos two_pos _).le
  fl_err := rne_err p

@[simp] theorem FlModel.rne_fl (p : ℕ) : (FlModel.rne p).fl = Ohsl.rne p := rfl
theorem FlModel.rne_u (p : ℕ) : (FlModel.rne p).u = 2 ^ (-(p : ℤ) - 1) := rfl

/-- **IEEE 754 binary64 rounding** (`roundTiesToEven`, 53-bit significand) without exponent limits -/
noncomputable def FlModel.ieee64 : FlModel := FlModel.rne 52

theorem FlModel.ieee64_u : FlModel.ieee64.u = 2 ^ (-53 : ℤ) := by
  show (2 : ℝ) ^ (-((52 : ℕ) : ℤ) - 1) = 2 ^ (-53 : ℤ)
  norm_num

theorem FlModel.ieee64_fl : FlModel.ieee64.fl = Ohsl.rne 52 := rfl

theorem FlModel.rne_u_pos (p : ℕ) : 0 < (FlModel.rne p).u := zpow_pos two_pos _

theorem FlModel.rne_u_lt_one (p : ℕ) : (FlModel.rne p).u < 1 :=
  zpow_lt_one_of_neg₀ (by norm_num) (by omega)

/-! ### representable numbers of `FlModel.rne p`, with the project's predicate `Rep` -/

/-- `k · 2^j`, `|k| < 2^(p+1)`, is representable -/
theorem FlModel.rne_rep_grid (p : ℕ) (k j : ℤ) (hk : |k| < 2 ^ (p + 1)) :
    (FlModel.rne p).Rep ((k : ℝ) * 2 ^ j) := rne_fixes_grid p k j hk

/-- **characterisation of the representable numbers**: exactly the `k · 2^j` with `|k| < 2^(p+1)` -/
theorem FlModel.rne_rep_iff (p : ℕ) (x : ℝ) :
    (FlModel.rne p).Rep x ↔ ∃ k j : ℤ, |k| < 2 ^ (p + 1) ∧ x = (k : ℝ) * 2 ^ j := by
  constructor
  · intro h
    obtain ⟨k, j, hk, e⟩ := rne_mem_grid p x
    exact ⟨k, j, hk, by rw [← e]; exact h.symm⟩
  · rintro ⟨k, j, hk, rfl⟩
    exact rne_fixes_grid p k j hk

/-- integers of absolute value `≤ 2^(p+1)` are representable -/
theorem FlModel.rne_rep_int (p : ℕ) (k : ℤ) (hk : |k| ≤ 2 ^ (p + 1)) :
    (FlModel.rne p).Rep (k : ℝ) := rne_int p k hk

/-- natural numbers `≤ 2^(p+1)` are representable -/
theorem FlModel.rne_rep_nat (p : ℕ) (n : ℕ) (hn : n ≤ 2 ^ (p + 1)) :
    (FlModel.rne p).Rep (n : ℝ) := rne_natCast p n hn

/-- powers of two are representable -/
theorem FlModel.rne_rep_zpow (p : ℕ) (e : ℤ) : (FlModel.rne p).Rep ((2 : ℝ) ^ e) := rne_zpow p e

/-- every rounded result is representable (idempotence) -/
theorem FlModel.rne_rep_fl (p : ℕ) (x : ℝ) : (FlModel.rne p).Rep ((FlModel.rne p).fl x) :=
  rne_idempotent p x

/-- the representable numbers are closed under negation -/
theorem FlModel.rne_rep_neg (p : ℕ) {x : ℝ} (h : (FlModel.rne p).Rep x) :
    (FlModel.rne p).Rep (-x) := by
  show Ohsl.rne p (-x) = -x
  rw [rne_neg]
  exact congrArg Neg.neg h

/-! ### ties: to even for `rne`, upwards for `roundBits` -/

namespace RNE
/-- in the binade `[2^(p+1), 2^(p+2))` the spacing of the format is `2` -/
theorem ulp_eq_two (p : ℕ) {x : ℝ} (h1 : (2 : ℝ) ^ (p + 1) ≤ |x|) (h2 : |x| < (2 : ℝ) ^ (p + 2)) :
    (2 : ℝ) ^ (Int.log 2 |x| - p) = 2 := by
  have hlog : Int.log 2 |x| = (p : ℤ) + 1 := by
    apply log_eq_of_bounds
    · rw [show ((p : ℤ) + 1) = ((p + 1 : ℕ) : ℤ) by push_cast; rfl, zpow_natCast]; exact h1
    · rw [show ((p : ℤ) + 1 + 1) = ((p + 2 : ℕ) : ℤ) by push_cast; ring, zpow_natCast]; exact h2
  rw [hlog, show (p : ℤ) + 1 - p = 1 by ring, zpow_one]

theorem four_le (p : ℕ) (hp : 1 ≤ p) : (4 : ℝ) ≤ 2 ^ (p + 1) := by
  have : (2 : ℝ) ^ 2 ≤ 2 ^ (p + 1) := pow_le_pow_right₀ one_le_two (by omega)
  linarith
end RNE

/-- **a tie is rounded DOWN to the even significand**: for `p ≥ 1`, `2^(p+1) + 1` (binary64:
`2⁵³ + 1`, halfway between the neighbours `2⁵³` and `2⁵³ + 2`) is rounded to `2^(p+1)`, whose
significand `2^p` is even.  (`roundBits p` gives `2^(p+1) + 2`, `roundBits_tie`.) -/
theorem rne_tie_down (p : ℕ) (hp : 1 ≤ p) : rne p ((2 : ℝ) ^ (p + 1) + 1) = 2 ^ (p + 1) := by
  have h4 := four_le p hp
  have hpos : (0 : ℝ) < 2 ^ (p + 1) + 1 := by linarith
  rw [rne_eq, ulp_eq_two p (by rw [abs_of_pos hpos]; linarith)
    (by rw [abs_of_pos hpos, pow_succ (2 : ℝ) (p + 1)]; linarith)]
  unfold gridRNE
  have hr : roundHalfEven (((2 : ℝ) ^ (p + 1) + 1) / 2) = 2 ^ p := by
    apply roundHalfEven_unique
    right
    refine ⟨?_, (even_two).pow_of_ne_zero (by omega)⟩
    have : (((2 : ℤ) ^ p : ℤ) : ℝ) - ((2 : ℝ) ^ (p + 1) + 1) / 2 = -(1 / 2) := by
      push_cast; rw [pow_succ]; ring
    rw [this, abs_neg]; exact abs_of_pos (by norm_num)
  rw [hr]; push_cast; rw [pow_succ]

/-- **a tie is rounded UP to the even significand**: for `p ≥ 1`, `2^(p+1) + 3` (halfway between
`2^(p+1) + 2` and `2^(p+1) + 4`) is rounded to `2^(p+1) + 4`, whose significand `2^p + 2` is even. -/
theorem rne_tie_up (p : ℕ) (hp : 1 ≤ p) : rne p ((2 : ℝ) ^ (p + 1) + 3) = 2 ^ (p + 1) + 4 := by
  have h4 := four_le p hp
  have hpos : (0 : ℝ) < 2 ^ (p + 1) + 3 := by linarith
  rw [rne_eq, ulp_eq_two p (by rw [abs_of_pos hpos]; linarith)
    (by rw [abs_of_pos hpos, pow_succ (2 : ℝ) (p + 1)]; linarith)]
  unfold gridRNE
  have hr : roundHalfEven (((2 : ℝ) ^ (p + 1) + 3) / 2) = 2 ^ p + 2 := by
    apply roundHalfEven_unique
    right
    refine ⟨?_, ((even_two).pow_of_ne_zero (by omega)).add even_two⟩
    have : (((2 : ℤ) ^ p + 2 : ℤ) : ℝ) - ((2 : ℝ) ^ (p + 1) + 3) / 2 = 1 / 2 := by
      push_cast; rw [pow_succ]; ring
    rw [this]; exact abs_of_pos (by norm_num)
  rw [hr]; push_cast; rw [pow_succ]; ring

/-- the ties-upward model: `2^(p+1) + 1 ↦ 2^(p+1) + 2` -/
theorem roundBits_tie (p : ℕ) :
    (FlModel.roundBits p).fl ((2 : ℝ) ^ (p + 1) + 1) = 2 ^ (p + 1) + 2 := by
  have h2 : (2 : ℝ) ≤ 2 ^ (p + 1) := by
    have : (2 : ℝ) ^ 1 ≤ 2 ^ (p + 1) := pow_le_pow_right₀ one_le_two (by omega)
    linarith
  have hpos : (0 : ℝ) < 2 ^ (p + 1) + 1 := by linarith
  show (round (((2 : ℝ) ^ (p + 1) + 1) / 2 ^ (Int.log 2 |(2 : ℝ) ^ (p + 1) + 1| - p)) : ℝ)
      * 2 ^ (Int.log 2 |(2 : ℝ) ^ (p + 1) + 1| - p) = _
  rw [ulp_eq_two p (by rw [abs_of_pos hpos]; linarith)
    (by rw [abs_of_pos hpos, pow_succ (2 : ℝ) (p + 1)]; linarith)]
  have hr : round (((2 : ℝ) ^ (p + 1) + 1) / 2) = (2 : ℤ) ^ p + 1 := by
    rw [round_eq]
    have : ((2 : ℝ) ^ (p + 1) + 1) / 2 + 1 / 2 = (((2 : ℤ) ^ p + 1 : ℤ) : ℝ) := by
      push_cast; rw [pow_succ]; ring
    rw [this, Int.floor_intCast]
  rw [hr]; push_cast; rw [pow_succ]; ring

/-- the ties-upward model: `-(2^(p+1) + 1) ↦ -2^(p+1)` (upwards, i.e. towards zero here) -/
theorem roundBits_neg_tie (p : ℕ) :
    (FlModel.roundBits p).fl (-((2 : ℝ) ^ (p + 1) + 1)) = -(2 : ℝ) ^ (p + 1) := by
  have h2 : (2 : ℝ) ≤ 2 ^ (p + 1) := by
    have : (2 : ℝ) ^ 1 ≤ 2 ^ (p + 1) := pow_le_pow_right₀ one_le_two (by omega)
    linarith
  have hpos : (0 : ℝ) < 2 ^ (p + 1) + 1 := by linarith
  show (round (-((2 : ℝ) ^ (p + 1) + 1) / 2 ^ (Int.log 2 |(-((2 : ℝ) ^ (p + 1) + 1))| - p)) : ℝ)
      * 2 ^ (Int.log 2 |(-((2 : ℝ) ^ (p + 1) + 1))| - p) = _
  rw [ulp_eq_two p (by rw [abs_neg, abs_of_pos hpos]; linarith)
    (by rw [abs_neg, abs_of_pos hpos, pow_succ (2 : ℝ) (p + 1)]; linarith)]
  have hr : round (-((2 : ℝ) ^ (p + 1) + 1) / 2) = -(2 : ℤ) ^ p := by
    rw [round_eq]
    have : -((2 : ℝ) ^ (p + 1) + 1) / 2 + 1 / 2 = (((-(2 : ℤ) ^ p : ℤ)) : ℝ) := by
      push_cast; rw [pow_succ]; ring
    rw [this, Int.floor_intCast]
  rw [hr]; push_cast; rw [pow_succ]; ring

/-- **ties-upward rounding is not sign-symmetric** (while `rne` is, `rne_neg`) -/
theorem roundBits_not_odd (p : ℕ) :
    ∃ x : ℝ, (FlModel.roundBits p).fl (-x) ≠ -(FlModel.roundBits p).fl x := by
  refine ⟨(2 : ℝ) ^ (p + 1) + 1, ?_⟩
  rw [roundBits_tie, roundBits_neg_tie]
  intro h
  linarith

/-- the two roundings really differ (at ties with an even lower neighbour) -/
theorem rne_ne_roundBits (p : ℕ) (hp : 1 ≤ p) :
    ∃ x : ℝ, rne p x ≠ (FlModel.roundBits p).fl x := by
  refine ⟨(2 : ℝ) ^ (p + 1) + 1, ?_⟩
  rw [roundBits_tie, rne_tie_down p hp]
  intro h
  linarith

/-- binary64: `2⁵³ + 1 ↦ 2⁵³`, `2⁵³ + 3 ↦ 2⁵³ + 4`, `-(2⁵³ + 1) ↦ -2⁵³` -/
example : rne 52 (2 ^ 53 + 1) = 2 ^ 53 ∧ rne 52 (2 ^ 53 + 3) = 2 ^ 53 + 4 ∧
    rne 52 (-(2 ^ 53 + 1)) = -2 ^ 53 :=
  ⟨rne_tie_down 52 (by norm_num), rne_tie_up 52 (by norm_num), by
    rw [rne_neg, rne_tie_down 52 (by norm_num)]⟩

end Ohsl
