/-
  Ohsl.Lemmas.RealTransc — the real-analysis interpretation of the `f64`-only operations
  (DESIGN §2.1): sqrt, sin, …, atan2 y x := arg (x + i y), powf := rpow.  Noncomputable.
-/
import Ohsl.Model.CxFun
import Ohsl.Lemmas.Alg
import Mathlib.Analysis.SpecialFunctions.Complex.Log
import Mathlib.Analysis.SpecialFunctions.Pow.Real
import Mathlib.Analysis.SpecialFunctions.Trigonometric.Basic
import Mathlib.Analysis.SpecialFunctions.Sqrt

namespace Ohsl.RealI
open Real

noncomputable instance transc : Transc ℝ where
  sqrt := Real.sqrt
  sin := Real.sin
  cos := Real.cos
  tan := Real.tan
  exp := Real.exp
  ln := Real.log
  sinh := Real.sinh
  cosh := Real.cosh
  fabs := fun x => |x|
  atan2 := fun y x => Complex.arg ⟨x, y⟩
  powf := fun x y => x ^ y
  fmax := max
  ofNat := fun n => (n : ℝ)
  le := fun a b => decide (a ≤ b)
  half := 1 / 2
  piHalf := π / 2
  eps := 2 ^ (-52 : ℤ)
  snap := 1 / 10 ^ 7

noncomputable instance scalarExt : ScalarExt ℝ := Alg.scalarExt ℝ

/-- the model's complex number as Mathlib's -/
def toC (z : Cx ℝ) : ℂ := ⟨z.re, z.im⟩

end Ohsl.RealI
