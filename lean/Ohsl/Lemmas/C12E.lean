/-
  Ohsl.Lemmas.C12E — helper lemmas for Ohsl/Props/C12E.lean (number of iterations of the long
  division of `Ohsl/Model/Poly.lean`).

  The class-(E) lemmas of Ohsl/Lemmas/PolyDiv.lean are stated for a linearly ordered field with
  `Alg.scalarExt`.  Here the same facts for ANY field whose `==` is lawful and whose `divM` is the
  guarded field division (`Alg.DivLaw`): ordered fields with `Alg.scalarExt`, the executable `Rat`
  instance of `Ohsl/Model/Inst.lean`, and the model's complex numbers `Cx ℝ` (CxField.lean) are
  instances.  `toPoly` is `Ohsl.PolyDiv.toPoly` (definitionally `Ohsl.PolyAlg.toPoly`).
-/
import Ohsl.Lemmas.PolyDiv
import Ohsl.Props.C11P
import Ohsl.Model.Inst
set_option linter.unusedSectionVars false
set_option linter.unusedVariables false
namespace Ohsl.PolyDivE
open Ohsl Ohsl.Poly Ohsl.PolyDiv Polynomial

/-- the two interpretations of a coefficient array in use are the same definition -/
theorem toPoly_eq_polyAlg {K : Type} [Semiring K] (cs : Array K) :
    toPoly cs = Ohsl.PolyAlg.toPoly cs := rfl

section Semi
variable {K : Type} [Semiring K]

theorem toPoly_add (p q : Array K) : toPoly (add p q) = toPoly p + toPoly q :=
  Ohsl.Props.C11.add_spec p q

theorem toPoly_mul (p q : Array K) : toPoly (mul p q) = toPoly p * toPoly q :=
  Ohsl.Props.C11.mul_spec p q

theorem toPoly_stepT (k : Nat) (c : K) : toPoly (stepT k c) = C c * X ^ k := by
  ext j
  rw [coeff_toPoly, coeff_C_mul_X_pow, stepT, Array.getElem?_setIfInBounds]
  by_cases hj : k = j
  · subst hj; simp
  · have hj' : ¬ j = k := fun e => hj e.symm
    simp only [hj, hj', if_false, Array.getElem?_replicate]
    split <;> rfl

theorem toPoly_stepQ0 {K : Type} [Ring K] (v q r : Array K) (c : K) :
    toPoly (stepQ0 v q r c) = toPoly q + C c * X ^ (r.size - 1 - (v.size - 1)) := by
  rw [stepQ0, toPoly_add, toPoly_stepT]

end Semi

theorem toPoly_sub {K : Type} [Ring K] (p q : Array K) : toPoly (sub p q) = toPoly p - toPoly q :=
  Ohsl.Props.C11.sub_spec p q

/-! ### `trim`, `isZero` for a lawful `==` -/
section Lawful
variable {K : Type} [Ring K] [BEq K] [LawfulBEq K] [ScalarExt K]

/-- trimming only removes zeros -/
theorem trimList_spec : ∀ l : List K, ∃ n, l = List.replicate n (0 : K) ++ trimList l
  | [] => ⟨0, by simp [trimList]⟩
  | [c] => ⟨0, by simp [trimList]⟩
  | c :: d :: cs => by
    unfold trimList
    split
    · rename_i h
      have hc : c = 0 := by simpa using h
      obtain ⟨n, hn⟩ := trimList_spec (d :: cs)
      refine ⟨n + 1, ?_⟩
      rw [List.replicate_succ, List.cons_append, ← hn, hc]
    · exact ⟨0, by simp⟩

theorem getD_trimA (p : Array K) (k : Nat) : (trimA p)[k]?.getD 0 = p[k]?.getD 0 := by
  obtain ⟨n, hn⟩ := trimList_spec p.toList.reverse
  have h : p.toList = (trimA p).toList ++ List.replicate n (0 : K) := by
    have := congrArg List.reverse hn
    simpa [trimA] using this
  rw [← Array.getElem?_toList, ← Array.getElem?_toList (xs := p), h, List.getElem?_append]
  split
  · rfl
  · rename_i hk
    rw [List.getElem?_eq_none (by omega)]
    rw [List.getElem?_replicate]
    split <;> rfl

theorem toPoly_trimA (p : Array K) : toPoly (trimA p) = toPoly p :=
  toPoly_ext (getD_trimA p)

/-- `is_zero()` is the zero test of the denoted polynomial -/
theorem isZero_iff (p : Array K) : isZero p = true ↔ toPoly p = 0 := by
  unfold isZero
  rw [Array.all_eq_true]
  constructor
  · intro h
    ext k
    rw [coeff_toPoly, coeff_zero]
    by_cases hk : k < p.size
    · have := h k hk
      simpa [hk] using this
    · simp [Array.getElem?_eq_none (Nat.le_of_not_lt hk)]
  · intro h i hi
    have := congrArg (fun P => Polynomial.coeff P i) h
    simp only [coeff_toPoly, coeff_zero] at this
    simpa [hi] using this

theorem isZero_false_iff (p : Array K) : isZero p = false ↔ toPoly p ≠ 0 := by
  rw [Ne, ← isZero_iff]; cases isZero p <;> simp

/-- the head of a trimmed (reversed) list is non-zero unless a single coefficient is left -/
theorem trimList_head : ∀ l : List K,
    (trimList l).length ≤ 1 ∨ ∃ c cs, trimList l = c :: cs ∧ c ≠ 0
  | [] => Or.inl (by simp [trimList])
  | [c] => Or.inl (by simp [trimList])
  | c :: d :: cs => by
    unfold trimList
    split
    · exact trimList_head (d :: cs)
    · rename_i h
      exact Or.inr ⟨c, d :: cs, rfl, by simpa using h⟩

/-- a trimmed array has a single coefficient or a non-zero leading coefficient -/
theorem trimA_lead (p : Array K) :
    (trimA p).size ≤ 1 ∨ (trimA p)[(trimA p).size - 1]?.getD 0 ≠ 0 := by
  rcases trimList_head p.toList.reverse with h | ⟨c, cs, h, hc⟩
  · left; simpa [trimA] using h
  · right
    have : (trimA p)[(trimA p).size - 1]?.getD 0 = c := by
      simp [trimA, h]
    rw [this]; exact hc

/-- the state invariant of the remainder after the first step: it is the zero polynomial or its
last stored coefficient is non-zero -/
theorem trimA_normal (p : Array K) (hp : p.size ≠ 0) :
    isZero (trimA p) = true ∨ (trimA p)[(trimA p).size - 1]?.getD 0 ≠ 0 := by
  rcases trimA_lead p with h | h
  · have h1 : (trimA p).size = 1 := by have := trimA_size_pos p hp; omega
    by_cases hz : (trimA p)[(trimA p).size - 1]?.getD 0 = 0
    · left
      rw [isZero_iff]
      ext k
      rw [coeff_toPoly, coeff_zero]
      by_cases hk : k = 0
      · subst hk; rw [h1] at hz; exact hz
      · rw [Array.getElem?_eq_none (by omega)]; rfl
    · exact Or.inr hz
  · exact Or.inr h

end Lawful

/-! ### one division step over a field with `DivLaw` -/
section Field
variable {K : Type} [Field K] [BEq K] [LawfulBEq K] [ScalarExt K] [Alg.DivLaw K]

theorem toPoly_stepR0 (v r : Array K) (hv : 1 ≤ v.size) (hr : v.size ≤ r.size)
    (hlv : v[v.size - 1]'(by omega) ≠ 0) :
    toPoly (stepR0 v r (r[r.size - 1]'(by omega) / v[v.size - 1]'(by omega))) =
      toPoly r - C (r[r.size - 1]'(by omega) / v[v.size - 1]'(by omega)) *
        X ^ (r.size - 1 - (v.size - 1)) * toPoly v := by
  set c := r[r.size - 1]'(by omega) / v[v.size - 1]'(by omega) with hc
  rw [← toPoly_stepT, ← toPoly_mul, ← toPoly_sub]
  apply toPoly_ext
  intro j
  rw [stepR0, Array.getElem?_setIfInBounds]
  by_cases hj : r.size - 1 = j
  · subst hj
    rw [if_pos rfl, if_pos (by rw [stepSub_size v r c hv hr]; omega)]
    rw [← coeff_toPoly, toPoly_sub, toPoly_mul, toPoly_stepT, coeff_sub, mul_assoc, coeff_C_mul,
      coeff_X_pow_mul', if_pos (by omega), coeff_toPoly, coeff_toPoly]
    have e : r.size - 1 - (r.size - 1 - (v.size - 1)) = v.size - 1 := by omega
    rw [e, Array.getElem?_eq_getElem (by omega), Array.getElem?_eq_getElem (by omega)]
    simp only [Option.getD_some, hc]
    rw [div_mul_cancel₀ _ hlv, sub_self]
  · rw [if_neg hj]

/-- with a non-zero leading coefficient of the divisor the step succeeds, in closed form -/
theorem divStep_ok_of_lead (v q r : Array K) (hv : 1 ≤ v.size) (hr : v.size ≤ r.size)
    (hlv : v[v.size - 1]'(by omega) ≠ 0) :
    divStep v q r = .ok
      (trimA (stepQ0 v q r (r[r.size - 1]'(by omega) / v[v.size - 1]'(by omega))),
       trimA (stepR0 v r (r[r.size - 1]'(by omega) / v[v.size - 1]'(by omega)))) := by
  rw [divStep_eq v q r hv hr, Alg.divM_law_ne hlv]; rfl

end Field

/-! ### the executable `Rat` interpretation (Ohsl/Model/Inst.lean) satisfies `DivLaw` -/

instance ratDivLaw : Alg.DivLaw Rat where
  divM_zero a := by show (if (0 : Rat) == 0 then _ else _) = _; simp
  divM_ne a b h := by
    show (if b == 0 then _ else _) = _
    have : (b == 0) = false := by simpa using h
    rw [this]; rfl

end Ohsl.PolyDivE
