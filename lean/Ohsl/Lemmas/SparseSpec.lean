/-
  Ohsl.Lemmas.SparseSpec — compressed-sparse-column well-formedness and the two inner loops
  (scatter / gather) of the sparse products, described with `Finset` sums.
  Exact arithmetic: `K` a (commutative) semiring; `Sub`, `Neg`, `BEq`, `ScalarExt` are arbitrary
  (they are not used by the code in question).
-/
import Ohsl.Model.Sparse
import Ohsl.Lemmas.MatIdx
import Mathlib.Algebra.BigOperators.Intervals
import Mathlib.Algebra.BigOperators.Ring.Finset
import Mathlib.Tactic.Ring
set_option linter.unusedSectionVars false
set_option linter.unusedVariables false
set_option linter.unusedSimpArgs false
namespace Ohsl
namespace Sp
open Mat (forM' forM'_inv aget_ok aset_ok)

section Acc
variable {K : Type}

/-- `col_start[j]` (0 outside the buffer) -/
def cs (s : Sp K) (j : Nat) : Nat := s.colStart[j]?.getD 0
/-- `row_index[k]` (0 outside the buffer) -/
def ri (s : Sp K) (k : Nat) : Nat := s.rowIndex[k]?.getD 0
/-- `val[k]` (0 outside the buffer) -/
def vl [Zero K] (s : Sp K) (k : Nat) : K := s.val[k]?.getD 0

/-- Well-formed compressed-sparse-column storage. -/
structure WF (s : Sp K) : Prop where
  /-- `col_start` has `cols + 1` entries … -/
  csSize : s.colStart.size = s.cols + 1
  /-- … starts at 0 … -/
  cs0 : s.colStart[0]? = some 0
  /-- … is non-decreasing … -/
  mono : ∀ j, j < s.cols → s.cs j ≤ s.cs (j + 1)
  /-- … and ends at `nonzero` -/
  csLast : s.colStart[s.cols]? = some s.nonzero
  valSize : s.val.size = s.nonzero
  riSize : s.rowIndex.size = s.nonzero
  /-- every stored row index is a row -/
  riLt : ∀ k, k < s.nonzero → s.ri k < s.rows

theorem WF.cs_last {s : Sp K} (h : WF s) : s.cs s.cols = s.nonzero := by
  simp [cs, h.csLast]

theorem WF.cs_zero {s : Sp K} (h : WF s) : s.cs 0 = 0 := by
  simp [cs, h.cs0]

theorem WF.cs_mono {s : Sp K} (h : WF s) : ∀ d j, j + d ≤ s.cols → s.cs j ≤ s.cs (j + d)
  | 0, j, _ => Nat.le_refl _
  | d + 1, j, hj => by
    have h1 := WF.cs_mono h d j (by omega)
    have h2 := h.mono (j + d) (by omega)
    exact Nat.le_trans h1 h2

theorem WF.cs_le_nonzero {s : Sp K} (h : WF s) {j : Nat} (hj : j ≤ s.cols) : s.cs j ≤ s.nonzero := by
  have := h.cs_mono (s.cols - j) j (by omega)
  have e : j + (s.cols - j) = s.cols := by omega
  rw [e, h.cs_last] at this
  exact this

/-- a slot of column `j < cols` is a valid slot -/
theorem WF.slot_lt {s : Sp K} (h : WF s) {j k : Nat} (hj : j < s.cols) (hk : k < s.cs (j + 1)) :
    k < s.nonzero := by
  have := h.cs_le_nonzero (j := j + 1) (by omega)
  omega

theorem WF.aget_cs {s : Sp K} (h : WF s) {j : Nat} (hj : j ≤ s.cols) :
    aget s.colStart j = .ok (s.cs j) := by
  have hlt : j < s.colStart.size := by rw [h.csSize]; omega
  rw [aget_ok hlt]; simp [cs, hlt]

end Acc

section Loops
variable {K : Type} [CommSemiring K]

/-- inner loop of `multiply`: scatter `val[k] * xj` into `res[row_index[k]]` for `k ∈ [lo, hi)` -/
theorem scatter_loop (rowIndex : Array Nat) (val : Array K) (xj : K) (n lo hi : Nat) (res : Array K)
    (hle : lo ≤ hi) (hres : res.size = n)
    (hk : ∀ k, lo ≤ k → k < hi → k < rowIndex.size ∧ k < val.size ∧ rowIndex[k]?.getD 0 < n) :
    ∃ res', forM' lo hi res (fun res k => do
        let ri ← aget rowIndex k
        let v ← aget val k
        let r ← aget res ri
        aset res ri (r + v * xj)) = .ok res' ∧ res'.size = n ∧
      ∀ i, i < n → res'[i]?.getD 0 = res[i]?.getD 0 +
        ∑ k ∈ Finset.Ico lo hi, if rowIndex[k]?.getD 0 = i then val[k]?.getD 0 * xj else 0 := by
  obtain ⟨r', h1, h2, h3⟩ := forM'_inv
    (fun m (r : Array K) => r.size = n ∧ ∀ i, i < n → r[i]?.getD 0 = res[i]?.getD 0 +
        ∑ k ∈ Finset.Ico lo m, if rowIndex[k]?.getD 0 = i then val[k]?.getD 0 * xj else 0)
    lo hi res (fun res k => do
        let ri ← aget rowIndex k
        let v ← aget val k
        let r ← aget res ri
        aset res ri (r + v * xj)) hle ⟨hres, by simp⟩ (by
      intro m r hlo hhi ⟨hsz, hr⟩
      obtain ⟨a1, a2, a3⟩ := hk m hlo hhi
      have e1 : rowIndex[m]?.getD 0 = rowIndex[m] := by simp [a1]
      rw [e1] at a3
      have a4 : rowIndex[m] < r.size := by omega
      refine ⟨r.setIfInBounds rowIndex[m] (r[rowIndex[m]] + val[m] * xj), ?_, by simpa using hsz, ?_⟩
      · simp [aget_ok a1, aget_ok a2, aget_ok a4, aset_ok _ a4, bind, Except.bind]
      · intro i hi
        rw [Finset.sum_Ico_succ_top hlo, ← add_assoc, ← hr i hi]
        have e2 : val[m]?.getD 0 = val[m] := by simp [a2]
        rw [e1, e2, Array.getElem?_setIfInBounds]
        by_cases hc : rowIndex[m] = i
        · subst hc; simp [a4]
        · simp [hc])
  exact ⟨r', h1, h2, h3⟩

/-- inner loop of `transpose_multiply`: gather `val[k] * x[row_index[k]]` into `res[j]` -/
theorem gather_loop (rowIndex : Array Nat) (val x : Array K) (c j lo hi : Nat) (res : Array K)
    (hle : lo ≤ hi) (hres : res.size = c) (hj : j < c)
    (hk : ∀ k, lo ≤ k → k < hi → k < rowIndex.size ∧ k < val.size ∧ rowIndex[k]?.getD 0 < x.size) :
    ∃ res', forM' lo hi res (fun res k => do
        let v ← aget val k
        let ri ← aget rowIndex k
        let xr ← aget x ri
        let r ← aget res j
        aset res j (r + v * xr)) = .ok res' ∧ res'.size = c ∧
      ∀ i, i < c → res'[i]?.getD 0 = res[i]?.getD 0 +
        if i = j then ∑ k ∈ Finset.Ico lo hi, val[k]?.getD 0 * x[rowIndex[k]?.getD 0]?.getD 0 else 0 := by
  obtain ⟨r', h1, h2, h3⟩ := forM'_inv
    (fun m (r : Array K) => r.size = c ∧ ∀ i, i < c → r[i]?.getD 0 = res[i]?.getD 0 +
        if i = j then ∑ k ∈ Finset.Ico lo m, val[k]?.getD 0 * x[rowIndex[k]?.getD 0]?.getD 0 else 0)
    lo hi res (fun res k => do
        let v ← aget val k
        let ri ← aget rowIndex k
        let xr ← aget x ri
        let r ← aget res j
        aset res j (r + v * xr)) hle ⟨hres, by simp⟩ (by
      intro m r hlo hhi ⟨hsz, hr⟩
      obtain ⟨a1, a2, a3⟩ := hk m hlo hhi
      have e1 : rowIndex[m]?.getD 0 = rowIndex[m] := by simp [a1]
      rw [e1] at a3
      have a4 : j < r.size := by omega
      refine ⟨r.setIfInBounds j (r[j] + val[m] * x[rowIndex[m]]), ?_, by simpa using hsz, ?_⟩
      · simp [aget_ok a1, aget_ok a2, aget_ok a3, aget_ok a4, aset_ok _ a4, bind, Except.bind]
      · intro i hi
        have e2 : val[m]?.getD 0 = val[m] := by simp [a2]
        have e3 : x[rowIndex[m]]?.getD 0 = x[rowIndex[m]] := by simp [a3]
        rw [Array.getElem?_setIfInBounds]
        by_cases hc : j = i
        · subst hc
          have := hr j hi
          simp only [if_true] at this
          have e4 : r[j] = r[j]?.getD 0 := by simp [a4]
          simp only [if_true, a4, Option.getD_some, Finset.sum_Ico_succ_top hlo, e1, e2, e3, e4, this]
          rw [add_assoc]
        · have hc' : ¬ i = j := fun h => hc h.symm
          have := hr i hi
          simp only [hc', if_false] at this
          simp only [hc, hc', if_false, this])
  exact ⟨r', h1, h2, h3⟩

end Loops

section Sums
variable {K : Type} [CommSemiring K]

/-- component `i` of the sparse product with the vector `j ↦ f j`:
    `Σ_{j<cols} Σ_{k ∈ [colStart j, colStart (j+1)), rowIndex k = i} val k * f j` -/
def mulF (s : Sp K) (f : Nat → K) (i : Nat) : K :=
  ∑ j ∈ Finset.range s.cols, ∑ k ∈ Finset.Ico (s.cs j) (s.cs (j + 1)),
    if s.ri k = i then s.vl k * f j else 0

/-- component `j` of the transposed sparse product with `i ↦ g i`:
    `Σ_{k ∈ [colStart j, colStart (j+1))} val k * g (rowIndex k)` -/
def tmulF (s : Sp K) (g : Nat → K) (j : Nat) : K :=
  ∑ k ∈ Finset.Ico (s.cs j) (s.cs (j + 1)), s.vl k * g (s.ri k)

/-- entry (i, j) of the matrix the storage denotes (duplicates are summed) -/
def entry (s : Sp K) (i j : Nat) : K :=
  ∑ k ∈ Finset.Ico (s.cs j) (s.cs (j + 1)), if s.ri k = i then s.vl k else 0

theorem mulF_eq_entry (s : Sp K) (f : Nat → K) (i : Nat) :
    mulF s f i = ∑ j ∈ Finset.range s.cols, s.entry i j * f j := by
  unfold mulF entry
  refine Finset.sum_congr rfl (fun j _ => ?_)
  rw [Finset.sum_mul]
  refine Finset.sum_congr rfl (fun k _ => ?_)
  split <;> simp

theorem tmulF_eq_entry {s : Sp K} (h : WF s) (g : Nat → K) {j : Nat} (hj : j < s.cols) :
    tmulF s g j = ∑ i ∈ Finset.range s.rows, s.entry i j * g i := by
  unfold tmulF entry
  simp only [Finset.sum_mul]
  rw [Finset.sum_comm]
  refine Finset.sum_congr rfl (fun k hk => ?_)
  have hk' : k < s.nonzero := h.slot_lt hj (Finset.mem_Ico.mp hk).2
  have hr : s.ri k ∈ Finset.range s.rows := Finset.mem_range.mpr (h.riLt k hk')
  simp only [ite_mul, zero_mul]
  rw [Finset.sum_ite_eq (Finset.range s.rows) (s.ri k) (fun i => s.vl k * g i)]
  simp [hr]

theorem mulF_congr (s : Sp K) {f g : Nat → K} (h : ∀ j, j < s.cols → f j = g j) (i : Nat) :
    mulF s f i = mulF s g i := by
  unfold mulF
  refine Finset.sum_congr rfl (fun j hj => ?_)
  rw [h j (Finset.mem_range.mp hj)]

theorem mulF_add (s : Sp K) (f g : Nat → K) (i : Nat) :
    mulF s (fun j => f j + g j) i = mulF s f i + mulF s g i := by
  simp only [mulF_eq_entry, mul_add, Finset.sum_add_distrib]

theorem mulF_smul (s : Sp K) (f : Nat → K) (a : K) (i : Nat) :
    mulF s (fun j => f j * a) i = mulF s f i * a := by
  simp only [mulF_eq_entry, Finset.sum_mul, mul_assoc]

/-- the adjoint identity at the level of sums -/
theorem sum_mulF_eq_sum_tmulF {s : Sp K} (h : WF s) (f g : Nat → K) :
    ∑ i ∈ Finset.range s.rows, g i * mulF s f i = ∑ j ∈ Finset.range s.cols, tmulF s g j * f j := by
  simp only [mulF_eq_entry, Finset.mul_sum]
  rw [Finset.sum_comm]
  refine Finset.sum_congr rfl (fun j hj => ?_)
  rw [tmulF_eq_entry h g (Finset.mem_range.mp hj), Finset.sum_mul]
  refine Finset.sum_congr rfl (fun i _ => ?_)
  ring

theorem list_foldl_zipWith (l1 : List K) : ∀ (l2 : List K) (acc : K),
    List.foldl (· + ·) acc (List.zipWith (· * ·) l1 l2) =
      acc + ∑ i ∈ Finset.range (min l1.length l2.length), l1[i]?.getD 0 * l2[i]?.getD 0 := by
  induction l1 with
  | nil => intro l2 acc; simp
  | cons a l1 ih =>
    intro l2 acc
    cases l2 with
    | nil => simp
    | cons b l2 =>
      have e : min (a :: l1).length (b :: l2).length = min l1.length l2.length + 1 := by
        simp only [List.length_cons]; omega
      rw [e, Finset.sum_range_succ']
      simp only [List.zipWith_cons_cons, List.foldl_cons, ih, List.getElem?_cons_succ,
        List.getElem?_cons_zero, Option.getD_some]
      rw [add_assoc, add_comm (a * b)]

/-- the accumulation `result = 0; result += a[i] * b[i]` is the finite sum -/
theorem foldl_zipWith_eq_sum (a b : Array K) (n : Nat) (ha : a.size = n) (hb : b.size = n) :
    (Array.zipWith (· * ·) a b).foldl (· + ·) 0 =
      ∑ i ∈ Finset.range n, a[i]?.getD 0 * b[i]?.getD 0 := by
  rw [← Array.foldl_toList, Array.toList_zipWith, list_foldl_zipWith]
  simp [ha, hb]

end Sums
end Sp
end Ohsl
