/-
  Ohsl.Lemmas.C08S — the outcome (success / error class) of the two sparse products depends on the
  index structure of the storage alone.

  * `ExRel R a b` : the modelled calls `a`, `b` have the same outcome — both fail with the same error
    class, or both succeed with `R`-related values; `ExRel.bind`, `forM'_sim` (simulation rule for
    the loops of the model).
  * `Sp.indexCheck rows cols colStart rowIndex nval : Res Unit` — the loops of `multiply` /
    `transpose_multiply` run on NO values at all: only the reads `col_start[j]`, `col_start[j+1]`,
    `row_index[k]`, the bound `k < len(val)` and the row bound `row_index[k] < rows` remain.
    `Sp.storageCheck s` is `indexCheck` of the fields of `s`.
  * `Sp.multiply_sim`, `Sp.transposeMultiply_sim` : for an argument of the right length the product
    has the outcome of `storageCheck s` (and on success the result has `rows` resp. `cols` entries).
  * `Sp.storageCheck_error` : the only error class of `storageCheck` is `range`.
  Core Lean only; class (S): any scalar type, arbitrary operations.
-/
import Ohsl.Model.Sparse
import Ohsl.Lemmas.MatIdx
set_option linter.unusedSectionVars false
set_option linter.unusedVariables false
namespace Ohsl

/-- the two modelled calls have the same outcome: the same panic class, or values related by `R` -/
def ExRel {α β : Type} (R : α → β → Prop) : Res α → Res β → Prop
  | .ok a, .ok b => R a b
  | .error e, .error e' => e = e'
  | _, _ => False

namespace ExRel
variable {α β γ α' β' : Type}

theorem ok_ok {R : α → β → Prop} {a : α} {b : β} (h : R a b) : ExRel R (.ok a) (.ok b) := h

theorem err_err {R : α → β → Prop} (e : Err) : ExRel R (.error e : Res α) (.error e : Res β) := rfl

/-- a call has the same outcome as itself -/
theorem refl_eq (a : Res α) : ExRel Eq a a := by
  cases a <;> rfl

theorem mono {R S : α → β → Prop} {a : Res α} {b : Res β} (h : ExRel R a b)
    (hRS : ∀ x y, R x y → S x y) : ExRel S a b := by
  cases a <;> cases b <;> simp only [ExRel] at h ⊢
  · exact h
  · exact hRS _ _ h

theorem symm {R : α → β → Prop} {a : Res α} {b : Res β} (h : ExRel R a b) :
    ExRel (fun y x => R x y) b a := by
  cases a <;> cases b <;> simp only [ExRel] at h ⊢
  · exact h.symm
  · exact h

theorem trans {R : α → β → Prop} {S : β → γ → Prop} {a : Res α} {b : Res β} {c : Res γ}
    (h1 : ExRel R a b) (h2 : ExRel S b c) : ExRel (fun x z => ∃ y, R x y ∧ S y z) a c := by
  cases a <;> cases b <;> cases c <;> simp only [ExRel] at h1 h2 ⊢
  · exact h1.trans h2
  · exact ⟨_, h1, h2⟩

/-- sequencing: related first calls followed by continuations that are related on related values -/
theorem bind {R : α → β → Prop} {R' : α' → β' → Prop} {a : Res α} {b : Res β} {k : α → Res α'}
    {k' : β → Res β'} (h : ExRel R a b) (hk : ∀ x y, R x y → ExRel R' (k x) (k' y)) :
    ExRel R' (a >>= k) (b >>= k') := by
  cases a <;> cases b <;> simp only [ExRel] at h
  · subst h; rfl
  · exact hk _ _ h

/-- the same first call on both sides -/
theorem bind_same {R' : α' → β' → Prop} (a : Res α) {k : α → Res α'} {k' : α → Res β'}
    (hk : ∀ x, a = .ok x → ExRel R' (k x) (k' x)) : ExRel R' (a >>= k) (a >>= k') := by
  cases a with
  | error e => rfl
  | ok x => exact hk x rfl

/-- one succeeds iff the other does -/
theorem ok_iff {R : α → β → Prop} {a : Res α} {b : Res β} (h : ExRel R a b) :
    (∃ x, a = .ok x) ↔ (∃ y, b = .ok y) := by
  cases a <;> cases b <;> simp only [ExRel] at h
  · constructor <;> rintro ⟨_, h⟩ <;> cases h
  · exact ⟨fun _ => ⟨_, rfl⟩, fun _ => ⟨_, rfl⟩⟩

/-- one fails with class `e` iff the other does -/
theorem error_iff {R : α → β → Prop} {a : Res α} {b : Res β} (h : ExRel R a b) (e : Err) :
    a = .error e ↔ b = .error e := by
  cases a <;> cases b <;> simp only [ExRel] at h
  · subst h; exact ⟨fun h => by cases h; rfl, fun h => by cases h; rfl⟩
  · constructor <;> intro h <;> cases h

/-- the values of two successful related calls are related -/
theorem ok_rel {R : α → β → Prop} {a : Res α} {b : Res β} (h : ExRel R a b) {x : α} {y : β}
    (ha : a = .ok x) (hb : b = .ok y) : R x y := by
  subst ha; subst hb; exact h

/-- a call related to a `Unit`-valued check IS that check once its value is forgotten -/
theorem map_unit {R : α → Unit → Prop} {a : Res α} {b : Res Unit} (h : ExRel R a b) :
    a.map (fun _ => ()) = b := by
  cases a <;> cases b <;> simp only [ExRel] at h
  · subst h; rfl
  · rfl

end ExRel

/-- simulation rule for `foldlM` over a list of indices -/
theorem foldlM_sim {σ τ : Type} (R : σ → τ → Prop) (f : σ → Nat → Res σ) (g : τ → Nat → Res τ) :
    ∀ (l : List Nat) (s : σ) (t : τ), R s t →
      (∀ i, i ∈ l → ∀ s t, R s t → ExRel R (f s i) (g t i)) →
      ExRel R (l.foldlM f s) (l.foldlM g t)
  | [], s, t, h0, _ => h0
  | i :: l, s, t, h0, hstep => by
    simp only [List.foldlM_cons]
    exact ExRel.bind (hstep i (List.mem_cons_self ..) s t h0)
      (fun s1 t1 h1 => foldlM_sim R f g l s1 t1 h1
        (fun j hj => hstep j (List.mem_cons_of_mem _ hj)))

/-- **simulation rule for the loops of the model**: two loops over the same range whose bodies have
    the same outcome on related states have the same outcome -/
theorem Mat.forM'_sim {σ τ : Type} (R : σ → τ → Prop) (lo hi : Nat) (s : σ) (t : τ)
    (f : σ → Nat → Res σ) (g : τ → Nat → Res τ) (h0 : R s t)
    (hstep : ∀ i s t, lo ≤ i → i < hi → R s t → ExRel R (f s i) (g t i)) :
    ExRel R (Mat.forM' lo hi s f) (Mat.forM' lo hi t g) := by
  unfold Mat.forM'
  apply foldlM_sim R f g _ s t h0
  intro i hi s t hst
  rw [List.mem_range'_1] at hi
  exact hstep i s t hi.1 (by omega) hst

/-- every error of a loop is an error of one of its iterations -/
theorem foldlM_error {σ : Type} (P : Err → Prop) (f : σ → Nat → Res σ)
    (hf : ∀ s i e, f s i = .error e → P e) :
    ∀ (l : List Nat) (s : σ) (e : Err), l.foldlM f s = .error e → P e
  | [], s, e, h => by cases h
  | i :: l, s, e, h => by
    simp only [List.foldlM_cons] at h
    cases hs : f s i with
    | error e' =>
      rw [hs] at h
      cases h
      exact hf s i _ hs
    | ok s1 =>
      rw [hs] at h
      exact foldlM_error P f hf l s1 e h

theorem Mat.forM'_error {σ : Type} (P : Err → Prop) (lo hi : Nat) (s : σ) (f : σ → Nat → Res σ)
    (hf : ∀ s i e, f s i = .error e → P e) (e : Err) (h : Mat.forM' lo hi s f = .error e) : P e :=
  foldlM_error P f hf _ s e h

namespace Sp
variable {K : Type} [Add K] [Mul K] [Zero K]

/-- The loops of `multiply` / `transpose_multiply` with every VALUE removed: what is left are the
    reads of `col_start[j]`, `col_start[j+1]` for every column `j < cols`, of `row_index[k]` for every
    slot `k` of the column, the bound `k < len(val)` of the read `val[k]`, and the row bound
    `row_index[k] < rows` (in `multiply` the index into the result of length `rows`, in
    `transpose_multiply` the index into the argument of length `rows`).  A function of
    `rows, cols, col_start, row_index, len(val)` only. -/
def indexCheck (rows cols : Nat) (colStart rowIndex : Array Nat) (nval : Nat) : Res Unit :=
  Mat.forM' 0 cols () (fun _ j => do
    let lo ← aget colStart j
    let hi ← aget colStart (j + 1)
    Mat.forM' lo hi () (fun _ k => do
      let ri ← aget rowIndex k
      if nval ≤ k then .error .range
      else if rows ≤ ri then .error .range
      else pure ()))

/-- `indexCheck` of the fields of `s`: does a product of `s` with a vector of the right length
    panic?  (`.ok ()`: no; `.error e`: yes, with class `e`.)  The values in `val` are not looked at. -/
def storageCheck (s : Sp K) : Res Unit :=
  indexCheck s.rows s.cols s.colStart s.rowIndex s.val.size

/-- the check can only fail with class `range` -/
theorem indexCheck_error (rows cols : Nat) (colStart rowIndex : Array Nat) (nval : Nat) (e : Err)
    (h : indexCheck rows cols colStart rowIndex nval = .error e) : e = .range := by
  have aget_e : ∀ (a : Array Nat) (i : Nat) (e : Err), aget a i = .error e → e = .range := by
    intro a i e h
    unfold aget at h
    split at h <;> cases h
    rfl
  refine Mat.forM'_error (fun e => e = .range) _ _ _ _ (fun u j e h => ?_) e h
  cases h1 : aget colStart j with
  | error e1 =>
    rw [h1] at h; cases h; exact aget_e _ _ _ h1
  | ok lo =>
    rw [h1] at h
    cases h2 : aget colStart (j + 1) with
    | error e2 =>
      rw [h2] at h; cases h; exact aget_e _ _ _ h2
    | ok hi =>
      rw [h2] at h
      refine Mat.forM'_error (fun e => e = .range) _ _ _ _ (fun u k e h => ?_) e h
      cases h3 : aget rowIndex k with
      | error e3 =>
        rw [h3] at h; cases h; exact aget_e _ _ _ h3
      | ok ri =>
        rw [h3] at h
        simp only [bind, Except.bind] at h
        split at h
        · cases h; rfl
        · split at h
          · cases h; rfl
          · cases h

theorem storageCheck_error (s : Sp K) (e : Err) (h : storageCheck s = .error e) : e = .range :=
  indexCheck_error _ _ _ _ _ e h

/-- `multiply` with an argument of the right length has the outcome of the index check, and a
    successful product has `rows` entries -/
theorem multiply_sim (s : Sp K) (x : Array K) (hx : x.size = s.cols) :
    ExRel (fun (r : Array K) (_ : Unit) => r.size = s.rows) (multiply s x) (storageCheck s) := by
  unfold multiply storageCheck indexCheck
  rw [if_neg (by simp [hx])]
  refine Mat.forM'_sim (fun (r : Array K) (_ : Unit) => r.size = s.rows) 0 s.cols _ ()
    _ _ (by simp) ?_
  intro j res u _ hj hres
  rw [Mat.aget_ok (show j < x.size by omega)]
  show ExRel _ (aget s.colStart j >>= _) (aget s.colStart j >>= _)
  refine ExRel.bind_same _ (fun lo _ => ?_)
  refine ExRel.bind_same _ (fun hi _ => ?_)
  refine Mat.forM'_sim (fun (r : Array K) (_ : Unit) => r.size = s.rows) lo hi res ()
    _ _ hres ?_
  intro k res u _ _ hres
  refine ExRel.bind_same _ (fun ri _ => ?_)
  by_cases hk : s.val.size ≤ k
  · rw [Mat.aget_err hk, if_pos hk]; rfl
  · rw [Mat.aget_ok (show k < s.val.size by omega), if_neg hk]
    by_cases hr : s.rows ≤ ri
    · rw [if_pos hr, ← hres] at *
      show ExRel _ (aget res ri >>= _) _
      rw [Mat.aget_err hr]; rfl
    · rw [if_neg hr]
      have hlt : ri < res.size := by omega
      show ExRel _ (aget res ri >>= _) _
      rw [Mat.aget_ok hlt]
      show ExRel _ (aset res ri _) _
      rw [Mat.aset_ok _ hlt]
      show (res.setIfInBounds ri _).size = s.rows
      simpa using hres

/-- `transpose_multiply` with an argument of the right length has the outcome of the SAME index
    check, and a successful product has `cols` entries -/
theorem transposeMultiply_sim (s : Sp K) (y : Array K) (hy : y.size = s.rows) :
    ExRel (fun (r : Array K) (_ : Unit) => r.size = s.cols) (transposeMultiply s y)
      (storageCheck s) := by
  unfold transposeMultiply storageCheck indexCheck
  rw [if_neg (by simp [hy])]
  refine Mat.forM'_sim (fun (r : Array K) (_ : Unit) => r.size = s.cols) 0 s.cols _ ()
    _ _ (by simp) ?_
  intro i res u _ hi hres
  refine ExRel.bind_same _ (fun lo _ => ?_)
  refine ExRel.bind_same _ (fun hi' _ => ?_)
  refine Mat.forM'_sim (fun (r : Array K) (_ : Unit) => r.size = s.cols) lo hi' res ()
    _ _ hres ?_
  intro k res u _ _ hres
  have hlt : i < res.size := by omega
  by_cases hk : s.val.size ≤ k
  · rw [Mat.aget_err hk]
    cases h3 : aget s.rowIndex k with
    | error e3 =>
      have : e3 = .range := by
        unfold aget at h3
        split at h3 <;> cases h3
        rfl
      subst this; rfl
    | ok ri => simp only [bind, Except.bind, if_pos hk]; rfl
  · rw [Mat.aget_ok (show k < s.val.size by omega)]
    show ExRel _ (aget s.rowIndex k >>= _) (aget s.rowIndex k >>= _)
    refine ExRel.bind_same _ (fun ri _ => ?_)
    rw [if_neg hk]
    by_cases hr : s.rows ≤ ri
    · rw [if_pos hr]
      rw [Mat.aget_err (show y.size ≤ ri by omega)]; rfl
    · rw [if_neg hr, Mat.aget_ok (show ri < y.size by omega)]
      show ExRel _ (aget res i >>= _) _
      rw [Mat.aget_ok hlt]
      show ExRel _ (aset res i _) _
      rw [Mat.aset_ok _ hlt]
      show (res.setIfInBounds i _).size = s.cols
      simpa using hres

end Sp
end Ohsl
