/-
  Ohsl.Lemmas.Loop — Hoare-style rule for the bounded loops of the model
  (`Mat.forM' lo hi s f` = Rust `for i in lo..hi { s = f(s, i)? }`).
  Core Lean only.
-/
import Ohsl.Model.Mat
namespace Ohsl

theorem foldlM_range'_inv {σ : Type} (P : Nat → σ → Prop) (f : σ → Nat → Res σ) :
    ∀ (n lo : Nat) (s : σ), P lo s →
      (∀ i s, lo ≤ i → i < lo + n → P i s → ∃ s', f s i = .ok s' ∧ P (i + 1) s') →
      ∃ s', (List.range' lo n).foldlM f s = .ok s' ∧ P (lo + n) s'
  | 0, lo, s, h0, _ => ⟨s, by simp [List.range', pure, Except.pure], by simpa using h0⟩
  | n + 1, lo, s, h0, hstep => by
    obtain ⟨s1, h1, p1⟩ := hstep lo s (Nat.le_refl _) (by omega) h0
    obtain ⟨s', h2, p2⟩ := foldlM_range'_inv P f n (lo + 1) s1 p1
      (fun i s hi1 hi2 hp => hstep i s (by omega) (by omega) hp)
    refine ⟨s', ?_, ?_⟩
    · simp only [List.range', List.foldlM_cons, h1, bind, Except.bind]
      exact h2
    · have : lo + 1 + n = lo + (n + 1) := by omega
      rw [← this]; exact p2

/-- Loop rule: if `P lo s` holds and every iteration `i ∈ [lo, hi)` started in a state
    satisfying `P i` succeeds and re-establishes `P (i+1)`, the loop succeeds with `P hi`. -/
theorem Mat.forM'_inv {σ : Type} (P : Nat → σ → Prop) (lo hi : Nat) (s : σ) (f : σ → Nat → Res σ)
    (hle : lo ≤ hi) (h0 : P lo s)
    (hstep : ∀ i s, lo ≤ i → i < hi → P i s → ∃ s', f s i = .ok s' ∧ P (i + 1) s') :
    ∃ s', Mat.forM' lo hi s f = .ok s' ∧ P hi s' := by
  have := foldlM_range'_inv P f (hi - lo) lo s h0
    (fun i s h1 h2 hp => hstep i s h1 (by omega) hp)
  have e : lo + (hi - lo) = hi := by omega
  rw [e] at this
  exact this

/-- a loop with an empty range returns its state -/
theorem Mat.forM'_empty {σ : Type} (lo hi : Nat) (s : σ) (f : σ → Nat → Res σ) (h : hi ≤ lo) :
    Mat.forM' lo hi s f = .ok s := by
  have : hi - lo = 0 := by omega
  simp [Mat.forM', this, List.range', pure, Except.pure]

/-- A loop whose body fails at the first iteration fails (used for rejection lemmas). -/
theorem Mat.forM'_first_error {σ : Type} (lo hi : Nat) (s : σ) (f : σ → Nat → Res σ) (e : Err)
    (hlt : lo < hi) (h : f s lo = .error e) : Mat.forM' lo hi s f = .error e := by
  unfold Mat.forM'
  have : hi - lo = (hi - lo - 1) + 1 := by omega
  rw [this]
  simp [List.range', h, bind, Except.bind]

end Ohsl
