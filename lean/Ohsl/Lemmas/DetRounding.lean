/-
  Ohsl.Lemmas.DetRounding — helper file of Ohsl/Props/C02F.lean: rounding-error analysis of
  `Mat.determinant` and `Mat.inverse` in the "rounded reals" interpretation `Fl M`
  (Ohsl/Lemmas/Rounding.lean), on top of the LU analysis of Ohsl/Lemmas/LURounding.lean.

  Contents
  * `permEntR`, `permEntR_swap`, `luStep_fl_par`, `luDecomp_fl_par`: the invariant `LUInvF` of
        `lu_decomp_in_place` extended with the PARITY of the recorded permutation:
        `det P = (-1)^pivots` (`P` the real 0/1 matrix of `π`).
  * `detProd_fl`      (F) the diagonal product `1·û_00·…·û_{n-1,n-1}`: `n` roundings, `(1+θ)`,
                      `|θ| ≤ gam n`.
  * `det_Lfn`, `det_LU_perm`   pure real algebra: `det (unit lower) = 1`,
                      `L̂Û = P·C ⇒ det C = det P · ∏ û_kk`.
  * `determinant_fl`  (F) `determinant A = .ok d ⇒ d = (-1)^p · ∏ û_kk · (1+θ)`.
  * (S) `foldlM_range_rev_ok_inv`, `invAcc_sdot`, `invFwd_sdot`, `invBack_sdot`, `inverseLoop_sdot`,
        `inverse_sdot`: what the in-place column loops of `inverse` compute, for every scalar type:
        column `c` of the result solves the SAME two recurrences (`Mat.sdot`) as
        `forwardSub` / `backsolve` applied to column `c` of the permutation matrix
        (`forwardSub_sdot`, `backsolve_sdot` of LURounding.lean).
  * (F) `fwd_rows_fl`, `back_rows_fl`: the backward error of the two recurrences, function level
        (the proofs of `forwardSub_backward_ent`, `backsolve_backward_ent`).
  * (F) `inverse_fl_core`: every column of the computed inverse solves a perturbed system with the
        row-permuted matrix exactly.
-/
import Ohsl.Lemmas.LURounding
import Ohsl.Lemmas.LUDet
import Mathlib.LinearAlgebra.Matrix.Block
import Mathlib.LinearAlgebra.Matrix.Determinant.Basic
import Mathlib.Algebra.BigOperators.Intervals
import Mathlib.Algebra.Order.BigOperators.Group.Finset
import Mathlib.Algebra.BigOperators.Ring.Finset
import Mathlib.Tactic.Ring
import Mathlib.Tactic.Linarith
import Mathlib.Tactic.Positivity
import Mathlib.Tactic.FieldSimp
set_option linter.unusedSectionVars false
set_option linter.unusedVariables false
set_option linter.unusedSimpArgs false
namespace Ohsl

theorem Except.bind_eq_ok' {ε α β : Type} {x : Except ε α} {f : α → Except ε β} {b : β}
    (h : (x >>= f) = .ok b) : ∃ a, x = .ok a ∧ f a = .ok b := by
  cases x with
  | error e => simp [bind, Except.bind] at h
  | ok a => exact ⟨a, rfl, h⟩

namespace Mat

/-! ### the parity of the recorded permutation -/

section PermParity
variable {M : FlModel}

/-- the real 0/1 entries of the matrix of the row permutation `π` -/
def permEntR (π : Nat → Nat) : Nat → Nat → ℝ := fun r c => if c = π r then 1 else 0

theorem permEntR_swap (π : Nat → Nat) (i k : Nat) :
    permEntR (fun r => π (swapIdx i k r)) = swapFn (permEntR π) i k := by
  funext a b
  unfold permEntR swapFn swapIdx
  by_cases h1 : a = i
  · simp [h1]
  · by_cases h2 : a = k
    · subst h2
      simp [h1]
    · simp [h1, h2]

theorem det_permEntR_id (n : Nat) : (toMat n (permEntR (fun r => r))).det = 1 := by
  have : toMat n (permEntR (fun r => r)) = 1 := by
    ext r c
    simp only [toMat, permEntR, Matrix.of_apply, Matrix.one_apply, Fin.ext_iff]
    by_cases h : r.val = c.val
    · simp [h]
    · have : ¬ c.val = r.val := fun e => h e.symm
      simp [h, this]
  rw [this, Matrix.det_one]

/-- `P·C`: row `r` of the product is row `π r` of `C` -/
theorem permEntR_mul {n : Nat} (π : Nat → Nat) (hπ : ∀ r, r < n → π r < n) (C : Nat → Nat → ℝ) :
    toMat n (permEntR π) * toMat n C = toMat n (fun r c => C (π r) c) := by
  ext r c
  show ∑ k : Fin n, permEntR π r.val k.val * C k.val c.val = C (π r.val) c.val
  rw [Fin.sum_univ_eq_sum_range (fun k => permEntR π r.val k * C k c.val) n]
  simp only [permEntR, ite_mul, one_mul, zero_mul]
  rw [Finset.sum_ite_eq']
  simp [hπ r.val r.isLt]

/-- one step of the factorisation keeps `LUInvF` AND the parity `det P = (-1)^pivots` -/
theorem luStep_fl_par (hu : M.u < 1) {n i : Nat} {a : Nat → Nat → Fl M} {s s' : LU (Fl M)}
    {π σ : Nat → Nat} (hi : i < n) (hs : LUInvF n a i s π σ)
    (hpar : (toMat n (permEntR π)).det = (-1 : ℝ) ^ s.pivots) (h : luStep s i = .ok s') :
    ∃ π' σ', LUInvF n a (i + 1) s' π' σ' ∧
      (toMat n (permEntR π')).det = (-1 : ℝ) ^ s'.pivots := by
  unfold luStep at h
  cases hp : luPivot s.lu i with
  | error e => simp [hp, bind, Except.bind] at h
  | ok r =>
    obtain ⟨maxA, imax⟩ := r
    obtain ⟨hge, hlt, hdom, hatt⟩ := luPivot_fl hs.lu hi hp
    simp only [hp, bind, Except.bind] at h
    by_cases hmax : maxA.val = 0
    · have : (maxA == 0) = true := (Fl.beq_zero_iff maxA).mpr hmax
      simp only [this, if_true, pure, Except.pure] at h
      injection h with h
      subst h
      refine ⟨π, σ, hs.skip hu hi ?_, hpar⟩
      intro k hk1 hk2
      have := hdom k hk1 hk2
      rw [hmax] at this
      exact abs_nonpos_iff.mp this
    · have : ¬ (maxA == 0) = true := fun hc => hmax ((Fl.beq_zero_iff maxA).mp hc)
      simp only [this, if_false] at h
      have hatt' := hatt hmax
      by_cases him : imax = i
      · have c : ¬ (imax ≠ i) := by simp [him]
        simp only [c, if_false, pure, Except.pure] at h
        cases hl : forM' (i + 1) s.lu.rows s.lu (luElimRow i) with
        | error e => rw [hl] at h; simp at h
        | ok l' =>
          rw [hl] at h
          injection h with h
          subst h
          refine ⟨π, σ, hs.elim hu hi ?_ hl, hpar⟩
          intro k hk1 hk2
          have := hdom k hk1 hk2
          rw [hatt', him] at this
          exact this
      · have c : imax ≠ i := him
        simp only [c, if_true, ne_eq, not_false_eq_true, pure, Except.pure] at h
        cases hpp : swapRows s.perm i imax with
        | error e => rw [hpp] at h; simp at h
        | ok p =>
          cases hll : swapRows s.lu i imax with
          | error e => rw [hpp, hll] at h; simp at h
          | ok l =>
            rw [hpp, hll] at h
            simp only at h
            obtain ⟨hs1, hent⟩ := hs.swap hi hge hlt hpp hll (s.pivots + 1)
            cases hl : forM' (i + 1) l.rows l (luElimRow i) with
            | error e => rw [hl] at h; simp at h
            | ok l' =>
              rw [hl] at h
              injection h with h
              subst h
              refine ⟨_, _, hs1.elim hu hi ?_ hl, ?_⟩
              · intro k hk1 hk2
                show |(ent l k i).val| ≤ |(ent l i i).val|
                rw [hent k i hk2 hi, hent i i hi hi]
                have e1 : swapIdx i imax i = imax := by simp [swapIdx]
                rw [e1, ← hatt']
                refine hdom _ ?_ (swapIdx_lt hi hlt hk2)
                unfold swapIdx; split_ifs <;> omega
              · show (toMat n (permEntR (fun r => π (swapIdx i imax r)))).det
                    = (-1 : ℝ) ^ (s.pivots + 1)
                rw [permEntR_swap, det_toMat_swap _ hi hlt (Ne.symm him), hpar, pow_succ]
                ring

/-- **`lu_decomp_in_place` in `Fl M` with the parity of the permutation**: whenever it returns,
`LUInvF` holds with `i = n` and `det P = (-1)^pivots` -/
theorem luDecomp_fl_par (hu : M.u < 1) {n : Nat} {A : Mat (Fl M)} {s : LU (Fl M)} (hA : WFn A n)
    (h : luDecomp A = .ok s) :
    ∃ π σ, LUInvF n (ent A) n s π σ ∧ (toMat n (permEntR π)).det = (-1 : ℝ) ^ s.pivots := by
  unfold luDecomp at h
  have h2 : ¬ A.rows ≠ A.cols := by rw [hA.2.1, hA.2.2]; simp
  obtain ⟨p, hp, hIp⟩ := eye_spec (K := Fl M) n
  simp only [h2, if_false] at h
  simp only [hA.2.1, hp, bind, Except.bind] at h
  refine forM'_ok_inv (fun i (s : LU (Fl M)) => ∃ π σ, LUInvF n (ent A) i s π σ ∧
      (toMat n (permEntR π)).det = (-1 : ℝ) ^ s.pivots)
    0 n { lu := A, perm := p, pivots := 0 } s luStep (Nat.zero_le _) ?init ?step h
  case init =>
    refine ⟨fun r => r, fun r => r, ⟨hA, PermOK.id n, ?_, ?_, ?_⟩, ?_⟩
    · refine hIp.congr ?_
      intro r c _ _
      by_cases hrc : r = c
      · simp [hrc]
      · have : ¬ c = r := fun e => hrc e.symm
        simp [hrc, this]
    · intro r hr
      have : min r 0 = 0 := by omega
      rw [this]
      exact LURowF.init (fun c _ => rfl)
    · intro r c _ hc
      omega
    · rw [det_permEntR_id]; simp
  case step =>
    intro i s s1 _ hi ⟨π, σ, hs, hpar⟩ hf
    exact luStep_fl_par hu hi hs hpar hf

end PermParity

/-! ### the determinant -/

section Det
variable {M : FlModel}

/-- **the diagonal product** `d ← 1; d ← fl(d·û_ii)`, `i = 0, …, n-1`: `n` rounded multiplications
(the first one is `fl(1·û_00)`, which the abstract model rounds like any other), so the result is
`∏ û_ii · (1+θ)` with `|θ| ≤ (1+u)^n - 1`.  No smallness assumption on `u`. -/
theorem detProd_fl {l : Mat (Fl M)} {n : Nat} (hl : WFn l n) {p : Fl M}
    (h : forM' 0 n (1 : Fl M) (fun d i => do
      let x ← l.get i i
      pure (d * x)) = .ok p) :
    ∃ θ : ℝ, |θ| ≤ M.gam n ∧ p.val = (∏ k ∈ Finset.range n, (ent l k k).val) * (1 + θ) := by
  have key := forM'_ok_inv
    (fun i (acc : Fl M) => ∃ ds : List ℝ, ds.length = i ∧ (∀ d ∈ ds, |d| ≤ M.u) ∧
      acc.val = (∏ k ∈ Finset.range i, (ent l k k).val) * (ds.map (fun d => 1 + d)).prod)
    0 n (1 : Fl M) p _ (Nat.zero_le _) ?init ?step h
  case init => exact ⟨[], rfl, by simp, by simp⟩
  case step =>
    intro i acc acc1 _ hi ⟨ds, hlen, hds, hv⟩ hf
    simp only [hl.get hi hi, bind, Except.bind, pure, Except.pure] at hf
    injection hf with hf
    subst hf
    obtain ⟨δ, hδ, e⟩ := M.exists_delta (acc.val * (ent l i i).val)
    refine ⟨δ :: ds, by simp [hlen], ?_, ?_⟩
    · intro d hd
      rcases List.mem_cons.mp hd with rfl | hd
      · exact hδ
      · exact hds d hd
    · rw [Fl.mul_val, e, hv, Finset.prod_range_succ]
      simp only [List.map_cons, List.prod_cons]
      ring
  obtain ⟨ds, hlen, hds, hv⟩ := key
  refine ⟨(ds.map (fun d => 1 + d)).prod - 1, ?_, ?_⟩
  · have := prod_one_add_delta M ds hds
    rwa [hlen] at this
  · rw [hv]; ring

/-- the unit lower factor has determinant 1 -/
theorem det_Lfn (n : Nat) (w : Nat → Nat → ℝ) : (toMat n (Lfn w)).det = 1 := by
  rw [Matrix.det_of_isLowerTriangular]
  · apply Finset.prod_eq_one
    intro r _
    simp [toMat, Lfn]
  · intro r c hrc
    have h1 : r.val < c.val := hrc
    have a1 : ¬ c.val < r.val := by omega
    have a2 : ¬ c.val = r.val := by omega
    show Lfn w r.val c.val = 0
    unfold Lfn
    rw [if_neg a1, if_neg a2]

/-- pure algebra: if `L̂Û = P·C` entrywise (`P` the matrix of `π`, `det P = (-1)^p`) then
`det C = (-1)^p · ∏ û_kk` -/
theorem det_LU_perm {n : Nat} (w C : Nat → Nat → ℝ) (π : Nat → Nat)
    (hπ : ∀ r, r < n → π r < n) (p : Nat)
    (hP : (toMat n (permEntR π)).det = (-1 : ℝ) ^ p)
    (hLU : ∀ r c, r < n → c < n →
      ∑ k ∈ Finset.range n, Lfn w r k * Ufn n w k c = C (π r) c) :
    (toMat n C).det = (-1 : ℝ) ^ p * ∏ k ∈ Finset.range n, w k k := by
  have e : toMat n (Lfn w) * Umat n n w = toMat n (permEntR π) * toMat n C := by
    rw [permEntR_mul π hπ C]
    ext r c
    show ∑ k : Fin n, Lfn w r.val k.val * Ufn n w k.val c.val = C (π r.val) c.val
    rw [Fin.sum_univ_eq_sum_range (fun k => Lfn w r.val k * Ufn n w k c.val) n]
    exact hLU r.val c.val r.isLt c.isLt
  have hd := congrArg Matrix.det e
  rw [Matrix.det_mul, Matrix.det_mul, det_Lfn, det_Umat_full, hP, one_mul] at hd
  have hsq : ((-1 : ℝ) ^ p) * ((-1 : ℝ) ^ p) = 1 := by
    rw [← mul_pow]; simp
  have : (toMat n C).det = (-1 : ℝ) ^ p * ((-1 : ℝ) ^ p * (toMat n C).det) := by
    rw [← mul_assoc, hsq, one_mul]
  rw [this, ← hd]

/-- **`determinant()` in `Fl M`**: whenever it returns `d`, with `s` the computed factorisation:
`d = (-1)^pivots · ∏ û_kk · (1+θ)`, `|θ| ≤ gam n` (the sign flip is exact), together with the
factorisation invariant and the parity of the permutation. -/
theorem determinant_fl (hu : M.u < 1) {n : Nat} {A : Mat (Fl M)} (hA : WFn A n) {d : Fl M}
    (h : determinant A = .ok d) :
    ∃ (s : LU (Fl M)) (π σ : Nat → Nat), luDecomp A = .ok s ∧ LUInvF n (ent A) n s π σ ∧
      (toMat n (permEntR π)).det = (-1 : ℝ) ^ s.pivots ∧
      ∃ θ : ℝ, |θ| ≤ M.gam n ∧
        d.val = (-1 : ℝ) ^ s.pivots * (∏ k ∈ Finset.range n, (ent s.lu k k).val) * (1 + θ) := by
  unfold determinant at h
  obtain ⟨s, hd, h⟩ := Except.bind_eq_ok' h
  obtain ⟨p, hp, h⟩ := Except.bind_eq_ok' h
  obtain ⟨π, σ, hs, hpar⟩ := luDecomp_fl_par hu hA hd
  rw [hA.2.1] at hp
  obtain ⟨θ, hθ, hv⟩ := detProd_fl hs.lu hp
  refine ⟨s, π, σ, hd, hs, hpar, θ, hθ, ?_⟩
  simp only [pure, Except.pure] at h
  injection h with h
  subst h
  by_cases hpar2 : s.pivots % 2 = 0
  · have : (s.pivots % 2 == 0) = true := by simpa using hpar2
    rw [this, if_pos rfl, Even.neg_one_pow (Nat.even_iff.mpr hpar2), one_mul]
    exact hv
  · have : (s.pivots % 2 == 0) = false := by simpa using hpar2
    rw [this]
    simp only [Bool.false_eq_true, if_false]
    rw [Odd.neg_one_pow (Nat.odd_iff.mpr (by omega)), Fl.neg_val, hv]
    ring

end Det

/-! ### the in-place column loops of `inverse`: structure (any scalar type) -/

/-- partial-correctness rule for the descending loop `for i in (0..m).rev()` -/
theorem foldlM_range_rev_ok_inv {σ : Type} (Q : Nat → σ → Prop) (f : σ → Nat → Res σ) :
    ∀ (m : Nat) (s s' : σ), Q m s →
      (∀ j s s1, j < m → Q (j + 1) s → f s j = .ok s1 → Q j s1) →
      (List.range m).reverse.foldlM f s = .ok s' → Q 0 s'
  | 0, s, s', h0, _, h => by
    simp [pure, Except.pure] at h
    subst h; exact h0
  | m + 1, s, s', h0, hstep, h => by
    rw [List.range_succ, List.reverse_append] at h
    simp only [List.reverse_cons, List.reverse_nil, List.nil_append, List.cons_append,
      List.foldlM_cons, bind, Except.bind] at h
    cases h1 : f s m with
    | error e => rw [h1] at h; simp at h
    | ok s1 =>
      rw [h1] at h
      exact foldlM_range_rev_ok_inv Q f m s1 s' (hstep m s s1 (by omega) h0 h1)
        (fun j s s2 hj hq hf => hstep j s s2 (by omega) hq hf) h

section InvStructural
variable {K : Type} [Add K] [Sub K] [Mul K] [Neg K] [Zero K] [One K] [BEq K] [ScalarExt K]

/-- (S) the accumulation `inv[i,j] -= lu[i,k] * inv[k,j]` for `k ∈ [lo, hi)` (row `i` outside the
range) never fails on conformable data; only entry `(i,j)` changes and it becomes the recurrence
`sdot` in this order -/
theorem invAcc_sdot {lu s : Mat K} {n : Nat} {e : Nat → Nat → K} (hw : WFn lu n)
    (hs : Is s n n e) {i j lo hi : Nat} (hi' : i < n) (hj : j < n) (hlo : lo ≤ hi) (hhi : hi ≤ n)
    (hne : ∀ k, lo ≤ k → k < hi → k ≠ i) :
    ∃ s', forM' lo hi s (fun inv k => do
        let kj ← inv.get k j
        let ij ← inv.get i j
        let ik ← lu.get i k
        inv.set i j (ij - ik * kj)) = .ok s' ∧
      Is s' n n (fun a b => if a = i ∧ b = j
        then sdot (ent lu i) (fun k => e k j) (e i j) lo hi else e a b) := by
  refine forM'_inv (fun k (s : Mat K) => Is s n n (fun a b => if a = i ∧ b = j
        then sdot (ent lu i) (fun k' => e k' j) (e i j) lo k else e a b)) lo hi s
    (fun inv k => do
        let kj ← inv.get k j
        let ij ← inv.get i j
        let ik ← lu.get i k
        inv.set i j (ij - ik * kj)) hlo (hs.congr (fun a b _ _ => by
      by_cases hab : a = i ∧ b = j
      · obtain ⟨rfl, rfl⟩ := hab
        simp [sdot_empty]
      · simp [hab])) ?_
  intro k t hk1 hk2 ht
  have hkn : k < n := by omega
  have g1 := ht.get hkn hj
  have g2 := ht.get hi' hj
  have e1 : ¬ k = i := hne k hk1 hk2
  simp only [e1, false_and, if_false] at g1
  simp only [and_self, if_true] at g2
  obtain ⟨t', ht', hI⟩ := ht.set hi' hj
    (sdot (ent lu i) (fun k' => e k' j) (e i j) lo k - ent lu i k * e k j)
  refine ⟨t', by simp only [g1, g2, hw.get hi' hkn, bind, Except.bind]; exact ht', hI.congr ?_⟩
  intro a b _ _
  by_cases hab : a = i ∧ b = j
  · simp only [hab, and_self, if_true]
    rw [sdot_succ _ _ _ hk1]
  · simp only [hab, if_false]

/-- (S) unit-lower forward substitution on column `j` of `inv`, in place: never fails, only column
`j` changes, and the new column solves the recurrence of `forwardSub` (`forwardSub_sdot`) with
right-hand side the old column -/
theorem invFwd_sdot {lu inv : Mat K} {n : Nat} {v : Nat → Nat → K} (hw : WFn lu n)
    (hv : Is inv n n v) {j : Nat} (hj : j < n) :
    ∃ (inv' : Mat K) (y : Nat → K), forM' 0 n inv (fun inv i =>
        forM' 0 i inv (fun inv k => do
          let kj ← inv.get k j
          let ij ← inv.get i j
          let ik ← lu.get i k
          inv.set i j (ij - ik * kj))) = .ok inv' ∧
      Is inv' n n (fun a b => if b = j then y a else v a b) ∧
      ∀ r, r < n → y r = sdot (ent lu r) y (v r j) 0 r := by
  obtain ⟨inv', hinv, y, hI, hy⟩ := forM'_inv
    (fun i (s : Mat K) => ∃ y : Nat → K,
      Is s n n (fun a b => if b = j ∧ a < i then y a else v a b) ∧
      ∀ r, r < i → y r = sdot (ent lu r) y (v r j) 0 r)
    0 n inv (fun inv i =>
        forM' 0 i inv (fun inv k => do
          let kj ← inv.get k j
          let ij ← inv.get i j
          let ik ← lu.get i k
          inv.set i j (ij - ik * kj))) (Nat.zero_le _)
    ⟨fun _ => 0, hv.congr (fun a b _ _ => by simp), fun r hr => by omega⟩
    (by
      rintro i s _ hi ⟨y, hs, hy⟩
      obtain ⟨s', hs', hI⟩ := invAcc_sdot hw hs (i := i) (j := j) (lo := 0) (hi := i) hi hj
        (Nat.zero_le _) (le_of_lt hi) (fun k _ hk => by omega)
      have hcg : ∀ q, q ≤ i → ∀ c : K,
          sdot (ent lu q) (fun a => if a = i then sdot (ent lu i) y (v i j) 0 i else y a) c 0 q
            = sdot (ent lu q) y c 0 q := by
        intro q hq c
        apply sdot_congr
        intro t _ ht
        have : ¬ t = i := by omega
        exact ⟨rfl, by simp only [this, if_false]⟩
      refine ⟨s', hs', fun a => if a = i then sdot (ent lu i) y (v i j) 0 i else y a,
        hI.congr ?_, ?_⟩
      · intro a b _ _
        by_cases hab : a = i ∧ b = j
        · obtain ⟨rfl, rfl⟩ := hab
          have e2 : a < a + 1 := by omega
          simp only [and_self, if_true, e2, true_and, Nat.lt_irrefl, if_false]
          apply sdot_congr
          intro t _ ht
          refine ⟨rfl, ?_⟩
          simp only [ht, if_true]
        · rw [if_neg hab]
          by_cases hb : b = j
          · subst hb
            have hai : ¬ a = i := fun e => hab ⟨e, rfl⟩
            have : (a < i + 1) = (a < i) := by apply propext; omega
            simp only [true_and, this, hai, if_false]
          · simp only [hb, false_and, if_false]
      · intro r hr
        rw [hcg r (by omega)]
        by_cases hri : r = i
        · subst hri
          simp only [if_true]
        · simp only [hri, if_false]
          exact hy r (by omega))
  exact ⟨inv', y, hinv, hI.congr (fun a b ha _ => by simp [ha]), hy⟩

/-- (S) upper-triangular back substitution on column `j` of `inv`, in place: whenever it returns,
only column `j` changed, every division succeeded and the new column solves the recurrence of
`backsolve` (`backsolve_sdot`: `sdot` over `k = i+1, …, n-1`, then one division) with right-hand
side the old column -/
theorem invBack_sdot {lu inv inv' : Mat K} {n : Nat} {v : Nat → Nat → K} (hw : WFn lu n)
    (hv : Is inv n n v) {j : Nat} (hj : j < n)
    (h : (List.range n).reverse.foldlM (fun inv i => do
        let inv ← forM' (i + 1) n inv (fun inv k => do
          let kj ← inv.get k j
          let ij ← inv.get i j
          let ik ← lu.get i k
          inv.set i j (ij - ik * kj))
        let ij ← inv.get i j
        let ii ← lu.get i i
        let q ← divM ij ii
        inv.set i j q) inv = .ok inv') :
    ∃ x : Nat → K, Is inv' n n (fun a b => if b = j then x a else v a b) ∧
      ∀ i, i < n → divM (sdot (ent lu i) x (v i j) (i + 1) n) (ent lu i i) = .ok (x i) := by
  obtain ⟨x, hI, hx⟩ := foldlM_range_rev_ok_inv
    (fun m (s : Mat K) => ∃ x : Nat → K,
      Is s n n (fun a b => if b = j ∧ m ≤ a then x a else v a b) ∧
      ∀ i, m ≤ i → i < n → divM (sdot (ent lu i) x (v i j) (i + 1) n) (ent lu i i) = .ok (x i))
    _ n inv inv'
    ⟨fun _ => 0, hv.congr (fun a b ha _ => by
      have : ¬ n ≤ a := by omega
      simp [this]), fun r h1 h2 => by omega⟩
    (by
      rintro i s s1 hi ⟨x, hs, hx⟩ hf
      obtain ⟨t, ht, hI1⟩ := invAcc_sdot hw hs (i := i) (j := j) (lo := i + 1) (hi := n) hi hj
        (by omega) (le_refl _) (fun k hk _ => by omega)
      have g1 : t.get i j = .ok (sdot (ent lu i) x (v i j) (i + 1) n) := by
        rw [hI1.get hi hj]
        have e0 : ¬ i + 1 ≤ i := by omega
        simp only [and_self, if_true, true_and, e0, if_false]
        congr 1
        apply sdot_congr
        intro t' ht' _
        refine ⟨rfl, ?_⟩
        simp only [ht', if_true]
      have ht' := ht
      simp only [bind, Except.bind] at ht' hf
      rw [ht'] at hf
      simp only [g1, hw.get hi hi] at hf
      cases hq : divM (sdot (ent lu i) x (v i j) (i + 1) n) (ent lu i i) with
      | error e => rw [hq] at hf; simp at hf
      | ok q =>
      rw [hq] at hf
      simp only at hf
      obtain ⟨s2, hs2, hI2⟩ := hI1.set hi hj q
      rw [hs2] at hf
      injection hf with hf
      subst hf
      have hcg : ∀ r, i ≤ r → ∀ c : K,
          sdot (ent lu r) (fun a => if a = i then q else x a) c (r + 1) n
            = sdot (ent lu r) x c (r + 1) n := by
        intro r hr c
        apply sdot_congr
        intro t' ht' _
        have : ¬ t' = i := by omega
        exact ⟨rfl, by simp only [this, if_false]⟩
      refine ⟨fun a => if a = i then q else x a, hI2.congr ?_, ?_⟩
      · intro a b _ _
        by_cases hab : a = i ∧ b = j
        · obtain ⟨rfl, rfl⟩ := hab
          simp
        · simp only [hab, if_false]
          by_cases hb : b = j
          · subst hb
            have hai : ¬ a = i := fun e => hab ⟨e, rfl⟩
            have : (i ≤ a) = (i + 1 ≤ a) := by apply propext; omega
            simp only [true_and, this, hai, if_false, and_false]
          · simp only [hb, false_and, if_false, and_false]
      · intro r hr1 hr2
        rw [hcg r hr1]
        by_cases hri : r = i
        · subst hri
          simp only [if_true]
          exact hq
        · simp only [hri, if_false]
          exact hx r (by omega) hr2) h
  exact ⟨x, hI.congr (fun a b _ _ => by simp), fun i hi => hx i (Nat.zero_le _) hi⟩

/-- (S) the column loop of `inverse`: whenever it returns `B`, every column `c` of `B` is obtained
from column `c` of the permutation matrix by the forward recurrence followed by the backward
recurrence with one division per row — exactly the recurrences that `forwardSub lu` and
`backsolve lu` execute on a vector (`forwardSub_sdot`, `backsolve_sdot`) -/
theorem inverseLoop_sdot {lu p B : Mat K} {n : Nat} {pe : Nat → Nat → K} (hw : WFn lu n)
    (hp : Is p n n pe)
    (h : forM' 0 n p (fun inv j => do
        let inv ← forM' 0 n inv (fun inv i =>
          forM' 0 i inv (fun inv k => do
            let kj ← inv.get k j
            let ij ← inv.get i j
            let ik ← lu.get i k
            inv.set i j (ij - ik * kj)))
        (List.range n).reverse.foldlM (fun inv i => do
          let inv ← forM' (i + 1) n inv (fun inv k => do
            let kj ← inv.get k j
            let ij ← inv.get i j
            let ik ← lu.get i k
            inv.set i j (ij - ik * kj))
          let ij ← inv.get i j
          let ii ← lu.get i i
          let q ← divM ij ii
          inv.set i j q) inv) = .ok B) :
    ∃ b : Nat → Nat → K, Is B n n b ∧
      ∀ c, c < n → ∃ y : Nat → K,
        (∀ r, r < n → y r = sdot (ent lu r) y (pe r c) 0 r) ∧
        (∀ i, i < n →
          divM (sdot (ent lu i) (fun k => b k c) (y i) (i + 1) n) (ent lu i i) = .ok (b i c)) := by
  obtain ⟨b, hb, _, hcols⟩ := forM'_ok_inv
    (fun j (s : Mat K) => ∃ b : Nat → Nat → K, Is s n n b ∧
      (∀ r c, j ≤ c → b r c = pe r c) ∧
      ∀ c, c < j → ∃ y : Nat → K,
        (∀ r, r < n → y r = sdot (ent lu r) y (pe r c) 0 r) ∧
        (∀ i, i < n →
          divM (sdot (ent lu i) (fun k => b k c) (y i) (i + 1) n) (ent lu i i) = .ok (b i c)))
    0 n p B _ (Nat.zero_le _)
    ⟨pe, hp, fun _ _ _ => rfl, fun c hc => by omega⟩
    (by
      rintro j s s1 _ hj ⟨b, hb, hrest, hcols⟩ hf
      obtain ⟨t, y, ht, hI1, hy⟩ := invFwd_sdot hw hb hj
      have ht' := ht
      simp only [bind, Except.bind] at ht' hf
      rw [ht'] at hf
      obtain ⟨x, hI2, hx⟩ := invBack_sdot hw hI1 hj hf
      refine ⟨fun a c => if c = j then x a else b a c, hI2.congr ?_, ?_, ?_⟩
      · intro a c _ _
        by_cases hc : c = j
        · simp [hc]
        · simp [hc]
      · intro r c hc
        have : ¬ c = j := by omega
        simp only [this, if_false]
        exact hrest r c (by omega)
      · intro c hc
        by_cases hcj : c = j
        · subst hcj
          refine ⟨y, fun r hr => ?_, fun i hi => ?_⟩
          · rw [← hrest r c (le_refl _)]; exact hy r hr
          · have := hx i hi
            simp only [if_true] at this ⊢
            exact this
        · obtain ⟨y', hy1, hy2⟩ := hcols c (by omega)
          refine ⟨y', hy1, fun i hi => ?_⟩
          simp only [hcj, if_false]
          exact hy2 i hi) h
  exact ⟨b, hb, hcols⟩

/-- (S) **`inverse()`, structure**: whenever `inverse A` returns `X` (for every scalar type, no
algebraic law), `luDecomp A` returned a state `s` and every column of `X` is the forward and
backward recurrence applied to the corresponding column of `s.perm` -/
theorem inverse_sdot {A X : Mat K} {n : Nat} (hA : WFn A n) (h : inverse A = .ok X) :
    ∃ s : LU K, luDecomp A = .ok s ∧
      ∀ pe : Nat → Nat → K, WFn s.lu n → Is s.perm n n pe →
        ∃ b : Nat → Nat → K, Is X n n b ∧
          ∀ c, c < n → ∃ y : Nat → K,
            (∀ r, r < n → y r = sdot (ent s.lu r) y (pe r c) 0 r) ∧
            (∀ i, i < n → divM (sdot (ent s.lu i) (fun k => b k c) (y i) (i + 1) n)
              (ent s.lu i i) = .ok (b i c)) := by
  unfold inverse at h
  have h2 : ¬ A.rows ≠ A.cols := by rw [hA.2.1, hA.2.2]; simp
  simp only [h2, if_false] at h
  obtain ⟨s, hd, h⟩ := Except.bind_eq_ok' h
  refine ⟨s, hd, fun pe hw hp => ?_⟩
  rw [hA.2.1] at h
  exact inverseLoop_sdot hw hp h

end InvStructural

/-! ### the two recurrences in `Fl M`, function level -/

section InvFl
variable {M : FlModel}

/-- the forward recurrence (proof of `forwardSub_backward_ent`, for functions) -/
theorem fwd_rows_fl (hu : M.u < 1) {m : Mat (Fl M)} {n : Nat} (y c : Nat → Fl M)
    (hrows : ∀ r, r < n → y r = sdot (ent m r) y (c r) 0 r) :
    ∃ lam : Nat → Nat → ℝ, (∀ r k, M.Th r (lam r k)) ∧
      ∀ r, r < n →
        ∑ k ∈ Finset.range n, Lfn (valEnt m) r k * (lam r k * (y k).val) = (c r).val := by
  have hrow : ∀ r, ∃ lr : Nat → ℝ, (∀ k, M.Th r (lr k)) ∧ (r < n →
      ∑ k ∈ Finset.range n, Lfn (valEnt m) r k * (lr k * (y k).val) = (c r).val) := by
    intro r
    obtain ⟨θ0, θ, h0, hθ, e⟩ := sdot_backward hu (ent m r) y (c r) 0 r
    rw [Nat.sub_zero] at h0 hθ
    refine ⟨fun k => if k = r then θ0 else θ k, ?_, fun hr => ?_⟩
    · intro k
      beta_reduce
      by_cases hk : k = r
      · rw [if_pos hk]; exact h0
      · rw [if_neg hk]; exact hθ k
    · rw [Lsum (valEnt m) _ hr, e, ← hrows r hr, ← Finset.range_eq_Ico]
      beta_reduce
      have : ∑ k ∈ Finset.range r, valEnt m r k * ((if k = r then θ0 else θ k) * (y k).val)
          = ∑ t ∈ Finset.range r, (ent m r t).val * (y t).val * θ t := by
        apply Finset.sum_congr rfl
        intro k hk
        have : ¬ k = r := by have := Finset.mem_range.mp hk; omega
        rw [if_neg this]
        unfold valEnt
        ring
      rw [this, if_pos rfl]
      ring
  choose lam hlam using hrow
  exact ⟨lam, fun r k => (hlam r).1 k, fun r hr => (hlam r).2 hr⟩

/-- the backward recurrence with one division per row (proof of `backsolve_backward_ent`, for
functions) -/
theorem back_rows_fl (hu : M.u < 1) {m : Mat (Fl M)} {n : Nat} (x y : Nat → Fl M)
    (hrows : ∀ i, i < n → divM (sdot (ent m i) x (y i) (i + 1) n) (ent m i i) = .ok (x i)) :
    ∃ μ : Nat → Nat → ℝ, (∀ i c, i < n → M.Th (n - i) (μ i c)) ∧
      ∀ i, i < n → (ent m i i).val ≠ 0 ∧
        ∑ c ∈ Finset.range n, Ufn n (valEnt m) i c * (μ i c * (x c).val) = (y i).val := by
  have hrow : ∀ i, ∃ μr : Nat → ℝ, i < n → (∀ c, M.Th (n - i) (μr c)) ∧ (ent m i i).val ≠ 0 ∧
      ∑ c ∈ Finset.range n, Ufn n (valEnt m) i c * (μr c * (x c).val) = (y i).val := by
    intro i
    by_cases hi : i < n
    · obtain ⟨hne, hq⟩ := Fl.divM_ok (hrows i hi)
      obtain ⟨θ0, θ, h0, hθ, e⟩ := sdot_backward hu (ent m i) x (y i) (i + 1) n
      obtain ⟨τ, hτ, eτ⟩ := FlModel.exists_th hu
        ((sdot (ent m i) x (y i) (i + 1) n).val / (ent m i i).val)
      have hτpos := hτ.pos hu
      have hxi : (x i).val
          = (sdot (ent m i) x (y i) (i + 1) n).val / (ent m i i).val * τ := by
        rw [hq, Fl.div_val, eτ]
      have hd : n - i = (n - (i + 1)) + 1 := by omega
      refine ⟨fun c => if c = i then θ0 / τ else θ c, fun _ => ⟨?_, hne, ?_⟩⟩
      · intro c
        beta_reduce
        rw [hd]
        by_cases hc : c = i
        · rw [if_pos hc]; exact h0.div hu hτ
        · rw [if_neg hc]; exact (hθ c).mono hu (by omega)
      · rw [Usum (valEnt m) _ hi, e]
        beta_reduce
        have : ∑ k ∈ Finset.Ico (i + 1) n, valEnt m i k * ((if k = i then θ0 / τ else θ k) * (x k).val)
            = ∑ t ∈ Finset.Ico (i + 1) n, (ent m i t).val * (x t).val * θ t := by
          apply Finset.sum_congr rfl
          intro k hk
          have : ¬ k = i := by have := (Finset.mem_Ico.mp hk).1; omega
          rw [if_neg this]
          unfold valEnt
          ring
        rw [this, if_pos rfl, hxi]
        unfold valEnt
        field_simp
    · exact ⟨fun _ => 1, fun h => absurd h hi⟩
  choose μ hμ using hrow
  exact ⟨μ, fun i c hi => (hμ i hi).1 c, fun i hi => (hμ i hi).2⟩

/-- **`inverse()` in `Fl M`, core**: whenever `inverse A` returns `X`, with `s` the computed
factorisation and `π` its row permutation: all computed pivots are non-zero and every column `j`
of `X` solves EXACTLY a system with a perturbed row-permuted matrix, `(PA + ΔA') x̂_j = P e_j`,
`|ΔA'| ≤ (gq (n-1) + gq (2n-1)) |L̂||Û|` (`P e_j` is a column of the stored 0/1 matrix: it is
copied, not computed, hence exact). -/
theorem inverse_fl_core (hu : M.u < 1) {n : Nat} {A X : Mat (Fl M)} (hA : WFn A n)
    (h : inverse A = .ok X) :
    ∃ s π σ, luDecomp A = .ok s ∧ LUInvF n (ent A) n s π σ ∧ WFn X n ∧
      (∀ k, k < n → (ent s.lu k k).val ≠ 0) ∧
      ∀ j, j < n → ∃ ΔA : Nat → Nat → ℝ,
        (∀ r, r < n → ∑ c ∈ Finset.range n,
          ((ent A (π r) c).val + ΔA r c) * (ent X c j).val = if j = π r then 1 else 0) ∧
        ∀ r c, r < n → c < n → |ΔA r c| ≤ (M.gq (n - 1) + M.gq (2 * n - 1)) *
          ∑ k ∈ Finset.range n, |Lfn (valEnt s.lu) r k| * |Ufn n (valEnt s.lu) k c| := by
  obtain ⟨s, hd, hcols⟩ := inverse_sdot hA h
  obtain ⟨π, σ, hs⟩ := luDecomp_fl hu hA hd
  obtain ⟨b, hb, hcol⟩ := hcols _ hs.lu hs.perm
  have hΘ' : ∀ r c, ∃ Θ : Nat → ℝ, r < n → c < n → (∀ k, M.Th r (Θ k)) ∧
      (ent A (π r) c).val = ∑ k ∈ Finset.range n,
        Lfn (valEnt s.lu) r k * (Ufn n (valEnt s.lu) k c * Θ k) := by
    intro r c
    by_cases hrc : r < n ∧ c < n
    · have hrow := hs.row r hrc.1
      have hmin : min r n = r := by omega
      rw [hmin] at hrow
      obtain ⟨Θ, h1, h2⟩ := hrow.full hrc.1 c hrc.2
      exact ⟨Θ, fun _ _ => ⟨h1, h2⟩⟩
    · exact ⟨fun _ => 1, fun h1 h2 => absurd ⟨h1, h2⟩ hrc⟩
  choose Θ hΘ using hΘ'
  refine ⟨s, π, σ, hd, hs, hb.wfn, ?_, ?_⟩
  · intro k hk
    obtain ⟨y, hy1, hy2⟩ := hcol 0 (by omega)
    exact (Fl.divM_ok (hy2 k hk)).1
  · intro j hj
    obtain ⟨y, hy1, hy2⟩ := hcol j hj
    obtain ⟨lam, hlam, hL⟩ := fwd_rows_fl hu y (fun r => if j = π r then (1 : Fl M) else 0) hy1
    obtain ⟨mu, hmu, hU⟩ := back_rows_fl hu (fun k => b k j) y hy2
    have hβ : ∀ r, (if j = π r then (1 : Fl M) else 0).val = if j = π r then (1 : ℝ) else 0 := by
      intro r; split_ifs <;> rfl
    have hgq : ∀ r k c, r < n → k < n → c < n → M.Th (2 * n - 1) (lam r k * mu k c) := by
      intro r k c hr hk hc
      exact ((hlam r k).mul hu (hmu k c hk)).mono hu (by omega)
    obtain ⟨ΔA, h1, h2⟩ := lu_compose (n := n) (Lfn (valEnt s.lu)) (Ufn n (valEnt s.lu))
      (fun r c => (ent A (π r) c).val)
      (fun r => if j = π r then (1 : ℝ) else 0) (fun k => (y k).val) (fun c => (b c j).val)
      Θ lam mu (M.gq (n - 1)) (M.gq (2 * n - 1))
      (fun r c hr hc => (hΘ r c hr hc).2)
      (fun r hr => by rw [hL r hr, hβ r])
      (fun k hk => (hU k hk).2)
      (fun r c k hr hc hk =>
        (((hΘ r c hr hc).1 k).mono hu (show r ≤ n - 1 by omega)).abs_sub_one_le hu)
      (fun r k c hr hk hc => (hgq r k c hr hk hc).abs_sub_one_le hu)
    refine ⟨ΔA, fun r hr => ?_, h2⟩
    rw [← h1 r hr]
    apply Finset.sum_congr rfl
    intro c hc
    rw [hb.ent_eq (Finset.mem_range.mp hc) hj]

end InvFl

end Mat
end Ohsl
