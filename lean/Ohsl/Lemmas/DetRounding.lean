/-
  Ohsl.Lemmas.DetRounding — helper file of Ohsl/Props/C02F.lean: rounding-error analysis of
  `Mat.determinant` and `Mat.inverse` in the "rounded reals" interpretation `Fl M`
  (Ohsl/Lemmas/Rounding.lean), on top of the LU analysis of Ohsl/Lemmas/LURounding.lean.

  Contents
  * `permEntR`, `permEntR_swap`, `luStep_fl_par`, `luDecomp_fl_par`: the invariant `LUInvF` of
        `lu_decomp_in_place` extended with the PARITY of the recorded permutation:
        `det P = (-1)^pivots` (`P` the real 0/1 matrix of `π`).
  * `detProd_fl`      (F) the diagonal product `1·û_00·…·û_{n-1,n-1}`: `n` roundings, `(1+θ)`,
                      `|θ| ≤ gam n`.
  * `det_Lfn`, `det_LU_perm`   pure real algebra: `det (unit lower) = 1`,
                      `L̂Û = P·C ⇒ det C = det P · ∏ û_kk`.
  * `determinant_fl`  (F) `determinant A = .ok d ⇒ d = (-1)^p · ∏ û_kk · (1+θ)`.
  * (S) `foldlM_range_rev_ok_inv`, `invAcc_sdot`, `invFwd_sdot`, `invBack_sdot`, `inverseLoop_sdot`,
        `inverse_sdot`: what the in-place column loops of `inverse` compute, for every scalar type:
        column `c` of the result solves the SAME two recurrences (`Mat.sdot`) as
        `forwardSub` / `backsolve` applied to column `c` of the permutation matrix
        (`forwardSub_sdot`, `backsolve_sdot` of LURounding.lean).
  * (F) `fwd_rows_fl`, `back_rows_fl`: the backward error of the two recurrences, function level
        (the proofs of `forwardSub_backward_ent`, `backsolve_backward_ent`).
  * (F) `inverse_fl_core`: every column of the computed inverse solves a perturbed system with the
        row-permuted matrix exactly.
-/
import Ohsl.Lemmas.LURounding
import Ohsl.Lemmas.LUDet
import Mathlib.LinearAlgebra.Matrix.Block
import Mathlib.LinearAlgebra.Matrix.Determinant.Basic
import Mathlib.Algebra.BigOperators.Intervals
import Mathlib.Algebra.Order.BigOperators.Group.Finset
import Mathlib.Algebra.BigOperators.Ring.Finset
import Mathlib.Tactic.Ring
import Mathlib.Tactic.Linarith
import Mathlib.Tactic.Positivity
import Mathlib.Tactic.FieldSimp
set_option linter.unusedSectionVars false
set_option linter.unusedVariables false
set_option linter.unusedSimpArgs false
namespace Ohsl

theorem Except.bind_eq_ok' {ε α β : Type} {x : Except ε α} {f : α → Except ε β} {b : β}
    (h : (x >>= f) = .ok b) : ∃ a, x = .ok a ∧ f a = .ok b := by
  cases x with
  | error e => simp [bind, Except.bind] at h
  | ok a => exact ⟨a, rfl, h⟩

namespace Mat

/-! ### the parity of the recorded permutation -/

section PermParity
variable {M : FlModel}

/-- the real 0/1 entries of the matrix of the row permutation `π` -/
def permEntR (π : Nat → Nat) : Nat → Nat → ℝ := fun r c => if c = π r then 1 else 0

theorem permEntR_swap (π : Nat → Nat) (i k : Nat) :
    permEntR (fun r => π (swapIdx i k r)) = swapFn (permEntR π) i k := by
  funext a b
  unfold permEntR swapFn swapIdx
  by_cases h1 : a = i
  · simp [h1]
  · by_cases h2 : a = k
    · subst h2
      simp [h1]
    · simp [h1, h2]

theorem det_permEntR_id (n : Nat) : (toMat n (permEntR (fun r => r))).det = 1 := by
  have : toMat n (permEntR (fun r => r)) = 1 := by
    ext r c
    simp only [toMat, permEntR, Matrix.of_apply, Matrix.one_apply, Fin.ext_iff]
    by_cases h : r.val = c.val
    · simp [h]
    · have : ¬ c.val = r.val := fun e => h e.symm
      simp [h, this]
  rw [this, Matrix.det_one]

/-- `P·C`: row `r` of the product is row `π r` of `C` -/
theorem permEntR_mul {n : Nat} (π : Nat → Nat) (hπ : ∀ r, r < n → π r < n) (C : Nat → Nat → ℝ) :
    toMat n (permEntR π) * toMat n C = toMat n (fun r c => C (π r) c) := by
  ext r c
  show ∑ k : Fin n, permEntR π r.val k.val * C k.val c.val = C (π r.val) c.val
  rw [Fin.sum_univ_eq_sum_range (fun k => permEntR π r.val k * C k c.val) n]
  simp only [permEntR, ite_mul, one_mul, zero_mul]
  rw [Finset.sum_ite_eq']
  simp [hπ r.val r.isLt]

/-- one step of the factorisation keeps `LUInvF` AND the parity `det P = (-1)^pivots` -/
theorem luStep_fl_par (hu : M.u < 1) {n i : Nat} {a : Nat → Nat → Fl M} {s s' : LU (Fl M)}
    {π σ : Nat → Nat} (hi : i < n) (hs : LUInvF n a i s π σ)
    (hpar : (toMat n (permEntR π)).det = (-1 : ℝ) ^ s.pivots) (h : luStep s i = .ok s') :
    ∃ π' σ', LUInvF n a (i + 1) s' π' σ' ∧
      (toMat n (permEntR π')).det = (-1 : ℝ) ^ s'.pivots := by
  unfold luStep at h
  cases hp : luPivot s.lu i with
  | error e => simp [hp, bind, Except.bind] at h
  | ok r =>
    obtain ⟨maxA, imax⟩ := r
    obtain ⟨hge, hlt, hdom, hatt⟩ := luPivot_fl hs.lu hi hp
    simp only [hp, bind, Except.bind] at h
    by_cases hmax : maxA.val = 0
    · have : (maxA == 0) = true := (Fl.beq_zero_iff maxA).mpr hmax
      simp only [this, if_true, pure, Except.pure] at h
      injection h with h
      subst h
      refine ⟨π, σ, hs.skip hu hi ?_, hpar⟩
      intro k hk1 hk2
      have := hdom k hk1 hk2
      rw [hmax] at this
      exact abs_nonpos_iff.mp this
    · have : ¬ (maxA == 0) = true := fun hc => hmax ((Fl.beq_zero_iff maxA).mp hc)
      simp only [this, if_false] at h
      have hatt' := hatt hmax
      by_cases him : imax = i
      · have c : ¬ (imax ≠ i) := by simp [him]
        simp only [c, if_false, pure, Except.pure] at h
        cases hl : forM' (i + 1) s.lu.rows s.lu (luElimRow i) with
        | error e => rw [hl] at h; simp at h
        | ok l' =>
          rw [hl] at h
          injection h with h
          subst h
          refine ⟨π, σ, hs.elim hu hi ?_ hl, hpar⟩
          intro k hk1 hk2
          have := hdom k hk1 hk2
          rw [hatt', him] at this
          exact this
      · have c : imax ≠ i := him
        simp only [c, if_true, ne_eq, not_false_eq_true, pure, Except.pure] at h
        cases hpp : swapRows s.perm i imax with
        | error e => rw [hpp] at h; simp at h
        | ok p =>
          cases hll : swapRows s.lu i imax with
          | error e => rw [hpp, hll] at h; simp at h
          | ok l =>
            rw [hpp, hll] at h
            simp only at h
            obtain ⟨hs1, hent⟩ := hs.swap hi hge hlt hpp hll (s.pivots + 1)
            cases hl : forM' (i + 1) l.rows l (luElimRow i) with
            | error e => rw [hl] at h; simp at h
            | ok l' =>
              rw [hl] at h
              injection h with h
              subst h
              refine ⟨_, _, hs1.elim hu hi ?_ hl, ?_⟩
              · intro k hk1 hk2
                show |(ent l k i).val| ≤ |(ent l i i).val|
                rw [hent k i hk2 hi, hent i i hi hi]
                have e1 : swapIdx i imax i = imax := by simp [swapIdx]
                rw [e1, ← hatt']
                refine hdom _ ?_ (swapIdx_lt hi hlt hk2)
                unfold swapIdx; split_ifs <;> omega
              · show (toMat n (permEntR (fun r => π (swapIdx i imax r)))).det
                    = (-1 : ℝ) ^ (s.pivots + 1)
                rw [permEntR_swap, det_toMat_swap _ hi hlt (Ne.symm him), hpar, pow_succ]
                ring

/-- **`lu_decomp_in_place` in `Fl M` with the parity of the permutation**: whenever it returns,
`LUInvF` holds with `i = n` and `det P = (-1)^pivots` -/
theorem luDecomp_fl_par (hu : M.u < 1) {n : Nat} {A : Mat (Fl M)} {s : LU (Fl M)} (hA : WFn A n)
    (h : luDecomp A = .ok s) :
    ∃ π σ, LUInvF n (ent A) n s π σ ∧ (toMat n (permEntR π)).det = (-1 : ℝ) ^ s.pivots := by
  unfold luDecomp at h
  have h2 : ¬ A.rows ≠ A.cols := by rw [hA.2.1, hA.2.2]; simp
  obtain ⟨p, hp, hIp⟩ := eye_spec (K := Fl M) n
  simp only [h2, if_false] at h
  simp only [hA.2.1, hp, bind, Except.bind] at h
  refine forM'_ok_inv (fun i (s : LU (Fl M)) => ∃ π σ, LUInvF n (ent A) i s π σ ∧
      (toMat n (permEntR π)).det = (-1 : ℝ) ^ s.pivots)
    0 n { lu := A, perm := p, pivots := 0 } s luStep (Nat.zero_le _) ?init ?step h
  case init =>
    refine ⟨fun r => r, fun r => r, ⟨hA, PermOK.id n, ?_, ?_, ?_⟩, ?_⟩
    · refine hIp.congr ?_
      intro r c _ _
      by_cases hrc : r = c
      · simp [hrc]
      · have : ¬ c = r := fun e => hrc e.symm
        simp [hrc, this]
    · intro r hr
      have : min r 0 = 0 := by omega
      rw [this]
      exact LURowF.init (fun c _ => rfl)
    · intro r c _ hc
      omega
    · rw [det_permEntR_id]; simp
  case step =>
    intro i s s1 _ hi ⟨π, σ, hs, hpar⟩ hf
    exact luStep_fl_par hu hi hs hpar hf

end PermParity

/-! ### the determinant -/

section Det
variable {M : FlModel}

/-- **the diagonal product** `d ← 1; d ← fl(d·û_ii)`, `i = 0, …, n-1`: `n` rounded multiplications
(the first one is `fl(1·û_00)`, which the abstract model rounds like any other), so the result is
`∏ û_ii · (1+θ)` with `|θ| ≤ (1+u)^n - 1`.  No smallness assumption on `u`. -/
theorem detProd_fl {l : Mat (Fl M)} {n : Nat} (hl : WFn l n) {p : Fl M}
    (h : forM' 0 n (1 : Fl M) (fun d i => do
      let x ← l.get i i
      pure (d * x)) = .ok p) :
    ∃ θ : ℝ, |θ| ≤ M.gam n ∧ p.val = (∏ k ∈ Finset.range n, (ent l k k).val) * (1 + θ) := by
  have key := forM'_ok_inv
    (fun i (acc : Fl M) => ∃ ds : List ℝ, ds.length = i ∧ (∀ d ∈ ds, |d| ≤ M.u) ∧
      acc.val = (∏ k ∈ Finset.range i, (ent l k k).val) * (ds.map (fun d => 1 + d)).prod)
    0 n (1 : Fl M) p _ (Nat.zero_le _) ?init ?step h
  case init => exact ⟨[], rfl, by simp, by simp⟩
  case step =>
    intro i acc acc1 _ hi ⟨ds, hlen, hds, hv⟩ hf
    simp only [hl.get hi hi, bind, Except.bind, pure, Except.pure] at hf
    injection hf with hf
    subst hf
    obtain ⟨δ, hδ, e⟩ := M.exists_delta (acc.val * (ent l i i).val)
    refine ⟨δ :: ds, by simp [hlen], ?_, ?_⟩
    · intro d hd
      rcases List.mem_cons.mp hd with rfl | hd
      · exact hδ
      · exact hds d hd
    · rw [Fl.mul_val, e, hv, Finset.prod_range_succ]
      simp only [List.map_cons, List.prod_cons]
      ring
  obtain ⟨ds, hlen, hds, hv⟩ := key
  refine ⟨(ds.map (fun d => 1 + d)).prod - 1, ?_, ?_⟩
  · have := prod_one_add_delta M ds hds
    rwa [hlen] at this
  · rw [hv]; ring

/-- the unit lower factor has determinant 1 -/
theorem det_Lfn (n : Nat) (w : Nat → Nat → ℝ) : (toMat n (Lfn w)).det = 1 := by
  rw [Matrix.det_of_isLowerTriangular]
  · apply Finset.prod_eq_one
    intro r _
    simp [toMat, Lfn]
  · intro r c hrc
    have h1 : r.val < c.val := hrc
    have a1 : ¬ c.val < r.val := by omega
    have a2 : ¬ c.val = r.val := by omega
    show Lfn w r.val c.val = 0
    unfold Lfn
    rw [if_neg a1, if_neg a2]

/-- pure algebra: if `L̂Û = P·C` entrywise (`P` the matrix of `π`, `det P = (-1)^p`) then
`det C = (-1)^p · ∏ û_kk` -/
theorem det_LU_perm {n : Nat} (w C : Nat → Nat → ℝ) (π : Nat → Nat)
    (hπ : ∀ r, r < n → π r < n) (p : Nat)
    (hP : (toMat n (permEntR π)).det = (-1 : ℝ) ^ p)
    (hLU : ∀ r c, r < n → c < n →
      ∑ k ∈ Finset.range n, Lfn w r k * Ufn n w k c = C (π r) c) :
    (toMat n C).det = (-1 : ℝ) ^ p * ∏ k ∈ Finset.range n, w k k := by
  have e : toMat n (Lfn w) * Umat n n w = toMat n (permEntR π) * toMat n C := by
    rw [permEntR_mul π hπ C]
    ext r c
    show ∑ k : Fin n, Lfn w r.val k.val * Ufn n w k.val c.val = C (π r.val) c.val
    rw [Fin.sum_univ_eq_sum_range (fun k => Lfn w r.val k * Ufn n w k c.val) n]
    exact hLU r.val c.val r.isLt c.isLt
  have hd := congrArg Matrix.det e
  rw [Matrix.det_mul, Matrix.det_mul, det_Lfn, det_Umat_full, hP, one_mul] at hd
  have hsq : ((-1 : ℝ) ^ p) * ((-1 : ℝ) ^ p) = 1 := by
    rw [← mul_pow]; simp
  have : (toMat n C).det = (-1 : ℝ) ^ p * ((-1 : ℝ) ^ p * (toMat n C).det) := by
    rw [← mul_assoc, hsq, one_mul]
  rw [this, ← hd]

/-- **`determinant()` in `Fl M`**: whenever it returns `d`, with `s` the computed factorisation:
`d = (-1)^pivots · ∏ û_kk · (1+θ)`, `|θ| ≤ gam n` (the sign flip is exact), together with the
factorisation invariant and the parity of the permutation. -/
theorem determinant_fl (hu : M.u < 1) {n : Nat} {A : Mat (Fl M)} (hA : WFn A n) {d : Fl M}
    (h : determinant A = .ok d) :
    ∃ (s : LU (Fl M)) (π σ : Nat → Nat), luDecomp A = .ok s ∧ LUInvF n (ent A) n s π σ ∧
      (toMat n (permEntR π)).det = (-1 : ℝ) ^ s.pivots ∧
      ∃ θ : ℝ, |θ| ≤ M.gam n ∧
        d.val = (-1 : ℝ) ^ s.pivots * (∏ k ∈ Finset.range n, (ent s.lu k k).val) * (1 + θ) := by
  unfold determinant at h
  obtain ⟨s, hd, h⟩ := Except.bind_eq_ok' h
  obtain ⟨p, hp, h⟩ := Except.bind_eq_ok' h
  obtain ⟨π, σ, hs, hpar⟩ := luDecomp_fl_par hu hA hd
  rw [hA.2.1] at hp
  obtain ⟨θ, hθ, hv⟩ := detProd_fl hs.lu hp
  refine ⟨s, π, σ, hd, hs, hpar, θ, hθ, ?_⟩
  simp only [pure, Except.pure] at h
  injection h with h
  subst h
  by_cases hpar2 : s.pivots % 2 = 0
  · have : (s.pivots % 2 == 0) = true := by simpa using hpar2
    rw [this, if_pos rfl, Even.neg_one_pow (Nat.even_iff.mpr hpar2), one_mul]
    exact hv
  · have : (s.pivots % 2 == 0) = false := by simpa using hpar2
    rw [this]
    simp only [Bool.false_eq_true, if_false]
    rw [Odd.neg_one_pow (Nat.odd_iff.mpr (by omega)), Fl.neg_val, hv]
    ring

end Det

end Mat
end Ohsl
