/-
  Ohsl.Lemmas.MatSpec2 — pointwise specifications (class (S): any scalar type, arbitrary
  operations, no algebraic law) of the remaining dense-matrix model operations: elementwise
  arithmetic, row editing, fills, identity, resize, delete_row, transpose (both code paths).
  Core Lean only.
-/
import Ohsl.Lemmas.MatSpec
set_option linter.unusedSectionVars false
set_option linter.unusedSimpArgs false
set_option linter.unusedVariables false
namespace Ohsl
namespace Mat
variable {K : Type}

/-- case analysis on nested `if`s whose conditions are linear arithmetic on indices -/
macro "ifs_omega" : tactic =>
  `(tactic| (repeat' split) <;> first | rfl | (exfalso; omega) | (congr <;> omega))

theorem Is.congr {m : Mat K} {r c : Nat} {e e' : Nat → Nat → K} (h : Is m r c e)
    (he : ∀ i j, i < r → j < c → e i j = e' i j) : Is m r c e' :=
  ⟨h.wf, h.rows, h.cols, fun i j hi hj => by rw [h.entry i j hi hj, he i j hi hj]⟩

/-- reading an entry of a described matrix -/
theorem Is.get {m : Mat K} {r c : Nat} {e : Nat → Nat → K} (h : Is m r c e) {i j : Nat}
    (hi : i < r) (hj : j < c) : m.get i j = .ok (e i j) := h.entry i j hi hj

/-- Two-level loop rule: outer invariant `Q i` ("rows < i done"), inner invariant `P i j`
    ("row i, columns < j done"); the inner loop runs over `lo i .. c`. -/
theorem forM'_inv2 {σ : Type} (Q : Nat → σ → Prop) (P : Nat → Nat → σ → Prop)
    (r c : Nat) (lo : Nat → Nat) (s : σ) (F : σ → Nat → Res σ) (f : σ → Nat → Nat → Res σ)
    (hF : ∀ i s, i < r → Q i s → F s i = forM' (lo i) c s (fun s j => f s i j))
    (hlo : ∀ i, i < r → lo i ≤ c)
    (h0 : Q 0 s)
    (hin : ∀ i s, i < r → Q i s → P i (lo i) s)
    (hout : ∀ i s, i < r → P i c s → Q (i + 1) s)
    (hstep : ∀ i j s, i < r → lo i ≤ j → j < c → P i j s →
      ∃ s', f s i j = .ok s' ∧ P i (j + 1) s') :
    ∃ s', forM' 0 r s F = .ok s' ∧ Q r s' := by
  refine forM'_inv Q 0 r s F (Nat.zero_le _) h0 ?_
  intro i s _ hi hQ
  rw [hF i s hi hQ]
  obtain ⟨s', hs', hP⟩ := forM'_inv (P i) (lo i) c s (fun s j => f s i j) (hlo i hi)
    (hin i s hi hQ) (fun j s hj1 hj2 hp => hstep i j s hi hj1 hj2 hp)
  exact ⟨s', hs', hout i s' hi hP⟩

/-- Generic "entry by entry" nested loop: if step `(i,j)` overwrites exactly entry `(i,j)` with
    `v i j` (it may rely on that entry still having its initial value), the double loop over
    `r × c` produces the matrix `v`. -/
theorem build_spec {r c : Nat} {e0 v : Nat → Nat → K} {s0 : Mat K} (h0 : Is s0 r c e0)
    (F : Mat K → Nat → Res (Mat K)) (f : Mat K → Nat → Nat → Res (Mat K))
    (hF : ∀ i s es, i < r → Is s r c es → F s i = forM' 0 c s (fun s j => f s i j))
    (hf : ∀ i j s es, i < r → j < c → Is s r c es → es i j = e0 i j →
      ∃ s', f s i j = .ok s' ∧ Is s' r c (fun a b => if a = i ∧ b = j then v i j else es a b)) :
    ∃ s', forM' 0 r s0 F = .ok s' ∧ Is s' r c v := by
  obtain ⟨s', hs', hQ⟩ := forM'_inv2
    (fun i (s : Mat K) => Is s r c (fun a b => if a < i then v a b else e0 a b))
    (fun i j (s : Mat K) => Is s r c (fun a b => if a < i ∨ (a = i ∧ b < j) then v a b else e0 a b))
    r c (fun _ => 0) s0 F f
    (fun i s hi hQ => hF i s _ hi hQ) (fun _ _ => Nat.zero_le _)
    (h0.congr (fun i j _ _ => by simp))
    (fun i s hi hQ => hQ.congr (fun a b _ _ => by ifs_omega))
    (fun i s hi hP => hP.congr (fun a b _ hb => by ifs_omega))
    (by
      intro i j s hi _ hj hP
      obtain ⟨s', hs', hI⟩ := hf i j s _ hi hj hP (if_neg (by omega))
      exact ⟨s', hs', hI.congr (fun a b _ _ => by ifs_omega)⟩)
  exact ⟨s', hs', hQ.congr (fun a b ha _ => by simp [ha])⟩

section Generic
variable [Add K] [Sub K] [Mul K] [Neg K] [Zero K] [One K] [BEq K] [ScalarExt K]

/-! ### elementwise arithmetic -/

/-- `map2 g a b` on two `r × c` matrices: entry (i,j) is `g (a_ij) (b_ij)` -/
theorem map2_spec (g : K → K → K) {a b : Mat K} {r c : Nat} {ea eb : Nat → Nat → K}
    (ha : Is a r c ea) (hb : Is b r c eb) :
    ∃ m', map2 g a b = .ok m' ∧ Is m' r c (fun i j => g (ea i j) (eb i j)) := by
  simp only [map2, ha.rows, ha.cols]
  refine build_spec (Is.of_new r c (0 : K))
    (fun acc i => forM' 0 c acc (fun acc j => do
      let x ← a.get i j
      let y ← b.get i j
      acc.set i j (g x y)))
    (fun acc i j => do
      let x ← a.get i j
      let y ← b.get i j
      acc.set i j (g x y))
    (fun _ _ _ _ _ => rfl) ?_
  intro i j s es hi hj hs _
  obtain ⟨s', hs', hI⟩ := hs.set hi hj (g (ea i j) (eb i j))
  exact ⟨s', by simp only [ha.get hi hj, hb.get hi hj, bind, Except.bind]; exact hs', hI⟩

theorem add_spec {a b : Mat K} {r c : Nat} {ea eb : Nat → Nat → K}
    (ha : Is a r c ea) (hb : Is b r c eb) :
    ∃ m', add a b = .ok m' ∧ Is m' r c (fun i j => ea i j + eb i j) := by
  have h1 : ¬ a.rows ≠ b.rows := by rw [ha.rows, hb.rows]; simp
  have h2 : ¬ a.cols ≠ b.cols := by rw [ha.cols, hb.cols]; simp
  simp only [add, h1, h2, if_false]
  exact map2_spec (· + ·) ha hb

theorem add_rejects (a b : Mat K) (h : a.rows ≠ b.rows ∨ a.cols ≠ b.cols) :
    add a b = .error .size := by
  unfold add
  by_cases h1 : a.rows ≠ b.rows
  · simp [h1]
  · have h2 := h.resolve_left h1
    simp [h1, h2]

theorem sub_spec {a b : Mat K} {r c : Nat} {ea eb : Nat → Nat → K}
    (ha : Is a r c ea) (hb : Is b r c eb) :
    ∃ m', sub a b = .ok m' ∧ Is m' r c (fun i j => ea i j - eb i j) := by
  have h1 : ¬ a.rows ≠ b.rows := by rw [ha.rows, hb.rows]; simp
  have h2 : ¬ a.cols ≠ b.cols := by rw [ha.cols, hb.cols]; simp
  simp only [sub, h1, h2, if_false]
  exact map2_spec (· - ·) ha hb

theorem sub_rejects (a b : Mat K) (h : a.rows ≠ b.rows ∨ a.cols ≠ b.cols) :
    sub a b = .error .size := by
  unfold sub
  by_cases h1 : a.rows ≠ b.rows
  · simp [h1]
  · have h2 := h.resolve_left h1
    simp [h1, h2]

/-- `mapM1 f a` with `f` succeeding on every entry of `a`: entry (i,j) is `g (a_ij)` -/
theorem mapM1_spec (f : K → Res K) (g : K → K) {a : Mat K} {r c : Nat} {e : Nat → Nat → K}
    (ha : Is a r c e) (hf : ∀ i j, i < r → j < c → f (e i j) = .ok (g (e i j))) :
    ∃ m', mapM1 f a = .ok m' ∧ Is m' r c (fun i j => g (e i j)) := by
  simp only [mapM1, ha.rows, ha.cols]
  refine build_spec (Is.of_new r c (0 : K))
    (fun acc i => forM' 0 c acc (fun acc j => do
      let x ← a.get i j
      let y ← f x
      acc.set i j y))
    (fun acc i j => do
      let x ← a.get i j
      let y ← f x
      acc.set i j y)
    (fun _ _ _ _ _ => rfl) ?_
  intro i j s es hi hj hs _
  obtain ⟨s', hs', hI⟩ := hs.set hi hj (g (e i j))
  exact ⟨s', by simp only [ha.get hi hj, hf i j hi hj, bind, Except.bind]; exact hs', hI⟩

/-- if `f` fails on the very first entry, so does `mapM1` (e.g. exact division by zero) -/
theorem mapM1_rejects (f : K → Res K) {a : Mat K} {r c : Nat} {e : Nat → Nat → K}
    (ha : Is a r c e) (hr : 0 < r) (hc : 0 < c) (err : Err) (hf : f (e 0 0) = .error err) :
    mapM1 f a = .error err := by
  simp only [mapM1, ha.rows, ha.cols]
  apply forM'_first_error _ _ _ _ _ hr
  apply forM'_first_error _ _ _ _ _ hc
  simp only [ha.get hr hc, hf, bind, Except.bind]

theorem neg_spec {a : Mat K} {r c : Nat} {e : Nat → Nat → K} (ha : Is a r c e) :
    ∃ m', neg a = .ok m' ∧ Is m' r c (fun i j => - e i j) :=
  mapM1_spec (fun x => pure (-x)) (fun x => -x) ha (fun _ _ _ _ => rfl)

theorem smul_spec {a : Mat K} {r c : Nat} {e : Nat → Nat → K} (ha : Is a r c e) (s : K) :
    ∃ m', smul a s = .ok m' ∧ Is m' r c (fun i j => e i j * s) :=
  mapM1_spec (fun x => pure (x * s)) (fun x => x * s) ha (fun _ _ _ _ => rfl)

theorem addS_spec {a : Mat K} {r c : Nat} {e : Nat → Nat → K} (ha : Is a r c e) (s : K) :
    ∃ m', addS a s = .ok m' ∧ Is m' r c (fun i j => e i j + s) :=
  mapM1_spec (fun x => pure (x + s)) (fun x => x + s) ha (fun _ _ _ _ => rfl)

theorem subS_spec {a : Mat K} {r c : Nat} {e : Nat → Nat → K} (ha : Is a r c e) (s : K) :
    ∃ m', subS a s = .ok m' ∧ Is m' r c (fun i j => e i j - s) :=
  mapM1_spec (fun x => pure (x - s)) (fun x => x - s) ha (fun _ _ _ _ => rfl)

/-- scalar division, provided the scalar division succeeds on every entry (`q` is its value) -/
theorem sdiv_spec {a : Mat K} {r c : Nat} {e : Nat → Nat → K} (ha : Is a r c e) (s : K)
    (q : K → K) (hq : ∀ i j, i < r → j < c → ScalarExt.divM (e i j) s = .ok (q (e i j))) :
    ∃ m', sdiv a s = .ok m' ∧ Is m' r c (fun i j => q (e i j)) :=
  mapM1_spec (fun x => ScalarExt.divM x s) q ha hq

/-! ### row editing -/

/-- `set_row`: for a vector of length `cols` and `row < rows` the call succeeds, row `row` becomes
    `v`, no other entry changes -/
theorem setRow_spec {m : Mat K} {r c : Nat} {e : Nat → Nat → K} (h : Is m r c e) {row : Nat}
    (v : Array K) (hv : v.size = c) (hr : row < r) :
    ∃ m', setRow m row v = .ok m' ∧
      Is m' r c (fun i j => if i = row then v[j]?.getD (e i j) else e i j) := by
  have h1 : ¬ v.size ≠ c := by omega
  have h2 : ¬ r ≤ row := by omega
  simp only [setRow, h.rows, h.cols, h1, h2, if_false]
  obtain ⟨m', hm', hP⟩ := forM'_inv
    (fun k (s : Mat K) => Is s r c (fun i j => if i = row ∧ j < k then v[j]?.getD (e i j) else e i j))
    0 c m (fun m j => do
      let x ← aget v j
      let d ← aset m.data (row * m.cols + j) x
      pure { m with data := d }) (Nat.zero_le _) (h.congr (fun _ _ _ _ => by simp)) (by
      intro k s _ hk hs
      have hkv : k < v.size := by omega
      obtain ⟨s', hs', hI⟩ := hs.set hr hk v[k]
      refine ⟨s', by simpa [aget_ok hkv, Mat.set, bind, Except.bind] using hs', ?_⟩
      refine hI.congr ?_
      intro a b ha hb
      by_cases hab : a = row ∧ b = k
      · obtain ⟨rfl, rfl⟩ := hab; simp [hkv]
      · rw [if_neg hab]
        ifs_omega)
  exact ⟨m', hm', hP.congr (fun a b ha hb => by simp [hb])⟩

theorem setRow_rejects (m : Mat K) (row : Nat) (v : Array K) (h : v.size ≠ m.cols ∨ m.rows ≤ row) :
    ∃ e, setRow m row v = .error e := by
  unfold setRow
  by_cases h1 : v.size ≠ m.cols
  · exact ⟨.size, by simp [h1]⟩
  · have h2 : m.rows ≤ row := h.resolve_left h1
    exact ⟨.range, by simp [h1, h2]⟩

/-- raw element swap of two in-range entries -/
theorem swapElem_spec {m : Mat K} {r c : Nat} {e : Nat → Nat → K} (h : Is m r c e)
    {i1 j1 i2 j2 : Nat} (hi1 : i1 < r) (hj1 : j1 < c) (hi2 : i2 < r) (hj2 : j2 < c) :
    ∃ m', swapElem m i1 j1 i2 j2 = .ok m' ∧
      Is m' r c (fun a b => if a = i1 ∧ b = j1 then e i2 j2
                            else if a = i2 ∧ b = j2 then e i1 j1 else e a b) := by
  obtain ⟨s1, hs1, hI1⟩ := h.set hi2 hj2 (e i1 j1)
  obtain ⟨s2, hs2, hI2⟩ := hI1.set hi1 hj1 (e i2 j2)
  refine ⟨s2, ?_, hI2⟩
  simp only [swapElem, h.get hi1 hj1, h.get hi2 hj2, hs1, bind, Except.bind]
  exact hs2

/-- `swap_rows`: rows `r1` and `r2` are exchanged, everything else is unchanged -/
theorem swapRows_spec {m : Mat K} {r c : Nat} {e : Nat → Nat → K} (h : Is m r c e) {r1 r2 : Nat}
    (h1 : r1 < r) (h2 : r2 < r) :
    ∃ m', swapRows m r1 r2 = .ok m' ∧
      Is m' r c (fun i j => if i = r1 then e r2 j else if i = r2 then e r1 j else e i j) := by
  have hg : ¬ (r ≤ r1 ∨ r ≤ r2) := by omega
  simp only [swapRows, h.rows, h.cols, hg, if_false]
  obtain ⟨m', hm', hP⟩ := forM'_inv
    (fun k (s : Mat K) => Is s r c (fun i j =>
      if j < k then (if i = r1 then e r2 j else if i = r2 then e r1 j else e i j) else e i j))
    0 c m (fun m j => swapElem m r1 j r2 j) (Nat.zero_le _) (h.congr (fun _ _ _ _ => by simp)) (by
      intro k s _ hk hs
      obtain ⟨s', hs', hI⟩ := swapElem_spec hs h1 hk h2 hk
      refine ⟨s', hs', hI.congr ?_⟩
      intro a b ha hb
      have hk' : ¬ k < k := by omega
      simp only [hk', if_false]
      ifs_omega)
  exact ⟨m', hm', hP.congr (fun a b ha hb => by simp [hb])⟩

theorem swapRows_rejects (m : Mat K) (r1 r2 : Nat) (h : m.rows ≤ r1 ∨ m.rows ≤ r2) :
    swapRows m r1 r2 = .error .range := by
  simp [swapRows, h]


/-! ### fills, identity, resize -/

theorem fill_spec {m : Mat K} {r c : Nat} {e : Nat → Nat → K} (h : Is m r c e) (x : K) :
    ∃ m', fill m x = .ok m' ∧ Is m' r c (fun _ _ => x) := by
  simp only [fill, h.rows]
  refine build_spec h
    (fun m i => forM' 0 m.cols m (fun m j => m.set i j x))
    (fun m i j => m.set i j x)
    (fun i s es _ hs => by simp only [hs.cols]) ?_
  intro i j s es hi hj hs _
  exact hs.set hi hj x

theorem fillDiag_spec {m : Mat K} {r c : Nat} {e : Nat → Nat → K} (h : Is m r c e) (x : K) :
    ∃ m', fillDiag m x = .ok m' ∧ Is m' r c (fun i j => if i = j then x else e i j) := by
  simp only [fillDiag, h.rows, h.cols]
  generalize hn : (if c < r then c else r) = n
  have hnr : n ≤ r := by rw [← hn]; split <;> omega
  have hnc : n ≤ c := by rw [← hn]; split <;> omega
  have hmin : ∀ i, i < r → i < c → i < n := by intro i h1 h2; rw [← hn]; split <;> omega
  obtain ⟨m', hm', hP⟩ := forM'_inv
    (fun k (s : Mat K) => Is s r c (fun i j => if i = j ∧ i < k then x else e i j))
    0 n m (fun m i => m.set i i x) (Nat.zero_le _) (h.congr (fun _ _ _ _ => by simp)) (by
      intro k s _ hk hs
      obtain ⟨s', hs', hI⟩ := hs.set (show k < r by omega) (show k < c by omega) x
      exact ⟨s', hs', hI.congr (fun a b _ _ => by ifs_omega)⟩)
  refine ⟨m', hm', hP.congr ?_⟩
  intro a b ha hb
  by_cases hab : a = b
  · subst hab; simp [hmin a ha hb]
  · simp [hab]

theorem fillRow_spec {m : Mat K} {r c : Nat} {e : Nat → Nat → K} (h : Is m r c e) {row : Nat}
    (hr : row < r) (x : K) :
    ∃ m', fillRow m row x = .ok m' ∧ Is m' r c (fun i j => if i = row then x else e i j) := by
  have hg : ¬ r ≤ row := by omega
  simp only [fillRow, h.rows, h.cols, hg, if_false]
  obtain ⟨m', hm', hP⟩ := forM'_inv
    (fun k (s : Mat K) => Is s r c (fun i j => if i = row ∧ j < k then x else e i j))
    0 c m (fun m j => m.set row j x) (Nat.zero_le _) (h.congr (fun _ _ _ _ => by simp)) (by
      intro k s _ hk hs
      obtain ⟨s', hs', hI⟩ := hs.set hr hk x
      exact ⟨s', hs', hI.congr (fun a b _ _ => by ifs_omega)⟩)
  exact ⟨m', hm', hP.congr (fun a b _ hb => by simp [hb])⟩

theorem fillRow_rejects (m : Mat K) (row : Nat) (x : K) (h : m.rows ≤ row) :
    fillRow m row x = .error .range := by
  simp [fillRow, h]

theorem fillCol_spec {m : Mat K} {r c : Nat} {e : Nat → Nat → K} (h : Is m r c e) {col : Nat}
    (hc : col < c) (x : K) :
    ∃ m', fillCol m col x = .ok m' ∧ Is m' r c (fun i j => if j = col then x else e i j) := by
  have hg : ¬ c ≤ col := by omega
  simp only [fillCol, h.rows, h.cols, hg, if_false]
  obtain ⟨m', hm', hP⟩ := forM'_inv
    (fun k (s : Mat K) => Is s r c (fun i j => if j = col ∧ i < k then x else e i j))
    0 r m (fun m i => m.set i col x) (Nat.zero_le _) (h.congr (fun _ _ _ _ => by simp)) (by
      intro k s _ hk hs
      obtain ⟨s', hs', hI⟩ := hs.set hk hc x
      exact ⟨s', hs', hI.congr (fun a b _ _ => by ifs_omega)⟩)
  exact ⟨m', hm', hP.congr (fun a b ha _ => by simp [ha])⟩

theorem fillCol_rejects (m : Mat K) (col : Nat) (x : K) (h : m.cols ≤ col) :
    fillCol m col x = .error .range := by
  simp [fillCol, h]

/-- `fill_band(offset, x)`: exactly the entries `(row, row + offset)` that are in range are set -/
theorem fillBand_spec {m : Mat K} {r c : Nat} {e : Nat → Nat → K} (h : Is m r c e) (offset : Int)
    (x : K) :
    ∃ m', fillBand m offset x = .ok m' ∧
      Is m' r c (fun i j => if (j : Int) = (i : Int) + offset then x else e i j) := by
  simp only [fillBand, h.rows]
  obtain ⟨m', hm', hP⟩ := forM'_inv
    (fun k (s : Mat K) => Is s r c (fun i j =>
      if (j : Int) = (i : Int) + offset ∧ i < k then x else e i j))
    0 r m (fun m row =>
      if 0 ≤ (row : Int) + offset ∧ ((row : Int) + offset).toNat < m.cols
      then m.set row ((row : Int) + offset).toNat x else pure m)
    (Nat.zero_le _) (h.congr (fun _ _ _ _ => by simp)) (by
      intro k s _ hk hs
      by_cases hc : 0 ≤ (k : Int) + offset ∧ ((k : Int) + offset).toNat < s.cols
      · rw [if_pos hc]
        rw [hs.cols] at hc
        obtain ⟨s', hs', hI⟩ := hs.set hk hc.2 x
        exact ⟨s', hs', hI.congr (fun a b _ _ => by ifs_omega)⟩
      · rw [if_neg hc]
        rw [hs.cols] at hc
        exact ⟨s, rfl, hs.congr (fun a b _ hb => by ifs_omega)⟩)
  exact ⟨m', hm', hP.congr (fun a b ha _ => by simp [ha])⟩

/-- `fill_tridiag(lower, diag, upper)` -/
theorem fillTridiag_spec {m : Mat K} {r c : Nat} {e : Nat → Nat → K} (h : Is m r c e)
    (lower diag upper : K) :
    ∃ m', fillTridiag m lower diag upper = .ok m' ∧
      Is m' r c (fun i j => if j = i + 1 then upper else if i = j then diag
                            else if j + 1 = i then lower else e i j) := by
  obtain ⟨m1, h1, hI1⟩ := fillBand_spec h (-1) lower
  obtain ⟨m2, h2, hI2⟩ := fillDiag_spec hI1 diag
  obtain ⟨m3, h3, hI3⟩ := fillBand_spec hI2 1 upper
  refine ⟨m3, ?_, hI3.congr (fun a b _ _ => by ifs_omega)⟩
  simp only [fillTridiag, h1, h2, bind, Except.bind]
  exact h3

/-- `eye(n)`: 1 on the diagonal, 0 elsewhere -/
theorem eye_spec (n : Nat) :
    ∃ m', (eye n : Res (Mat K)) = .ok m' ∧ Is m' n n (fun i j => if i = j then 1 else 0) := by
  simp only [eye]
  obtain ⟨m', hm', hP⟩ := forM'_inv
    (fun k (s : Mat K) => Is s n n (fun i j => if i = j ∧ i < k then (1 : K) else 0))
    0 n (Mat.new n n (0 : K)) (fun m i => m.set i i 1) (Nat.zero_le _)
    ((Is.of_new n n (0 : K)).congr (fun _ _ _ _ => by simp)) (by
      intro k s _ hk hs
      obtain ⟨s', hs', hI⟩ := hs.set hk hk (1 : K)
      exact ⟨s', hs', hI.congr (fun a b _ _ => by ifs_omega)⟩)
  exact ⟨m', hm', hP.congr (fun a b ha _ => by simp [ha])⟩

/-- `resize(nr, nc)`: the overlapping block is copied, every other entry is zero -/
theorem resize_spec {m : Mat K} {r c : Nat} {e : Nat → Nat → K} (h : Is m r c e) (nr nc : Nat) :
    ∃ m', resize m nr nc = .ok m' ∧
      Is m' nr nc (fun i j => if i < r ∧ j < c then e i j else 0) := by
  simp only [resize]
  refine build_spec (Is.of_new nr nc (0 : K))
    (fun acc i => forM' 0 nc acc (fun acc j =>
      if i < m.rows ∧ j < m.cols then do
        let x ← m.get i j
        acc.set i j x
      else pure acc))
    (fun acc i j =>
      if i < m.rows ∧ j < m.cols then do
        let x ← m.get i j
        acc.set i j x
      else pure acc)
    (fun _ _ _ _ _ => rfl) ?_
  intro i j s es hi hj hs h0
  by_cases hc : i < m.rows ∧ j < m.cols
  · rw [if_pos hc]
    rw [h.rows, h.cols] at hc
    obtain ⟨s', hs', hI⟩ := hs.set hi hj (e i j)
    refine ⟨s', by simp only [h.get hc.1 hc.2, bind, Except.bind]; exact hs', hI.congr ?_⟩
    intro a b _ _
    simp [hc]
  · rw [if_neg hc]
    rw [h.rows, h.cols] at hc
    refine ⟨s, rfl, hs.congr ?_⟩
    intro a b _ _
    by_cases hab : a = i ∧ b = j
    · obtain ⟨rfl, rfl⟩ := hab; simp [hc, h0]
    · simp [hab]


/-! ### delete_row -/

/-- `delete_row(row)`: rows above are unchanged, rows below move up by one, `rows - 1` rows -/
theorem deleteRow_spec {m : Mat K} {r c : Nat} {e : Nat → Nat → K} (h : Is m r c e) {row : Nat}
    (hr : row < r) :
    ∃ m', deleteRow m row = .ok m' ∧
      Is m' (r - 1) c (fun i j => if i < row then e i j else e (i + 1) j) := by
  have hsz : m.data.size = r * c := by have := h.wf; rw [WF, h.rows, h.cols] at this; exact this
  have e1 : (row + 1) * c = row * c + c := Nat.succ_mul _ _
  have e2 : (row + 1) * c ≤ r * c := Nat.mul_le_mul_right _ hr
  have hg1 : ¬ r ≤ row := by omega
  have hg2 : ¬ (row + 1) * c > r * c := by omega
  simp only [deleteRow, h.rows, h.cols, hsz, hg1, hg2, if_false]
  refine ⟨_, rfl, ?_, rfl, rfl, ?_⟩
  · -- well-formed
    obtain ⟨r', rfl⟩ : ∃ r', r = r' + 1 := ⟨r - 1, by omega⟩
    have e3 : (r' + 1) * c = r' * c + c := Nat.succ_mul _ _
    have e4 : row * c ≤ r' * c := Nat.mul_le_mul_right _ (by omega)
    simp only [WF, Array.size_append, Array.size_extract, hsz]
    show _ = r' * c
    omega
  · intro i j hi hj
    have hsrc : ∀ a, a < r → m.data[a * c + j]? = some (e a j) := by
      intro a ha
      have := h.get ha hj
      rw [Mat.get, h.cols] at this
      exact aget_eq_ok.mp this
    rw [Mat.get]
    apply aget_eq_ok.mpr
    show (m.data.extract 0 (row * c) ++ m.data.extract ((row + 1) * c) (r * c))[i * c + j]? = _
    have e5 : (i + 1) * c = i * c + c := Nat.succ_mul _ _
    have e6 : (i + 1 + 1) * c = (i + 1) * c + c := Nat.succ_mul _ _
    have e7 : (i + 1 + 1) * c ≤ r * c := Nat.mul_le_mul_right _ (by omega)
    rw [Array.getElem?_append, Array.size_extract, hsz]
    by_cases hlt : i < row
    · have h1 : i * c + j < row * c := idx_lt hlt hj
      have h2 : i * c + j < min (row * c) (r * c) - 0 := by omega
      rw [if_pos h2, Array.getElem?_extract, hsz, if_pos h2, if_pos hlt, Nat.zero_add]
      exact hsrc i (by omega)
    · have h1 : row * c ≤ i * c := Nat.mul_le_mul_right _ (by omega)
      have h2 : ¬ i * c + j < min (row * c) (r * c) - 0 := by omega
      have h3 : i * c + j - (min (row * c) (r * c) - 0) < min (r * c) (r * c) - (row + 1) * c := by
        omega
      rw [if_neg h2, Array.getElem?_extract, hsz, if_pos h3, if_neg hlt]
      have h4 : (row + 1) * c + (i * c + j - (min (row * c) (r * c) - 0)) = (i + 1) * c + j := by
        omega
      rw [h4]
      exact hsrc (i + 1) (by omega)

theorem deleteRow_rejects (m : Mat K) (row : Nat) (h : m.rows ≤ row) :
    deleteRow m row = .error .range := by
  simp [deleteRow, h]


/-! ### transpose -/

/-- the square path of `transpose_in_place`: pairwise swaps above/below the diagonal -/
theorem transposeSquare_spec {m : Mat K} {n : Nat} {e : Nat → Nat → K} (h : Is m n n e) :
    ∃ m', forM' 0 n m (fun m i =>
        forM' (i + 1) m.cols m (fun m j => do
          let temp ← m.get i j
          let other ← m.get j i
          let m ← m.set j i temp
          m.set i j other)) = .ok m' ∧ Is m' n n (fun i j => e j i) := by
  obtain ⟨s', hs', hQ⟩ := forM'_inv2
    (fun i (s : Mat K) => Is s n n (fun a b => if a < i ∨ b < i then e b a else e a b))
    (fun i j (s : Mat K) => Is s n n (fun a b =>
      if a < i ∨ b < i ∨ (a = i ∧ b < j) ∨ (b = i ∧ a < j) then e b a else e a b))
    n n (fun i => i + 1) m
    (fun m i =>
        forM' (i + 1) m.cols m (fun m j => do
          let temp ← m.get i j
          let other ← m.get j i
          let m ← m.set j i temp
          m.set i j other))
    (fun m i j => do
          let temp ← m.get i j
          let other ← m.get j i
          let m ← m.set j i temp
          m.set i j other)
    (fun i s hi hQ => by simp only [hQ.cols]) (fun i hi => by omega)
    (h.congr (fun a b _ _ => by simp))
    (fun i s hi hQ => hQ.congr (fun a b _ _ => by ifs_omega))
    (fun i s hi hP => hP.congr (fun a b ha hb => by ifs_omega))
    (by
      intro i j s hi hij hj hP
      have g1 := hP.get hi hj
      have g2 := hP.get hj hi
      obtain ⟨s1, hs1, hI1⟩ := hP.set hj hi (e i j)
      obtain ⟨s2, hs2, hI2⟩ := hI1.set hi hj (e j i)
      have c1 : ¬ (i < i ∨ j < i ∨ (i = i ∧ j < j) ∨ (j = i ∧ i < j)) := by omega
      have c2 : ¬ (j < i ∨ i < i ∨ (j = i ∧ i < j) ∨ (i = i ∧ j < j)) := by omega
      rw [if_neg c1] at g1
      rw [if_neg c2] at g2
      refine ⟨s2, ?_, hI2.congr (fun a b _ _ => by ifs_omega)⟩
      simp only [g1, g2, hs1, bind, Except.bind]
      exact hs2)
  exact ⟨s', hs', hQ.congr (fun a b ha hb => by simp [ha])⟩

/-- the non-square path of `transpose_in_place`: the buffer is rebuilt in column-major order -/
theorem transposeRebuild_spec {m : Mat K} {r c : Nat} {e : Nat → Nat → K} (h : Is m r c e) :
    ∃ d, forM' 0 c (#[] : Array K) (fun acc j =>
        forM' 0 r acc (fun acc i => do
          let x ← m.get i j
          pure (acc.push x))) = .ok d ∧ Is (⟨d, c, r⟩ : Mat K) c r (fun i j => e j i) := by
  obtain ⟨d, hd, hsz, hQ⟩ := forM'_inv2
    (fun j (acc : Array K) => acc.size = j * r ∧
      ∀ b a, b < c → a < r → b < j → acc[b * r + a]? = some (e a b))
    (fun j i (acc : Array K) => acc.size = j * r + i ∧
      ∀ b a, b < c → a < r → (b < j ∨ (b = j ∧ a < i)) → acc[b * r + a]? = some (e a b))
    c r (fun _ => 0) (#[] : Array K)
    (fun acc j =>
        forM' 0 r acc (fun acc i => do
          let x ← m.get i j
          pure (acc.push x)))
    (fun acc j i => do
          let x ← m.get i j
          pure (acc.push x))
    (fun _ _ _ _ => rfl) (fun _ _ => Nat.zero_le _)
    ⟨by simp, fun b a _ _ hb => by omega⟩
    (fun j s hj hQ => ⟨by simpa using hQ.1, fun b a hb ha hd => hQ.2 b a hb ha (by omega)⟩)
    (fun j s hj hP => ⟨by rw [hP.1, Nat.succ_mul], fun b a hb ha hd => hP.2 b a hb ha (by omega)⟩)
    (by
      intro j i s hj _ hi hP
      refine ⟨s.push (e i j), by simp only [h.get hi hj, bind, Except.bind, pure, Except.pure], ?_, ?_⟩
      · rw [Array.size_push, hP.1]; omega
      · intro b a hb ha hd
        rw [Array.getElem?_push, hP.1]
        by_cases hba : b = j ∧ a = i
        · obtain ⟨rfl, rfl⟩ := hba; simp
        · have hd' : b < j ∨ (b = j ∧ a < i) := by omega
          have hne : b * r + a ≠ j * r + i := by
            rcases hd' with hlt | ⟨rfl, hlt⟩
            · have := idx_lt (r := j) (c := r) hlt ha; omega
            · omega
          rw [if_neg hne]
          exact hP.2 b a hb ha hd')
  refine ⟨d, hd, ⟨by simp [WF, hsz], rfl, rfl, ?_⟩⟩
  intro i j hi hj
  rw [Mat.get]
  exact aget_eq_ok.mpr (hQ i j hi hj hi)

/-- `transpose_in_place`: for BOTH code paths (square: pairwise swaps; non-square: column-major
    rebuild) the result is the `c × r` matrix with entry (i,j) equal to the old entry (j,i) -/
theorem transposeInPlace_spec {m : Mat K} {r c : Nat} {e : Nat → Nat → K} (h : Is m r c e) :
    ∃ m', transposeInPlace m = .ok m' ∧ Is m' c r (fun i j => e j i) := by
  unfold transposeInPlace
  by_cases hsq : m.rows = m.cols
  · rw [if_pos hsq]
    have hrc : r = c := by rw [← h.rows, ← h.cols]; exact hsq
    subst hrc
    rw [h.rows]
    exact transposeSquare_spec h
  · rw [if_neg hsq]
    obtain ⟨d, hd, hI⟩ := transposeRebuild_spec h
    refine ⟨⟨d, c, r⟩, ?_, hI⟩
    rw [h.rows, h.cols, hd]
    rfl

theorem transpose_spec {m : Mat K} {r c : Nat} {e : Nat → Nat → K} (h : Is m r c e) :
    ∃ m', transpose m = .ok m' ∧ Is m' c r (fun i j => e j i) :=
  transposeInPlace_spec h


/-! ### operation histories: the model refines a reference semantics on `(rows, cols, entries)` -/

/-- entry function read off the raw buffer of a matrix -/
def entryOf (b : Mat K) : Nat → Nat → K := fun i j => b.data[i * b.cols + j]?.getD 0

/-- every well-formed matrix is described by its own buffer -/
theorem Is.of_wf {m : Mat K} (h : m.WF) : Is m m.rows m.cols (entryOf m) := by
  refine ⟨h, rfl, rfl, ?_⟩
  intro i j hi hj
  have hlt : i * m.cols + j < m.data.size := by rw [h]; exact idx_lt hi hj
  simp [Mat.get, aget, entryOf, hlt]

/-- a representative set of editing / arithmetic operations (operands included) -/
inductive MatOp (K : Type) where
  | setRow (row : Nat) (v : Array K)
  | setCol (col : Nat) (v : Array K)
  | swapRows (r1 r2 : Nat)
  | deleteRow (row : Nat)
  | fill (x : K)
  | fillDiag (x : K)
  | fillRow (row : Nat) (x : K)
  | fillCol (col : Nat) (x : K)
  | fillBand (offset : Int) (x : K)
  | fillTridiag (lower diag upper : K)
  | transpose
  | resize (nr nc : Nat)
  | neg
  | smul (s : K)
  | addS (s : K)
  | subS (s : K)
  | add (b : Mat K)
  | sub (b : Mat K)
  | mul (b : Mat K)

/-- what the model does for one operation -/
def MatOp.apply : MatOp K → Mat K → Res (Mat K)
  | .setRow row v, m => Mat.setRow m row v
  | .setCol col v, m => Mat.setCol m col v
  | .swapRows r1 r2, m => Mat.swapRows m r1 r2
  | .deleteRow row, m => Mat.deleteRow m row
  | .fill x, m => Mat.fill m x
  | .fillDiag x, m => Mat.fillDiag m x
  | .fillRow row x, m => Mat.fillRow m row x
  | .fillCol col x, m => Mat.fillCol m col x
  | .fillBand o x, m => Mat.fillBand m o x
  | .fillTridiag l d u, m => Mat.fillTridiag m l d u
  | .transpose, m => Mat.transpose m
  | .resize nr nc, m => Mat.resize m nr nc
  | .neg, m => Mat.neg m
  | .smul s, m => Mat.smul m s
  | .addS s, m => Mat.addS m s
  | .subS s, m => Mat.subS m s
  | .add b, m => Mat.add m b
  | .sub b, m => Mat.sub m b
  | .mul b, m => Mat.mul m b

/-- the model's state after a history of operations (the first panic aborts) -/
def run : List (MatOp K) → Mat K → Res (Mat K)
  | [], m => .ok m
  | op :: ops, m => do
    let m' ← op.apply m
    run ops m'

theorem run_eq_foldlM (ops : List (MatOp K)) (m : Mat K) :
    run ops m = ops.foldlM (fun m op => op.apply m) m := by
  induction ops generalizing m with
  | nil => rfl
  | cons op ops ih =>
    simp only [run, List.foldlM_cons, bind, Except.bind]
    cases op.apply m with
    | error e => rfl
    | ok m' => exact ih m'

/-- reference state: a shape and an entry function (no buffer, no index arithmetic) -/
structure Ref (K : Type) where
  rows : Nat
  cols : Nat
  entry : Nat → Nat → K

/-- reference semantics of one operation; `none` = the call is rejected (panics) -/
def MatOp.ref : MatOp K → Ref K → Option (Ref K)
  | .setRow row v, s =>
    if v.size = s.cols ∧ row < s.rows then
      some ⟨s.rows, s.cols, fun i j => if i = row then v[j]?.getD (s.entry i j) else s.entry i j⟩
    else none
  | .setCol col v, s =>
    if v.size = s.rows ∧ col < s.cols then
      some ⟨s.rows, s.cols, fun i j => if j = col then v[i]?.getD (s.entry i j) else s.entry i j⟩
    else none
  | .swapRows r1 r2, s =>
    if r1 < s.rows ∧ r2 < s.rows then
      some ⟨s.rows, s.cols, fun i j =>
        if i = r1 then s.entry r2 j else if i = r2 then s.entry r1 j else s.entry i j⟩
    else none
  | .deleteRow row, s =>
    if row < s.rows then
      some ⟨s.rows - 1, s.cols, fun i j => if i < row then s.entry i j else s.entry (i + 1) j⟩
    else none
  | .fill x, s => some ⟨s.rows, s.cols, fun _ _ => x⟩
  | .fillDiag x, s => some ⟨s.rows, s.cols, fun i j => if i = j then x else s.entry i j⟩
  | .fillRow row x, s =>
    if row < s.rows then some ⟨s.rows, s.cols, fun i j => if i = row then x else s.entry i j⟩
    else none
  | .fillCol col x, s =>
    if col < s.cols then some ⟨s.rows, s.cols, fun i j => if j = col then x else s.entry i j⟩
    else none
  | .fillBand o x, s =>
    some ⟨s.rows, s.cols, fun i j => if (j : Int) = (i : Int) + o then x else s.entry i j⟩
  | .fillTridiag l d u, s =>
    some ⟨s.rows, s.cols, fun i j => if j = i + 1 then u else if i = j then d
                                     else if j + 1 = i then l else s.entry i j⟩
  | .transpose, s => some ⟨s.cols, s.rows, fun i j => s.entry j i⟩
  | .resize nr nc, s =>
    some ⟨nr, nc, fun i j => if i < s.rows ∧ j < s.cols then s.entry i j else 0⟩
  | .neg, s => some ⟨s.rows, s.cols, fun i j => - s.entry i j⟩
  | .smul k, s => some ⟨s.rows, s.cols, fun i j => s.entry i j * k⟩
  | .addS k, s => some ⟨s.rows, s.cols, fun i j => s.entry i j + k⟩
  | .subS k, s => some ⟨s.rows, s.cols, fun i j => s.entry i j - k⟩
  | .add b, s =>
    if s.rows = b.rows ∧ s.cols = b.cols then
      some ⟨s.rows, s.cols, fun i j => s.entry i j + entryOf b i j⟩
    else none
  | .sub b, s =>
    if s.rows = b.rows ∧ s.cols = b.cols then
      some ⟨s.rows, s.cols, fun i j => s.entry i j - entryOf b i j⟩
    else none
  | .mul b, s =>
    if s.cols = b.rows then some ⟨s.rows, b.cols, dotRC s.entry (entryOf b) s.cols⟩
    else none

/-- reference state after a history -/
def refRun : List (MatOp K) → Ref K → Option (Ref K)
  | [], s => some s
  | op :: ops, s => (op.ref s).bind (refRun ops)

/-- operand matrices of binary operations are well-formed -/
def MatOp.Valid : MatOp K → Prop
  | .add b => b.WF
  | .sub b => b.WF
  | .mul b => b.WF
  | _ => True

/-- the model state `m` is described by the reference state `s` -/
def Rel (m : Mat K) (s : Ref K) : Prop := Is m s.rows s.cols s.entry

/-- a model result refines a reference result: success with a related state, or both reject -/
def Refines (R : Res (Mat K)) (o : Option (Ref K)) : Prop :=
  match o with
  | some s' => ∃ m', R = .ok m' ∧ Rel m' s'
  | none => ∃ err, R = .error err

theorem Refines.ite {R : Res (Mat K)} {g : Prop} [Decidable g] {s1 : Ref K}
    (hpos : g → ∃ m', R = .ok m' ∧ Rel m' s1) (hneg : ¬ g → ∃ err, R = .error err) :
    Refines R (if g then some s1 else none) := by
  by_cases hg : g
  · rw [if_pos hg]; exact hpos hg
  · rw [if_neg hg]; exact hneg hg

/-- one operation: the model refines the reference semantics -/
theorem step_refines (op : MatOp K) (hv : op.Valid) {m : Mat K} {s : Ref K} (h : Rel m s) :
    Refines (op.apply m) (op.ref s) := by
  have hr := h.rows
  have hc := h.cols
  cases op with
  | setRow row v =>
    exact Refines.ite (fun hg => setRow_spec h v hg.1 hg.2)
      (fun hg => setRow_rejects m row v (by rw [hr, hc]; omega))
  | setCol col v =>
    exact Refines.ite (fun hg => setCol_spec h v hg.1 hg.2)
      (fun hg => setCol_rejects m col v (by rw [hr, hc]; omega))
  | swapRows r1 r2 =>
    exact Refines.ite (fun hg => swapRows_spec h hg.1 hg.2)
      (fun hg => ⟨_, swapRows_rejects m r1 r2 (by rw [hr]; omega)⟩)
  | deleteRow row =>
    exact Refines.ite (fun hg => deleteRow_spec h hg)
      (fun hg => ⟨_, deleteRow_rejects m row (by rw [hr]; omega)⟩)
  | fill x => exact fill_spec h x
  | fillDiag x => exact fillDiag_spec h x
  | fillRow row x =>
    exact Refines.ite (fun hg => fillRow_spec h hg x)
      (fun hg => ⟨_, fillRow_rejects m row x (by rw [hr]; omega)⟩)
  | fillCol col x =>
    exact Refines.ite (fun hg => fillCol_spec h hg x)
      (fun hg => ⟨_, fillCol_rejects m col x (by rw [hc]; omega)⟩)
  | fillBand o x => exact fillBand_spec h o x
  | fillTridiag l d u => exact fillTridiag_spec h l d u
  | transpose => exact transpose_spec h
  | resize nr nc => exact resize_spec h nr nc
  | neg => exact neg_spec h
  | smul k => exact smul_spec h k
  | addS k => exact addS_spec h k
  | subS k => exact subS_spec h k
  | add b =>
    refine Refines.ite (fun hg => ?_) (fun hg => ⟨_, add_rejects m b (by rw [hr, hc]; omega)⟩)
    have hb : Is b s.rows s.cols (entryOf b) := by rw [hg.1, hg.2]; exact Is.of_wf hv
    exact add_spec h hb
  | sub b =>
    refine Refines.ite (fun hg => ?_) (fun hg => ⟨_, sub_rejects m b (by rw [hr, hc]; omega)⟩)
    have hb : Is b s.rows s.cols (entryOf b) := by rw [hg.1, hg.2]; exact Is.of_wf hv
    exact sub_spec h hb
  | mul b =>
    refine Refines.ite (fun hg => ?_) (fun hg => ⟨_, mul_rejects m b (by rw [hc]; exact hg)⟩)
    have hb : Is b s.cols b.cols (entryOf b) := by rw [hg]; exact Is.of_wf hv
    exact mul_spec h hb

/-- **Histories.** For an arbitrary list of operations (with well-formed operands), started in a
    model state described by the reference state `s`: if the reference run succeeds the model run
    succeeds and its final state is described by the reference result (shape, well-formedness and
    every entry); if the reference run rejects, the model run panics. -/
theorem run_refines (ops : List (MatOp K)) (hv : ∀ op ∈ ops, op.Valid) {m : Mat K} {s : Ref K}
    (h : Rel m s) : Refines (run ops m) (refRun ops s) := by
  induction ops generalizing m s with
  | nil => exact ⟨m, rfl, h⟩
  | cons op ops ih =>
    have hstep := step_refines op (hv op (by simp)) h
    simp only [run, refRun]
    cases hop : op.ref s with
    | none =>
      rw [hop] at hstep
      obtain ⟨err, he⟩ := hstep
      exact ⟨err, by rw [he]; rfl⟩
    | some s1 =>
      rw [hop] at hstep
      obtain ⟨m1, hm1, hrel⟩ := hstep
      rw [hm1]
      exact ih (fun o ho => hv o (by simp [ho])) hrel

/-- `len == rows * cols` is invariant under every history that does not panic -/
theorem run_wf (ops : List (MatOp K)) (hv : ∀ op ∈ ops, op.Valid) {m m' : Mat K} (h : m.WF)
    (hrun : run ops m = .ok m') : m'.WF := by
  have R := run_refines ops hv (s := ⟨m.rows, m.cols, entryOf m⟩) (Is.of_wf h)
  cases hr : refRun ops ⟨m.rows, m.cols, entryOf m⟩ with
  | none =>
    rw [hr] at R
    obtain ⟨err, he⟩ := R
    rw [he] at hrun
    cases hrun
  | some s' =>
    rw [hr] at R
    obtain ⟨m'', hm'', hrel⟩ := R
    rw [hm''] at hrun
    cases hrun
    exact hrel.wf


end Generic

end Mat
end Ohsl
