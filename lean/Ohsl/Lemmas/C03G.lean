/-
  Ohsl.Lemmas.C03G — helpers for Ohsl/Props/C03G.lean.  Core Lean only, class (S).

  * `forM'_fails`            a loop one of whose iterations fails from every state fails
  * `mapM1_fails`            `mapM1 f a` fails as soon as `f` fails on SOME entry of `a`
  * `Is.get_raw`, `Is.set_raw`, `get_raw_err`   the raw index operators (only the flat offset
                             `i*cols + j` is checked) on a described matrix
  * `MatOp2`, `MatOp2.apply`, `MatOp2.ref`, `run2`, `refRun2`   the operation set `MatOp` extended
                             by `set`, `sdiv`, `eye`, `clear`, `swapElem`, `lsmul`
  * `step_refines2`, `run2_refines`
-/
import Ohsl.Lemmas.MatSpec2
set_option linter.unusedSectionVars false
set_option linter.unusedSimpArgs false
set_option linter.unusedVariables false
namespace Ohsl
namespace Mat
variable {K : Type}

/-! ### failing loops -/

/-- if iteration `i0 ∈ [lo, hi)` fails from EVERY state, the loop fails (at `i0` or earlier) -/
theorem forM'_fails {σ : Type} (lo hi i0 : Nat) (s : σ) (f : σ → Nat → Res σ) (h1 : lo ≤ i0)
    (h2 : i0 < hi) (hf : ∀ s, ∃ e, f s i0 = .error e) : ∃ e, forM' lo hi s f = .error e := by
  unfold forM'
  have e : List.range' lo (hi - lo)
      = List.range' lo (i0 - lo) ++ i0 :: List.range' (i0 + 1) (hi - i0 - 1) := by
    have := List.range'_append (s := lo) (m := i0 - lo) (n := hi - i0) (step := 1)
    have e1 : lo + 1 * (i0 - lo) = i0 := by omega
    have e2 : (i0 - lo) + (hi - i0) = hi - lo := by omega
    rw [e1, e2] at this
    rw [← this]
    have e3 : hi - i0 = (hi - i0 - 1) + 1 := by omega
    rw [e3]
    simp [List.range']
  rw [e, List.foldlM_append]
  cases hpre : List.foldlM f s (List.range' lo (i0 - lo)) with
  | error err => exact ⟨err, rfl⟩
  | ok s' =>
    obtain ⟨err, herr⟩ := hf s'
    refine ⟨err, ?_⟩
    simp only [bind, Except.bind, List.foldlM_cons, herr]

/-! ### raw indexing (only the flat offset is checked, as in the code) -/

theorem flat_decomp {r c f : Nat} (hf : f < r * c) : f / c < r ∧ f % c < c ∧ f / c * c + f % c = f := by
  have hc : 0 < c := by
    rcases Nat.eq_zero_or_pos c with h | h
    · subst h; simp at hf
    · exact h
  refine ⟨?_, Nat.mod_lt _ hc, Nat.div_add_mod' f c⟩
  apply Nat.div_lt_of_lt_mul
  rw [Nat.mul_comm]; exact hf

/-- a raw read whose flat offset is inside the buffer returns the entry stored at that offset —
    entry `(f / c, f % c)` — also when `j ≥ c` -/
theorem Is.get_raw {m : Mat K} {r c : Nat} {e : Nat → Nat → K} (h : Is m r c e) {i j : Nat}
    (hf : i * c + j < r * c) :
    m.get i j = .ok (e ((i * c + j) / c) ((i * c + j) % c)) := by
  obtain ⟨h1, h2, h3⟩ := flat_decomp hf
  have := h.entry _ _ h1 h2
  simp only [Mat.get, h.cols] at this ⊢
  rw [h3] at this
  exact this

theorem get_raw_err {m : Mat K} {r c : Nat} {e : Nat → Nat → K} (h : Is m r c e) {i j : Nat}
    (hf : r * c ≤ i * c + j) : m.get i j = .error .range := by
  have hsz : m.data.size = r * c := by have := h.wf; rw [WF, h.rows, h.cols] at this; exact this
  simp only [Mat.get, h.cols]
  exact aget_err (by rw [hsz]; exact hf)

/-- a raw write whose flat offset `f = i*c + j` is inside the buffer overwrites exactly the entry
    stored at that offset: the in-range entry `(a, b)` with `a*c + b = f` -/
theorem Is.set_raw {m : Mat K} {r c : Nat} {e : Nat → Nat → K} (h : Is m r c e) {i j : Nat}
    (hf : i * c + j < r * c) (v : K) :
    ∃ m', m.set i j v = .ok m' ∧
      Is m' r c (fun a b => if a * c + b = i * c + j then v else e a b) := by
  obtain ⟨h1, h2, h3⟩ := flat_decomp hf
  obtain ⟨m', hm', hI⟩ := h.set h1 h2 v
  refine ⟨m', ?_, hI.congr ?_⟩
  · simp only [Mat.set, h.cols] at hm' ⊢
    rw [h3] at hm'
    exact hm'
  · intro a b ha hb
    by_cases hab : a * c + b = i * c + j
    · have := idx_inj hb h2 (hab.trans h3.symm)
      rw [if_pos hab, if_pos this]
    · have : ¬ (a = (i * c + j) / c ∧ b = (i * c + j) % c) := by
        rintro ⟨rfl, rfl⟩; exact hab h3
      rw [if_neg hab, if_neg this]

theorem set_raw_err {m : Mat K} {r c : Nat} {e : Nat → Nat → K} (h : Is m r c e) {i j : Nat}
    (hf : r * c ≤ i * c + j) (v : K) : m.set i j v = .error .range := by
  have hsz : m.data.size = r * c := by have := h.wf; rw [WF, h.rows, h.cols] at this; exact this
  exact set_err v (by rw [hsz, h.cols]; exact hf)

theorem Is.of_empty (e : Nat → Nat → K) : Is (Mat.empty : Mat K) 0 0 e :=
  ⟨by simp [WF, Mat.empty], rfl, rfl, fun i j hi _ => absurd hi (Nat.not_lt_zero _)⟩

section Generic
variable [Add K] [Sub K] [Mul K] [Neg K] [Zero K] [One K] [BEq K] [ScalarExt K]

/-- `mapM1 f a` fails as soon as `f` fails on SOME in-range entry of `a` (not only the first) -/
theorem mapM1_fails (f : K → Res K) {a : Mat K} {r c : Nat} {e : Nat → Nat → K} (ha : Is a r c e)
    {i0 j0 : Nat} (hi : i0 < r) (hj : j0 < c) (hf : ∃ err, f (e i0 j0) = .error err) :
    ∃ err, mapM1 f a = .error err := by
  simp only [mapM1, ha.rows, ha.cols]
  apply forM'_fails 0 r i0 _ _ (Nat.zero_le _) hi
  intro acc
  apply forM'_fails 0 c j0 _ _ (Nat.zero_le _) hj
  intro acc'
  obtain ⟨err, herr⟩ := hf
  exact ⟨err, by simp only [ha.get hi hj, herr, bind, Except.bind]⟩

/-- raw `swap_elem`: both flat offsets inside the buffer -/
theorem swapElem_raw {m : Mat K} {r c : Nat} {e : Nat → Nat → K} (h : Is m r c e)
    {i1 j1 i2 j2 : Nat} (hf1 : i1 * c + j1 < r * c) (hf2 : i2 * c + j2 < r * c) :
    ∃ m', swapElem m i1 j1 i2 j2 = .ok m' ∧
      Is m' r c (fun a b =>
        if a * c + b = i1 * c + j1 then e ((i2 * c + j2) / c) ((i2 * c + j2) % c)
        else if a * c + b = i2 * c + j2 then e ((i1 * c + j1) / c) ((i1 * c + j1) % c)
        else e a b) := by
  obtain ⟨s1, hs1, hI1⟩ := h.set_raw hf2 (e ((i1 * c + j1) / c) ((i1 * c + j1) % c))
  obtain ⟨s2, hs2, hI2⟩ := hI1.set_raw hf1 (e ((i2 * c + j2) / c) ((i2 * c + j2) % c))
  refine ⟨s2, ?_, hI2⟩
  simp only [swapElem, h.get_raw hf1, h.get_raw hf2, hs1, bind, Except.bind]
  exact hs2

theorem swapElem_raw_err {m : Mat K} {r c : Nat} {e : Nat → Nat → K} (h : Is m r c e)
    {i1 j1 i2 j2 : Nat} (hf : r * c ≤ i1 * c + j1 ∨ r * c ≤ i2 * c + j2) :
    swapElem m i1 j1 i2 j2 = .error .range := by
  by_cases hf1 : i1 * c + j1 < r * c
  · have hf2 : r * c ≤ i2 * c + j2 := by omega
    simp only [swapElem, h.get_raw hf1, get_raw_err h hf2, bind, Except.bind]
  · simp only [swapElem, get_raw_err h (Nat.le_of_not_lt hf1), bind, Except.bind]

end Generic

/-! ### the extended operation set -/

section Ops
variable [Add K] [Sub K] [Mul K] [Neg K] [Zero K] [One K] [BEq K] [ScalarExt K] [Transc K]

/-- `MatOp` (embedded by `old`) plus: the raw element write `m[(i,j)] = v`, `matrix / scalar`,
    `Matrix::eye(n)` (the state is replaced), `clear()`, the raw `swap_elem`, and the left scalar
    product `scalar * matrix` -/
inductive MatOp2 (K : Type) where
  | old (op : MatOp K)
  | set (i j : Nat) (v : K)
  | sdiv (q : K)
  | eye (n : Nat)
  | clear
  | swapElem (r1 c1 r2 c2 : Nat)
  | lsmul (s : K)

/-- what the model does for one operation -/
def MatOp2.apply : MatOp2 K → Mat K → Res (Mat K)
  | .old op, m => op.apply m
  | .set i j v, m => Mat.set m i j v
  | .sdiv q, m => Mat.sdiv m q
  | .eye n, _ => Mat.eye n
  | .clear, m => .ok (Mat.clear m)
  | .swapElem r1 c1 r2 c2, m => Mat.swapElem m r1 c1 r2 c2
  | .lsmul s, m => Mat.lsmul s m

/-- the model's state after a history of operations (the first panic aborts) -/
def run2 : List (MatOp2 K) → Mat K → Res (Mat K)
  | [], m => .ok m
  | op :: ops, m => do
    let m' ← op.apply m
    run2 ops m'

theorem run2_eq_foldlM (ops : List (MatOp2 K)) (m : Mat K) :
    run2 ops m = ops.foldlM (fun m op => op.apply m) m := by
  induction ops generalizing m with
  | nil => rfl
  | cons op ops ih =>
    simp only [run2, List.foldlM_cons, bind, Except.bind]
    cases op.apply m with
    | error e => rfl
    | ok m' => exact ih m'

/-- a history of old operations runs as before -/
theorem run2_old (ops : List (MatOp K)) (m : Mat K) : run2 (ops.map MatOp2.old) m = run ops m := by
  induction ops generalizing m with
  | nil => rfl
  | cons op ops ih =>
    simp only [List.map_cons, run2, run, MatOp2.apply, bind, Except.bind]
    cases op.apply m with
    | error e => rfl
    | ok m' => exact ih m'

open Classical in
/-- reference semantics of one operation on `(rows, cols, (i j) ↦ value)`; `none` = the call is
    rejected (panics).
    * `set i j v` (raw): only the flat offset `f = i*cols + j` is checked; the entry stored at `f`
      — `(a, b)` with `a*cols + b = f`, which is `(i, j)` itself when `j < cols` — becomes `v`;
    * `sdiv q`: every entry is divided by `q` with the scalar type's own (partial) division; the
      call is rejected iff the division is rejected on some entry;
    * `eye n`: the `n × n` identity, whatever the state;  `clear`: the `0 × 0` matrix;
    * `swapElem` (raw): both flat offsets must be inside the buffer; the two stored values are
      exchanged;  `lsmul s`: every entry is multiplied by `s` ON THE RIGHT (`matrix[(i,j)] * s`). -/
noncomputable def MatOp2.ref : MatOp2 K → Ref K → Option (Ref K)
  | .old op, s => op.ref s
  | .set i j v, s =>
    if i * s.cols + j < s.rows * s.cols then
      some ⟨s.rows, s.cols, fun a b => if a * s.cols + b = i * s.cols + j then v else s.entry a b⟩
    else none
  | .sdiv q, s =>
    if ∀ i j, i < s.rows → j < s.cols → ∃ y, ScalarExt.divM (s.entry i j) q = .ok y then
      some ⟨s.rows, s.cols, fun i j =>
        match ScalarExt.divM (s.entry i j) q with
        | .ok y => y
        | .error _ => 0⟩
    else none
  | .eye n, _ => some ⟨n, n, fun i j => if i = j then 1 else 0⟩
  | .clear, _ => some ⟨0, 0, fun _ _ => 0⟩
  | .swapElem r1 c1 r2 c2, s =>
    if r1 * s.cols + c1 < s.rows * s.cols ∧ r2 * s.cols + c2 < s.rows * s.cols then
      some ⟨s.rows, s.cols, fun a b =>
        if a * s.cols + b = r1 * s.cols + c1 then
          s.entry ((r2 * s.cols + c2) / s.cols) ((r2 * s.cols + c2) % s.cols)
        else if a * s.cols + b = r2 * s.cols + c2 then
          s.entry ((r1 * s.cols + c1) / s.cols) ((r1 * s.cols + c1) % s.cols)
        else s.entry a b⟩
    else none
  | .lsmul k, s => some ⟨s.rows, s.cols, fun i j => s.entry i j * k⟩

/-- reference state after a history -/
noncomputable def refRun2 : List (MatOp2 K) → Ref K → Option (Ref K)
  | [], s => some s
  | op :: ops, s => (op.ref s).bind (refRun2 ops)

/-- operand matrices of the (old) binary operations are well-formed -/
def MatOp2.Valid : MatOp2 K → Prop
  | .old op => op.Valid
  | _ => True

/-! the six new single-step refinement lemmas -/

theorem set_refines {m : Mat K} {s : Ref K} (h : Rel m s) (i j : Nat) (v : K) :
    Refines ((MatOp2.set i j v).apply m) ((MatOp2.set i j v).ref s) :=
  Refines.ite (fun hg => Is.set_raw h hg v)
    (fun hg => ⟨_, set_raw_err h (Nat.le_of_not_lt hg) v⟩)

theorem sdiv_refines {m : Mat K} {s : Ref K} (h : Rel m s) (q : K) :
    Refines ((MatOp2.sdiv q).apply m) ((MatOp2.sdiv q).ref s) := by
  simp only [MatOp2.apply, MatOp2.ref]
  by_cases hg : ∀ i j, i < s.rows → j < s.cols → ∃ y, ScalarExt.divM (s.entry i j) q = .ok y
  · rw [if_pos hg]
    refine sdiv_spec h q (fun x => match ScalarExt.divM x q with | .ok y => y | .error _ => 0) ?_
    intro i j hi hj
    obtain ⟨y, hy⟩ := hg i j hi hj
    simp only [hy]
  · rw [if_neg hg]
    have hg' : ∃ i j, i < s.rows ∧ j < s.cols ∧ ¬ ∃ y, ScalarExt.divM (s.entry i j) q = .ok y := by
      apply Classical.byContradiction
      intro hn
      apply hg
      intro i j hi hj
      apply Classical.byContradiction
      intro hne
      exact hn ⟨i, j, hi, hj, hne⟩
    obtain ⟨i, j, hi, hj, hne⟩ := hg'
    apply mapM1_fails (fun x => ScalarExt.divM x q) h hi hj
    cases hd : ScalarExt.divM (s.entry i j) q with
    | error err => exact ⟨err, rfl⟩
    | ok y => exact absurd ⟨y, hd⟩ hne

theorem eye_refines (m : Mat K) (s : Ref K) (n : Nat) :
    Refines ((MatOp2.eye n).apply m) ((MatOp2.eye (K := K) n).ref s) :=
  eye_spec n

theorem clear_refines (m : Mat K) (s : Ref K) :
    Refines (MatOp2.clear.apply m) ((MatOp2.clear (K := K)).ref s) :=
  ⟨Mat.empty, rfl, Is.of_empty _⟩

theorem swapElem_refines {m : Mat K} {s : Ref K} (h : Rel m s) (r1 c1 r2 c2 : Nat) :
    Refines ((MatOp2.swapElem r1 c1 r2 c2).apply m) ((MatOp2.swapElem (K := K) r1 c1 r2 c2).ref s) :=
  Refines.ite (fun hg => swapElem_raw h hg.1 hg.2)
    (fun hg => ⟨_, swapElem_raw_err h (by omega)⟩)

theorem lsmul_refines {m : Mat K} {s : Ref K} (h : Rel m s) (k : K) :
    Refines ((MatOp2.lsmul k).apply m) ((MatOp2.lsmul k).ref s) :=
  mapM1_spec (fun x => pure (x * k)) (fun x => x * k) h (fun _ _ _ _ => rfl)

/-- one operation of the extended set: the model refines the reference semantics -/
theorem step_refines2 (op : MatOp2 K) (hv : op.Valid) {m : Mat K} {s : Ref K} (h : Rel m s) :
    Refines (op.apply m) (op.ref s) := by
  cases op with
  | old op => exact step_refines op hv h
  | set i j v => exact set_refines h i j v
  | sdiv q => exact sdiv_refines h q
  | eye n => exact eye_refines m s n
  | clear => exact clear_refines m s
  | swapElem r1 c1 r2 c2 => exact swapElem_refines h r1 c1 r2 c2
  | lsmul k => exact lsmul_refines h k

/-- histories over the extended operation set -/
theorem run2_refines (ops : List (MatOp2 K)) (hv : ∀ op ∈ ops, op.Valid) {m : Mat K} {s : Ref K}
    (h : Rel m s) : Refines (run2 ops m) (refRun2 ops s) := by
  induction ops generalizing m s with
  | nil => exact ⟨m, rfl, h⟩
  | cons op ops ih =>
    have hstep := step_refines2 op (hv op (by simp)) h
    simp only [run2, refRun2]
    cases hop : op.ref s with
    | none =>
      rw [hop] at hstep
      obtain ⟨err, he⟩ := hstep
      exact ⟨err, by rw [he]; rfl⟩
    | some s1 =>
      rw [hop] at hstep
      obtain ⟨m1, hm1, hrel⟩ := hstep
      rw [hm1]
      exact ih (fun o ho => hv o (by simp [ho])) hrel

end Ops

end Mat
end Ohsl
