/-
  Ohsl.Lemmas.C02Q — the lemmas of Ohsl/Lemmas/C02P.lean (the permutation recorded by
  `Mat.luDecomp` and the exchange counter) for EVERY exact element type: `K` any field with any
  `ScalarExt K` / lawful `BEq K` satisfying `Alg.PivotLaws K` (Ohsl/Lemmas/Alg.lean), instead of a
  linearly ordered field with `Alg.scalarExt`.  No proof below uses an order on `K`: the only
  facts about the pivot search come from `luPivot_spec_det` (Ohsl/Lemmas/LUDet.lean), which is
  generic in `Alg.PivotLaws`.

  The definitions (`luPrefix`, `pivotChoice`, `exchangeAt`, `exchangeCount`, `pivotSwap`,
  `luPermUpTo`, `luPerm`, `permEntries`) are those of Ohsl/Lemmas/C02P.lean; they are structural
  (any `K`) and are reused as they are.
-/
import Ohsl.Lemmas.C02P
set_option linter.unusedSectionVars false
set_option linter.unusedVariables false
set_option linter.unusedSimpArgs false
namespace Ohsl
namespace Mat

section Ring
variable {K : Type} [Field K]

/-- as a Mathlib matrix, `permEntries σ` is the permutation matrix of `σ` (any field) -/
theorem toMat_permEntries_gen {n : Nat} (σ : Equiv.Perm (Fin n)) :
    toMat n (permEntries (K := K) σ) = σ.toPEquiv.toMatrix := by
  ext r c
  simp only [toMat, Matrix.of_apply, permEntries_apply σ r.isLt, PEquiv.toMatrix_apply,
    Equiv.toPEquiv_apply, Option.mem_def, Option.some.injEq]
  by_cases h : σ r = c
  · have : (σ ⟨r.val, r.isLt⟩).val = c.val := by rw [← h]
    simp [h, this]
  · have : ¬ (σ ⟨r.val, r.isLt⟩).val = c.val := fun e => h (Fin.ext e)
    simp [h, this]

/-- exchanging rows `i`, `p` of the permutation matrix of `σ` gives that of `σ * swap i p` -/
theorem swapFn_permEntries_gen {n : Nat} (σ : Equiv.Perm (Fin n)) {i p : Nat} (hi : i < n)
    (hp : p < n) {r : Nat} (hr : r < n) (c : Nat) :
    swapFn (permEntries (K := K) σ) i p r c
      = permEntries (K := K) (σ * Equiv.swap ⟨i, hi⟩ ⟨p, hp⟩) r c := by
  unfold swapFn
  by_cases e1 : r = i
  · subst e1
    have hv : (σ * Equiv.swap (⟨r, hi⟩ : Fin n) ⟨p, hp⟩) ⟨r, hr⟩ = σ ⟨p, hp⟩ := by simp
    rw [if_pos rfl, permEntries_apply _ hp, permEntries_apply _ hr]
    simp only [hv]
  · rw [if_neg e1]
    by_cases e2 : r = p
    · subst e2
      have hv : (σ * Equiv.swap (⟨i, hi⟩ : Fin n) ⟨r, hp⟩) ⟨r, hr⟩ = σ ⟨i, hi⟩ := by simp
      rw [if_pos rfl, permEntries_apply _ hi, permEntries_apply _ hr]
      simp only [hv]
    · have hv : (σ * Equiv.swap (⟨i, hi⟩ : Fin n) ⟨p, hp⟩) ⟨r, hr⟩ = σ ⟨r, hr⟩ := by
        rw [Equiv.Perm.mul_apply, Equiv.swap_apply_of_ne_of_ne (by simpa [Fin.ext_iff] using e1)
          (by simpa [Fin.ext_iff] using e2)]
      rw [if_neg e2, permEntries_apply _ hr, permEntries_apply _ hr]
      simp only [hv]

end Ring

section Gen
variable {K : Type} [Field K] [BEq K] [LawfulBEq K] [ScalarExt K] [DecidableEq K]
  [Alg.PivotLaws K]

/-- One step of `lu_decomp_in_place` with the result of the model's pivot search exposed:
    `luPivot` returns `(mx, imax)` with `imax ∈ [i, n)`; if `mx = 0` the state is unchanged,
    otherwise rows `i`, `imax` are exchanged in `lu` and `perm` (one more exchange counted iff
    `imax ≠ i`) and column `i` is eliminated. -/
theorem luStep_spec_piv_gen {s : LU K} {n : Nat} {w pe : Nat → Nat → K} (hw : Is s.lu n n w)
    (hpe : Is s.perm n n pe) {i : Nat} (hi : i < n) :
    ∃ mx imax s', luPivot s.lu i = .ok (mx, imax) ∧ luStep s i = .ok s' ∧ i ≤ imax ∧ imax < n ∧
      ((mx = 0 ∧ s' = s) ∨
       (mx ≠ 0 ∧ (∃ w', Is s'.lu n n w') ∧ Is s'.perm n n (swapFn pe i imax) ∧
          s'.pivots = s.pivots + (if imax = i then 0 else 1))) := by
  obtain ⟨mx, imax, hpv, h1, h2, h3, h4⟩ := luPivot_spec_det hw hi
  unfold luStep
  simp only [hpv, bind, Except.bind]
  by_cases h0 : mx = 0
  · have hb : (mx == 0) = true := by simpa using h0
    simp only [hb, if_true]
    exact ⟨mx, imax, s, rfl, rfl, h1, h2, Or.inl ⟨h0, rfl⟩⟩
  · have hb : (mx == 0) = false := by simpa using h0
    simp only [hb, Bool.false_eq_true, if_false]
    have hne := h4 h0
    by_cases himax : imax = i
    · subst himax
      simp only [ne_eq, not_true_eq_false, if_false, pure, Except.pure, hw.rows]
      obtain ⟨l, hl, hI⟩ := luElimCol_spec hw hi hne
      refine ⟨mx, imax, { s with lu := l }, rfl, by rw [hl], le_refl _, hi,
        Or.inr ⟨h0, ⟨_, hI⟩, ?_, by simp⟩⟩
      rw [swapFn_self]; exact hpe
    · obtain ⟨p', hp', hIp⟩ := swapRows_spec hpe hi h2
      obtain ⟨l', hl', hIl⟩ := swapRows_spec hw hi h2
      have hpiv : swapFn w i imax i i ≠ 0 := by simpa [swapFn] using hne
      obtain ⟨l, hl, hI⟩ := luElimCol_spec (w := swapFn w i imax) hIl hi hpiv
      simp only [ne_eq, himax, not_false_eq_true, if_true, hp', hl', pure, Except.pure, hIl.rows]
      exact ⟨mx, imax, { lu := l, perm := p', pivots := s.pivots + 1 }, rfl, by rw [hl], h1, h2,
        Or.inr ⟨h0, ⟨_, hI⟩, hIp, by simp [himax]⟩⟩

/-- **Invariant of `lu_decomp_in_place`, any exact element type**: after `k ≤ n` column steps on a
    well-formed square matrix the run has not failed, the recorded matrix is the permutation
    matrix of `luPermUpTo A n k` (the product of the transpositions chosen by the model's own
    pivot search), the counter equals the number of exchanges performed so far, and the sign of
    the permutation is `(-1)^pivots`. -/
theorem luPrefix_spec_gen {A : Mat K} {n : Nat} {a : Nat → Nat → K} (h : Is A n n a) :
    ∀ k, k ≤ n → ∃ s w, luPrefix A k = .ok s ∧ Is s.lu n n w ∧
      Is s.perm n n (permEntries (luPermUpTo A n k)) ∧ s.pivots = exchangeCount A k ∧
      Equiv.Perm.sign (luPermUpTo A n k) = (-1) ^ s.pivots
  | 0, _ => by
    obtain ⟨p0, hp0, hI0⟩ := eye_spec (K := K) n
    refine ⟨{ lu := A, perm := p0, pivots := 0 }, a, ?_, h, ?_, rfl, ?_⟩
    · simp only [luPrefix, h.rows, hp0, bind, Except.bind]
      exact forM'_empty 0 0 _ _ (Nat.le_refl _)
    · exact hI0.congr (fun r c hr _ => (permEntries_one hr).symm)
    · simp [luPermUpTo]
  | k + 1, hk => by
    have hkn : k < n := by omega
    obtain ⟨s, w, hs, hw, hpe, hcnt, hsign⟩ := luPrefix_spec_gen h k (by omega)
    obtain ⟨mx, imax, s', hpv, hstep, h1, h2, hcase⟩ := luStep_spec_piv_gen hw hpe hkn
    have hchoice : pivotChoice A k = if mx == 0 then none else some imax := by
      simp only [pivotChoice, hs, hpv]
    rw [luPrefix_succ, hs]
    simp only [bind, Except.bind, hstep]
    rcases hcase with ⟨h0, rfl⟩ | ⟨h0, ⟨w', hw'⟩, hp', hpiv⟩
    · -- skipped step: nothing changes, no exchange is counted
      have hb : (mx == 0) = true := by simpa using h0
      have hc : pivotChoice A k = none := by rw [hchoice, hb]; rfl
      have hex : exchangeAt A k = false := by simp only [exchangeAt, hc]
      have hsw : pivotSwap A n k = 1 := by simp only [pivotSwap, hc]
      refine ⟨s', w, rfl, hw, ?_, ?_, ?_⟩
      · simp only [luPermUpTo, hsw, mul_one]; exact hpe
      · rw [exchangeCount_succ, hex, hcnt]; simp
      · simp only [luPermUpTo, hsw, mul_one]; exact hsign
    · have hb : (mx == 0) = false := by simpa using h0
      have hc : pivotChoice A k = some imax := by rw [hchoice, hb]; rfl
      have hex : exchangeAt A k = (imax != k) := by simp only [exchangeAt, hc]
      have hsw : pivotSwap A n k = Equiv.swap ⟨k, hkn⟩ ⟨imax, h2⟩ := by
        have : k < n ∧ imax < n := ⟨hkn, h2⟩
        simp only [pivotSwap, hc, this, and_self, dite_true]
      have hcnt' : s'.pivots = exchangeCount A (k + 1) := by
        rw [exchangeCount_succ, hex, hpiv, hcnt]
        by_cases e : imax = k <;> simp [e]
      refine ⟨s', w', rfl, hw', ?_, hcnt', ?_⟩
      · simp only [luPermUpTo, hsw]
        exact hp'.congr (fun r c hr _ => swapFn_permEntries_gen _ hkn h2 hr c)
      · simp only [luPermUpTo, hsw, Equiv.Perm.sign_mul, hsign, hpiv]
        by_cases e : imax = k
        · subst e
          simp
        · have hne : (⟨k, hkn⟩ : Fin n) ≠ ⟨imax, h2⟩ := by
            intro h'; exact e (Fin.mk.injEq _ _ _ _ ▸ h').symm
          rw [Equiv.Perm.sign_swap hne]
          simp [e, pow_succ]

/-- the pivot row chosen at a step `k < n` lies in `[k, n)` -/
theorem pivotChoice_range_gen {A : Mat K} {n : Nat} {a : Nat → Nat → K} (h : Is A n n a)
    {k p : Nat} (hk : k < n) (hp : pivotChoice A k = some p) : k ≤ p ∧ p < n := by
  obtain ⟨s, w, hs, hw, hpe, _, _⟩ := luPrefix_spec_gen h k (by omega)
  obtain ⟨mx, imax, s', hpv, _, h1, h2, _⟩ := luStep_spec_piv_gen hw hpe hk
  simp only [pivotChoice, hs, hpv] at hp
  by_cases hb : (mx == 0) = true
  · rw [if_pos hb] at hp; cases hp
  · rw [if_neg hb] at hp; cases hp; exact ⟨h1, h2⟩

end Gen

end Mat
end Ohsl
