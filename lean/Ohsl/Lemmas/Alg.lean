/-
  Ohsl.Lemmas.Alg — the algebraic interpretation of the scalar classes (DESIGN §2.1):
  over a linearly ordered field, `divM` is division guarded by an exact zero test,
  `lt` is `<` and `mag` is `|·|` written as the code writes it.
-/
import Ohsl.Model.Basic
import Mathlib.Algebra.Order.Field.Basic
import Mathlib.Tactic.Ring
import Mathlib.Tactic.FieldSimp
import Mathlib.Tactic.Linarith

namespace Ohsl.Alg

/-- Exact interpretation: `/` panics on an exact zero divisor, as the rational type of the
    harness does; otherwise it is field division. -/
@[reducible] def scalarExt (K : Type) [Field K] [LinearOrder K] : ScalarExt K where
  divM a b := if b = 0 then .error .arith else .ok (a / b)
  lt a b := decide (a < b)
  mag a := if a < 0 then -a else a

/-- Interpretation for fields without an order (ℂ-like): only `divM` is meaningful. -/
@[reducible] def scalarExtField (K : Type) [Field K] [DecidableEq K] : ScalarExt K where
  divM a b := if b = 0 then .error .arith else .ok (a / b)
  lt _ _ := false
  mag a := a

section
variable {K : Type} [Field K] [LinearOrder K]
attribute [local instance] scalarExt

@[simp] theorem divM_eq (a b : K) : divM a b = if b = 0 then .error .arith else .ok (a / b) := rfl
theorem divM_ne {a b : K} (h : b ≠ 0) : divM a b = .ok (a / b) := by simp [h]
theorem divM_zero (a : K) : divM a (0 : K) = .error .arith := by simp
@[simp] theorem lt_eq (a b : K) : ScalarExt.lt a b = decide (a < b) := rfl
@[simp] theorem mag_eq (a : K) : ScalarExt.mag a = if a < 0 then -a else a := rfl
theorem mag_eq_abs [IsStrictOrderedRing K] (a : K) : ScalarExt.mag a = |a| := by
  simp only [mag_eq]
  split
  · rename_i h; exact (abs_of_neg h).symm
  · rename_i h; exact (abs_of_nonneg (not_lt.mp h)).symm
end

/-! ### the laws the class-(E) development actually uses

The proofs about the dense direct solvers never look at the order of `K` itself: they use that
`divM` is the field division guarded by an exact zero test (`DivLaw`), and — for partial pivoting —
that the comparison `lt (mag a) (mag b)` the code performs is the comparison of a "size" taken in
some linear order whose least value is attained exactly at `0` (`PivotLaws`).  A linearly ordered
field with `Alg.scalarExt` is one instance (size `|·|`); the model's complex numbers `Cx ℝ` with
`Cx.instScalarExt` are another (size = modulus), see `Ohsl/Lemmas/CxField.lean`. -/

/-- `divM` is the field division, failing (class `arith`) exactly on a zero divisor -/
class DivLaw (K : Type) [Field K] [ScalarExt K] : Prop where
  divM_zero : ∀ a : K, ScalarExt.divM a 0 = .error .arith
  divM_ne : ∀ a b : K, b ≠ 0 → ScalarExt.divM a b = .ok (a / b)

/-- the magnitude comparison used by partial pivoting is the comparison of a `size` in a linear
    order `S`; the search starts from `0 = mag 0`, whose size is least and is attained only at `0` -/
class PivotLaws (K : Type) [Field K] [ScalarExt K] extends DivLaw K where
  /-- the linearly ordered type the sizes live in -/
  S : Type
  [ord : LinearOrder S]
  /-- the size the pivot search maximises -/
  size : K → S
  lt_mag : ∀ a b : K,
    ScalarExt.lt (ScalarExt.mag a) (ScalarExt.mag b) = decide (size a < size b)
  mag_zero : ScalarExt.mag (0 : K) = 0
  size_zero_le : ∀ a : K, size 0 ≤ size a
  eq_zero_of_size : ∀ a : K, size a = size 0 → a = 0

attribute [instance_reducible, instance] PivotLaws.ord

section Laws
variable {K : Type} [Field K] [ScalarExt K]

/-- the class form of `divM_eq` (for whatever decidability instance the context provides) -/
theorem divM_law [DivLaw K] (a b : K) [Decidable (b = 0)] :
    divM a b = if b = 0 then .error .arith else .ok (a / b) := by
  split
  · rename_i h; rw [h]; exact DivLaw.divM_zero a
  · rename_i h; exact DivLaw.divM_ne a b h

theorem divM_law_ne [DivLaw K] {a b : K} (h : b ≠ 0) : divM a b = .ok (a / b) :=
  DivLaw.divM_ne a b h

theorem divM_law_zero [DivLaw K] (a : K) : divM a (0 : K) = .error .arith :=
  DivLaw.divM_zero a

variable [PivotLaws K]

/-- the comparison against the initial maximum `0` -/
theorem lt_zero_mag (b : K) :
    ScalarExt.lt (0 : K) (ScalarExt.mag b) = decide (PivotLaws.size (0 : K) < PivotLaws.size b) := by
  have := PivotLaws.lt_mag (0 : K) b
  rwa [PivotLaws.mag_zero] at this

theorem size_eq_zero_iff (a : K) : PivotLaws.size a = PivotLaws.size (0 : K) ↔ a = 0 :=
  ⟨PivotLaws.eq_zero_of_size a, fun h => by rw [h]⟩

theorem size_le_zero_iff (a : K) : PivotLaws.size a ≤ PivotLaws.size (0 : K) ↔ a = 0 :=
  ⟨fun h => PivotLaws.eq_zero_of_size a (le_antisymm h (PivotLaws.size_zero_le a)),
   fun h => by rw [h]⟩

/-- a magnitude is `0` exactly for the scalar `0` -/
theorem mag_eq_zero_iff (a : K) : ScalarExt.mag a = 0 ↔ a = 0 := by
  constructor
  · intro h
    have h1 := PivotLaws.lt_mag a a
    have h2 := PivotLaws.lt_mag (0 : K) a
    have e : ScalarExt.mag (0 : K) = ScalarExt.mag a := by rw [PivotLaws.mag_zero, h]
    rw [e, h1] at h2
    have h3 : ¬ PivotLaws.size (0 : K) < PivotLaws.size a := by
      intro hlt
      have : decide (PivotLaws.size a < PivotLaws.size a) = true := by
        rw [h2]; exact decide_eq_true hlt
      exact lt_irrefl _ (of_decide_eq_true this)
    exact (size_le_zero_iff a).1 (not_lt.1 h3)
  · intro h; rw [h]; exact PivotLaws.mag_zero

end Laws

/-! ### the ordered-field interpretation satisfies the laws -/
section
variable {K : Type} [Field K] [LinearOrder K]
attribute [local instance] scalarExt

instance divLaw : DivLaw K where
  divM_zero a := by simp
  divM_ne a b h := by simp [h]

instance pivotLaws [IsStrictOrderedRing K] : PivotLaws K where
  S := K
  size a := |a|
  lt_mag a b := by rw [mag_eq_abs, mag_eq_abs]; rfl
  mag_zero := by simp
  size_zero_le a := by simp
  eq_zero_of_size a h := by simpa using h
end

end Ohsl.Alg
