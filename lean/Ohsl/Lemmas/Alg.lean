/-
  Ohsl.Lemmas.Alg — the algebraic interpretation of the scalar classes (DESIGN §2.1):
  over a linearly ordered field, `divM` is division guarded by an exact zero test,
  `lt` is `<` and `mag` is `|·|` written as the code writes it.
-/
import Ohsl.Model.Basic
import Mathlib.Algebra.Order.Field.Basic
import Mathlib.Tactic.Ring
import Mathlib.Tactic.FieldSimp
import Mathlib.Tactic.Linarith

namespace Ohsl.Alg

/-- Exact interpretation: `/` panics on an exact zero divisor, as the rational type of the
    harness does; otherwise it is field division. -/
@[reducible] def scalarExt (K : Type) [Field K] [LinearOrder K] : ScalarExt K where
  divM a b := if b = 0 then .error .arith else .ok (a / b)
  lt a b := decide (a < b)
  mag a := if a < 0 then -a else a

/-- Interpretation for fields without an order (ℂ-like): only `divM` is meaningful. -/
@[reducible] def scalarExtField (K : Type) [Field K] [DecidableEq K] : ScalarExt K where
  divM a b := if b = 0 then .error .arith else .ok (a / b)
  lt _ _ := false
  mag a := a

section
variable {K : Type} [Field K] [LinearOrder K]
attribute [local instance] scalarExt

@[simp] theorem divM_eq (a b : K) : divM a b = if b = 0 then .error .arith else .ok (a / b) := rfl
theorem divM_ne {a b : K} (h : b ≠ 0) : divM a b = .ok (a / b) := by simp [h]
theorem divM_zero (a : K) : divM a (0 : K) = .error .arith := by simp
@[simp] theorem lt_eq (a b : K) : ScalarExt.lt a b = decide (a < b) := rfl
@[simp] theorem mag_eq (a : K) : ScalarExt.mag a = if a < 0 then -a else a := rfl
theorem mag_eq_abs [IsStrictOrderedRing K] (a : K) : ScalarExt.mag a = |a| := by
  simp only [mag_eq]
  split
  · rename_i h; exact (abs_of_neg h).symm
  · rename_i h; exact (abs_of_nonneg (not_lt.mp h)).symm
end

end Ohsl.Alg
