/-
  Ohsl.Lemmas.PolyAlg — the bridge between the coefficient-array model of polynomials
  (`Ohsl/Model/Poly.lean`) and Mathlib's `Polynomial K`:
  `toPoly cs = Σ_i C cs[i] * X^i`, its coefficient function, injectivity at fixed size, the
  cons/Horner decomposition, and the pointwise description of the convolution folds of `Poly.mul`.
-/
import Ohsl.Model.Poly
import Mathlib.Algebra.Polynomial.Derivative
import Mathlib.Algebra.Polynomial.Coeff
import Mathlib.Algebra.Polynomial.Eval.Defs
set_option linter.unusedSectionVars false
set_option linter.unusedVariables false
namespace Ohsl.PolyAlg
open Ohsl Ohsl.Poly Polynomial

variable {K : Type} [Semiring K]

/-- the Mathlib polynomial denoted by a coefficient array (lowest degree first) -/
noncomputable def toPoly (cs : Array K) : Polynomial K :=
  ∑ i ∈ Finset.range cs.size, C (cs[i]?.getD 0) * X ^ i

/-- coefficient `k` of `toPoly cs` is `cs[k]` (zero beyond the end) -/
theorem coeff_toPoly (cs : Array K) (k : Nat) : (toPoly cs).coeff k = cs[k]?.getD 0 := by
  unfold toPoly
  rw [Polynomial.finsetSum_coeff]
  simp only [coeff_C_mul_X_pow]
  rw [Finset.sum_ite_eq]
  by_cases h : k < cs.size
  · simp [h]
  · simp [h]

@[simp] theorem toPoly_empty : toPoly (#[] : Array K) = 0 := by simp [toPoly]

theorem toPoly_eq_of_size_zero {p : Array K} (h : p.size = 0) : toPoly p = 0 := by
  have : p = #[] := Array.eq_empty_of_size_eq_zero h
  subst this; simp

/-- at a fixed size, `toPoly` is injective -/
theorem toPoly_inj {a b : Array K} (hs : a.size = b.size) (h : toPoly a = toPoly b) : a = b := by
  apply Array.ext hs
  intro i h1 h2
  have := congrArg (fun f => f.coeff i) h
  simp only [coeff_toPoly] at this
  simpa [h1, h2] using this

theorem toPoly_cons (c : K) (l : List K) :
    toPoly (c :: l).toArray = C c + toPoly l.toArray * X := by
  ext k
  rw [coeff_add, coeff_toPoly]
  cases k with
  | zero => simp
  | succ k => rw [coeff_mul_X, coeff_toPoly, coeff_C_succ]; simp

/-- Horner's rule from the leading coefficient down -/
theorem horner_list (x : K) (l : List K) (lead : K) :
    l.foldr (fun c acc => acc * x + c) lead = (toPoly (l ++ [lead]).toArray).eval x := by
  induction l with
  | nil =>
    have : toPoly ([lead].toArray) = C lead := by
      ext k; rw [coeff_toPoly]; cases k <;> simp [coeff_C]
    simp [this]
  | cons c l ih =>
    simp only [List.foldr_cons, List.cons_append]
    rw [toPoly_cons, ih, eval_add, eval_mul_X, eval_C, add_comm]

/-! ### sizes and empty operands (minimal class assumptions) -/

theorem ne_empty_iff {p : Array K} : p ≠ #[] ↔ p.size ≠ 0 := by
  constructor
  · intro h hs; exact h (Array.eq_empty_of_size_eq_zero hs)
  · intro h e; subst e; simp at h

theorem size_add (p q : Array K) (hp : p.size ≠ 0) (hq : q.size ≠ 0) :
    (add p q).size = max p.size q.size := by simp [add, hp, hq]
theorem add_nil_left (q : Array K) : add (#[] : Array K) q = q := by simp [add]
theorem add_nil_right (p : Array K) : add p (#[] : Array K) = p := by
  unfold add
  by_cases h : p.size = 0
  · have : p = #[] := Array.eq_empty_of_size_eq_zero h
    simp [this]
  · simp [h]
theorem mul_nil_left (p : Array K) : mul (#[] : Array K) p = #[] := by simp [mul]
theorem mul_nil_right (p : Array K) : mul p (#[] : Array K) = #[] := by
  unfold mul; by_cases h : p.size = 0 <;> simp [h]
theorem size_smul (p : Array K) (t : K) : (smul p t).size = p.size := by simp [smul]

/-! ### the convolution folds of `Poly.mul` -/

/-- inner loop of `mul`: adds `a * q[j]` to slot `i + j` for `j < n` -/
theorem inner_fold (a : K) (q : Array K) (i n : Nat) (acc : Array K) :
    let r := (List.range n).foldl (fun acc j =>
      acc.modify (i + j) (fun c => c + a * (q[j]?.getD 0))) acc
    r.size = acc.size ∧ ∀ m, m < acc.size →
      r[m]?.getD 0 = acc[m]?.getD 0 +
        ∑ j ∈ Finset.range n, if m = i + j then a * (q[j]?.getD 0) else 0 := by
  induction n with
  | zero => simp
  | succ n ih =>
    intro r
    obtain ⟨ih1, ih2⟩ := ih
    have hr : r = ((List.range n).foldl (fun acc j =>
        acc.modify (i + j) (fun c => c + a * (q[j]?.getD 0))) acc).modify (i + n)
          (fun c => c + a * (q[n]?.getD 0)) := by
      simp [r, List.range_succ, List.foldl_append]
    refine ⟨by rw [hr, Array.size_modify]; exact ih1, ?_⟩
    intro m hm
    rw [hr, Array.getElem?_modify, Finset.sum_range_succ, ← add_assoc, ← ih2 m hm]
    have hm' : m < ((List.range n).foldl (fun acc j =>
        acc.modify (i + j) (fun c => c + a * (q[j]?.getD 0))) acc).size := by
      rw [ih1]; exact hm
    by_cases h : i + n = m
    · subst h
      simp [Array.getElem?_eq_getElem hm']
    · have h' : ¬ m = i + n := fun e => h e.symm
      simp [h, h']

/-- outer loop of `mul` -/
theorem outer_fold (p q : Array K) (n : Nat) (acc : Array K) :
    let r := (List.range n).foldl (fun acc i =>
      (List.range q.size).foldl (fun acc j =>
        acc.modify (i + j) (fun c => c + (p[i]?.getD 0) * (q[j]?.getD 0))) acc) acc
    r.size = acc.size ∧ ∀ m, m < acc.size →
      r[m]?.getD 0 = acc[m]?.getD 0 +
        ∑ i ∈ Finset.range n, ∑ j ∈ Finset.range q.size,
          if m = i + j then (p[i]?.getD 0) * (q[j]?.getD 0) else 0 := by
  induction n with
  | zero => simp
  | succ n ih =>
    intro r
    obtain ⟨ih1, ih2⟩ := ih
    obtain ⟨s1, s2⟩ := inner_fold (p[n]?.getD 0) q n q.size ((List.range n).foldl (fun acc i =>
      (List.range q.size).foldl (fun acc j =>
        acc.modify (i + j) (fun c => c + (p[i]?.getD 0) * (q[j]?.getD 0))) acc) acc)
    have hr : r = (List.range q.size).foldl (fun acc j =>
        acc.modify (n + j) (fun c => c + (p[n]?.getD 0) * (q[j]?.getD 0)))
        ((List.range n).foldl (fun acc i =>
          (List.range q.size).foldl (fun acc j =>
          acc.modify (i + j) (fun c => c + (p[i]?.getD 0) * (q[j]?.getD 0))) acc) acc) := by
      simp [r, List.range_succ, List.foldl_append]
    refine ⟨by rw [hr, s1]; exact ih1, ?_⟩
    intro m hm
    rw [hr, s2 m (by rw [ih1]; exact hm), ih2 m hm, Finset.sum_range_succ, add_assoc]

/-- coefficient `m` of the model product is the convolution sum (for `m` inside the array) -/
theorem mul_coeff (p q : Array K) (hp : p.size ≠ 0) (hq : q.size ≠ 0) :
    (mul p q).size = p.size + q.size - 1 ∧ ∀ m, m < p.size + q.size - 1 →
      (mul p q)[m]?.getD 0 = ∑ i ∈ Finset.range p.size, ∑ j ∈ Finset.range q.size,
          if m = i + j then (p[i]?.getD 0) * (q[j]?.getD 0) else 0 := by
  obtain ⟨s1, s2⟩ := outer_fold p q p.size (Array.replicate (p.size + q.size - 1) (0 : K))
  have hm : mul p q = (List.range p.size).foldl (fun acc i =>
      (List.range q.size).foldl (fun acc j =>
        acc.modify (i + j) (fun c => c + (p[i]?.getD 0) * (q[j]?.getD 0))) acc)
      (Array.replicate (p.size + q.size - 1) (0 : K)) := by
    simp [mul, hp, hq]
  refine ⟨by rw [hm, s1]; simp, ?_⟩
  intro m h
  rw [hm, s2 m (by simpa using h)]
  simp [h]

end Ohsl.PolyAlg
