/-
  Ohsl.Lemmas.BandDet — the determinant of the banded-matrix model (`Band.det`, i.e. the compact LU
  `bandec` with row exchanges by magnitude followed by the product of the pivots and the sign) equals
  `Matrix.det` of the dense twin.

  Class (E): `F` a field whose scalar interpretation satisfies `Alg.PivotLaws` (guarded field
  division, magnitude comparison = comparison of a size in a linear order); linearly ordered
  fields with `Ohsl.Alg.scalarExt` and the model's `Cx ℝ` are instances.

  * `pivotLoop_max`      the pivot search returns a row of maximal magnitude: a zero pivot means that
                         the whole column is zero inside the window
  * `decStep_spec_max`   `decStep_spec` of BandSpec together with that maximality fact
  * `twin_elim'`         the elimination of one column on the dense twin (`twin_elim` of BandSpec
                         without the non-zero-pivot hypothesis: a zero pivot only shifts the rows)
  * `det_elim`, `det_swapR`, `det_twin_final`   row additions keep `Matrix.det`, an exchange negates
                         it, the final twin is upper triangular
  * `DetInv`, `decStep_detInv`, `decompose_detInv`   invariant of the pivot loop:
                         `d * det (twin of the working storage) = det (dense b)`
  * `det_eq_det`         `Band.det b = .ok (det (dense b))` for every well-formed `b` with `m1 ≤ n`
-/
import Ohsl.Lemmas.BandSpec
import Ohsl.Lemmas.LUDet
import Mathlib.LinearAlgebra.Matrix.Determinant.Basic
import Mathlib.LinearAlgebra.Matrix.Block
import Mathlib.Algebra.Order.Ring.Abs
set_option linter.unusedSectionVars false
set_option linter.unusedVariables false
set_option linter.unusedSimpArgs false
namespace Ohsl
namespace Band
open Mat (forM' Is forM'_inv aget_ok aset_ok aget_eq_ok toMat)

section BandDet
variable {F : Type} [Field F] [DecidableEq F] [BEq F] [LawfulBEq F] [ScalarExt F]
  [Alg.PivotLaws F]

/-! ### the pivot search picks a row of maximal magnitude -/

/-- the pivot search returns a row `ip` of the window `[k, l)` together with its first slot, and
    that slot has maximal magnitude: if it is zero, the first slot of every row of the window is -/
theorem pivotLoop_max {au : Mat F} {n mm : Nat} {e : Nat → Nat → F} (hau : Is au n mm e)
    {k l : Nat} (hkl : k + 1 ≤ l) (hln : l ≤ n) (hmm : 0 < mm) :
    ∃ ip, k ≤ ip ∧ ip < l ∧ (e ip 0 = 0 → ∀ j, k ≤ j → j < l → e j 0 = 0) ∧
      forM' (k + 1) l (e k 0, k) (fun (dum, i) j => do
        let x ← au.get j 0
        if ScalarExt.lt (ScalarExt.mag dum) (ScalarExt.mag x) then pure (x, j) else pure (dum, i))
        = .ok (e ip 0, ip) := by
  suffices key : ∃ st, forM' (k + 1) l (e k 0, k) (fun (dum, i) j => do
        let x ← au.get j 0
        if ScalarExt.lt (ScalarExt.mag dum) (ScalarExt.mag x) then pure (x, j) else pure (dum, i))
        = .ok st ∧ st.1 = e st.2 0 ∧ k ≤ st.2 ∧ st.2 < l ∧
          ∀ j, k ≤ j → j < l → Alg.PivotLaws.size (e j 0) ≤ Alg.PivotLaws.size st.1 by
    obtain ⟨⟨d, ip⟩, h1, h2, h3, h4, h5⟩ := key
    simp only at h2 h3 h4 h5
    refine ⟨ip, h3, h4, ?_, by rw [h1, h2]⟩
    intro hz j hj1 hj2
    have := h5 j hj1 hj2
    rw [h2, hz] at this
    exact (Alg.size_le_zero_iff _).1 this
  refine forM'_inv (fun t (st : F × Nat) => st.1 = e st.2 0 ∧ k ≤ st.2 ∧ st.2 < t ∧
      ∀ j, k ≤ j → j < t → Alg.PivotLaws.size (e j 0) ≤ Alg.PivotLaws.size st.1) (k + 1) l
    (e k 0, k) _ hkl ⟨rfl, Nat.le_refl _, by simp, ?_⟩ ?_
  · intro j hj1 hj2
    have : j = k := by omega
    subst this; exact le_refl _
  intro t st ht1 ht2 ⟨h1, h2, h3, h4⟩
  obtain ⟨d, ip⟩ := st
  simp only at h1 h2 h3 h4
  have g := hau.get (show t < n by omega) hmm
  simp only [g, bind, Except.bind, Alg.PivotLaws.lt_mag]
  by_cases hlt : Alg.PivotLaws.size d < Alg.PivotLaws.size (e t 0)
  · refine ⟨(e t 0, t), by simp [hlt, pure, Except.pure], rfl, by simp only; omega,
      by simp only; omega, ?_⟩
    intro j hj1 hj2
    simp only
    by_cases hjt : j = t
    · subst hjt; exact le_refl _
    · exact le_of_lt (lt_of_le_of_lt (h4 j hj1 (by omega)) hlt)
  · refine ⟨(d, ip), by simp [hlt, pure, Except.pure], h1, h2, by simp only; omega, ?_⟩
    intro j hj1 hj2
    simp only
    by_cases hjt : j = t
    · subst hjt; exact not_lt.mp hlt
    · exact h4 j hj1 (by omega)

/-- `decStep_spec` (BandSpec) with the maximality of the chosen pivot -/
theorem decStep_spec_max {s : Dec F} {n mm m1 l k : Nat} {e ea : Nat → Nat → F}
    (hau : Is s.au n mm e) (hal : Is s.al n m1 ea) (hidx : s.index.size = n) (hk : k < n)
    (hmm : 0 < mm) (hl : l = min (m1 + k) n) :
    ∃ ip au' al', k ≤ ip ∧ ip < min (m1 + k + 1) n ∧
      (e ip 0 = 0 → ∀ j, k ≤ j → j < min (m1 + k + 1) n → e j 0 = 0) ∧
      decStep n mm (s, l) k = .ok (⟨au', al', s.index.setIfInBounds k (ip + 1),
        if ip ≠ k then -s.d else s.d⟩, min (m1 + k + 1) n) ∧
      Is au' n mm (elimE mm (swapR (zeroFix e k ip) k ip) k (min (m1 + k + 1) n)) ∧
      Is al' n m1 (elimA (swapR (zeroFix e k ip) k ip) ea k (min (m1 + k + 1) n)) := by
  have hl' : (if l < n then l + 1 else l) = min (m1 + k + 1) n := by split <;> omega
  have g0 := hau.get hk hmm
  obtain ⟨ip, hip1, hip2, hmax, hpiv⟩ := pivotLoop_max hau (k := k) (l := min (m1 + k + 1) n)
    (by omega) (by omega) hmm
  have hipn : ip < n := by omega
  have hb : ((e ip 0 == 0) = true) = (e ip 0 = 0) := propext beq_iff_eq
  -- zero fix
  obtain ⟨au0, h0, hI0⟩ : ∃ au0, (if (e ip 0 == 0) = true then s.au.set k 0 0 else pure s.au)
      = .ok au0 ∧ Is au0 n mm (zeroFix e k ip) := by
    by_cases hz : e ip 0 = 0
    · obtain ⟨v, hv, hI⟩ := hau.set hk hmm (0 : F)
      refine ⟨v, by rw [if_pos (by rw [hb]; exact hz), hv], hI.congr (fun a b _ _ => ?_)⟩
      unfold zeroFix; simp [hz]
    · refine ⟨s.au, by rw [if_neg (by rw [hb]; exact hz)]; rfl, hau.congr (fun a b _ _ => ?_)⟩
      unfold zeroFix; simp [hz]
  -- exchange
  obtain ⟨au1, h1, hI1⟩ := swapLoop_spec hI0 hk hipn
  have hI1' : ∃ au1', (if ip ≠ k then (do
        let au ← forM' 0 mm au0 (fun au j => Mat.swapElem au k j ip j)
        pure (au, -s.d)) else pure (au0, s.d)) = .ok (au1', if ip ≠ k then -s.d else s.d) ∧
      Is au1' n mm (swapR (zeroFix e k ip) k ip) := by
    by_cases hik : ip = k
    · refine ⟨au0, by simp [hik, pure, Except.pure], hI0.congr (fun a b _ _ => ?_)⟩
      unfold swapR; subst hik
      by_cases ha : a = ip
      · subst ha; simp
      · simp [ha]
    · refine ⟨au1, by simp [hik, h1, bind, Except.bind, pure, Except.pure], hI1⟩
  obtain ⟨au1', h1', hI1''⟩ := hI1'
  obtain ⟨st, h2, hI2, hI3⟩ := elimLoop_spec hI1'' hal hk (l := min (m1 + k + 1) n) (by omega)
    (by omega) (by omega) hmm
  obtain ⟨au2, al2⟩ := st
  refine ⟨ip, au2, al2, hip1, hip2, hmax, ?_, hI2, hI3⟩
  unfold decStep
  simp only [bind, Except.bind, pure, Except.pure] at hpiv h0 h1' ⊢
  simp only [g0, hl', hpiv, aset_ok _ (show k < s.index.size by omega)]
  by_cases hz : (e ip 0 == 0) = true
  · rw [if_pos hz] at h0
    by_cases hik : ip ≠ k
    · simp only [if_pos hik, h1] at h1'
      injection h1' with h1'; injection h1' with h1' _; subst h1'
      simp only [if_pos hz, if_pos hik, h0, h1, h2]
    · simp only [if_neg hik] at h1'
      injection h1' with h1'; injection h1' with h1' _; subst h1'
      simp only [if_pos hz, if_neg hik, h0, h2]
  · rw [if_neg hz] at h0
    injection h0 with h0; subst h0
    by_cases hik : ip ≠ k
    · simp only [if_pos hik, h1] at h1'
      injection h1' with h1'; injection h1' with h1' _; subst h1'
      simp only [if_neg hz, if_pos hik, h1, h2]
    · simp only [if_neg hik] at h1'
      injection h1' with h1'; injection h1' with h1' _; subst h1'
      simp only [if_neg hz, if_neg hik, h2]

/-- with a pivot of maximal magnitude the zero fix does nothing over a field -/
theorem zeroFix_of_max {e : Nat → Nat → F} {k ip : Nat} (h : e ip 0 = 0 → e k 0 = 0) :
    zeroFix e k ip = e := by
  funext a b
  unfold zeroFix
  by_cases hc : e ip 0 = 0 ∧ a = k ∧ b = 0
  · obtain ⟨h1, rfl, rfl⟩ := hc
    rw [if_pos ⟨h1, rfl, rfl⟩, h h1]
  · rw [if_neg hc]

/-! ### the elimination of one column on the dense twin, zero pivot included -/

/-- `twin_elim` of BandSpec without the non-zero-pivot hypothesis: if the pivot is zero the whole
    column is zero in the window, every multiplier is zero, and the rows are only shifted -/
theorem twin_elim' {m1 mm k l : Nat} (e : Nat → Nat → F) (hk : k < l)
    (hz : e k 0 = 0 → ∀ a, k < a → a < l → e a 0 = 0) (a c : Nat) :
    twin m1 mm (k + 1) l (elimE mm e k l) a c =
      if k < a ∧ a < l then twin m1 mm k l e a c - mult e k a * twin m1 mm k l e k c
      else twin m1 mm k l e a c := by
  by_cases hp : e k 0 = 0
  swap
  · exact twin_elim e hk hp a c
  have o1 : off m1 k l k = k := by unfold off; ifs_omega
  by_cases hw : k < a ∧ a < l
  · have o2 : off m1 (k + 1) l a = k + 1 := by unfold off; ifs_omega
    have o3 : off m1 k l a = k := by unfold off; ifs_omega
    have hm : mult e k a = 0 := by unfold mult; rw [if_pos hp]
    have ha0 : e a 0 = 0 := hz hp a hw.1 hw.2
    rw [if_pos hw]
    simp only [twin, o1, o2, o3, elimE, hw, and_self, if_true, hm, zero_mul, sub_zero]
    by_cases h1 : c < k
    · rw [if_neg (by omega), if_neg (by omega)]
    · by_cases h2 : c = k
      · subst h2
        rw [if_neg (by omega)]
        by_cases hmm : 0 < mm
        · rw [if_pos (by omega), Nat.sub_self, ha0]
        · rw [if_neg (by omega)]
      · by_cases h3 : c < k + mm
        · have e1 : c - (k + 1) + 1 = c - k := by omega
          rw [if_pos (by omega), if_pos (by omega), if_pos (by omega), e1]
        · by_cases h4 : c = k + mm
          · rw [if_pos (by omega), if_neg (by omega), if_neg (by omega)]
          · rw [if_neg (by omega), if_neg (by omega)]
  · have o2 : off m1 (k + 1) l a = off m1 k l a := by unfold off; ifs_omega
    rw [if_neg hw]
    simp only [twin, o2, elimE, hw, if_false]

/-! ### row operations and `Matrix.det` -/

theorem toMat_congr {n : Nat} {M M' : Nat → Nat → F}
    (h : ∀ a c, a < n → c < n → M a c = M' a c) : toMat n M = toMat n M' := by
  ext r c
  exact h r.val c.val r.isLt c.isLt

/-- subtracting multiples of row `k` from the rows `k < a < l` keeps the determinant -/
theorem det_elim {n k l : Nat} (hk : k < n) (μ : Nat → F) (M : Nat → Nat → F) :
    (toMat n (fun a c => if k < a ∧ a < l then M a c - μ a * M k c else M a c)).det
      = (toMat n M).det := by
  refine Matrix.det_eq_of_forall_row_eq_smul_add_const
    (fun r : Fin n => if k < r.val ∧ r.val < l then - μ r.val else 0) ⟨k, hk⟩ (by simp) ?_
  rintro ⟨r, hr⟩ ⟨c, hc⟩
  simp only [toMat, Matrix.of_apply]
  by_cases h : k < r ∧ r < l
  · simp only [h, and_self, if_true]; ring
  · simp only [h, if_false]; ring

/-- exchanging two different rows negates the determinant -/
theorem det_swapR {n k ip : Nat} (M : Nat → Nat → F) (hk : k < n) (hip : ip < n) (hne : ip ≠ k) :
    (toMat n (swapR M k ip)).det = - (toMat n M).det :=
  Mat.det_toMat_swap M hk hip (fun e => hne e.symm)

theorem swapR_self (M : Nat → Nat → F) (k : Nat) : swapR M k k = M :=
  Mat.swapFn_self M k

/-- after the last step the twin is upper triangular with the pivots on the diagonal -/
theorem det_twin_final {n m1 mm : Nat} (e : Nat → Nat → F) (hmm : 0 < mm) :
    (toMat n (twin m1 mm n n e)).det = ∏ i ∈ Finset.range n, e i 0 := by
  rw [Matrix.det_of_isUpperTriangular, ← Fin.prod_univ_eq_prod_range (fun k => e k 0) n]
  · apply Finset.prod_congr rfl
    intro r _
    have hr : r.val < n := r.isLt
    simp only [toMat, Matrix.of_apply, twin, off, hr, if_true]
    rw [if_pos (by omega), Nat.sub_self]
  · intro r c hrc
    have h1 : c.val < r.val := hrc
    have hr : r.val < n := r.isLt
    simp only [toMat, Matrix.of_apply, twin, off, hr, if_true]
    rw [if_neg (by omega)]

/-! ### the invariant of the pivot loop -/

/-- invariant of the pivot loop of `decompose` (before step `k`): the sign times the determinant of
    the dense twin of the compact working matrix is the determinant of the input -/
def DetInv (n m1 mm : Nat) (A : Nat → Nat → F) (k : Nat) (st : Dec F × Nat) : Prop :=
  st.2 = min (m1 + k) n ∧ Is st.1.au n mm (Mat.entryOf st.1.au) ∧
  Is st.1.al n m1 (Mat.entryOf st.1.al) ∧ st.1.index.size = n ∧
  st.1.d * (toMat n (twin m1 mm k (min (m1 + k) n) (Mat.entryOf st.1.au))).det = (toMat n A).det

theorem decStep_detInv {n m1 mm k : Nat} {A : Nat → Nat → F} {st : Dec F × Nat} (hk : k < n)
    (hmm : 0 < mm) (h : DetInv n m1 mm A k st) :
    ∃ st', decStep n mm st k = .ok st' ∧ DetInv n m1 mm A (k + 1) st' := by
  obtain ⟨s, l⟩ := st
  obtain ⟨hl, hau, hal, hsz, hdet⟩ := h
  simp only at hl hau hal hsz hdet
  obtain ⟨ip, au', al', hip1, hip2, hmax, hstep, hI1, hI2⟩ :=
    decStep_spec_max hau hal hsz hk hmm hl
  have hkl : k < min (m1 + k + 1) n := by omega
  rw [zeroFix_of_max (fun hz => hmax hz k (Nat.le_refl _) hkl)] at hI1 hI2
  refine ⟨_, hstep, rfl, hI1.canon, hI2.canon, by simpa using hsz, ?_⟩
  simp only
  -- the maximality of the pivot in the shape needed by `twin_elim'`
  have hz : swapR (Mat.entryOf s.au) k ip k 0 = 0 →
      ∀ a, k < a → a < min (m1 + k + 1) n → swapR (Mat.entryOf s.au) k ip a 0 = 0 := by
    intro h0 a ha1 ha2
    have hp : Mat.entryOf s.au ip 0 = 0 := by simpa [swapR] using h0
    unfold swapR
    rw [if_neg (by omega)]
    split
    · exact hmax hp k (Nat.le_refl _) hkl
    · exact hmax hp a (by omega) ha2
  -- the twin after the step, in terms of the twin before the step
  have key : (toMat n (twin m1 mm (k + 1) (min (m1 + k + 1) n) (Mat.entryOf au'))).det
      = (toMat n (swapR (twin m1 mm k (min (m1 + k) n) (Mat.entryOf s.au)) k ip)).det := by
    have e1 : toMat n (twin m1 mm (k + 1) (min (m1 + k + 1) n) (Mat.entryOf au'))
        = toMat n (fun a c => if k < a ∧ a < min (m1 + k + 1) n then
            swapR (twin m1 mm k (min (m1 + k + 1) n) (Mat.entryOf s.au)) k ip a c
              - mult (swapR (Mat.entryOf s.au) k ip) k a
                * swapR (twin m1 mm k (min (m1 + k + 1) n) (Mat.entryOf s.au)) k ip k c
          else swapR (twin m1 mm k (min (m1 + k + 1) n) (Mat.entryOf s.au)) k ip a c) := by
      apply toMat_congr
      intro a c ha hc
      rw [twin_congr (fun a b ha hb => hI1.entryOf_eq ha hb) ha c,
        twin_elim' _ hkl hz, twin_swap _ hkl hip1 hip2, twin_swap _ hkl hip1 hip2]
    have e2 : toMat n (swapR (twin m1 mm k (min (m1 + k + 1) n) (Mat.entryOf s.au)) k ip)
        = toMat n (swapR (twin m1 mm k (min (m1 + k) n) (Mat.entryOf s.au)) k ip) := by
      apply toMat_congr
      intro a c ha hc
      unfold swapR
      split
      · exact (twin_window (Mat.entryOf s.au) (show ip < n by omega) c).symm
      · split
        · exact (twin_window (Mat.entryOf s.au) hk c).symm
        · exact (twin_window (Mat.entryOf s.au) ha c).symm
    rw [e1, det_elim hk, e2]
  show (if ip ≠ k then -s.d else s.d)
      * (toMat n (twin m1 mm (k + 1) (min (m1 + k + 1) n) (Mat.entryOf au'))).det = (toMat n A).det
  rw [key, ← hdet]
  by_cases hik : ip = k
  · subst hik
    rw [swapR_self, if_neg (by simp)]
  · rw [det_swapR _ hk (show ip < n by omega) hik, if_pos hik]
    ring

/-- (E) `decompose` (for `m1 ≤ n`) always succeeds over an exact field with `Alg.PivotLaws`, and its result
    satisfies `DetInv` at `k = n` with respect to the dense twin of `b` -/
theorem decompose_detInv {b : Band F} (h : WFb b) (hm : b.m1 ≤ b.n) :
    ∃ s l, decompose b = .ok s ∧ DetInv b.n b.m1 (b.m1 + b.m2 + 1) (dense b) b.n (s, l) := by
  obtain ⟨au0, h0, hI0⟩ := shiftRows_spec h.is hm
  unfold decompose
  simp only [h0, bind, Except.bind]
  obtain ⟨st, hst, hinv⟩ := forM'_inv (DetInv b.n b.m1 (b.m1 + b.m2 + 1) (dense b)) 0 b.n
    ((⟨au0, Mat.new b.n b.m1 0, Array.replicate b.n 0, 1⟩ : Dec F), b.m1)
    (decStep b.n (b.m1 + b.m2 + 1)) (Nat.zero_le _)
    ⟨by simp only; omega, hI0.canon, (Mat.Is.of_new b.n b.m1 (0 : F)).canon, by simp, by
        simp only [Nat.add_zero, Nat.min_eq_left hm, one_mul]
        congr 1
        apply toMat_congr
        intro a c ha hc
        rw [twin_congr (fun a b ha hb => hI0.entryOf_eq ha hb) ha c, twin_zero h ha hc]⟩
    (fun k st _ hk hinv => decStep_detInv hk (by omega) hinv)
  obtain ⟨s, l⟩ := st
  exact ⟨s, l, by rw [hst]; rfl, hinv⟩

/-- (E) **the determinant of a banded matrix is the determinant of its dense twin** (any
    `(n, m1, m2)` with `m1 ≤ n`; singular matrices included: a zero pivot is the literal `0`) -/
theorem det_eq_det {b : Band F} (h : WFb b) (hm : b.m1 ≤ b.n) :
    det b = .ok (toMat b.n (dense b)).det := by
  obtain ⟨s, l, hdec, hl, hau, hal, hsz, hdet⟩ := decompose_detInv h hm
  simp only at hl hau hal hsz hdet
  have hmm : 0 < b.m1 + b.m2 + 1 := by omega
  have hloop := det_loop hau hmm s.d
  unfold det
  simp only [bind, Except.bind, pure, Except.pure] at hloop ⊢
  rw [hdec]
  simp only
  rw [hloop]
  congr 1
  have e1 : min (b.m1 + b.n) b.n = b.n := by omega
  rw [e1, det_twin_final _ hmm] at hdet
  exact hdet

end BandDet
end Band
end Ohsl
