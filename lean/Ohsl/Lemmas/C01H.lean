/-
  Ohsl.Lemmas.C01H — growth of the entries under Gaussian elimination with partial pivoting in the
  "rounded reals" interpretation `Fl M`.  Helper file of Ohsl/Props/C01H.lean (read its header first);
  builds on Ohsl/Lemmas/LURounding.lean and Ohsl/Lemmas/GaussRounding.lean.

  Contents
  * `FlModel.gro`            the growth factor of one elimination step, `(1+u)(1+(1+u)²)` (`= 2` for `u = 0`)
  * `Fl.abs_elim_le`         one update `fl(a − fl(l·p))`, `|l| ≤ 1+u`
  * `luElimLoop_growth`, `luStep_growth_core`   one column step of `lu_decomp_in_place`
  * `gElimLoop_growth`, `gaussStep_growth_core` one step of `gauss_with_pivot`
  * `GrowInv` (+ `init/step/final`)   the invariant `|w_rc| ≤ gro^(min r i) μ` for `c ≥ min r i`
  * `luDecomp_growth`, `gaussWithPivot_growth`
  * `luElimRow_total` (S), `luElimLoop_total`, `luPivot_diag`, `luStep_diag_total`: TOTAL correctness of
    an LU column step whose diagonal entry is non-zero and dominates its column (no row exchange)
  * `wilkR`, `wilk`, `wilkR_step`, `luDecomp_wilkinson`, `matOfFn`: Wilkinson's matrix in exact arithmetic
  * `maxEnt` (largest absolute entry), `maxEnt_le_rowNorm`, `rowNorm_le_of_entries`
-/
import Ohsl.Lemmas.LURounding
import Ohsl.Lemmas.GaussRounding
import Mathlib.Algebra.Order.BigOperators.Group.Finset
import Mathlib.Tactic.Ring
import Mathlib.Tactic.Linarith
import Mathlib.Tactic.Positivity
set_option linter.unusedSectionVars false
set_option linter.unusedVariables false
set_option linter.unusedSimpArgs false
namespace Ohsl

namespace FlModel
variable (M : FlModel)

/-- the growth factor of one elimination step with partial pivoting in the standard model:
`(1+u)·(1 + (1+u)²)`; it is `2` in exact arithmetic and `2 + 4u + O(u²)` in general -/
noncomputable def gro : ℝ := (1 + M.u) * (1 + (1 + M.u) ^ 2)

theorem one_le_gro : 1 ≤ M.gro := by
  have h := M.u_nonneg
  unfold gro
  nlinarith [sq_nonneg (1 + M.u)]

theorem gro_pos : 0 < M.gro := lt_of_lt_of_le one_pos M.one_le_gro

theorem two_le_gro : 2 ≤ M.gro := by
  have h := M.u_nonneg
  unfold gro
  nlinarith [sq_nonneg M.u, mul_nonneg h h]

theorem gro_exact : FlModel.exact.gro = 2 := by
  simp [gro, FlModel.exact]; norm_num

/-- `gro ≤ 2·(1+u)³` -/
theorem gro_le : M.gro ≤ 2 * (1 + M.u) ^ 3 := by
  have h := M.u_nonneg
  unfold gro
  nlinarith [sq_nonneg M.u, mul_nonneg h h, mul_nonneg (mul_nonneg h h) h]

theorem gro_pow_mono {a b : ℕ} (h : a ≤ b) : M.gro ^ a ≤ M.gro ^ b :=
  pow_le_pow_right₀ M.one_le_gro h

end FlModel

namespace Mat

section Growth
variable {M : FlModel}

/-- one elimination update in `Fl M`: `|fl(a − fl(l·p))| ≤ (1+u)(|a| + (1+u)|l||p|)` -/
theorem Fl.abs_elim_le' (a p l : Fl M) :
    |(a - l * p).val| ≤ (1 + M.u) * (|a.val| + (1 + M.u) * (|l.val| * |p.val|)) := by
  have h1 : |(a - l * p).val| ≤ (1 + M.u) * |a.val - (l * p).val| := M.abs_fl_le _
  have h2 : |a.val - (l * p).val| ≤ |a.val| + |(l * p).val| := abs_sub _ _
  have h3 : |(l * p).val| ≤ (1 + M.u) * (|l.val| * |p.val|) := by
    rw [← abs_mul]; exact M.abs_fl_le _
  have hp := M.one_add_u_pos
  calc |(a - l * p).val| ≤ (1 + M.u) * |a.val - (l * p).val| := h1
    _ ≤ (1 + M.u) * (|a.val| + (1 + M.u) * (|l.val| * |p.val|)) :=
        mul_le_mul_of_nonneg_left (by linarith) hp.le

/-- … with a multiplier `|l| ≤ 1 + u` (partial pivoting): `≤ (1+u)(|a| + (1+u)²|p|)` -/
theorem Fl.abs_elim_le (a p l : Fl M) (hl : |l.val| ≤ 1 + M.u) :
    |(a - l * p).val| ≤ (1 + M.u) * (|a.val| + (1 + M.u) ^ 2 * |p.val|) := by
  have hp := M.one_add_u_pos
  refine (Fl.abs_elim_le' a p l).trans (mul_le_mul_of_nonneg_left ?_ hp.le)
  have : |l.val| * |p.val| ≤ (1 + M.u) * |p.val| :=
    mul_le_mul_of_nonneg_right hl (abs_nonneg _)
  have := mul_le_mul_of_nonneg_left this hp.le
  nlinarith

/-- … with both entries bounded by `β`: `≤ gro · β` -/
theorem Fl.abs_elim_le_gro (a p l : Fl M) (hl : |l.val| ≤ 1 + M.u) {β : ℝ}
    (ha : |a.val| ≤ β) (hpβ : |p.val| ≤ β) : |(a - l * p).val| ≤ M.gro * β := by
  have hp := M.one_add_u_pos
  refine (Fl.abs_elim_le a p l hl).trans ?_
  unfold FlModel.gro
  have h2 : (1 + M.u) ^ 2 * |p.val| ≤ (1 + M.u) ^ 2 * β :=
    mul_le_mul_of_nonneg_left hpβ (sq_nonneg _)
  have := mul_le_mul_of_nonneg_left (add_le_add ha h2) hp.le
  linarith

/-! ### one column step of `lu_decomp_in_place` -/

/-- the row loop of one LU column step: rows `≤ i` are not touched, and the entries to the right of
column `i` in the rows below `i` grow at most by the factor `gro` -/
theorem luElimLoop_growth {l l' : Mat (Fl M)} {n i : Nat} {β : ℝ} (hl : WFn l n) (hi : i < n)
    (hβ : ∀ r c, i ≤ r → r < n → i ≤ c → c < n → |(ent l r c).val| ≤ β)
    (hmax : ∀ k, i ≤ k → k < n → |(ent l k i).val| ≤ |(ent l i i).val|)
    (h : forM' (i + 1) l.rows l (luElimRow i) = .ok l') :
    WFn l' n ∧ (∀ r c, r ≤ i → r < n → c < n → ent l' r c = ent l r c) ∧
      (∀ r c, i < r → r < n → i < c → c < n → |(ent l' r c).val| ≤ M.gro * β) := by
  rw [hl.2.1] at h
  have key := forM'_ok_inv
    (fun t (s : Mat (Fl M)) => WFn s n ∧
      (∀ r c, r < n → c < n → (r ≤ i ∨ t ≤ r) → ent s r c = ent l r c) ∧
      (∀ r c, i < r → r < t → r < n → i < c → c < n → |(ent s r c).val| ≤ M.gro * β))
    (i + 1) n l l' (luElimRow i) (by omega) ?init ?step h
  case init =>
    exact ⟨hl, fun _ _ _ _ _ => rfl, by intro r c h1 h2; omega⟩
  case step =>
    intro j s s1 hj1 hj2 ⟨hw, hun, hgr⟩ hf
    obtain ⟨q, hq, hw1, he⟩ := luElimRow_struct hw hi hj2 (by omega) hf
    obtain ⟨hpiv, hqe⟩ := Fl.divM_ok hq
    have hqb : |q.val| ≤ 1 + M.u := by
      rw [hqe]
      refine Fl.abs_div_le _ _ hpiv ?_
      rw [hun j i hj2 hi (Or.inr (Nat.le_refl _)), hun i i hi hi (Or.inl (Nat.le_refl _))]
      exact hmax j (by omega) hj2
    refine ⟨hw1, ?_, ?_⟩
    · intro r c hr hc hcase
      have hrj : ¬ r = j := by omega
      rw [he r c hr hc]
      simp only [hrj, if_false]
      exact hun r c hr hc (by omega)
    · intro r c hir hrt hr hic hc
      rw [he r c hr hc]
      by_cases hrj : r = j
      · subst hrj
        have c1 : ¬ c = i := by omega
        simp only [if_true, c1, if_false, hic]
        rw [hun r c hr hc (Or.inr (Nat.le_refl _)), hun i c hi hc (Or.inl (Nat.le_refl _))]
        exact Fl.abs_elim_le_gro _ _ _ hqb (hβ r c (by omega) hr (by omega) hc)
          (hβ i c (Nat.le_refl _) hi (by omega) hc)
      · simp only [hrj, if_false]
        exact hgr r c hir (by omega) hr hic hc
  obtain ⟨k1, k2, k3⟩ := key
  exact ⟨k1, fun r c hri hr hc => k2 r c hr hc (Or.inl hri),
    fun r c hir hr hic hc => k3 r c hir hr hr hic hc⟩

/-- **one column step of `lu_decomp_in_place` in `Fl M`**: if the active sub-matrix (rows and
columns `≥ i`) is bounded by `β`, then after the step the rows above `i` are unchanged, the new row
`i` (a row of the old active sub-matrix) is bounded by `β` from the diagonal on, and the new
active sub-matrix (rows and columns `> i`) is bounded by `gro · β`.  Row exchanges and skipped zero
columns do not increase the maximum. -/
theorem luStep_growth_core {n i : Nat} {s s' : LU (Fl M)} {β : ℝ} (hw : WFn s.lu n) (hi : i < n)
    (hβ : ∀ r c, i ≤ r → r < n → i ≤ c → c < n → |(ent s.lu r c).val| ≤ β)
    (h : luStep s i = .ok s') :
    WFn s'.lu n ∧ (∀ r c, r < i → c < n → ent s'.lu r c = ent s.lu r c) ∧
      (∀ c, i ≤ c → c < n → |(ent s'.lu i c).val| ≤ β) ∧
      (∀ r c, i < r → r < n → i < c → c < n → |(ent s'.lu r c).val| ≤ M.gro * β) := by
  have hβ0 : 0 ≤ β := (abs_nonneg _).trans (hβ i i (Nat.le_refl _) hi (Nat.le_refl _) hi)
  have hgβ : β ≤ M.gro * β := by
    have := mul_le_mul_of_nonneg_right M.one_le_gro hβ0
    linarith
  unfold luStep at h
  cases hp : luPivot s.lu i with
  | error e => simp [hp, bind, Except.bind] at h
  | ok r =>
    obtain ⟨maxA, imax⟩ := r
    obtain ⟨hge, hlt, hdom, hatt⟩ := luPivot_fl hw hi hp
    simp only [hp, bind, Except.bind] at h
    by_cases hmax : maxA.val = 0
    · have : (maxA == 0) = true := (Fl.beq_zero_iff maxA).mpr hmax
      simp only [this, if_true, pure, Except.pure] at h
      injection h with h
      subst h
      exact ⟨hw, fun _ _ _ _ => rfl, fun c h1 h2 => hβ i c (Nat.le_refl _) hi h1 h2,
        fun r c h1 h2 h3 h4 => (hβ r c (by omega) h2 (by omega) h4).trans hgβ⟩
    · have : ¬ (maxA == 0) = true := fun hc => hmax ((Fl.beq_zero_iff maxA).mp hc)
      simp only [this, if_false] at h
      have hatt' := hatt hmax
      by_cases him : imax = i
      · have c : ¬ (imax ≠ i) := by simp [him]
        simp only [c, if_false, pure, Except.pure] at h
        cases hl : forM' (i + 1) s.lu.rows s.lu (luElimRow i) with
        | error e => rw [hl] at h; simp at h
        | ok l' =>
          rw [hl] at h
          injection h with h
          subst h
          obtain ⟨g1, g2, g3⟩ := luElimLoop_growth hw hi hβ (by
            intro k hk1 hk2
            have := hdom k hk1 hk2
            rw [hatt', him] at this
            exact this) hl
          refine ⟨g1, fun r c hr hc => g2 r c (by omega) (by omega) hc, ?_, g3⟩
          intro c hc1 hc2
          show |(ent l' i c).val| ≤ β
          rw [g2 i c (Nat.le_refl _) hi hc2]
          exact hβ i c (Nat.le_refl _) hi hc1 hc2
      · have c : imax ≠ i := him
        simp only [c, if_true, ne_eq, not_false_eq_true, pure, Except.pure] at h
        cases hpp : swapRows s.perm i imax with
        | error e => rw [hpp] at h; simp at h
        | ok p =>
          cases hll : swapRows s.lu i imax with
          | error e => rw [hpp, hll] at h; simp at h
          | ok l =>
            rw [hpp, hll] at h
            simp only at h
            obtain ⟨l0, hl0, hIl⟩ := swapRows_spec hw.is hi hlt
            rw [hll] at hl0
            injection hl0 with hl0
            subst hl0
            have hent : ∀ r c, r < n → c < n → ent l r c = ent s.lu (swapIdx i imax r) c := by
              intro r c hr hc
              rw [hIl.ent_eq hr hc]
              unfold swapIdx
              split_ifs <;> rfl
            have hsw : ∀ r, r < n → swapIdx i imax r < n := fun r hr => swapIdx_lt hi hlt hr
            have hswge : ∀ r, i ≤ r → i ≤ swapIdx i imax r := by
              intro r hr; unfold swapIdx; split_ifs <;> omega
            have hswfix : ∀ r, r < i → swapIdx i imax r = r := by
              intro r hr; unfold swapIdx; split_ifs <;> omega
            cases hl : forM' (i + 1) l.rows l (luElimRow i) with
            | error e => rw [hl] at h; simp at h
            | ok l' =>
              rw [hl] at h
              injection h with h
              subst h
              have hβl : ∀ r c, i ≤ r → r < n → i ≤ c → c < n → |(ent l r c).val| ≤ β := by
                intro r c h1 h2 h3 h4
                rw [hent r c h2 h4]
                exact hβ _ c (hswge r h1) (hsw r h2) h3 h4
              obtain ⟨g1, g2, g3⟩ := luElimLoop_growth hIl.wfn hi hβl (by
                intro k hk1 hk2
                rw [hent k i hk2 hi, hent i i hi hi]
                have e1 : swapIdx i imax i = imax := by simp [swapIdx]
                rw [e1, ← hatt']
                exact hdom _ (hswge k hk1) (hsw k hk2)) hl
              refine ⟨g1, ?_, ?_, g3⟩
              · intro r c hr hc
                show ent l' r c = ent s.lu r c
                rw [g2 r c (by omega) (by omega) hc, hent r c (by omega) hc, hswfix r hr]
              · intro c hc1 hc2
                show |(ent l' i c).val| ≤ β
                rw [g2 i c (Nat.le_refl _) hi hc2]
                exact hβl i c (Nat.le_refl _) hi hc1 hc2

/-! ### one step of `gauss_with_pivot` -/

/-- the row loop of one step of `gauss_with_pivot` (`elimRow k` for the rows below `k`) -/
theorem gElimLoop_growth {n k : Nat} {β : ℝ} {mx mx' : Mat (Fl M) × Array (Fl M)}
    (hm : WFn mx.1 n) (hx : mx.2.size = n) (hk : k < n)
    (hβ : ∀ r c, k ≤ r → r < n → k ≤ c → c < n → |(ent mx.1 r c).val| ≤ β)
    (hmax : ∀ i, k ≤ i → i < n → |(ent mx.1 i k).val| ≤ |(ent mx.1 k k).val|)
    (h : forM' (k + 1) n mx (elimRow k) = .ok mx') :
    WFn mx'.1 n ∧ mx'.2.size = n ∧
      (∀ r c, r ≤ k → r < n → c < n → ent mx'.1 r c = ent mx.1 r c) ∧
      (∀ r c, k < r → r < n → k < c → c < n → |(ent mx'.1 r c).val| ≤ M.gro * β) := by
  have key := forM'_ok_inv
    (fun t (s : Mat (Fl M) × Array (Fl M)) => WFn s.1 n ∧ s.2.size = n ∧
      (∀ r c, r < n → c < n → (r ≤ k ∨ t ≤ r) → ent s.1 r c = ent mx.1 r c) ∧
      (∀ r c, k < r → r < t → r < n → k < c → c < n → |(ent s.1 r c).val| ≤ M.gro * β))
    (k + 1) n mx mx' (elimRow k) (by omega) ?init ?step h
  case init =>
    exact ⟨hm, hx, fun _ _ _ _ _ => rfl, by intro r c h1 h2; omega⟩
  case step =>
    intro j s s1 hj1 hj2 ⟨hw, hsz, hun, hgr⟩ hf
    obtain ⟨ms, xs⟩ := s
    obtain ⟨m1, x1⟩ := s1
    obtain ⟨q, hq, hw1, hsz1, he, _⟩ := elimRow_struct hw hsz hk hj2 (by omega) hf
    obtain ⟨hpiv, hqe⟩ := Fl.divM_ok hq
    simp only at hun hgr hw hsz
    have hqb : |q.val| ≤ 1 + M.u := by
      rw [hqe]
      refine Fl.abs_div_le _ _ hpiv ?_
      rw [hun j k hj2 hk (Or.inr (Nat.le_refl _)), hun k k hk hk (Or.inl (Nat.le_refl _))]
      exact hmax j (by omega) hj2
    refine ⟨hw1, hsz1, ?_, ?_⟩
    · intro r c hr hc hcase
      show ent m1 r c = ent mx.1 r c
      have hrj : ¬ (r = j ∧ k ≤ c) := by omega
      rw [he r c hr hc]
      simp only [hrj, if_false]
      exact hun r c hr hc (by omega)
    · intro r c hkr hrt hr hkc hc
      show |(ent m1 r c).val| ≤ M.gro * β
      rw [he r c hr hc]
      by_cases hrj : r = j
      · subst hrj
        have c1 : r = r ∧ k ≤ c := ⟨rfl, by omega⟩
        simp only [c1, and_self, if_true]
        rw [hun r c hr hc (Or.inr (Nat.le_refl _)), hun k c hk hc (Or.inl (Nat.le_refl _))]
        exact Fl.abs_elim_le_gro _ _ _ hqb (hβ r c (by omega) hr (by omega) hc)
          (hβ k c (Nat.le_refl _) hk (by omega) hc)
      · have c1 : ¬ (r = j ∧ k ≤ c) := fun h => hrj h.1
        simp only [c1, if_false]
        exact hgr r c hkr (by omega) hr hkc hc
  obtain ⟨k1, k2, k3, k4⟩ := key
  exact ⟨k1, k2, fun r c hrk hr hc => k3 r c hr hc (Or.inl hrk),
    fun r c hkr hr hkc hc => k4 r c hkr hr hr hkc hc⟩

/-- **one step of `gauss_with_pivot` in `Fl M`** (pivot search, row exchange, elimination of the rows
below): the statement of `luStep_growth_core` for the elimination that carries the right-hand side
along -/
theorem gaussStep_growth_core {n k : Nat} {mx mx' : Mat (Fl M) × Array (Fl M)} {β : ℝ}
    (hw : WFn mx.1 n) (hx : mx.2.size = n) (hk : k < n)
    (hβ : ∀ r c, k ≤ r → r < n → k ≤ c → c < n → |(ent mx.1 r c).val| ≤ β)
    (h : gaussStep mx k = .ok mx') :
    WFn mx'.1 n ∧ mx'.2.size = n ∧ (∀ r c, r < k → c < n → ent mx'.1 r c = ent mx.1 r c) ∧
      (∀ c, k ≤ c → c < n → |(ent mx'.1 k c).val| ≤ β) ∧
      (∀ r c, k < r → r < n → k < c → c < n → |(ent mx'.1 r c).val| ≤ M.gro * β) := by
  unfold gaussStep at h
  cases hpp : partialPivot mx.1 mx.2 k with
  | error e => simp [hpp, bind, Except.bind] at h
  | ok mx1 =>
    simp only [hpp, bind, Except.bind] at h
    cases hp0 : maxAbsInColumn mx.1 k k with
    | error e => simp [partialPivot, hp0, bind, Except.bind] at hpp
    | ok p =>
      obtain ⟨m1, x1⟩ := mx1
      obtain ⟨hpn, hw1, hsz1, hent, _⟩ := partialPivot_struct hw hx hk hp0 hpp
      obtain ⟨_, hkp, hdom, _⟩ := maxAbsInColumn_fl hw hk hp0
      simp only [hw1.2.1] at h
      have hsw : ∀ r, r < n → swapIdx p k r < n := fun r hr => swapIdx_lt hpn hk hr
      have hswge : ∀ r, k ≤ r → k ≤ swapIdx p k r := by
        intro r hr; unfold swapIdx; split_ifs <;> omega
      have hswfix : ∀ r, r < k → swapIdx p k r = r := by
        intro r hr; unfold swapIdx; split_ifs <;> omega
      have hβ1 : ∀ r c, k ≤ r → r < n → k ≤ c → c < n → |(ent m1 r c).val| ≤ β := by
        intro r c h1 h2 h3 h4
        rw [hent r c h2 h4]
        exact hβ _ c (hswge r h1) (hsw r h2) h3 h4
      obtain ⟨g1, g2, g3, g4⟩ := gElimLoop_growth (mx := (m1, x1)) hw1 hsz1 hk hβ1 (by
        intro i hi1 hi2
        show |(ent m1 i k).val| ≤ |(ent m1 k k).val|
        rw [hent i k hi2 hk, hent k k hk hk]
        have e1 : swapIdx p k k = p := by unfold swapIdx; split_ifs <;> omega
        rw [e1]
        exact hdom _ (hswge i hi1) (hsw i hi2)) h
      refine ⟨g1, g2, ?_, ?_, g4⟩
      · intro r c hr hc
        rw [g3 r c (by omega) (by omega) hc]
        show ent m1 r c = ent mx.1 r c
        rw [hent r c (by omega) hc, hswfix r hr]
      · intro c hc1 hc2
        rw [g3 k c (Nat.le_refl _) hk hc2]
        exact hβ1 k c (Nat.le_refl _) hk hc1 hc2

/-! ### the invariant of the elimination loops -/

/-- after `i` elimination steps: row `r` has been updated `min r i` times, and its entries from
column `min r i` on (the part that is not a stored multiplier / residue) are bounded by
`gro^(min r i) · μ` -/
def GrowInv (M : FlModel) (n : Nat) (μ : ℝ) (i : Nat) (l : Mat (Fl M)) : Prop :=
  WFn l n ∧ ∀ r c, r < n → c < n → min r i ≤ c → |(ent l r c).val| ≤ M.gro ^ (min r i) * μ

theorem GrowInv.init {n : Nat} {μ : ℝ} {A : Mat (Fl M)} (hA : WFn A n)
    (hμ : ∀ r c, r < n → c < n → |(ent A r c).val| ≤ μ) : GrowInv M n μ 0 A := by
  refine ⟨hA, ?_⟩
  intro r c hr hc _
  have : min r 0 = 0 := by omega
  rw [this, pow_zero, one_mul]
  exact hμ r c hr hc

theorem GrowInv.active {n i : Nat} {μ : ℝ} {l : Mat (Fl M)} (h : GrowInv M n μ i l) :
    ∀ r c, i ≤ r → r < n → i ≤ c → c < n → |(ent l r c).val| ≤ M.gro ^ i * μ := by
  intro r c h1 h2 h3 h4
  have e : min r i = i := by omega
  have := h.2 r c h2 h4 (by omega)
  rwa [e] at this

theorem GrowInv.step {n i : Nat} {μ : ℝ} {l l' : Mat (Fl M)} (hi : i < n) (h : GrowInv M n μ i l)
    (hw : WFn l' n) (h1 : ∀ r c, r < i → c < n → ent l' r c = ent l r c)
    (h2 : ∀ c, i ≤ c → c < n → |(ent l' i c).val| ≤ M.gro ^ i * μ)
    (h3 : ∀ r c, i < r → r < n → i < c → c < n → |(ent l' r c).val| ≤ M.gro * (M.gro ^ i * μ)) :
    GrowInv M n μ (i + 1) l' := by
  refine ⟨hw, ?_⟩
  intro r c hr hc hmin
  rcases Nat.lt_trichotomy r i with hlt | heq | hgt
  · have e1 : min r (i + 1) = r := by omega
    have e2 : min r i = r := by omega
    rw [e1] at hmin ⊢
    rw [h1 r c hlt hc]
    have := h.2 r c hr hc (by omega)
    rwa [e2] at this
  · subst heq
    have e1 : min r (r + 1) = r := by omega
    rw [e1] at hmin ⊢
    exact h2 c hmin hc
  · have e1 : min r (i + 1) = i + 1 := by omega
    rw [e1] at hmin ⊢
    rw [pow_succ, mul_comm (M.gro ^ i), mul_assoc]
    exact h3 r c hgt hr (by omega) hc

/-- at the end every entry of row `r` on or to the right of the diagonal is bounded by
`gro^r · μ ≤ gro^(n-1) · μ` -/
theorem GrowInv.final {n i : Nat} {μ : ℝ} {l : Mat (Fl M)} (h : GrowInv M n μ i l)
    (hμ : 0 ≤ μ) {r c : Nat} (hr : r < n) (hrc : r ≤ c) (hc : c < n) :
    |(ent l r c).val| ≤ M.gro ^ (min r i) * μ ∧ M.gro ^ (min r i) * μ ≤ M.gro ^ (n - 1) * μ :=
  ⟨h.2 r c hr hc (by omega),
    mul_le_mul_of_nonneg_right (M.gro_pow_mono (by omega)) hμ⟩

/-- **growth under `lu_decomp_in_place`**: whenever `luDecomp A` returns `s` in `Fl M` and all
entries of `A` are bounded by `μ`, the invariant holds after `n` steps -/
theorem luDecomp_growth {n : Nat} {μ : ℝ} {A : Mat (Fl M)} {s : LU (Fl M)} (hA : WFn A n)
    (hμ : ∀ r c, r < n → c < n → |(ent A r c).val| ≤ μ) (h : luDecomp A = .ok s) :
    GrowInv M n μ n s.lu := by
  unfold luDecomp at h
  have h2 : ¬ A.rows ≠ A.cols := by rw [hA.2.1, hA.2.2]; simp
  obtain ⟨p, hp, hIp⟩ := eye_spec (K := Fl M) n
  simp only [h2, if_false] at h
  simp only [hA.2.1, hp, bind, Except.bind] at h
  refine forM'_ok_inv (fun i (s : LU (Fl M)) => GrowInv M n μ i s.lu)
    0 n { lu := A, perm := p, pivots := 0 } s luStep (Nat.zero_le _) ?init ?step h
  case init => exact GrowInv.init hA hμ
  case step =>
    intro i s s1 _ hi hs hf
    obtain ⟨g1, g2, g3, g4⟩ := luStep_growth_core hs.1 hi hs.active hf
    exact hs.step hi g1 g2 g3 g4

/-- **growth under `gauss_with_pivot`**: whenever it returns `(m', y)` in `Fl M` and all entries of
`A` are bounded by `μ`, the invariant holds after `n − 1` steps -/
theorem gaussWithPivot_growth {n : Nat} (hn : 1 ≤ n) {μ : ℝ} {A : Mat (Fl M)} {b : Array (Fl M)}
    {mx : Mat (Fl M) × Array (Fl M)} (hA : WFn A n) (hb : b.size = n)
    (hμ : ∀ r c, r < n → c < n → |(ent A r c).val| ≤ μ) (h : gaussWithPivot A b = .ok mx) :
    GrowInv M n μ (n - 1) mx.1 := by
  rw [gaussWithPivot_eq, hA.2.1] at h
  have hus : usub n 1 = .ok (n - 1) := by simp [usub, hn]
  simp only [hus, bind, Except.bind] at h
  have key := forM'_ok_inv
    (fun k (s : Mat (Fl M) × Array (Fl M)) => GrowInv M n μ k s.1 ∧ s.2.size = n)
    0 (n - 1) (A, b) mx gaussStep (Nat.zero_le _) ⟨GrowInv.init hA hμ, hb⟩ ?_ h
  · exact key.1
  · intro k s s1 _ hk ⟨hs, hsz⟩ hf
    have hk' : k < n := by omega
    obtain ⟨g1, g2, g3, g4, g5⟩ := gaussStep_growth_core hs.1 hsz hk' hs.active hf
    exact ⟨hs.step hk' g1 g3 g4 g5, g2⟩

end Growth


/-! ### total correctness of an LU column step without row exchange (for `wilkinson_growth`) -/

section Total
variable {K : Type} [Add K] [Sub K] [Mul K] [Neg K] [Zero K] [One K] [BEq K] [ScalarExt K]

/-- (S) `luElimRow` SUCCEEDS as soon as its division does (the total-correctness counterpart of
`luElimRow_struct`) -/
theorem luElimRow_total {m : Mat K} {n i j : Nat} (hm : WFn m n) (hi : i < n) (hj : j < n)
    (hij : i < j) {q : K} (hq : divM (ent m j i) (ent m i i) = .ok q) :
    ∃ m', luElimRow i m j = .ok m' ∧ WFn m' n ∧
    ∀ a c, a < n → c < n → ent m' a c =
      if a = j then
        (if c = i then q else if i < c then ent m j c - q * ent m i c else ent m j c)
      else ent m a c := by
  unfold luElimRow
  simp only [hm.get hi hi, hm.get hj hi, bind, Except.bind, hq]
  obtain ⟨m1, hm1, hI1⟩ := hm.is.set hj hi q
  rw [hm1]
  simp only [hI1.rows]
  obtain ⟨m2, hm2, hP⟩ := forM'_inv
    (fun t (s : Mat K) => Is s n n (fun a c => if a = j then
        (if c = i then q
         else if i < c ∧ c < t then ent m j c - q * ent m i c
         else ent m j c)
      else ent m a c))
    (i + 1) n m1 (fun s k => do
      let ji ← s.get j i
      let ik ← s.get i k
      let jk ← s.get j k
      s.set j k (jk - ji * ik)) (by omega)
    (by
      refine ⟨hI1.wf, hI1.rows, hI1.cols, ?_⟩
      intro a c ha hc
      rw [hI1.entry a c ha hc]
      congr 1
      by_cases haj : a = j
      · subst haj
        by_cases hci : c = i
        · simp [hci]
        · have : ¬ (i < c ∧ c < i + 1) := by omega
          simp [hci, this]
      · simp [haj]) (by
      intro t s ht1 ht2 hs
      obtain ⟨s', hs', hI⟩ := hs.set hj ht2 (ent m j t - q * ent m i t)
      have hne : ¬ (i = j) := by omega
      have hti : ¬ (t = i) := by omega
      refine ⟨s', ?_, ⟨hI.wf, hI.rows, hI.cols, ?_⟩⟩
      · have e1 := hs.entry j i hj hi
        have e2 := hs.entry i t hi ht2
        have e3 := hs.entry j t hj ht2
        simp only [hne, hti, Nat.lt_irrefl, and_false, if_true, if_false] at e1 e2 e3
        simp only [e1, e2, e3, bind, Except.bind]
        exact hs'
      · intro a c ha hc
        rw [hI.entry a c ha hc]
        congr 1
        by_cases hac : a = j ∧ c = t
        · obtain ⟨rfl, rfl⟩ := hac
          have : i < c ∧ c < c + 1 := by omega
          simp [this, hti]
        · by_cases haj : a = j
          · subst haj
            have hct : ¬ c = t := fun e => hac ⟨rfl, e⟩
            have e1 : (i < c ∧ c < t + 1) = (i < c ∧ c < t) := by apply propext; omega
            simp only [hct, and_false, if_false, if_true, e1]
          · simp only [haj, false_and, if_false])
  simp only [bind, Except.bind] at hm2
  refine ⟨m2, hm2, hP.wfn, ?_⟩
  intro a c ha hc
  rw [hP.ent_eq ha hc]
  by_cases haj : a = j
  · have e1 : (i < c ∧ c < n) = (i < c) := by apply propext; omega
    simp only [haj, if_true, e1]
  · simp only [haj, if_false]

end Total

section TotalFl
variable {M : FlModel}

theorem Fl.divM_of_val_ne (a b : Fl M) (hb : b.val ≠ 0) : divM a b = .ok (a / b) := by
  simp only [divM, ScalarExt.divM, hb, if_false]

/-- the row loop of an LU column step SUCCEEDS when the pivot is not an exact zero, and computes
`l̂_a = fl(w_ai / w_ii)`, `w_ac ← fl(w_ac − fl(l̂_a w_ic))` in the rows `a > i` -/
theorem luElimLoop_total {l : Mat (Fl M)} {n i : Nat} (hl : WFn l n) (hi : i < n)
    (hpiv : (ent l i i).val ≠ 0) :
    ∃ l', forM' (i + 1) l.rows l (luElimRow i) = .ok l' ∧ WFn l' n ∧
    ∀ a c, a < n → c < n → ent l' a c =
      if i < a then
        (if c = i then ent l a i / ent l i i
         else if i < c then ent l a c - (ent l a i / ent l i i) * ent l i c else ent l a c)
      else ent l a c := by
  rw [hl.2.1]
  obtain ⟨l', hl', hw, hP⟩ := forM'_inv
    (fun t (s : Mat (Fl M)) => WFn s n ∧ ∀ a c, a < n → c < n → ent s a c =
      if i < a ∧ a < t then
        (if c = i then ent l a i / ent l i i
         else if i < c then ent l a c - (ent l a i / ent l i i) * ent l i c else ent l a c)
      else ent l a c)
    (i + 1) n l (luElimRow i) (by omega)
    ⟨hl, by
      intro a c _ _
      have : ¬ (i < a ∧ a < i + 1) := by omega
      simp only [this, if_false]⟩ (by
      intro j s hj1 hj2 ⟨hw, hs⟩
      have c1 : ¬ (i < j ∧ j < j) := by omega
      have c2 : ¬ (i < i ∧ i < j) := by omega
      have e1 : ent s j i = ent l j i := by rw [hs j i hj2 hi]; simp only [c1, if_false]
      have e2 : ent s i i = ent l i i := by rw [hs i i hi hi]; simp only [c2, if_false]
      have hq : divM (ent s j i) (ent s i i) = .ok (ent l j i / ent l i i) := by
        rw [e1, e2]; exact Fl.divM_of_val_ne _ _ hpiv
      obtain ⟨m', hm', hw', he⟩ := luElimRow_total hw hi hj2 (by omega) hq
      refine ⟨m', hm', hw', ?_⟩
      intro a c ha hc
      rw [he a c ha hc]
      by_cases haj : a = j
      · subst haj
        have c3 : i < a ∧ a < a + 1 := by omega
        simp only [if_true, c3, and_self]
        have e3 : ent s a c = ent l a c := by rw [hs a c ha hc]; simp only [c1, if_false]
        have e4 : ent s i c = ent l i c := by rw [hs i c hi hc]; simp only [c2, if_false]
        rw [e3, e4]
      · have e5 : (i < a ∧ a < j + 1) = (i < a ∧ a < j) := by apply propext; omega
        simp only [haj, if_false, e5]
        exact hs a c ha hc)
  refine ⟨l', hl', hw, ?_⟩
  intro a c ha hc
  rw [hP a c ha hc]
  have e : (i < a ∧ a < n) = (i < a) := by apply propext; omega
  simp only [e]

/-- the pivot search of the LU returns the DIAGONAL row when the diagonal entry is non-zero and
dominates the column below it (ties are resolved in favour of the first candidate: the comparison
is strict) -/
theorem luPivot_diag {m : Mat (Fl M)} {n i : Nat} (hm : WFn m n) (hi : i < n)
    (h0 : (ent m i i).val ≠ 0)
    (hdom : ∀ k, i < k → k < n → |(ent m k i).val| ≤ |(ent m i i).val|) :
    luPivot m i = .ok (ScalarExt.mag (ent m i i), i) := by
  unfold luPivot
  rw [hm.2.1]
  obtain ⟨s', hs', hP⟩ := forM'_inv
    (fun t (s : Fl M × Nat) => (t = i ∧ s = ((0 : Fl M), i)) ∨
      (i < t ∧ s = (ScalarExt.mag (ent m i i), i)))
    i n ((0 : Fl M), i) (fun (mx, imax) k => do
      let x ← m.get k i
      let ax := ScalarExt.mag x
      if ScalarExt.lt mx ax then pure (ax, k) else pure (mx, imax)) (by omega)
    (Or.inl ⟨rfl, rfl⟩) (by
      intro t s ht1 ht2 hs
      rcases hs with ⟨hti, hs⟩ | ⟨hti, hs⟩
      · subst hti; subst hs
        have hl : ScalarExt.lt (0 : Fl M) (ScalarExt.mag (ent m t t)) = true := by
          rw [Fl.lt_iff, Fl.mag_val]; exact abs_pos.mpr h0
        refine ⟨(ScalarExt.mag (ent m t t), t), ?_, Or.inr ⟨by omega, rfl⟩⟩
        simp only [hm.get ht2 ht2, bind, Except.bind, pure, Except.pure, hl, if_true]
      · subst hs
        have hl : ¬ ScalarExt.lt (ScalarExt.mag (ent m i i)) (ScalarExt.mag (ent m t i)) = true := by
          rw [Fl.lt_iff, Fl.mag_val, Fl.mag_val]
          exact not_lt.mpr (hdom t hti ht2)
        refine ⟨(ScalarExt.mag (ent m i i), i), ?_, Or.inr ⟨by omega, rfl⟩⟩
        simp only [hm.get ht2 hi, bind, Except.bind, pure, Except.pure, hl, Bool.false_eq_true, if_false])
  rw [hs']
  rcases hP with ⟨hti, _⟩ | ⟨_, hs⟩
  · omega
  · rw [hs]

/-- **a column step without row exchange succeeds**: when the diagonal entry is non-zero and
dominates the column below it, `luStep` keeps `perm` and `pivots` and performs the elimination -/
theorem luStep_diag_total {s : LU (Fl M)} {n i : Nat} (hw : WFn s.lu n) (hi : i < n)
    (h0 : (ent s.lu i i).val ≠ 0)
    (hdom : ∀ k, i < k → k < n → |(ent s.lu k i).val| ≤ |(ent s.lu i i).val|) :
    ∃ l', luStep s i = .ok { s with lu := l' } ∧ WFn l' n ∧
    ∀ a c, a < n → c < n → ent l' a c =
      if i < a then
        (if c = i then ent s.lu a i / ent s.lu i i
         else if i < c then ent s.lu a c - (ent s.lu a i / ent s.lu i i) * ent s.lu i c
         else ent s.lu a c)
      else ent s.lu a c := by
  obtain ⟨l', hl', hw', he⟩ := luElimLoop_total hw hi h0
  refine ⟨l', ?_, hw', he⟩
  unfold luStep
  have hz : ¬ ((ScalarExt.mag (ent s.lu i i) : Fl M) == 0) = true := by
    rw [Fl.beq_zero_iff, Fl.mag_val]
    exact fun h => h0 (abs_eq_zero.mp h)
  have hii : ¬ (i ≠ i) := by simp
  simp only [luPivot_diag hw hi h0 hdom, bind, Except.bind, hz, hii, Bool.false_eq_true, if_false,
    pure, Except.pure, hl']

end TotalFl

/-! ### Wilkinson's matrix in exact arithmetic -/

section Wilkinson

/-- the working array of `lu_decomp_in_place` on Wilkinson's matrix of order `n` after `i` steps
(real values): `−1` below the diagonal (entries of `A`, then multipliers — the same numbers), `1` on
it, `0` above, except for the last column, which holds `2^(min r i)`; `i = 0` is the matrix itself -/
noncomputable def wilkR (n i r c : Nat) : ℝ :=
  if c = n - 1 then 2 ^ (min r i) else if c < r then -1 else if c = r then 1 else 0

/-- … as a function into the exact model -/
noncomputable def wilk (n i : Nat) : Nat → Nat → Fl FlModel.exact := fun r c => ⟨wilkR n i r c⟩

theorem wilkR_step {n i a c : Nat} (hi : i < n) (ha : a < n) (hc : c < n) :
    wilkR n (i + 1) a c =
      if i < a then
        (if c = i then wilkR n i a i / wilkR n i i i
         else if i < c then wilkR n i a c - (wilkR n i a i / wilkR n i i i) * wilkR n i i c
         else wilkR n i a c)
      else wilkR n i a c := by
  by_cases hia : i < a
  · have hin : ¬ i = n - 1 := by omega
    have e1 : wilkR n i i i = 1 := by simp [wilkR, hin]
    have e2 : wilkR n i a i = -1 := by simp [wilkR, hin, hia]
    rw [if_pos hia, e1, e2]
    by_cases hci : c = i
    · subst hci
      rw [if_pos rfl]
      simp [wilkR, hin, hia]
    · rw [if_neg hci]
      by_cases hic : i < c
      · rw [if_pos hic]
        by_cases hcn : c = n - 1
        · have m1 : min a (i + 1) = i + 1 := by omega
          have m2 : min a i = i := by omega
          have m3 : min i i = i := by omega
          simp only [wilkR, hcn, if_true, m1, m2, m3]
          rw [pow_succ]; ring
        · have c1 : ¬ c < i := by omega
          simp only [wilkR, hcn, if_false, c1, hci]
          ring
      · rw [if_neg hic]
        have hcn : ¬ c = n - 1 := by omega
        simp only [wilkR, hcn, if_false]
  · rw [if_neg hia]
    have m1 : min a (i + 1) = a := by omega
    have m2 : min a i = a := by omega
    simp only [wilkR, m1, m2]

theorem wilkR_pivot {n i : Nat} (hi : i < n) :
    wilkR n i i i ≠ 0 ∧ ∀ k, i < k → k < n → |wilkR n i k i| ≤ |wilkR n i i i| := by
  by_cases hin : i = n - 1
  · refine ⟨?_, fun k h1 h2 => by omega⟩
    simp only [wilkR, hin, if_true]
    exact pow_ne_zero _ two_ne_zero
  · refine ⟨by simp [wilkR, hin], ?_⟩
    intro k h1 _
    simp [wilkR, hin, h1]

/-- **Wilkinson's matrix**: on every `n × n` matrix `A` (over the exact model) with `1` on the
diagonal, `−1` below, `0` above and `1` in the last column, `luDecomp` succeeds without any row
exchange and the in-place result is `wilk n n`: in particular its last diagonal entry is `2^(n−1)` -/
theorem luDecomp_wilkinson {n : Nat} {A : Mat (Fl FlModel.exact)} (hA : Is A n n (wilk n 0)) :
    ∃ s, luDecomp A = .ok s ∧ s.pivots = 0 ∧ Is s.lu n n (wilk n n) := by
  unfold luDecomp
  have h2 : ¬ A.rows ≠ A.cols := by rw [hA.rows, hA.cols]; simp
  obtain ⟨p, hp, hIp⟩ := eye_spec (K := Fl FlModel.exact) n
  simp only [h2, if_false]
  simp only [hA.rows, hp, bind, Except.bind]
  obtain ⟨s, hs, hP1, hP2⟩ := forM'_inv
    (fun i (s : LU (Fl FlModel.exact)) => s.pivots = 0 ∧ Is s.lu n n (wilk n i))
    0 n { lu := A, perm := p, pivots := 0 } luStep (Nat.zero_le _) ⟨rfl, hA⟩ (by
      intro i s _ hi ⟨hpv, hI⟩
      obtain ⟨hp0, hpd⟩ := wilkR_pivot hi
      obtain ⟨l', hl', hw', he⟩ := luStep_diag_total (s := s) hI.wfn hi
        (by rw [hI.ent_eq hi hi]; exact hp0)
        (by
          intro k h1 h2
          rw [hI.ent_eq h2 hi, hI.ent_eq hi hi]
          exact hpd k h1 h2)
      refine ⟨_, hl', hpv, hw'.is.congr ?_⟩
      intro a c ha hc
      rw [he a c ha hc]
      apply Fl.ext
      show _ = wilkR n (i + 1) a c
      rw [wilkR_step hi ha hc]
      by_cases hia : i < a
      · simp only [hia, if_true]
        by_cases hci : c = i
        · simp only [hci, if_true]
          rw [hI.ent_eq ha hi, hI.ent_eq hi hi]
          rfl
        · simp only [hci, if_false]
          by_cases hic : i < c
          · simp only [hic, if_true]
            rw [hI.ent_eq ha hi, hI.ent_eq hi hi, hI.ent_eq ha hc, hI.ent_eq hi hc]
            rfl
          · simp only [hic, if_false]
            rw [hI.ent_eq ha hc]
            rfl
      · simp only [hia, if_false]
        rw [hI.ent_eq ha hc]
        rfl)
  exact ⟨s, hs, hP1, hP2⟩

/-- a matrix with prescribed entries -/
def matOfFn {K : Type} (n : Nat) (e : Nat → Nat → K) : Mat K :=
  ⟨Array.ofFn (n := n * n) (fun k => e (k.val / n) (k.val % n)), n, n⟩

theorem matOfFn_is {K : Type} (n : Nat) (e : Nat → Nat → K) : Is (matOfFn n e) n n e := by
  refine ⟨by simp [matOfFn, WF], rfl, rfl, ?_⟩
  intro i j hi hj
  have hlt : i * n + j < n * n := idx_lt hi hj
  have hn : 0 < n := by omega
  have e1 : (i * n + j) / n = i := by
    rw [Nat.mul_comm, Nat.mul_add_div hn, Nat.div_eq_of_lt hj, Nat.add_zero]
  have e2 : (i * n + j) % n = j := by
    rw [Nat.mul_comm, Nat.mul_add_mod, Nat.mod_eq_of_lt hj]
  simp [Mat.get, matOfFn, aget, hlt, e1, e2]

end Wilkinson

/-! ### the largest absolute entry -/

section MaxEnt

/-- `max_{r,c<n} |F r c|` (and `0` for `n = 0`) -/
def maxEnt (n : Nat) (F : Nat → Nat → ℝ) : ℝ := maxRow n (fun r => maxRow n (fun c => |F r c|))

theorem maxEnt_nonneg (n : Nat) (F : Nat → Nat → ℝ) : 0 ≤ maxEnt n F := maxRow_nonneg _ _

theorem abs_le_maxEnt {n : Nat} (F : Nat → Nat → ℝ) {r c : Nat} (hr : r < n) (hc : c < n) :
    |F r c| ≤ maxEnt n F :=
  (le_maxRow (fun c => |F r c|) hc).trans (le_maxRow (fun r => maxRow n (fun c => |F r c|)) hr)

theorem maxEnt_le {n : Nat} (F : Nat → Nat → ℝ) {b : ℝ} (hb : 0 ≤ b)
    (h : ∀ r c, r < n → c < n → |F r c| ≤ b) : maxEnt n F ≤ b :=
  maxRow_le _ hb (fun r hr => maxRow_le _ hb (fun c hc => h r c hr hc))

/-- `max |a_ij| ≤ ‖A‖_∞` -/
theorem maxEnt_le_rowNorm (n : Nat) (F : Nat → Nat → ℝ) : maxEnt n F ≤ rowNorm n F := by
  refine maxEnt_le F (rowNorm_nonneg n F) ?_
  intro r c hr hc
  refine le_trans ?_ (row_le_rowNorm F hr)
  exact Finset.single_le_sum (f := fun c => |F r c|) (fun _ _ => abs_nonneg _)
    (Finset.mem_range.mpr hc)

/-- `‖F‖_∞ ≤ n · max |f_ij|` -/
theorem rowNorm_le_of_entries {n : Nat} (F : Nat → Nat → ℝ) {b : ℝ} (hb : 0 ≤ b)
    (h : ∀ r c, r < n → c < n → |F r c| ≤ b) : rowNorm n F ≤ n * b := by
  refine rowNorm_le F (by positivity) ?_
  intro r hr
  calc ∑ c ∈ Finset.range n, |F r c| ≤ ∑ c ∈ Finset.range n, b :=
        Finset.sum_le_sum (fun c hc => h r c hr (Finset.mem_range.mp hc))
    _ = n * b := by rw [Finset.sum_const, Finset.card_range, nsmul_eq_mul]

end MaxEnt

end Mat
end Ohsl
