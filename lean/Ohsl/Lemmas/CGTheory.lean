/-
  Ohsl.Lemmas.CGTheory — the classical theory of the conjugate-gradient recurrences, for the
  model's `cgStep` / `solveCG` (Ohsl/Model/Krylov.lean) at the real interpretation.

  Setting: `V` a real vector space, `dot` a symmetric positive-definite bilinear form on it,
  `A : V →ₗ[ℝ] V` self-adjoint and positive definite for `dot` (structure `SPD`),
  `norm2 v = √(dot v v)`, comparison `Transc.le = (· ≤ ·)`.

  * `next` / `seq`    the state with which `cgStep` continues / after `k` unstopped iterations
  * `Inv`, `inv_of_nonzero`  orthogonality of the residuals, conjugacy of the directions
  * `exists_zero_residual`   some residual `r_k`, `k ≤ dim V`, vanishes
  * `cgRun`           the state of the model's loop after `k` iterations (`none` once it returned)
  * `solveCG_terminates`, `solveCG_exact`, `energy_decrease`
-/
import Ohsl.Props.C08
import Ohsl.Lemmas.RealTransc
import Mathlib.LinearAlgebra.BilinearForm.Orthogonal
import Mathlib.LinearAlgebra.Dimension.Finite
import Mathlib.Tactic.Ring
import Mathlib.Tactic.Linarith
import Mathlib.Tactic.FieldSimp

set_option linter.unusedSectionVars false
set_option linter.unusedVariables false

namespace Ohsl.CGTheory
open Ohsl Ohsl.Krylov Ohsl.Props.C08

/-! ### the loop, structurally (any scalar type, any operations) -/
section Structural
variable {K V : Type} [Add K] [Sub K] [Mul K] [Neg K] [Div K] [Zero K] [One K] [BEq K] [Transc K]

/-- the state with which `cgStep` continues when its stopping test fails -/
def next (o : VOps K V) (normb : K) (i : Nat) (s : CGState K V) : CGState K V :=
  let rho := o.dot s.r s.r
  let p := cgDir o i s.r s.p rho s.rho1
  let q := o.A p
  let alpha := rho / o.dot p q
  let r := o.sub s.r (o.smul q alpha)
  ⟨o.add s.x (o.smul p alpha), r, p, rho, o.norm2 r / normb⟩

theorem cgStep_eq (o : VOps K V) (normb tol : K) (i : Nat) (s : CGState K V) :
    cgStep o normb tol i s =
      if Transc.le (next o normb i s).resid tol then
        .done ⟨true, i, (next o normb i s).resid, (next o normb i s).x⟩
      else .cont (next o normb i s) := rfl

/-- the state `solveCG` enters its loop with -/
def init (o : VOps K V) (b x : V) : CGState K V :=
  ⟨x, o.sub b (o.A x), o.zero, 1, o.norm2 (o.sub b (o.A x)) / guardNorm (o.norm2 b)⟩

theorem solveCG_eq (o : VOps K V) (b x : V) (maxIter : Nat) (tol : K) :
    solveCG o b x maxIter tol =
      if Transc.le (init o b x).resid tol then ⟨true, 0, (init o b x).resid, x⟩
      else iterate (cgStep o (guardNorm (o.norm2 b)) tol)
        (fun s => ⟨false, maxIter, s.resid, s.x⟩) maxIter 1 (init o b x) := rfl

/-- the state after `k` iterations none of which stopped -/
def seq (o : VOps K V) (b x : V) : Nat → CGState K V
  | 0 => init o b x
  | k + 1 => next o (guardNorm (o.norm2 b)) (k + 1) (seq o b x k)

/-- **the state of the model's CG loop after `k` iterations**: `none` once `solveCG` has returned
    (initial test or the test of some iteration `≤ k` passed) -/
def cgRun (o : VOps K V) (b x : V) (tol : K) : Nat → Option (CGState K V)
  | 0 => if Transc.le (init o b x).resid tol then none else some (init o b x)
  | k + 1 =>
    match cgRun o b x tol k with
    | none => none
    | some s =>
      match cgStep o (guardNorm (o.norm2 b)) tol (k + 1) s with
      | .cont s' => some s'
      | .done _ => none

/-- `cgRun` is the loop of `solveCG`: while `cgRun k = some s`, the call is still running and is
    about to execute iteration `k + 1` from state `s` with `maxIter - k` iterations left. -/
theorem cgRun_spec (o : VOps K V) (b x : V) (maxIter : Nat) (tol : K) :
    ∀ (k : Nat) (s : CGState K V), cgRun o b x tol k = some s → k ≤ maxIter →
      solveCG o b x maxIter tol =
        iterate (cgStep o (guardNorm (o.norm2 b)) tol) (fun s => ⟨false, maxIter, s.resid, s.x⟩)
          (maxIter - k) (k + 1) s
  | 0, s, h, _ => by
    rw [solveCG_eq]
    unfold cgRun at h
    split at h
    · simp at h
    · rename_i hc
      simp only [Option.some.injEq] at h
      subst h
      rw [if_neg hc]; rfl
  | k + 1, s, h, hk => by
    unfold cgRun at h
    split at h
    · simp at h
    · rename_i s0 hs0
      split at h
      · rename_i s' hs'
        simp only [Option.some.injEq] at h
        subst h
        rw [cgRun_spec o b x maxIter tol k s0 hs0 (by omega)]
        have e : maxIter - k = (maxIter - (k + 1)) + 1 := by omega
        rw [e, iterate, hs']
      · simp at h

/-- an unstopped run follows `seq`, and none of the tests passed -/
theorem cgRun_eq_seq (o : VOps K V) (b x : V) (tol : K) :
    ∀ (k : Nat) (s : CGState K V), cgRun o b x tol k = some s →
      s = seq o b x k ∧ ∀ j, j ≤ k → Transc.le (seq o b x j).resid tol = false
  | 0, s, h => by
    unfold cgRun at h
    split at h
    · simp at h
    · rename_i hc
      simp only [Option.some.injEq] at h
      refine ⟨h.symm, ?_⟩
      intro j hj
      have : j = 0 := by omega
      subst this
      simpa [seq] using hc
  | k + 1, s, h => by
    unfold cgRun at h
    split at h
    · simp at h
    · rename_i s0 hs0
      obtain ⟨e0, hn⟩ := cgRun_eq_seq o b x tol k s0 hs0
      rw [cgStep_eq] at h
      by_cases hc : Transc.le (next o (guardNorm (o.norm2 b)) (k + 1) s0).resid tol = true
      · rw [if_pos hc] at h; simp at h
      · rw [if_neg hc] at h
        simp only [Option.some.injEq] at h
        subst e0
        refine ⟨h.symm, ?_⟩
        intro j hj
        rcases Nat.lt_or_ge j (k + 1) with hlt | hge
        · exact hn j (by omega)
        · have : j = k + 1 := by omega
          subst this
          simpa [seq] using hc

/-- if some test along `seq` passes at an index the budget reaches, the loop reports success no
    later than that index -/
theorem iterate_seq_success (o : VOps K V) (b x : V) (maxIter : Nat) (tol : K) :
    ∀ (rem j k : Nat), j < k → k ≤ j + rem → Transc.le (seq o b x k).resid tol = true →
      (iterate (cgStep o (guardNorm (o.norm2 b)) tol) (fun s => (⟨false, maxIter, s.resid, s.x⟩ : KOut K V))
          rem (j + 1) (seq o b x j)).ok = true ∧
      (iterate (cgStep o (guardNorm (o.norm2 b)) tol) (fun s => (⟨false, maxIter, s.resid, s.x⟩ : KOut K V))
          rem (j + 1) (seq o b x j)).iters ≤ k
  | 0, j, k, h1, h2, _ => by omega
  | rem + 1, j, k, h1, h2, hk => by
    rw [iterate, cgStep_eq]
    by_cases hc : Transc.le (next o (guardNorm (o.norm2 b)) (j + 1) (seq o b x j)).resid tol = true
    · rw [if_pos hc]
      exact ⟨rfl, h1⟩
    · rw [if_neg hc]
      have hne : k ≠ j + 1 := by
        rintro rfl
        exact hc hk
      exact iterate_seq_success o b x maxIter tol rem (j + 1) k (by omega) (by omega) hk

/-- success of `solveCG` from a passing test along `seq` -/
theorem solveCG_success_of_seq (o : VOps K V) (b x : V) (maxIter : Nat) (tol : K) (k : Nat)
    (hk : k ≤ maxIter) (hpass : Transc.le (seq o b x k).resid tol = true) :
    (solveCG o b x maxIter tol).ok = true ∧ (solveCG o b x maxIter tol).iters ≤ k := by
  rw [solveCG_eq]
  by_cases hc : Transc.le (init o b x).resid tol = true
  · rw [if_pos hc]; exact ⟨rfl, Nat.zero_le _⟩
  · rw [if_neg hc]
    have hk0 : 0 < k := by
      rcases Nat.eq_zero_or_pos k with h | h
      · subst h; exact absurd hpass hc
      · exact h
    exact iterate_seq_success o b x maxIter tol maxIter 0 k hk0 (by omega) hpass

end Structural

/-! ### the exact theory -/
section Exact
variable {V : Type} [AddCommGroup V] [Module ℝ V]

/-- `dot` is a symmetric positive-definite bilinear form and `A` is self-adjoint and positive
    definite with respect to it -/
structure SPD (A : V →ₗ[ℝ] V) (dot : V → V → ℝ) : Prop where
  add_left : ∀ u v w, dot (u + v) w = dot u w + dot v w
  smul_left : ∀ (c : ℝ) u v, dot (c • u) v = c * dot u v
  comm : ∀ u v, dot u v = dot v u
  pos : ∀ v, v ≠ 0 → 0 < dot v v
  A_symm : ∀ u v, dot (A u) v = dot u (A v)
  A_pos : ∀ v, v ≠ 0 → 0 < dot v (A v)

namespace SPD
variable {A : V →ₗ[ℝ] V} {dot : V → V → ℝ} (h : SPD A dot)
include h

theorem add_right (u v w : V) : dot u (v + w) = dot u v + dot u w := by
  rw [h.comm, h.add_left, h.comm v, h.comm w]

theorem smul_right (c : ℝ) (u v : V) : dot u (c • v) = c * dot u v := by
  rw [h.comm, h.smul_left, h.comm]

theorem zero_left (v : V) : dot 0 v = 0 := by
  have := h.smul_left 0 0 v
  simpa using this

theorem zero_right (v : V) : dot v 0 = 0 := by rw [h.comm, h.zero_left]

theorem neg_left (u v : V) : dot (-u) v = - dot u v := by
  have := h.smul_left (-1) u v
  simpa using this

theorem neg_right (u v : V) : dot u (-v) = - dot u v := by rw [h.comm, h.neg_left, h.comm]

theorem sub_left (u v w : V) : dot (u - v) w = dot u w - dot v w := by
  rw [sub_eq_add_neg, h.add_left, h.neg_left]; ring

theorem sub_right (u v w : V) : dot u (v - w) = dot u v - dot u w := by
  rw [h.comm, h.sub_left, h.comm v, h.comm w]

theorem self_nonneg (v : V) : 0 ≤ dot v v := by
  by_cases hv : v = 0
  · subst hv; rw [h.zero_left]
  · exact (h.pos v hv).le

theorem self_eq_zero {v : V} : dot v v = 0 ↔ v = 0 := by
  constructor
  · intro h0
    by_contra hv
    exact absurd h0 (h.pos v hv).ne'
  · rintro rfl; exact h.zero_left 0

theorem self_pos {v : V} : 0 < dot v v ↔ v ≠ 0 := by
  constructor
  · intro hp hv; subst hv; rw [h.zero_left] at hp; exact lt_irrefl _ hp
  · exact h.pos v

theorem quad_sub (e w : V) :
    dot (e - w) (A (e - w)) = dot e (A e) - 2 * dot w (A e) + dot w (A w) := by
  rw [map_sub, h.sub_left, h.sub_right, h.sub_right, ← h.A_symm e w, h.comm (A e) w]; ring

/-- the bilinear form as a Mathlib object -/
noncomputable def bilin : LinearMap.BilinForm ℝ V :=
  LinearMap.mk₂ ℝ dot h.add_left h.smul_left h.add_right h.smul_right

theorem bilin_apply (u v : V) : h.bilin u v = dot u v := rfl

/-- nonzero mutually orthogonal vectors are linearly independent -/
theorem linearIndependent_of_orth {ι : Type} (v : ι → V) (hne : ∀ i, v i ≠ 0)
    (horth : ∀ i j, i ≠ j → dot (v i) (v j) = 0) : LinearIndependent ℝ v := by
  apply LinearMap.BilinForm.linearIndependent_of_iIsOrtho (B := h.bilin)
  · rw [LinearMap.BilinForm.iIsOrtho_def]
    intro i j hij
    exact horth i j hij
  · intro i
    rw [h.bilin_apply]
    exact (h.pos _ (hne i)).ne'

end SPD

variable (A : V →ₗ[ℝ] V) (At : V → V) (dot : V → V → ℝ)

/-- the model's vector operations in this setting: `norm2 v = √(dot v v)` -/
noncomputable def cgOps : VOps ℝ V := modOps A At dot (fun v => Real.sqrt (dot v v))

theorem guardNorm_pos {nb : ℝ} (hnb : 0 ≤ nb) : 0 < guardNorm nb := by
  unfold guardNorm
  split
  · exact one_pos
  · rename_i hne
    have : nb ≠ 0 := by simpa using hne
    exact lt_of_le_of_ne hnb (Ne.symm this)

theorem le_iff (a b : ℝ) : Transc.le a b = true ↔ a ≤ b := by
  simp [Transc.le]

theorem le_false_iff (a b : ℝ) : Transc.le a b = false ↔ b < a := by
  simp [Transc.le]

/-! #### the recurrences of `seq` -/
variable (b x0 : V)

local notation "S" => seq (cgOps A At dot) b x0
local notation "nb" => guardNorm (Real.sqrt (dot b b))

theorem seq_zero_x : (S 0).x = x0 := rfl
theorem seq_zero_r : (S 0).r = b - A x0 := rfl
theorem seq_zero_p : (S 0).p = 0 := rfl
theorem seq_zero_rho1 : (S 0).rho1 = 1 := rfl

theorem seq_succ_rho1 (k : ℕ) : (S (k + 1)).rho1 = dot (S k).r (S k).r := rfl

theorem seq_succ_p (k : ℕ) :
    (S (k + 1)).p = (S k).r + (dot (S k).r (S k).r / (S k).rho1) • (S k).p := by
  cases k with
  | zero =>
    show cgDir (cgOps A At dot) 1 (S 0).r (S 0).p (dot (S 0).r (S 0).r) (S 0).rho1 = _
    rw [seq_zero_p]
    simp [cgDir]
  | succ k =>
    show cgDir (cgOps A At dot) (k + 1 + 1) (S (k + 1)).r (S (k + 1)).p
      (dot (S (k + 1)).r (S (k + 1)).r) (S (k + 1)).rho1 = _
    simp [cgDir, cgOps, modOps]

theorem seq_succ_r (k : ℕ) :
    (S (k + 1)).r = (S k).r -
      (dot (S k).r (S k).r / dot (S (k + 1)).p (A (S (k + 1)).p)) • A (S (k + 1)).p := rfl

theorem seq_succ_x (k : ℕ) :
    (S (k + 1)).x = (S k).x +
      (dot (S k).r (S k).r / dot (S (k + 1)).p (A (S (k + 1)).p)) • (S (k + 1)).p := rfl

theorem seq_resid (k : ℕ) : (S k).resid = Real.sqrt (dot (S k).r (S k).r) / nb := by
  cases k <;> rfl

/-- the recurrence residual is the true residual (any bilinear data) -/
theorem seq_residual (k : ℕ) : (S k).r = b - A (S k).x := by
  induction k with
  | zero => rfl
  | succ k ih =>
    rw [seq_succ_r, seq_succ_x, ih, map_add, map_smul]
    abel

/-! #### the invariant: orthogonal residuals, conjugate directions -/

local notation "R(" j ")" => CGState.r (seq (cgOps A At dot) b x0 j)
local notation "P(" j ")" => CGState.p (seq (cgOps A At dot) b x0 j)

/-- the classical CG invariant after `k` iterations -/
structure Inv (k : ℕ) : Prop where
  r_orth : ∀ i j, i < j → j ≤ k → dot R(i) R(j) = 0
  p_conj : ∀ i j, 1 ≤ i → i < j → j ≤ k → dot P(i) (A P(j)) = 0
  rp : ∀ j, j ≤ k → dot R(k) P(j) = 0
  pAp : ∀ j, 1 ≤ j → j ≤ k → 0 < dot P(j) (A P(j))

local notation "X(" j ")" => CGState.x (seq (cgOps A At dot) b x0 j)

/-- the energy (squared `A`-norm) of the error of `x` with respect to a solution `xs` -/
def energy (xs x : V) : ℝ := dot (xs - x) (A (xs - x))

/-- the span of the search directions `p_1, …, p_k` -/
def dirSpan (k : ℕ) : Submodule ℝ V :=
  Submodule.span ℝ ((fun j => P(j)) '' {j | 1 ≤ j ∧ j ≤ k})

/-- the Krylov space `span {v, A v, …, A^(k-1) v}` -/
def krylov (v : V) (k : ℕ) : Submodule ℝ V :=
  Submodule.span ℝ ((fun j => (A ^ j) v) '' {j | j < k})

variable {A dot}

theorem inv_zero (h : SPD A dot) : Inv A At dot b x0 0 where
  r_orth := by intro i j h1 h2; omega
  p_conj := by intro i j h1 h2 h3; omega
  rp := by
    intro j hj
    have : j = 0 := by omega
    subst this
    rw [seq_zero_p, h.zero_right]
  pAp := by intro j h1 h2; omega

theorem inv_succ (h : SPD A dot) (k : ℕ) (hk : Inv A At dot b x0 k)
    (hr : ∀ j, j ≤ k → R(j) ≠ 0) : Inv A At dot b x0 (k + 1) := by
  have hρpos : 0 < dot R(k) R(k) := h.pos _ (hr k le_rfl)
  have hP := seq_succ_p A At dot b x0 k
  have hR := seq_succ_r A At dot b x0 k
  have hrP : dot R(k) P(k + 1) = dot R(k) R(k) := by
    rw [hP, h.add_right, h.smul_right, hk.rp k le_rfl]; ring
  have hPne : P(k + 1) ≠ 0 := by
    intro h0
    rw [h0, h.zero_right] at hrP
    exact hρpos.ne hrP
  have hdpos : 0 < dot P(k + 1) (A P(k + 1)) := h.A_pos _ hPne
  have hαd : dot R(k) R(k) / dot P(k + 1) (A P(k + 1)) * dot P(k + 1) (A P(k + 1)) = dot R(k) R(k) :=
    div_mul_cancel₀ _ hdpos.ne'
  -- conjugacy of the new direction to the old ones
  have hconj : ∀ i, 1 ≤ i → i ≤ k → dot P(i) (A P(k + 1)) = 0 := by
    intro i hi1 hik
    obtain ⟨m, rfl⟩ : ∃ m, i = m + 1 := ⟨i - 1, by omega⟩
    have hρm : 0 < dot R(m) R(m) := h.pos _ (hr m (by omega))
    have hdm : 0 < dot P(m + 1) (A P(m + 1)) := hk.pAp (m + 1) hi1 hik
    have hαm : 0 < dot R(m) R(m) / dot P(m + 1) (A P(m + 1)) := div_pos hρm hdm
    have hRm := seq_succ_r A At dot b x0 m
    have hAp : (dot R(m) R(m) / dot P(m + 1) (A P(m + 1))) • A P(m + 1) = R(m) - R(m + 1) := by
      rw [hRm]; abel
    have e1 : ∀ w, dot R(m) R(m) / dot P(m + 1) (A P(m + 1)) * dot (A P(m + 1)) w
        = dot R(m) w - dot R(m + 1) w := by
      intro w
      rw [← h.smul_left, hAp, h.sub_left]
    have key : dot R(m) R(m) / dot P(m + 1) (A P(m + 1)) * dot (A P(m + 1)) P(k + 1) = 0 := by
      rw [hP, h.add_right, h.smul_right, mul_add, e1, mul_left_comm, e1]
      rcases Nat.lt_or_ge (m + 1) k with hlt | hge
      · rw [hk.r_orth m k (by omega) le_rfl, hk.r_orth (m + 1) k hlt le_rfl]
        have := e1 P(k)
        rw [h.A_symm, hk.p_conj (m + 1) k hi1 hlt le_rfl, mul_zero] at this
        rw [← this]; ring
      · have hmk : m + 1 = k := by omega
        subst hmk
        rw [hk.r_orth m (m + 1) (by omega) le_rfl]
        have e2 := e1 P(m + 1)
        rw [h.A_symm, div_mul_cancel₀ _ hdm.ne'] at e2
        rw [← e2, seq_succ_rho1]
        field_simp
        ring
    rw [← h.A_symm]
    exact (mul_eq_zero.mp key).resolve_left hαm.ne'
  have hconj0 : ∀ i, i ≤ k → dot P(i) (A P(k + 1)) = 0 := by
    intro i hik
    rcases Nat.eq_zero_or_pos i with h0 | h0
    · subst h0; rw [seq_zero_p, h.zero_left]
    · exact hconj i h0 hik
  have hRAP : ∀ i, i ≤ k → dot R(i) (A P(k + 1)) = dot P(i + 1) (A P(k + 1)) := by
    intro i hik
    have hPi := seq_succ_p A At dot b x0 i
    rw [hPi, h.add_left, h.smul_left, hconj0 i hik]; ring
  refine ⟨?_, ?_, ?_, ?_⟩
  · intro i j hij hj
    rcases Nat.lt_or_ge j (k + 1) with hlt | hge
    · exact hk.r_orth i j hij (by omega)
    · have hjk : j = k + 1 := by omega
      subst hjk
      rw [hR, h.sub_right, h.smul_right, hRAP i (by omega)]
      rcases Nat.lt_or_ge i k with hlt | hge
      · rw [hk.r_orth i k hlt le_rfl, hconj (i + 1) (by omega) (by omega)]; ring
      · have hik : i = k := by omega
        subst hik
        rw [hαd]; ring
  · intro i j hi1 hij hj
    rcases Nat.lt_or_ge j (k + 1) with hlt | hge
    · exact hk.p_conj i j hi1 hij (by omega)
    · have hjk : j = k + 1 := by omega
      subst hjk
      exact hconj i hi1 (by omega)
  · intro j hj
    rcases Nat.lt_or_ge j (k + 1) with hlt | hge
    · rw [hR, h.sub_left, h.smul_left, hk.rp j (by omega), h.comm (A P(k + 1)), hconj0 j (by omega)]
      ring
    · have hjk : j = k + 1 := by omega
      subst hjk
      rw [hR, h.sub_left, h.smul_left, hrP, h.A_symm, hαd]
      ring
  · intro j hj1 hj
    rcases Nat.lt_or_ge j (k + 1) with hlt | hge
    · exact hk.pAp j hj1 (by omega)
    · have hjk : j = k + 1 := by omega
      subst hjk
      exact hdpos

/-- **CG invariant**: while all residuals so far are nonzero, they are mutually orthogonal and the
    search directions are mutually `A`-conjugate -/
theorem inv_of_nonzero (h : SPD A dot) :
    ∀ k, (∀ j, j < k → R(j) ≠ 0) → Inv A At dot b x0 k
  | 0, _ => inv_zero At b x0 h
  | k + 1, hr =>
    inv_succ At b x0 h k (inv_of_nonzero h k (fun j hj => hr j (by omega)))
      (fun j hj => hr j (by omega))

/-! #### finite termination -/

/-- a zero residual makes the tested quantity zero -/
theorem seq_resid_zero (h : SPD A dot) (k : ℕ) (hz : R(k) = 0) : (S k).resid = 0 := by
  rw [seq_resid, hz, h.zero_left]; simp

/-- with `tol ≥ 0`, a failing stopping test means a nonzero residual -/
theorem nonzero_of_test_fails (h : SPD A dot) (tol : ℝ) (htol : 0 ≤ tol) (k : ℕ)
    (hf : Transc.le (S k).resid tol = false) : R(k) ≠ 0 := by
  intro hz
  rw [seq_resid_zero At b x0 h k hz, le_false_iff] at hf
  linarith

/-- **some residual among `r_0, …, r_n` vanishes** when `dim V ≤ n`: otherwise they would be
    `n + 1` nonzero mutually orthogonal vectors -/
theorem exists_zero_residual (h : SPD A dot) [Module.Finite ℝ V] (n : ℕ)
    (hn : Module.finrank ℝ V ≤ n) : ∃ k, k ≤ n ∧ R(k) = 0 := by
  by_contra hex
  have hne : ∀ k, k ≤ n → R(k) ≠ 0 := fun k hk hz => hex ⟨k, hk, hz⟩
  have hinv := inv_of_nonzero At b x0 h n (fun j hj => hne j (by omega))
  have hli : LinearIndependent ℝ (fun i : Fin (n + 1) => R(i.val)) := by
    apply h.linearIndependent_of_orth
    · intro i; exact hne i.val (by omega)
    · intro i j hij
      have hv : i.val ≠ j.val := fun e => hij (Fin.ext e)
      rcases Nat.lt_or_ge i.val j.val with hlt | hge
      · exact hinv.r_orth _ _ hlt (by omega)
      · rw [h.comm]; exact hinv.r_orth _ _ (by omega) (by omega)
  have := hli.fintype_card_le_finrank
  simp only [Fintype.card_fin] at this
  omega

/-- **finite termination of the model's `solveCG`** -/
theorem solveCG_terminates (h : SPD A dot) [Module.Finite ℝ V] (n : ℕ)
    (hn : Module.finrank ℝ V ≤ n) (maxIter : ℕ) (hmax : n ≤ maxIter) (tol : ℝ) (htol : 0 ≤ tol) :
    (solveCG (cgOps A At dot) b x0 maxIter tol).ok = true ∧
      (solveCG (cgOps A At dot) b x0 maxIter tol).iters ≤ n := by
  obtain ⟨k, hk, hz⟩ := exists_zero_residual At b x0 h n hn
  have := solveCG_success_of_seq (cgOps A At dot) b x0 maxIter tol k (by omega)
    (by rw [seq_resid_zero At b x0 h k hz, le_iff]; exact htol)
  exact ⟨this.1, this.2.trans hk⟩

/-- a reported success with `tol ≤ 0` means the system is solved exactly -/
theorem solveCG_exact_of_ok (h : SPD A dot) (maxIter : ℕ) (tol : ℝ) (htol : tol ≤ 0)
    (hok : (solveCG (cgOps A At dot) b x0 maxIter tol).ok = true) :
    A (solveCG (cgOps A At dot) b x0 maxIter tol).x = b := by
  have hs := cg_success_sound A At dot (fun v => Real.sqrt (dot v v)) b x0 maxIter tol hok
  rw [le_iff] at hs
  have hnb : 0 < guardNorm (Real.sqrt (dot b b)) := guardNorm_pos (Real.sqrt_nonneg _)
  set r := b - A (solveCG (modOps A At dot fun v => Real.sqrt (dot v v)) b x0 maxIter tol).x with hr
  have h1 : Real.sqrt (dot r r) ≤ 0 := by
    have := (div_le_iff₀ hnb).mp (hs.trans htol)
    simpa using this
  have h2 : dot r r ≤ 0 := Real.sqrt_eq_zero'.mp (le_antisymm h1 (Real.sqrt_nonneg _))
  have h3 : r = 0 := h.self_eq_zero.mp (le_antisymm h2 (h.self_nonneg r))
  have h4 : b = A (solveCG (modOps A At dot fun v => Real.sqrt (dot v v)) b x0 maxIter tol).x :=
    sub_eq_zero.mp (hr ▸ h3)
  exact h4.symm

/-- **with `tol = 0` and a budget `≥ dim V` the model's CG returns the exact solution** -/
theorem solveCG_exact (h : SPD A dot) [Module.Finite ℝ V] (n : ℕ)
    (hn : Module.finrank ℝ V ≤ n) (maxIter : ℕ) (hmax : n ≤ maxIter) :
    A (solveCG (cgOps A At dot) b x0 maxIter 0).x = b :=
  solveCG_exact_of_ok At b x0 h maxIter 0 le_rfl
    (solveCG_terminates At b x0 h n hn maxIter hmax 0 le_rfl).1

/-! #### the running loop satisfies the invariant -/

/-- while the model's loop is running (`cgRun k = some s`, `tol ≥ 0`), its state is `seq k`, all
    residuals so far are nonzero and the invariant holds -/
theorem cgRun_inv (h : SPD A dot) (tol : ℝ) (htol : 0 ≤ tol) (k : ℕ) (s : CGState ℝ V)
    (hs : cgRun (cgOps A At dot) b x0 tol k = some s) :
    s = S k ∧ (∀ j, j ≤ k → R(j) ≠ 0) ∧ Inv A At dot b x0 k := by
  obtain ⟨e, hf⟩ := cgRun_eq_seq (cgOps A At dot) b x0 tol k s hs
  have hne : ∀ j, j ≤ k → R(j) ≠ 0 := fun j hj =>
    nonzero_of_test_fails At b x0 h tol htol j (hf j hj)
  exact ⟨e, hne, inv_of_nonzero At b x0 h k (fun j hj => hne j (by omega))⟩

/-! #### well-definedness of the divisions -/

theorem r_dot_next_dir (h : SPD A dot) (k : ℕ) (hk : Inv A At dot b x0 k) :
    dot R(k) P(k + 1) = dot R(k) R(k) := by
  rw [seq_succ_p, h.add_right, h.smul_right, hk.rp k le_rfl]; ring

/-- the divisor of `β` in iteration `k + 1` is positive -/
theorem rho1_pos (h : SPD A dot) (k : ℕ) (hr : ∀ j, j < k → R(j) ≠ 0) : 0 < (S k).rho1 := by
  cases k with
  | zero => rw [seq_zero_rho1]; exact one_pos
  | succ k => rw [seq_succ_rho1]; exact h.pos _ (hr k (by omega))

/-- the direction of iteration `k + 1` is nonzero and the divisor of `α` is positive -/
theorem next_dir_pos (h : SPD A dot) (k : ℕ) (hr : ∀ j, j ≤ k → R(j) ≠ 0) :
    P(k + 1) ≠ 0 ∧ 0 < dot P(k + 1) (A P(k + 1)) := by
  have hinv := inv_of_nonzero At b x0 h (k + 1) (fun j hj => hr j (by omega))
  have hpos := hinv.pAp (k + 1) (by omega) le_rfl
  refine ⟨?_, hpos⟩
  intro h0
  rw [h0, h.zero_left] at hpos
  exact lt_irrefl _ hpos

/-! #### monotone decrease of the energy of the error -/

theorem energy_succ (h : SPD A dot) (xs : V) (hxs : A xs = b) (k : ℕ)
    (hr : ∀ j, j ≤ k → R(j) ≠ 0) :
    energy A dot xs X(k + 1) =
      energy A dot xs X(k) - dot R(k) R(k) ^ 2 / dot P(k + 1) (A P(k + 1)) := by
  have hk := inv_of_nonzero At b x0 h k (fun j hj => hr j (by omega))
  have hd := (next_dir_pos At b x0 h k hr).2
  have hrP := r_dot_next_dir At b x0 h k hk
  have hAe : A (xs - X(k)) = R(k) := by rw [map_sub, hxs, seq_residual]
  have he : xs - X(k + 1) = (xs - X(k)) -
      (dot R(k) R(k) / dot P(k + 1) (A P(k + 1))) • P(k + 1) := by
    rw [seq_succ_x]; abel
  have e1 : dot (xs - X(k)) (A P(k + 1)) = dot R(k) R(k) := by
    rw [← h.A_symm, hAe, hrP]
  have e2 : dot P(k + 1) R(k) = dot R(k) R(k) := by rw [h.comm, hrP]
  unfold energy
  rw [he, map_sub, map_smul, hAe, h.sub_left, h.sub_right, h.sub_right, h.smul_left, h.smul_left,
    h.smul_right, h.smul_right, e1, e2, ← hAe]
  field_simp
  ring

theorem energy_decrease (h : SPD A dot) (xs : V) (hxs : A xs = b) (k : ℕ)
    (hr : ∀ j, j ≤ k → R(j) ≠ 0) :
    energy A dot xs X(k + 1) < energy A dot xs X(k) := by
  rw [energy_succ At b x0 h xs hxs k hr]
  have hd := (next_dir_pos At b x0 h k hr).2
  have hρ := h.pos _ (hr k le_rfl)
  have : 0 < dot R(k) R(k) ^ 2 / dot P(k + 1) (A P(k + 1)) := by positivity
  linarith

/-! #### optimality: `x_k` minimises the energy over `x0 + span {p_1, …, p_k} = x0 + K_k` -/

theorem dirSpan_mono {j k : ℕ} (hjk : j ≤ k) :
    dirSpan A At dot b x0 j ≤ dirSpan A At dot b x0 k := by
  apply Submodule.span_mono
  apply Set.image_mono
  intro i hi
  exact ⟨hi.1, hi.2.trans hjk⟩

theorem dir_mem_dirSpan {j k : ℕ} (hj : j ≤ k) : P(j) ∈ dirSpan A At dot b x0 k := by
  rcases Nat.eq_zero_or_pos j with h0 | h0
  · subst h0; rw [seq_zero_p]; exact Submodule.zero_mem _
  · exact Submodule.subset_span ⟨j, ⟨h0, hj⟩, rfl⟩

theorem x_mem_dirSpan (k : ℕ) : X(k) - x0 ∈ dirSpan A At dot b x0 k := by
  induction k with
  | zero => rw [seq_zero_x, sub_self]; exact Submodule.zero_mem _
  | succ k ih =>
    have e : X(k + 1) - x0 = (X(k) - x0) +
        (dot R(k) R(k) / dot P(k + 1) (A P(k + 1))) • P(k + 1) := by
      rw [seq_succ_x]; abel
    rw [e]
    exact Submodule.add_mem _ (dirSpan_mono At b x0 (Nat.le_succ k) ih)
      (Submodule.smul_mem _ _ (dir_mem_dirSpan At b x0 le_rfl))

theorem res_mem_dirSpan {j k : ℕ} (hj : j < k) : R(j) ∈ dirSpan A At dot b x0 k := by
  have e : R(j) = P(j + 1) - (dot R(j) R(j) / (S j).rho1) • P(j) := by
    rw [seq_succ_p]; abel
  rw [e]
  exact Submodule.sub_mem _ (dir_mem_dirSpan At b x0 hj)
    (Submodule.smul_mem _ _ (dir_mem_dirSpan At b x0 (by omega)))

/-- the residual `r_k` is orthogonal to all directions so far -/
theorem dot_dirSpan_res (h : SPD A dot) (k : ℕ) (hk : Inv A At dot b x0 k) (w : V)
    (hw : w ∈ dirSpan A At dot b x0 k) : dot w R(k) = 0 := by
  induction hw using Submodule.span_induction with
  | mem x hx =>
    obtain ⟨j, hj, rfl⟩ := hx
    rw [h.comm]; exact hk.rp j hj.2
  | zero => exact h.zero_left _
  | add x y _ _ hx hy => rw [h.add_left, hx, hy, add_zero]
  | smul a x _ hx => rw [h.smul_left, hx, mul_zero]

/-- **optimality over the directions**: `x_k` minimises the energy of the error over
    `x0 + span {p_1, …, p_k}` (and lies in that set, `x_mem_dirSpan`) -/
theorem energy_optimal_dir (h : SPD A dot) (xs : V) (hxs : A xs = b) (k : ℕ)
    (hk : Inv A At dot b x0 k) (y : V) (hy : y - x0 ∈ dirSpan A At dot b x0 k) :
    energy A dot xs X(k) ≤ energy A dot xs y := by
  have hw : y - X(k) ∈ dirSpan A At dot b x0 k := by
    have e : y - X(k) = (y - x0) - (X(k) - x0) := by abel
    rw [e]; exact Submodule.sub_mem _ hy (x_mem_dirSpan At b x0 k)
  have hAe : A (xs - X(k)) = R(k) := by rw [map_sub, hxs, seq_residual]
  have he : xs - y = (xs - X(k)) - (y - X(k)) := by abel
  have h0 := dot_dirSpan_res At b x0 h k hk _ hw
  have hpos : 0 ≤ dot (y - X(k)) (A (y - X(k))) := by
    by_cases hz : y - X(k) = 0
    · rw [hz, h.zero_left]
    · exact (h.A_pos _ hz).le
  unfold energy
  rw [he, h.quad_sub (xs - X(k)) (y - X(k)), hAe, h0]
  linarith

/-- `A` maps `K_j` into `K_(j+1)` -/
theorem map_krylov (v : V) (j : ℕ) (w : V) (hw : w ∈ krylov A v j) : A w ∈ krylov A v (j + 1) := by
  induction hw using Submodule.span_induction with
  | mem x hx =>
    obtain ⟨i, hi, rfl⟩ := hx
    refine Submodule.subset_span ⟨i + 1, ?_, ?_⟩
    · show i + 1 < j + 1
      have : i < j := hi
      omega
    · show (A ^ (i + 1)) v = A ((A ^ i) v)
      rw [pow_succ']; rfl
  | zero => rw [map_zero]; exact Submodule.zero_mem _
  | add x y _ _ hx hy => rw [map_add]; exact Submodule.add_mem _ hx hy
  | smul a x _ hx => rw [map_smul]; exact Submodule.smul_mem _ _ hx

theorem krylov_mono (v : V) {j k : ℕ} (hjk : j ≤ k) : krylov A v j ≤ krylov A v k := by
  apply Submodule.span_mono
  apply Set.image_mono
  intro i hi
  exact lt_of_lt_of_le hi hjk

/-- directions and residuals lie in the Krylov spaces of `r_0` (no hypothesis needed) -/
theorem dir_res_mem_krylov (k : ℕ) :
    P(k) ∈ krylov A R(0) k ∧ R(k) ∈ krylov A R(0) (k + 1) := by
  induction k with
  | zero =>
    refine ⟨by rw [seq_zero_p]; exact Submodule.zero_mem _, ?_⟩
    exact Submodule.subset_span ⟨0, Nat.zero_lt_one, rfl⟩
  | succ k ih =>
    have hp : P(k + 1) ∈ krylov A R(0) (k + 1) := by
      rw [seq_succ_p]
      exact Submodule.add_mem _ ih.2
        (Submodule.smul_mem _ _ (krylov_mono _ (Nat.le_succ k) ih.1))
    refine ⟨hp, ?_⟩
    rw [seq_succ_r]
    exact Submodule.sub_mem _ (krylov_mono _ (Nat.le_succ _) ih.2)
      (Submodule.smul_mem _ _ (map_krylov _ _ _ hp))

theorem dirSpan_le_krylov (k : ℕ) : dirSpan A At dot b x0 k ≤ krylov A R(0) k := by
  apply Submodule.span_le.mpr
  rintro _ ⟨j, hj, rfl⟩
  exact krylov_mono _ hj.2 (dir_res_mem_krylov At b x0 j).1

/-- while the residuals are nonzero, `A` maps `span {p_1..p_j}` into `span {p_1..p_(j+1)}` -/
theorem map_dirSpan (h : SPD A dot) (k : ℕ) (hr : ∀ j, j < k → R(j) ≠ 0)
    (w : V) (hw : w ∈ dirSpan A At dot b x0 k) : A w ∈ dirSpan A At dot b x0 (k + 1) := by
  have hinv := inv_of_nonzero At b x0 h k hr
  induction hw using Submodule.span_induction with
  | mem x hx =>
    obtain ⟨i, ⟨hi1, hik⟩, rfl⟩ := hx
    obtain ⟨m, rfl⟩ : ∃ m, i = m + 1 := ⟨i - 1, by omega⟩
    have hρm : 0 < dot R(m) R(m) := h.pos _ (hr m (by omega))
    have hdm : 0 < dot P(m + 1) (A P(m + 1)) := hinv.pAp (m + 1) hi1 hik
    have hαm : dot R(m) R(m) / dot P(m + 1) (A P(m + 1)) ≠ 0 := (div_pos hρm hdm).ne'
    have hAp : (dot R(m) R(m) / dot P(m + 1) (A P(m + 1))) • A P(m + 1) = R(m) - R(m + 1) := by
      rw [seq_succ_r A At dot b x0 m]; abel
    have hmem : (dot R(m) R(m) / dot P(m + 1) (A P(m + 1))) • A P(m + 1)
        ∈ dirSpan A At dot b x0 (k + 1) := by
      rw [hAp]
      exact Submodule.sub_mem _ (res_mem_dirSpan At b x0 (by omega))
        (res_mem_dirSpan At b x0 (by omega))
    exact (Submodule.smul_mem_iff _ hαm).mp hmem
  | zero => rw [map_zero]; exact Submodule.zero_mem _
  | add x y _ _ hx hy => rw [map_add]; exact Submodule.add_mem _ hx hy
  | smul a x _ hx => rw [map_smul]; exact Submodule.smul_mem _ _ hx

theorem pow_mem_dirSpan (h : SPD A dot) (k : ℕ) (hr : ∀ j, j < k → R(j) ≠ 0) :
    ∀ m, m < k → (A ^ m) R(0) ∈ dirSpan A At dot b x0 (m + 1)
  | 0, _ => by
    have : P(1) = R(0) := by rw [seq_succ_p, seq_zero_p, smul_zero, add_zero]
    rw [pow_zero, ← this]
    exact dir_mem_dirSpan At b x0 le_rfl
  | m + 1, hm => by
    have ih := pow_mem_dirSpan h k hr m (by omega)
    have : (A ^ (m + 1)) R(0) = A ((A ^ m) R(0)) := by rw [pow_succ']; rfl
    rw [this]
    exact map_dirSpan At b x0 h (m + 1) (fun j hj => hr j (by omega)) _ ih

/-- **`span {p_1, …, p_k} = K_k(A, r_0)`** while the residuals `r_0, …, r_(k-1)` are nonzero -/
theorem dirSpan_eq_krylov (h : SPD A dot) (k : ℕ) (hr : ∀ j, j < k → R(j) ≠ 0) :
    dirSpan A At dot b x0 k = krylov A R(0) k := by
  apply le_antisymm (dirSpan_le_krylov At b x0 k)
  apply Submodule.span_le.mpr
  rintro _ ⟨m, hm, rfl⟩
  exact dirSpan_mono At b x0 (by have : m < k := hm; omega) (pow_mem_dirSpan At b x0 h k hr m hm)

/-- **optimality**: while the residuals `r_0, …, r_(k-1)` are nonzero, `x_k ∈ x0 + K_k(A, r_0)` and
    it minimises the energy `⟨x* − x, A (x* − x)⟩` of the error over that affine space -/
theorem energy_optimal (h : SPD A dot) (xs : V) (hxs : A xs = b) (k : ℕ)
    (hr : ∀ j, j < k → R(j) ≠ 0) :
    X(k) - x0 ∈ krylov A (b - A x0) k ∧
      ∀ y, y - x0 ∈ krylov A (b - A x0) k → energy A dot xs X(k) ≤ energy A dot xs y := by
  have e := dirSpan_eq_krylov At b x0 h k hr
  rw [seq_zero_r] at e
  rw [← e]
  exact ⟨x_mem_dirSpan At b x0 k, fun y hy =>
    energy_optimal_dir At b x0 h xs hxs k (inv_of_nonzero At b x0 h k hr) y hy⟩

/-! #### the same facts, phrased on the states of the model's running loop (`cgRun`) -/

local notation "o" => cgOps A At dot

theorem cgRun_orthogonality (h : SPD A dot) (tol : ℝ) (htol : 0 ≤ tol) :
    (∀ i j si sj, i < j → cgRun o b x0 tol i = some si → cgRun o b x0 tol j = some sj →
      dot si.r sj.r = 0 ∧ (1 ≤ i → dot si.p (A sj.p) = 0) ∧ dot sj.r si.p = 0) ∧
    (∀ k sk, cgRun o b x0 tol k = some sk →
      sk.r = b - A sk.x ∧ 0 < dot sk.r sk.r ∧ dot sk.r sk.p = 0 ∧
      (1 ≤ k → sk.p ≠ 0 ∧ 0 < dot sk.p (A sk.p))) := by
  constructor
  · intro i j si sj hij hi hj
    obtain ⟨ei, _, _⟩ := cgRun_inv At b x0 h tol htol i si hi
    obtain ⟨ej, _, hinv⟩ := cgRun_inv At b x0 h tol htol j sj hj
    subst ei ej
    exact ⟨hinv.r_orth i j hij le_rfl, fun hi1 => hinv.p_conj i j hi1 hij le_rfl,
      hinv.rp i hij.le⟩
  · intro k sk hk
    obtain ⟨ek, hne, hinv⟩ := cgRun_inv At b x0 h tol htol k sk hk
    subst ek
    refine ⟨seq_residual A At dot b x0 k, h.pos _ (hne k le_rfl), hinv.rp k le_rfl, ?_⟩
    intro hk1
    have hpos := hinv.pAp k hk1 le_rfl
    refine ⟨?_, hpos⟩
    intro h0
    rw [h0, h.zero_left] at hpos
    exact lt_irrefl _ hpos

/-- no `0/0`: in the iteration about to be executed the divisor `rho_1` of `β` is positive (it is
    the previous `⟨r, r⟩`), the new direction is nonzero and the divisor `⟨p, A p⟩` of `α` is
    positive -/
theorem cgRun_divisors (h : SPD A dot) (tol : ℝ) (htol : 0 ≤ tol) (k : ℕ) (sk : CGState ℝ V)
    (hk : cgRun o b x0 tol k = some sk) :
    0 < sk.rho1 ∧
    (∀ s', cgRun o b x0 tol (k + 1) = some s' → s'.rho1 = dot sk.r sk.r) ∧
    cgDir o (k + 1) sk.r sk.p (dot sk.r sk.r) sk.rho1 ≠ 0 ∧
    0 < dot (cgDir o (k + 1) sk.r sk.p (dot sk.r sk.r) sk.rho1)
          (A (cgDir o (k + 1) sk.r sk.p (dot sk.r sk.r) sk.rho1)) := by
  obtain ⟨ek, hne, hinv⟩ := cgRun_inv At b x0 h tol htol k sk hk
  subst ek
  refine ⟨rho1_pos At b x0 h k (fun j hj => hne j (by omega)), ?_, ?_⟩
  · intro s' hs'
    obtain ⟨e', _, _⟩ := cgRun_inv At b x0 h tol htol (k + 1) s' hs'
    subst e'
    rfl
  · exact next_dir_pos At b x0 h k hne

/-- after at most `dim V` iterations the loop has returned -/
theorem cgRun_stops (h : SPD A dot) [Module.Finite ℝ V] (n : ℕ)
    (hn : Module.finrank ℝ V ≤ n) (tol : ℝ) (htol : 0 ≤ tol) : cgRun o b x0 tol n = none := by
  cases hc : cgRun o b x0 tol n with
  | none => rfl
  | some s =>
    obtain ⟨_, hne, _⟩ := cgRun_inv At b x0 h tol htol n s hc
    obtain ⟨k, hk, hz⟩ := exists_zero_residual At b x0 h n hn
    exact absurd hz (hne k hk)

/-- every executed iteration (continuing or returning) strictly decreases the energy of the error -/
theorem cgRun_energy_decrease (h : SPD A dot) (tol : ℝ) (htol : 0 ≤ tol) (xs : V) (hxs : A xs = b)
    (k : ℕ) (sk : CGState ℝ V) (hk : cgRun o b x0 tol k = some sk) :
    (∀ s', cgStep o (guardNorm (Real.sqrt (dot b b))) tol (k + 1) sk = .cont s' →
      energy A dot xs s'.x < energy A dot xs sk.x) ∧
    (∀ out, cgStep o (guardNorm (Real.sqrt (dot b b))) tol (k + 1) sk = .done out →
      energy A dot xs out.x < energy A dot xs sk.x) := by
  obtain ⟨ek, hne, hinv⟩ := cgRun_inv At b x0 h tol htol k sk hk
  subst ek
  have hdec := energy_decrease At b x0 h xs hxs k hne
  constructor
  · intro s' hs'
    rw [cgStep_eq] at hs'
    rcases ite_eq_cases hs' with ⟨_, e⟩ | ⟨_, e⟩
    · simp at e
    · simp only [Step.cont.injEq] at e
      subst e
      exact hdec
  · intro out hs'
    rw [cgStep_eq] at hs'
    rcases ite_eq_cases hs' with ⟨_, e⟩ | ⟨_, e⟩
    · simp only [Step.done.injEq] at e
      subst e
      exact hdec
    · simp at e

/-- the iterate held by the running loop is the energy minimiser over `x0 + K_k(A, b − A x0)` -/
theorem cgRun_optimal (h : SPD A dot) (tol : ℝ) (htol : 0 ≤ tol) (xs : V) (hxs : A xs = b)
    (k : ℕ) (sk : CGState ℝ V) (hk : cgRun o b x0 tol k = some sk) :
    sk.x - x0 ∈ krylov A (b - A x0) k ∧
      ∀ y, y - x0 ∈ krylov A (b - A x0) k → energy A dot xs sk.x ≤ energy A dot xs y := by
  obtain ⟨ek, hne, hinv⟩ := cgRun_inv At b x0 h tol htol k sk hk
  subst ek
  exact energy_optimal At b x0 h xs hxs k (fun j hj => hne j (by omega))

end Exact

end Ohsl.CGTheory
