/-
  Ohsl.Lemmas.C17X — helpers for Ohsl/Props/C17X.lean (the system Newton iteration over every
  exact element type, complex scalars included).

  * lemmas of C17A / C17C that were stated for linearly ordered fields, re-proved without the
    order (`Is_unique_any`, `vecSub_zero_field`, `solveBasic_ok_sizes_any`);
  * the complex inf-norm `Vec.normInfC` over ℝ (the tolerance test of `Newton<Vector<Cmplx>>`
    compares the largest MODULUS of the residual with `tol`, in ℝ): it is defined exactly on
    non-empty vectors, and it is `0` on the zero vector.
-/
import Ohsl.Props.C17A
import Ohsl.Lemmas.CxField
set_option linter.unusedSectionVars false
set_option linter.unusedVariables false
set_option linter.unusedSimpArgs false
namespace Ohsl.C17X
open Ohsl Ohsl.Mat

/-- a well-formed matrix is determined by its shape and entries (any element type) -/
theorem Is_unique_any {K : Type} {r c : Nat} {e : Nat → Nat → K} {A B : Mat K}
    (hA : Mat.Is A r c e) (hB : Mat.Is B r c e) : A = B := by
  have wA : A.data.size = r * c := by rw [hA.wf, hA.rows, hA.cols]
  have wB : B.data.size = r * c := by rw [hB.wf, hB.rows, hB.cols]
  have hd : A.data = B.data := by
    apply Array.ext
    · rw [wA, wB]
    · intro k hk1 hk2
      have hk : k < r * c := by rw [← wA]; exact hk1
      have hc : 0 < c := by
        rcases Nat.eq_zero_or_pos c with h | h
        · subst h; simp at hk
        · exact h
      have hj : k % c < c := Nat.mod_lt _ hc
      have hi : k / c < r := by
        rw [Nat.div_lt_iff_lt_mul hc]; exact hk
      have hidx : k / c * c + k % c = k := Nat.div_add_mod' k c
      have eA := hA.entry (k / c) (k % c) hi hj
      have eB := hB.entry (k / c) (k % c) hi hj
      simp only [Mat.get, hA.cols, hB.cols, hidx, aget_eq_ok] at eA eB
      have := eA.trans eB.symm
      simpa [hk1, hk2] using this
  obtain ⟨dA, rA, cA⟩ := A
  obtain ⟨dB, rB, cB⟩ := B
  have h1 := hA.rows; have h2 := hA.cols; have h3 := hB.rows; have h4 := hB.cols
  simp only at h1 h2 h3 h4 hd
  rw [hd, h1, h2, h3, h4]

/-- subtracting the zero vector (any field) -/
theorem vecSub_zero_field {K : Type} [Field K] {n : Nat} {x : Array K} (hx : x.size = n) :
    Vec.sub x (Array.replicate n (0 : K)) = .ok x := by
  unfold Vec.sub
  simp only [Array.size_replicate, hx, ne_eq, not_true_eq_false, if_false]
  congr 1
  apply Array.ext
  · simp [hx]
  · intro i h1 h2
    simp

/-- a returning `solve_basic` passed its two size checks (any element type) -/
theorem solveBasic_ok_sizes_any {K : Type} [Sub K] [Mul K] [Zero K] [ScalarExt K]
    {J : Mat K} {b dx : Array K} (h : Mat.solveBasic J b = .ok dx) :
    J.rows = b.size ∧ J.rows = J.cols := by
  unfold Mat.solveBasic at h
  split at h
  · cases h
  · split at h
    · cases h
    · rename_i h1 h2
      exact ⟨not_not.mp h1, not_not.mp h2⟩

/-- the update `x -= dx` returns iff the lengths agree -/
theorem vecSub_ok_iff {K : Type} [Sub K] (x dx : Array K) :
    (∃ x', Vec.sub x dx = .ok x') ↔ x.size = dx.size := by
  unfold Vec.sub
  constructor
  · rintro ⟨x', h⟩
    split at h
    · cases h
    · rename_i hne; exact not_not.mp hne
  · intro h
    exact ⟨_, by rw [if_neg (not_not.mpr h)]⟩

/-! ### the complex inf-norm over ℝ -/
section NormC
open Ohsl.RealI Ohsl.CxField

/-- `norm_inf` of a complex vector is defined on every non-empty vector -/
theorem normInfC_total {v : Array (Cx ℝ)} (h : 1 ≤ v.size) : ∃ r, Vec.normInfC v = .ok r := by
  unfold Vec.normInfC Vec.normInfBy
  have : v[0]? = some v[0] := by simp [show 0 < v.size from h]
  rw [this]
  exact ⟨_, rfl⟩

/-- `norm_inf` of a complex vector panics exactly on the empty vector -/
theorem normInfC_error_iff (v : Array (Cx ℝ)) :
    (∃ e, Vec.normInfC v = .error e) ↔ v.size = 0 := by
  unfold Vec.normInfC Vec.normInfBy
  constructor
  · rintro ⟨e, h⟩
    by_contra hne
    have : v[0]? = some v[0] := by simp [show 0 < v.size by omega]
    rw [this] at h
    cases h
  · intro h
    have : v[0]? = none := by simp [h]
    rw [this]
    exact ⟨_, rfl⟩

theorem cxabs_zero : Cx.abs (0 : Cx ℝ) = 0 := CxField.abs_zero

theorem foldl_zeroC (l : List (Cx ℝ)) (hl : ∀ x ∈ l, x = 0) :
    l.foldl (fun (r : ℝ) x => if ScalarExt.lt r (Cx.abs x) then Cx.abs x else r) 0 = 0 := by
  induction l with
  | nil => rfl
  | cons a l ih =>
    have ha : a = 0 := hl a (by simp)
    subst ha
    simp only [List.foldl_cons, cxabs_zero, Alg.lt_eq, lt_self_iff_false, decide_false,
      Bool.false_eq_true, if_false]
    exact ih (fun x hx => hl x (by simp [hx]))

/-- `norm_inf` of the complex zero vector is `0` -/
theorem normInfC_zero {n : Nat} (hn : 1 ≤ n) :
    Vec.normInfC (Array.replicate n (0 : Cx ℝ)) = .ok 0 := by
  unfold Vec.normInfC Vec.normInfBy
  have : (Array.replicate n (0 : Cx ℝ))[0]? = some 0 := by simp [show 0 < n from hn]
  rw [this]
  simp only [cxabs_zero]
  congr 1
  rw [← Array.foldl_toList]
  -- (repair D14) the NaN test `|x| != |x|` of `norm_inf` never fires over ℝ
  have hstep : (fun (r : ℝ) (x : Cx ℝ) => if ScalarExt.lt r (Cx.abs x) || !(Cx.abs x == Cx.abs x) then Cx.abs x else r)
      = (fun r x => if ScalarExt.lt r (Cx.abs x) then Cx.abs x else r) := by
    funext r x; simp
  rw [hstep]
  apply foldl_zeroC
  intro x hx
  simp at hx
  exact hx.2

/-- the two facts about the stopping test that the generic theorems need, for the complex
    inf-norm and the real tolerance test `r <= tol` -/
theorem concrete_normC (tol : ℝ) (htol : 0 ≤ tol) (n : Nat) (hn : 1 ≤ n) :
    (∀ v : Array (Cx ℝ), v.size = n → ∃ r, Vec.normInfC v = .ok r) ∧
    (∀ r, Vec.normInfC (Array.replicate n (0 : Cx ℝ)) = .ok r → Transc.le r tol = true) := by
  refine ⟨fun v hv => normInfC_total (by omega), ?_⟩
  intro r hr
  rw [normInfC_zero hn] at hr
  cases hr
  show decide ((0 : ℝ) ≤ tol) = true
  simpa using htol

end NormC

end Ohsl.C17X
