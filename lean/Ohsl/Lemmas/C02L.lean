/-
  Helper file for Ohsl/Props/C02L.lean: exact linear algebra over `ℝ` relating the RIGHT residual
  `R = A X − I` of an approximate inverse `X` of a nonsingular `A` to its LEFT residual `X A − I`
  and to its forward error `X − A⁻¹`, in the max-row-sum norm `‖·‖∞`.

  * `nrmInf A`  the max-row-sum norm `max_i Σ_j |a_ij|` of a real square matrix, defined explicitly
    and shown equal (`nrmInf_eq_norm`) to Mathlib's `Matrix.linftyOpNormedRing` norm, from which
    submultiplicativity etc. are inherited; characterised by `nrmInf_le_iff`, `row_sum_le_nrmInf`.
  * `sub_inv_eq`, `left_residual_eq`   `X − A⁻¹ = A⁻¹ R`,  `X A − I = A⁻¹ R A`  (`det A` a unit).
  * `forward_error_le`, `left_residual_le`   the norm bounds with `‖A⁻¹‖∞` resp. `κ∞(A)`.
  * `isUnit_det_of_right_residual_lt_one`   `‖A X − I‖∞ < 1` ⇒ `A` and `X` are both nonsingular.
  * `inv_norm_le`, `forward_error_le_apost`, `left_residual_le_apost`   when `‖R‖∞ < 1`:
    `‖A⁻¹‖∞ ≤ ‖X‖∞/(1 − ‖R‖∞)` and the resulting bounds free of `A⁻¹`;
    `forward_error_le_apost_of_le`, `left_residual_le_apost_of_le`: the same with an upper bound
    `ρ < 1` of `‖R‖∞` in place of `‖R‖∞` (monotonicity `apost_mono`).
  Nothing here mentions the model.
-/
import Mathlib.Analysis.Matrix.Normed
import Mathlib.LinearAlgebra.Matrix.NonsingularInverse
import Mathlib.LinearAlgebra.Matrix.ToLin
import Mathlib.Tactic.Ring
import Mathlib.Tactic.Linarith
import Mathlib.Tactic.Positivity
set_option linter.unusedSectionVars false
set_option linter.unusedVariables false
namespace Ohsl
namespace MatNorm
open Matrix
open scoped NNReal

variable {n : ℕ}

/-- the max-row-sum norm `‖A‖∞ = max_i Σ_j |a_ij|` (`0` for the empty matrix) -/
noncomputable def nrmInf (A : Matrix (Fin n) (Fin n) ℝ) : ℝ :=
  ((Finset.univ : Finset (Fin n)).sup fun i => ∑ j, ‖A i j‖₊ : ℝ≥0)

section
attribute [local instance] Matrix.linftyOpNormedAddCommGroup Matrix.linftyOpNormedRing
  Matrix.linftyOpNormedSpace

/-- `nrmInf` is Mathlib's `ℓ∞`-operator norm on matrices -/
theorem nrmInf_eq_norm (A : Matrix (Fin n) (Fin n) ℝ) : nrmInf A = ‖A‖ :=
  (Matrix.linfty_opNorm_def A).symm

theorem nrmInf_nonneg (A : Matrix (Fin n) (Fin n) ℝ) : 0 ≤ nrmInf A := by
  rw [nrmInf_eq_norm]; exact norm_nonneg _

theorem nrmInf_mul_le (A B : Matrix (Fin n) (Fin n) ℝ) : nrmInf (A * B) ≤ nrmInf A * nrmInf B := by
  simp only [nrmInf_eq_norm]; exact norm_mul_le _ _

theorem nrmInf_add_le (A B : Matrix (Fin n) (Fin n) ℝ) : nrmInf (A + B) ≤ nrmInf A + nrmInf B := by
  simp only [nrmInf_eq_norm]; exact norm_add_le _ _

theorem nrmInf_sub_le (A B : Matrix (Fin n) (Fin n) ℝ) : nrmInf (A - B) ≤ nrmInf A + nrmInf B := by
  simp only [nrmInf_eq_norm]; exact norm_sub_le _ _

theorem nrmInf_neg (A : Matrix (Fin n) (Fin n) ℝ) : nrmInf (-A) = nrmInf A := by
  simp only [nrmInf_eq_norm]; exact norm_neg _

theorem nrmInf_smul (c : ℝ) (A : Matrix (Fin n) (Fin n) ℝ) : nrmInf (c • A) = |c| * nrmInf A := by
  simp only [nrmInf_eq_norm]; rw [norm_smul, Real.norm_eq_abs]

theorem nrmInf_mulVec_le (A : Matrix (Fin n) (Fin n) ℝ) (v : Fin n → ℝ) :
    ‖A *ᵥ v‖ ≤ nrmInf A * ‖v‖ := by
  rw [nrmInf_eq_norm]; exact Matrix.linfty_opNorm_mulVec A v

end

/-- every absolute row sum is at most the norm -/
theorem row_sum_le_nrmInf (A : Matrix (Fin n) (Fin n) ℝ) (i : Fin n) :
    ∑ j, |A i j| ≤ nrmInf A := by
  have h : (∑ j, ‖A i j‖₊ : ℝ≥0) ≤ (Finset.univ : Finset (Fin n)).sup fun i => ∑ j, ‖A i j‖₊ :=
    Finset.le_sup (f := fun i => ∑ j, ‖A i j‖₊) (Finset.mem_univ i)
  have h' := NNReal.coe_le_coe.mpr h
  simpa [nrmInf, NNReal.coe_sum] using h'

/-- `‖A‖∞ ≤ c` iff every absolute row sum is `≤ c` (`c ≥ 0`) -/
theorem nrmInf_le_iff (A : Matrix (Fin n) (Fin n) ℝ) {c : ℝ} (hc : 0 ≤ c) :
    nrmInf A ≤ c ↔ ∀ i, ∑ j, |A i j| ≤ c := by
  constructor
  · intro h i
    exact (row_sum_le_nrmInf A i).trans h
  · intro h
    lift c to ℝ≥0 using hc
    unfold nrmInf
    rw [NNReal.coe_le_coe]
    apply Finset.sup_le
    intro i _
    rw [← NNReal.coe_le_coe]
    simpa [NNReal.coe_sum] using h i

/-- an entry is at most the norm -/
theorem abs_entry_le_nrmInf (A : Matrix (Fin n) (Fin n) ℝ) (i j : Fin n) : |A i j| ≤ nrmInf A :=
  (Finset.single_le_sum (f := fun j => |A i j|) (fun _ _ => abs_nonneg _)
    (Finset.mem_univ j)).trans (row_sum_le_nrmInf A i)

/-- monotonicity: `|A| ≤ B` entrywise ⇒ `‖A‖∞ ≤ ‖B‖∞` -/
theorem nrmInf_le_of_abs_le {A B : Matrix (Fin n) (Fin n) ℝ} (h : ∀ i j, |A i j| ≤ B i j) :
    nrmInf A ≤ nrmInf B := by
  rw [nrmInf_le_iff A (nrmInf_nonneg B)]
  intro i
  refine (Finset.sum_le_sum fun j _ => (h i j).trans (le_abs_self _)).trans
    (row_sum_le_nrmInf B i)

/-- `‖ |A| ‖∞ = ‖A‖∞` -/
theorem nrmInf_abs (A : Matrix (Fin n) (Fin n) ℝ) : nrmInf (A.map fun x => |x|) = nrmInf A := by
  apply le_antisymm
  · exact nrmInf_le_of_abs_le (B := A.map fun x => |x|) (A := A.map fun x => |x|)
      (fun i j => by simp) |>.trans (by
        rw [nrmInf_le_iff _ (nrmInf_nonneg A)]
        intro i
        simpa using row_sum_le_nrmInf A i)
  · exact nrmInf_le_of_abs_le (fun i j => by simp)

theorem nrmInf_one_le : nrmInf (1 : Matrix (Fin n) (Fin n) ℝ) ≤ 1 := by
  rw [nrmInf_le_iff _ zero_le_one]
  intro i
  have e : ∀ j, |(1 : Matrix (Fin n) (Fin n) ℝ) i j| = if i = j then 1 else 0 := by
    intro j
    rw [Matrix.one_apply]
    split_ifs <;> simp
  simp [e]

/-- for a `1 × 1` matrix the norm is the absolute value of the entry -/
theorem nrmInf_fin_one (A : Matrix (Fin 1) (Fin 1) ℝ) : nrmInf A = |A 0 0| := by
  apply le_antisymm
  · rw [nrmInf_le_iff _ (abs_nonneg _)]
    intro i
    fin_cases i
    simp
  · exact abs_entry_le_nrmInf A 0 0

/-! ### the algebra -/

/-- `X − A⁻¹ = A⁻¹ (A X − I)` for nonsingular `A` -/
theorem sub_inv_eq {A : Matrix (Fin n) (Fin n) ℝ} (hA : IsUnit A.det)
    (X : Matrix (Fin n) (Fin n) ℝ) : X - A⁻¹ = A⁻¹ * (A * X - 1) := by
  rw [Matrix.mul_sub, ← Matrix.mul_assoc, Matrix.nonsing_inv_mul A hA, Matrix.one_mul,
    Matrix.mul_one]

/-- `X A − I = A⁻¹ (A X − I) A` for nonsingular `A` -/
theorem left_residual_eq {A : Matrix (Fin n) (Fin n) ℝ} (hA : IsUnit A.det)
    (X : Matrix (Fin n) (Fin n) ℝ) : X * A - 1 = A⁻¹ * (A * X - 1) * A := by
  rw [Matrix.mul_sub, Matrix.sub_mul, ← Matrix.mul_assoc, Matrix.nonsing_inv_mul A hA,
    Matrix.one_mul, Matrix.mul_one, Matrix.nonsing_inv_mul A hA]

/-- **forward error**: `‖X − A⁻¹‖∞ ≤ ‖A⁻¹‖∞ ‖A X − I‖∞` -/
theorem forward_error_le {A : Matrix (Fin n) (Fin n) ℝ} (hA : IsUnit A.det)
    (X : Matrix (Fin n) (Fin n) ℝ) :
    nrmInf (X - A⁻¹) ≤ nrmInf A⁻¹ * nrmInf (A * X - 1) := by
  rw [sub_inv_eq hA]; exact nrmInf_mul_le _ _

/-- **left residual**: `‖X A − I‖∞ ≤ ‖A⁻¹‖∞ ‖A‖∞ ‖A X − I‖∞ = κ∞(A) ‖A X − I‖∞` -/
theorem left_residual_le {A : Matrix (Fin n) (Fin n) ℝ} (hA : IsUnit A.det)
    (X : Matrix (Fin n) (Fin n) ℝ) :
    nrmInf (X * A - 1) ≤ nrmInf A⁻¹ * nrmInf A * nrmInf (A * X - 1) := by
  rw [left_residual_eq hA]
  refine (nrmInf_mul_le _ _).trans ?_
  have h1 := nrmInf_mul_le A⁻¹ (A * X - 1)
  have h2 := nrmInf_nonneg A
  calc nrmInf (A⁻¹ * (A * X - 1)) * nrmInf A
      ≤ (nrmInf A⁻¹ * nrmInf (A * X - 1)) * nrmInf A := mul_le_mul_of_nonneg_right h1 h2
    _ = nrmInf A⁻¹ * nrmInf A * nrmInf (A * X - 1) := by ring

/-- a matrix `1 + R` with `‖R‖∞ < 1` is nonsingular -/
theorem isUnit_det_one_add {R : Matrix (Fin n) (Fin n) ℝ} (hR : nrmInf R < 1) :
    IsUnit (1 + R).det := by
  rw [isUnit_iff_ne_zero]
  intro h0
  obtain ⟨v, hv, hv0⟩ := Matrix.exists_mulVec_eq_zero_iff.mpr h0
  rw [Matrix.add_mulVec, Matrix.one_mulVec] at hv0
  have e : v = -(R *ᵥ v) := eq_neg_of_add_eq_zero_left hv0
  have hpos : 0 < ‖v‖ := norm_pos_iff.mpr hv
  have h1 : ‖v‖ ≤ nrmInf R * ‖v‖ := by
    calc ‖v‖ = ‖R *ᵥ v‖ := by conv_lhs => rw [e, norm_neg]
      _ ≤ _ := nrmInf_mulVec_le R v
  nlinarith

/-- **`‖A X − I‖∞ < 1` ⇒ `A` and `X` are nonsingular** (no assumption on `A`) -/
theorem isUnit_det_of_right_residual_lt_one {A X : Matrix (Fin n) (Fin n) ℝ}
    (hR : nrmInf (A * X - 1) < 1) : IsUnit A.det ∧ IsUnit X.det := by
  have h := isUnit_det_one_add hR
  rw [add_sub_cancel, Matrix.det_mul] at h
  exact ⟨isUnit_of_mul_isUnit_left h, isUnit_of_mul_isUnit_right h⟩

/-- `‖A⁻¹‖∞ ≤ ‖X‖∞ / (1 − ‖A X − I‖∞)` when `‖A X − I‖∞ < 1` -/
theorem inv_norm_le {A X : Matrix (Fin n) (Fin n) ℝ} (hR : nrmInf (A * X - 1) < 1) :
    nrmInf A⁻¹ ≤ nrmInf X / (1 - nrmInf (A * X - 1)) := by
  have hA := (isUnit_det_of_right_residual_lt_one hR).1
  have e : A⁻¹ = X - A⁻¹ * (A * X - 1) := by rw [← sub_inv_eq hA]; abel
  have h1 : nrmInf A⁻¹ ≤ nrmInf X + nrmInf A⁻¹ * nrmInf (A * X - 1) := by
    conv_lhs => rw [e]
    exact (nrmInf_sub_le _ _).trans (add_le_add le_rfl (nrmInf_mul_le _ _))
  rw [le_div_iff₀ (by linarith)]
  nlinarith

/-- **forward error, a posteriori**: `‖X − A⁻¹‖∞ ≤ ‖X‖∞ ρ/(1 − ρ)`, `ρ = ‖A X − I‖∞ < 1` -/
theorem forward_error_le_apost {A X : Matrix (Fin n) (Fin n) ℝ} (hR : nrmInf (A * X - 1) < 1) :
    nrmInf (X - A⁻¹) ≤ nrmInf X / (1 - nrmInf (A * X - 1)) * nrmInf (A * X - 1) :=
  (forward_error_le (isUnit_det_of_right_residual_lt_one hR).1 X).trans
    (mul_le_mul_of_nonneg_right (inv_norm_le hR) (nrmInf_nonneg _))

/-- **left residual, a posteriori**: `‖X A − I‖∞ ≤ ‖X‖∞ ‖A‖∞ ρ/(1 − ρ)`, `ρ = ‖A X − I‖∞ < 1` -/
theorem left_residual_le_apost {A X : Matrix (Fin n) (Fin n) ℝ} (hR : nrmInf (A * X - 1) < 1) :
    nrmInf (X * A - 1)
      ≤ nrmInf X / (1 - nrmInf (A * X - 1)) * nrmInf A * nrmInf (A * X - 1) :=
  (left_residual_le (isUnit_det_of_right_residual_lt_one hR).1 X).trans
    (mul_le_mul_of_nonneg_right
      (mul_le_mul_of_nonneg_right (inv_norm_le hR) (nrmInf_nonneg _)) (nrmInf_nonneg _))

/-- `r ↦ c r/(1 − r)` is monotone on `[0, 1)` (`c ≥ 0`) -/
theorem apost_mono {c r ρ : ℝ} (hc : 0 ≤ c) (hr : 0 ≤ r) (hrρ : r ≤ ρ) (hρ : ρ < 1) :
    c / (1 - r) * r ≤ c / (1 - ρ) * ρ := by
  have h1 : 0 < 1 - ρ := by linarith
  have h2 : 0 < 1 - r := by linarith
  have e1 : c / (1 - r) * r = c * (r / (1 - r)) := by ring
  have e2 : c / (1 - ρ) * ρ = c * (ρ / (1 - ρ)) := by ring
  rw [e1, e2]
  apply mul_le_mul_of_nonneg_left _ hc
  rw [div_le_div_iff₀ h2 h1]
  nlinarith

/-- `forward_error_le_apost` with an upper bound `ρ < 1` of the right residual -/
theorem forward_error_le_apost_of_le {A X : Matrix (Fin n) (Fin n) ℝ} {ρ : ℝ}
    (hR : nrmInf (A * X - 1) ≤ ρ) (hρ : ρ < 1) :
    nrmInf (X - A⁻¹) ≤ nrmInf X / (1 - ρ) * ρ :=
  (forward_error_le_apost (lt_of_le_of_lt hR hρ)).trans
    (apost_mono (nrmInf_nonneg X) (nrmInf_nonneg _) hR hρ)

/-- `left_residual_le_apost` with an upper bound `ρ < 1` of the right residual -/
theorem left_residual_le_apost_of_le {A X : Matrix (Fin n) (Fin n) ℝ} {ρ : ℝ}
    (hR : nrmInf (A * X - 1) ≤ ρ) (hρ : ρ < 1) :
    nrmInf (X * A - 1) ≤ nrmInf X * nrmInf A / (1 - ρ) * ρ := by
  refine (left_residual_le_apost (lt_of_le_of_lt hR hρ)).trans ?_
  have := apost_mono (mul_nonneg (nrmInf_nonneg X) (nrmInf_nonneg A)) (nrmInf_nonneg _) hR hρ
  calc nrmInf X / (1 - nrmInf (A * X - 1)) * nrmInf A * nrmInf (A * X - 1)
      = nrmInf X * nrmInf A / (1 - nrmInf (A * X - 1)) * nrmInf (A * X - 1) := by ring
    _ ≤ _ := this

end MatNorm
end Ohsl
