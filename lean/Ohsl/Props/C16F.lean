/-
  Property C16 (part F) — rounding-error bounds for the sequential and the threaded dot product in
  the "rounded reals" interpretation `Fl M` of the model (Ohsl/Lemmas/Rounding.lean): the SAME model
  definitions `Vec.dot`, `Dot.dotThreaded` instantiated at real numbers whose `+` and `*` round with
  relative error `≤ u` (standard model of floating-point arithmetic, no overflow / underflow).

  The transfer to the Rust `f64` code rests on the ASSUMPTION stated in Rounding.lean (IEEE binary64
  without overflow/underflow satisfies `FlModel` with `u = 2⁻⁵³`); it is not proved here.

  Notation: `n = a.size = b.size`, `w ≥ 1` workers, `term a b i = aᵢ bᵢ` (exact real product),
  `exactDot a b = Σ aᵢ bᵢ`, `absDot a b = Σ |aᵢ bᵢ|`, `M.gam k = (1+u)^k - 1`,
  `maxChunk n w = n / w + n % w` (length of the longest chunk = the last one).

  * `dot_rounding`          (F) `|dot - Σ aᵢbᵢ| ≤ gam (n+1) · Σ|aᵢbᵢ|` : one rounding per product, `n`
                            rounded additions (the model starts from `0 + p₀`, which the abstract
                            model rounds; see `Fl.foldl_sum_rounding_sharp`).
  * `dotThreaded_rounding`  (F) `|threaded - Σ aᵢbᵢ| ≤ gam (maxChunk n w + w + 1) · Σ|aᵢbᵢ|`.
  * `dotThreaded_vs_dot`    (F) `|threaded - dot| ≤ (gam (n+1) + gam (maxChunk n w + w + 1)) · Σ|aᵢbᵢ|`
                            — the meaning of "the same value up to floating-point re-association".
  * `dotThreaded_exact_data`(F) if every contiguous partial sum `Σ_{s ≤ i < e} aᵢbᵢ` (this includes
                            the single products) is representable (`fl x = x`), then the threaded and
                            the sequential product are EQUAL, for every `w ≥ 1`, and both are the
                            exact value — "bit-identical on data whose partial sums are exact".
    `dotThreaded_exact_of_closed`: the same from a set `S` of representable numbers that contains
                            `0` and the products and is closed under `+`.
    `dotThreaded_exact_int`: in the binary round-to-nearest format with `p+1` significant bits
                            (`FlModel.roundBits p`), integer products with `Σ|aᵢbᵢ| < 2^(p+1)`.
  * `dot_rounding_gamma`, `dotThreaded_rounding_gamma`: the same with the classical constants
                            `γ_k = k u / (1 - k u)` (when `k u < 1`).
-/
import Ohsl.Props.C16D
import Ohsl.Lemmas.Rounding
import Mathlib.Algebra.BigOperators.Intervals
import Mathlib.Algebra.Order.BigOperators.Group.Finset
import Mathlib.Algebra.BigOperators.Ring.Finset
set_option linter.unusedSectionVars false
set_option linter.unusedVariables false
namespace Ohsl.Props.C16
open Ohsl Ohsl.Dot

/-! ### structural: both products as folds over index lists (any `K`) -/

section Structural
variable {K : Type} [Add K] [Mul K] [Zero K]

/-- the element-wise products, listed by index -/
theorem zipWith_toList_eq (a b : Array K) (h : a.size = b.size) :
    (Array.zipWith (· * ·) a b).toList
      = (List.range a.size).map (fun j => a.getD j 0 * b.getD j 0) := by
  have hP : (Array.zipWith (fun x y : K => x * y) a b).size = a.size := by simp [h]
  rw [toList_eq_map_range _ (0 : K), hP]
  apply List.map_congr_left
  intro j hj
  have hj' : j < a.size := List.mem_range.mp hj
  have hjb : j < b.size := by omega
  have hmin : j < min a.size b.size := by omega
  simp [Array.getD, hj', hjb, hmin]

/-- (S) the sequential product is the left fold from `0` of the products in index order -/
theorem dot_eq_fold (a b : Array K) (h : a.size = b.size) :
    Vec.dot a b
      = .ok (((List.range a.size).map (fun j => a.getD j 0 * b.getD j 0)).foldl (· + ·) 0) := by
  simp only [Vec.dot, h, ne_eq, not_true_eq_false, if_false]
  rw [← Array.foldl_toList, zipWith_toList_eq a b h, h]

/-- the blocks of products the workers sum -/
def blocks (w : Nat) (a b : Array K) : List (List K) :=
  (chunks a.size w).map (fun se => (List.range' se.1 (se.2 - se.1)).map
    (fun j => a.getD j 0 * b.getD j 0))

/-- (S) the threaded product is the two-level fold over the blocks -/
theorem dotThreaded_eq_blocks (w : Nat) (a b : Array K) (hw : 0 < w) (h : a.size = b.size) :
    dotThreaded w a b
      = .ok (((blocks w a b).map (fun l : List K => l.foldl (· + ·) 0)).foldl (· + ·) 0) := by
  rw [(dotThreaded_is_reassociation w a b hw h).1, partialSums_eq w a b hw h, blocks]

/-- the blocks, concatenated, are all the products in index order -/
theorem blocks_flatten (w : Nat) (a b : Array K) (hw : 0 < w) :
    (blocks w a b).flatten = (List.range a.size).map (fun j => a.getD j 0 * b.getD j 0) := by
  rw [blocks, ← List.flatMap_def, ← List.map_flatMap, chunks_partition a.size w hw]

theorem blocks_length (w : Nat) (a b : Array K) : (blocks w a b).length = w := by
  simp [blocks, chunks_length]

/-- length of the longest chunk (the last one) -/
def maxChunk (n w : Nat) : Nat := n / w + n % w

theorem chunk_length_le (len w i : Nat) (hw : 0 < w) (hi : i < w) :
    (chunk len w i).2 - (chunk len w i).1 ≤ maxChunk len w := by
  have hdm : w * (len / w) + len % w = len := Nat.div_add_mod len w
  unfold chunk maxChunk
  simp only
  generalize len / w = c at *
  generalize len % w = r at *
  have hs : (i + 1) * c = i * c + c := Nat.succ_mul _ _
  by_cases e : i = w - 1
  · simp only [e, if_true]
    obtain ⟨v, rfl⟩ : ∃ v, w = v + 1 := ⟨w - 1, by omega⟩
    simp only [Nat.add_sub_cancel]
    have : (v + 1) * c = v * c + c := Nat.succ_mul _ _
    omega
  · simp only [e, if_false]
    omega

theorem take_range'_eq (s n m : Nat) :
    (List.range' s n).take m = List.range' s (min m n) := by
  apply List.ext_getElem
  · simp
  · intro i h1 h2; simp

theorem blocks_length_le (w : Nat) (a b : Array K) (hw : 0 < w) :
    ∀ l ∈ blocks w a b, l.length ≤ maxChunk a.size w := by
  intro l hl
  simp only [blocks, chunks, List.map_map, List.mem_map, List.mem_range, Function.comp] at hl
  obtain ⟨i, hi, rfl⟩ := hl
  simpa using chunk_length_le a.size w i hw hi

end Structural

/-! ### the rounded-reals interpretation -/

section Rounding
variable {M : FlModel}
open Fl

/-- the exact product of the `i`-th entries -/
def term (a b : Array (Fl M)) (i : Nat) : ℝ := (a.getD i 0).val * (b.getD i 0).val
/-- the exact dot product `Σ aᵢ bᵢ` -/
def exactDot (a b : Array (Fl M)) : ℝ := ∑ i ∈ Finset.range a.size, term a b i
/-- `Σ |aᵢ bᵢ|` -/
def absDot (a b : Array (Fl M)) : ℝ := ∑ i ∈ Finset.range a.size, |term a b i|

theorem absDot_nonneg (a b : Array (Fl M)) : 0 ≤ absDot a b :=
  Finset.sum_nonneg (fun _ _ => abs_nonneg _)

/-- every computed product is the exact one rounded once -/
theorem prod_err (a b : Array (Fl M)) (j : Nat) :
    |(a.getD j 0 * b.getD j 0).val - term a b j| ≤ M.u * |term a b j| :=
  Fl.mul_err _ _

/-- **sequential dot product**: one rounding per product and `n` rounded additions. -/
theorem dot_rounding (a b : Array (Fl M)) (h : a.size = b.size) :
    ∃ r, Vec.dot a b = .ok r
      ∧ |r.val - exactDot a b| ≤ M.gam (a.size + 1) * absDot a b := by
  refine ⟨_, dot_eq_fold a b h, ?_⟩
  have h1 := foldl_sum_rounding ((List.range a.size).map (fun j => a.getD j 0 * b.getD j 0))
  rw [List.length_map, List.length_range] at h1
  have := rounded_terms_sum_bound (List.range a.size) (fun j => a.getD j 0 * b.getD j 0)
    (term a b) a.size _ (fun j _ => prod_err a b j) h1
  rwa [sum_map_range, sum_map_range] at this

/-- **threaded dot product**: one rounding per product, at most `maxChunk n w` rounded additions
inside a chunk and `w` rounded additions of the partial sums. -/
theorem dotThreaded_rounding (w : Nat) (a b : Array (Fl M)) (hw : 0 < w) (h : a.size = b.size) :
    ∃ t, dotThreaded w a b = .ok t
      ∧ |t.val - exactDot a b| ≤ M.gam (maxChunk a.size w + w + 1) * absDot a b := by
  refine ⟨_, dotThreaded_eq_blocks w a b hw h, ?_⟩
  have h1 := foldl_blocks_rounding (blocks w a b) (maxChunk a.size w) (blocks_length_le w a b hw)
  rw [blocks_flatten w a b hw, blocks_length] at h1
  have := rounded_terms_sum_bound (List.range a.size) (fun j => a.getD j 0 * b.getD j 0)
    (term a b) _ _ (fun j _ => prod_err a b j) h1
  rwa [sum_map_range, sum_map_range] at this

/-- **C16, "the same value up to floating-point re-association"**: the threaded and the sequential
product differ by at most `(gam (n+1) + gam (maxChunk n w + w + 1)) · Σ|aᵢbᵢ|`
(`≈ (2n + 2 - (w-1)(n/w) + w) u Σ|aᵢbᵢ|` to first order). -/
theorem dotThreaded_vs_dot (w : Nat) (a b : Array (Fl M)) (hw : 0 < w) (h : a.size = b.size) :
    ∃ t r, dotThreaded w a b = .ok t ∧ Vec.dot a b = .ok r
      ∧ |t.val - r.val|
          ≤ (M.gam (a.size + 1) + M.gam (maxChunk a.size w + w + 1)) * absDot a b := by
  obtain ⟨r, hr, hr'⟩ := dot_rounding a b h
  obtain ⟨t, ht, ht'⟩ := dotThreaded_rounding w a b hw h
  refine ⟨t, r, ht, hr, ?_⟩
  have e : t.val - r.val = (t.val - exactDot a b) - (r.val - exactDot a b) := by ring
  rw [e]
  refine (abs_sub _ _).trans ?_
  linarith

/-- the classical form of `dot_rounding`: `γ_{n+1} = (n+1) u / (1 - (n+1) u)` -/
theorem dot_rounding_gamma (a b : Array (Fl M)) (h : a.size = b.size)
    (hu : ((a.size + 1 : ℕ) : ℝ) * M.u < 1) :
    ∃ r, Vec.dot a b = .ok r
      ∧ |r.val - exactDot a b|
          ≤ ((a.size + 1 : ℕ) : ℝ) * M.u / (1 - ((a.size + 1 : ℕ) : ℝ) * M.u) * absDot a b := by
  obtain ⟨r, hr, hr'⟩ := dot_rounding a b h
  exact ⟨r, hr, hr'.trans (mul_le_mul_of_nonneg_right (M.gam_le_gamma _ hu) (absDot_nonneg a b))⟩

/-- the classical form of `dotThreaded_rounding` -/
theorem dotThreaded_rounding_gamma (w : Nat) (a b : Array (Fl M)) (hw : 0 < w)
    (h : a.size = b.size) (hu : ((maxChunk a.size w + w + 1 : ℕ) : ℝ) * M.u < 1) :
    ∃ t, dotThreaded w a b = .ok t
      ∧ |t.val - exactDot a b|
          ≤ ((maxChunk a.size w + w + 1 : ℕ) : ℝ) * M.u
              / (1 - ((maxChunk a.size w + w + 1 : ℕ) : ℝ) * M.u) * absDot a b := by
  obtain ⟨t, ht, ht'⟩ := dotThreaded_rounding w a b hw h
  exact ⟨t, ht, ht'.trans (mul_le_mul_of_nonneg_right (M.gam_le_gamma _ hu) (absDot_nonneg a b))⟩

/-! ### data whose partial sums are exact -/

/-- the sum of the computed products over an index range, when the products are representable -/
theorem rsum_products_range' (a b : Array (Fl M))
    (hp : ∀ j, M.Rep (term a b j)) (s k : Nat) :
    rsum ((List.range' s k).map (fun j => a.getD j 0 * b.getD j 0))
      = ∑ i ∈ Finset.Ico s (s + k), term a b i := by
  rw [rsum_map, ← sum_map_range']
  congr 1
  apply List.map_congr_left
  intro j _
  exact hp j

/-- **C16, "bit-identical on data whose partial sums are exact"**: if every contiguous partial sum
`Σ_{s ≤ i < e} aᵢ bᵢ` (`s ≤ e ≤ n`; `e = s + 1` gives the single products) is representable, then
the threaded product — for every worker count `w ≥ 1` — and the sequential product are equal, and
both are the exact dot product. -/
theorem dotThreaded_exact_data (w : Nat) (a b : Array (Fl M)) (hw : 0 < w) (h : a.size = b.size)
    (hex : ∀ s e, s ≤ e → e ≤ a.size → M.Rep (∑ i ∈ Finset.Ico s e, term a b i)) :
    dotThreaded w a b = Vec.dot a b ∧ Vec.dot a b = .ok ⟨exactDot a b⟩ := by
  -- every product is representable (out-of-range products are `0 * 0`)
  have hp : ∀ j, M.Rep (term a b j) := by
    intro j
    by_cases hj : j < a.size
    · have := hex j (j + 1) (by omega) (by omega)
      simpa using this
    · have : term a b j = 0 := by
        simp [term, Array.getD, hj]
      rw [this]; exact M.rep_zero
  -- prefix sums of an index range
  have hrange : ∀ s k N, s + k ≤ a.size →
      M.Rep (rsum (((List.range' s k).map (fun j => a.getD j 0 * b.getD j 0)).take N)) := by
    intro s k N hsk
    rw [← List.map_take, take_range'_eq, rsum_products_range' a b hp]
    exact hex _ _ (by omega) (by omega)
  have hseq : (((List.range a.size).map (fun j => a.getD j 0 * b.getD j 0)).foldl (· + ·) 0).val
      = exactDot a b := by
    rw [foldl_sum_exact, List.range_eq_range', rsum_products_range' a b hp, exactDot,
      Finset.range_eq_Ico, Nat.zero_add]
    intro N
    rw [List.range_eq_range']
    exact hrange 0 a.size N (by omega)
  have hthr : (((blocks w a b).map (fun l : List (Fl M) => l.foldl (· + ·) 0)).foldl (· + ·) 0).val
      = exactDot a b := by
    rw [foldl_blocks_exact, blocks_flatten w a b hw, List.range_eq_range',
      rsum_products_range' a b hp, exactDot, Finset.range_eq_Ico, Nat.zero_add]
    · intro l hl k
      simp only [blocks, chunks, List.map_map, List.mem_map, List.mem_range, Function.comp] at hl
      obtain ⟨i, hi, rfl⟩ := hl
      have := chunk_valid a.size w i hw hi
      exact hrange _ _ k (by omega)
    · intro N
      rw [blocks_flatten w a b hw, List.range_eq_range']
      exact hrange 0 a.size N (by omega)
  rw [dotThreaded_eq_blocks w a b hw h, dot_eq_fold a b h]
  constructor
  · congr 1; ext; rw [hthr, hseq]
  · congr 1; ext; exact hseq

/-- the same from a set `S` of representable numbers that contains `0` and all the products and is
closed under addition (e.g. the integers, or the multiples of a fixed power of two, for a rounding
that fixes them) -/
theorem dotThreaded_exact_of_closed (w : Nat) (a b : Array (Fl M)) (hw : 0 < w)
    (h : a.size = b.size) (S : Set ℝ) (hS : ∀ x ∈ S, M.Rep x) (h0 : (0 : ℝ) ∈ S)
    (hadd : ∀ x ∈ S, ∀ y ∈ S, x + y ∈ S) (hprod : ∀ i, i < a.size → term a b i ∈ S) :
    dotThreaded w a b = Vec.dot a b ∧ Vec.dot a b = .ok ⟨exactDot a b⟩ := by
  apply dotThreaded_exact_data w a b hw h
  intro s e hse he
  apply hS
  obtain ⟨k, rfl⟩ : ∃ k, e = s + k := ⟨e - s, by omega⟩
  clear hse
  induction k with
  | zero => simpa using h0
  | succ k ih =>
    rw [← add_assoc, Finset.sum_Ico_succ_top (by omega)]
    exact hadd _ (ih (by omega)) _ (hprod _ (by omega))

/-- **integer data in a binary format**: in the round-to-nearest format with `p+1` significant bits
(`FlModel.roundBits p`; `p = 52` is binary64's significand) the threaded and the sequential product
of vectors whose products `aᵢ bᵢ` are integers with `Σ |aᵢ bᵢ| < 2^(p+1)` are equal (and exact),
for every worker count. -/
theorem dotThreaded_exact_int (p w : Nat) (a b : Array (Fl (FlModel.roundBits p))) (hw : 0 < w)
    (h : a.size = b.size) (k : Nat → ℤ) (hk : ∀ i, i < a.size → term a b i = k i)
    (hsmall : absDot a b < 2 ^ (p + 1)) :
    dotThreaded w a b = Vec.dot a b ∧ Vec.dot a b = .ok ⟨exactDot a b⟩ := by
  apply dotThreaded_exact_data w a b hw h
  intro s e hse he
  have hsum : ∑ i ∈ Finset.Ico s e, term a b i = ((∑ i ∈ Finset.Ico s e, k i : ℤ) : ℝ) := by
    rw [Int.cast_sum]
    apply Finset.sum_congr rfl
    intro i hi
    exact hk i (by have := Finset.mem_Ico.mp hi; omega)
  rw [hsum]
  apply FlModel.roundBits_rep_int
  have h1 : |∑ i ∈ Finset.Ico s e, term a b i| ≤ absDot a b := by
    refine (Finset.abs_sum_le_sum_abs _ _).trans ?_
    apply Finset.sum_le_sum_of_subset_of_nonneg
    · intro i hi
      have := Finset.mem_Ico.mp hi
      exact Finset.mem_range.mpr (by omega)
    · intro i _ _; exact abs_nonneg _
  rw [hsum] at h1
  have h2 : ((|∑ i ∈ Finset.Ico s e, k i| : ℤ) : ℝ) < (((2 : ℤ) ^ (p + 1 : ℕ) : ℤ) : ℝ) := by
    rw [Int.cast_abs]
    refine lt_of_le_of_lt h1 (lt_of_lt_of_le hsmall (le_of_eq ?_))
    push_cast
    rfl
  exact Int.cast_lt.mp h2

end Rounding

/-! ### non-vacuity -/

section Examples
open Fl

/-- exact arithmetic is a model; there the bounds collapse to equality with the exact value -/
example (a b : Array (Fl FlModel.exact)) (h : a.size = b.size) :
    ∃ r, Vec.dot a b = .ok r ∧ r.val = exactDot a b := by
  obtain ⟨r, hr, hr'⟩ := dot_rounding a b h
  refine ⟨r, hr, ?_⟩
  have hg : FlModel.exact.gam (a.size + 1) = 0 := by simp [FlModel.gam, FlModel.exact]
  rw [hg, zero_mul] at hr'
  exact sub_eq_zero.mp (abs_nonpos_iff.mp hr')

/-- a model that really rounds (`fl x = (1 + 2⁻⁵³) x`): the bound of `dot_rounding` is attained for
`a = [x], b = [1]`: computed `(1+u)² x`, exact `x`, error `((1+u)² - 1) |x| = gam 2 · |x|`. -/
example (x : ℝ) :
    let M := FlModel.scale (2 ^ (-53 : ℤ)) (by positivity)
    let a : Array (Fl M) := #[⟨x⟩]
    let b : Array (Fl M) := #[1]
    ∃ r, Vec.dot a b = .ok r ∧ |r.val - exactDot a b| = M.gam (a.size + 1) * absDot a b := by
  intro M a b
  refine ⟨_, dot_eq_fold a b rfl, ?_⟩
  have hg := M.gam_nonneg 2
  have hg2 : M.gam 2 = (1 + M.u) ^ 2 - 1 := rfl
  have hv : (((List.range a.size).map (fun j => a.getD j 0 * b.getD j 0)).foldl (· + ·) 0).val
      = (1 + M.u) * (0 + (1 + M.u) * (x * 1)) := rfl
  have e1 : exactDot a b = x := by simp [exactDot, term, a, b]
  have e2 : absDot a b = |x| := by simp [absDot, term, a, b]
  rw [hv, e1, e2]
  have : (1 + M.u) * (0 + (1 + M.u) * (x * 1)) - x = M.gam 2 * x := by rw [hg2]; ring
  rw [this, abs_mul, abs_of_nonneg hg]
  rfl

/-- the hypothesis of `dotThreaded_exact_data` is satisfiable in a model that really rounds:
`fl` rounds every non-integer by the relative amount `2⁻⁵³` and fixes the integers; integer data
then give identical threaded and sequential results for every worker count. -/
noncomputable def intExact : FlModel := by
  classical
  exact
  { u := 2 ^ (-53 : ℤ)
    fl := fun x => if ∃ k : ℤ, x = k then x else (1 + 2 ^ (-53 : ℤ)) * x
    u_nonneg := by positivity
    fl_err := fun x => by
      split
      · simp only [sub_self, abs_zero]; positivity
      · have : (1 + (2 : ℝ) ^ (-53 : ℤ)) * x - x = 2 ^ (-53 : ℤ) * x := by ring
        rw [this, abs_mul, abs_of_nonneg (by positivity)] }

theorem intExact_rep (k : ℤ) : intExact.Rep (k : ℝ) := by
  classical
  simp [FlModel.Rep, intExact]

theorem intExact_not_rep : ¬ intExact.Rep (1 / 2 : ℝ) := by
  classical
  have hn : ¬ ∃ j : ℤ, (1 / 2 : ℝ) = j := by
    rintro ⟨j, hj⟩
    have h2 : (2 * j : ℤ) = (1 : ℤ) := by
      have : (2 : ℝ) * j = 1 := by rw [← hj]; norm_num
      exact_mod_cast this
    omega
  simp only [FlModel.Rep, intExact, hn, if_false]
  have : (0 : ℝ) < 2 ^ (-53 : ℤ) := by positivity
  intro h
  linarith

example (w : Nat) (hw : 0 < w) :
    let a : Array (Fl intExact) := #[⟨1⟩, ⟨-2⟩, ⟨3⟩, ⟨4⟩, ⟨5⟩]
    let b : Array (Fl intExact) := #[⟨6⟩, ⟨7⟩, ⟨-8⟩, ⟨9⟩, ⟨10⟩]
    dotThreaded w a b = Vec.dot a b := by
  intro a b
  refine (dotThreaded_exact_of_closed w a b hw rfl (Set.range (fun k : ℤ => (k : ℝ)))
    ?_ ⟨0, by simp⟩ ?_ ?_).1
  · rintro x ⟨k, rfl⟩; exact intExact_rep k
  · rintro x ⟨k, rfl⟩ y ⟨j, rfl⟩; exact ⟨k + j, by push_cast; ring⟩
  · intro i hi
    have hi' : i < 5 := hi
    obtain rfl | rfl | rfl | rfl | rfl : i = 0 ∨ i = 1 ∨ i = 2 ∨ i = 3 ∨ i = 4 := by omega
    · exact ⟨6, by simp [term, a, b]⟩
    · exact ⟨-14, by simp [term, a, b]; norm_num⟩
    · exact ⟨-24, by simp [term, a, b]; norm_num⟩
    · exact ⟨36, by simp [term, a, b]; norm_num⟩
    · exact ⟨50, by simp [term, a, b]; norm_num⟩

/-- integer data in the binary64-significand format (`FlModel.binary64 = FlModel.roundBits 52`): the hypotheses of `dotThreaded_exact_int` are
satisfiable, the results agree for every worker count -/
example (w : Nat) (hw : 0 < w) :
    let a : Array (Fl (FlModel.roundBits 52)) := #[⟨1⟩, ⟨-2⟩, ⟨3⟩, ⟨4⟩, ⟨5⟩]
    let b : Array (Fl (FlModel.roundBits 52)) := #[⟨6⟩, ⟨7⟩, ⟨-8⟩, ⟨9⟩, ⟨10⟩]
    dotThreaded w a b = Vec.dot a b ∧ Vec.dot a b = (.ok ⟨54⟩ : Res (Fl (FlModel.roundBits 52))) := by
  intro a b
  have hex : exactDot a b = 54 := by
    simp [exactDot, Finset.sum_range_succ, term, a, b]; norm_num
  have habs : absDot a b = 130 := by
    simp [absDot, Finset.sum_range_succ, term, a, b]; norm_num
  have := dotThreaded_exact_int 52 w a b hw rfl
    (fun i => if i = 0 then 6 else if i = 1 then -14 else if i = 2 then -24 else if i = 3 then 36 else 50)
    (by
      intro i hi
      have hi' : i < 5 := hi
      obtain rfl | rfl | rfl | rfl | rfl : i = 0 ∨ i = 1 ∨ i = 2 ∨ i = 3 ∨ i = 4 := by omega
      all_goals (simp [term, a, b]; try norm_num))
    (by rw [habs]; norm_num)
  rwa [hex] at this

end Examples

end Ohsl.Props.C16
