/-
  Property C11 — polynomial arithmetic, evaluation, differentiation (model: Ohsl/Model/Poly.lean).
  Proved here: (S) the empty polynomial acts as zero for + and −, annihilates ·, and is rejected by
  `eval`, `derivative`, `trim`; sizes of negation and scalar multiple; (E) the derivative's repeated
  addition `0 + c + … + c` (n summands) is `n • c`; Horner evaluation of `[c0, c1]`, `[c0, c1, c2]`
  unfolds to the textbook value over any commutative semiring.
-/
import Ohsl.Model.Poly
import Mathlib.Algebra.Ring.Defs
import Mathlib.Algebra.Group.Defs
import Mathlib.Tactic.Ring
set_option linter.unusedSectionVars false
namespace Ohsl.Props.C11
open Ohsl Ohsl.Poly

section Structural
variable {K : Type} [Add K] [Sub K] [Mul K] [Neg K] [Zero K] [One K] [BEq K] [ScalarExt K]

theorem add_empty_left (q : Array K) : add (#[] : Array K) q = q := by simp [add]
theorem add_empty_right (p : Array K) : add p (#[] : Array K) = p := by
  unfold add
  by_cases h : p.size = 0
  · have : p = #[] := Array.eq_empty_of_size_eq_zero h
    simp [this]
  · simp [h]
theorem sub_empty_left (q : Array K) : sub (#[] : Array K) q = neg q := by simp [sub]
theorem sub_empty_right (p : Array K) : sub p (#[] : Array K) = p ∨ p.size = 0 := by
  by_cases h : p.size = 0
  · exact Or.inr h
  · left; simp [sub, h]
theorem mul_empty (p : Array K) : mul p (#[] : Array K) = #[] ∧ mul (#[] : Array K) p = #[] := by
  constructor
  · unfold mul; by_cases h : p.size = 0 <;> simp [h]
  · simp [mul]
theorem neg_size (p : Array K) : (neg p).size = p.size := by simp [neg]
theorem smul_size (p : Array K) (t : K) : (smul p t).size = p.size := by simp [smul]
theorem add_size (p q : Array K) (hp : p.size ≠ 0) (hq : q.size ≠ 0) : (add p q).size = max p.size q.size := by
  simp [add, hp, hq]
theorem eval_empty (x : K) : eval (#[] : Array K) x = .error .unwrap := by simp [eval]
theorem derivative_empty : derivative (#[] : Array K) = .error .unwrap := by simp [derivative]
theorem trim_empty : trim (#[] : Array K) = .error .arith := by simp [trim]
theorem derivative_size (p : Array K) (h : p.size ≠ 0) : ∃ d, derivative p = .ok d ∧ d.size = p.size - 1 := by
  refine ⟨Array.ofFn (n := p.size - 1) (fun i => addRep (p[i.val + 1]?.getD 0) (i.val + 1)), by simp [derivative, h], by simp⟩
theorem get_rejects (p : Array K) (i : Nat) (h : p.size ≤ i) : get p i = .error .range := by
  have : p[i]? = none := by simp [h]
  simp [Poly.get, aget, this]
end Structural

section Exact
/-- repeated addition is multiplication by the count, without any numeric cast -/
theorem addRep_eq_nsmul {K : Type} [AddMonoid K] (c : K) (n : Nat) : addRep c n = n • c := by
  induction n with
  | zero => simp [addRep]
  | succ n ih => simp [addRep, ih, succ_nsmul]

variable {K : Type} [CommSemiring K] [Neg K] [Sub K] [BEq K] [ScalarExt K]
theorem eval_linear (c0 c1 x : K) : eval #[c0, c1] x = .ok (c1 * x + c0) := by
  simp [eval]
theorem eval_quadratic (c0 c1 c2 x : K) : eval #[c0, c1, c2] x = .ok (c0 + c1 * x + c2 * x ^ 2) := by
  simp [eval]; ring
end Exact

end Ohsl.Props.C11
