/-
  Property C12 — polynomial division (model: Ohsl/Model/Poly.lean, `polydiv`, `divStep`, `divLoop`).
  Proved here: (S) division by the empty or all-zero polynomial is reported as an error (`none`),
  never a panic, for ANY scalar type.
-/
import Ohsl.Model.Poly
set_option linter.unusedSectionVars false
namespace Ohsl.Props.C12
open Ohsl Ohsl.Poly
variable {K : Type} [Add K] [Sub K] [Mul K] [Neg K] [Zero K] [One K] [BEq K] [ScalarExt K]

theorem polydiv_rejects_empty (u : Array K) : polydiv u (#[] : Array K) = .ok none := by
  simp [polydiv]

theorem polydiv_rejects_zero (u v : Array K) (h : isZero v = true) : polydiv u v = .ok none := by
  unfold polydiv
  by_cases h0 : v.size = 0
  · simp [h0]
  · simp [h0, h]

/-- the dividend that is already zero (or empty) is returned as remainder with an empty quotient -/
theorem polydiv_zero_dividend (u v : Array K) (hv : v.size ≠ 0) (hz : isZero v = false) (hu : isZero u = true) :
    polydiv u v = .ok (some (#[], u)) := by
  simp [polydiv, hv, hz, divLoop, hu]

end Ohsl.Props.C12
