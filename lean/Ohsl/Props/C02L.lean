/-
  Property C02 (part L) — LEFT residual and FORWARD error of the computed inverse, with the
  conditioning explicit.  Class F ("rounded reals" `Fl M`, Ohsl/Lemmas/Rounding.lean): the model's
  `Mat.inverse` (Ohsl/Model/Solve.lean) instantiated at real numbers whose `+ - * /` round with
  relative error `≤ u`.  Completes C02F, which proves the componentwise RIGHT residual bound
  `|A X̂ − I| ≤ c_n · Pᵀ|L̂||Û||X̂|` (`inverse_right_residual`, `c_n = gq (n−1) + gq (2n−1)`) and
  leaves open "the left residual `X̂ A − I` and the forward error `X̂ − A⁻¹` (need conditioning)".

  Everything here is EXACT linear algebra over `ℝ` (Ohsl/Lemmas/C02L.lean) on top of that theorem;
  the bound of C02F is used as it stands, not re-derived.  The transfer to Rust `f64` rests on the
  assumption stated once in Rounding.lean.

  Notation.  `n` the order, `a` the entries of `A` (`Mat.Is A n n a`), `X̂` the matrix returned by
  `inverse A`, `s` the state returned by `luDecomp A`;
    `realMat n a`   the real matrix `A`  (`Matrix (Fin n) (Fin n) ℝ`, entries `(a i j).val`),
    `compMat n X̂`   the real matrix `X̂`  (entries `(ent X̂ i j).val`),
    `absLUMat n s`  `|L̂||Û|` (C01F's `absLU`),   `absLUX n s X̂`  `|L̂||Û||X̂|`,
    `invConst M n`  `c_n = gq (n−1) + gq (2n−1)`  (`≤ γ_{n−1} + γ_{2n−1}`, `invConst_le_gamma`),
    `nrmInf`        the max-row-sum norm `‖·‖∞` (= Mathlib's `Matrix.linftyOpNormedRing` norm,
                    `MatNorm.nrmInf_eq_norm`),  `A⁻¹` Mathlib's `Matrix.inv` (`nonsing_inv`).
  All statements are NORMWISE in `‖·‖∞` for the whole matrix (not columnwise): the left residual
  `X̂A − I = A⁻¹(AX̂ − I)A` mixes the columns.  The row permutation `P` disappears from the
  statements because `‖Pᵀ B‖∞ = ‖B‖∞`.  Write `ρ := c_n · ‖ |L̂||Û||X̂| ‖∞`.

  Theorems (hypotheses: `u < 1`, `Mat.Is A n n a`, `inverse A = .ok X̂`, and where stated
  `det A ≠ 0` over `ℝ` or `ρ < 1`; each conclusion is `∃ s, luDecomp A = .ok s ∧ …`)
  * `inverse_right_residual_norm`   `‖A X̂ − I‖∞ ≤ ρ`               (C02F's bound, normwise)
  * `absLUX_norm_le`                `‖|L̂||Û||X̂|‖∞ ≤ ‖|L̂||Û|‖∞ ‖X̂‖∞`   (so `ρ ≤ c_n ‖|L̂||Û|‖∞ ‖X̂‖∞`)
  * `inverse_forward_error`         `det A ≠ 0` ⇒ `‖X̂ − A⁻¹‖∞ ≤ ‖A⁻¹‖∞ · ρ`
  * `inverse_forward_error_relative`  … `≤ ‖A⁻¹‖∞ · c_n ‖|L̂||Û|‖∞ ‖X̂‖∞`
  * `inverse_left_residual`         `det A ≠ 0` ⇒ `‖X̂ A − I‖∞ ≤ ‖A⁻¹‖∞ ‖A‖∞ · ρ = κ∞(A) ρ`
  * `inverse_left_residual_coarse`  … `≤ κ∞(A) · c_n ‖|L̂||Û|‖∞ ‖X̂‖∞`
  * `inverse_nonsingular_of_small`  `ρ < 1` ⇒ `A` AND `X̂` are nonsingular (no hypothesis on `A`)
  * `inverse_forward_error_apost`   `ρ < 1` ⇒ `‖X̂ − A⁻¹‖∞ ≤ ‖X̂‖∞ ρ/(1−ρ)`   (no `A⁻¹` on the right)
  * `inverse_left_residual_apost`   `ρ < 1` ⇒ `‖X̂ A − I‖∞ ≤ ‖X̂‖∞ ‖A‖∞ ρ/(1−ρ)`
  * `inverse_forward_left_gamma`    both bounds with `γ_{n−1} + γ_{2n−1}` for `c_n`, `(2n−1)u < 1`.
  Nothing is `_partial`.  NOT claimed: a bound of `‖|L̂||Û|‖∞` by `‖A‖∞` (that is the growth factor
  of the elimination, not analysed in this project), hence no bound purely in `κ∞(A)·u`.

  Examples (section `Examples`): the `2 × 2` matrix `[[1,2],[3,4]]` (one row exchange) in the exact
  model meets every hypothesis (`det = −2 ≠ 0`, `ρ = 0 < 1`) and the conclusions give `X̂ = A⁻¹`,
  `X̂ A = I`; in exact arithmetic generally `X̂ A = I` and `X̂ = A⁻¹` are recovered; the `1 × 1`
  matrix `[2]` in the model `fl x = (1+u) x`: `ρ = u(1+u)/(1−u)` (`Ex.rho_scale`), so `0 < ρ < 1`
  for `0 < u ≤ 1/4` and the smallness hypothesis is met non-trivially.
-/
import Ohsl.Props.C02F
import Ohsl.Lemmas.C02L
import Mathlib.Algebra.BigOperators.Fin
set_option linter.unusedSectionVars false
set_option linter.unusedVariables false
set_option linter.unusedSimpArgs false
namespace Ohsl.Props.C02
open Ohsl Ohsl.Mat Ohsl.MatNorm
open Ohsl.Props.C01 (Lhat Uhat absLU permFn absLU_nonneg)

section Rounding
variable {M : FlModel}

/-- the real matrix of an entry function over `Fl M` -/
noncomputable def realMat (n : Nat) (a : Nat → Nat → Fl M) : Matrix (Fin n) (Fin n) ℝ :=
  toMat n fun i j => (a i j).val
/-- the real matrix of a model matrix over `Fl M` (its leading `n × n` entries) -/
noncomputable def compMat (n : Nat) (X : Mat (Fl M)) : Matrix (Fin n) (Fin n) ℝ :=
  toMat n (valEnt X)
/-- `|L̂||Û|` as a real matrix -/
noncomputable def absLUMat (n : Nat) (s : LU (Fl M)) : Matrix (Fin n) (Fin n) ℝ :=
  toMat n (absLU n s)
/-- `|L̂||Û||X̂|` as a real matrix -/
noncomputable def absLUX (n : Nat) (s : LU (Fl M)) (X : Mat (Fl M)) : Matrix (Fin n) (Fin n) ℝ :=
  toMat n fun r j => ∑ c ∈ Finset.range n, absLU n s r c * |valEnt X c j|
/-- the constant `c_n = gq (n−1) + gq (2n−1)` of `inverse_right_residual` -/
noncomputable def invConst (M : FlModel) (n : Nat) : ℝ := M.gq (n - 1) + M.gq (2 * n - 1)

theorem invConst_nonneg (hu : M.u < 1) (n : Nat) : 0 ≤ invConst M n :=
  add_nonneg (FlModel.gq_nonneg hu _) (FlModel.gq_nonneg hu _)

/-- `c_n ≤ γ_{n−1} + γ_{2n−1}` when `(2n−1) u < 1` -/
theorem invConst_le_gamma {n : Nat} (hn : 1 ≤ n) (hnu : ((2 * n - 1 : ℕ) : ℝ) * M.u < 1) :
    invConst M n ≤ ((n - 1 : ℕ) : ℝ) * M.u / (1 - ((n - 1 : ℕ) : ℝ) * M.u)
      + ((2 * n - 1 : ℕ) : ℝ) * M.u / (1 - ((2 * n - 1 : ℕ) : ℝ) * M.u) := by
  have hu0 := M.u_nonneg
  have hle : ((n - 1 : ℕ) : ℝ) ≤ ((2 * n - 1 : ℕ) : ℝ) := by
    have : n - 1 ≤ 2 * n - 1 := by omega
    exact_mod_cast this
  have hnu1 : ((n - 1 : ℕ) : ℝ) * M.u < 1 := by nlinarith
  exact add_le_add (FlModel.gq_le_gamma (n - 1) hnu1) (FlModel.gq_le_gamma (2 * n - 1) hnu)

theorem absLUX_nonneg (n : Nat) (s : LU (Fl M)) (X : Mat (Fl M)) (i j : Fin n) :
    0 ≤ absLUX n s X i j := by
  show 0 ≤ ∑ c ∈ Finset.range n, absLU n s i.val c * |valEnt X c j.val|
  exact Finset.sum_nonneg fun c _ => mul_nonneg (absLU_nonneg n s _ c) (abs_nonneg _)

/-- `|L̂||Û||X̂| = |L̂||Û| · |X̂|` as matrices -/
theorem absLUX_eq_mul (n : Nat) (s : LU (Fl M)) (X : Mat (Fl M)) :
    absLUX n s X = absLUMat n s * (compMat n X).map fun x => |x| := by
  ext i j
  rw [Matrix.mul_apply]
  exact (Fin.sum_univ_eq_sum_range (fun c => absLU n s i.val c * |valEnt X c j.val|) n).symm

/-- `‖|L̂||Û||X̂|‖∞ ≤ ‖|L̂||Û|‖∞ ‖X̂‖∞` -/
theorem absLUX_norm_le (n : Nat) (s : LU (Fl M)) (X : Mat (Fl M)) :
    nrmInf (absLUX n s X) ≤ nrmInf (absLUMat n s) * nrmInf (compMat n X) := by
  rw [absLUX_eq_mul, ← nrmInf_abs (compMat n X)]
  exact nrmInf_mul_le _ _

/-- entries of `A X̂ − I` -/
theorem realMat_mul_compMat_sub_one (n : Nat) (a : Nat → Nat → Fl M) (X : Mat (Fl M))
    (i j : Fin n) :
    (realMat n a * compMat n X - 1) i j
      = (∑ c ∈ Finset.range n, (a i.val c).val * (ent X c j.val).val)
        - (if i.val = j.val then 1 else 0) := by
  rw [Matrix.sub_apply, Matrix.mul_apply, Matrix.one_apply]
  congr 1
  · exact Fin.sum_univ_eq_sum_range (fun c => (a i.val c).val * (ent X c j.val).val) n
  · simp only [Fin.ext_iff]

/-- **`inverse()`, right residual in the `∞`-norm** (`u < 1`).  Whenever `inverse A` returns `X̂`
in `Fl M`, with `s` the state returned by `luDecomp A`:
`‖A X̂ − I‖∞ ≤ c_n · ‖ |L̂||Û||X̂| ‖∞`, `c_n = gq (n−1) + gq (2n−1)`.  This is
`inverse_right_residual` (C02F) summed over the rows; the row permutation drops out of the norm. -/
theorem inverse_right_residual_norm (hu : M.u < 1) {n : Nat} {A : Mat (Fl M)}
    {a : Nat → Nat → Fl M} (hA : Mat.Is A n n a) {X : Mat (Fl M)} (h : Mat.inverse A = .ok X) :
    ∃ s : LU (Fl M), Mat.luDecomp A = .ok s ∧ Mat.WFn X n ∧
      nrmInf (realMat n a * compMat n X - 1) ≤ invConst M n * nrmInf (absLUX n s X) := by
  obtain ⟨s, π, σ, hd, hp, _, hX, hres⟩ := inverse_right_residual hu hA h
  refine ⟨s, hd, hX, ?_⟩
  have hc := invConst_nonneg (M := M) hu n
  rw [nrmInf_le_iff _ (mul_nonneg hc (nrmInf_nonneg _))]
  intro i
  have hσ : σ i.val < n := (hp.2 i.val i.isLt).1
  calc ∑ j, |(realMat n a * compMat n X - 1) i j|
      ≤ ∑ j, invConst M n * |absLUX n s X ⟨σ i.val, hσ⟩ j| := by
        apply Finset.sum_le_sum
        intro j _
        rw [realMat_mul_compMat_sub_one, abs_of_nonneg (absLUX_nonneg n s X _ _)]
        exact hres i.val j.val i.isLt j.isLt
    _ = invConst M n * ∑ j, |absLUX n s X ⟨σ i.val, hσ⟩ j| := by rw [Finset.mul_sum]
    _ ≤ invConst M n * nrmInf (absLUX n s X) :=
        mul_le_mul_of_nonneg_left (row_sum_le_nrmInf _ _) hc

/-- **`inverse()`, forward error** (`u < 1`, `A` nonsingular over `ℝ`).  Whenever `inverse A`
returns `X̂` in `Fl M`, with `s` the state returned by `luDecomp A`:
`‖X̂ − A⁻¹‖∞ ≤ ‖A⁻¹‖∞ · c_n ‖ |L̂||Û||X̂| ‖∞`  (from `X̂ − A⁻¹ = A⁻¹ (A X̂ − I)`);
`A⁻¹` is the exact real inverse (Mathlib's `Matrix.inv`) of the real matrix of `A`.  Normwise for
the whole matrix. -/
theorem inverse_forward_error (hu : M.u < 1) {n : Nat} {A : Mat (Fl M)}
    {a : Nat → Nat → Fl M} (hA : Mat.Is A n n a) {X : Mat (Fl M)} (h : Mat.inverse A = .ok X)
    (hdet : (realMat n a).det ≠ 0) :
    ∃ s : LU (Fl M), Mat.luDecomp A = .ok s ∧
      nrmInf (compMat n X - (realMat n a)⁻¹)
        ≤ nrmInf (realMat n a)⁻¹ * (invConst M n * nrmInf (absLUX n s X)) := by
  obtain ⟨s, hd, _, hres⟩ := inverse_right_residual_norm hu hA h
  exact ⟨s, hd, (forward_error_le (isUnit_iff_ne_zero.mpr hdet) _).trans
    (mul_le_mul_of_nonneg_left hres (nrmInf_nonneg _))⟩

/-- **forward error, relative form**: `‖X̂ − A⁻¹‖∞ ≤ ‖A⁻¹‖∞ · c_n ‖|L̂||Û|‖∞ ‖X̂‖∞`, i.e. the error
relative to `‖A⁻¹‖∞` is at most `c_n ‖|L̂||Û|‖∞ ‖X̂‖∞`. -/
theorem inverse_forward_error_relative (hu : M.u < 1) {n : Nat} {A : Mat (Fl M)}
    {a : Nat → Nat → Fl M} (hA : Mat.Is A n n a) {X : Mat (Fl M)} (h : Mat.inverse A = .ok X)
    (hdet : (realMat n a).det ≠ 0) :
    ∃ s : LU (Fl M), Mat.luDecomp A = .ok s ∧
      nrmInf (compMat n X - (realMat n a)⁻¹)
        ≤ nrmInf (realMat n a)⁻¹ *
          (invConst M n * (nrmInf (absLUMat n s) * nrmInf (compMat n X))) := by
  obtain ⟨s, hd, hres⟩ := inverse_forward_error hu hA h hdet
  exact ⟨s, hd, hres.trans (mul_le_mul_of_nonneg_left
    (mul_le_mul_of_nonneg_left (absLUX_norm_le n s X) (invConst_nonneg hu n)) (nrmInf_nonneg _))⟩

/-- **`inverse()`, left residual** (`u < 1`, `A` nonsingular over `ℝ`).  Whenever `inverse A`
returns `X̂` in `Fl M`, with `s` the state returned by `luDecomp A`:
`‖X̂ A − I‖∞ ≤ ‖A⁻¹‖∞ ‖A‖∞ · c_n ‖ |L̂||Û||X̂| ‖∞ = κ∞(A) · c_n ‖ |L̂||Û||X̂| ‖∞`
(from `X̂ A − I = A⁻¹ (A X̂ − I) A`).  Normwise for the whole matrix. -/
theorem inverse_left_residual (hu : M.u < 1) {n : Nat} {A : Mat (Fl M)}
    {a : Nat → Nat → Fl M} (hA : Mat.Is A n n a) {X : Mat (Fl M)} (h : Mat.inverse A = .ok X)
    (hdet : (realMat n a).det ≠ 0) :
    ∃ s : LU (Fl M), Mat.luDecomp A = .ok s ∧
      nrmInf (compMat n X * realMat n a - 1)
        ≤ nrmInf (realMat n a)⁻¹ * nrmInf (realMat n a)
          * (invConst M n * nrmInf (absLUX n s X)) := by
  obtain ⟨s, hd, _, hres⟩ := inverse_right_residual_norm hu hA h
  exact ⟨s, hd, (left_residual_le (isUnit_iff_ne_zero.mpr hdet) _).trans
    (mul_le_mul_of_nonneg_left hres (mul_nonneg (nrmInf_nonneg _) (nrmInf_nonneg _)))⟩

/-- **left residual, coarse form**: `‖X̂ A − I‖∞ ≤ κ∞(A) · c_n ‖|L̂||Û|‖∞ ‖X̂‖∞` -/
theorem inverse_left_residual_coarse (hu : M.u < 1) {n : Nat} {A : Mat (Fl M)}
    {a : Nat → Nat → Fl M} (hA : Mat.Is A n n a) {X : Mat (Fl M)} (h : Mat.inverse A = .ok X)
    (hdet : (realMat n a).det ≠ 0) :
    ∃ s : LU (Fl M), Mat.luDecomp A = .ok s ∧
      nrmInf (compMat n X * realMat n a - 1)
        ≤ nrmInf (realMat n a)⁻¹ * nrmInf (realMat n a)
          * (invConst M n * (nrmInf (absLUMat n s) * nrmInf (compMat n X))) := by
  obtain ⟨s, hd, hres⟩ := inverse_left_residual hu hA h hdet
  exact ⟨s, hd, hres.trans (mul_le_mul_of_nonneg_left
    (mul_le_mul_of_nonneg_left (absLUX_norm_le n s X) (invConst_nonneg hu n))
    (mul_nonneg (nrmInf_nonneg _) (nrmInf_nonneg _)))⟩

/-- **a small residual bound certifies nonsingularity** (`u < 1`; NO hypothesis on `A`).  Whenever
`inverse A` returns `X̂` in `Fl M`, with `s` the state returned by `luDecomp A`: if
`ρ = c_n ‖ |L̂||Û||X̂| ‖∞ < 1` then both the real matrix `A` and the computed `X̂` are nonsingular. -/
theorem inverse_nonsingular_of_small (hu : M.u < 1) {n : Nat} {A : Mat (Fl M)}
    {a : Nat → Nat → Fl M} (hA : Mat.Is A n n a) {X : Mat (Fl M)} (h : Mat.inverse A = .ok X) :
    ∃ s : LU (Fl M), Mat.luDecomp A = .ok s ∧
      (invConst M n * nrmInf (absLUX n s X) < 1 →
        (realMat n a).det ≠ 0 ∧ (compMat n X).det ≠ 0) := by
  obtain ⟨s, hd, _, hres⟩ := inverse_right_residual_norm hu hA h
  refine ⟨s, hd, fun hρ => ?_⟩
  obtain ⟨h1, h2⟩ := isUnit_det_of_right_residual_lt_one (lt_of_le_of_lt hres hρ)
  exact ⟨isUnit_iff_ne_zero.mp h1, isUnit_iff_ne_zero.mp h2⟩

/-- **forward error, a posteriori form** (`u < 1`; no hypothesis on `A`, no `A⁻¹` on the right).
With `ρ = c_n ‖ |L̂||Û||X̂| ‖∞`: if `ρ < 1` then `‖X̂ − A⁻¹‖∞ ≤ ‖X̂‖∞ · ρ/(1 − ρ)`
(`A` is nonsingular by `inverse_nonsingular_of_small`; uses `‖A⁻¹‖∞ ≤ ‖X̂‖∞/(1 − ρ)`). -/
theorem inverse_forward_error_apost (hu : M.u < 1) {n : Nat} {A : Mat (Fl M)}
    {a : Nat → Nat → Fl M} (hA : Mat.Is A n n a) {X : Mat (Fl M)} (h : Mat.inverse A = .ok X) :
    ∃ s : LU (Fl M), Mat.luDecomp A = .ok s ∧
      (invConst M n * nrmInf (absLUX n s X) < 1 →
        nrmInf (compMat n X - (realMat n a)⁻¹)
          ≤ nrmInf (compMat n X) / (1 - invConst M n * nrmInf (absLUX n s X))
            * (invConst M n * nrmInf (absLUX n s X))) := by
  obtain ⟨s, hd, _, hres⟩ := inverse_right_residual_norm hu hA h
  exact ⟨s, hd, fun hρ => forward_error_le_apost_of_le hres hρ⟩

/-- **left residual, a posteriori form** (`u < 1`; no hypothesis on `A`).  With
`ρ = c_n ‖ |L̂||Û||X̂| ‖∞`: if `ρ < 1` then `‖X̂ A − I‖∞ ≤ ‖X̂‖∞ ‖A‖∞ · ρ/(1 − ρ)`. -/
theorem inverse_left_residual_apost (hu : M.u < 1) {n : Nat} {A : Mat (Fl M)}
    {a : Nat → Nat → Fl M} (hA : Mat.Is A n n a) {X : Mat (Fl M)} (h : Mat.inverse A = .ok X) :
    ∃ s : LU (Fl M), Mat.luDecomp A = .ok s ∧
      (invConst M n * nrmInf (absLUX n s X) < 1 →
        nrmInf (compMat n X * realMat n a - 1)
          ≤ nrmInf (compMat n X) * nrmInf (realMat n a)
              / (1 - invConst M n * nrmInf (absLUX n s X))
            * (invConst M n * nrmInf (absLUX n s X))) := by
  obtain ⟨s, hd, _, hres⟩ := inverse_right_residual_norm hu hA h
  exact ⟨s, hd, fun hρ => left_residual_le_apost_of_le hres hρ⟩

/-- **the classical constants**: forward error and left residual with `γ_{n−1} + γ_{2n−1}`,
`γ_k = k u/(1 − k u)`, when `(2n−1) u < 1` and `A` is nonsingular over `ℝ`:
`‖X̂ − A⁻¹‖∞ ≤ ‖A⁻¹‖∞ (γ_{n−1}+γ_{2n−1}) ‖|L̂||Û||X̂|‖∞` and
`‖X̂ A − I‖∞ ≤ κ∞(A) (γ_{n−1}+γ_{2n−1}) ‖|L̂||Û||X̂|‖∞`. -/
theorem inverse_forward_left_gamma {n : Nat} (hn : 1 ≤ n)
    (hnu : ((2 * n - 1 : ℕ) : ℝ) * M.u < 1) {A : Mat (Fl M)} {a : Nat → Nat → Fl M}
    (hA : Mat.Is A n n a) {X : Mat (Fl M)} (h : Mat.inverse A = .ok X)
    (hdet : (realMat n a).det ≠ 0) :
    ∃ s : LU (Fl M), Mat.luDecomp A = .ok s ∧
      nrmInf (compMat n X - (realMat n a)⁻¹)
        ≤ nrmInf (realMat n a)⁻¹ *
          ((((n - 1 : ℕ) : ℝ) * M.u / (1 - ((n - 1 : ℕ) : ℝ) * M.u)
              + ((2 * n - 1 : ℕ) : ℝ) * M.u / (1 - ((2 * n - 1 : ℕ) : ℝ) * M.u))
            * nrmInf (absLUX n s X)) ∧
      nrmInf (compMat n X * realMat n a - 1)
        ≤ nrmInf (realMat n a)⁻¹ * nrmInf (realMat n a) *
          ((((n - 1 : ℕ) : ℝ) * M.u / (1 - ((n - 1 : ℕ) : ℝ) * M.u)
              + ((2 * n - 1 : ℕ) : ℝ) * M.u / (1 - ((2 * n - 1 : ℕ) : ℝ) * M.u))
            * nrmInf (absLUX n s X)) := by
  have hu0 := M.u_nonneg
  have h1 : (1 : ℝ) ≤ ((2 * n - 1 : ℕ) : ℝ) := by
    have : 1 ≤ 2 * n - 1 := by omega
    exact_mod_cast this
  have hu : M.u < 1 := by nlinarith
  obtain ⟨s, hd, _, hres⟩ := inverse_right_residual_norm hu hA h
  have hres' := hres.trans
    (mul_le_mul_of_nonneg_right (invConst_le_gamma hn hnu) (nrmInf_nonneg (absLUX n s X)))
  have hunit := isUnit_iff_ne_zero.mpr hdet
  exact ⟨s, hd,
    (forward_error_le hunit _).trans (mul_le_mul_of_nonneg_left hres' (nrmInf_nonneg _)),
    (left_residual_le hunit _).trans
      (mul_le_mul_of_nonneg_left hres' (mul_nonneg (nrmInf_nonneg _) (nrmInf_nonneg _)))⟩

end Rounding

/-! ### non-vacuity -/

section Examples

/-- in exact arithmetic (`u = 0`, `c_n = 0`) the left residual bound is `0`: `X̂ A = I` for every
nonsingular `A` on which `inverse` succeeds -/
example {n : Nat} {A X : Mat (Fl FlModel.exact)} {a : Nat → Nat → Fl FlModel.exact}
    (hA : Mat.Is A n n a) (h : Mat.inverse A = .ok X) (hdet : (realMat n a).det ≠ 0) :
    compMat n X * realMat n a = 1 ∧ compMat n X = (realMat n a)⁻¹ := by
  have hu : FlModel.exact.u < 1 := by simp [FlModel.exact]
  have hc : invConst FlModel.exact n = 0 := by simp [invConst, FlModel.gq_exact]
  obtain ⟨s, _, h1⟩ := inverse_left_residual hu hA h hdet
  obtain ⟨s', _, h2⟩ := inverse_forward_error hu hA h hdet
  rw [hc, zero_mul, mul_zero] at h1 h2
  have e1 := le_antisymm h1 (nrmInf_nonneg _)
  have e2 := le_antisymm h2 (nrmInf_nonneg _)
  constructor
  · apply sub_eq_zero.mp
    ext i j
    have := abs_entry_le_nrmInf (compMat n X * realMat n a - 1) i j
    rw [e1] at this
    simpa using abs_nonpos_iff.mp this
  · apply sub_eq_zero.mp
    ext i j
    have := abs_entry_le_nrmInf (compMat n X - (realMat n a)⁻¹) i j
    rw [e2] at this
    simpa using abs_nonpos_iff.mp this

namespace Ex
open Ohsl.Props.C01.Ex

/-- the real matrix of `A2 = [[1,2],[3,4]]` has determinant `−2` -/
theorem det_A2 : (realMat 2 (Mat.ent A2)).det = -2 := by
  rw [Matrix.det_fin_two]
  norm_num [realMat, toMat, Mat.ent, A2]

/-- every hypothesis of the theorems of this file is met by the concrete `2 × 2` matrix
`[[1,2],[3,4]]` (a genuine row exchange) in the exact model: `Is`, `u < 1`, `inverse = .ok`,
`det ≠ 0`, and the smallness hypothesis `ρ < 1` (there `ρ = 0`) for the state `s` that the theorems
produce -/
example : ∃ (A X : Mat E), Mat.Is A 2 2 (Mat.ent A) ∧ FlModel.exact.u < 1 ∧
    Mat.inverse A = .ok X ∧ (realMat 2 (Mat.ent A)).det ≠ 0 ∧
    ∃ s : LU E, Mat.luDecomp A = .ok s ∧
      invConst FlModel.exact 2 * nrmInf (absLUX 2 s X) < 1 ∧
      nrmInf (compMat 2 X - (realMat 2 (Mat.ent A))⁻¹)
        ≤ nrmInf (realMat 2 (Mat.ent A))⁻¹ * (invConst FlModel.exact 2 * nrmInf (absLUX 2 s X)) ∧
      nrmInf (compMat 2 X * realMat 2 (Mat.ent A) - 1)
        ≤ nrmInf (realMat 2 (Mat.ent A))⁻¹ * nrmInf (realMat 2 (Mat.ent A))
          * (invConst FlModel.exact 2 * nrmInf (absLUX 2 s X)) := by
  have hu : FlModel.exact.u < 1 := by simp [FlModel.exact]
  have hA : Mat.Is A2 2 2 (Mat.ent A2) := Mat.WFn.is ⟨rfl, rfl, rfl⟩
  have hdet : (realMat 2 (Mat.ent A2)).det ≠ 0 := by rw [det_A2]; norm_num
  have hc : invConst FlModel.exact 2 = 0 := by simp [invConst, FlModel.gq_exact]
  obtain ⟨s, hd, h1⟩ := inverse_forward_error hu hA inverse_A2 hdet
  obtain ⟨s', hd', h2⟩ := inverse_left_residual hu hA inverse_A2 hdet
  rw [hd] at hd'
  injection hd' with hd'
  subst hd'
  refine ⟨A2, _, hA, hu, inverse_A2, hdet, s, hd, ?_, h1, h2⟩
  rw [hc, zero_mul]
  exact zero_lt_one

/-! a model that really rounds, `fl x = (1+u) x` (`FlModel.scale`), and the `1 × 1` matrix `[2]`:
`X̂ = [fl(1/2)] = [(1+u)/2]`, `|L̂||Û||X̂| = [1+u]`, `c_1 = gq 1 = u/(1−u)`, so
`ρ = u(1+u)/(1−u)`, which is `> 0` for `u > 0` and `< 1` for `u ≤ 1/4`: the smallness hypothesis
is met non-trivially -/

section Scale
variable (u : ℝ) (hu0 : 0 ≤ u)

theorem luDecomp_scale :
    Mat.luDecomp (⟨#[⟨2⟩], 1, 1⟩ : Mat (S u hu0)) = .ok ⟨⟨#[⟨2⟩], 1, 1⟩, ⟨#[1], 1, 1⟩, 0⟩ := by
  norm_num [luDecomp, eye, forM', Mat.new, Mat.set, aset, List.range', luStep, luPivot,
    Mat.get, aget, bind, Except.bind, pure, Except.pure, S.add_eq, S.mul_eq, S.lt_eq,
    S.mag_eq, S.divM_eq, Fl.ext_iff]

theorem inverse_scale :
    Mat.inverse (⟨#[⟨2⟩], 1, 1⟩ : Mat (S u hu0)) = .ok ⟨#[⟨(1 + u) * (1 / 2)⟩], 1, 1⟩ := by
  have h2 : ¬ (1 : Nat) ≠ 1 := by simp
  simp only [inverse, h2, if_false, luDecomp_scale, bind, Except.bind]
  norm_num [forM', List.range', List.range_succ, Mat.get, Mat.set, aget, aset, bind, Except.bind,
    pure, Except.pure, S.add_eq, S.mul_eq, S.divM_eq, Fl.ext_iff]

theorem rho_scale (hu1 : u < 1) :
    invConst (FlModel.scale u hu0) 1 *
      nrmInf (absLUX 1 (⟨⟨#[⟨2⟩], 1, 1⟩, ⟨#[1], 1, 1⟩, 0⟩ : LU (S u hu0))
        (⟨#[⟨(1 + u) * (1 / 2)⟩], 1, 1⟩ : Mat (S u hu0)))
      = u * (1 + u) / (1 - u) := by
  have h1 : (1 : ℝ) - u ≠ 0 := by linarith
  have h2 : |1 + u| = 1 + u := abs_of_nonneg (by linarith)
  set s : LU (S u hu0) := ⟨⟨#[⟨2⟩], 1, 1⟩, ⟨#[1], 1, 1⟩, 0⟩ with hs
  set X : Mat (S u hu0) := ⟨#[⟨(1 + u) * (1 / 2)⟩], 1, 1⟩ with hX
  have hL : Lhat s 0 0 = 1 := by rw [C01.Lhat_apply]; simp
  have hU : Uhat 1 s 0 0 = 2 := by rw [C01.Uhat_apply 1 s (by omega)]; simp [Mat.ent, hs]
  have hx : valEnt X 0 0 = (1 + u) * (1 / 2) := by simp [valEnt, Mat.ent, hX]
  have e : absLUX 1 s X 0 0 = 1 + u := by
    show ∑ c ∈ Finset.range 1, absLU 1 s 0 c * |valEnt X c 0| = _
    simp only [Finset.sum_range_one, absLU, hL, hU, hx, abs_mul, h2]
    norm_num
    ring
  rw [nrmInf_fin_one, e, h2]
  simp only [invConst, FlModel.gq, FlModel.scale]
  norm_num
  field_simp
  ring

/-- the hypotheses of `inverse_nonsingular_of_small`, `inverse_forward_error_apost` and
`inverse_left_residual_apost` are met in a model that really rounds, with `0 < ρ < 1`
(`0 < u ≤ 1/4`), and their conclusions hold there -/
example (hpos : 0 < u) (hu4 : u ≤ 1 / 4) :
    ∃ (A X : Mat (S u hu0)), Mat.Is A 1 1 (Mat.ent A) ∧ (FlModel.scale u hu0).u < 1 ∧
      Mat.inverse A = .ok X ∧
      ∃ s : LU (S u hu0), Mat.luDecomp A = .ok s ∧
        0 < invConst (FlModel.scale u hu0) 1 * nrmInf (absLUX 1 s X) ∧
        invConst (FlModel.scale u hu0) 1 * nrmInf (absLUX 1 s X) < 1 ∧
        (realMat 1 (Mat.ent A)).det ≠ 0 ∧ (compMat 1 X).det ≠ 0 ∧
        nrmInf (compMat 1 X - (realMat 1 (Mat.ent A))⁻¹)
          ≤ nrmInf (compMat 1 X)
              / (1 - invConst (FlModel.scale u hu0) 1 * nrmInf (absLUX 1 s X))
            * (invConst (FlModel.scale u hu0) 1 * nrmInf (absLUX 1 s X)) := by
  have hu1 : u < 1 := by linarith
  have hu : (FlModel.scale u hu0).u < 1 := hu1
  have hA : Mat.Is (⟨#[⟨2⟩], 1, 1⟩ : Mat (S u hu0)) 1 1 (Mat.ent _) := Mat.WFn.is ⟨rfl, rfl, rfl⟩
  obtain ⟨s, hd, hns⟩ := inverse_nonsingular_of_small hu hA (inverse_scale u hu0)
  obtain ⟨s', hd', hfe⟩ := inverse_forward_error_apost hu hA (inverse_scale u hu0)
  rw [hd] at hd'
  injection hd' with hd'
  subst hd'
  have hs := hd
  rw [luDecomp_scale] at hs
  injection hs with hs
  have hρ := rho_scale u hu0 hu1
  rw [hs] at hρ
  have h1 : 0 < 1 - u := by linarith
  have hlt : invConst (FlModel.scale u hu0) 1 *
      nrmInf (absLUX 1 s (⟨#[⟨(1 + u) * (1 / 2)⟩], 1, 1⟩ : Mat (S u hu0))) < 1 := by
    rw [hρ, div_lt_one h1]; nlinarith
  have hgt : 0 < invConst (FlModel.scale u hu0) 1 *
      nrmInf (absLUX 1 s (⟨#[⟨(1 + u) * (1 / 2)⟩], 1, 1⟩ : Mat (S u hu0))) := by
    rw [hρ]; positivity
  exact ⟨_, _, hA, hu, inverse_scale u hu0, s, hd, hgt, hlt, (hns hlt).1, (hns hlt).2, hfe hlt⟩

end Scale

end Ex

end Examples

end Ohsl.Props.C02
