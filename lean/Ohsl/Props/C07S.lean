/-
  Property C07 (sparse products), exact part — model: Ohsl/Model/Sparse.lean.
  Class (E), `K` a commutative semiring (`Sub`, `Neg`, `BEq`, `ScalarExt` arbitrary: unused by the
  code).  For a well-formed CSC storage `s` (`Sp.WF`, Ohsl/Lemmas/SparseSpec.lean):
  * `multiply` / `transpose_multiply` succeed exactly on conformable vectors and compute the sums
    over the column slots (`multiply_spec`, `transposeMultiply_spec`, closed forms `multiply_eq`,
    `transposeMultiply_eq`);
  * adjoint identity ⟨y, A x⟩ = ⟨Aᵀ y, x⟩, also for the model's `Vec.dot` (`adjoint`, `adjoint_dot`);
  * `scale` multiplies every stored value, commutes with `multiply` (`scale_spec`,
    `scale_multiply`);  `multiply s` is additive and homogeneous (`multiply_add`, `multiply_smul`)
    and is the action of a `K`-linear map (`linOf`, `multiply_ofFn`);
  * for duplicate-free storage `to_dense` holds the denoted matrix and the sparse product is the
    dense product (`toDense_spec`, `multiply_eq_dense`).
-/
import Ohsl.Props.C07
import Ohsl.Lemmas.SparseSpec
import Ohsl.Lemmas.MatSpec
import Mathlib.Algebra.Module.LinearMap.Defs
import Mathlib.Algebra.Module.Pi
import Mathlib.Tactic.IntervalCases
set_option linter.unusedSectionVars false
set_option linter.unusedVariables false
set_option linter.unusedSimpArgs false
open Ohsl.Mat (forM' forM'_inv aget_ok aset_ok)
namespace Ohsl.Props.C07
open Ohsl Ohsl.Sp
variable {K : Type} [CommSemiring K] [Sub K] [Neg K] [BEq K] [ScalarExt K]

/-! ### 1. `multiply` -/

/-- `multiply` on a well-formed storage and a vector of length `cols` succeeds; component `i` of the
    result is `Σ_{j<cols} Σ_{k ∈ [colStart j, colStart (j+1)), rowIndex k = i} val k * x j`. -/
theorem multiply_spec {s : Sp K} (h : WF s) (x : Array K) (hx : x.size = s.cols) :
    ∃ y, multiply s x = .ok y ∧ y.size = s.rows ∧ ∀ i, i < s.rows → y[i]? = some
      (∑ j ∈ Finset.range s.cols, ∑ k ∈ Finset.Ico (s.cs j) (s.cs (j + 1)),
        if s.ri k = i then s.vl k * x[j]?.getD 0 else 0) := by
  have h0 : ¬ s.cols ≠ x.size := by omega
  simp only [multiply, h0, if_false]
  obtain ⟨y, h1, h2, h3⟩ := forM'_inv
    (fun m (r : Array K) => r.size = s.rows ∧ ∀ i, i < s.rows → r[i]?.getD 0 =
      ∑ j ∈ Finset.range m, ∑ k ∈ Finset.Ico (s.cs j) (s.cs (j + 1)),
        if s.ri k = i then s.vl k * x[j]?.getD 0 else 0)
    0 s.cols (Array.replicate s.rows (0 : K)) (fun res j => do
      let xj ← aget x j
      let lo ← aget s.colStart j
      let hi ← aget s.colStart (j + 1)
      forM' lo hi res (fun res k => do
        let ri ← aget s.rowIndex k
        let v ← aget s.val k
        let r ← aget res ri
        aset res ri (r + v * xj))) (Nat.zero_le _)
    ⟨by simp, by intro i hi; simp [hi]⟩ (by
      intro j r _ hj ⟨hsz, hr⟩
      have hxj : j < x.size := by omega
      obtain ⟨r', g1, g2, g3⟩ := scatter_loop s.rowIndex s.val x[j] s.rows (s.cs j) (s.cs (j + 1)) r
        (h.mono j hj) hsz (by
          intro k _ hk
          have := h.slot_lt hj hk
          exact ⟨by rw [h.riSize]; exact this, by rw [h.valSize]; exact this, h.riLt k this⟩)
      refine ⟨r', ?_, g2, ?_⟩
      · show (do
          let xj ← aget x j
          let lo ← aget s.colStart j
          let hi ← aget s.colStart (j + 1)
          forM' lo hi r (fun res k => do
            let ri ← aget s.rowIndex k
            let v ← aget s.val k
            let r ← aget res ri
            aset res ri (r + v * xj))) = _
        rw [aget_ok hxj, h.aget_cs (by omega), h.aget_cs (by omega)]
        exact g1
      · intro i hi
        rw [g3 i hi, hr i hi, Finset.sum_range_succ]
        have : x[j]?.getD 0 = x[j] := by simp [hxj]
        rw [this]; rfl)
  refine ⟨y, h1, h2, ?_⟩
  intro i hi
  have := h3 i hi
  have hi' : i < y.size := by omega
  simp only [hi', Array.getElem?_eq_getElem, Option.getD_some] at this
  simp [hi', this]

/-- closed form of `multiply` -/
theorem multiply_eq {s : Sp K} (h : WF s) (x : Array K) (hx : x.size = s.cols) :
    multiply s x = .ok (Array.ofFn fun i : Fin s.rows => mulF s (fun j => x[j]?.getD 0) i) := by
  obtain ⟨y, h1, h2, h3⟩ := multiply_spec h x hx
  rw [h1]
  congr 1
  apply Array.ext_getElem?
  intro i
  rw [Array.getElem?_ofFn]
  by_cases hi : i < s.rows
  · simp only [hi, dif_pos, h3 i hi]; rfl
  · simp only [hi, dif_neg, not_false_eq_true]
    simp; omega

/-! ### 2. `transpose_multiply` -/

/-- `transpose_multiply` on a well-formed storage and a vector of length `rows` succeeds; component
    `j` of the result is `Σ_{k ∈ [colStart j, colStart (j+1))} val k * y (rowIndex k)`. -/
theorem transposeMultiply_spec {s : Sp K} (h : WF s) (y : Array K) (hy : y.size = s.rows) :
    ∃ z, transposeMultiply s y = .ok z ∧ z.size = s.cols ∧ ∀ j, j < s.cols → z[j]? = some
      (∑ k ∈ Finset.Ico (s.cs j) (s.cs (j + 1)), s.vl k * y[s.ri k]?.getD 0) := by
  have h0 : ¬ s.rows ≠ y.size := by omega
  simp only [transposeMultiply, h0, if_false]
  obtain ⟨z, h1, h2, h3⟩ := forM'_inv
    (fun m (r : Array K) => r.size = s.cols ∧ ∀ i, i < s.cols → r[i]?.getD 0 =
      if i < m then ∑ k ∈ Finset.Ico (s.cs i) (s.cs (i + 1)), s.vl k * y[s.ri k]?.getD 0 else 0)
    0 s.cols (Array.replicate s.cols (0 : K)) (fun res i => do
      let lo ← aget s.colStart i
      let hi ← aget s.colStart (i + 1)
      forM' lo hi res (fun res k => do
        let v ← aget s.val k
        let ri ← aget s.rowIndex k
        let xr ← aget y ri
        let r ← aget res i
        aset res i (r + v * xr))) (Nat.zero_le _)
    ⟨by simp, by intro i hi; simp [hi]⟩ (by
      intro j r _ hj ⟨hsz, hr⟩
      obtain ⟨r', g1, g2, g3⟩ := gather_loop s.rowIndex s.val y s.cols j (s.cs j) (s.cs (j + 1)) r
        (h.mono j hj) hsz hj (by
          intro k _ hk
          have := h.slot_lt hj hk
          exact ⟨by rw [h.riSize]; exact this, by rw [h.valSize]; exact this,
            by rw [hy]; exact h.riLt k this⟩)
      refine ⟨r', ?_, g2, ?_⟩
      · show (do
          let lo ← aget s.colStart j
          let hi ← aget s.colStart (j + 1)
          forM' lo hi r (fun res k => do
            let v ← aget s.val k
            let ri ← aget s.rowIndex k
            let xr ← aget y ri
            let r ← aget res j
            aset res j (r + v * xr))) = _
        rw [h.aget_cs (by omega), h.aget_cs (by omega)]
        exact g1
      · intro i hi
        rw [g3 i hi, hr i hi]
        by_cases hc : i = j
        · subst hc
          have : ¬ i < i := by omega
          simp only [this, if_false, if_true, Nat.lt_succ_self, zero_add]; rfl
        · have e1 : (i < j + 1) = (i < j) := by apply propext; omega
          simp only [hc, if_false, add_zero, e1])
  refine ⟨z, h1, h2, ?_⟩
  intro j hj
  have := h3 j hj
  have hj' : j < z.size := by omega
  simp only [hj, if_true, hj', Array.getElem?_eq_getElem, Option.getD_some] at this
  simp [hj', this]

/-- closed form of `transpose_multiply` -/
theorem transposeMultiply_eq {s : Sp K} (h : WF s) (y : Array K) (hy : y.size = s.rows) :
    transposeMultiply s y = .ok (Array.ofFn fun j : Fin s.cols => tmulF s (fun i => y[i]?.getD 0) j) := by
  obtain ⟨z, h1, h2, h3⟩ := transposeMultiply_spec h y hy
  rw [h1]
  congr 1
  apply Array.ext_getElem?
  intro i
  rw [Array.getElem?_ofFn]
  by_cases hi : i < s.cols
  · simp only [hi, dif_pos, h3 i hi]; rfl
  · simp only [hi, dif_neg, not_false_eq_true]
    simp; omega

/-! ### 3. adjoint identity -/

/-- ⟨y, A x⟩ = ⟨Aᵀ y, x⟩ with ⟨a, b⟩ = Σ_i a_i b_i -/
theorem adjoint {s : Sp K} (h : WF s) (x y : Array K) (hx : x.size = s.cols) (hy : y.size = s.rows) :
    ∃ u v, multiply s x = .ok u ∧ transposeMultiply s y = .ok v ∧ u.size = s.rows ∧ v.size = s.cols ∧
      ∑ i ∈ Finset.range s.rows, y[i]?.getD 0 * u[i]?.getD 0 =
        ∑ j ∈ Finset.range s.cols, v[j]?.getD 0 * x[j]?.getD 0 := by
  refine ⟨_, _, multiply_eq h x hx, transposeMultiply_eq h y hy, by simp, by simp, ?_⟩
  have := sum_mulF_eq_sum_tmulF h (fun j => x[j]?.getD 0) (fun i => y[i]?.getD 0)
  rw [← Finset.sum_congr rfl (fun i hi => ?_), this]
  · refine Finset.sum_congr rfl (fun j hj => ?_)
    simp [Array.getElem?_ofFn, Finset.mem_range.mp hj]
  · simp [Array.getElem?_ofFn, Finset.mem_range.mp hi]

/-- the same identity for the model's dot product `Vec.dot` (accumulation in index order) -/
theorem adjoint_dot {s : Sp K} (h : WF s) (x y : Array K) (hx : x.size = s.cols) (hy : y.size = s.rows) :
    (do let u ← multiply s x; Vec.dot y u) = (do let v ← transposeMultiply s y; Vec.dot v x) ∧
    ∃ d, (do let u ← multiply s x; Vec.dot y u) = .ok d := by
  obtain ⟨u, v, h1, h2, h3, h4, h5⟩ := adjoint h x y hx hy
  have e1 : ¬ y.size ≠ u.size := by omega
  have e2 : ¬ v.size ≠ x.size := by omega
  simp only [h1, h2, bind, Except.bind, Vec.dot, e1, e2, if_false,
    foldl_zipWith_eq_sum y u s.rows hy h3, foldl_zipWith_eq_sum v x s.cols h4 hx, h5]
  exact ⟨trivial, _, rfl⟩

/-! ### 4. `scale`, linearity -/

/-- `scale` multiplies every stored value (on the right) and changes nothing else -/
theorem scale_spec (s : Sp K) (hv : s.val.size = s.nonzero) (a : K) :
    scale s a = .ok { s with val := s.val.map (· * a) } := by
  obtain ⟨v, h1, h2, h3⟩ := forM'_inv
    (fun m (v : Array K) => v.size = s.nonzero ∧ ∀ k, v[k]? =
      if k < m then s.val[k]?.map (· * a) else s.val[k]?)
    0 s.nonzero s.val (fun v k => do
      let x ← aget v k
      aset v k (x * a)) (Nat.zero_le _) ⟨hv, by simp⟩ (by
      intro m v _ hm ⟨hsz, hr⟩
      have hm' : m < v.size := by omega
      have hm'' : m < s.val.size := by omega
      refine ⟨v.setIfInBounds m (v[m] * a), by simp [aget_ok hm', aset_ok _ hm', bind, Except.bind],
        by simpa using hsz, ?_⟩
      intro k
      rw [Array.getElem?_setIfInBounds]
      by_cases hc : m = k
      · subst hc
        have := hr m
        simp only [Nat.lt_irrefl, if_false, hm', hm'', Array.getElem?_eq_getElem, Option.some.injEq] at this
        simp [hm', hm'', this]
      · have e1 : (k < m + 1) = (k < m) := by apply propext; omega
        simp only [hc, if_false, e1, hr k])
  have : v = s.val.map (· * a) := by
    apply Array.ext_getElem?
    intro k
    rw [h3 k, Array.getElem?_map]
    by_cases hk : k < s.nonzero
    · simp [hk]
    · have : s.val.size ≤ k := by omega
      simp [hk, this]
  unfold scale
  rw [h1, this]
  rfl

theorem wf_scale {s : Sp K} (h : WF s) (a : K) : WF { s with val := s.val.map (· * a) } :=
  ⟨h.csSize, h.cs0, h.mono, h.csLast, by simpa using h.valSize, h.riSize, h.riLt⟩

/-- `multiply (scale s a) x = (multiply s x) * a` componentwise (`Vec.smul y a` is `y[i] * a`) -/
theorem scale_multiply {s : Sp K} (h : WF s) (a : K) (x : Array K) (hx : x.size = s.cols) :
    ∃ s' y, scale s a = .ok s' ∧ WF s' ∧ multiply s x = .ok y ∧ multiply s' x = .ok (Vec.smul y a) := by
  refine ⟨_, _, scale_spec s h.valSize a, wf_scale h a, multiply_eq h x hx, ?_⟩
  rw [multiply_eq (wf_scale h a) x hx]
  congr 1
  apply Array.ext_getElem?
  intro i
  simp only [Vec.smul, Array.getElem?_map, Array.getElem?_ofFn]
  by_cases hi : i < s.rows
  · simp only [hi, dif_pos, Option.map_some, Option.some.injEq]
    unfold mulF
    simp only [Finset.sum_mul]
    refine Finset.sum_congr rfl (fun j _ => Finset.sum_congr rfl (fun k _ => ?_))
    have e1 : Sp.ri { s with val := s.val.map (· * a) } k = s.ri k := rfl
    have e2 : Sp.vl { s with val := s.val.map (· * a) } k = s.vl k * a := by
      simp only [Sp.vl, Array.getElem?_map]
      cases s.val[k]? <;> simp
    rw [e1, e2]
    split
    · ring
    · simp
  · simp [hi]

/-- additivity of `multiply s`, as an equation between model computations -/
theorem multiply_add {s : Sp K} (h : WF s) (x x' : Array K) (hx : x.size = s.cols) (hx' : x'.size = s.cols) :
    (do let z ← Vec.add x x'; multiply s z) =
      (do let y ← multiply s x; let y' ← multiply s x'; Vec.add y y') ∧
    ∃ w, (do let z ← Vec.add x x'; multiply s z) = .ok w := by
  have e0 : ¬ x.size ≠ x'.size := by omega
  have hz : (Array.zipWith (· + ·) x x').size = s.cols := by simp [hx, hx']
  simp only [Vec.add, e0, if_false, bind, Except.bind, multiply_eq h x hx, multiply_eq h x' hx',
    multiply_eq h _ hz, Array.size_ofFn, ne_eq, not_true_eq_false]
  refine ⟨?_, _, rfl⟩
  congr 1
  apply Array.ext_getElem?
  intro i
  simp only [Array.getElem?_zipWith, Array.getElem?_ofFn]
  by_cases hi : i < s.rows
  · simp only [hi, dif_pos, Option.some.injEq]
    rw [← mulF_add]
    apply mulF_congr
    intro j hj
    have a1 : j < x.size := by omega
    have a2 : j < x'.size := by omega
    simp [Array.getElem?_zipWith, a1, a2]
  · simp [hi]

/-- homogeneity of `multiply s` (`Vec.smul x a` is `x[i] * a`) -/
theorem multiply_smul {s : Sp K} (h : WF s) (x : Array K) (a : K) (hx : x.size = s.cols) :
    ∃ y, multiply s x = .ok y ∧ multiply s (Vec.smul x a) = .ok (Vec.smul y a) := by
  refine ⟨_, multiply_eq h x hx, ?_⟩
  rw [multiply_eq h _ (by simpa [Vec.smul] using hx)]
  congr 1
  apply Array.ext_getElem?
  intro i
  simp only [Vec.smul, Array.getElem?_map, Array.getElem?_ofFn]
  by_cases hi : i < s.rows
  · simp only [hi, dif_pos, Option.map_some, Option.some.injEq]
    rw [← mulF_smul]
    apply mulF_congr
    intro j hj
    have a1 : j < x.size := by omega
    simp [a1]
  · simp [hi]

/-- `multiply s` is linear: additive and homogeneous on vectors of length `cols` -/
theorem multiply_linear {s : Sp K} (h : WF s) (x x' : Array K) (a : K) (hx : x.size = s.cols)
    (hx' : x'.size = s.cols) :
    ((do let z ← Vec.add x x'; multiply s z) =
      (do let y ← multiply s x; let y' ← multiply s x'; Vec.add y y')) ∧
    ∃ y, multiply s x = .ok y ∧ multiply s (Vec.smul x a) = .ok (Vec.smul y a) :=
  ⟨(multiply_add h x x' hx hx').1, multiply_smul h x a hx⟩

/-- The `K`-linear map denoted by the storage (defined for every `s`; `multiply_ofFn` says that
    `multiply` computes it when `s` is well formed). -/
def linOf (s : Sp K) : (Fin s.cols → K) →ₗ[K] (Fin s.rows → K) where
  toFun v i := mulF s (fun j => if hj : j < s.cols then v ⟨j, hj⟩ else 0) i
  map_add' v w := by
    funext i
    simp only [Pi.add_apply]
    rw [← mulF_add]
    apply mulF_congr
    intro j hj
    simp [hj]
  map_smul' a v := by
    funext i
    simp only [Pi.smul_apply, smul_eq_mul, RingHom.id_apply]
    rw [mul_comm, ← mulF_smul]
    apply mulF_congr
    intro j hj
    simp [hj, mul_comm]

/-- `multiply s` is the action of the linear map `linOf s` -/
theorem multiply_ofFn {s : Sp K} (h : WF s) (v : Fin s.cols → K) :
    multiply s (Array.ofFn v) = .ok (Array.ofFn (linOf s v)) := by
  rw [multiply_eq h _ (by simp)]
  congr 1
  apply congrArg
  funext i
  show mulF s _ i = mulF s _ i
  apply mulF_congr
  intro j hj
  simp [Array.getElem?_ofFn, hj]

/-! ### 5. relation with `to_dense` -/

/-- no (row, column) position is stored twice -/
def NoDup (s : Sp K) : Prop :=
  ∀ j, j < s.cols → ∀ k k', s.cs j ≤ k → k < s.cs (j + 1) → s.cs j ≤ k' → k' < s.cs (j + 1) →
    s.ri k = s.ri k' → k = k'

theorem is_congr {m : Mat K} {r c : Nat} {e e' : Nat → Nat → K} (h : Mat.Is m r c e)
    (he : ∀ i j, i < r → j < c → e i j = e' i j) : Mat.Is m r c e' :=
  ⟨h.wf, h.rows, h.cols, fun i j hi hj => by rw [h.entry i j hi hj, he i j hi hj]⟩

/-- inner loop of `to_dense` for a column `j` that is still zero, duplicate-free slots -/
theorem dense_loop (rowIndex : Array Nat) (val : Array K) (r c j lo hi : Nat) (d : Mat K)
    (e : Nat → Nat → K) (hd : Mat.Is d r c e) (hle : lo ≤ hi) (hj : j < c) (he : ∀ a, e a j = 0)
    (hk : ∀ k, lo ≤ k → k < hi → k < rowIndex.size ∧ k < val.size ∧ rowIndex[k]?.getD 0 < r)
    (hnd : ∀ k k', lo ≤ k → k < hi → lo ≤ k' → k' < hi →
      rowIndex[k]?.getD 0 = rowIndex[k']?.getD 0 → k = k') :
    ∃ d', forM' lo hi d (fun d k => do
        let r ← aget rowIndex k
        let v ← aget val k
        d.set r j v) = .ok d' ∧
      Mat.Is d' r c (fun a b => if b = j then
        ∑ k ∈ Finset.Ico lo hi, if rowIndex[k]?.getD 0 = a then val[k]?.getD 0 else 0 else e a b) := by
  refine forM'_inv
    (fun m (d : Mat K) => Mat.Is d r c (fun a b => if b = j then
        ∑ k ∈ Finset.Ico lo m, if rowIndex[k]?.getD 0 = a then val[k]?.getD 0 else 0 else e a b))
    lo hi d (fun d k => do
        let r ← aget rowIndex k
        let v ← aget val k
        d.set r j v) hle ?_ ?_
  · refine is_congr hd (fun a b _ _ => ?_)
    by_cases hb : b = j
    · subst hb; simp [he]
    · simp [hb]
  · intro m d' hlo hhi hI
    obtain ⟨a1, a2, a3⟩ := hk m hlo hhi
    have e1 : rowIndex[m]?.getD 0 = rowIndex[m] := by simp [a1]
    have e2 : val[m]?.getD 0 = val[m] := by simp [a2]
    rw [e1] at a3
    obtain ⟨d'', g1, g2⟩ := hI.set a3 hj val[m]
    refine ⟨d'', by simp [aget_ok a1, aget_ok a2, g1, bind, Except.bind], is_congr g2 ?_⟩
    intro a b _ _
    by_cases hb : b = j
    · subst hb
      simp only [and_true, if_true, Finset.sum_Ico_succ_top hlo, e1, e2]
      by_cases ha : a = rowIndex[m]
      · subst ha
        have hz : ∑ k ∈ Finset.Ico lo m, (if rowIndex[k]?.getD 0 = rowIndex[m] then val[k]?.getD 0 else 0) = 0 := by
          apply Finset.sum_eq_zero
          intro k hk'
          obtain ⟨k1, k2⟩ := Finset.mem_Ico.mp hk'
          have : ¬ rowIndex[k]?.getD 0 = rowIndex[m] := by
            intro hc
            have := hnd k m k1 (by omega) hlo hhi (by rw [hc, e1])
            omega
          simp [this]
        simp [hz]
      · have ha' : ¬ rowIndex[m] = a := fun h => ha h.symm
        simp [ha, ha']
    · simp [hb]

/-- for duplicate-free well-formed storage `to_dense` succeeds and entry (i, j) of the result is
    the stored value at that position (0 if there is none), i.e. `Sp.entry s i j` -/
theorem toDense_spec {s : Sp K} (h : WF s) (hnd : NoDup s) :
    ∃ d, toDense s = .ok d ∧ Mat.Is d s.rows s.cols (fun i j => s.entry i j) := by
  unfold toDense
  obtain ⟨d, h1, h2⟩ := forM'_inv
    (fun m (d : Mat K) => Mat.Is d s.rows s.cols (fun a b => if b < m then s.entry a b else 0))
    0 s.cols (Mat.new s.rows s.cols (0 : K)) (fun d j => do
      let lo ← aget s.colStart j
      let hi ← aget s.colStart (j + 1)
      forM' lo hi d (fun d k => do
        let r ← aget s.rowIndex k
        let v ← aget s.val k
        d.set r j v)) (Nat.zero_le _) (by simpa using Mat.Is.of_new s.rows s.cols (0 : K)) (by
      intro j d _ hj hI
      obtain ⟨d', g1, g2⟩ := dense_loop s.rowIndex s.val s.rows s.cols j (s.cs j) (s.cs (j + 1)) d _ hI
        (h.mono j hj) hj (by intro a; simp) (by
          intro k _ hk
          have := h.slot_lt hj hk
          exact ⟨by rw [h.riSize]; exact this, by rw [h.valSize]; exact this, h.riLt k this⟩)
        (fun k k' a b c d e => hnd j hj k k' a b c d e)
      refine ⟨d', ?_, is_congr g2 ?_⟩
      · show (do
          let lo ← aget s.colStart j
          let hi ← aget s.colStart (j + 1)
          forM' lo hi d (fun d k => do
            let r ← aget s.rowIndex k
            let v ← aget s.val k
            d.set r j v)) = _
        rw [h.aget_cs (by omega), h.aget_cs (by omega)]
        exact g1
      · intro a b _ _
        by_cases hb : b = j
        · subst hb
          simp only [Nat.lt_succ_self, if_true]
          rfl
        · have e1 : (b < j + 1) = (b < j) := by apply propext; omega
          simp only [hb, if_false, e1])
  exact ⟨d, h1, is_congr h2 (fun a b _ hb => by simp [hb])⟩

/-- for duplicate-free well-formed storage the sparse product is the dense product of `to_dense` -/
theorem multiply_eq_dense {s : Sp K} (h : WF s) (hnd : NoDup s) (x : Array K) (hx : x.size = s.cols) :
    ∃ d y, toDense s = .ok d ∧ multiply s x = .ok y ∧ Mat.mulVec d x = .ok y := by
  obtain ⟨d, h1, h2⟩ := toDense_spec h hnd
  refine ⟨d, _, h1, multiply_eq h x hx, ?_⟩
  rw [Mat.mulVec_spec h2 x hx]
  congr 1
  apply Array.ext_getElem?
  intro i
  rw [Array.getElem?_ofFn]
  by_cases hi : i < s.rows
  · simp only [hi, dif_pos, List.getElem?_toArray, List.getElem?_map, List.getElem?_range hi,
      Option.map_some, Option.some.injEq]
    rw [foldl_zipWith_eq_sum _ x s.cols (by simp) hx, mulF_eq_entry]
    refine Finset.sum_congr rfl (fun j hj => ?_)
    have := Finset.mem_range.mp hj
    simp [this]
  · simp [hi]

/-! ### the hypotheses are satisfiable -/

/-- the 2×3 matrix `[[1,0,4],[2,3,0]]` -/
def demo : Sp ℤ := ⟨2, 3, 4, #[1, 2, 3, 4], #[0, 1, 1, 0], #[0, 2, 3, 4]⟩

example : WF demo ∧ NoDup demo := by
  refine ⟨⟨rfl, rfl, ?_, rfl, rfl, rfl, ?_⟩, ?_⟩
  · intro j hj
    have : j = 0 ∨ j = 1 ∨ j = 2 := by simp only [demo] at hj; omega
    rcases this with rfl | rfl | rfl <;> simp [Sp.cs, demo]
  · intro k hk
    have : k = 0 ∨ k = 1 ∨ k = 2 ∨ k = 3 := by simp only [demo] at hk; omega
    rcases this with rfl | rfl | rfl | rfl <;> simp [Sp.ri, demo]
  · intro j hj k k' a b c d e
    have hj' : j < 3 := hj
    interval_cases j <;> simp [Sp.cs, demo] at a b c d <;>
      interval_cases k <;> interval_cases k' <;> simp_all [Sp.ri, demo]

/-! ### duplicates: the hypothesis `NoDup` cannot be dropped

`from_triplets` keeps duplicate positions.  On such storage `multiply` SUMS the duplicates whereas
`to_dense` keeps the LAST one, so the two products differ. -/

/-- exact integer scalars (only used for the concrete instance below) -/
@[reducible] def intExt : ScalarExt ℤ :=
  ⟨fun a b => if b = 0 then .error .arith else .ok (a / b), fun a b => decide (a < b),
   fun a => if a < 0 then -a else a⟩
attribute [local instance] intExt

/-- the 1×1 matrix stored as two entries at position (0,0): 1 and 2 -/
def dup : Sp ℤ := ⟨1, 1, 2, #[1, 2], #[0, 0], #[0, 2]⟩

theorem dup_wf : WF dup := by
  refine ⟨rfl, rfl, ?_, rfl, rfl, rfl, ?_⟩
  · intro j hj
    have hj' : j < 1 := hj
    interval_cases j; simp [Sp.cs, dup]
  · intro k hk
    have hk' : k < 2 := hk
    interval_cases k <;> simp [Sp.ri, dup]

/-- well-formed storage with a duplicate: sparse product 3·x, dense product 2·x -/
theorem duplicates_differ :
    multiply dup #[1] = .ok #[3] ∧ (toDense dup >>= fun d => Mat.mulVec d #[1]) = .ok #[2] := by
  decide +kernel

end Ohsl.Props.C07
