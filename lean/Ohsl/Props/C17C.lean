/-
  Property C17 (continued) — gaps closed after review.

  A. SCALAR iterations, class (S) (any scalar type, arbitrary arithmetic, every user function):
     both loops of the model are instances of one bounded early-exit loop
     (`solveScalar_eq_loop`, `solveCx_eq_loop`; `NewtonGen.loop`, Ohsl/Lemmas/C17C.lean) whose step
     function is the Newton update as the model computes it (`scalarStep`, `cxStep`; they can be
     read off the model itself: `scalarStep_is_model`, `cxStep_is_model`).  With the iterate
     sequence `x_0 = guess`, `x_{k+1} = step x_k` (`scalarIter`, `cxIter`):
     * `scalar_success_char_strong`, `cx_success_char_strong` : `Ok(x)` ⇒ for some `k < maxIter`:
       `x = x_{k+1} = c − f c / f'_δ(c)` with `c = x_k` THE previous iterate of the run, the step
       from `x_k` passed the tolerance test, no earlier step did, and `f` was evaluated exactly at
       `x_j + δ, x_j − δ, x_j` (`j = 0..k`, in this order);
     * `scalar_failure_carries_last`, `cx_failure_carries_last` : `Err(x)` ⇒ `x = x_maxIter`, no
       step passed the test, `3 · maxIter` evaluations at the points listed;
     * `cx_success_char` : the weak form (analogue of `scalar_success_char`);
     * `cx_bounded_exact` / `scalar_bounded_exact` : `k ≤ maxIter` iterations, exactly three
       evaluations per iteration, at the points listed (`cx_bounded` itself is in C17.lean).

  B. SYSTEM iteration, the panic branch (`solveSys … = .error _`):
     * `sys_panics_iff_struct` (S) : the run is an error iff after `k < maxIter` full steps that did
       not meet the tolerance the next iteration fails in one of its four fallible operations
       (`StepFails`: norm of the empty residual, Jacobian call, linear solve, update);
     * `stepFails_iff` / `sys_panics_iff` (E, linearly ordered field, `Vec.normInf`) : … iff the
       residual is the empty vector, or the Jacobian call panics, or the Jacobian is not square of
       the order of the residual, or it is SINGULAR (`det = 0`, through `C01.solveBasic_ok_iff`), or
       the point has a different length than the step;
     * `jacobian_ok_wf` (S) : whatever `f`, a returning finite-difference Jacobian is a
       well-formed `|f point| × |point|` matrix; `sys_panics_iff_fd` (E) : the finite-difference
       instance, which also covers the empty guess (`sys_fd_empty_guess_panics`);
     * `sys_evals_before_panic` (S), `sys_evals_before_panic_fd` (S) : the model discards the trace
       of a panicking call, so the count is stated through the completed iterations (a returning
       run with budget `k`) plus the calls of the panicking iteration; with the finite-difference
       Jacobian: at most `maxIter * (d + 2)` calls of `f` before the panic, as for returning runs.
  C. `newton_sys_fixed_point_singular(_gen)` (E) : a guess that is an exact root with a singular
     Jacobian there makes every run with `maxIter ≥ 1` PANIC (although the guess solves the system);
     `maxIter = 0` returns `Err(guess)`.  Example `F(x, y) = (x², y)` at `0` over ℚ.
-/
import Ohsl.Props.C17A
import Ohsl.Props.C01C
import Ohsl.Lemmas.C17C
import Ohsl.Props.C18J
set_option linter.unusedSectionVars false
set_option linter.unusedVariables false
set_option linter.unusedSimpArgs false
set_option linter.style.haveILetI false
namespace Ohsl.Props.C17
open Ohsl Ohsl.Newton Ohsl.Jac Ohsl.Mat

/-! ### A. the scalar iterations -/
section Scalar
variable {K : Type} [Add K] [Sub K] [Mul K] [Neg K] [Div K] [Zero K] [One K] [BEq K] [ScalarExt K]
  [Transc K]

/-- the Newton correction at `c` as `Newton<f64>::solve` computes it: `f c / f'_δ(c)` with the
    central difference `f'_δ(c) = (f (c + δ) − f (c − δ)) / (2 δ)` -/
def scalarDx (f : K → K) (delta c : K) : K :=
  f c / ((f (c + delta) - f (c - delta)) / ((1 + 1) * delta))

/-- the Newton update `c ↦ c − f c / f'_δ(c)` -/
def scalarStep (f : K → K) (delta c : K) : K := c - scalarDx f delta c

/-- the iterate sequence of the real scalar method: `x_0 = x0`, `x_{k+1} = scalarStep x_k` -/
def scalarIter (f : K → K) (delta x0 : K) (k : Nat) : K := NewtonGen.iter (scalarStep f delta) x0 k

/-- the stopping test of the step that starts at `c`: `|dx| <= tol` -/
def scalarTest (f : K → K) (tol delta c : K) : Bool :=
  Transc.le (Transc.fabs (scalarDx f delta c)) tol

/-- the three points at which `f` is evaluated in the iteration that starts at `c` -/
def scalarPts (delta c : K) : List K := [c + delta, c - delta, c]

@[simp] theorem scalarIter_zero (f : K → K) (delta x0 : K) : scalarIter f delta x0 0 = x0 := rfl
theorem scalarIter_succ (f : K → K) (delta x0 : K) (k : Nat) :
    scalarIter f delta x0 (k + 1) = scalarStep f delta (scalarIter f delta x0 k) := rfl

/-- the model's real scalar loop is the generic early-exit loop with the Newton update as step -/
theorem solveScalar_eq_loop (f : K → K) (tol delta : K) :
    ∀ (n : Nat) (cur : K) (tr : List K),
      solveScalar f tol delta n cur tr
        = NewtonGen.loop (scalarStep f delta) (scalarTest f tol delta) (scalarPts delta) n cur tr
  | 0, cur, tr => rfl
  | n + 1, cur, tr => by
    rw [solveScalar, NewtonGen.loop]
    simp only [scalarTest, scalarDx, scalarStep, scalarPts]
    rw [solveScalar_eq_loop f tol delta n]
    rfl

/-- `scalarStep` is the model's own step function: a run with a budget of one iteration returns
    it (as `Ok` or as `Err`), whatever the tolerance -/
theorem scalarStep_is_model (f : K → K) (tol delta cur : K) (tr : List K) :
    (solveScalar f tol delta 1 cur tr).1.x = scalarStep f delta cur := by
  rw [solveScalar_eq_loop, NewtonGen.loop_one]

/-- **strong success characterisation (real scalar method), class (S)**: if the run reports
    `Ok(x)` then for some `k < maxIter`, with `c = x_k` THE `k`-th iterate of this run,
    `x = x_{k+1} = c − f c / ((f (c + δ) − f (c − δ)) / (2 δ))`, the step from `c` passed the test
    `|dx| <= tol`, the steps from `x_0 … x_{k-1}` did not, and `f` was evaluated exactly at
    `x_j + δ, x_j − δ, x_j`, `j = 0 … k`, in this order (`3 (k + 1)` evaluations). -/
theorem scalar_success_char_strong (f : K → K) (tol delta : K) (n : Nat) (x0 : K) (tr : List K)
    (hok : (solveScalar f tol delta n x0 tr).1.ok = true) :
    ∃ k, k < n ∧
      (solveScalar f tol delta n x0 tr).1.x = scalarIter f delta x0 (k + 1) ∧
      (let c := scalarIter f delta x0 k
       (solveScalar f tol delta n x0 tr).1.x
          = c - f c / ((f (c + delta) - f (c - delta)) / ((1 + 1) * delta)) ∧
       Transc.le (Transc.fabs (f c / ((f (c + delta) - f (c - delta)) / ((1 + 1) * delta)))) tol
          = true) ∧
      (∀ j, j < k → Transc.le (Transc.fabs (scalarDx f delta (scalarIter f delta x0 j))) tol = false) ∧
      (solveScalar f tol delta n x0 tr).2
        = tr ++ (List.range (k + 1)).flatMap (fun j => scalarPts delta (scalarIter f delta x0 j)) := by
  rw [solveScalar_eq_loop] at hok ⊢
  obtain ⟨k, hk, e1, e2, e3, e4⟩ :=
    (NewtonGen.loop_char (scalarStep f delta) (scalarTest f tol delta) (scalarPts delta) n x0 tr).1 hok
  exact ⟨k, hk, e1, ⟨e1, e2⟩, e3, e4⟩

/-- **failure carries the last iterate (real scalar method), class (S)**: if the run reports
    `Err(x)` then `x = x_maxIter`, none of the `maxIter` steps passed the test, and `f` was
    evaluated exactly at `x_j + δ, x_j − δ, x_j`, `j < maxIter` (`3 · maxIter` evaluations). -/
theorem scalar_failure_carries_last (f : K → K) (tol delta : K) (n : Nat) (x0 : K) (tr : List K)
    (hok : (solveScalar f tol delta n x0 tr).1.ok = false) :
    (solveScalar f tol delta n x0 tr).1.x = scalarIter f delta x0 n ∧
    (∀ j, j < n → Transc.le (Transc.fabs (scalarDx f delta (scalarIter f delta x0 j))) tol = false) ∧
    (solveScalar f tol delta n x0 tr).2
      = tr ++ (List.range n).flatMap (fun j => scalarPts delta (scalarIter f delta x0 j)) := by
  rw [solveScalar_eq_loop] at hok ⊢
  exact (NewtonGen.loop_char (scalarStep f delta) (scalarTest f tol delta) (scalarPts delta) n x0 tr).2 hok

theorem length_flatMap_three {β : Type} (g : Nat → List β) (hg : ∀ j, (g j).length = 3) :
    ∀ k, ((List.range k).flatMap g).length = 3 * k
  | 0 => rfl
  | k + 1 => by
    rw [List.range_succ, List.flatMap_append, List.length_append, length_flatMap_three g hg k]
    simp [hg]
    omega

/-- **iteration and evaluation bound with the evaluation points (real scalar method)**: every run
    makes `k ≤ maxIter` iterations (`k = maxIter` on failure, `k ≥ 1` on success), evaluates `f`
    exactly three times per iteration, at `x_j + δ, x_j − δ, x_j`, and returns `x_k`. -/
theorem scalar_bounded_exact (f : K → K) (tol delta : K) (n : Nat) (x0 : K) (tr : List K) :
    ∃ k, k ≤ n ∧
      (solveScalar f tol delta n x0 tr).2
        = tr ++ (List.range k).flatMap (fun j => scalarPts delta (scalarIter f delta x0 j)) ∧
      (solveScalar f tol delta n x0 tr).2.length = tr.length + 3 * k ∧
      (solveScalar f tol delta n x0 tr).1.x = scalarIter f delta x0 k ∧
      ((solveScalar f tol delta n x0 tr).1.ok = false → k = n) ∧
      ((solveScalar f tol delta n x0 tr).1.ok = true → 1 ≤ k) := by
  have hlen := length_flatMap_three (fun j => scalarPts delta (scalarIter f delta x0 j)) (fun _ => rfl)
  cases hok : (solveScalar f tol delta n x0 tr).1.ok with
  | true =>
    obtain ⟨k, hk, e1, _, _, e4⟩ := scalar_success_char_strong f tol delta n x0 tr hok
    exact ⟨k + 1, hk, e4, by rw [e4, List.length_append, hlen], e1, fun h => by simp at h,
      fun _ => by omega⟩
  | false =>
    obtain ⟨e1, _, e4⟩ := scalar_failure_carries_last f tol delta n x0 tr hok
    exact ⟨n, Nat.le_refl _, e4, by rw [e4, List.length_append, hlen], e1, fun _ => rfl,
      fun h => by simp at h⟩

/-! #### the complex scalar method -/

/-- the Newton correction at `c` as `Newton<Cmplx>::solve` computes it: `f c / f'_δ(c)` with
    `f'_δ(c) = (f (c + δ) − f (c − δ)) / (2 δ)`, `δ` real (`Complex / f64`, then `Complex / Complex`) -/
def cxDx (f : Cx K → Cx K) (delta : K) (c : Cx K) : Cx K :=
  Cx.divT (f c) (Cx.divRT (f (c + ⟨delta, 0⟩) - f (c - ⟨delta, 0⟩)) ((1 + 1) * delta))

/-- the complex Newton update `c ↦ c − f c / f'_δ(c)` -/
def cxStep (f : Cx K → Cx K) (delta : K) (c : Cx K) : Cx K := c - cxDx f delta c

/-- the iterate sequence of the complex method -/
def cxIter (f : Cx K → Cx K) (delta : K) (x0 : Cx K) (k : Nat) : Cx K :=
  NewtonGen.iter (cxStep f delta) x0 k

/-- the stopping test of the step that starts at `c`: `dx.abs() <= tol` -/
def cxTest (f : Cx K → Cx K) (tol delta : K) (c : Cx K) : Bool :=
  Transc.le (Cx.abs (cxDx f delta c)) tol

/-- the three evaluation points of the iteration that starts at `c` -/
def cxPts (delta : K) (c : Cx K) : List (Cx K) := [c + ⟨delta, 0⟩, c - ⟨delta, 0⟩, c]

@[simp] theorem cxIter_zero (f : Cx K → Cx K) (delta : K) (x0 : Cx K) : cxIter f delta x0 0 = x0 := rfl
theorem cxIter_succ (f : Cx K → Cx K) (delta : K) (x0 : Cx K) (k : Nat) :
    cxIter f delta x0 (k + 1) = cxStep f delta (cxIter f delta x0 k) := rfl

/-- the model's complex loop is the generic early-exit loop with the complex Newton update -/
theorem solveCx_eq_loop (f : Cx K → Cx K) (tol delta : K) :
    ∀ (n : Nat) (cur : Cx K) (tr : List (Cx K)),
      solveCx f tol delta n cur tr
        = NewtonGen.loop (cxStep f delta) (cxTest f tol delta) (cxPts delta) n cur tr
  | 0, cur, tr => rfl
  | n + 1, cur, tr => by
    rw [solveCx, NewtonGen.loop]
    simp only [cxTest, cxDx, cxStep, cxPts]
    rw [solveCx_eq_loop f tol delta n]
    rfl

/-- `cxStep` is the model's own step function -/
theorem cxStep_is_model (f : Cx K → Cx K) (tol delta : K) (cur : Cx K) (tr : List (Cx K)) :
    (solveCx f tol delta 1 cur tr).1.x = cxStep f delta cur := by
  rw [solveCx_eq_loop, NewtonGen.loop_one]

theorem cx_budget_zero (f : Cx K → Cx K) (tol delta : K) (guess : Cx K) :
    solveCx f tol delta 0 guess [] = (⟨false, guess⟩, []) := rfl

/-- **success characterisation (complex method), weak form** — the analogue of
    `scalar_success_char`: success is reported only with `x = c − f c / f'_δ(c)` for a point `c`
    whose step met the stopping test `dx.abs() <= tol`. -/
theorem cx_success_char (f : Cx K → Cx K) (tol delta : K) (n : Nat) (cur : Cx K) (tr : List (Cx K))
    (hok : (solveCx f tol delta n cur tr).1.ok = true) :
    ∃ c : Cx K,
      (solveCx f tol delta n cur tr).1.x
        = c - Cx.divT (f c) (Cx.divRT (f (c + ⟨delta, 0⟩) - f (c - ⟨delta, 0⟩)) ((1 + 1) * delta)) ∧
      Transc.le (Cx.abs (Cx.divT (f c)
        (Cx.divRT (f (c + ⟨delta, 0⟩) - f (c - ⟨delta, 0⟩)) ((1 + 1) * delta)))) tol = true := by
  rw [solveCx_eq_loop] at hok ⊢
  obtain ⟨k, hk, e1, e2, e3, e4⟩ :=
    (NewtonGen.loop_char (cxStep f delta) (cxTest f tol delta) (cxPts delta) n cur tr).1 hok
  exact ⟨NewtonGen.iter (cxStep f delta) cur k, e1, e2⟩

/-- **strong success characterisation (complex method), class (S)**: `Ok(x)` ⇒ for some
    `k < maxIter`, with `c = x_k` THE `k`-th iterate of this run, `x = x_{k+1} = c − f c / f'_δ(c)`,
    the step from `c` passed `dx.abs() <= tol`, no earlier step did, and `f` was evaluated exactly
    at `x_j + δ, x_j − δ, x_j`, `j = 0 … k`, in this order. -/
theorem cx_success_char_strong (f : Cx K → Cx K) (tol delta : K) (n : Nat) (x0 : Cx K)
    (tr : List (Cx K)) (hok : (solveCx f tol delta n x0 tr).1.ok = true) :
    ∃ k, k < n ∧
      (solveCx f tol delta n x0 tr).1.x = cxIter f delta x0 (k + 1) ∧
      (let c := cxIter f delta x0 k
       (solveCx f tol delta n x0 tr).1.x
          = c - Cx.divT (f c) (Cx.divRT (f (c + ⟨delta, 0⟩) - f (c - ⟨delta, 0⟩)) ((1 + 1) * delta)) ∧
       Transc.le (Cx.abs (Cx.divT (f c)
          (Cx.divRT (f (c + ⟨delta, 0⟩) - f (c - ⟨delta, 0⟩)) ((1 + 1) * delta)))) tol = true) ∧
      (∀ j, j < k → Transc.le (Cx.abs (cxDx f delta (cxIter f delta x0 j))) tol = false) ∧
      (solveCx f tol delta n x0 tr).2
        = tr ++ (List.range (k + 1)).flatMap (fun j => cxPts delta (cxIter f delta x0 j)) := by
  rw [solveCx_eq_loop] at hok ⊢
  obtain ⟨k, hk, e1, e2, e3, e4⟩ :=
    (NewtonGen.loop_char (cxStep f delta) (cxTest f tol delta) (cxPts delta) n x0 tr).1 hok
  exact ⟨k, hk, e1, ⟨e1, e2⟩, e3, e4⟩

/-- **failure carries the last iterate (complex method), class (S)**: `Err(x)` ⇒ `x = x_maxIter`
    (the result of exactly `maxIter` Newton updates from the guess), none of the steps passed the
    test, `3 · maxIter` evaluations at `x_j + δ, x_j − δ, x_j`. -/
theorem cx_failure_carries_last (f : Cx K → Cx K) (tol delta : K) (n : Nat) (x0 : Cx K)
    (tr : List (Cx K)) (hok : (solveCx f tol delta n x0 tr).1.ok = false) :
    (solveCx f tol delta n x0 tr).1.x = cxIter f delta x0 n ∧
    (∀ j, j < n → Transc.le (Cx.abs (cxDx f delta (cxIter f delta x0 j))) tol = false) ∧
    (solveCx f tol delta n x0 tr).2
      = tr ++ (List.range n).flatMap (fun j => cxPts delta (cxIter f delta x0 j)) := by
  rw [solveCx_eq_loop] at hok ⊢
  exact (NewtonGen.loop_char (cxStep f delta) (cxTest f tol delta) (cxPts delta) n x0 tr).2 hok

/-- **iteration and evaluation bound with the evaluation points (complex method)**: `k ≤ maxIter`
    iterations (`k = maxIter` on failure, `k ≥ 1` on success), exactly three evaluations of `f` per
    iteration — at `x_j + δ`, `x_j − δ`, `x_j` — and the value carried is `x_k`.
    (`cx_bounded` in C17.lean is the count alone.) -/
theorem cx_bounded_exact (f : Cx K → Cx K) (tol delta : K) (n : Nat) (x0 : Cx K) (tr : List (Cx K)) :
    ∃ k, k ≤ n ∧
      (solveCx f tol delta n x0 tr).2
        = tr ++ (List.range k).flatMap (fun j => cxPts delta (cxIter f delta x0 j)) ∧
      (solveCx f tol delta n x0 tr).2.length = tr.length + 3 * k ∧
      (solveCx f tol delta n x0 tr).1.x = cxIter f delta x0 k ∧
      ((solveCx f tol delta n x0 tr).1.ok = false → k = n) ∧
      ((solveCx f tol delta n x0 tr).1.ok = true → 1 ≤ k) := by
  have hlen := length_flatMap_three (fun j => cxPts delta (cxIter f delta x0 j)) (fun _ => rfl)
  cases hok : (solveCx f tol delta n x0 tr).1.ok with
  | true =>
    obtain ⟨k, hk, e1, _, _, e4⟩ := cx_success_char_strong f tol delta n x0 tr hok
    exact ⟨k + 1, hk, e4, by rw [e4, List.length_append, hlen], e1, fun h => by simp at h,
      fun _ => by omega⟩
  | false =>
    obtain ⟨e1, _, e4⟩ := cx_failure_carries_last f tol delta n x0 tr hok
    exact ⟨n, Nat.le_refl _, e4, by rw [e4, List.length_append, hlen], e1, fun _ => rfl,
      fun h => by simp at h⟩

end Scalar

/-! ### B. the panic branch of the system iteration -/
section SysPanic
variable {E : Type} [Add E] [Sub E] [Mul E] [Neg E] [Zero E] [One E] [BEq E] [ScalarExt E]

/-- the iteration that starts at `x` panics with error class `e`; the four fallible operations of
    one iteration, in program order: the inf-norm of the residual `f x` (`None.unwrap()` on the
    empty vector), the Jacobian call, the dense linear solve `solve_basic`, the update `x -= dx`
    (size check of `Vector -= Vector`).  The stopping test comes after all four. -/
def StepErr {R : Type} (f : Array E → Array E) (jacF : Array E → Res (Mat E × List (Array E)))
    (normInf : Array E → Res R) (x : Array E) (e : Err) : Prop :=
  normInf (f x) = .error e ∨
  (∃ r, normInf (f x) = .ok r ∧ jacF x = .error e) ∨
  (∃ r J jtr, normInf (f x) = .ok r ∧ jacF x = .ok (J, jtr) ∧
    Mat.solveBasic J (f x) = .error e) ∨
  (∃ r J jtr dx, normInf (f x) = .ok r ∧ jacF x = .ok (J, jtr) ∧
    Mat.solveBasic J (f x) = .ok dx ∧ Vec.sub x dx = .error e)

/-- the iteration that starts at `x` panics -/
def StepFails {R : Type} (f : Array E → Array E) (jacF : Array E → Res (Mat E × List (Array E)))
    (normInf : Array E → Res R) (x : Array E) : Prop := ∃ e, StepErr f jacF normInf x e

/-- a panicking iteration makes every run that starts there (with a positive budget) panic -/
theorem sys_step_error {R : Type} (f : Array E → Array E)
    (jacF : Array E → Res (Mat E × List (Array E))) (normInf : Array E → Res R) (leTol : R → Bool)
    (n : Nat) (x : Array E) (tr : List (Array E)) {e : Err} (h : StepErr f jacF normInf x e) :
    solveSys f jacF normInf leTol (n + 1) x tr = .error e := by
  rw [solveSys]
  rcases h with h | ⟨r, h1, h2⟩ | ⟨r, J, jtr, h1, h2, h3⟩ | ⟨r, J, jtr, dx, h1, h2, h3, h4⟩
  · simp only [h, bind, Except.bind]
  · simp only [h1, h2, bind, Except.bind]
  · simp only [h1, h2, h3, bind, Except.bind]
  · simp only [h1, h2, h3, h4, bind, Except.bind]

/-- one iteration either panics or completes a full Newton step -/
theorem sys_step_total {R : Type} (f : Array E → Array E)
    (jacF : Array E → Res (Mat E × List (Array E))) (normInf : Array E → Res R) (leTol : R → Bool)
    (x : Array E) :
    (∃ e, StepErr f jacF normInf x e) ∨
    (∃ r J jtr dx x', normInf (f x) = .ok r ∧ jacF x = .ok (J, jtr) ∧
      Mat.solveBasic J (f x) = .ok dx ∧ Vec.sub x dx = .ok x') := by
  cases h1 : normInf (f x) with
  | error e => exact .inl ⟨e, .inl h1⟩
  | ok r =>
    cases h2 : jacF x with
    | error e => exact .inl ⟨e, .inr (.inl ⟨r, h1, h2⟩)⟩
    | ok p =>
      obtain ⟨J, jtr⟩ := p
      cases h3 : Mat.solveBasic J (f x) with
      | error e => exact .inl ⟨e, .inr (.inr (.inl ⟨r, J, jtr, h1, h2, h3⟩))⟩
      | ok dx =>
        cases h4 : Vec.sub x dx with
        | error e => exact .inl ⟨e, .inr (.inr (.inr ⟨r, J, jtr, dx, h1, h2, h3, h4⟩))⟩
        | ok x' => exact .inr ⟨r, J, jtr, dx, x', rfl, rfl, h3, h4⟩

/-- a chain of `k` full steps that did not meet the tolerance is what a run with budget `k`
    performs: it returns `Err(c)` -/
theorem sys_chain_run {R : Type} (f : Array E → Array E)
    (jacF : Array E → Res (Mat E × List (Array E))) (normInf : Array E → Res R) (leTol : R → Bool) :
    ∀ (k : Nat) (cur c : Array E) (tr : List (Array E)),
      Chain f jacF normInf leTol k cur c →
      ∃ tr', solveSys f jacF normInf leTol k cur tr = .ok (⟨false, c⟩, tr') ∧
        ∀ m, solveSys f jacF normInf leTol (k + m) cur tr = solveSys f jacF normInf leTol m c tr'
  | 0, cur, c, tr, h => by
    cases h
    exact ⟨tr, rfl, fun m => by rw [Nat.zero_add]⟩
  | k + 1, cur, c, tr, h => by
    cases h with
    | step hs hc =>
      rename_i x'
      obtain ⟨r, J, jtr, dx, h1, h2, h3, h4, h5⟩ := hs
      obtain ⟨tr', e1, e2⟩ := sys_chain_run f jacF normInf leTol k x' c (tr ++ [cur] ++ jtr) hc
      refine ⟨tr', ?_, fun m => ?_⟩
      · rw [sys_unfold f jacF normInf leTol k cur tr h1 h3 h4 h5, h2]
        simpa using e1
      · rw [show k + 1 + m = (k + m) + 1 by omega,
          sys_unfold f jacF normInf leTol (k + m) cur tr h1 h3 h4 h5, h2]
        simpa using e2 m

/-- the points of a chain all have the size of the first -/
theorem chain_size {R : Type} {f : Array E → Array E}
    {jacF : Array E → Res (Mat E × List (Array E))} {normInf : Array E → Res R} {leTol : R → Bool}
    {k : Nat} {x y : Array E} (h : Chain f jacF normInf leTol k x y) : y.size = x.size := by
  induction h with
  | refl x => rfl
  | step hs _ ih =>
    obtain ⟨r, J, jtr, dx, _, _, _, _, h5⟩ := hs
    rw [ih, vecSub_size h5]

/-- **the panic branch, class (S)**: the run ends in a panic of class `e` IF AND ONLY IF after
    `k < maxIter` full Newton steps, none of which met the tolerance, the next iteration — at the
    point `c` reached — fails with `e` in one of its four fallible operations (`StepErr`). -/
theorem sys_panics_iff_struct {R : Type} (f : Array E → Array E)
    (jacF : Array E → Res (Mat E × List (Array E))) (normInf : Array E → Res R) (leTol : R → Bool)
    (e : Err) :
    ∀ (n : Nat) (cur : Array E) (tr : List (Array E)),
      solveSys f jacF normInf leTol n cur tr = .error e ↔
        ∃ k c, k < n ∧ Chain f jacF normInf leTol k cur c ∧ StepErr f jacF normInf c e
  | 0, cur, tr => by
    constructor
    · intro h; simp [solveSys] at h
    · rintro ⟨k, c, hk, _⟩; omega
  | n + 1, cur, tr => by
    constructor
    · intro h
      rcases sys_step_total f jacF normInf leTol cur with ⟨e', he'⟩ | ⟨r, J, jtr, dx, x', h1, h2, h3, h4⟩
      · rw [sys_step_error f jacF normInf leTol n cur tr he'] at h
        cases h
        exact ⟨0, cur, Nat.succ_pos n, Chain.refl _, he'⟩
      · rw [sys_unfold f jacF normInf leTol n cur tr h1 h2 h3 h4] at h
        cases hr : leTol r with
        | true => simp [hr] at h
        | false =>
          simp only [hr, Bool.false_eq_true, if_false] at h
          obtain ⟨k, c, hk, hc, hs⟩ :=
            (sys_panics_iff_struct f jacF normInf leTol e n x' _).1 h
          exact ⟨k + 1, c, Nat.succ_lt_succ hk, Chain.step ⟨r, J, jtr, dx, h1, hr, h2, h3, h4⟩ hc, hs⟩
    · rintro ⟨k, c, hk, hc, hs⟩
      obtain ⟨tr', _, e2⟩ := sys_chain_run f jacF normInf leTol k cur c tr hc
      obtain ⟨m, hm⟩ : ∃ m, n + 1 = k + (m + 1) := ⟨n - k, by omega⟩
      rw [hm, e2 (m + 1)]
      exact sys_step_error f jacF normInf leTol m c tr' hs

/-- **evaluations before a panic, class (S)**.  Assume every returning Jacobian call at a point of
    size `d` reports `L` evaluation points.  If the run from a point of size `d` panics (class `e`)
    then for some `k < maxIter`:
    * the first `k` iterations completed — the run with budget `k` returns `Err(c)` — and
      evaluated `f` exactly `k * (1 + L)` times;
    * iteration `k + 1`, at the point `c` (of size `d`), panics with `e` (`StepErr`), and so does
      every run from `c` with a positive budget;
    * the panicking iteration evaluated `f` once more at `c` and, when its Jacobian call returned,
      `L` more times: in both cases the number of evaluations made before the panic is at most
      `maxIter * (1 + L)`, the bound for returning runs (`sys_bounded`).
    The model discards the trace of a panicking call, so the evaluations made INSIDE a Jacobian
    call that itself panics are not part of this statement; for the finite-difference Jacobian
    they are counted in `sys_evals_before_panic_fd` (through `C18.jacobian_panic_evals`). -/
theorem sys_evals_before_panic {R : Type} (f : Array E → Array E)
    (jacF : Array E → Res (Mat E × List (Array E)))
    (normInf : Array E → Res R) (leTol : R → Bool) (d L : Nat)
    (hL : ∀ x J jtr, x.size = d → jacF x = .ok (J, jtr) → jtr.length = L)
    (n : Nat) (cur : Array E) (tr : List (Array E)) (e : Err) (hd : cur.size = d)
    (h : solveSys f jacF normInf leTol n cur tr = .error e) :
    ∃ k c tr', k < n ∧ c.size = d ∧
      solveSys f jacF normInf leTol k cur tr = .ok (⟨false, c⟩, tr') ∧
      tr'.length = tr.length + k * (1 + L) ∧
      StepErr f jacF normInf c e ∧
      (∀ m t, solveSys f jacF normInf leTol (m + 1) c t = .error e) ∧
      (tr' ++ [c]).length ≤ tr.length + n * (1 + L) ∧
      (∀ J jtr, jacF c = .ok (J, jtr) → (tr' ++ [c] ++ jtr).length ≤ tr.length + n * (1 + L)) := by
  obtain ⟨k, c, hk, hc, hs⟩ := (sys_panics_iff_struct f jacF normInf leTol e n cur tr).1 h
  obtain ⟨tr', e1, _⟩ := sys_chain_run f jacF normInf leTol k cur c tr hc
  obtain ⟨k', hk', hlen, hf⟩ := sys_bounded f jacF normInf leTol d L hL k cur tr _ tr' hd e1
  have hkk : k' = k := hf rfl
  subst hkk
  have hcd : c.size = d := by rw [chain_size hc]; exact hd
  have hmul : (k' + 1) * (1 + L) ≤ n * (1 + L) := Nat.mul_le_mul_right _ hk
  have hexp : (k' + 1) * (1 + L) = k' * (1 + L) + 1 + L := by
    rw [Nat.add_mul]; omega
  refine ⟨k', c, tr', hk, hcd, e1, hlen, hs, fun m t => sys_step_error f jacF normInf leTol m c t hs,
    ?_, ?_⟩
  · simp only [List.length_append, List.length_cons, List.length_nil]
    omega
  · intro J jtr hj
    have := hL c J jtr hcd hj
    simp only [List.length_append, List.length_cons, List.length_nil]
    omega

/-- **evaluations before a panic, finite-difference method, class (S)** — no hypothesis on `f`,
    the element type or `delta`.  If the run panics (class `e`) then for some `k < maxIter`:
    the first `k` iterations completed (the run with budget `k` returns `Err(c)`) with exactly
    `k * (d + 2)` evaluations of `f` (`d` the length of the guess), and iteration `k + 1` at `c`
    panics after `m ≤ d + 2` further calls of `f`:
    * `m = 1` — the residual `f c` is computed and its inf-norm panics (empty vector); or
    * `m = j + 3` — the Jacobian call panics in column `j < d`: `f c`, the base value and the
      columns `0 … j-1` (`C18.jacobian_panic_evals`), and the perturbed value of column `j`; or
    * `m = d + 2` — the Jacobian call returns (`d + 1` calls) and the linear solve or the update
      panics.
    In every case the number of calls of `f` before the panic, `k * (d + 2) + m`, is at most
    `maxIter * (d + 2)`, the bound of the returning runs (`sys_bounded_fd`). -/
theorem sys_evals_before_panic_fd {R : Type} (f : Array E → Array E) (delta : E)
    (normInf : Array E → Res R) (leTol : R → Bool)
    (n : Nat) (cur : Array E) (tr : List (Array E)) (e : Err)
    (h : solveSys f (fun x => jacobian f x delta) normInf leTol n cur tr = .error e) :
    ∃ k c tr' m, k < n ∧ c.size = cur.size ∧
      solveSys f (fun x => jacobian f x delta) normInf leTol k cur tr = .ok (⟨false, c⟩, tr') ∧
      tr'.length = tr.length + k * (cur.size + 2) ∧
      ((normInf (f c) = .error e ∧ m = 1) ∨
       (∃ j jac, j < c.size ∧
          Mat.forM' 0 j (C18.jacInit f c) (C18.jacBody f c delta)
            = .ok (jac, C18.stateAt c delta j, c :: (List.range j).map (C18.evalPt c delta)) ∧
          C18.jacBody f c delta
            (jac, C18.stateAt c delta j, c :: (List.range j).map (C18.evalPt c delta)) j = .error e ∧
          m = j + 3) ∨
       (∃ J jtr, jacobian f c delta = .ok (J, jtr) ∧ jtr.length = c.size + 1 ∧ m = c.size + 2)) ∧
      k * (cur.size + 2) + m ≤ n * (cur.size + 2) := by
  obtain ⟨k, c, tr', hk, hc, hrun, hlen, hs, _⟩ :=
    sys_evals_before_panic f (fun x => jacobian f x delta) normInf leTol cur.size (cur.size + 1)
      (fun x J jtr hx hj => by rw [jacobian_trace_length f x delta J jtr hj, hx]) n cur tr e rfl h
  have e2 : 1 + (cur.size + 1) = cur.size + 2 := by omega
  rw [e2] at hlen
  have hmul : (k + 1) * (cur.size + 2) ≤ n * (cur.size + 2) := Nat.mul_le_mul_right _ hk
  have hexp : (k + 1) * (cur.size + 2) = k * (cur.size + 2) + (cur.size + 2) := by
    rw [Nat.add_mul]; omega
  rcases hs with h1 | ⟨r, h1, h2⟩ | ⟨r, J, jtr, h1, h2, h3⟩ | ⟨r, J, jtr, dx, h1, h2, h3, h4⟩
  · exact ⟨k, c, tr', 1, hk, hc, hrun, hlen, .inl ⟨h1, rfl⟩, by omega⟩
  · obtain ⟨j, jac, hj, hpre, hbody, _⟩ := C18.jacobian_panic_evals f c delta e h2
    exact ⟨k, c, tr', j + 3, hk, hc, hrun, hlen, .inr (.inl ⟨j, jac, hj, hpre, hbody, rfl⟩), by omega⟩
  · exact ⟨k, c, tr', c.size + 2, hk, hc, hrun, hlen,
      .inr (.inr ⟨J, jtr, h2, jacobian_trace_length f c delta J jtr h2, rfl⟩), by omega⟩
  · exact ⟨k, c, tr', c.size + 2, hk, hc, hrun, hlen,
      .inr (.inr ⟨J, jtr, h2, jacobian_trace_length f c delta J jtr h2, rfl⟩), by omega⟩

/-- a successful `set_col` keeps well-formedness and shape -/
theorem setCol_ok_shape {m m' : Mat E} {col : Nat} {v : Array E} (hw : m.WF)
    (h : Mat.setCol m col v = .ok m') : m'.WF ∧ m'.rows = m.rows ∧ m'.cols = m.cols := by
  have hv : v.size = m.rows := by
    by_contra hne
    obtain ⟨e, he⟩ := setCol_rejects m col v (.inl hne)
    rw [he] at h; cases h
  have hc : col < m.cols := by
    by_contra hne
    obtain ⟨e, he⟩ := setCol_rejects m col v (.inr (by omega))
    rw [he] at h; cases h
  have hI : Mat.Is m m.rows m.cols (fun i j => (m.data[i * m.cols + j]?).getD 0) := by
    refine ⟨hw, rfl, rfl, ?_⟩
    intro i j hi hj
    have hlt : i * m.cols + j < m.data.size := by rw [hw]; exact idx_lt hi hj
    simp [Mat.get, aget, hlt]
  obtain ⟨m'', h1, h2⟩ := setCol_spec hI v hv hc
  rw [h1] at h
  cases h
  exact ⟨h2.wf, h2.rows, h2.cols⟩

/-- **a returning finite-difference Jacobian is well-formed of shape `|f point| × |point|`**,
    whatever the map `f` (no constancy of the output size is assumed: it is enforced by the
    call), the element type and `delta` -/
theorem jacobian_ok_wf (f : Array E → Array E) (point : Array E) (delta : E)
    (J : Mat E) (tr : List (Array E)) (h : jacobian f point delta = .ok (J, tr)) :
    J.WF ∧ J.rows = (f point).size ∧ J.cols = point.size := by
  unfold jacobian at h
  simp only [bind, Except.bind, pure, Except.pure] at h
  split at h
  · cases h
  · rename_i r hr
    obtain ⟨jac, state, tr0⟩ := r
    simp only at h
    cases h
    have := forM'_inv_of_ok
      (fun k (s : Mat E × Array E × List (Array E)) =>
        s.1.WF ∧ s.1.rows = (f point).size ∧ s.1.cols = point.size)
      _ (point.size - 0) 0 _ _ ⟨new_wf _ _ _, rfl, rfl⟩ (by
        rintro i ⟨jac, state, tr⟩ ⟨jac', state', tr'⟩ _ _ ⟨hw, hr, hc⟩ hs
        simp only at hw hr hc
        simp only [bind, Except.bind, pure, Except.pure] at hs
        repeat (split at hs; · cases hs)
        cases hs
        have hset : ∃ c v, jac.setCol c v = .ok jac' := ⟨_, _, by assumption⟩
        obtain ⟨_, _, hset⟩ := hset
        obtain ⟨a, b, c⟩ := setCol_ok_shape hw hset
        exact ⟨a, by rw [b, hr], by rw [c, hc]⟩) hr
    simpa using this

end SysPanic

/-! ### B′. the panic branch over a linearly ordered field -/
section SysPanicE
variable {K : Type} [Field K] [LinearOrder K] [Transc K]
attribute [local instance] Ohsl.Alg.scalarExt

/-- determinant of the square matrix of order `J.rows` read off the buffer of `J` (the
    determinant of `J` when `J` is well-formed and square) -/
noncomputable def detOf (J : Mat K) : K :=
  Matrix.det (Matrix.of fun (i j : Fin J.rows) => Mat.ent J i.val j.val)

/-- **when an iteration panics, in terms of the data**: the residual `f x` is the empty vector
    (`norm_inf` unwraps `None`), or the Jacobian call panics, or the Jacobian it returns is not a
    square matrix of the order of the residual (size checks of `solve_basic`), or it is singular
    (`det = 0`: `solve_basic` divides by an exact zero), or the point and the step have different
    lengths (size check of `current -= dx`). -/
def StepPanics (f : Array K → Array K) (jacF : Array K → Res (Mat K × List (Array K)))
    (x : Array K) : Prop :=
  (f x).size = 0 ∨ (∃ e, jacF x = .error e) ∨
  ∃ J jtr, jacF x = .ok (J, jtr) ∧
    (J.rows ≠ (f x).size ∨ J.rows ≠ J.cols ∨ detOf J = 0 ∨ x.size ≠ J.rows)

/-- `norm_inf` panics exactly on the empty vector -/
theorem normInf_error_iff (v : Array K) : (∃ e, Vec.normInf v = .error e) ↔ v.size = 0 := by
  unfold Vec.normInf Vec.normInfBy
  constructor
  · rintro ⟨e, h⟩
    by_contra hne
    have : v[0]? = some v[0] := by simp [show 0 < v.size by omega]
    rw [this] at h
    cases h
  · intro h
    have : v[0]? = none := by simp [h]
    rw [this]
    exact ⟨_, rfl⟩

/-- a returning `solve_basic` passed its two size checks -/
theorem solveBasic_ok_sizes {J : Mat K} {b dx : Array K} (h : Mat.solveBasic J b = .ok dx) :
    J.rows = b.size ∧ J.rows = J.cols := by
  unfold Mat.solveBasic at h
  split at h
  · cases h
  · split at h
    · cases h
    · rename_i h1 h2
      exact ⟨not_not.mp h1, not_not.mp h2⟩

variable [IsStrictOrderedRing K]

/-- **`StepFails` = `StepPanics`** for the model's `Vec.normInf`, over a linearly ordered field,
    for Jacobian calls that return well-formed matrices (every `Matrix` built by the crate is; for
    the finite-difference Jacobian this is `jacobian_ok_wf`).  The singular case is
    `C01.solveBasic_ok_iff`. -/
theorem stepFails_iff (f : Array K → Array K) (jacF : Array K → Res (Mat K × List (Array K)))
    (x : Array K) (hWF : ∀ J jtr, jacF x = .ok (J, jtr) → J.WF) :
    StepFails f jacF Vec.normInf x ↔ StepPanics f jacF x := by
  constructor
  · rintro ⟨e, h | ⟨r, h1, h2⟩ | ⟨r, J, jtr, h1, h2, h3⟩ | ⟨r, J, jtr, dx, h1, h2, h3, h4⟩⟩
    · exact .inl ((normInf_error_iff _).1 ⟨e, h⟩)
    · exact .inr (.inl ⟨e, h2⟩)
    · refine .inr (.inr ⟨J, jtr, h2, ?_⟩)
      by_cases a : J.rows ≠ (f x).size
      · exact .inl a
      by_cases b : J.rows ≠ J.cols
      · exact .inr (.inl b)
      refine .inr (.inr (.inl ?_))
      by_contra hdet
      have a' : (f x).size = J.rows := (not_not.mp a).symm
      have hpos : 1 ≤ J.rows := by
        rw [← a']
        by_contra h0
        obtain ⟨e', he'⟩ := (normInf_error_iff (f x)).2 (by omega)
        rw [he'] at h1; cases h1
      have hJ : Mat.WFn J J.rows := ⟨hWF J jtr h2, rfl, (not_not.mp b).symm⟩
      obtain ⟨dx, hdx⟩ := C01.solveBasic_complete hpos hJ.is a' hdet
      rw [hdx] at h3; cases h3
    · refine .inr (.inr ⟨J, jtr, h2, .inr (.inr (.inr ?_))⟩)
      obtain ⟨a, b⟩ := solveBasic_ok_sizes h3
      have hpos : 1 ≤ J.rows := by
        rw [a]
        by_contra h0
        obtain ⟨e', he'⟩ := (normInf_error_iff (f x)).2 (by omega)
        rw [he'] at h1; cases h1
      have hJ : Mat.WFn J J.rows := ⟨hWF J jtr h2, rfl, b.symm⟩
      obtain ⟨hs, _⟩ := C01.solveBasic_sound hpos hJ.is a.symm h3
      unfold Vec.sub at h4
      split at h4
      · rename_i hne
        rw [hs] at hne
        exact hne
      · cases h4
  · intro hp
    rcases sys_step_total f jacF Vec.normInf (fun _ => true) x with h | ⟨r, J, jtr, dx, x', h1, h2, h3, h4⟩
    · exact h
    · exfalso
      obtain ⟨a, b⟩ := solveBasic_ok_sizes h3
      have hpos : 1 ≤ J.rows := by
        rw [a]
        by_contra h0
        obtain ⟨e', he'⟩ := (normInf_error_iff (f x)).2 (by omega)
        rw [he'] at h1; cases h1
      have hJ : Mat.WFn J J.rows := ⟨hWF J jtr h2, rfl, b.symm⟩
      obtain ⟨hs, _⟩ := C01.solveBasic_sound hpos hJ.is a.symm h3
      rcases hp with h0 | ⟨e, he⟩ | ⟨J', jtr', hj, hc⟩
      · omega
      · rw [he] at h2; cases h2
      · rw [hj] at h2
        cases h2
        rcases hc with c | c | c | c
        · exact c a
        · exact c b
        · exact C01.solveBasic_nonsingular hpos hJ.is a.symm h3 c
        · have : x.size = dx.size := by
            unfold Vec.sub at h4
            split at h4
            · cases h4
            · rename_i hne; exact not_not.mp hne
          rw [hs] at this
          exact c this

/-- **`sys_panics_iff`, class (E)**: over a linearly ordered field, with the model's inf-norm and
    any tolerance test, for Jacobian calls that return well-formed matrices: the run PANICS if and
    only if, after `k < maxIter` full Newton steps none of which met the tolerance, at the point
    `c` reached: the residual `f c` is empty, or the Jacobian call panics, or the Jacobian is not
    square of the order of the residual, or the Jacobian is SINGULAR (`det = 0`), or `c` and the
    step have different lengths (`StepPanics`).  In every other case the run returns
    (`sys_success_char`, `sys_failure_carries_last` describe what). -/
theorem sys_panics_iff (f : Array K → Array K) (jacF : Array K → Res (Mat K × List (Array K)))
    (hWF : ∀ x J jtr, jacF x = .ok (J, jtr) → J.WF) (leTol : K → Bool)
    (n : Nat) (guess : Array K) (tr : List (Array K)) :
    (∃ e, solveSys f jacF Vec.normInf leTol n guess tr = .error e) ↔
      ∃ k c, k < n ∧ Chain f jacF Vec.normInf leTol k guess c ∧ StepPanics f jacF c := by
  constructor
  · rintro ⟨e, h⟩
    obtain ⟨k, c, hk, hc, hs⟩ := (sys_panics_iff_struct f jacF Vec.normInf leTol e n guess tr).1 h
    exact ⟨k, c, hk, hc, (stepFails_iff f jacF c (hWF c)).1 ⟨e, hs⟩⟩
  · rintro ⟨k, c, hk, hc, hs⟩
    obtain ⟨e, he⟩ := (stepFails_iff f jacF c (hWF c)).2 hs
    exact ⟨e, (sys_panics_iff_struct f jacF Vec.normInf leTol e n guess tr).2 ⟨k, c, hk, hc, he⟩⟩

/-- when an iteration of the FINITE-DIFFERENCE system method panics: the residual is empty, or
    it has a different length than the point (the Jacobian is `|f x| × |x|`: not square, or the
    update has the wrong length), or the Jacobian call panics (`f` changes its output size at a
    perturbed point, or `delta = 0`: see `C18.jacobian_rejects_size_change_at`,
    `C18.jacobian_delta_zero_rejects`), or the Jacobian is singular -/
def StepPanicsFD (f : Array K → Array K) (delta : K) (x : Array K) : Prop :=
  (f x).size = 0 ∨ (f x).size ≠ x.size ∨ (∃ e, jacobian f x delta = .error e) ∨
  ∃ J jtr, jacobian f x delta = .ok (J, jtr) ∧ detOf J = 0

theorem stepPanics_fd_iff (f : Array K → Array K) (delta : K) (x : Array K) :
    StepPanics f (fun x => jacobian f x delta) x ↔ StepPanicsFD f delta x := by
  constructor
  · rintro (h | ⟨e, h⟩ | ⟨J, jtr, hj, hc⟩)
    · exact .inl h
    · exact .inr (.inr (.inl ⟨e, h⟩))
    · obtain ⟨_, hr, hcol⟩ := jacobian_ok_wf f x delta J jtr hj
      rcases hc with c | c | c | c
      · exact absurd hr c
      · exact .inr (.inl (by rw [← hr, ← hcol]; exact c))
      · exact .inr (.inr (.inr ⟨J, jtr, hj, c⟩))
      · exact .inr (.inl (by rw [← hr]; exact fun h => c h.symm))
  · rintro (h | h | ⟨e, h⟩ | ⟨J, jtr, hj, hc⟩)
    · exact .inl h
    · cases hj : jacobian f x delta with
      | error e => exact .inr (.inl ⟨e, hj⟩)
      | ok p =>
        obtain ⟨J, jtr⟩ := p
        obtain ⟨_, hr, hcol⟩ := jacobian_ok_wf f x delta J jtr hj
        exact .inr (.inr ⟨J, jtr, hj, .inr (.inl (by rw [hr, hcol]; exact h))⟩)
    · exact .inr (.inl ⟨e, h⟩)
    · exact .inr (.inr ⟨J, jtr, hj, .inr (.inr (.inl hc))⟩)

/-- **`sys_panics_iff` for the finite-difference method** (`Newton<Vec64>::solve`): no
    hypothesis on `f` at all -/
theorem sys_panics_iff_fd (f : Array K → Array K) (delta : K) (leTol : K → Bool)
    (n : Nat) (guess : Array K) (tr : List (Array K)) :
    (∃ e, solveSys f (fun x => jacobian f x delta) Vec.normInf leTol n guess tr = .error e) ↔
      ∃ k c, k < n ∧ Chain f (fun x => jacobian f x delta) Vec.normInf leTol k guess c ∧
        StepPanicsFD f delta c := by
  rw [sys_panics_iff f (fun x => jacobian f x delta)
    (fun x J jtr h => (jacobian_ok_wf f x delta J jtr h).1) leTol n guess tr]
  constructor
  · rintro ⟨k, c, hk, hc, hs⟩
    exact ⟨k, c, hk, hc, (stepPanics_fd_iff f delta c).1 hs⟩
  · rintro ⟨k, c, hk, hc, hs⟩
    exact ⟨k, c, hk, hc, (stepPanics_fd_iff f delta c).2 hs⟩

/-- **an empty guess makes the finite-difference method panic** (any `f`, any positive budget):
    the residual is empty, or it is not and then the `|f x| × 0` Jacobian is not square -/
theorem sys_fd_empty_guess_panics (f : Array K → Array K) (delta : K) (leTol : K → Bool)
    (n : Nat) (guess : Array K) (tr : List (Array K)) (hg : guess.size = 0) :
    ∃ e, solveSys f (fun x => jacobian f x delta) Vec.normInf leTol (n + 1) guess tr = .error e := by
  rw [sys_panics_iff_fd]
  refine ⟨0, guess, Nat.succ_pos n, Chain.refl _, ?_⟩
  by_cases h : (f guess).size = 0
  · exact .inl h
  · exact .inr (.inl (by rw [hg]; exact h))

end SysPanicE

/-! ### C. an exact root with a singular Jacobian -/
section FixedPointSingular
variable {K : Type} [Field K] [LinearOrder K]
attribute [local instance] Ohsl.Alg.scalarExt

/-- **the guess is an exact root but the Jacobian there is singular: the run PANICS** (generic
    norm / tolerance test).  For ANY `f`: if `f x0` is the zero vector of length `n ≥ 1`, the
    Jacobian call at `x0` returns a well-formed `n × n` matrix `J` and `det J = 0`, then
    `solve_basic J (f x0)` fails although the system `J dx = 0` is consistent, hence the first
    iteration panics and so does every run with `maxIter ≥ 1` — the code does not notice that the
    residual of the guess is already zero, because the stopping test comes after the linear
    solve.  Only `maxIter = 0` returns (`Err(x0)`).  This is the complement of
    `newton_sys_fixed_point_gen`, whose hypothesis `hsolve` fails here.  (`x0.size` plays no role:
    the panic precedes the update.) -/
theorem newton_sys_fixed_point_singular_gen {R : Type} (f : Array K → Array K)
    (jacF : Array K → Res (Mat K × List (Array K)))
    (normInf : Array K → Res R) (leTol : R → Bool) (n : Nat) (hn : 1 ≤ n)
    (x0 : Array K) (hroot : f x0 = Array.replicate n 0)
    {J : Mat K} {jtr : List (Array K)} (hjac : jacF x0 = .ok (J, jtr)) (hJ : Mat.WFn J n)
    (hdet : Matrix.det (Matrix.of fun (i j : Fin n) => Mat.ent J i.val j.val) = 0)
    (tr : List (Array K)) :
    (∃ e, Mat.solveBasic J (f x0) = .error e) ∧
    StepFails f jacF normInf x0 ∧
    (∀ maxIter, 1 ≤ maxIter → ∃ e, solveSys f jacF normInf leTol maxIter x0 tr = .error e) ∧
    solveSys f jacF normInf leTol 0 x0 tr = .ok (⟨false, x0⟩, tr) := by
  have hb : (f x0).size = n := by rw [hroot]; simp
  have hsb : ∃ e, Mat.solveBasic J (f x0) = .error e := by
    cases h : Mat.solveBasic J (f x0) with
    | error e => exact ⟨e, rfl⟩
    | ok dx => exact absurd hdet (C01.solveBasic_nonsingular hn hJ.is hb h)
  obtain ⟨e, he⟩ := hsb
  have hfail : StepFails f jacF normInf x0 := by
    cases h1 : normInf (f x0) with
    | error e' => exact ⟨e', .inl h1⟩
    | ok r => exact ⟨e, .inr (.inr (.inl ⟨r, J, jtr, h1, hjac, he⟩))⟩
  refine ⟨⟨e, he⟩, hfail, ?_, rfl⟩
  intro maxIter hm
  obtain ⟨k, rfl⟩ : ∃ k, maxIter = k + 1 := ⟨maxIter - 1, by omega⟩
  obtain ⟨e', he'⟩ := hfail
  exact ⟨e', sys_step_error f jacF normInf leTol k x0 tr he'⟩

/-- **… with the model's norm and tolerance test**: the residual norm of the guess is computed
    (`0`), the Jacobian is computed, and the panic is the one of `solve_basic` on the singular
    matrix (same error class), for every `maxIter ≥ 1`, every `tol`. -/
theorem newton_sys_fixed_point_singular [Transc K]
    (f : Array K → Array K) (jacF : Array K → Res (Mat K × List (Array K)))
    (tol : K) (n : Nat) (hn : 1 ≤ n)
    (x0 : Array K) (hroot : f x0 = Array.replicate n 0)
    {J : Mat K} {jtr : List (Array K)} (hjac : jacF x0 = .ok (J, jtr)) (hJ : Mat.WFn J n)
    (hdet : Matrix.det (Matrix.of fun (i j : Fin n) => Mat.ent J i.val j.val) = 0) :
    ∃ e, Mat.solveBasic J (f x0) = .error e ∧
      ∀ maxIter, 1 ≤ maxIter →
        solveSys f jacF Vec.normInf (fun r => Transc.le r tol) maxIter x0 [] = .error e := by
  obtain ⟨⟨e, he⟩, _⟩ := newton_sys_fixed_point_singular_gen f jacF Vec.normInf
    (fun r => Transc.le r tol) n hn x0 hroot hjac hJ hdet []
  refine ⟨e, he, ?_⟩
  intro maxIter hm
  obtain ⟨k, rfl⟩ : ∃ k, maxIter = k + 1 := ⟨maxIter - 1, by omega⟩
  obtain ⟨r, hr⟩ := normInf_total (v := f x0) (by rw [hroot]; simpa using hn)
  exact sys_step_error f jacF Vec.normInf _ k x0 [] (.inr (.inr (.inl ⟨r, J, jtr, hr, hjac, he⟩)))

/-- **… with the finite-difference Jacobian**: if the difference quotients at the root happen to
    form a singular matrix the run panics as well -/
theorem newton_sys_fixed_point_singular_fd [Transc K]
    (f : Array K → Array K) (delta tol : K) (n : Nat) (hn : 1 ≤ n)
    (x0 : Array K) (hx : x0.size = n) (hroot : f x0 = Array.replicate n 0)
    {J : Mat K} {jtr : List (Array K)} (hjac : jacobian f x0 delta = .ok (J, jtr))
    (hdet : Matrix.det (Matrix.of fun (i j : Fin n) => Mat.ent J i.val j.val) = 0) :
    ∃ e, Mat.solveBasic J (f x0) = .error e ∧
      ∀ maxIter, 1 ≤ maxIter →
        solveSys f (fun x => jacobian f x delta) Vec.normInf (fun r => Transc.le r tol) maxIter x0 []
          = .error e := by
  obtain ⟨hw, hr, hc⟩ := jacobian_ok_wf f x0 delta J jtr hjac
  have hJ : Mat.WFn J n := ⟨hw, by rw [hr, hroot]; simp, by rw [hc, hx]⟩
  exact newton_sys_fixed_point_singular f (fun x => jacobian f x delta) tol n hn x0 hroot hjac hJ hdet

end FixedPointSingular

/-! ### examples (non-vacuity) -/
section Examples
attribute [local instance] Ohsl.Alg.scalarExt

/-- the complex loop over ℚ[i] (with `sqrt := id`, so `abs z = re² + im²`), `f z = z`, `δ = 1`,
    `tol = 0`, guess `1`: the first step (`dx = 1`) fails the test and lands on `0`, the second
    (`dx = 0`) passes.  Budget 2: `Ok(0)` after 6 evaluations (the hypothesis of
    `cx_success_char(_strong)` holds); budget 1: `Err(0)` after 3 (`cx_failure_carries_last`). -/
example : ∃ (_ : Transc ℚ),
    (solveCx (K := ℚ) (fun z => z) 0 1 2 ⟨1, 0⟩ []).1.ok = true ∧
    (solveCx (K := ℚ) (fun z => z) 0 1 2 ⟨1, 0⟩ []).1.x.re = 0 ∧
    (solveCx (K := ℚ) (fun z => z) 0 1 2 ⟨1, 0⟩ []).2.length = 6 ∧
    (solveCx (K := ℚ) (fun z => z) 0 1 1 ⟨1, 0⟩ []).1.ok = false ∧
    (solveCx (K := ℚ) (fun z => z) 0 1 1 ⟨1, 0⟩ []).1.x.re = 0 ∧
    (solveCx (K := ℚ) (fun z => z) 0 1 1 ⟨1, 0⟩ []).2.length = 3 :=
  ⟨transcQ, by decide +kernel, by decide +kernel, by decide +kernel, by decide +kernel,
    by decide +kernel, by decide +kernel⟩

/-- the same for the real loop: `f x = x`, guess `1`, `tol = 0` -/
example : ∃ (_ : Transc ℚ),
    (solveScalar (K := ℚ) (fun x => x) 0 1 2 1 []).1.ok = true ∧
    (solveScalar (K := ℚ) (fun x => x) 0 1 2 1 []).1.x = 0 ∧
    (solveScalar (K := ℚ) (fun x => x) 0 1 1 1 []).1.ok = false ∧
    (solveScalar (K := ℚ) (fun x => x) 0 1 1 1 []).1.x = 0 :=
  ⟨transcQ, by decide +kernel, by decide +kernel, by decide +kernel, by decide +kernel⟩

/-- **`newton_sys_fixed_point_singular`, concretely**: `F(x, y) = (x², y)` over ℚ with its
    analytic Jacobian `[[2x, 0], [0, 1]]`, started at the exact root `(0, 0)`: `F(0, 0) = (0, 0)`,
    the Jacobian there is `[[0, 0], [0, 1]]`, singular — every run with `maxIter ≥ 1` panics
    although the guess already solves the system. -/
example : ∃ (_ : Transc ℚ) (f : Array ℚ → Array ℚ)
    (jacF : Array ℚ → Res (Mat ℚ × List (Array ℚ))) (e : Err),
    f #[0, 0] = #[0, 0] ∧
    ∀ maxIter, 1 ≤ maxIter →
      solveSys f jacF Vec.normInf (fun r => Transc.le r (1 / 100)) maxIter #[0, 0] [] = .error e := by
  letI : Transc ℚ := transcQ
  have key := newton_sys_fixed_point_singular (K := ℚ)
    (fun x => #[x.getD 0 0 * x.getD 0 0, x.getD 1 0])
    (fun x => .ok (⟨#[2 * x.getD 0 0, 0, 0, 1], 2, 2⟩, [])) (1 / 100) 2 (by decide) #[0, 0]
    (by decide +kernel) (J := ⟨#[2 * 0, 0, 0, 1], 2, 2⟩) (jtr := []) rfl ⟨rfl, rfl, rfl⟩
    (by rw [Matrix.det_fin_two]; simp [Mat.ent])
  obtain ⟨e, _, h⟩ := key
  exact ⟨transcQ, _, _, e, by decide +kernel, h⟩

/-- **… and with the finite-difference Jacobian**: `F(x, y) = (x + y, x + y)` at the root
    `(0, 0)`, `δ = 1`: the difference quotients are exact (`C18.jacobian_affine`), the Jacobian
    `[[1, 1], [1, 1]]` is singular, every run with `maxIter ≥ 1` panics. -/
example : ∃ (_ : Transc ℚ) (e : Err), ∀ maxIter, 1 ≤ maxIter →
    solveSys (affineRes (fun _ _ => (1 : ℚ)) (fun _ => 0) 2)
      (fun x => jacobian (affineRes (fun _ _ => (1 : ℚ)) (fun _ => 0) 2) x 1) Vec.normInf
      (fun r => Transc.le r (1 / 100)) maxIter #[0, 0] [] = .error e := by
  letI : Transc ℚ := transcQ
  have hroot : affineRes (fun _ _ => (1 : ℚ)) (fun _ => 0) 2 #[0, 0] = Array.replicate 2 0 :=
    affineRes_root ⟨rfl, fun i hi => by simp [Finset.sum_range_succ]⟩
  obtain ⟨J, jtr, hj, _, hI⟩ := C18.jacobian_affine (fun _ _ => (1 : ℚ)) (fun i => -(fun _ => (0 : ℚ)) i) 2
    #[0, 0] 1 one_ne_zero
  have hdet : Matrix.det (Matrix.of fun (i j : Fin 2) => Mat.ent J i.val j.val) = 0 := by
    have := C01.det_ent_eq hI
    simp only [Mat.toMat] at this
    rw [this, Matrix.det_fin_two]
    simp
  obtain ⟨e, _, h⟩ := newton_sys_fixed_point_singular_fd (K := ℚ)
    (affineRes (fun _ _ => (1 : ℚ)) (fun _ => 0) 2) 1 (1 / 100) 2 (by decide) #[0, 0] rfl hroot hj hdet
  exact ⟨transcQ, e, h⟩

/-- the right-hand side of `sys_panics_iff` at `k = 0` for the first example: the Jacobian at
    the guess is singular (`StepPanics`, third disjunct) -/
example : StepPanics (K := ℚ) (fun x => #[x.getD 0 0 * x.getD 0 0, x.getD 1 0])
    (fun x => .ok (⟨#[2 * x.getD 0 0, 0, 0, 1], 2, 2⟩, [])) #[0, 0] := by
  refine .inr (.inr ⟨_, _, rfl, .inr (.inr (.inl ?_))⟩)
  show Matrix.det (Matrix.of fun (i j : Fin 2) => Mat.ent (K := ℚ) ⟨#[2 * 0, 0, 0, 1], 2, 2⟩ i.val j.val) = 0
  rw [Matrix.det_fin_two]
  simp [Mat.ent]

end Examples

end Ohsl.Props.C17
