/-
  Property C14 (continued) — inverse functions, square root, powers of the complex model
  (Ohsl/Model/CxFun.lean) in the real interpretation, transported to Mathlib's ℂ by `toC`.
-/
import Ohsl.Props.C14
import Mathlib.Tactic.Ring
import Mathlib.Tactic.FieldSimp
import Mathlib.Tactic.Linarith
import Mathlib.Tactic.LinearCombination
set_option linter.unusedSectionVars false
set_option linter.unusedVariables false
namespace Ohsl.Props.C14
open Ohsl Ohsl.Cx Ohsl.RealI Real

/-! ### 1. ring-operation bridges -/

theorem toC_add (a b : Cx ℝ) : toC (a + b) = toC a + toC b := by
  apply Complex.ext <;> rfl
theorem toC_sub (a b : Cx ℝ) : toC (a - b) = toC a - toC b := by
  apply Complex.ext <;> simp [toC] <;> rfl
theorem toC_mul (a b : Cx ℝ) : toC (a * b) = toC a * toC b := by
  apply Complex.ext <;> simp [toC] <;> rfl
theorem toC_neg (a : Cx ℝ) : toC (-a) = -toC a := by
  apply Complex.ext <;> rfl
theorem toC_I : toC (Cx.I : Cx ℝ) = Complex.I := by
  apply Complex.ext <;> rfl
theorem toC_one : toC (1 : Cx ℝ) = 1 := by
  apply Complex.ext <;> rfl
theorem toC_zero : toC (0 : Cx ℝ) = 0 := by
  apply Complex.ext <;> rfl
theorem toC_addR (a : Cx ℝ) (r : ℝ) : toC (addR a r) = toC a + (r : ℂ) := by
  apply Complex.ext <;> simp [toC, addR]
theorem toC_subR (a : Cx ℝ) (r : ℝ) : toC (subR a r) = toC a - (r : ℂ) := by
  apply Complex.ext <;> simp [toC, subR]
theorem toC_mulR (a : Cx ℝ) (r : ℝ) : toC (mulR a r) = toC a * (r : ℂ) := by
  apply Complex.ext <;> simp [toC, mulR]
theorem toC_inj {a b : Cx ℝ} : toC a = toC b ↔ a = b := by
  constructor
  · intro h
    have h1 : a.re = b.re := congrArg Complex.re h
    have h2 : a.im = b.im := congrArg Complex.im h
    cases a; cases b; simp_all
  · rintro rfl; rfl

/-! ### 2. square root -/

/-- polar form `r (cos t + i sin t) = r e^{it}` -/
theorem toC_polar_form (r t : ℝ) :
    toC ⟨r * Real.cos t, r * Real.sin t⟩ = (r : ℂ) * Complex.exp ((t : ℂ) * Complex.I) := by
  apply Complex.ext <;>
    simp [toC, Complex.exp_ofReal_mul_I_re, Complex.exp_ofReal_mul_I_im]

theorem csqrt_form (z : Cx ℝ) :
    toC (csqrt z) = ((Real.sqrt ‖toC z‖ : ℝ) : ℂ) *
      Complex.exp (((1 / 2 * Complex.arg (toC z) : ℝ) : ℂ) * Complex.I) := by
  rw [← toC_polar_form, ← abs_eq, ← arg_eq]; rfl

/-- `csqrt z` is a square root of `z` -/
theorem csqrt_sq (z : Cx ℝ) : toC (csqrt z) * toC (csqrt z) = toC z := by
  rw [csqrt_form]
  have h := Complex.norm_mul_exp_arg_mul_I (toC z)
  have hr : ((Real.sqrt ‖toC z‖ : ℝ) : ℂ) * ((Real.sqrt ‖toC z‖ : ℝ) : ℂ) = ((‖toC z‖ : ℝ) : ℂ) := by
    rw [← Complex.ofReal_mul, Real.mul_self_sqrt (norm_nonneg _)]
  have he : Complex.exp (((1 / 2 * Complex.arg (toC z) : ℝ) : ℂ) * Complex.I) *
      Complex.exp (((1 / 2 * Complex.arg (toC z) : ℝ) : ℂ) * Complex.I) =
      Complex.exp ((Complex.arg (toC z) : ℂ) * Complex.I) := by
    rw [← Complex.exp_add]; congr 1; push_cast; ring
  rw [mul_mul_mul_comm, hr, he]
  exact h

/-- principal branch: the real part of the square root is non-negative -/
theorem csqrt_re_nonneg (z : Cx ℝ) : 0 ≤ (csqrt z).re := by
  show 0 ≤ Real.sqrt (Cx.abs z) * Real.cos (1 / 2 * Complex.arg (toC z))
  have h1 := Complex.neg_pi_lt_arg (toC z)
  have h2 := Complex.arg_le_pi (toC z)
  exact mul_nonneg (Real.sqrt_nonneg _)
    (Real.cos_nonneg_of_neg_pi_div_two_le_of_le (by linarith) (by linarith))

/-- principal branch, boundary: when the real part vanishes the imaginary part is non-negative -/
theorem csqrt_im_nonneg_of_re_eq_zero (z : Cx ℝ) (h : (csqrt z).re = 0) : 0 ≤ (csqrt z).im := by
  have h1 := Complex.neg_pi_lt_arg (toC z)
  have h2 := Complex.arg_le_pi (toC z)
  have hre : Real.sqrt (Cx.abs z) * Real.cos (1 / 2 * Complex.arg (toC z)) = 0 := h
  show 0 ≤ Real.sqrt (Cx.abs z) * Real.sin (1 / 2 * Complex.arg (toC z))
  rcases mul_eq_zero.mp hre with h0 | h0
  · rw [h0]; simp
  · by_cases hneg : Complex.arg (toC z) < 0
    · exfalso
      have : 0 < Real.cos (1 / 2 * Complex.arg (toC z)) :=
        Real.cos_pos_of_mem_Ioo ⟨by linarith, by linarith [Real.pi_pos]⟩
      linarith
    · exact mul_nonneg (Real.sqrt_nonneg _)
        (Real.sin_nonneg_of_nonneg_of_le_pi (by linarith) (by linarith [Real.pi_pos]))

/-- the model's square root is Mathlib's principal complex power `z ^ (1/2)` -/
theorem csqrt_spec (z : Cx ℝ) : toC (csqrt z) = toC z ^ (1 / 2 : ℂ) := by
  by_cases hz : toC z = 0
  · rw [csqrt_form, hz]; simp
  · have hr : 0 < ‖toC z‖ := norm_pos_iff.mpr hz
    rw [csqrt_form, Complex.cpow_def_of_ne_zero hz, Complex.log]
    have : ((Real.log ‖toC z‖ : ℝ) + (Complex.arg (toC z) : ℂ) * Complex.I) * (1 / 2 : ℂ) =
        ((Real.log ‖toC z‖ / 2 : ℝ) : ℂ) + ((1 / 2 * Complex.arg (toC z) : ℝ) : ℂ) * Complex.I := by
      push_cast; ring
    rw [this, Complex.exp_add, ← Complex.ofReal_exp, Real.exp_half, Real.exp_log hr]

/-! ### 3. powers and logarithm to a base -/

theorem absSqr_eq (z : Cx ℝ) : absSqr z = ‖toC z‖ ^ 2 := by
  rw [← abs_eq]
  show absSqr z = Real.sqrt (absSqr z) ^ 2
  rw [Real.sq_sqrt]
  exact add_nonneg (mul_self_nonneg _) (mul_self_nonneg _)

theorem toC_eq_re_im (w : Cx ℝ) : toC w = (w.re : ℂ) + (w.im : ℂ) * Complex.I := by
  apply Complex.ext <;> simp [toC]

/-- `z ^ w = exp (w log z)` for `z ≠ 0` (principal branch) -/
theorem cpow_spec (z w : Cx ℝ) (hz : toC z ≠ 0) :
    toC (cpow z w) = Complex.exp (toC w * Complex.log (toC z)) := by
  have hr : 0 < ‖toC z‖ := norm_pos_iff.mpr hz
  have hr2 : 0 < ‖toC z‖ ^ 2 := by positivity
  have hform : toC (cpow z w) =
      ((((‖toC z‖ ^ 2) ^ (1 / 2 * w.re) * Real.exp (-w.im * Complex.arg (toC z)) : ℝ)) : ℂ) *
      Complex.exp (((w.re * Complex.arg (toC z) + 1 / 2 * w.im * Real.log (‖toC z‖ ^ 2) : ℝ) : ℂ) *
        Complex.I) := by
    rw [← toC_polar_form, ← absSqr_eq, ← arg_eq]; rfl
  rw [hform, Real.rpow_def_of_pos hr2, Real.log_pow, ← Real.exp_add, Complex.ofReal_exp,
    ← Complex.exp_add, toC_eq_re_im w, Complex.log]
  congr 1
  push_cast
  ring_nf
  rw [Complex.I_sq]
  ring

/-- `z ^ x = exp (x log z)` for a real exponent `x`, `z ≠ 0` -/
theorem cpowf_spec (z : Cx ℝ) (x : ℝ) (hz : toC z ≠ 0) :
    toC (cpowf z x) = Complex.exp ((x : ℂ) * Complex.log (toC z)) := by
  have hr : 0 < ‖toC z‖ := norm_pos_iff.mpr hz
  have hr2 : 0 < ‖toC z‖ ^ 2 := by positivity
  have hform : toC (cpowf z x) =
      ((((‖toC z‖ ^ 2) ^ (1 / 2 * x) : ℝ)) : ℂ) *
      Complex.exp (((x * Complex.arg (toC z) : ℝ) : ℂ) * Complex.I) := by
    rw [← toC_polar_form, ← absSqr_eq, ← arg_eq]; rfl
  rw [hform, Real.rpow_def_of_pos hr2, Real.log_pow, Complex.ofReal_exp,
    ← Complex.exp_add, Complex.log]
  congr 1
  push_cast
  ring

/-- logarithm to base `b` -/
theorem clog_spec (z b : Cx ℝ) : toC (clog z b) = Complex.log (toC z) / Complex.log (toC b) := by
  rw [clog, divT_eq, cln_eq, cln_eq]

/-- for `z ≠ 0` the model's power is Mathlib's principal complex power -/
theorem cpow_eq_cpow (z w : Cx ℝ) (hz : toC z ≠ 0) : toC (cpow z w) = toC z ^ toC w := by
  rw [cpow_spec z w hz, Complex.cpow_def_of_ne_zero hz, mul_comm]

/-! ### 4. right inverses -/

section helpers
open Complex in
theorem sin_neg_I_mul_log (w : ℂ) (hw : w ≠ 0) :
    Complex.sin (-Complex.I * Complex.log w) = (w⁻¹ - w) * Complex.I / 2 := by
  have e1 : -(-I * log w) * I = -log w := by linear_combination (log w) * I_sq
  have e2 : (-I * log w) * I = log w := by linear_combination (-log w) * I_sq
  rw [Complex.sin, e1, e2, Complex.exp_neg, Complex.exp_log hw]

theorem sinh_log (w : ℂ) (hw : w ≠ 0) : Complex.sinh (Complex.log w) = (w - w⁻¹) / 2 := by
  rw [Complex.sinh, Complex.exp_neg, Complex.exp_log hw]

theorem cosh_log (w : ℂ) (hw : w ≠ 0) : Complex.cosh (Complex.log w) = (w + w⁻¹) / 2 := by
  rw [Complex.cosh, Complex.exp_neg, Complex.exp_log hw]
end helpers

/-- the square root inside asin/acos: `s² = 1 - z²` -/
theorem asin_sqrt_sq (z : Cx ℝ) :
    toC (csqrt (1 - z * z)) * toC (csqrt (1 - z * z)) = 1 - toC z * toC z := by
  rw [csqrt_sq, toC_sub, toC_one, toC_mul]

/-- `(√(1-z²) + iz)(√(1-z²) - iz) = 1`; in particular the argument of the logarithm in
    asin/acos never vanishes -/
theorem asin_arg_mul (z : Cx ℝ) :
    (toC (csqrt (1 - z * z)) + Complex.I * toC z) *
      (toC (csqrt (1 - z * z)) - Complex.I * toC z) = 1 := by
  linear_combination asin_sqrt_sq z - (toC z) ^ 2 * Complex.I_sq

theorem casin_eq (z : Cx ℝ) :
    toC (casin z) = -Complex.I * Complex.log (toC (csqrt (1 - z * z)) + Complex.I * toC z) := by
  simp only [casin]
  rw [toC_mul, toC_neg, toC_I, cln_eq, toC_add, toC_mul, toC_I]

theorem cacos_eq (z : Cx ℝ) :
    toC (cacos z) = Complex.I * Complex.log (toC (csqrt (1 - z * z)) + Complex.I * toC z) +
      ((π / 2 : ℝ) : ℂ) := by
  simp only [cacos]
  rw [toC_addR, toC_mul, toC_I, cln_eq, toC_add, toC_mul, toC_I]; rfl

/-- sin (asin z) = z, all z -/
theorem csin_casin (z : Cx ℝ) : toC (csin (casin z)) = toC z := by
  have hw := asin_arg_mul z
  have hw0 := left_ne_zero_of_mul_eq_one hw
  rw [csin_eq, casin_eq, sin_neg_I_mul_log _ hw0, inv_eq_of_mul_eq_one_right hw]
  linear_combination (-toC z) * Complex.I_sq

/-- cos (acos z) = z, all z -/
theorem ccos_cacos (z : Cx ℝ) : toC (ccos (cacos z)) = toC z := by
  have h := csin_casin z
  rw [csin_eq, casin_eq] at h
  rw [ccos_eq, cacos_eq]
  have : ((π / 2 : ℝ) : ℂ) = (π : ℂ) / 2 := by push_cast; ring
  rw [this, Complex.cos_add_pi_div_two, ← Complex.sin_neg, ← neg_mul]
  exact h

theorem casinh_eq (z : Cx ℝ) :
    toC (casinh z) = Complex.log (toC (csqrt (addR (z * z) 1)) + toC z) := by
  simp only [casinh]; rw [cln_eq, toC_add]

/-- sinh (asinh z) = z, all z -/
theorem csinh_casinh (z : Cx ℝ) : toC (csinh (casinh z)) = toC z := by
  have hs : toC (csqrt (addR (z * z) 1)) * toC (csqrt (addR (z * z) 1)) = toC z * toC z + 1 := by
    rw [csqrt_sq, toC_addR, toC_mul]; simp
  have hw : (toC (csqrt (addR (z * z) 1)) + toC z) * (toC (csqrt (addR (z * z) 1)) - toC z) = 1 := by
    linear_combination hs
  have hw0 := left_ne_zero_of_mul_eq_one hw
  rw [csinh_eq, casinh_eq, sinh_log _ hw0, inv_eq_of_mul_eq_one_right hw]
  ring

theorem cacosh_eq (z : Cx ℝ) :
    toC (cacosh z) =
      Complex.log (toC (csqrt (subR z 1)) * toC (csqrt (addR z 1)) + toC z) := by
  simp only [cacosh]; rw [cln_eq, toC_add, toC_mul]

/-- cosh (acosh z) = z, all z -/
theorem ccosh_cacosh (z : Cx ℝ) : toC (ccosh (cacosh z)) = toC z := by
  have h1 : toC (csqrt (subR z 1)) * toC (csqrt (subR z 1)) = toC z - 1 := by
    rw [csqrt_sq, toC_subR]; simp
  have h2 : toC (csqrt (addR z 1)) * toC (csqrt (addR z 1)) = toC z + 1 := by
    rw [csqrt_sq, toC_addR]; simp
  have hw : (toC (csqrt (subR z 1)) * toC (csqrt (addR z 1)) + toC z) *
      (toC z - toC (csqrt (subR z 1)) * toC (csqrt (addR z 1))) = 1 := by
    linear_combination (-(toC (csqrt (addR z 1)) * toC (csqrt (addR z 1)))) * h1 - (toC z - 1) * h2
  have hw0 := left_ne_zero_of_mul_eq_one hw
  rw [ccosh_eq, cacosh_eq, cosh_log _ hw0, inv_eq_of_mul_eq_one_right hw]
  ring

theorem catan_eq (z : Cx ℝ) :
    toC (catan z) = (Complex.log (1 - Complex.I * toC z) - Complex.log (1 + Complex.I * toC z)) *
      Complex.I * ((1 / 2 : ℝ) : ℂ) := by
  simp only [catan]
  rw [toC_mulR, toC_mul, toC_sub, cln_eq, cln_eq, toC_sub, toC_add, toC_mul, toC_I, toC_one]
  rfl

/-- tan (atan z) = z for z ≠ ±i -/
theorem ctan_catan (z : Cx ℝ) (h1 : toC z ≠ Complex.I) (h2 : toC z ≠ -Complex.I) :
    toC (ctan (catan z)) = toC z := by
  have ha : 1 - Complex.I * toC z ≠ 0 := by
    intro h; apply h2
    linear_combination Complex.I * h + (toC z) * Complex.I_sq
  have hb : 1 + Complex.I * toC z ≠ 0 := by
    intro h; apply h1
    linear_combination (-Complex.I) * h + (toC z) * Complex.I_sq
  set L := Complex.log (1 + Complex.I * toC z) - Complex.log (1 - Complex.I * toC z) with hL
  set E := Complex.exp (L / 2) with hE
  set F := Complex.exp (-(L / 2)) with hF
  have hEF : E * F = 1 := by rw [hE, hF, ← Complex.exp_add]; simp
  have hEE : E * E * (1 - Complex.I * toC z) = 1 + Complex.I * toC z := by
    rw [hE, ← Complex.exp_add, add_halves, hL, Complex.exp_sub, Complex.exp_log ha, Complex.exp_log hb,
      div_mul_cancel₀ _ ha]
  have hE0 : E ≠ 0 := Complex.exp_ne_zero _
  have key : (F - E) * Complex.I = toC z * (E + F) := by
    linear_combination (-Complex.I * F) * hEE + (Complex.I * E * (1 - Complex.I * toC z)) * hEF
      - toC z * (E + F) * Complex.I_sq
  have hsum : E + F ≠ 0 := by
    intro h0
    rw [h0, mul_zero] at key
    have : F - E = 0 := by
      rcases mul_eq_zero.mp key with h | h
      · exact h
      · exact absurd h Complex.I_ne_zero
    apply hE0
    linear_combination (1 / 2 : ℂ) * h0 - (1 / 2 : ℂ) * this
  have e1 : toC (catan z) * Complex.I = L / 2 := by
    rw [catan_eq, hL]; push_cast
    linear_combination
      (1 / 2 * (Complex.log (1 - Complex.I * toC z) - Complex.log (1 + Complex.I * toC z))) * Complex.I_sq
  have e2 : -toC (catan z) * Complex.I = -(L / 2) := by rw [neg_mul, e1]
  rw [ctan_eq, Complex.tan_eq_sin_div_cos, Complex.sin, Complex.cos, e1, e2, ← hE, ← hF, key]
  field_simp

theorem ctanh_eq (z : Cx ℝ) : toC (ctanh z) = Complex.tanh (toC z) := by
  rw [ctanh, divT_eq, csinh_eq, ccosh_eq, Complex.tanh_eq_sinh_div_cosh]

theorem catanh_eq (z : Cx ℝ) :
    toC (catanh z) = (Complex.log (toC z + 1) - Complex.log (1 - toC z)) * ((1 / 2 : ℝ) : ℂ) := by
  simp only [catanh]
  rw [toC_mulR, toC_sub, cln_eq, cln_eq, toC_sub, toC_addR, toC_one, Complex.ofReal_one]
  rfl

/-- tanh (atanh z) = z for z ≠ ±1 -/
theorem ctanh_catanh (z : Cx ℝ) (h1 : toC z ≠ 1) (h2 : toC z ≠ -1) :
    toC (ctanh (catanh z)) = toC z := by
  have ha : 1 - toC z ≠ 0 := by
    intro h; apply h1; linear_combination -h
  have hb : toC z + 1 ≠ 0 := by
    intro h; apply h2; linear_combination h
  set L := Complex.log (toC z + 1) - Complex.log (1 - toC z) with hL
  set E := Complex.exp (L / 2) with hE
  set F := Complex.exp (-(L / 2)) with hF
  have hEF : E * F = 1 := by rw [hE, hF, ← Complex.exp_add]; simp
  have hEE : E * E * (1 - toC z) = toC z + 1 := by
    rw [hE, ← Complex.exp_add, add_halves, hL, Complex.exp_sub, Complex.exp_log ha, Complex.exp_log hb,
      div_mul_cancel₀ _ ha]
  have hE0 : E ≠ 0 := Complex.exp_ne_zero _
  have key : E - F = toC z * (E + F) := by
    linear_combination F * hEE - (E * (1 - toC z)) * hEF
  have hsum : E + F ≠ 0 := by
    intro h0
    rw [h0, mul_zero] at key
    apply hE0
    linear_combination (1 / 2 : ℂ) * h0 + (1 / 2 : ℂ) * key
  have e1 : toC (catanh z) = L / 2 := by
    rw [catanh_eq, hL]; push_cast; ring
  rw [ctanh_eq, Complex.tanh_eq_sinh_div_cosh, Complex.sinh, Complex.cosh, e1, ← hE, ← hF, key]
  field_simp

/-! Reciprocal-argument inverses.  `divT` is the total quotient, which over ℝ follows Mathlib's
    convention `x / 0 = 0`; with it the four identities below hold for every `z`.  At `z = 0` they
    hold only through that convention (`1/0 = 0`, `1/(1/0) = 0`) and say nothing about `f64`, where
    `1/0 = ∞`; for `z ≠ 0` they are the genuine statements. -/

/-- sec (asec z) = z -/
theorem csec_casec (z : Cx ℝ) : toC (csec (casec z)) = toC z := by
  rw [csec, casec, divT_eq, ccos_cacos, divT_eq, toC_one, one_div_one_div]
/-- csc (acsc z) = z -/
theorem ccsc_cacsc (z : Cx ℝ) : toC (ccsc (cacsc z)) = toC z := by
  rw [ccsc, cacsc, divT_eq, csin_casin, divT_eq, toC_one, one_div_one_div]
/-- sech (asech z) = z -/
theorem csech_casech (z : Cx ℝ) : toC (csech (casech z)) = toC z := by
  rw [csech, casech, divT_eq, ccosh_cacosh, divT_eq, toC_one, one_div_one_div]
/-- csch (acsch z) = z -/
theorem ccsch_cacsch (z : Cx ℝ) : toC (ccsch (cacsch z)) = toC z := by
  rw [ccsch, cacsch, divT_eq, csinh_casinh, divT_eq, toC_one, one_div_one_div]

/-- cot (acot z) = z for z ≠ ±i (at `z = 0` only through `1/0 = 0`, see above) -/
theorem ccot_cacot (z : Cx ℝ) (h1 : toC z ≠ Complex.I) (h2 : toC z ≠ -Complex.I) :
    toC (ccot (cacot z)) = toC z := by
  have hd : toC (divT 1 z) = 1 / toC z := by rw [divT_eq, toC_one]
  have g1 : toC (divT 1 z) ≠ Complex.I := by
    intro h; apply h2
    rw [← one_div_one_div (toC z), ← hd, h, one_div, Complex.inv_I]
  have g2 : toC (divT 1 z) ≠ -Complex.I := by
    intro h; apply h1
    rw [← one_div_one_div (toC z), ← hd, h, one_div, inv_neg, Complex.inv_I, neg_neg]
  rw [ccot, cacot, divT_eq, ctan_catan _ g1 g2, hd, toC_one, one_div_one_div]

/-- coth (acoth z) = z for z ≠ ±1 (at `z = 0` only through `1/0 = 0`, see above) -/
theorem ccoth_cacoth (z : Cx ℝ) (h1 : toC z ≠ 1) (h2 : toC z ≠ -1) :
    toC (ccoth (cacoth z)) = toC z := by
  have hd : toC (divT 1 z) = 1 / toC z := by rw [divT_eq, toC_one]
  have g1 : toC (divT 1 z) ≠ 1 := by
    intro h; apply h1
    rw [← one_div_one_div (toC z), ← hd, h, one_div, inv_one]
  have g2 : toC (divT 1 z) ≠ -1 := by
    intro h; apply h2
    rw [← one_div_one_div (toC z), ← hd, h, one_div, inv_neg, inv_one]
  rw [ccoth, cacoth, divT_eq, ctanh_catanh _ g1 g2, hd, toC_one, one_div_one_div]

/-- the hypotheses of `ctan_catan`, `ctanh_catanh`, … are satisfiable by a non-trivial value -/
example : toC (⟨2, 3⟩ : Cx ℝ) ≠ Complex.I ∧ toC (⟨2, 3⟩ : Cx ℝ) ≠ -Complex.I ∧
    toC (⟨2, 3⟩ : Cx ℝ) ≠ 1 ∧ toC (⟨2, 3⟩ : Cx ℝ) ≠ -1 ∧ toC (⟨2, 3⟩ : Cx ℝ) ≠ 0 := by
  refine ⟨?_, ?_, ?_, ?_, ?_⟩ <;>
    (intro h; have := congrArg Complex.re h; (simp [toC] at this) <;> norm_num at this)

/-! ### 5. principal ranges -/

theorem toC_re (z : Cx ℝ) : (toC z).re = z.re := rfl
theorem toC_im (z : Cx ℝ) : (toC z).im = z.im := rfl

/-- if `s² = 1 - z²` and `Re s ≥ 0` then `|Im z| ≤ Re s` -/
theorem sqrt_re_ge_abs_im {s z : ℂ} (hs : s * s = 1 - z * z) (h0 : 0 ≤ s.re) : |z.im| ≤ s.re := by
  have hre := congrArg Complex.re hs
  have him := congrArg Complex.im hs
  simp only [Complex.mul_re, Complex.mul_im, Complex.sub_re, Complex.sub_im, Complex.one_re,
    Complex.one_im] at hre him
  generalize s.re = a at *
  generalize s.im = b at *
  generalize z.re = x at *
  generalize z.im = y at *
  have key : (a ^ 2 - y ^ 2) * (a ^ 2 + x ^ 2) = a ^ 2 := by
    linear_combination a ^ 2 * hre - (x * y - a * b) / 2 * him
  rcases h0.eq_or_lt with ha | ha
  · subst ha
    have hy : y = 0 := by
      by_contra hy
      have hx : x = 0 := by
        have h : y ^ 2 * x ^ 2 = 0 := by linear_combination -key
        rcases mul_eq_zero.mp h with h | h
        · exact absurd (pow_eq_zero_iff (by norm_num) |>.mp h) hy
        · exact pow_eq_zero_iff (by norm_num) |>.mp h
      subst hx
      nlinarith [mul_self_nonneg b, mul_self_nonneg y]
    simp [hy]
  · have hpos : 0 < a ^ 2 + x ^ 2 := by positivity
    have hd : y ^ 2 ≤ a ^ 2 := by
      by_contra hn
      have hn' : a ^ 2 < y ^ 2 := not_le.mp hn
      have : (a ^ 2 - y ^ 2) * (a ^ 2 + x ^ 2) < 0 := mul_neg_of_neg_of_pos (by linarith) hpos
      nlinarith [sq_nonneg a]
    exact abs_le.mpr (abs_le_of_sq_le_sq' hd ha.le)

/-- the argument of the logarithm in asin/acos lies in the closed right half plane -/
theorem asin_arg_re_nonneg (z : Cx ℝ) :
    0 ≤ (toC (csqrt (1 - z * z)) + Complex.I * toC z).re := by
  have h := sqrt_re_ge_abs_im (asin_sqrt_sq z) (csqrt_re_nonneg _)
  have h' := le_abs_self (toC z).im
  simp only [Complex.add_re, Complex.mul_re, Complex.I_re, Complex.I_im, zero_mul, one_mul, zero_sub]
  linarith

theorem casin_re (z : Cx ℝ) :
    (casin z).re = Complex.arg (toC (csqrt (1 - z * z)) + Complex.I * toC z) := by
  have h := congrArg Complex.re (casin_eq z)
  rw [toC_re] at h
  rw [h]; simp [Complex.log_im]

theorem cacos_re (z : Cx ℝ) :
    (cacos z).re = π / 2 - Complex.arg (toC (csqrt (1 - z * z)) + Complex.I * toC z) := by
  have h := congrArg Complex.re (cacos_eq z)
  rw [toC_re] at h
  rw [h]; simp [Complex.log_im]; ring

/-- principal range of asin: Re asin z ∈ [−π/2, π/2] -/
theorem casin_re_range (z : Cx ℝ) : -(π / 2) ≤ (casin z).re ∧ (casin z).re ≤ π / 2 := by
  rw [casin_re]
  exact abs_le.mp (Complex.abs_arg_le_pi_div_two_iff.mpr (asin_arg_re_nonneg z))

/-- principal range of acos: Re acos z ∈ [0, π] -/
theorem cacos_re_range (z : Cx ℝ) : 0 ≤ (cacos z).re ∧ (cacos z).re ≤ π := by
  rw [cacos_re]
  have h := abs_le.mp (Complex.abs_arg_le_pi_div_two_iff.mpr (asin_arg_re_nonneg z))
  constructor <;> linarith [h.1, h.2]

/-- asin z + acos z = π/2 (the two are computed from the same logarithm) -/
theorem casin_add_cacos (z : Cx ℝ) : toC (casin z) + toC (cacos z) = ((π / 2 : ℝ) : ℂ) := by
  rw [casin_eq, cacos_eq]; ring

/-- principal range of asinh: Im asinh z ∈ [−π/2, π/2] -/
theorem casinh_im_range (z : Cx ℝ) : -(π / 2) ≤ (casinh z).im ∧ (casinh z).im ≤ π / 2 := by
  have hs : toC (csqrt (addR (z * z) 1)) * toC (csqrt (addR (z * z) 1)) =
      1 - (Complex.I * toC z) * (Complex.I * toC z) := by
    rw [csqrt_sq, toC_addR, toC_mul, Complex.ofReal_one]
    linear_combination (toC z) ^ 2 * Complex.I_sq
  have h := sqrt_re_ge_abs_im hs (csqrt_re_nonneg _)
  have h' := neg_abs_le (Complex.I * toC z).im
  have hre : 0 ≤ (toC (csqrt (addR (z * z) 1)) + toC z).re := by
    simp only [Complex.mul_im, Complex.I_re, Complex.I_im, zero_mul, one_mul, zero_add] at h h'
    simp only [Complex.add_re]
    linarith
  have him : (casinh z).im = Complex.arg (toC (csqrt (addR (z * z) 1)) + toC z) := by
    have := congrArg Complex.im (casinh_eq z)
    rw [toC_im] at this
    rw [this, Complex.log_im]
  rw [him]
  exact abs_le.mp (Complex.abs_arg_le_pi_div_two_iff.mpr hre)

end Ohsl.Props.C14
