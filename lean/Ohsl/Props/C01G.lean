/-
  Property C01 (part G) — backward error analysis of `solve_basic` (`Mat.solveBasic`: Gaussian
  elimination with partial pivoting applied to the matrix AND the right-hand side simultaneously,
  `Mat.gaussWithPivot`, followed by back substitution, `Mat.backsolve`) in the "rounded reals"
  interpretation `Fl M` of the model (standard model of floating-point arithmetic, Rounding.lean).
  Sibling of C01F (`solve_lu`); helper file: Ohsl/Lemmas/GaussRounding.lean; the constants `M.gq k =
  (1−u)^{−k} − 1` and the factor calculus `M.Th` are those of C01F / LURounding.lean (`u < 1` is the
  only smallness hypothesis).  The transfer to the Rust `f64` code rests on the ASSUMPTION stated in
  Rounding.lean (binary64 without overflow/underflow satisfies `FlModel`), not proved here.

  THE MULTIPLIERS.  `solve_basic` does not store the multipliers `elem = fl(m_ik / m_kk)`; it
  overwrites entry `(i,k)` with the rounded residue `fl(m_ik − fl(elem·m_kk))` (`≈ 0`, in general NOT
  `0`: `Mat.elimRow_struct`; `backsolve` never reads it: `backsolve_upper_only`).  They are DEFINED FROM
  THE RUN by the instrumented elimination `Mat.gaussT` (GaussRounding.lean): the same computation —
  it calls the model's `maxAbsInColumn`, `partialPivot`, `elimRow` — that additionally records, in a
  `GTrace`, `mult` (the multipliers, rows exchanged along with every later row exchange), `perm`
  (`perm r` = the row of the input that is now row `r`) and `reg` (no pivot search has returned a
  row above the diagonal; always `true`, see below).  `gaussT_forget`: forgetting the trace gives `gaussWithPivot` exactly
  (values and failures, every scalar type).  Notation for a returned state `((m', ŷ), tr)`:
  `GLhat tr` (unit lower: `tr.mult` below the diagonal), `GUhat n m'` (the upper triangle of `m'`),
  `absGLU = |L̂||Û|`, `absGLy = |L̂||ŷ|`.

  THE PIVOT SEARCH (history of a defect).  The original `max_abs_in_column` started from `max_index = 0`;
  on a pivot sub-column that is EXACTLY zero it returned row `0`, and `partial_pivot` exchanged row `k`
  with row `0`, a FINISHED pivot row.  In exact arithmetic entry `(0,0)` is then an exact `0` and the last
  division of `backsolve` fails (C01S), but in rounded arithmetic it is the rounded residue
  `fl(m_k0 − fl(elem·m_00))`, in general a tiny NON-zero number, so `solve_basic` RETURNED a vector that is
  not the solution of any nearby system (on `f64`: `A = [[49,1,0],[1,t,1],[1,t,2]]`, `t = fl(1/49)`,
  `b = [1,2,3]` gave `x̂ ≈ [4.4·10¹⁵, 1, 1.49]`, relative backward error `1`).  This was found while
  proving this file — the backward error theorem is false for such runs — and REPAIRED in /repo by the
  fix commit (`max_index = start_row`); the model follows.  Now the search returns `k ≤ p < n`
  whenever it returns (`Mat.maxAbsInColumn_ge`, `pivotSearch_fl`), every run is regular
  (`gaussT_regular`: `tr.reg = true` always), and the theorems below hold for EVERY returned value
  with `u < 1` as the only hypothesis.  On a numerically singular matrix whose pivot sub-column is
  exactly zero the search returns `p = k`, the pivot is an exact zero, and the next division is the
  `.error .arith` of the abstract model (±inf / NaN over IEEE): nothing is returned
  (`Ex.solveBasic_A3_b3`, the matrix on which the old search returned a wrong vector).

  Structural (S), any scalar type
  * `gaussT_forget`            `Except.map Prod.fst (gaussT A b) = gaussWithPivot A b`
  * `solveBasic_traced`        a returned value of `solve_basic` comes from a successful `gaussT`
  * `backsolve_upper_only`     `backsolve` gives the same result on two matrices with the same upper
                               triangle: the residues below the diagonal are irrelevant
  * `gaussT_regular`           every returned instrumented run has `reg = true`
  Rounding (F)
  * `pivotSearch_fl`           the pivot search in `Fl M`: `k ≤ p < n`, the entry found dominates the
                               sub-column, and an exactly zero sub-column gives `p = k`
  * `gauss_backward`           forward elimination (Higham, Thm 9.3, for `[A | b]`): `perm` is a
                               permutation `π`, `|l̂_rc| ≤ 1 + u`,
                               `|L̂Û − PA| ≤ gq (n−1) |L̂||Û|` and `|L̂ŷ − Pb| ≤ gq (n−1) |L̂||ŷ|`
  * `solveBasic_backward`      CLASSICAL FORM (Higham, Thm 9.4), right-hand side unperturbed:
                               `(A + ΔA) x̂ = b` EXACTLY, `|ΔA| ≤ (gq (n−1) + gq (2n−1)) · Pᵀ|L̂||Û|`
                               (`solve_lu`: `gq n + gq (3n)`; there is no rounded product `P·b` here)
  * `solveBasic_backward_twosided`  `(A + ΔA) x̂ = b + Δb`, `|ΔA| ≤ (gq (n−1) + gq n) · Pᵀ|L̂||Û|`,
                               `|Δb| ≤ gq (n−1) · Pᵀ|L̂||ŷ|`
  * `solveBasic_backward_normwise`, `absGLU_rowNorm_le`, `solveBasic_backward_normwise_U`:
                               `‖ΔA‖_∞ ≤ (gq (n−1) + gq (2n−1)) ‖ |L̂||Û| ‖_∞ ≤ … · n (1+u) ‖Û‖_∞`
  * `solveBasic_backward_gamma`     `|ΔA| ≤ γ_{3n} · Pᵀ|L̂||Û|`, `γ_k = k u/(1 − k u)`, when `3 n u < 1`
  Nothing is `_partial`.

  Examples: exact arithmetic (`ΔA = 0`, `A x = b`); the `2 × 2` system of C01F with a row exchange
  (`Ex.solveBasic_A2_b2`, `Ex.gaussT_A2_b2`); the numerically singular `3 × 3` system `A3` in the model
  `fl x = (1+u) x`, `u = 2⁻¹⁰`, which is now refused.
-/
import Ohsl.Props.C01F
import Ohsl.Lemmas.GaussRounding
import Mathlib.Algebra.BigOperators.Intervals
import Mathlib.Algebra.Order.BigOperators.Group.Finset
import Mathlib.Algebra.BigOperators.Ring.Finset
import Mathlib.Tactic.Ring
import Mathlib.Tactic.Linarith
import Mathlib.Tactic.Positivity
import Mathlib.Tactic.NormNum
set_option linter.unusedSectionVars false
set_option linter.unusedVariables false
set_option linter.unusedSimpArgs false
namespace Ohsl.Props.C01
open Ohsl Ohsl.Mat

section Structural
variable {K : Type} [Add K] [Sub K] [Mul K] [Neg K] [Zero K] [One K] [BEq K] [ScalarExt K]

/-- (S) **the instrumented elimination is the model's elimination**: forgetting the trace of
`gaussT` gives `gaussWithPivot` — the same value or the same failure, for every scalar type -/
theorem gaussT_forget (A : Mat K) (b : Array K) :
    Except.map Prod.fst (Mat.gaussT A b) = Mat.gaussWithPivot A b :=
  Mat.gaussT_fst A b

/-- (S) a value returned by `solve_basic` is the back substitution of the result of a successful
elimination, which is the projection of a successful instrumented elimination -/
theorem solveBasic_traced {n : Nat} {A : Mat K} {a : Nat → Nat → K} (hA : Mat.Is A n n a)
    {b x : Array K} (hb : b.size = n) (h : Mat.solveBasic A b = .ok x) :
    ∃ (m' : Mat K) (y : Array K) (tr : GTrace K), Mat.gaussT A b = .ok ((m', y), tr) ∧
      Mat.gaussWithPivot A b = .ok (m', y) ∧ Mat.backsolve m' y = .ok x :=
  Mat.solveBasic_run hA.wfn hb h

/-- (S) **`backsolve` never reads below the diagonal**: on two `n × n` matrices with the same upper
triangle it gives the same result (value or failure) for every right-hand side.  So the rounded
residues that `solve_basic` leaves below the diagonal do not influence the returned vector. -/
theorem backsolve_upper_only {n : Nat} {U U' : Mat K} {uu uu' : Nat → Nat → K}
    (hU : Mat.Is U n n uu) (hU' : Mat.Is U' n n uu')
    (hup : ∀ i j, i ≤ j → j < n → uu' i j = uu i j) (x : Array K) :
    Mat.backsolve U' x = Mat.backsolve U x := by
  refine Mat.backsolve_congr_upper (by rw [hU'.rows, hU.rows]) ?_ x
  intro i j hij hj
  rw [hU.rows] at hj
  rw [hU'.entry i j (by omega) hj, hU.entry i j (by omega) hj, hup i j hij hj]

/-- (S) **every run is regular**: the pivot search starts at the diagonal row, so whenever the
instrumented elimination returns, no pivot search has returned a row above the diagonal -/
theorem gaussT_regular {n : Nat} {A : Mat K} {a : Nat → Nat → K} (hA : Mat.Is A n n a)
    {b : Array K} (hb : b.size = n) {s : (Mat K × Array K) × GTrace K}
    (h : Mat.gaussT A b = .ok s) : s.2.reg = true :=
  Mat.gaussT_regular hA.wfn hb h

end Structural

section Rounding
variable {M : FlModel}

/-- the unit lower matrix of the recorded multipliers (real values) -/
noncomputable def GLhat (tr : GTrace (Fl M)) : Nat → Nat → ℝ := Lfn (fun a b => (tr.mult a b).val)
/-- the upper triangle of the final matrix of the elimination (real values) -/
noncomputable def GUhat (n : Nat) (m' : Mat (Fl M)) : Nat → Nat → ℝ := Ufn n (valEnt m')
/-- `(|L̂||Û|)_{rc}` -/
noncomputable def absGLU (n : Nat) (tr : GTrace (Fl M)) (m' : Mat (Fl M)) : Nat → Nat → ℝ :=
  fun r c => ∑ k ∈ Finset.range n, |GLhat tr r k| * |GUhat n m' k c|
/-- `(|L̂||ŷ|)_r` -/
noncomputable def absGLy (n : Nat) (tr : GTrace (Fl M)) (y : Array (Fl M)) : Nat → ℝ :=
  fun r => ∑ k ∈ Finset.range n, |GLhat tr r k| * |(vf y k).val|

theorem GLhat_apply (tr : GTrace (Fl M)) (r k : Nat) :
    GLhat tr r k = if k < r then (tr.mult r k).val else if k = r then 1 else 0 := rfl
theorem GUhat_apply (n : Nat) (m' : Mat (Fl M)) {k c : Nat} (hc : c < n) :
    GUhat n m' k c = if c < k then 0 else (ent m' k c).val := by
  simp [GUhat, Ufn, valEnt, hc]
theorem absGLU_nonneg (n : Nat) (tr : GTrace (Fl M)) (m' : Mat (Fl M)) (r c : Nat) :
    0 ≤ absGLU n tr m' r c :=
  Finset.sum_nonneg (fun _ _ => mul_nonneg (abs_nonneg _) (abs_nonneg _))

/-- **the pivot search of `solve_basic` in `Fl M`** (comparisons and `mag` are exact; the search
starts from `max_index = start_row`): whenever it returns, the row `p` satisfies `k ≤ p < n`, its
entry dominates the sub-column `k, …, n−1` of column `k`, and if that whole sub-column is exactly zero
the search returns the diagonal row `p = k` (whose entry, the pivot, is then an exact zero) -/
theorem pivotSearch_fl {n k p : Nat} {m : Mat (Fl M)} {mm : Nat → Nat → Fl M}
    (hm : Mat.Is m n n mm) (hk : k < n) (h : Mat.maxAbsInColumn m k k = .ok p) :
    k ≤ p ∧ p < n ∧
      (∀ i, k ≤ i → i < n → |(mm i k).val| ≤ |(mm p k).val|) ∧
      ((∀ i, k ≤ i → i < n → (mm i k).val = 0) → p = k) := by
  obtain ⟨h1, h2, h3, h4⟩ := Mat.maxAbsInColumn_fl hm.wfn hk h
  refine ⟨h2, h1, ?_, ?_⟩
  · intro i hi1 hi2
    have := h3 i hi1 hi2
    rwa [hm.ent_eq hi2 hk, hm.ent_eq h1 hk] at this
  · intro hz
    refine h4 ?_
    intro i hi1 hi2
    rw [hm.ent_eq hi2 hk]
    exact hz i hi1 hi2

/-- **Forward elimination with partial pivoting of `[A | b]`, backward error** (Higham, Thm 9.3, for
the `kij` elimination of `gauss_with_pivot`: multipliers `l̂_ik = fl(m_ik / m_kk)`, updates
`m_ij ← fl(m_ij − fl(l̂_ik m_kj))` for `j = k, …, n−1` and `y_i ← fl(y_i − fl(l̂_ik y_k))`).  Whenever the
instrumented elimination returns `((m', ŷ), tr)`: `m'`, `ŷ` are what
`gaussWithPivot` returns, `tr.perm` is a permutation `π` of the rows, every multiplier is at most
`1 + u` in magnitude (a rounded quotient of magnitudes `≤ 1`, see C01F), and
`|(L̂Û)_{rc} − a_{π r, c}| ≤ gq (n−1) (|L̂||Û|)_{rc}`, `|(L̂ŷ)_r − b_{π r}| ≤ gq (n−1) (|L̂||ŷ|)_r`. -/
theorem gauss_backward (hu : M.u < 1) {n : Nat} (hn : 1 ≤ n) {A : Mat (Fl M)}
    {a : Nat → Nat → Fl M} (hA : Mat.Is A n n a) {b : Array (Fl M)} (hb : b.size = n)
    {m' : Mat (Fl M)} {y : Array (Fl M)} {tr : GTrace (Fl M)}
    (h : Mat.gaussT A b = .ok ((m', y), tr)) :
    Mat.gaussWithPivot A b = .ok (m', y) ∧ WFn m' n ∧ y.size = n ∧
    ∃ σ : Nat → Nat, PermOK n tr.perm σ ∧
      (∀ r c, r < n → c < r → |GLhat tr r c| ≤ 1 + M.u) ∧
      (∀ r c, r < n → c < n →
        |∑ k ∈ Finset.range n, GLhat tr r k * GUhat n m' k c - (a (tr.perm r) c).val|
          ≤ M.gq (n - 1) * absGLU n tr m' r c) ∧
      (∀ r, r < n →
        |∑ k ∈ Finset.range n, GLhat tr r k * (vf y k).val - (vf b (tr.perm r)).val|
          ≤ M.gq (n - 1) * absGLy n tr y r) := by
  obtain ⟨hwf, hsz, σ, hperm, hmult, hfa, hfb⟩ := Mat.gauss_factor_fl hu hn hA.wfn hb h
  have hproj : Mat.gaussWithPivot A b = .ok (m', y) := by
    rw [← Mat.gaussT_fst, h]; rfl
  refine ⟨hproj, hwf, hsz, σ, hperm, ?_, ?_, ?_⟩
  · intro r c hr hc
    rw [GLhat_apply, if_pos hc]
    exact hmult r c hr hc
  · intro r c hr hc
    obtain ⟨Θ, hΘ, e⟩ := hfa r c hr hc
    rw [← hA.ent_eq (hperm.1 r hr).1 hc, e, ← Finset.sum_sub_distrib]
    unfold absGLU
    rw [Finset.mul_sum]
    refine (Finset.abs_sum_le_sum_abs _ _).trans (Finset.sum_le_sum ?_)
    intro k _
    have h1 := ((hΘ k).mono hu (show r ≤ n - 1 by omega)).abs_sub_one_le hu
    have e2 : GLhat tr r k * GUhat n m' k c
        - Lfn (fun a b => (tr.mult a b).val) r k * (Ufn n (valEnt m') k c * Θ k)
        = GLhat tr r k * GUhat n m' k c * (1 - Θ k) := by
      simp only [GLhat, GUhat]; ring
    rw [e2, abs_mul, abs_mul, abs_sub_comm]
    have h4 : 0 ≤ |GLhat tr r k| * |GUhat n m' k c| := by positivity
    nlinarith
  · intro r hr
    obtain ⟨Θ, hΘ, e⟩ := hfb r hr
    rw [e, ← Finset.sum_sub_distrib]
    unfold absGLy
    rw [Finset.mul_sum]
    refine (Finset.abs_sum_le_sum_abs _ _).trans (Finset.sum_le_sum ?_)
    intro k _
    have h1 := ((hΘ k).mono hu (show r ≤ n - 1 by omega)).abs_sub_one_le hu
    have e2 : GLhat tr r k * (vf y k).val
        - Lfn (fun a b => (tr.mult a b).val) r k * (Θ k * (vf y k).val)
        = GLhat tr r k * (vf y k).val * (1 - Θ k) := by
      simp only [GLhat]; ring
    rw [e2, abs_mul, abs_mul, abs_sub_comm]
    have h4 : 0 ≤ |GLhat tr r k| * |(vf y k).val| := by positivity
    nlinarith

/-- **`solve_basic`, backward error, classical form** (Higham, Thm 9.4).  Whenever `solveBasic A b`
returns `x̂` in `Fl M` (`A` is `n × n`, `n ≥ 1`, `u < 1`): `x̂ = backsolve m' ŷ` for the result `(m', ŷ)`
of `gaussWithPivot A b`, which is the projection of the instrumented run `gaussT A b = ((m', ŷ), tr)`;
all pivots `m'_ii` are non-zero; and,
with `π = tr.perm` the row permutation performed, `L̂` the unit lower matrix of the recorded
multipliers (`|l̂_rc| ≤ 1 + u`) and `Û` the upper triangle of `m'`:
`(A + ΔA) x̂ = b` holds EXACTLY — the right-hand side is not perturbed — and
`|ΔA_{π r, c}| ≤ (gq (n−1) + gq (2n−1)) · (|L̂||Û|)_{rc}`, i.e. `|ΔA| ≤ (gq (n−1) + gq (2n−1)) · Pᵀ|L̂||Û|`
(`gq (n−1)`: elimination of `A`; `gq (2n−1) = (1+gq (n−1))(1+gq n) − 1`: elimination of `b`, which plays
the role of the forward substitution, and back substitution). -/
theorem solveBasic_backward (hu : M.u < 1) {n : Nat} (hn : 1 ≤ n) {A : Mat (Fl M)}
    {a : Nat → Nat → Fl M} (hA : Mat.Is A n n a) {b x : Array (Fl M)} (hb : b.size = n)
    (h : Mat.solveBasic A b = .ok x) :
    ∃ (m' : Mat (Fl M)) (y : Array (Fl M)) (tr : GTrace (Fl M)),
      Mat.gaussT A b = .ok ((m', y), tr) ∧ Mat.gaussWithPivot A b = .ok (m', y) ∧
      Mat.backsolve m' y = .ok x ∧
      x.size = n ∧ (∀ i, i < n → (ent m' i i).val ≠ 0) ∧
      ∃ σ : Nat → Nat, PermOK n tr.perm σ ∧
      (∀ r c, r < n → c < r → |GLhat tr r c| ≤ 1 + M.u) ∧
      ∃ ΔA : Nat → Nat → ℝ,
        (∀ i, i < n →
          ∑ j ∈ Finset.range n, ((a i j).val + ΔA i j) * (vf x j).val = (vf b i).val) ∧
        ∀ r c, r < n → c < n →
          |ΔA (tr.perm r) c| ≤ (M.gq (n - 1) + M.gq (2 * n - 1)) * absGLU n tr m' r c := by
  obtain ⟨m', y, tr, hg, hgw, hbs⟩ := Mat.solveBasic_run hA.wfn hb h
  obtain ⟨_, _, _, σ, hperm, hmult, _, _⟩ := gauss_backward hu hn hA hb hg
  obtain ⟨hxs, hpiv, ΔA', hrow, hbd⟩ := Mat.solveBasic_backward_core hu hn hA.wfn hb hg hbs
  refine ⟨m', y, tr, hg, hgw, hbs, hxs, hpiv, σ, hperm, hmult, fun i j => ΔA' (σ i) j, ?_, ?_⟩
  · intro i hi
    obtain ⟨hσ, hπσ⟩ := hperm.2 i hi
    have := hrow (σ i) hσ
    rw [hπσ] at this
    rw [← this]
    apply Finset.sum_congr rfl
    intro j hj
    rw [hA.ent_eq hi (Finset.mem_range.mp hj)]
  · intro r c hr hc
    show |ΔA' (σ (tr.perm r)) c| ≤ _
    rw [(hperm.1 r hr).2]
    exact hbd r c hr hc

/-- **`solve_basic`, backward error, two-sided form**: for every returned value
`(A + ΔA) x̂ = b + Δb` EXACTLY with `|ΔA| ≤ (gq (n−1) + gq n) · Pᵀ|L̂||Û|` (elimination of `A`, back
substitution) and `|Δb| ≤ gq (n−1) · Pᵀ|L̂||ŷ|` (elimination of `b`; `ŷ` the transformed right-hand
side). -/
theorem solveBasic_backward_twosided (hu : M.u < 1) {n : Nat} (hn : 1 ≤ n) {A : Mat (Fl M)}
    {a : Nat → Nat → Fl M} (hA : Mat.Is A n n a) {b x : Array (Fl M)} (hb : b.size = n)
    (h : Mat.solveBasic A b = .ok x) :
    ∃ (m' : Mat (Fl M)) (y : Array (Fl M)) (tr : GTrace (Fl M)),
      Mat.gaussT A b = .ok ((m', y), tr) ∧ Mat.backsolve m' y = .ok x ∧
      ∃ σ : Nat → Nat, PermOK n tr.perm σ ∧
      ∃ (ΔA : Nat → Nat → ℝ) (Δb : Nat → ℝ),
        (∀ i, i < n → ∑ j ∈ Finset.range n, ((a i j).val + ΔA i j) * (vf x j).val
          = (vf b i).val + Δb i) ∧
        (∀ r c, r < n → c < n →
          |ΔA (tr.perm r) c| ≤ (M.gq (n - 1) + M.gq n) * absGLU n tr m' r c) ∧
        (∀ r, r < n → |Δb (tr.perm r)| ≤ M.gq (n - 1) * absGLy n tr y r) := by
  obtain ⟨m', y, tr, hg, hgw, hbs⟩ := Mat.solveBasic_run hA.wfn hb h
  obtain ⟨_, _, _, σ, hperm, _, _, _⟩ := gauss_backward hu hn hA hb hg
  obtain ⟨ΔA', Δb', hrow, hbd, hbb⟩ :=
    Mat.solveBasic_backward_core2 hu hn hA.wfn hb hg hbs
  refine ⟨m', y, tr, hg, hbs, σ, hperm, fun i j => ΔA' (σ i) j, fun i => Δb' (σ i), ?_, ?_, ?_⟩
  · intro i hi
    obtain ⟨hσ, hπσ⟩ := hperm.2 i hi
    have := hrow (σ i) hσ
    rw [hπσ] at this
    rw [← this]
    apply Finset.sum_congr rfl
    intro j hj
    rw [hA.ent_eq hi (Finset.mem_range.mp hj)]
  · intro r c hr hc
    show |ΔA' (σ (tr.perm r)) c| ≤ _
    rw [(hperm.1 r hr).2]
    exact hbd r c hr hc
  · intro r hr
    show |Δb' (σ (tr.perm r))| ≤ _
    rw [(hperm.1 r hr).2]
    exact hbb r hr

/-- **normwise form**: `‖ΔA‖_∞ ≤ (gq (n−1) + gq (2n−1)) · ‖ |L̂||Û| ‖_∞` -/
theorem solveBasic_backward_normwise (hu : M.u < 1) {n : Nat} (hn : 1 ≤ n) {A : Mat (Fl M)}
    {a : Nat → Nat → Fl M} (hA : Mat.Is A n n a) {b x : Array (Fl M)} (hb : b.size = n)
    (h : Mat.solveBasic A b = .ok x) :
    ∃ (m' : Mat (Fl M)) (y : Array (Fl M)) (tr : GTrace (Fl M)),
      Mat.gaussT A b = .ok ((m', y), tr) ∧ Mat.backsolve m' y = .ok x ∧
      ∃ ΔA : Nat → Nat → ℝ,
        (∀ i, i < n →
          ∑ j ∈ Finset.range n, ((a i j).val + ΔA i j) * (vf x j).val = (vf b i).val) ∧
        rowNorm n ΔA ≤ (M.gq (n - 1) + M.gq (2 * n - 1)) * rowNorm n (absGLU n tr m') := by
  obtain ⟨m', y, tr, hg, _, hbs, _, _, σ, hperm, _, ΔA, hsol, hbd⟩ :=
    solveBasic_backward hu hn hA hb h
  refine ⟨m', y, tr, hg, hbs, ΔA, hsol, ?_⟩
  have hc0 : 0 ≤ M.gq (n - 1) + M.gq (2 * n - 1) :=
    add_nonneg (FlModel.gq_nonneg hu _) (FlModel.gq_nonneg hu _)
  refine rowNorm_le _ (mul_nonneg hc0 (rowNorm_nonneg _ _)) ?_
  intro i hi
  obtain ⟨hσ, hπσ⟩ := hperm.2 i hi
  have h1 : ∑ c ∈ Finset.range n, |ΔA i c|
      ≤ ∑ c ∈ Finset.range n, (M.gq (n - 1) + M.gq (2 * n - 1)) * |absGLU n tr m' (σ i) c| := by
    apply Finset.sum_le_sum
    intro c hc
    have := hbd (σ i) c hσ (Finset.mem_range.mp hc)
    rw [hπσ] at this
    rwa [abs_of_nonneg (absGLU_nonneg n tr m' _ _)]
  rw [← Finset.mul_sum] at h1
  exact h1.trans (mul_le_mul_of_nonneg_left (row_le_rowNorm _ hσ) hc0)

/-- with partial pivoting `|l̂| ≤ 1 + u`, so `‖ |L̂||Û| ‖_∞ ≤ n (1+u) ‖Û‖_∞` -/
theorem absGLU_rowNorm_le {n : Nat} {tr : GTrace (Fl M)} (m' : Mat (Fl M))
    (hmult : ∀ r c, r < n → c < r → |GLhat tr r c| ≤ 1 + M.u) :
    rowNorm n (absGLU n tr m') ≤ n * (1 + M.u) * rowNorm n (GUhat n m') := by
  have hu0 := M.u_nonneg
  have hL : ∀ r k, r < n → |GLhat tr r k| ≤ 1 + M.u := by
    intro r k hr
    by_cases hk : k < r
    · exact hmult r k hr hk
    · rw [GLhat_apply, if_neg hk]
      split_ifs
      · rw [abs_one]; linarith
      · rw [abs_zero]; linarith
  have hN := rowNorm_nonneg n (GUhat n m')
  refine rowNorm_le _ (by positivity) ?_
  intro r hr
  have e : ∑ c ∈ Finset.range n, |absGLU n tr m' r c|
      = ∑ k ∈ Finset.range n, |GLhat tr r k| * ∑ c ∈ Finset.range n, |GUhat n m' k c| := by
    rw [Finset.sum_congr rfl (fun c _ => abs_of_nonneg (absGLU_nonneg n tr m' r c))]
    unfold absGLU
    rw [Finset.sum_comm]
    apply Finset.sum_congr rfl
    intro k _
    rw [Finset.mul_sum]
  rw [e]
  calc ∑ k ∈ Finset.range n, |GLhat tr r k| * ∑ c ∈ Finset.range n, |GUhat n m' k c|
      ≤ ∑ k ∈ Finset.range n, (1 + M.u) * rowNorm n (GUhat n m') := by
        apply Finset.sum_le_sum
        intro k hk
        exact mul_le_mul (hL r k hr) (row_le_rowNorm _ (Finset.mem_range.mp hk))
          (Finset.sum_nonneg (fun _ _ => abs_nonneg _)) (by linarith)
    _ = n * (1 + M.u) * rowNorm n (GUhat n m') := by
        rw [Finset.sum_const, Finset.card_range, nsmul_eq_mul]; ring

/-- **normwise form with partial pivoting**:
`‖ΔA‖_∞ ≤ (gq (n−1) + gq (2n−1)) · n (1+u) · ‖Û‖_∞` (the growth of `Û` is not bounded here) -/
theorem solveBasic_backward_normwise_U (hu : M.u < 1) {n : Nat} (hn : 1 ≤ n) {A : Mat (Fl M)}
    {a : Nat → Nat → Fl M} (hA : Mat.Is A n n a) {b x : Array (Fl M)} (hb : b.size = n)
    (h : Mat.solveBasic A b = .ok x) :
    ∃ (m' : Mat (Fl M)) (y : Array (Fl M)) (tr : GTrace (Fl M)),
      Mat.gaussT A b = .ok ((m', y), tr) ∧ Mat.backsolve m' y = .ok x ∧
      ∃ ΔA : Nat → Nat → ℝ,
        (∀ i, i < n →
          ∑ j ∈ Finset.range n, ((a i j).val + ΔA i j) * (vf x j).val = (vf b i).val) ∧
        rowNorm n ΔA
          ≤ (M.gq (n - 1) + M.gq (2 * n - 1)) * (n * (1 + M.u) * rowNorm n (GUhat n m')) := by
  obtain ⟨m', y, tr, hg, hbs, ΔA, hsol, hbd⟩ := solveBasic_backward_normwise hu hn hA hb h
  obtain ⟨_, _, _, σ, _, hmult, _, _⟩ := gauss_backward hu hn hA hb hg
  refine ⟨m', y, tr, hg, hbs, ΔA, hsol, hbd.trans ?_⟩
  exact mul_le_mul_of_nonneg_left (absGLU_rowNorm_le m' hmult)
    (add_nonneg (FlModel.gq_nonneg hu _) (FlModel.gq_nonneg hu _))

/-- **the classical constant**: `|ΔA| ≤ γ_{3n} · Pᵀ|L̂||Û|`, `γ_k = k u / (1 − k u)`, when `3 n u < 1`
(`gq (n−1) + gq (2n−1) ≤ gq (3n−2) ≤ γ_{3n}`) -/
theorem solveBasic_backward_gamma {n : Nat} (hn : 1 ≤ n) (hnu : ((3 * n : ℕ) : ℝ) * M.u < 1)
    {A : Mat (Fl M)} {a : Nat → Nat → Fl M} (hA : Mat.Is A n n a) {b x : Array (Fl M)}
    (hb : b.size = n) (h : Mat.solveBasic A b = .ok x) :
    ∃ (m' : Mat (Fl M)) (y : Array (Fl M)) (tr : GTrace (Fl M)),
      Mat.gaussT A b = .ok ((m', y), tr) ∧ Mat.backsolve m' y = .ok x ∧
      ∃ σ : Nat → Nat, PermOK n tr.perm σ ∧ ∃ ΔA : Nat → Nat → ℝ,
        (∀ i, i < n →
          ∑ j ∈ Finset.range n, ((a i j).val + ΔA i j) * (vf x j).val = (vf b i).val) ∧
        ∀ r c, r < n → c < n → |ΔA (tr.perm r) c|
          ≤ ((3 * n : ℕ) : ℝ) * M.u / (1 - ((3 * n : ℕ) : ℝ) * M.u) * absGLU n tr m' r c := by
  have hu0 := M.u_nonneg
  have hn1 : (1 : ℝ) ≤ n := by exact_mod_cast hn
  have h3 : ((3 * n : ℕ) : ℝ) = 3 * n := by push_cast; ring
  have hu : M.u < 1 := by rw [h3] at hnu; nlinarith
  obtain ⟨m', y, tr, hg, _, hbs, _, _, σ, hperm, _, ΔA, hsol, hbd⟩ :=
    solveBasic_backward hu hn hA hb h
  refine ⟨m', y, tr, hg, hbs, σ, hperm, ΔA, hsol, fun r c hr hc => (hbd r c hr hc).trans ?_⟩
  refine mul_le_mul_of_nonneg_right ?_ (absGLU_nonneg n tr m' r c)
  have e : n - 1 + (2 * n - 1) = 3 * n - 2 := by omega
  have h1 : M.gq (n - 1) + M.gq (2 * n - 1) ≤ M.gq (3 * n - 2) := by
    rw [← e, FlModel.gq_add]
    have := mul_nonneg (FlModel.gq_nonneg hu (n - 1)) (FlModel.gq_nonneg hu (2 * n - 1))
    linarith
  exact (h1.trans (FlModel.gq_mono hu (by omega))).trans (FlModel.gq_le_gamma (3 * n) hnu)

end Rounding

/-! ### non-vacuity -/

section Examples

/-- exact arithmetic is a model (`u = 0 < 1`); there all the constants vanish, `ΔA = 0`, and the exact
soundness theorem (`solveBasic_sound` of C01S) is recovered: `A x = b` -/
example {n : Nat} (hn : 1 ≤ n) {A : Mat (Fl FlModel.exact)} {a : Nat → Nat → Fl FlModel.exact}
    (hA : Mat.Is A n n a) {b x : Array (Fl FlModel.exact)} (hb : b.size = n)
    (h : Mat.solveBasic A b = .ok x) :
    x.size = n ∧ ∀ i, i < n →
      ∑ j ∈ Finset.range n, (a i j).val * (vf x j).val = (vf b i).val := by
  have hu : FlModel.exact.u < 1 := by simp [FlModel.exact]
  obtain ⟨m', y, tr, hg, _, _, hxs, _, σ, hperm, _, ΔA, hsol, hbd⟩ :=
    solveBasic_backward hu hn hA hb h
  refine ⟨hxs, fun i hi => ?_⟩
  rw [← hsol i hi]
  apply Finset.sum_congr rfl
  intro j hj
  obtain ⟨hσ, hπσ⟩ := hperm.2 i hi
  have := hbd (σ i) j hσ (Finset.mem_range.mp hj)
  rw [hπσ, FlModel.gq_exact, FlModel.gq_exact, add_zero, zero_mul] at this
  rw [abs_nonpos_iff.mp this, add_zero]

namespace Ex

/-! the `2 × 2` system of C01F, `[[1,2],[3,4]] x = [5,11]`, whose first column needs a row exchange,
evaluated in the exact model: `x = [1,2]`, `π = (0 1)`, `l̂₁₀ = 1/3`, `Û = [[3,4],[0,2/3]]`,
`ŷ = [11, 4/3]` -/

theorem solveBasic_A2_b2 : Mat.solveBasic A2 b2 = .ok #[⟨1⟩, ⟨2⟩] := by
  have h1 : ¬ A2.rows ≠ b2.size := by simp [A2, b2]
  have h2 : ¬ A2.rows ≠ A2.cols := by simp [A2]
  simp only [solveBasic, h1, h2, if_false]
  norm_num [A2, b2, gaussWithPivot, partialPivot, maxAbsInColumn, swapRows, swapElem, Vec.swap,
    elimRow, forM', List.range', Mat.get, Mat.set, aget, aset, bind, Except.bind, pure,
    Except.pure, E.add_eq, E.sub_eq, E.mul_eq, E.divM_eq, E.lt_eq, E.mag_eq, Fl.ext_iff,
    backsolve, usub]

/-- the instrumented elimination of that system: rows exchanged, multiplier `1/3` -/
theorem gaussT_A2_b2 : ∃ s, Mat.gaussT A2 b2 = .ok s ∧ s.2.reg = true ∧ s.2.perm 0 = 1 ∧
    s.2.perm 1 = 0 ∧ (s.2.mult 1 0).val = 1 / 3 ∧
    s.1.1 = ⟨#[⟨3⟩, ⟨4⟩, ⟨0⟩, ⟨2 / 3⟩], 2, 2⟩ ∧ s.1.2 = #[⟨11⟩, ⟨4 / 3⟩] := by
  norm_num [A2, b2, gaussT, gaussStepT, partialPivotT, elimRowT, GTrace.init, swapIdx,
    partialPivot, maxAbsInColumn, swapRows, swapElem, Vec.swap, elimRow,
    forM', List.range', Mat.get, Mat.set, aget, aset, bind, Except.bind, pure,
    Except.pure, E.add_eq, E.sub_eq, E.mul_eq, E.divM_eq, E.lt_eq, E.mag_eq, Fl.ext_iff, usub]

/-- the hypotheses of `solveBasic_backward` are satisfiable for a
concrete non-trivial system with a genuine row exchange, and its conclusion holds there -/
example : ∃ (A : Mat E) (b x : Array E), Mat.Is A 2 2 (Mat.ent A) ∧ b.size = 2 ∧
    FlModel.exact.u < 1 ∧ Mat.solveBasic A b = .ok x ∧
    ∃ (m' : Mat E) (y : Array E) (tr : GTrace E), Mat.gaussT A b = .ok ((m', y), tr) ∧
      tr.reg = true ∧ tr.perm 0 = 1 ∧ tr.perm 1 = 0 ∧ GLhat tr 1 0 = 1 / 3 ∧
      ∃ ΔA : Nat → Nat → ℝ,
        (∀ i, i < 2 →
          ∑ j ∈ Finset.range 2, ((Mat.ent A i j).val + ΔA i j) * (vf x j).val = (vf b i).val) ∧
        ∀ r c, r < 2 → c < 2 → |ΔA (tr.perm r) c|
          ≤ (FlModel.exact.gq (2 - 1) + FlModel.exact.gq (2 * 2 - 1)) * absGLU 2 tr m' r c := by
  have hu : FlModel.exact.u < 1 := by simp [FlModel.exact]
  have hA : Mat.Is A2 2 2 (Mat.ent A2) := Mat.WFn.is ⟨rfl, rfl, rfl⟩
  refine ⟨A2, b2, _, hA, rfl, hu, solveBasic_A2_b2, ?_⟩
  obtain ⟨m', y, tr, hg, _, _, _, _, σ, _, _, ΔA, hsol, hbd⟩ :=
    solveBasic_backward hu (by omega) hA rfl solveBasic_A2_b2
  obtain ⟨s, hs, h1, h2, h3, h4, _, _⟩ := gaussT_A2_b2
  rw [hg] at hs
  injection hs with hs
  subst hs
  refine ⟨m', y, tr, hg, h1, h2, h3, ?_, ΔA, hsol, hbd⟩
  rw [GLhat_apply, if_pos (by omega)]
  exact h4

/-! A NUMERICALLY SINGULAR SYSTEM IS REFUSED.  Model `fl x = (1+u) x`, `u = 2⁻¹⁰` (`FlModel.scale`);
`A = [[1,1,0],[1,s,1],[1,s,2]]` with `s = (1+u)²`, `b = [1,2,4]`.  Step 0 leaves the EXACT zeros
`fl(s − fl(fl(1/1)·1)) = 0` in column 1 of rows 1, 2 (and the NON-zero residues
`fl(1 − fl(fl(1/1)·1)) = −(1+u)((1+u)² − 1) ≈ −2u` in column 0, which nothing reads).  In step 1 the
pivot sub-column is exactly zero: the search returns the diagonal row `p = k = 1`, no rows are
exchanged, and the division `m₂₁ / m₁₁` by the exactly zero pivot is the `.error .arith` of the
abstract model (`0/0 = NaN` over IEEE): NO value is returned, so the backward error theorem is
vacuous here and nothing wrong is returned.  (With the original search, `max_index = 0`, rows 1 and 0
were exchanged at this point and `solve_basic` returned `x̂ ≈ [257.9, 1.002, 1.5005]`, for which every
admissible perturbation of row 0 of `A` has an entry `≥ 9/10`.) -/

theorem u10_nonneg : (0 : ℝ) ≤ 1 / 1024 := by norm_num
abbrev S10 := S (1 / 1024) u10_nonneg
theorem S.sub_eq (u : ℝ) (hu0 : 0 ≤ u) (a b : S u hu0) :
    a - b = ⟨(1 + u) * (a.val - b.val)⟩ := rfl

noncomputable def A3 : Mat S10 :=
  ⟨#[⟨1⟩, ⟨1⟩, ⟨0⟩, ⟨1⟩, ⟨1050625 / 1048576⟩, ⟨1⟩, ⟨1⟩, ⟨1050625 / 1048576⟩, ⟨2⟩], 3, 3⟩
noncomputable def b3 : Array S10 := #[⟨1⟩, ⟨2⟩, ⟨4⟩]

/-- the state after step 0: column 1 is exactly zero in rows 1 and 2, column 0 holds non-zero
residues there -/
theorem gaussStep0_A3_b3 : Mat.gaussStep (A3, b3) 0 =
    .ok (⟨#[⟨1⟩, ⟨1⟩, ⟨0⟩, ⟨-(2100225 / 1073741824)⟩, ⟨0⟩, ⟨1025 / 1024⟩,
        ⟨-(2100225 / 1073741824)⟩, ⟨0⟩, ⟨1025 / 512⟩], 3, 3⟩,
      #[⟨1⟩, ⟨1072690175 / 1073741824⟩, ⟨3222270975 / 1073741824⟩]) := by
  norm_num [A3, b3, gaussStep, partialPivot, maxAbsInColumn, swapRows, swapElem, Vec.swap, elimRow,
    forM', List.range', Mat.get, Mat.set, aget, aset, bind, Except.bind, pure,
    Except.pure, S.add_eq, S.sub_eq, S.mul_eq, S.divM_eq, S.lt_eq, S.mag_eq, Fl.ext_iff]

/-- the pivot search of step 1 on that state returns the diagonal row -/
theorem pivot1_A3 : Mat.maxAbsInColumn
    (⟨#[⟨1⟩, ⟨1⟩, ⟨0⟩, ⟨-(2100225 / 1073741824)⟩, ⟨0⟩, ⟨1025 / 1024⟩,
        ⟨-(2100225 / 1073741824)⟩, ⟨0⟩, ⟨1025 / 512⟩], 3, 3⟩ : Mat S10) 1 1 = .ok 1 := by
  norm_num [maxAbsInColumn, forM', List.range', Mat.get, aget, bind, Except.bind, pure,
    Except.pure, S.lt_eq, S.mag_eq]

/-- the elimination hits the exactly zero pivot: no state is returned -/
theorem gaussWithPivot_A3_b3 : Mat.gaussWithPivot A3 b3 = .error .arith := by
  norm_num [A3, b3, gaussWithPivot, partialPivot, maxAbsInColumn, swapRows, swapElem, Vec.swap,
    elimRow, forM', List.range', Mat.get, Mat.set, aget, aset, bind, Except.bind, pure,
    Except.pure, S.add_eq, S.sub_eq, S.mul_eq, S.divM_eq, S.lt_eq, S.mag_eq, Fl.ext_iff, usub]

/-- … hence `solve_basic` returns NO value on this numerically singular system (the original pivot
search made it return a vector with relative backward error `≈ 1`) -/
theorem solveBasic_A3_b3 : Mat.solveBasic A3 b3 = .error .arith := by
  have h1 : ¬ A3.rows ≠ b3.size := by simp [A3, b3]
  have h2 : ¬ A3.rows ≠ A3.cols := by simp [A3]
  simp only [solveBasic, h1, h2, if_false, gaussWithPivot_A3_b3, bind, Except.bind]

end Ex

end Examples

end Ohsl.Props.C01
