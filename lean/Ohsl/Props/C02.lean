/-
  Property C02 — determinant and inverse (model: Ohsl/Model/Solve.lean).
  Proved here: (S) non-square input is rejected by `determinant`, `inverse` and the LU
  factorisation, for ANY scalar type; both take the matrix by value in the model (the code takes
  `&self` and works on a clone — checked on the code by snapshot comparison in the harness).
-/
import Ohsl.Model.Solve
set_option linter.unusedSectionVars false
namespace Ohsl.Props.C02
open Ohsl Ohsl.Mat
variable {K : Type} [Add K] [Sub K] [Mul K] [Neg K] [Zero K] [One K] [BEq K] [ScalarExt K]

theorem luDecomp_rejects (m : Mat K) (h : m.rows ≠ m.cols) : ∃ e, luDecomp m = .error e := by
  exact ⟨.size, by simp [luDecomp, h]⟩

theorem determinant_rejects (m : Mat K) (h : m.rows ≠ m.cols) : determinant m = .error .size := by
  simp [determinant, luDecomp, h, bind, Except.bind]

theorem inverse_rejects (m : Mat K) (h : m.rows ≠ m.cols) : inverse m = .error .size := by
  simp [inverse, h]

end Ohsl.Props.C02
