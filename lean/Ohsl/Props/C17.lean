/-
  Property C17 — Newton iteration (model: Ohsl/Model/Newton.lean).
  Proved here, class (S): for EVERY user function and any scalar arithmetic the scalar iteration
  (real and complex) stops after at most `maxIter` iterations with exactly three evaluations per
  iteration; with a budget of zero nothing is evaluated and failure carries the guess; the result is
  a function of (f, tol, delta, maxIter, guess) only (the model is a pure function; on the code the
  configuration is `&self`, checked by `parameters()` before/after and by running twice).
  NOT proved: convergence from inside the basin of quadratic convergence (Newton–Kantorovich with a
  finite-difference derivative) — correspondence + sampled oracle only.
-/
import Ohsl.Model.Newton
set_option linter.unusedSectionVars false
namespace Ohsl.Props.C17
open Ohsl Ohsl.Newton
variable {K : Type} [Add K] [Sub K] [Mul K] [Neg K] [Div K] [Zero K] [One K] [BEq K] [ScalarExt K] [Transc K]

/-- evaluation count: the trace grows by 3 per iteration and by at most `3 * maxIter` overall -/
theorem scalar_bounded (f : K → K) (tol delta : K) :
    ∀ (n : Nat) (cur : K) (tr : List K),
      ∃ k, k ≤ n ∧ (solveScalar f tol delta n cur tr).2.length = tr.length + 3 * k ∧
        ((solveScalar f tol delta n cur tr).1.ok = false → k = n)
  | 0, cur, tr => ⟨0, Nat.le_refl _, by simp [solveScalar], fun _ => rfl⟩
  | n + 1, cur, tr => by
    unfold solveScalar
    simp only
    split
    · exact ⟨1, by omega, by simp, by simp⟩
    · obtain ⟨k, hk, hl, hf⟩ := scalar_bounded f tol delta n _ (tr ++ [cur + delta, cur - delta, cur])
      refine ⟨k + 1, by omega, ?_, ?_⟩
      · rw [hl]; simp; omega
      · intro h; rw [hf h]

theorem scalar_budget_zero (f : K → K) (tol delta guess : K) :
    solveScalar f tol delta 0 guess [] = (⟨false, guess⟩, []) := rfl

theorem cx_bounded (f : Cx K → Cx K) (tol delta : K) :
    ∀ (n : Nat) (cur : Cx K) (tr : List (Cx K)),
      ∃ k, k ≤ n ∧ (solveCx f tol delta n cur tr).2.length = tr.length + 3 * k ∧
        ((solveCx f tol delta n cur tr).1.ok = false → k = n)
  | 0, cur, tr => ⟨0, Nat.le_refl _, by simp [solveCx], fun _ => rfl⟩
  | n + 1, cur, tr => by
    unfold solveCx
    simp only
    split
    · exact ⟨1, by omega, by simp, by simp⟩
    · obtain ⟨k, hk, hl, hf⟩ := cx_bounded f tol delta n _ (tr ++ [cur + ⟨delta, 0⟩, cur - ⟨delta, 0⟩, cur])
      refine ⟨k + 1, by omega, ?_, ?_⟩
      · rw [hl]; simp; omega
      · intro h; rw [hf h]

/-- success is reported only when the last step met the stopping test `|dx| <= tol` -/
theorem scalar_success_char (f : K → K) (tol delta : K) :
    ∀ (n : Nat) (cur : K) (tr : List K), (solveScalar f tol delta n cur tr).1.ok = true →
      ∃ c : K, (solveScalar f tol delta n cur tr).1.x = c - f c / ((f (c + delta) - f (c - delta)) / ((1 + 1) * delta)) ∧
        Transc.le (Transc.fabs (f c / ((f (c + delta) - f (c - delta)) / ((1 + 1) * delta)))) tol = true
  | 0, cur, tr => by simp [solveScalar]
  | n + 1, cur, tr => by
    unfold solveScalar
    simp only
    split
    · rename_i h
      intro _
      exact ⟨cur, rfl, h⟩
    · intro h
      exact scalar_success_char f tol delta n _ _ h

end Ohsl.Props.C17
