/-
  Property C05 — tridiagonal matrix (model: Ohsl/Model/Tridiag.lean).
  Proved here, class (S) (any scalar type): element access maps (i,j) to one of the three
  diagonals and rejects everything else; transpose exchanges sub- and super-diagonal; the 1×1
  product is the diagonal entry alone; `solve` refuses a zero leading pivot and a right-hand side of
  the wrong length instead of returning a value.
-/
import Ohsl.Model.Tridiag
import Ohsl.Lemmas.MatIdx
set_option linter.unusedSectionVars false
namespace Ohsl.Props.C05
open Ohsl Ohsl.Tri
variable {K : Type} [Add K] [Sub K] [Mul K] [Neg K] [Zero K] [One K] [BEq K] [ScalarExt K]

/-- storage invariant: `sub`, `main`, `sup` have n-1, n, n-1 entries, n ≥ 1 -/
structure WF (t : Tri K) : Prop where
  pos : 1 ≤ t.n
  main : t.main.size = t.n
  sub : t.sub.size = t.n - 1
  sup : t.sup.size = t.n - 1

theorem withVecs_wf (sub main sup : Array K) (hn : 1 ≤ main.size) (h1 : sub.size = main.size - 1)
    (h2 : sup.size = main.size - 1) : ∃ t, withVecs sub main sup = .ok t ∧ WF t ∧ t.n = main.size := by
  refine ⟨⟨sub, main, sup, main.size⟩, ?_, ⟨hn, rfl, h1, h2⟩, rfl⟩
  simp [withVecs, usub, hn, h1, h2, bind, Except.bind, pure, Except.pure]

theorem withVecs_rejects (sub main sup : Array K) (h : main.size = 0 ∨ sub.size ≠ main.size - 1 ∨ sup.size ≠ main.size - 1) :
    ∃ e, withVecs sub main sup = .error e := by
  unfold withVecs usub
  by_cases h0 : 1 ≤ main.size
  · have h' : sub.size ≠ main.size - 1 ∨ sup.size ≠ main.size - 1 := by omega
    exact ⟨.size, by simp [h0, h', bind, Except.bind]⟩
  · exact ⟨.arith, by simp [h0, bind, Except.bind]⟩

/-- index operator: the three in-band cases, everything else is rejected -/
theorem get_spec (t : Tri K) (h : WF t) (i j : Nat) :
    (i < t.n → j = i → get t i j = aget t.main i) ∧
    (i < t.n → j + 1 = i → get t i j = aget t.sub j) ∧
    (j < t.n → i + 1 = j → get t i j = aget t.sup i) ∧
    ((i ≥ t.n ∨ j ≥ t.n ∨ (i ≠ j ∧ i ≠ j + 1 ∧ i + 1 ≠ j)) → get t i j = .error .range) := by
  refine ⟨?_, ?_, ?_, ?_⟩
  · intro hi hj
    subst hj
    have h0 : ¬ t.n ≤ j := by omega
    simp [Tri.get, h0]
  · intro hi hj
    subst hj
    have h1 : ¬ (j + 1 ≥ t.n ∨ j ≥ t.n) := by omega
    simp [Tri.get, h1]
  · intro hj hij
    subst hij
    have h1 : ¬ (i ≥ t.n ∨ i + 1 ≥ t.n) := by omega
    have h2 : ¬ i = i + 1 := by omega
    have h3 : ¬ i = i + 1 + 1 := by omega
    simp [Tri.get, h1, h2, h3]
  · intro hc
    unfold Tri.get
    by_cases h1 : i ≥ t.n ∨ j ≥ t.n
    · simp [h1]
    · have : i ≠ j ∧ i ≠ j + 1 ∧ i + 1 ≠ j := by
        rcases hc with hc | hc | hc
        · exact absurd (Or.inl hc) h1
        · exact absurd (Or.inr hc) h1
        · exact hc
      simp [h1, this.1, this.2.1, this.2.2]

/-- in-band reads of a well-formed matrix never fail -/
theorem get_inband_ok (t : Tri K) (h : WF t) (i j : Nat) (hi : i < t.n) (hj : j < t.n)
    (hb : i = j ∨ i = j + 1 ∨ i + 1 = j) : ∃ v, get t i j = .ok v := by
  rcases hb with hb | hb | hb
  · subst hb
    rw [(get_spec t h i i).1 hi rfl]
    exact ⟨_, Mat.aget_ok (by rw [h.main]; exact hi)⟩
  · rw [(get_spec t h i j).2.1 hi hb.symm]
    exact ⟨_, Mat.aget_ok (by rw [h.sub]; omega)⟩
  · rw [(get_spec t h i j).2.2.1 hj hb]
    exact ⟨_, Mat.aget_ok (by rw [h.sup]; omega)⟩

/-- transpose = exchange of sub- and super-diagonal, hence (Tᵀ)[i,j] = T[j,i] -/
theorem transpose_get (t : Tri K) (i j : Nat) : get (transpose t) i j = get t j i := by
  unfold Tri.get transpose
  by_cases h1 : i ≥ t.n ∨ j ≥ t.n
  · have h1' : j ≥ t.n ∨ i ≥ t.n := h1.symm
    simp [h1, h1']
  · have h1' : ¬ (j ≥ t.n ∨ i ≥ t.n) := fun h => h1 h.symm
    simp only [h1, h1', if_false]
    by_cases e : i = j
    · subst e; simp
    · have e' : ¬ j = i := fun h => e h.symm
      simp only [e, e', if_false]
      by_cases a : i = j + 1
      · subst a
        have : ¬ j = j + 1 + 1 := by omega
        simp [this]
      · by_cases b : i + 1 = j
        · subst b
          simp [a]
        · have : ¬ j = i + 1 := fun h => b h.symm
          have c : ¬ j + 1 = i := fun h => a h.symm
          simp [a, b, this, c]

theorem transpose_transpose (t : Tri K) : transpose (transpose t) = t := by
  cases t; rfl

/-- every size n ≥ 1 including n = 1: the 1×1 product is `main[0] * v[0]` -/
theorem mulVec_one (t : Tri K) (v : Array K) (hn : t.n = 1) (hv : v.size = 1) (m0 v0 : K)
    (hm : t.main[0]? = some m0) (hx : v[0]? = some v0) : mulVec t v = .ok #[m0 * v0] := by
  have e1 : aget t.main 0 = .ok m0 := Mat.aget_eq_ok.mpr hm
  have e2 : aget v 0 = .ok v0 := Mat.aget_eq_ok.mpr hx
  simp [mulVec, hn, hv, e1, e2, aset, bind, Except.bind, pure, Except.pure]

theorem mulVec_rejects (t : Tri K) (v : Array K) (h : t.n ≠ v.size) : mulVec t v = .error .size := by
  simp [mulVec, h]

/-- `solve` refuses instead of lying: wrong length, or a zero leading pivot -/
theorem solve_rejects_size (t : Tri K) (r : Array K) (h : t.n ≠ r.size) : solve t r = .error .size := by
  simp [solve, h]

theorem solve_refuses_zero_lead (t : Tri K) (r : Array K) (h : t.n = r.size) (m0 : K)
    (hm : t.main[0]? = some m0) (hz : (m0 == 0) = true) : solve t r = .error .zeroPivot := by
  have e1 : aget t.main 0 = .ok m0 := Mat.aget_eq_ok.mpr hm
  have : ¬ t.n ≠ r.size := by omega
  simp [solve, this, e1, hz, bind, Except.bind]

end Ohsl.Props.C05
