/-
  Property C09 — iterative solvers on well-posed systems; degenerate starts.
  Model: Ohsl/Model/Krylov.lean.
  Proved here (E): an initial guess that already solves the system, and a zero right-hand side with
  a zero guess, are accepted as solved — `Ok(0)` with `x` untouched — by all four solvers (for
  BiCG this needs the initial residual test of the `fix:` commit), under the stated hypotheses on
  the norm and the comparison: `norm2 0 = 0`, `0 / d = 0`, `le 0 tol`.
  NOT proved here: convergence and accuracy. C09G proves finite termination, exactness and optimality
  of CG on SPD systems in exact arithmetic; C09A the forward-error clause (success ⇒ within κ·tol of
  the direct solution) for all four solvers over ℝ. Convergence of BiCG / BiCGSTAB / QMR is false in
  general (Lanczos breakdown: known finding) and everything in floating point is class (F).
-/
import Ohsl.Props.C08
set_option linter.unusedSectionVars false
set_option linter.unusedVariables false
namespace Ohsl.Props.C09
open Ohsl Ohsl.Krylov Ohsl.Props.C08

variable {K V : Type} [Field K] [DecidableEq K] [Transc K] [AddCommGroup V] [Module K V]
variable (A : V →ₗ[K] V) (At : V → V) (dot : V → V → K) (norm2 : V → K)

/-- exact initial guess: every solver answers `Ok(0)` and leaves `x` untouched -/
theorem exact_guess (b x : V) (maxIter : Nat) (tol : K) (itol : Nat)
    (hsol : A x = b) (hn0 : norm2 0 = 0) (hle : Transc.le (0 : K) tol = true) :
    let o := modOps A At dot norm2
    (solveCG o b x maxIter tol).ok = true ∧ (solveCG o b x maxIter tol).iters = 0 ∧ (solveCG o b x maxIter tol).x = x ∧
    (solveBiCG o b x maxIter tol itol).ok = true ∧ (solveBiCG o b x maxIter tol itol).iters = 0 ∧ (solveBiCG o b x maxIter tol itol).x = x ∧
    (solveBiCGSTAB o b x maxIter tol).ok = true ∧ (solveBiCGSTAB o b x maxIter tol).iters = 0 ∧ (solveBiCGSTAB o b x maxIter tol).x = x ∧
    (solveQMR o b x maxIter tol).ok = true ∧ (solveQMR o b x maxIter tol).iters = 0 ∧ (solveQMR o b x maxIter tol).x = x := by
  intro o
  have hr : o.sub b (o.A x) = 0 := by simp [o, modOps, hsol]
  have hres : ∀ d : K, Transc.le (o.norm2 (o.sub b (o.A x)) / d) tol = true := by
    intro d; rw [hr]; show Transc.le (norm2 0 / d) tol = true; rw [hn0, zero_div]; exact hle
  have hbi : Transc.le (bicgErr o itol (o.sub b (o.A x)) (o.sub b (o.A x)) (guardNorm (o.norm2 b))) tol = true := by
    unfold bicgErr; split <;> exact hres _
  refine ⟨?_, ?_, ?_, ?_, ?_, ?_, ?_, ?_, ?_, ?_, ?_, ?_⟩ <;>
    first
      | (simp only [solveCG, hres, if_true])
      | (simp only [solveBiCG, hbi, if_true])
      | (simp only [solveBiCGSTAB, hres, if_true])
      | (simp only [solveQMR, hres, if_true])

/-- zero right-hand side with a zero guess is the special case `A 0 = 0 = b` -/
theorem zero_rhs (maxIter : Nat) (tol : K) (hn0 : norm2 0 = 0) (hle : Transc.le (0 : K) tol = true) :
    let o := modOps A At dot norm2
    (solveCG o 0 0 maxIter tol).ok = true ∧ (solveCG o 0 0 maxIter tol).x = 0 ∧
    (solveBiCG o 0 0 maxIter tol 1).ok = true ∧ (solveBiCG o 0 0 maxIter tol 1).x = 0 ∧
    (solveBiCGSTAB o 0 0 maxIter tol).ok = true ∧ (solveBiCGSTAB o 0 0 maxIter tol).x = 0 ∧
    (solveQMR o 0 0 maxIter tol).ok = true ∧ (solveQMR o 0 0 maxIter tol).x = 0 := by
  have h := exact_guess A At dot norm2 (0 : V) 0 maxIter tol 1 (map_zero A) hn0 hle
  exact ⟨h.1, h.2.2.1, h.2.2.2.1, h.2.2.2.2.2.1, h.2.2.2.2.2.2.1, h.2.2.2.2.2.2.2.2.1, h.2.2.2.2.2.2.2.2.2.1,
    h.2.2.2.2.2.2.2.2.2.2.2⟩

end Ohsl.Props.C09
