/-
  Property C12 (part D) — polynomial long division terminates and is correct
  (model: Ohsl/Model/Poly.lean `divStep`, `divLoop`, `polydiv`; helper lemmas in
  Ohsl/Lemmas/PolyDiv.lean).

  (S) For ANY scalar type with arbitrary operations (in particular IEEE floats, where the leading
      terms do not cancel arithmetically): because the leading coefficient of the remainder is
      removed *structurally*, every step shortens the remainder, so for a dividend with at most
      1000 coefficients `polydiv` never reports "exceeded maximum iterations" (`none`) and never
      panics; the remainder is zero or shorter than the divisor.
      Assumptions (explicit): the division of leading coefficients does not panic, `0 == 0`.
  (E) Over a field: `u = q·v + r` in `Polynomial K`, and `deg r < deg v`.
-/
import Ohsl.Props.C12
import Ohsl.Lemmas.PolyDiv
import Ohsl.Model.Inst
set_option linter.unusedSectionVars false
set_option linter.unusedVariables false
namespace Ohsl.Props.C12
open Ohsl Ohsl.Poly Ohsl.PolyDiv

section Structural
variable {K : Type} [Add K] [Sub K] [Mul K] [Neg K] [Zero K] [One K] [BEq K] [ScalarExt K]

/-- One division step succeeds as soon as the division of the two leading coefficients does, and
    the remainder gets strictly shorter (a single coefficient stays a single coefficient, but is
    then the zero polynomial). Quotient and remainder stay non-empty. -/
theorem divStep_size (v q r : Array K) (hr : r.size ≥ v.size) (hv : v.size ≥ 1)
    (h00 : ((0 : K) == 0) = true)
    (hdiv : ∀ a lv : K, v[v.size - 1]? = some lv → ∃ c, divM a lv = .ok c) :
    ∃ q' r', divStep v q r = .ok (q', r') ∧ r'.size ≤ max 1 (r.size - 1) ∧ 1 ≤ r'.size ∧
      1 ≤ q'.size ∧ (r.size = 1 → isZero r' = true) := by
  obtain ⟨c, hc⟩ := hdiv (r[r.size - 1]'(by omega)) (v[v.size - 1]'(by omega)) (by simp)
  refine ⟨trimA (stepQ0 v q r c), trimA (stepR0 v r c), ?_, ?_, ?_, ?_, ?_⟩
  · rw [divStep_eq v q r hv hr, hc]; rfl
  · exact stepR_size_le v r c h00 hv hr
  · exact trimA_size_pos _ (by rw [stepR0_size v r c hv hr]; omega)
  · exact trimA_size_pos _ (stepQ0_size_pos v q r c)
  · intro h1
    rw [stepR_single v r c hv hr h1]
    simpa [isZero] using h00

/-- `r'.size < r.size ∨ (r'.size = 1 ∧ r.size = 1)` form of the size drop -/
theorem divStep_size_lt (v q r : Array K) (hr : r.size ≥ v.size) (hv : v.size ≥ 1)
    (h00 : ((0 : K) == 0) = true)
    (hdiv : ∀ a lv : K, v[v.size - 1]? = some lv → ∃ c, divM a lv = .ok c) :
    ∃ q' r', divStep v q r = .ok (q', r') ∧ (r'.size < r.size ∨ (r'.size = 1 ∧ r.size = 1)) := by
  obtain ⟨q', r', h, hle, hpos, _, _⟩ := divStep_size v q r hr hv h00 hdiv
  refine ⟨q', r', h, ?_⟩
  omega

/-- The loop: started with iteration counter `count` and enough fuel, it returns `some` as soon
    as `count + (r.size + 1 - v.size) ≤ 1000` (the number of steps still possible from `r`). -/
theorem divLoop_terminates (v : Array K) (hv : v.size ≥ 1) (h00 : ((0 : K) == 0) = true)
    (hdiv : ∀ a lv : K, v[v.size - 1]? = some lv → ∃ c, divM a lv = .ok c) :
    ∀ (fuel count : Nat) (q r : Array K),
      count + (if isZero r then 0 else r.size + 1 - v.size) ≤ 1000 →
      (if isZero r then 0 else r.size + 1 - v.size) + 1 ≤ fuel →
      ∃ q' r', divLoop v fuel count q r = .ok (some (q', r')) ∧
        (isZero r' = true ∨ r'.size < v.size) := by
  intro fuel
  induction fuel with
  | zero => intro count q r _ h; omega
  | succ fuel ih =>
    intro count q r hc hf
    unfold divLoop
    by_cases hz : isZero r = true
    · exact ⟨q, r, by simp [hz], Or.inl hz⟩
    · by_cases hs : v.size ≤ r.size
      · obtain ⟨q', r', hstep, hle, hpos, _, hone⟩ := divStep_size v q r hs hv h00 hdiv
        have hz' : isZero r = false := by simpa using hz
        simp only [hz', Bool.false_eq_true, if_false] at hc hf
        have hcnt : ¬ (count + 1 > 1000) := by omega
        have hpot : (if isZero r' then 0 else r'.size + 1 - v.size) ≤ r.size - v.size := by
          by_cases h1 : r.size = 1
          · simp [hone h1]
          · split
            · omega
            · omega
        obtain ⟨q'', r'', hl, hfin⟩ := ih (count + 1) q' r' (by omega) (by omega)
        refine ⟨q'', r'', ?_, hfin⟩
        have hg : (!(isZero r) && decide (r.size ≥ v.size)) = true := by simp [hz, hs]
        rw [if_pos hg, hstep]
        simp only [bind, Except.bind]
        rw [if_neg hcnt]
        exact hl
      · refine ⟨q, r, ?_, Or.inr (by omega)⟩
        have hg : ¬ ((!(isZero r) && decide (r.size ≥ v.size)) = true) := by simp [hs]
        rw [if_neg hg]

/-- **Termination of `polydiv`, any scalar type.** If the divisor is non-empty and not the zero
    polynomial, `deg u − deg v < 1000` (sharp: a DENSE dividend of 1001 coefficients, e.g. all ones, over the constant divisor 1 is reported as an error; `x^1000 / 1` itself is not, its remainder vanishes after one step), `0 == 0`, and
    dividing by the leading coefficient of the divisor does not panic, then `polydiv` returns a quotient and a remainder
    — never "exceeded maximum iterations", never a panic — and the remainder is zero or shorter
    than the divisor. No algebraic law is used: this holds for floats whose leading terms do not
    cancel. -/
theorem polydiv_terminates_of_lead (u v : Array K) (hv : v.size ≥ 1) (hz : isZero v = false)
    (hu : u.size < v.size + 1000) (h00 : ((0 : K) == 0) = true)
    (hdiv : ∀ a lv : K, v[v.size - 1]? = some lv → ∃ c, divM a lv = .ok c) :
    ∃ q r, polydiv u v = .ok (some (q, r)) ∧ (isZero r = true ∨ r.size < v.size) := by
  have h0 : v.size ≠ 0 := by omega
  unfold polydiv
  rw [if_neg h0, hz]
  simp only [Bool.false_eq_true, if_false]
  apply divLoop_terminates v hv h00 hdiv
  · split <;> omega
  · split <;> omega

/-- **Termination of `polydiv`** for a scalar type whose division never panics (f64). -/
theorem polydiv_terminates (u v : Array K) (hv : v.size ≥ 1) (hz : isZero v = false)
    (hu : u.size ≤ 1000) (h00 : ((0 : K) == 0) = true)
    (hdiv : ∀ a b : K, ∃ c, divM a b = .ok c) :
    ∃ q r, polydiv u v = .ok (some (q, r)) ∧ (isZero r = true ∨ r.size < v.size) :=
  polydiv_terminates_of_lead u v hv hz (by omega) h00 (fun a lv _ => hdiv a lv)

/-- instance at IEEE doubles: the division hypothesis is discharged; `0.0 == 0.0` is a fact about
    the opaque `Float.beq` that the kernel cannot evaluate, so it stays a hypothesis -/
theorem polydiv_terminates_float (u v : Array Float) (hv : v.size ≥ 1)
    (hz : isZero v = false) (hu : u.size ≤ 1000) (h00 : ((0 : Float) == 0) = true) :
    ∃ q r, polydiv u v = .ok (some (q, r)) ∧ (isZero r = true ∨ r.size < v.size) :=
  polydiv_terminates u v hv hz hu h00 (fun a b => ⟨a / b, rfl⟩)

/-- the hypotheses are satisfiable: `(x² + 2x + 3) / (2x + 1)` over `Rat` -/
example : ∃ q r, polydiv (#[3, 2, 1] : Array Rat) #[1, 2] = .ok (some (q, r)) ∧
    (isZero r = true ∨ r.size < (#[1, 2] : Array Rat).size) := by
  apply polydiv_terminates_of_lead
  · simp
  · simp [isZero]
  · simp
  · simp
  · intro a lv h
    have : lv = 2 := by simpa using h.symm
    subst this
    exact ⟨a / 2, by simp [divM]⟩

end Structural

section Exact
open Polynomial
variable {K : Type} [Field K] [LinearOrder K]
attribute [local instance] Ohsl.Alg.scalarExt

/-- a successful division step preserves `q·v + r` (as Mathlib polynomials) -/
theorem divStep_spec (v q r q' r' : Array K) (hv : v.size ≥ 1) (hr : r.size ≥ v.size)
    (h : divStep v q r = .ok (q', r')) :
    toPoly q' * toPoly v + toPoly r' = toPoly q * toPoly v + toPoly r := by
  rw [divStep_eq v q r hv hr, Ohsl.Alg.divM_eq] at h
  by_cases hlv : v[v.size - 1]'(by omega) = 0
  · rw [if_pos hlv] at h; cases h
  · rw [if_neg hlv] at h
    simp only [Except.bind, Except.ok.injEq, Prod.mk.injEq] at h
    obtain ⟨rfl, rfl⟩ := h
    rw [toPoly_trimA, toPoly_trimA, toPoly_stepQ0, toPoly_stepR0 v r hv hr hlv]
    ring

/-- loop invariant `q·v + r = const`, and the exit condition -/
theorem divLoop_spec (v : Array K) (hv : v.size ≥ 1) :
    ∀ (fuel count : Nat) (q r q' r' : Array K), divLoop v fuel count q r = .ok (some (q', r')) →
      toPoly q' * toPoly v + toPoly r' = toPoly q * toPoly v + toPoly r ∧
        (isZero r' = true ∨ r'.size < v.size) := by
  intro fuel
  induction fuel with
  | zero => intro count q r q' r' h; simp [divLoop] at h
  | succ fuel ih =>
    intro count q r q' r' h
    unfold divLoop at h
    split at h
    · rename_i hg
      have hs : v.size ≤ r.size := by
        simp only [Bool.and_eq_true, decide_eq_true_eq] at hg; exact hg.2
      cases hd : divStep v q r with
      | error e => rw [hd] at h; simp [bind, Except.bind] at h
      | ok p =>
        obtain ⟨q1, r1⟩ := p
        rw [hd] at h
        simp only [bind, Except.bind] at h
        split at h
        · simp at h
        · obtain ⟨h1, h2⟩ := ih (count + 1) q1 r1 q' r' h
          exact ⟨by rw [h1, divStep_spec v q r q1 r1 hv hs hd], h2⟩
    · rename_i hg
      simp only [Except.ok.injEq, Option.some.injEq, Prod.mk.injEq] at h
      obtain ⟨rfl, rfl⟩ := h
      refine ⟨rfl, ?_⟩
      simp only [Bool.and_eq_true, decide_eq_true_eq, not_and,
        Bool.not_eq_eq_eq_not, Bool.not_true] at hg
      by_cases hz' : isZero r = true
      · exact Or.inl hz'
      · right
        have : isZero r = false := by simpa using hz'
        have := hg this; omega

/-- **Correctness of `polydiv` over a field**: whenever a quotient and a remainder are returned,
    `u = q·v + r` in `Polynomial K`, and the remainder is the zero polynomial or has fewer
    coefficients than the divisor. (No hypothesis on the leading coefficient of `v` is needed:
    over an exact field a division by a zero leading coefficient is a panic, not a result.) -/
theorem polydiv_spec (u v q r : Array K) (h : polydiv u v = .ok (some (q, r))) :
    toPoly u = toPoly q * toPoly v + toPoly r ∧ (toPoly r = 0 ∨ r.size < v.size) := by
  unfold polydiv at h
  split at h
  · simp at h
  · rename_i h0
    split at h
    · simp at h
    · obtain ⟨h1, h2⟩ := divLoop_spec v (by omega) 1002 0 #[] u q r h
      refine ⟨by rw [h1]; simp, ?_⟩
      rcases h2 with h2 | h2
      · exact Or.inl (toPoly_isZero r h2)
      · exact Or.inr h2

/-- a divisor whose last stored coefficient is non-zero is a non-zero polynomial -/
theorem toPoly_ne_zero_of_lead (v : Array K) (hlead : v[v.size - 1]?.getD 0 ≠ 0) : toPoly v ≠ 0 := by
  intro e; apply hlead; rw [← coeff_toPoly, e, coeff_zero]

/-- degree statement: if the divisor is trimmed (its last coefficient is non-zero) the remainder
    has strictly smaller degree (`degree 0 = ⊥`) -/
theorem polydiv_degree_lt (u v q r : Array K) (hlead : v[v.size - 1]?.getD 0 ≠ 0)
    (h : polydiv u v = .ok (some (q, r))) : (toPoly r).degree < (toPoly v).degree := by
  obtain ⟨_, h2⟩ := polydiv_spec u v q r h
  have hv0 := toPoly_ne_zero_of_lead v hlead
  rcases h2 with h2 | h2
  · rw [h2, degree_zero]; exact bot_lt_iff_ne_bot.2 (fun e => hv0 (degree_eq_bot.1 e))
  · calc (toPoly r).degree < (r.size : WithBot ℕ) := degree_toPoly_lt r
      _ ≤ ((v.size - 1 : ℕ) : WithBot ℕ) := by exact_mod_cast (by omega : r.size ≤ v.size - 1)
      _ ≤ _ := le_degree_toPoly v hlead

/-- hence the results are Mathlib's Euclidean quotient and remainder -/
theorem polydiv_eq_div_mod (u v q r : Array K) (hlead : v[v.size - 1]?.getD 0 ≠ 0)
    (h : polydiv u v = .ok (some (q, r))) :
    toPoly q = toPoly u / toPoly v ∧ toPoly r = toPoly u % toPoly v :=
  div_mod_unique _ _ _ _ (toPoly_ne_zero_of_lead v hlead) (polydiv_spec u v q r h).1
    (polydiv_degree_lt u v q r hlead h)

/-- **Total correctness over a field**: for a trimmed divisor and `deg u − deg v < 1000`
    `polydiv` returns `q`, `r` with `u = q·v + r` and `deg r < deg v`. -/
theorem polydiv_total (u v : Array K) (hlead : v[v.size - 1]?.getD 0 ≠ 0) (hu : u.size < v.size + 1000) :
    ∃ q r, polydiv u v = .ok (some (q, r)) ∧ toPoly u = toPoly q * toPoly v + toPoly r ∧
      (toPoly r).degree < (toPoly v).degree ∧
      toPoly q = toPoly u / toPoly v ∧ toPoly r = toPoly u % toPoly v := by
  have hv : v.size ≥ 1 := by
    by_contra hc
    have : v.size = 0 := by omega
    apply hlead; simp [this]
  have hz : isZero v = false := by
    by_contra hc
    have hc' : isZero v = true := by simpa using hc
    exact toPoly_ne_zero_of_lead v hlead (toPoly_isZero v hc')
  obtain ⟨q, r, h, _⟩ := polydiv_terminates_of_lead u v hv hz hu (by simp) (by
    intro a lv hl
    have : lv ≠ 0 := by rw [hl] at hlead; simpa using hlead
    exact ⟨a / lv, Ohsl.Alg.divM_ne this⟩)
  exact ⟨q, r, h, (polydiv_spec u v q r h).1, polydiv_degree_lt u v q r hlead h,
    polydiv_eq_div_mod u v q r hlead h⟩

end Exact

end Ohsl.Props.C12
