/-
  Property C13 (part F) — rounding-error bounds for the complex arithmetic of `Ohsl.Cx`
  (Ohsl/Model/Cx.lean) in the "rounded reals" interpretation `Fl M` of the model
  (Ohsl/Lemmas/Rounding.lean): the SAME model definitions `Cx.add/sub/mul/div`, the mixed
  complex/real forms, `absSqr`, `conj`, instantiated at real numbers whose `+ - * /` round with
  relative error `≤ u` (standard model of floating-point arithmetic, no overflow / underflow).
  This is the "agrees with the exact result to a few ulps over f64" half of C13.

  The transfer to the Rust `f64` code rests on the ASSUMPTION stated in Rounding.lean (IEEE binary64
  without overflow/underflow satisfies `FlModel` with `u = 2⁻⁵³`); it is not proved here.

  Notation: `z = a + i b`, `w = c + i d` (the `.val`s of the components), `val : Cx (Fl M) → ℂ`,
  `M.gam k = (1+u)^k - 1`, `divC M = (1+u)^3 / (1-u)^2 - 1` (`= 5u + O(u²)`; `≤ M.gam 6` when
  `u ≤ 1/3`, `≤ γ₅ = 5u/(1-5u)` when `5u < 1`).

  * `add_rounding`, `sub_rounding`  componentwise relative error `≤ u`, hence
                          `‖fl(z±w) - (z±w)‖ ≤ u ‖z±w‖`.
  * `mul_rounding`        `|Re fl(zw) - Re zw| ≤ gam 2 (|ac|+|bd|)`, `|Im …| ≤ gam 2 (|ad|+|bc|)`,
                          `‖fl(zw) - zw‖ ≤ √2 · gam 2 · ‖z‖ ‖w‖`  (the classical `√2 γ₂`); no
                          hypothesis on `u`.  `mul_rounding_gamma`: the same with `γ₂ = 2u/(1-2u)`.
  * `div_ok_iff_fl`       for `u < 1`: `z / w` returns a value iff `w ≠ 0`, (`div_rejects_fl`: an
                          exact zero divisor is the error `arith`, for every `u`).
  * `div_rounding_components`, `div_rounding`   for `u < 1`, `w ≠ 0`: the call returns `.ok q`,
                          `|Re q - (ac+bd)/(c²+d²)| ≤ divC (|ac|+|bd|)/(c²+d²)`,
                          `|Im q - (bc-ad)/(c²+d²)| ≤ divC (|bc|+|ad|)/(c²+d²)`,
                          `(1-u)²(c²+d²) ≤ fl(c²+d²) ≤ (1+u)²(c²+d²)`, and
                          `‖q - z/w‖ ≤ √2 · divC · ‖z/w‖`.
    `div_rounding_gam`    (`u ≤ 1/3`)  `‖q - z/w‖ ≤ √2 · gam 6 · ‖z/w‖`;
    `div_rounding_gamma`  (`5u < 1`)   `‖q - z/w‖ ≤ √2 · 5u/(1-5u) · ‖z/w‖`.
  * `addR_rounding`, `subR_rounding`, `mulR_rounding`, `divR_rounding`  mixed forms: relative error
                          `≤ u` componentwise and normwise.
  * `absSqr_rounding`     `|fl(|z|²) - |z|²| ≤ gam 2 · |z|²`;  `conj_exact`, `neg_exact`.
  * `assign_eq_binary_fl` the compound-assignment forms return exactly the binary forms' values.
-/
import Ohsl.Props.C13
import Ohsl.Lemmas.Rounding
import Mathlib.Analysis.Complex.Norm
import Mathlib.Tactic.Ring
import Mathlib.Tactic.Linarith
import Mathlib.Tactic.Positivity
import Mathlib.Tactic.FieldSimp
import Mathlib.Tactic.LinearCombination
set_option linter.unusedSectionVars false
set_option linter.unusedVariables false
namespace Ohsl.Props.C13
open Ohsl Ohsl.Cx

section Rounding
variable {M : FlModel}

/-- the complex number represented by a model value over the rounded reals -/
noncomputable def val (z : Cx (Fl M)) : ℂ := ⟨z.re.val, z.im.val⟩

@[simp] theorem val_re (z : Cx (Fl M)) : (val z).re = z.re.val := rfl
@[simp] theorem val_im (z : Cx (Fl M)) : (val z).im = z.im.val := rfl

/-- the constant of the division: three roundings in the numerator path (product, sum, quotient)
over two in the denominator path (square, sum): `(1+u)^3/(1-u)^2 - 1 = 5u + O(u²)` -/
noncomputable def divC (M : FlModel) : ℝ := (1 + M.u) ^ 3 / (1 - M.u) ^ 2 - 1

/-! ### real-number helpers -/

/-- two terms rounded once, then a rounded sum: `gam 2` relative to `|p| + |q|` -/
theorem two_term_err (M : FlModel) (p q P Q S : ℝ) (hP : |P - p| ≤ M.u * |p|)
    (hQ : |Q - q| ≤ M.u * |q|) (hS : |S - (P + Q)| ≤ M.u * |P + Q|) :
    |S - (p + q)| ≤ M.gam 2 * (|p| + |q|) := by
  have hu := M.u_nonneg
  have hg : M.gam 2 = 2 * M.u + M.u ^ 2 := by simp only [FlModel.gam]; ring
  have hP' : |P| ≤ (1 + M.u) * |p| := by
    have : |P| ≤ |P - p| + |p| := by simpa using abs_add_le (P - p) p
    linarith
  have hQ' : |Q| ≤ (1 + M.u) * |q| := by
    have : |Q| ≤ |Q - q| + |q| := by simpa using abs_add_le (Q - q) q
    linarith
  have hPQ : |P + Q| ≤ (1 + M.u) * (|p| + |q|) := (abs_add_le _ _).trans (by linarith)
  have h1 : M.u * |P + Q| ≤ M.u * ((1 + M.u) * (|p| + |q|)) := mul_le_mul_of_nonneg_left hPQ hu
  have e : S - (p + q) = (S - (P + Q)) + ((P - p) + (Q - q)) := by ring
  rw [e, hg]
  have h2 := abs_add_le (S - (P + Q)) ((P - p) + (Q - q))
  have h3 := abs_add_le (P - p) (Q - q)
  nlinarith

/-- `fl x = x e` with `1 - u ≤ e ≤ 1 + u` -/
theorem exists_factor (M : FlModel) (x : ℝ) :
    ∃ e, (1 - M.u ≤ e ∧ e ≤ 1 + M.u) ∧ M.fl x = x * e := by
  obtain ⟨δ, hδ, h⟩ := M.exists_delta x
  have := abs_le.mp hδ
  exact ⟨1 + δ, ⟨by linarith, by linarith⟩, h⟩

/-- the product of two factors in `[1-u, 1+u]` lies in `[(1-u)², (1+u)²]` (for `u ≤ 1`) -/
theorem factor_mul (M : FlModel) (hu : M.u ≤ 1) (e f : ℝ) (he : 1 - M.u ≤ e ∧ e ≤ 1 + M.u)
    (hf : 1 - M.u ≤ f ∧ f ≤ 1 + M.u) :
    (1 - M.u) ^ 2 ≤ e * f ∧ e * f ≤ (1 + M.u) ^ 2 := by
  have h0 : 0 ≤ 1 - M.u := by linarith
  have he0 : 0 ≤ e := h0.trans he.1
  have hf0 : 0 ≤ f := h0.trans hf.1
  constructor
  · rw [sq]; exact mul_le_mul he.1 hf.1 h0 he0
  · rw [sq]; exact mul_le_mul he.2 hf.2 hf0 (by linarith)

/-- a factor in `[(1-u)², (1+u)²]` times one in `[1-u, 1+u]` lies in `[(1-u)³, (1+u)³]` -/
theorem factor_mul3 (M : FlModel) (hu : M.u ≤ 1) (α e : ℝ)
    (hα : (1 - M.u) ^ 2 ≤ α ∧ α ≤ (1 + M.u) ^ 2) (he : 1 - M.u ≤ e ∧ e ≤ 1 + M.u) :
    (1 - M.u) ^ 3 ≤ α * e ∧ α * e ≤ (1 + M.u) ^ 3 := by
  have h0 : 0 ≤ 1 - M.u := by linarith
  have he0 : 0 ≤ e := h0.trans he.1
  have hα0 : 0 ≤ α := (sq_nonneg _).trans hα.1
  constructor
  · rw [pow_succ]; exact mul_le_mul hα.1 he.1 h0 hα0
  · rw [pow_succ]; exact mul_le_mul hα.2 he.2 he0 (sq_nonneg _)

/-- `fl (fl x + fl y) = x α + y β` with `α, β ∈ [(1-u)², (1+u)²]` -/
theorem two_term_factor (M : FlModel) (hu : M.u ≤ 1) (x y : ℝ) :
    ∃ α β, ((1 - M.u) ^ 2 ≤ α ∧ α ≤ (1 + M.u) ^ 2) ∧ ((1 - M.u) ^ 2 ≤ β ∧ β ≤ (1 + M.u) ^ 2) ∧
      M.fl (M.fl x + M.fl y) = x * α + y * β := by
  obtain ⟨e1, h1, g1⟩ := exists_factor M x
  obtain ⟨e2, h2, g2⟩ := exists_factor M y
  obtain ⟨e3, h3, g3⟩ := exists_factor M (M.fl x + M.fl y)
  refine ⟨e1 * e3, e2 * e3, factor_mul M hu _ _ h1 h3, factor_mul M hu _ _ h2 h3, ?_⟩
  rw [g3, g1, g2]; ring

/-- `fl (fl x - fl y) = x α - y β` with `α, β ∈ [(1-u)², (1+u)²]` -/
theorem two_term_factor_sub (M : FlModel) (hu : M.u ≤ 1) (x y : ℝ) :
    ∃ α β, ((1 - M.u) ^ 2 ≤ α ∧ α ≤ (1 + M.u) ^ 2) ∧ ((1 - M.u) ^ 2 ≤ β ∧ β ≤ (1 + M.u) ^ 2) ∧
      M.fl (M.fl x - M.fl y) = x * α - y * β := by
  obtain ⟨e1, h1, g1⟩ := exists_factor M x
  obtain ⟨e2, h2, g2⟩ := exists_factor M y
  obtain ⟨e3, h3, g3⟩ := exists_factor M (M.fl x - M.fl y)
  refine ⟨e1 * e3, e2 * e3, factor_mul M hu _ _ h1 h3, factor_mul M hu _ _ h2 h3, ?_⟩
  rw [g3, g1, g2]; ring

theorem divC_nonneg (M : FlModel) (hu : M.u < 1) : 0 ≤ divC M := by
  have h0 := M.u_nonneg
  have h1 : 0 < (1 - M.u) ^ 2 := pow_pos (by linarith) 2
  rw [divC, sub_nonneg, le_div_iff₀ h1]
  nlinarith [pow_nonneg h0 2, pow_nonneg h0 3]

/-- a numerator factor in `[(1-u)³, (1+u)³]` over a denominator in `[(1-u)² D, (1+u)² D]` -/
theorem factor_quot (M : FlModel) (hu : M.u < 1) (g den D : ℝ)
    (hg : (1 - M.u) ^ 3 ≤ g ∧ g ≤ (1 + M.u) ^ 3) (hD : 0 < D)
    (hden : (1 - M.u) ^ 2 * D ≤ den ∧ den ≤ (1 + M.u) ^ 2 * D) :
    |g / den - 1 / D| ≤ divC M / D := by
  have h0 := M.u_nonneg
  have hm : 0 < 1 - M.u := by linarith
  have hm2 : 0 < (1 - M.u) ^ 2 := by positivity
  have hden0 : 0 < den := lt_of_lt_of_le (mul_pos hm2 hD) hden.1
  have hg0 : 0 ≤ g := (pow_nonneg hm.le 3).trans hg.1
  set U := (1 + M.u) ^ 3 / (1 - M.u) ^ 2 with hU
  have hUm : U * (1 - M.u) ^ 2 = (1 + M.u) ^ 3 := by rw [hU]; field_simp
  have hU0 : 0 ≤ U := by rw [hU]; positivity
  have e1 : g / den - 1 / D = (g * D - den) / (den * D) := by field_simp
  have e2 : divC M / D = (U - 1) * den / (den * D) := by
    rw [divC, ← hU]; field_simp
  have hdD : 0 < den * D := mul_pos hden0 hD
  rw [e1, e2, abs_div, abs_of_pos hdD, div_le_div_iff_of_pos_right hdD, abs_le]
  constructor
  · -- (2 - U) den ≤ g D
    have key : (2 - U) * (1 + M.u) ^ 2 ≤ (1 - M.u) ^ 3 := by
      have e : (2 - U) * (1 + M.u) ^ 2 * (1 - M.u) ^ 2
          = 2 * (1 + M.u) ^ 2 * (1 - M.u) ^ 2 - (1 + M.u) ^ 5 := by
        linear_combination (-(1 + M.u) ^ 2) * hUm
      have : (2 - U) * (1 + M.u) ^ 2 * (1 - M.u) ^ 2 ≤ (1 - M.u) ^ 3 * (1 - M.u) ^ 2 := by
        rw [e]; nlinarith [sq_nonneg M.u, sq_nonneg (M.u ^ 2)]
      exact le_of_mul_le_mul_right this hm2
    have h3 : (1 - M.u) ^ 3 * D ≤ g * D := mul_le_mul_of_nonneg_right hg.1 hD.le
    rcases le_total 0 (2 - U) with hs | hs
    · have h4 : (2 - U) * den ≤ (2 - U) * ((1 + M.u) ^ 2 * D) :=
        mul_le_mul_of_nonneg_left hden.2 hs
      have h5 : (2 - U) * (1 + M.u) ^ 2 * D ≤ (1 - M.u) ^ 3 * D :=
        mul_le_mul_of_nonneg_right key hD.le
      nlinarith
    · have h4 : (2 - U) * den ≤ 0 := mul_nonpos_of_nonpos_of_nonneg hs hden0.le
      have h5 : 0 ≤ g * D := mul_nonneg hg0 hD.le
      nlinarith
  · -- g D ≤ U den
    have h3 : g * D ≤ (1 + M.u) ^ 3 * D := mul_le_mul_of_nonneg_right hg.2 hD.le
    have h4 : U * ((1 - M.u) ^ 2 * D) ≤ U * den := mul_le_mul_of_nonneg_left hden.1 hU0
    have h5 : U * ((1 - M.u) ^ 2 * D) = (1 + M.u) ^ 3 * D := by rw [← mul_assoc, hUm]
    nlinarith

/-- the computed quotient `fl ((x α + y β) / den)` against `(x + y) / D` -/
theorem quot_err (M : FlModel) (hu : M.u < 1) (x y α β e den D : ℝ)
    (hα : (1 - M.u) ^ 2 ≤ α ∧ α ≤ (1 + M.u) ^ 2) (hβ : (1 - M.u) ^ 2 ≤ β ∧ β ≤ (1 + M.u) ^ 2)
    (he : 1 - M.u ≤ e ∧ e ≤ 1 + M.u) (hD : 0 < D)
    (hden : (1 - M.u) ^ 2 * D ≤ den ∧ den ≤ (1 + M.u) ^ 2 * D) :
    |(x * α + y * β) / den * e - (x + y) / D| ≤ divC M * ((|x| + |y|) / D) := by
  have h1 := factor_quot M hu (α * e) den D (factor_mul3 M hu.le α e hα he) hD hden
  have h2 := factor_quot M hu (β * e) den D (factor_mul3 M hu.le β e hβ he) hD hden
  have e0 : (x * α + y * β) / den * e - (x + y) / D
      = x * (α * e / den - 1 / D) + y * (β * e / den - 1 / D) := by ring
  have hc : 0 ≤ divC M / D := div_nonneg (divC_nonneg M hu) hD.le
  rw [e0]
  refine (abs_add_le _ _).trans ?_
  rw [abs_mul, abs_mul]
  have h3 := mul_le_mul_of_nonneg_left h1 (abs_nonneg x)
  have h4 := mul_le_mul_of_nonneg_left h2 (abs_nonneg y)
  have e3 : divC M * ((|x| + |y|) / D) = |x| * (divC M / D) + |y| * (divC M / D) := by ring
  rw [e3]; linarith

/-- `(1+u)^3/(1-u)^2 - 1 ≤ (1+u)^6 - 1` when `u ≤ 1/3` -/
theorem divC_le_gam6 (M : FlModel) (hu : M.u ≤ 1 / 3) : divC M ≤ M.gam 6 := by
  have h0 := M.u_nonneg
  have hm2 : 0 < (1 - M.u) ^ 2 := pow_pos (by linarith) 2
  have h3 : 0 ≤ (1 + M.u) ^ 3 := by positivity
  rw [divC, FlModel.gam, sub_le_sub_iff_right, div_le_iff₀ hm2]
  have key : 1 ≤ (1 + M.u) ^ 3 * (1 - M.u) ^ 2 := by
    have : (1 + M.u) ^ 3 * (1 - M.u) ^ 2 - 1
        = M.u * (1 - 2 * M.u - 2 * M.u ^ 2 + M.u ^ 3 + M.u ^ 4) := by ring
    have h4 : 0 ≤ 1 - 2 * M.u - 2 * M.u ^ 2 + M.u ^ 3 + M.u ^ 4 := by
      nlinarith [pow_nonneg h0 3, pow_nonneg h0 4, mul_nonneg h0 (sub_nonneg.mpr hu)]
    nlinarith [mul_nonneg h0 h4]
  have : (1 + M.u) ^ 6 * (1 - M.u) ^ 2 = (1 + M.u) ^ 3 * ((1 + M.u) ^ 3 * (1 - M.u) ^ 2) := by ring
  rw [this]
  nlinarith [mul_le_mul_of_nonneg_left key h3]

/-- `(1+u)^3/(1-u)^2 - 1 ≤ γ₅ = 5u/(1-5u)` when `5u < 1` -/
theorem divC_le_gamma5 (M : FlModel) (hu : 5 * M.u < 1) : divC M ≤ 5 * M.u / (1 - 5 * M.u) := by
  have h0 := M.u_nonneg
  have hm2 : 0 < (1 - M.u) ^ 2 := pow_pos (by linarith) 2
  have h5 : 0 < 1 - 5 * M.u := by linarith
  have e : 5 * M.u / (1 - 5 * M.u) = 1 / (1 - 5 * M.u) - 1 := by field_simp; ring
  rw [divC, e, sub_le_sub_iff_right, div_le_div_iff₀ hm2 h5]
  nlinarith [pow_nonneg h0 2, pow_nonneg h0 3, pow_nonneg h0 4]

/-! ### norm helpers -/

/-- componentwise relative bounds with a common constant give the normwise bound -/
theorem norm_le_of_components (x y : ℂ) (k : ℝ) (hk : 0 ≤ k) (h1 : |x.re| ≤ k * |y.re|)
    (h2 : |x.im| ≤ k * |y.im|) : ‖x‖ ≤ k * ‖y‖ := by
  apply le_of_pow_le_pow_left₀ two_ne_zero (mul_nonneg hk (norm_nonneg _))
  rw [mul_pow, Complex.sq_norm, Complex.sq_norm, Complex.normSq_apply, Complex.normSq_apply]
  have a1 := pow_le_pow_left₀ (abs_nonneg _) h1 2
  have a2 := pow_le_pow_left₀ (abs_nonneg _) h2 2
  rw [sq_abs, mul_pow, sq_abs] at a1 a2
  nlinarith

/-- the bound pattern of a complex product: `(|ac|+|bd|)² + (|ad|+|bc|)² ≤ 2 (a²+b²)(c²+d²)` -/
theorem sq_norm_le_cross (e : ℂ) (a b c d g : ℝ) (hg : 0 ≤ g)
    (h1 : |e.re| ≤ g * (|a * c| + |b * d|)) (h2 : |e.im| ≤ g * (|a * d| + |b * c|)) :
    ‖e‖ ^ 2 ≤ 2 * g ^ 2 * ((a * a + b * b) * (c * c + d * d)) := by
  rw [Complex.sq_norm, Complex.normSq_apply]
  have a1 := pow_le_pow_left₀ (abs_nonneg _) h1 2
  have a2 := pow_le_pow_left₀ (abs_nonneg _) h2 2
  rw [sq_abs] at a1 a2
  simp only [abs_mul] at a1 a2
  have hA := sq_abs a
  have hB := sq_abs b
  have hC := sq_abs c
  have hD := sq_abs d
  have key : (|a| * |c| + |b| * |d|) ^ 2 + (|a| * |d| + |b| * |c|) ^ 2
      ≤ 2 * ((a * a + b * b) * (c * c + d * d)) := by
    have : 2 * ((a * a + b * b) * (c * c + d * d))
        = 2 * ((|a| ^ 2 + |b| ^ 2) * (|c| ^ 2 + |d| ^ 2)) := by rw [hA, hB, hC, hD]; ring
    rw [this]
    nlinarith [sq_nonneg (|a| * |c| - |b| * |d|), sq_nonneg (|a| * |d| - |b| * |c|)]
  have hg2 : 0 ≤ g ^ 2 := sq_nonneg g
  have := mul_le_mul_of_nonneg_left key hg2
  nlinarith

theorem norm_val_sq (z : Cx (Fl M)) :
    ‖val z‖ ^ 2 = z.re.val * z.re.val + z.im.val * z.im.val := by
  rw [Complex.sq_norm, Complex.normSq_apply]; rfl

/-- the normwise form of the product pattern -/
theorem norm_le_cross (e : ℂ) (z w : Cx (Fl M)) (g : ℝ) (hg : 0 ≤ g)
    (h1 : |e.re| ≤ g * (|z.re.val * w.re.val| + |z.im.val * w.im.val|))
    (h2 : |e.im| ≤ g * (|z.re.val * w.im.val| + |z.im.val * w.re.val|)) :
    ‖e‖ ≤ √2 * g * (‖val z‖ * ‖val w‖) := by
  have h := sq_norm_le_cross e _ _ _ _ g hg h1 h2
  apply le_of_pow_le_pow_left₀ two_ne_zero (by positivity)
  rw [mul_pow, mul_pow, mul_pow, Real.sq_sqrt (by norm_num : (0:ℝ) ≤ 2), norm_val_sq, norm_val_sq]
  exact h

theorem val_ne_zero_iff (w : Cx (Fl M)) :
    val w ≠ 0 ↔ 0 < w.re.val * w.re.val + w.im.val * w.im.val := by
  rw [← Complex.normSq_pos, Complex.normSq_apply]; rfl

/-! ### `+` and `-` -/

/-- **addition**: each component is rounded once -/
theorem add_rounding (z w : Cx (Fl M)) :
    |(z + w).re.val - (z.re.val + w.re.val)| ≤ M.u * |z.re.val + w.re.val| ∧
    |(z + w).im.val - (z.im.val + w.im.val)| ≤ M.u * |z.im.val + w.im.val| ∧
    ‖val (z + w) - (val z + val w)‖ ≤ M.u * ‖val z + val w‖ := by
  have h1 : |(z + w).re.val - (z.re.val + w.re.val)| ≤ M.u * |z.re.val + w.re.val| :=
    Fl.add_err z.re w.re
  have h2 : |(z + w).im.val - (z.im.val + w.im.val)| ≤ M.u * |z.im.val + w.im.val| :=
    Fl.add_err z.im w.im
  exact ⟨h1, h2, norm_le_of_components _ _ _ M.u_nonneg (by simpa using h1) (by simpa using h2)⟩

/-- **subtraction**: each component is rounded once -/
theorem sub_rounding (z w : Cx (Fl M)) :
    |(z - w).re.val - (z.re.val - w.re.val)| ≤ M.u * |z.re.val - w.re.val| ∧
    |(z - w).im.val - (z.im.val - w.im.val)| ≤ M.u * |z.im.val - w.im.val| ∧
    ‖val (z - w) - (val z - val w)‖ ≤ M.u * ‖val z - val w‖ := by
  have h1 : |(z - w).re.val - (z.re.val - w.re.val)| ≤ M.u * |z.re.val - w.re.val| :=
    Fl.sub_err z.re w.re
  have h2 : |(z - w).im.val - (z.im.val - w.im.val)| ≤ M.u * |z.im.val - w.im.val| :=
    Fl.sub_err z.im w.im
  exact ⟨h1, h2, norm_le_of_components _ _ _ M.u_nonneg (by simpa using h1) (by simpa using h2)⟩

/-! ### `*` -/

/-- `fl (fl (p q) + fl (r s))` -/
theorem mul_add_mul_err (p q r s : Fl M) :
    |(p * q + r * s).val - (p.val * q.val + r.val * s.val)|
      ≤ M.gam 2 * (|p.val * q.val| + |r.val * s.val|) :=
  two_term_err M _ _ _ _ _ (Fl.mul_err p q) (Fl.mul_err r s) (Fl.add_err (p * q) (r * s))

/-- `fl (fl (p q) - fl (r s))` -/
theorem mul_sub_mul_err (p q r s : Fl M) :
    |(p * q - r * s).val - (p.val * q.val - r.val * s.val)|
      ≤ M.gam 2 * (|p.val * q.val| + |r.val * s.val|) := by
  have hQ : |-(r * s).val - -(r.val * s.val)| ≤ M.u * |-(r.val * s.val)| := by
    have e1 : -(r * s).val - -(r.val * s.val) = -((r * s).val - r.val * s.val) := by ring
    rw [e1, abs_neg, abs_neg]; exact Fl.mul_err r s
  have hS : |(p * q - r * s).val - ((p * q).val + -(r * s).val)|
      ≤ M.u * |(p * q).val + -(r * s).val| := by
    rw [← sub_eq_add_neg]; exact Fl.sub_err _ _
  have h := two_term_err M _ _ _ _ _ (Fl.mul_err p q) hQ hS
  rwa [← sub_eq_add_neg, abs_neg] at h

/-- **multiplication**: componentwise `gam 2` relative to `|ac| + |bd|` resp. `|ad| + |bc|`
(cancellation in `ac - bd` is not controlled componentwise), and the classical normwise bound
`√2 γ₂ ‖z‖ ‖w‖`.  No hypothesis on `u`. -/
theorem mul_rounding (z w : Cx (Fl M)) :
    |(z * w).re.val - (z.re.val * w.re.val - z.im.val * w.im.val)|
      ≤ M.gam 2 * (|z.re.val * w.re.val| + |z.im.val * w.im.val|) ∧
    |(z * w).im.val - (z.re.val * w.im.val + z.im.val * w.re.val)|
      ≤ M.gam 2 * (|z.re.val * w.im.val| + |z.im.val * w.re.val|) ∧
    ‖val (z * w) - val z * val w‖ ≤ √2 * M.gam 2 * (‖val z‖ * ‖val w‖) := by
  have h1 : |(z * w).re.val - (z.re.val * w.re.val - z.im.val * w.im.val)|
      ≤ M.gam 2 * (|z.re.val * w.re.val| + |z.im.val * w.im.val|) :=
    mul_sub_mul_err z.re w.re z.im w.im
  have h2 : |(z * w).im.val - (z.re.val * w.im.val + z.im.val * w.re.val)|
      ≤ M.gam 2 * (|z.re.val * w.im.val| + |z.im.val * w.re.val|) :=
    mul_add_mul_err z.re w.im z.im w.re
  refine ⟨h1, h2, norm_le_cross _ z w _ (M.gam_nonneg 2) ?_ ?_⟩
  · simpa using h1
  · simpa using h2

/-- the classical form: `γ₂ = 2u/(1-2u)` -/
theorem mul_rounding_gamma (z w : Cx (Fl M)) (hu : 2 * M.u < 1) :
    ‖val (z * w) - val z * val w‖ ≤ √2 * (2 * M.u / (1 - 2 * M.u)) * (‖val z‖ * ‖val w‖) := by
  have h := (mul_rounding z w).2.2
  have hg : M.gam 2 ≤ 2 * M.u / (1 - 2 * M.u) := by
    have := M.gam_le_gamma 2 (by push_cast; linarith)
    simpa using this
  refine h.trans ?_
  have h2 : (0:ℝ) ≤ √2 := Real.sqrt_nonneg _
  have h3 : 0 ≤ ‖val z‖ * ‖val w‖ := by positivity
  exact mul_le_mul_of_nonneg_right (mul_le_mul_of_nonneg_left hg h2) h3

/-! ### `/` -/

/-- the rounded squared modulus of the divisor: `(1-u)² D ≤ fl (fl c² + fl d²) ≤ (1+u)² D` -/
theorem den_bounds (hu : M.u ≤ 1) (c d : Fl M) :
    (1 - M.u) ^ 2 * (c.val * c.val + d.val * d.val) ≤ (c * c + d * d).val ∧
    (c * c + d * d).val ≤ (1 + M.u) ^ 2 * (c.val * c.val + d.val * d.val) := by
  obtain ⟨α, β, hα, hβ, h⟩ := two_term_factor M hu (c.val * c.val) (d.val * d.val)
  have e : (c * c + d * d).val = c.val * c.val * α + d.val * d.val * β := h
  have hc := mul_self_nonneg c.val
  have hd := mul_self_nonneg d.val
  rw [e]
  constructor
  · nlinarith [mul_le_mul_of_nonneg_left hα.1 hc, mul_le_mul_of_nonneg_left hβ.1 hd]
  · nlinarith [mul_le_mul_of_nonneg_left hα.2 hc, mul_le_mul_of_nonneg_left hβ.2 hd]

/-- an exact zero divisor is the error `arith` (for every `u`) -/
theorem div_rejects_fl (z w : Cx (Fl M)) (hw : val w = 0) : Cx.div z w = .error .arith := by
  have hc : w.re.val = 0 := by simpa using congrArg Complex.re hw
  have hd : w.im.val = 0 := by simpa using congrArg Complex.im hw
  have hden : (w.re * w.re + w.im * w.im).val = 0 := by
    simp [hc, hd, M.fl_zero]
  have hdiv : ∀ a : Fl M, ScalarExt.divM a (w.re * w.re + w.im * w.im) = .error .arith :=
    fun a => if_pos hden
  unfold Cx.div
  simp only [hdiv]
  rfl

/-- **division, componentwise**: for `u < 1` and a non-zero divisor the call returns a value; its
components against the exact quotient's, relative to the numerators WITHOUT cancellation, and the
bounds on the rounded denominator used. -/
theorem div_rounding_components (hu : M.u < 1) (z w : Cx (Fl M)) (hw : val w ≠ 0) :
    ∃ q, Cx.div z w = .ok q ∧
      |q.re.val - (z.re.val * w.re.val + z.im.val * w.im.val)
            / (w.re.val * w.re.val + w.im.val * w.im.val)|
        ≤ divC M * ((|z.re.val * w.re.val| + |z.im.val * w.im.val|)
            / (w.re.val * w.re.val + w.im.val * w.im.val)) ∧
      |q.im.val - (z.im.val * w.re.val - z.re.val * w.im.val)
            / (w.re.val * w.re.val + w.im.val * w.im.val)|
        ≤ divC M * ((|z.im.val * w.re.val| + |z.re.val * w.im.val|)
            / (w.re.val * w.re.val + w.im.val * w.im.val)) ∧
      (1 - M.u) ^ 2 * (w.re.val * w.re.val + w.im.val * w.im.val) ≤ (Cx.absSqr w).val ∧
      (Cx.absSqr w).val ≤ (1 + M.u) ^ 2 * (w.re.val * w.re.val + w.im.val * w.im.val) ∧
      0 < (Cx.absSqr w).val := by
  have hD : 0 < w.re.val * w.re.val + w.im.val * w.im.val := (val_ne_zero_iff w).mp hw
  have hb := den_bounds hu.le w.re w.im
  have hm2 : 0 < (1 - M.u) ^ 2 := pow_pos (by linarith) 2
  have hden0 : 0 < (w.re * w.re + w.im * w.im).val := lt_of_lt_of_le (mul_pos hm2 hD) hb.1
  have hdiv : ∀ a : Fl M, ScalarExt.divM a (w.re * w.re + w.im * w.im)
      = .ok (a / (w.re * w.re + w.im * w.im)) := fun a => if_neg hden0.ne'
  refine ⟨⟨(z.re * w.re + z.im * w.im) / (w.re * w.re + w.im * w.im),
           (z.im * w.re - z.re * w.im) / (w.re * w.re + w.im * w.im)⟩, ?_, ?_, ?_, hb.1, hb.2, hden0⟩
  · unfold Cx.div
    simp only [hdiv]
    rfl
  · obtain ⟨α, β, hα, hβ, h⟩ :=
      two_term_factor M hu.le (z.re.val * w.re.val) (z.im.val * w.im.val)
    have hn : (z.re * w.re + z.im * w.im).val
        = z.re.val * w.re.val * α + z.im.val * w.im.val * β := h
    obtain ⟨e, he, hq⟩ := exists_factor M
      ((z.re * w.re + z.im * w.im).val / (w.re * w.re + w.im * w.im).val)
    have hv : ((z.re * w.re + z.im * w.im) / (w.re * w.re + w.im * w.im)).val
        = (z.re.val * w.re.val * α + z.im.val * w.im.val * β)
            / (w.re * w.re + w.im * w.im).val * e := by
      rw [← hn]; exact hq
    show |((z.re * w.re + z.im * w.im) / (w.re * w.re + w.im * w.im)).val - _| ≤ _
    rw [hv]
    exact quot_err M hu _ _ α β e _ _ hα hβ he hD hb
  · obtain ⟨α, β, hα, hβ, h⟩ :=
      two_term_factor_sub M hu.le (z.im.val * w.re.val) (z.re.val * w.im.val)
    have hn : (z.im * w.re - z.re * w.im).val
        = z.im.val * w.re.val * α - z.re.val * w.im.val * β := h
    obtain ⟨e, he, hq⟩ := exists_factor M
      ((z.im * w.re - z.re * w.im).val / (w.re * w.re + w.im * w.im).val)
    have hv : ((z.im * w.re - z.re * w.im) / (w.re * w.re + w.im * w.im)).val
        = (z.im.val * w.re.val * α + -(z.re.val * w.im.val) * β)
            / (w.re * w.re + w.im * w.im).val * e := by
      have : z.im.val * w.re.val * α + -(z.re.val * w.im.val) * β
          = z.im.val * w.re.val * α - z.re.val * w.im.val * β := by ring
      rw [this, ← hn]; exact hq
    show |((z.im * w.re - z.re * w.im) / (w.re * w.re + w.im * w.im)).val - _| ≤ _
    rw [hv]
    have := quot_err M hu (z.im.val * w.re.val) (-(z.re.val * w.im.val)) α β e _ _ hα hβ he hD hb
    rwa [← sub_eq_add_neg, abs_neg] at this

/-- for `u < 1` the division returns a value exactly when the divisor is non-zero -/
theorem div_ok_iff_fl (hu : M.u < 1) (z w : Cx (Fl M)) :
    (∃ q, Cx.div z w = .ok q) ↔ val w ≠ 0 := by
  constructor
  · rintro ⟨q, hq⟩ hw
    rw [div_rejects_fl z w hw] at hq
    cases hq
  · intro hw
    obtain ⟨q, hq, _⟩ := div_rounding_components hu z w hw
    exact ⟨q, hq⟩

/-- **division, normwise**: `‖q - z/w‖ ≤ √2 · ((1+u)³/(1-u)² - 1) · ‖z/w‖` -/
theorem div_rounding (hu : M.u < 1) (z w : Cx (Fl M)) (hw : val w ≠ 0) :
    ∃ q, Cx.div z w = .ok q ∧ ‖val q - val z / val w‖ ≤ √2 * divC M * ‖val z / val w‖ := by
  obtain ⟨q, hq, h1, h2, -⟩ := div_rounding_components hu z w hw
  refine ⟨q, hq, ?_⟩
  have hD : 0 < w.re.val * w.re.val + w.im.val * w.im.val := (val_ne_zero_iff w).mp hw
  set D := w.re.val * w.re.val + w.im.val * w.im.val with hDdef
  have hnw : ‖val w‖ ^ 2 = D := norm_val_sq w
  have hw0 : 0 < ‖val w‖ := norm_pos_iff.mpr hw
  have hg : 0 ≤ divC M / D := div_nonneg (divC_nonneg M hu) hD.le
  have hN : Complex.normSq (val w) = D := by rw [Complex.normSq_apply]; rfl
  have hc := norm_le_cross (val q - val z / val w) z ⟨w.re, -w.im⟩ (divC M / D) hg
    (by
      rw [Complex.sub_re, Complex.div_re, hN]
      simp only [val_re, val_im, Fl.neg_val, mul_neg, abs_neg]
      have e : z.re.val * w.re.val / D + z.im.val * w.im.val / D
          = (z.re.val * w.re.val + z.im.val * w.im.val) / D := by ring
      rw [e]
      refine h1.trans (le_of_eq ?_)
      ring)
    (by
      rw [Complex.sub_im, Complex.div_im, hN]
      simp only [val_re, val_im, Fl.neg_val, mul_neg, abs_neg]
      have e : z.im.val * w.re.val / D - z.re.val * w.im.val / D
          = (z.im.val * w.re.val - z.re.val * w.im.val) / D := by ring
      rw [e]
      refine h2.trans (le_of_eq ?_)
      ring)
  have hconj : ‖val (⟨w.re, -w.im⟩ : Cx (Fl M))‖ = ‖val w‖ := by
    apply le_antisymm <;>
    · apply le_of_pow_le_pow_left₀ two_ne_zero (norm_nonneg _)
      rw [norm_val_sq, norm_val_sq]
      simp
  rw [hconj] at hc
  refine hc.trans (le_of_eq ?_)
  rw [Complex.norm_div, ← hnw]
  field_simp

/-- division with the constant `gam 6` (`u ≤ 1/3`) -/
theorem div_rounding_gam (hu : M.u ≤ 1 / 3) (z w : Cx (Fl M)) (hw : val w ≠ 0) :
    ∃ q, Cx.div z w = .ok q ∧ ‖val q - val z / val w‖ ≤ √2 * M.gam 6 * ‖val z / val w‖ := by
  obtain ⟨q, hq, h⟩ := div_rounding (by linarith) z w hw
  refine ⟨q, hq, h.trans ?_⟩
  have h2 : (0:ℝ) ≤ √2 := Real.sqrt_nonneg _
  exact mul_le_mul_of_nonneg_right (mul_le_mul_of_nonneg_left (divC_le_gam6 M hu) h2)
    (norm_nonneg _)

/-- division with the classical constant `γ₅ = 5u/(1-5u)` (`5u < 1`) -/
theorem div_rounding_gamma (hu : 5 * M.u < 1) (z w : Cx (Fl M)) (hw : val w ≠ 0) :
    ∃ q, Cx.div z w = .ok q
      ∧ ‖val q - val z / val w‖ ≤ √2 * (5 * M.u / (1 - 5 * M.u)) * ‖val z / val w‖ := by
  have h0 := M.u_nonneg
  obtain ⟨q, hq, h⟩ := div_rounding (by linarith) z w hw
  refine ⟨q, hq, h.trans ?_⟩
  have h2 : (0:ℝ) ≤ √2 := Real.sqrt_nonneg _
  exact mul_le_mul_of_nonneg_right (mul_le_mul_of_nonneg_left (divC_le_gamma5 M hu) h2)
    (norm_nonneg _)

/-! ### mixed complex/real forms, `absSqr`, `conj`, unary `-` -/

/-- `z + r`: the real part is rounded once, the imaginary part is untouched -/
theorem addR_rounding (z : Cx (Fl M)) (r : Fl M) :
    |(addR z r).re.val - (z.re.val + r.val)| ≤ M.u * |z.re.val + r.val| ∧
    (addR z r).im.val = z.im.val ∧
    ‖val (addR z r) - (val z + (r.val : ℂ))‖ ≤ M.u * ‖val z + (r.val : ℂ)‖ := by
  have h1 : |(addR z r).re.val - (z.re.val + r.val)| ≤ M.u * |z.re.val + r.val| :=
    Fl.add_err z.re r
  have h2 : (addR z r).im.val = z.im.val := rfl
  refine ⟨h1, h2, norm_le_of_components _ _ _ M.u_nonneg (by simpa using h1) ?_⟩
  have := M.u_nonneg
  simp only [Complex.sub_im, Complex.add_im, val_im, Complex.ofReal_im, add_zero, h2, sub_self,
    abs_zero]
  positivity

/-- `z - r` -/
theorem subR_rounding (z : Cx (Fl M)) (r : Fl M) :
    |(subR z r).re.val - (z.re.val - r.val)| ≤ M.u * |z.re.val - r.val| ∧
    (subR z r).im.val = z.im.val ∧
    ‖val (subR z r) - (val z - (r.val : ℂ))‖ ≤ M.u * ‖val z - (r.val : ℂ)‖ := by
  have h1 : |(subR z r).re.val - (z.re.val - r.val)| ≤ M.u * |z.re.val - r.val| :=
    Fl.sub_err z.re r
  have h2 : (subR z r).im.val = z.im.val := rfl
  refine ⟨h1, h2, norm_le_of_components _ _ _ M.u_nonneg (by simpa using h1) ?_⟩
  have := M.u_nonneg
  simp only [Complex.sub_im, val_im, Complex.ofReal_im, sub_zero, h2, sub_self, abs_zero]
  positivity

/-- `z * r`: each component is rounded once -/
theorem mulR_rounding (z : Cx (Fl M)) (r : Fl M) :
    |(mulR z r).re.val - z.re.val * r.val| ≤ M.u * |z.re.val * r.val| ∧
    |(mulR z r).im.val - z.im.val * r.val| ≤ M.u * |z.im.val * r.val| ∧
    ‖val (mulR z r) - val z * (r.val : ℂ)‖ ≤ M.u * ‖val z * (r.val : ℂ)‖ := by
  have h1 : |(mulR z r).re.val - z.re.val * r.val| ≤ M.u * |z.re.val * r.val| :=
    Fl.mul_err z.re r
  have h2 : |(mulR z r).im.val - z.im.val * r.val| ≤ M.u * |z.im.val * r.val| :=
    Fl.mul_err z.im r
  exact ⟨h1, h2, norm_le_of_components _ _ _ M.u_nonneg (by simpa using h1) (by simpa using h2)⟩

/-- `z / r` for a non-zero real `r`: returns a value, each component rounded once; a zero `r` is
the error `arith` -/
theorem divR_rounding (z : Cx (Fl M)) (r : Fl M) (hr : r.val ≠ 0) :
    ∃ q, divR z r = .ok q ∧
      |q.re.val - z.re.val / r.val| ≤ M.u * |z.re.val / r.val| ∧
      |q.im.val - z.im.val / r.val| ≤ M.u * |z.im.val / r.val| ∧
      ‖val q - val z / (r.val : ℂ)‖ ≤ M.u * ‖val z / (r.val : ℂ)‖ := by
  have hdiv : ∀ a : Fl M, ScalarExt.divM a r = .ok (a / r) := fun a => if_neg hr
  have h1 : |(z.re / r).val - z.re.val / r.val| ≤ M.u * |z.re.val / r.val| := Fl.div_err z.re r
  have h2 : |(z.im / r).val - z.im.val / r.val| ≤ M.u * |z.im.val / r.val| := Fl.div_err z.im r
  refine ⟨⟨z.re / r, z.im / r⟩, ?_, h1, h2,
    norm_le_of_components _ _ _ M.u_nonneg ?_ ?_⟩
  · unfold divR
    simp only [hdiv]
    rfl
  · simpa [Complex.div_ofReal_re] using h1
  · simpa [Complex.div_ofReal_im] using h2

theorem divR_rejects_fl (z : Cx (Fl M)) (r : Fl M) (hr : r.val = 0) :
    divR z r = .error .arith := by
  have hdiv : ∀ a : Fl M, ScalarExt.divM a r = .error .arith := fun a => if_pos hr
  unfold divR
  simp only [hdiv]
  rfl

/-- `abs_sqr`: two squares and one sum, no cancellation: relative error `gam 2` -/
theorem absSqr_rounding (z : Cx (Fl M)) :
    |(absSqr z).val - (z.re.val * z.re.val + z.im.val * z.im.val)|
      ≤ M.gam 2 * (z.re.val * z.re.val + z.im.val * z.im.val) ∧
    |(absSqr z).val - ‖val z‖ ^ 2| ≤ M.gam 2 * ‖val z‖ ^ 2 := by
  have h : |(absSqr z).val - (z.re.val * z.re.val + z.im.val * z.im.val)|
      ≤ M.gam 2 * (|z.re.val * z.re.val| + |z.im.val * z.im.val|) :=
    mul_add_mul_err z.re z.re z.im z.im
  rw [abs_of_nonneg (mul_self_nonneg z.re.val), abs_of_nonneg (mul_self_nonneg z.im.val)] at h
  exact ⟨h, by rw [norm_val_sq]; exact h⟩

/-- `conj` and unary `-` are exact -/
theorem conj_exact (z : Cx (Fl M)) : val (conj z) = (starRingEnd ℂ) (val z) := by
  apply Complex.ext <;> simp [conj]

theorem neg_exact (z : Cx (Fl M)) : val (-z) = -val z := by
  apply Complex.ext
  · show (-z.re).val = _; simp
  · show (-z.im).val = _; simp

end Rounding

/-! ### structural: the compound-assignment forms over `Fl M` -/

section Structural
variable {M : FlModel}

/-- rounded addition is commutative (the rounding function is applied to the same real number) -/
theorem fl_add_comm (x y : Fl M) : x + y = y + x := by
  ext; simp [add_comm]

/-- the compound-assignment forms return exactly the values of the binary forms also over the
rounded reals (instance of `assign_eq_binary`) -/
theorem assign_eq_binary_fl (a b : Cx (Fl M)) (r : Fl M) :
    addAssign a b = a + b ∧ subAssign a b = a - b ∧ mulAssign a b = a * b ∧
    divAssign a b = Cx.div a b ∧
    addAssignR a r = addR a r ∧ subAssignR a r = subR a r ∧ mulAssignR a r = mulR a r ∧
    divAssignR a r = divR a r :=
  assign_eq_binary fl_add_comm a b r

end Structural

/-! ### non-vacuity -/

section Examples

/-- exact arithmetic is a model: there the division bound collapses to equality with `z / w` -/
example (z w : Cx (Fl FlModel.exact)) (hw : val w ≠ 0) :
    ∃ q, Cx.div z w = .ok q ∧ val q = val z / val w := by
  have hu : FlModel.exact.u < 1 := by show (0:ℝ) < 1; norm_num
  obtain ⟨q, hq, h⟩ := div_rounding hu z w hw
  refine ⟨q, hq, ?_⟩
  have hc : divC FlModel.exact = 0 := by
    show (1 + (0:ℝ)) ^ 3 / (1 - 0) ^ 2 - 1 = 0
    norm_num
  rw [hc, mul_zero, zero_mul] at h
  exact sub_eq_zero.mp (norm_le_zero_iff.mp h)

/-- … and products are exact -/
example (z w : Cx (Fl FlModel.exact)) : val (z * w) = val z * val w := by
  have h := (mul_rounding z w).2.2
  have hg : FlModel.exact.gam 2 = 0 := by simp [FlModel.gam, FlModel.exact]
  rw [hg, mul_zero, zero_mul] at h
  exact sub_eq_zero.mp (norm_le_zero_iff.mp h)

/-- a model that really rounds (`fl x = (1 + 2⁻⁵³) x`): the hypotheses of `div_rounding` are met by
`(1 + 2i) / (3 - 4i)` -/
example :
    let M := FlModel.scale (2 ^ (-53 : ℤ)) (by positivity)
    let z : Cx (Fl M) := ⟨⟨1⟩, ⟨2⟩⟩
    let w : Cx (Fl M) := ⟨⟨3⟩, ⟨-4⟩⟩
    ∃ q, Cx.div z w = .ok q ∧ ‖val q - val z / val w‖ ≤ √2 * M.gam 6 * ‖val z / val w‖ := by
  intro M z w
  have hu : M.u ≤ 1 / 3 := by
    show (2:ℝ) ^ (-53 : ℤ) ≤ 1 / 3
    have : (2:ℝ) ^ (-53 : ℤ) ≤ 2 ^ (-2 : ℤ) := zpow_le_zpow_right₀ (by norm_num) (by norm_num)
    refine this.trans ?_
    norm_num
  have hw : val w ≠ 0 := by
    rw [val_ne_zero_iff]
    show (0:ℝ) < 3 * 3 + (-4) * (-4)
    norm_num
  exact div_rounding_gam hu z w hw

/-- in that model the componentwise bound of `mul_rounding` is attained: `(x + 0i)(1 + 0i)` has the
computed real part `(1+u)² x`, i.e. the error `gam 2 · |x| = gam 2 · (|ac| + |bd|)`. -/
example (x : ℝ) :
    let M := FlModel.scale (2 ^ (-53 : ℤ)) (by positivity)
    let z : Cx (Fl M) := ⟨⟨x⟩, 0⟩
    let w : Cx (Fl M) := ⟨1, 0⟩
    |(z * w).re.val - (z.re.val * w.re.val - z.im.val * w.im.val)|
      = M.gam 2 * (|z.re.val * w.re.val| + |z.im.val * w.im.val|) := by
  intro M z w
  have hg := M.gam_nonneg 2
  have hg2 : M.gam 2 = (1 + M.u) ^ 2 - 1 := rfl
  have hv : (z * w).re.val = (1 + M.u) * ((1 + M.u) * (x * 1) - (1 + M.u) * (0 * 0)) := rfl
  have e1 : z.re.val = x := rfl
  have e2 : w.re.val = 1 := rfl
  have e3 : z.im.val = 0 := rfl
  have e4 : w.im.val = 0 := rfl
  rw [hv]
  simp only [e1, e2, e3, e4]
  have : (1 + M.u) * ((1 + M.u) * (x * 1) - (1 + M.u) * (0 * 0)) - (x * 1 - 0 * 0)
      = M.gam 2 * x := by rw [hg2]; ring
  rw [this, abs_mul, abs_of_nonneg hg]
  simp

end Examples

end Ohsl.Props.C13
