/-
  Property C17 (continued) — LIMITING ACCURACY of the SCALAR REAL Newton iteration
  (`Newton<f64>::solve`, src/newton.rs:61-75; model `Newton.solveScalar`, Ohsl/Model/Newton.lean) when
  every step is computed INEXACTLY: the form in which rounding enters the convergence theory.  This
  closes, for the scalar real variant, the gap "(F) … over f64 (rounding is not modelled in the
  convergence theorems)" left by the exact-arithmetic convergence theorems
  (`C18.newton_scalar_model_converges`, re-exported in C17R.lean; C17X / C17Z / C17W for the others).

  WHAT THE MODEL DOES (read off Ohsl/Model/Newton.lean — it differs from the textbook scheme):
  `solve` receives ONE function `fc` (no derivative argument); per iteration it forms the central
  quotient `fc'_δ(x) = (fc(x+δ) - fc(x-δ))/(2δ)`, the correction `dx = fc(x)/fc'_δ(x)`, the update
  `x⁺ = x - dx`; the stopping test is on the STEP, `|dx| <= tol` (not on `|fc(x)|`), and on success it
  returns the UPDATED point `x⁺`.  A zero derivative estimate is not refused (`/` of the scalar type).
  Accordingly "(H2) the computed step is close to the exact one" is stated for
  `scalarDx fc δ x = fc x / ((fc (x+δ) - fc (x-δ))/(2δ))`, the noise floor of (c) is a floor for
  the step, and the accepted point is bounded through the step — the residual form
  `|x - r| ≤ (tol + δ_f)/m` belongs to the SYSTEM variants (test on `‖f‖∞`) and is not proved here.

  A. `section Structural` — abstract core, any carrier `α` with a real value map `v`:
     `PerturbedNewton v step d r ρ q ε τ` : `|v(step x) - r| ≤ q |v x - r| + ε` on the ball,
     `q ρ + ε ≤ ρ`, and the test quantity `d x` measures `|v x - v(step x)|` up to `τ`.
     * `PerturbedNewton.iterates`  (a) iterates stay, `|x_k - r| ≤ q^k|x₀ - r| + ε(1-q^k)/(1-q)`;
     * `PerturbedNewton.accept`    (b) `d x ≤ tol` ⇒ `|step x - r| ≤ (q (tol+τ) + ε)/(1-q)`;
     * `PerturbedNewton.passes`    (c) `|x - r| ≤ 2ε/(1-q)` ⇒ `d x ≤ (3+q) ε/(1-q) + τ`;
     * `PerturbedNewton.loop_accuracy`, `.loop_accepts` : the same for the bounded early-exit loop;
     * `model_accuracy`, `model_accepts` : the same for `Newton.solveScalar` at ANY scalar type
       (through `solveScalar_eq_loop`, C17C.lean).
  B. `section Real` (class R) — the model over ℝ run with a computed function `fc`:
     * `InexactNewton f f' fc δ r ρ q ε` : (H1) exact Newton contracts, (H2) `|dx_c - f/f'| ≤ ε`,
       (H3) `q ρ + ε ≤ ρ`;
     * `iterates_stay` (a), `limiting_accuracy` (b: `Ok(x)` ⇒ `|x - r| ≤ (q·tol + ε)/(1-q)`;
       `Err(x)` ⇒ `|x - r| ≤ qⁿ|x₀ - r| + ε/(1-q)`), `accepts_within_budget` (c: `tol ≥ (3+q)ε/(1-q)`,
       `q^k₀ ρ ≤ ε/(1-q)`, `maxIter > k₀` ⇒ `Ok`), `accepts_accurately` (both);
     * `exact_newton_contracts` : (H1) with `q = M₂ρ/(2m)` from `|f''| ≤ M₂`, `|f'| ≥ m`;
     * `quot_error`, `EvalError.deriv_error`, `EvalError.perturbed` : if the ONLY error is
       `|fc - f| ≤ η`, the derivative estimate is off by `ε_d = η/|δ| + M₂|δ|/2`, the floor is
       `ε = η/(m - ε_d)` and the rate degrades to `q + (1+q) ε_d/(m - ε_d)`.
  C. `section Rounding` (class F) — the model instantiated at `K := Fl M` (EVERY `+ - * /` of the
     iteration rounded, standard model, Ohsl/Lemmas/Rounding.lean; `abs`, `<=` exact: `hfabs`, `hle`):
     * `FlNewton` : (H1), `|f'| ≥ m`, computed `fc` within `η` of `f`, computed derivative estimate
       `flDeriv` within `ε_d < m` of `f'` at the machine points of the ball;
     * `FlNewton.perturbed` : the rounded step is a perturbed contraction with
       rate `flRate = (1+u)(q + (1+u)(1+q)ε_d/(m-ε_d) + u(1+q))`,
       floor `flFloor = (1+u)² η/(m-ε_d) + u|r|`, test error `τ = u(|r| + ρ)`;
     * `iterates_stay_fl`, `limiting_accuracy_fl`, `accepts_within_budget_fl`,
       `accepts_accurately_fl` : (a)–(c) for the rounded run;
     * `FlEval`, `FlEval.deriv_error`, `FlEval.flNewton` : an explicit `ε_d` for the derivative
       estimate computed in `Fl M`: `E + (L + E)ψ`, `E = M₂|δ|/2 + (η + L u(|r|+ρ+|δ|))/|δ|`,
       `ψ = (1+u)(u + gam 2)/(1 - gam 2) + u`.
  D. `section Examples` — `exInexact` (+ example): `x² - 2` with `fc = f + 10⁻³` meets (H1)–(H3)
     with `ε = 1/2000 > 0` and the model returns `Ok(x)`, `|x - √2| ≤ 1/500`; `floor_is_real` (d):
     `fc(x) = x + c`: the test fails AT the exact root when `tol < |c|`, and the run started at the
     root returns `Ok(-c)`, at distance exactly `ε/(1-q) = |c|` — the bound of (a) is attained;
     `exFlEval`, `exFlNewton` (+ example): the rounded hypotheses hold in the model
     `fl x = (1 + 10⁻³)x` and the run returns `Ok(x)` with `|x - 1| ≤ 3·10⁻³`.

  NOT covered: the complex scalar variant and the two system variants (same pattern with `Cx.abs` /
  norms; the system test is on the residual); overflow, underflow, NaN and the link
  "binary64 satisfies `FlModel`" (assumption of the class-F interpretation, Rounding.lean);
  `O(δ²)` accuracy of the central quotient.
-/
import Ohsl.Props.C17C
import Ohsl.Props.C18R
import Ohsl.Lemmas.Rounding
import Mathlib.Tactic.Ring
import Mathlib.Tactic.Linarith
import Mathlib.Tactic.FieldSimp
import Mathlib.Tactic.Positivity
set_option linter.unusedSectionVars false
set_option linter.unusedVariables false
set_option linter.unusedSimpArgs false
namespace Ohsl.Props.C17
open Ohsl Ohsl.Newton

/-! ### A. the abstract perturbed contraction -/
section Structural
variable {α : Type}

/-- **Perturbed Newton contraction.**  `v x` is the real value of the iterate `x`, `step` the
    update the code performs, `d x` the magnitude the stopping test compares with the tolerance
    (`|dx|`), `r` the root, `ρ` the radius of the ball, `q` the contraction factor of the step,
    `ε` the absolute error committed per step and `τ` the error with which `d x` measures the
    distance `|x - step x|` actually travelled (`τ = 0` in exact arithmetic). -/
structure PerturbedNewton (v : α → ℝ) (step : α → α) (d : α → ℝ) (r ρ q ε τ : ℝ) : Prop where
  q_nonneg : 0 ≤ q
  q_lt_one : q < 1
  eps_nonneg : 0 ≤ ε
  inv : q * ρ + ε ≤ ρ
  contract : ∀ x, |v x - r| ≤ ρ → |v (step x) - r| ≤ q * |v x - r| + ε
  test_err : ∀ x, |v x - r| ≤ ρ → |d x - abs (v x - v (step x))| ≤ τ

namespace PerturbedNewton
variable {v : α → ℝ} {step : α → α} {d : α → ℝ} {r ρ q ε τ : ℝ}

theorem one_sub_pos (H : PerturbedNewton v step d r ρ q ε τ) : 0 < 1 - q := by
  have := H.q_lt_one; linarith

/-- the geometric sum `ε (1 + q + … + q^(k-1)) = ε (1 - q^k)/(1 - q)` obeys the recursion of the
    error bound -/
theorem geom_step (H : PerturbedNewton v step d r ρ q ε τ) (k : ℕ) :
    q * (ε * (1 - q ^ k) / (1 - q)) + ε = ε * (1 - q ^ (k + 1)) / (1 - q) := by
  have h := H.one_sub_pos
  field_simp
  ring

theorem geom_le (H : PerturbedNewton v step d r ρ q ε τ) (k : ℕ) :
    ε * (1 - q ^ k) / (1 - q) ≤ ε / (1 - q) := by
  have h := H.one_sub_pos
  have hq : 0 ≤ q ^ k := pow_nonneg H.q_nonneg k
  apply div_le_div_of_nonneg_right _ h.le
  nlinarith [H.eps_nonneg]

/-- (a) **the iterates stay in the ball and the error decreases geometrically down to the floor
    `ε/(1-q)`** -/
theorem iterates (H : PerturbedNewton v step d r ρ q ε τ) (x₀ : α) (hx₀ : |v x₀ - r| ≤ ρ) (k : ℕ) :
    |v (NewtonGen.iter step x₀ k) - r| ≤ ρ ∧
    |v (NewtonGen.iter step x₀ k) - r| ≤ q ^ k * |v x₀ - r| + ε * (1 - q ^ k) / (1 - q) ∧
    |v (NewtonGen.iter step x₀ k) - r| ≤ q ^ k * |v x₀ - r| + ε / (1 - q) := by
  have main : |v (NewtonGen.iter step x₀ k) - r| ≤ ρ ∧
      |v (NewtonGen.iter step x₀ k) - r| ≤ q ^ k * |v x₀ - r| + ε * (1 - q ^ k) / (1 - q) := by
    induction k with
    | zero => simpa [NewtonGen.iter] using hx₀
    | succ k ih =>
      obtain ⟨i1, i2⟩ := ih
      have hc := H.contract _ i1
      have hq := H.q_nonneg
      show |v (step (NewtonGen.iter step x₀ k)) - r| ≤ ρ ∧ _ ≤ _
      constructor
      · have : q * |v (NewtonGen.iter step x₀ k) - r| ≤ q * ρ := mul_le_mul_of_nonneg_left i1 hq
        linarith [H.inv]
      · have h1 : q * |v (NewtonGen.iter step x₀ k) - r|
            ≤ q * (q ^ k * |v x₀ - r| + ε * (1 - q ^ k) / (1 - q)) :=
          mul_le_mul_of_nonneg_left i2 hq
        have h2 := H.geom_step k
        show |v (step (NewtonGen.iter step x₀ k)) - r| ≤ _
        calc |v (step (NewtonGen.iter step x₀ k)) - r|
            ≤ q * |v (NewtonGen.iter step x₀ k) - r| + ε := hc
          _ ≤ q * (q ^ k * |v x₀ - r| + ε * (1 - q ^ k) / (1 - q)) + ε := by linarith
          _ = q ^ (k + 1) * |v x₀ - r| + (q * (ε * (1 - q ^ k) / (1 - q)) + ε) := by ring
          _ = q ^ (k + 1) * |v x₀ - r| + ε * (1 - q ^ (k + 1)) / (1 - q) := by rw [h2]
  exact ⟨main.1, main.2, le_trans main.2 (by linarith [H.geom_le k])⟩

/-- distance travelled against distance to the root -/
theorem travel (H : PerturbedNewton v step d r ρ q ε τ) (x : α) (hx : |v x - r| ≤ ρ) :
    (1 - q) * |v x - r| ≤ d x + τ + ε ∧ d x ≤ (1 + q) * |v x - r| + ε + τ := by
  have hc := H.contract x hx
  have ht := abs_le.mp (H.test_err x hx)
  have t1 : |v x - r| ≤ |v x - v (step x)| + |v (step x) - r| := by
    have := abs_add_le (v x - v (step x)) (v (step x) - r)
    simpa using this
  have t2 : |v x - v (step x)| ≤ |v x - r| + |v (step x) - r| := by
    have := abs_sub_le (v x) r (v (step x))
    rwa [abs_sub_comm r _] at this
  constructor <;> linarith [ht.1, ht.2]

/-- (b) **an accepted step ends within `(q (tol + τ) + ε)/(1 - q)` of the root** -/
theorem accept (H : PerturbedNewton v step d r ρ q ε τ) (x : α) (hx : |v x - r| ≤ ρ) (tol : ℝ)
    (hd : d x ≤ tol) :
    |v (step x) - r| ≤ (q * (tol + τ) + ε) / (1 - q) := by
  have h := H.one_sub_pos
  have hc := H.contract x hx
  obtain ⟨t1, _⟩ := H.travel x hx
  rw [le_div_iff₀ h]
  have hq := H.q_nonneg
  have : q * ((1 - q) * |v x - r|) ≤ q * (tol + τ + ε) :=
    mul_le_mul_of_nonneg_left (by linarith) hq
  nlinarith

/-- (c) **the test passes at the noise floor**: within `2ε/(1-q)` of the root the measured step is
    at most `(3 + q) ε/(1 - q) + τ` -/
theorem passes (H : PerturbedNewton v step d r ρ q ε τ) (x : α) (hx : |v x - r| ≤ ρ)
    (hx2 : |v x - r| ≤ 2 * ε / (1 - q)) (tol : ℝ) (htol : (3 + q) * ε / (1 - q) + τ ≤ tol) :
    d x ≤ tol := by
  have h := H.one_sub_pos
  obtain ⟨_, t2⟩ := H.travel x hx
  have hq := H.q_nonneg
  have h1 : (1 + q) * |v x - r| ≤ (1 + q) * (2 * ε / (1 - q)) :=
    mul_le_mul_of_nonneg_left hx2 (by linarith)
  have h2 : (1 + q) * (2 * ε / (1 - q)) + ε = (3 + q) * ε / (1 - q) := by
    field_simp
    ring
  linarith

/-- **every run of the bounded early-exit loop** (`NewtonGen.loop`, the common shape of the model's
    scalar Newton loops) whose step is a perturbed contraction and whose stopping test is
    `d x ≤ tol`: the returned point is in the ball; a reported success is within
    `(q (tol + τ) + ε)/(1 - q)` of the root; a reported failure is within `qⁿ|x₀ - r| + ε/(1 - q)`. -/
theorem loop_accuracy (H : PerturbedNewton v step d r ρ q ε τ) (test : α → Bool) (tol : ℝ)
    (htest : ∀ x, |v x - r| ≤ ρ → (test x = true ↔ d x ≤ tol)) (pts : α → List α)
    (n : ℕ) (x₀ : α) (tr : List α) (hx₀ : |v x₀ - r| ≤ ρ) :
    |v (NewtonGen.loop step test pts n x₀ tr).1.x - r| ≤ ρ ∧
    ((NewtonGen.loop step test pts n x₀ tr).1.ok = true →
      |v (NewtonGen.loop step test pts n x₀ tr).1.x - r| ≤ (q * (tol + τ) + ε) / (1 - q)) ∧
    ((NewtonGen.loop step test pts n x₀ tr).1.ok = false →
      |v (NewtonGen.loop step test pts n x₀ tr).1.x - r| ≤ q ^ n * |v x₀ - r| + ε / (1 - q)) := by
  obtain ⟨c1, c2⟩ := NewtonGen.loop_char step test pts n x₀ tr
  refine ⟨?_, fun hok => ?_, fun hok => ?_⟩
  · cases hok : (NewtonGen.loop step test pts n x₀ tr).1.ok with
    | true =>
      obtain ⟨k, _, e1, _⟩ := c1 hok
      rw [e1]; exact (H.iterates x₀ hx₀ (k + 1)).1
    | false =>
      obtain ⟨e1, _⟩ := c2 hok
      rw [e1]; exact (H.iterates x₀ hx₀ n).1
  · obtain ⟨k, _, e1, e2, _⟩ := c1 hok
    rw [e1]
    have hk := (H.iterates x₀ hx₀ k).1
    exact H.accept _ hk tol ((htest _ hk).1 e2)
  · obtain ⟨e1, _⟩ := c2 hok
    rw [e1]; exact (H.iterates x₀ hx₀ n).2.2

/-- **acceptance within the budget**: if `tol` is above the noise floor `(3 + q) ε/(1 - q) + τ` and
    the budget exceeds a `k₀` with `q^k₀ ρ ≤ ε/(1 - q)`, the loop reports success. -/
theorem loop_accepts (H : PerturbedNewton v step d r ρ q ε τ) (test : α → Bool) (tol : ℝ)
    (htest : ∀ x, |v x - r| ≤ ρ → (test x = true ↔ d x ≤ tol)) (pts : α → List α)
    (n : ℕ) (x₀ : α) (tr : List α) (hx₀ : |v x₀ - r| ≤ ρ)
    (htol : (3 + q) * ε / (1 - q) + τ ≤ tol)
    (k₀ : ℕ) (hk₀ : q ^ k₀ * ρ ≤ ε / (1 - q)) (hn : k₀ < n) :
    (NewtonGen.loop step test pts n x₀ tr).1.ok = true := by
  by_contra hne
  have hok : (NewtonGen.loop step test pts n x₀ tr).1.ok = false := by simpa using hne
  obtain ⟨_, e3, _⟩ := (NewtonGen.loop_char step test pts n x₀ tr).2 hok
  have hf := e3 k₀ hn
  obtain ⟨i1, _, i3⟩ := H.iterates x₀ hx₀ k₀
  have hp : q ^ k₀ * |v x₀ - r| ≤ q ^ k₀ * ρ :=
    mul_le_mul_of_nonneg_left hx₀ (pow_nonneg H.q_nonneg _)
  have h2 : |v (NewtonGen.iter step x₀ k₀) - r| ≤ 2 * ε / (1 - q) := by
    have : 2 * ε / (1 - q) = ε / (1 - q) + ε / (1 - q) := by ring
    linarith
  have := (htest _ i1).2 (H.passes _ i1 h2 tol htol)
  rw [this] at hf
  cases hf

end PerturbedNewton

/-! #### the model's scalar loop, any scalar type -/
variable {K : Type} [Add K] [Sub K] [Mul K] [Neg K] [Div K] [Zero K] [One K] [BEq K] [ScalarExt K]
  [Transc K]

/-- **limiting accuracy of `Newton<f64>::solve` as modelled, any scalar type `K` with a real value
    map `v`**: if the model's own update `scalarStep f δ` (`c ↦ c - f c / ((f (c+δ) - f (c-δ))/(2δ))`
    computed in `K`) is a perturbed contraction and the model's stopping test `|dx| <= tol` decides
    `d x ≤ tolR` in the ball, then from a guess in the ball: the returned point is in the ball,
    `Ok(x)` ⇒ `|v x - r| ≤ (q (tolR + τ) + ε)/(1 - q)`, `Err(x)` ⇒ `|v x - r| ≤ qⁿ|v x₀ - r| + ε/(1 - q)`. -/
theorem model_accuracy (v : K → ℝ) (f : K → K) (tol delta : K) (d : K → ℝ) (r ρ q ε τ tolR : ℝ)
    (H : PerturbedNewton v (scalarStep f delta) d r ρ q ε τ)
    (htest : ∀ x, |v x - r| ≤ ρ → (scalarTest f tol delta x = true ↔ d x ≤ tolR))
    (n : ℕ) (x₀ : K) (tr : List K) (hx₀ : |v x₀ - r| ≤ ρ) :
    |v (solveScalar f tol delta n x₀ tr).1.x - r| ≤ ρ ∧
    ((solveScalar f tol delta n x₀ tr).1.ok = true →
      |v (solveScalar f tol delta n x₀ tr).1.x - r| ≤ (q * (tolR + τ) + ε) / (1 - q)) ∧
    ((solveScalar f tol delta n x₀ tr).1.ok = false →
      |v (solveScalar f tol delta n x₀ tr).1.x - r| ≤ q ^ n * |v x₀ - r| + ε / (1 - q)) := by
  rw [solveScalar_eq_loop]
  exact H.loop_accuracy _ tolR htest _ n x₀ tr hx₀

/-- **the model accepts within its budget** when the tolerance is above the noise floor:
    `(3 + q) ε/(1 - q) + τ ≤ tolR`, `q^k₀ ρ ≤ ε/(1 - q)` and `maxIter > k₀` ⇒ `Ok`. -/
theorem model_accepts (v : K → ℝ) (f : K → K) (tol delta : K) (d : K → ℝ) (r ρ q ε τ tolR : ℝ)
    (H : PerturbedNewton v (scalarStep f delta) d r ρ q ε τ)
    (htest : ∀ x, |v x - r| ≤ ρ → (scalarTest f tol delta x = true ↔ d x ≤ tolR))
    (n : ℕ) (x₀ : K) (tr : List K) (hx₀ : |v x₀ - r| ≤ ρ)
    (htol : (3 + q) * ε / (1 - q) + τ ≤ tolR)
    (k₀ : ℕ) (hk₀ : q ^ k₀ * ρ ≤ ε / (1 - q)) (hn : k₀ < n) :
    (solveScalar f tol delta n x₀ tr).1.ok = true := by
  rw [solveScalar_eq_loop]
  exact H.loop_accepts _ tolR htest _ n x₀ tr hx₀ htol k₀ hk₀ hn

end Structural

/-! ### B. the model over ℝ run with a COMPUTED function `fc` -/
section Real
open Ohsl.Props.C18 (newtonDx newtonStep cdiff)

theorem scalarDx_real (fc : ℝ → ℝ) (δ x : ℝ) :
    scalarDx fc δ x = fc x / ((fc (x + δ) - fc (x - δ)) / ((1 + 1) * δ)) := rfl
theorem scalarStep_real (fc : ℝ → ℝ) (δ x : ℝ) : scalarStep fc δ x = x - scalarDx fc δ x := rfl
theorem scalarTest_real (fc : ℝ → ℝ) (tol δ x : ℝ) :
    scalarTest fc tol δ x = true ↔ |scalarDx fc δ x| ≤ tol := by
  simp [scalarTest, Transc.le, Transc.fabs]

/-- **Hypotheses of the limiting-accuracy theorems (real scalar method).**  `f`, `f'` are the exact
    function and derivative, `r` the root, `fc` the function the code actually evaluates (the
    argument of the model's `solve`); the model has no derivative argument: its derivative estimate
    is the central quotient of `fc`, so the computed correction is
    `scalarDx fc δ x = fc x / ((fc (x+δ) - fc (x-δ)) / (2δ))`.
    (H1) the exact Newton map contracts towards `r` on the ball; (H2) the computed correction is
    within `ε` of the exact one; (H3) the ball is invariant. -/
structure InexactNewton (f f' fc : ℝ → ℝ) (δ r ρ q ε : ℝ) : Prop where
  q_nonneg : 0 ≤ q
  q_lt_one : q < 1
  eps_nonneg : 0 ≤ ε
  H1 : ∀ x, |x - r| ≤ ρ → |x - f x / f' x - r| ≤ q * |x - r|
  H2 : ∀ x, |x - r| ≤ ρ → |scalarDx fc δ x - f x / f' x| ≤ ε
  H3 : q * ρ + ε ≤ ρ

/-- (H1)–(H3) make the model's step a perturbed contraction; over ℝ the stopping test measures the
    distance travelled exactly (`τ = 0`) -/
theorem InexactNewton.perturbed {f f' fc : ℝ → ℝ} {δ r ρ q ε : ℝ}
    (H : InexactNewton f f' fc δ r ρ q ε) :
    PerturbedNewton (fun x : ℝ => x) (scalarStep fc δ) (fun x => |scalarDx fc δ x|) r ρ q ε 0 := by
  refine ⟨H.q_nonneg, H.q_lt_one, H.eps_nonneg, H.H3, fun x hx => ?_, fun x hx => ?_⟩
  · have h1 := H.H1 x hx
    have h2 := H.H2 x hx
    have e : scalarStep fc δ x - r = (x - f x / f' x - r) + (f x / f' x - scalarDx fc δ x) := by
      rw [scalarStep_real]; ring
    show |scalarStep fc δ x - r| ≤ _
    rw [e]
    refine (abs_add_le _ _).trans ?_
    rw [abs_sub_comm (f x / f' x)]
    linarith
  · have e : x - scalarStep fc δ x = scalarDx fc δ x := by rw [scalarStep_real]; ring
    show |(|scalarDx fc δ x|) - abs (x - scalarStep fc δ x)| ≤ 0
    rw [e]; simp

/-- (a) **`iterates_stay`**: under (H1)–(H3), from a guess in `I = [r - ρ, r + ρ]` every iterate
    `x_k` of the model (`scalarIter fc δ x₀ k`: `x_{k+1} = x_k - fc x_k / fc'_δ(x_k)`, the sequence
    of `scalar_success_char_strong` / `scalar_failure_carries_last`) stays in `I` and
    `|x_k - r| ≤ q^k |x₀ - r| + ε (1 - q^k)/(1 - q) ≤ q^k |x₀ - r| + ε/(1 - q)`. -/
theorem iterates_stay {f f' fc : ℝ → ℝ} {δ r ρ q ε : ℝ} (H : InexactNewton f f' fc δ r ρ q ε)
    (x₀ : ℝ) (hx₀ : |x₀ - r| ≤ ρ) (k : ℕ) :
    |scalarIter fc δ x₀ k - r| ≤ ρ ∧
    |scalarIter fc δ x₀ k - r| ≤ q ^ k * |x₀ - r| + ε * (1 - q ^ k) / (1 - q) ∧
    |scalarIter fc δ x₀ k - r| ≤ q ^ k * |x₀ - r| + ε / (1 - q) :=
  H.perturbed.iterates x₀ hx₀ k

/-- (b) **`limiting_accuracy`**: what the model's `solve` returns when every step is computed
    inexactly.  The model's stopping test is on the computed STEP, `|dx| <= tol` with
    `dx = fc x_k / fc'_δ(x_k)`, and it returns the UPDATED point `x_{k+1} = x_k - dx` (not `x_k`).
    Under (H1)–(H3), from a guess in `I`, for every tolerance and budget:
    * the returned point is in `I`;
    * `Ok(x)` ⇒ `|x - r| ≤ (q·tol + ε)/(1 - q)`: the accepted point is accurate up to the noise
      floor `ε/(1 - q)` plus the usual `q/(1-q)·tol` (exact case `ε = 0`:
      `C18.newton_scalar_model_converges`);
    * `Err(x)` ⇒ `|x - r| ≤ qⁿ |x₀ - r| + ε/(1 - q)`. -/
theorem limiting_accuracy {f f' fc : ℝ → ℝ} {δ r ρ q ε : ℝ} (H : InexactNewton f f' fc δ r ρ q ε)
    (tol : ℝ) (n : ℕ) (x₀ : ℝ) (tr : List ℝ) (hx₀ : |x₀ - r| ≤ ρ) :
    |(solveScalar fc tol δ n x₀ tr).1.x - r| ≤ ρ ∧
    ((solveScalar fc tol δ n x₀ tr).1.ok = true →
      |(solveScalar fc tol δ n x₀ tr).1.x - r| ≤ (q * tol + ε) / (1 - q)) ∧
    ((solveScalar fc tol δ n x₀ tr).1.ok = false →
      |(solveScalar fc tol δ n x₀ tr).1.x - r| ≤ q ^ n * |x₀ - r| + ε / (1 - q)) := by
  have := model_accuracy (fun x : ℝ => x) fc tol δ (fun x => |scalarDx fc δ x|) r ρ q ε 0 tol
    H.perturbed (fun x _ => scalarTest_real fc tol δ x) n x₀ tr hx₀
  simpa using this

/-- (c) **`accepts_within_budget`**: if `tol` is above the noise floor of the STEP,
    `(3 + q) ε/(1 - q) ≤ tol` (within `2ε/(1-q)` of the root every computed step is at most that:
    `PerturbedNewton.passes`), and the budget exceeds a `k₀` with `q^k₀ ρ ≤ ε/(1 - q)`
    (`k₀ ≥ log(ρ (1-q)/ε) / log(1/q)`), the model reports `Ok` — it does not exhaust its budget. -/
theorem accepts_within_budget {f f' fc : ℝ → ℝ} {δ r ρ q ε : ℝ}
    (H : InexactNewton f f' fc δ r ρ q ε) (tol : ℝ) (n : ℕ) (x₀ : ℝ) (tr : List ℝ)
    (hx₀ : |x₀ - r| ≤ ρ) (htol : (3 + q) * ε / (1 - q) ≤ tol)
    (k₀ : ℕ) (hk₀ : q ^ k₀ * ρ ≤ ε / (1 - q)) (hn : k₀ < n) :
    (solveScalar fc tol δ n x₀ tr).1.ok = true :=
  model_accepts (fun x : ℝ => x) fc tol δ (fun x => |scalarDx fc δ x|) r ρ q ε 0 tol
    H.perturbed (fun x _ => scalarTest_real fc tol δ x) n x₀ tr hx₀ (by linarith) k₀ hk₀ hn

/-- both together: above the noise floor and with a sufficient budget the model returns `Ok(x)`
    with `|x - r| ≤ (q·tol + ε)/(1 - q)` -/
theorem accepts_accurately {f f' fc : ℝ → ℝ} {δ r ρ q ε : ℝ}
    (H : InexactNewton f f' fc δ r ρ q ε) (tol : ℝ) (n : ℕ) (x₀ : ℝ) (tr : List ℝ)
    (hx₀ : |x₀ - r| ≤ ρ) (htol : (3 + q) * ε / (1 - q) ≤ tol)
    (k₀ : ℕ) (hk₀ : q ^ k₀ * ρ ≤ ε / (1 - q)) (hn : k₀ < n) :
    (solveScalar fc tol δ n x₀ tr).1.ok = true ∧
    |(solveScalar fc tol δ n x₀ tr).1.x - r| ≤ (q * tol + ε) / (1 - q) :=
  ⟨accepts_within_budget H tol n x₀ tr hx₀ htol k₀ hk₀ hn,
   (limiting_accuracy H tol n x₀ tr hx₀).2.1 (accepts_within_budget H tol n x₀ tr hx₀ htol k₀ hk₀ hn)⟩

/-! #### where (H1) and (H2) come from -/

/-- **(H1) from second-order data**: `f` twice differentiable on `I = [r - ρ, r + ρ]` with
    `|f''| ≤ M₂`, `|f'| ≥ m > 0` there and `f r = 0`: the exact Newton map contracts with
    `q = M₂ ρ / (2 m)`. -/
theorem exact_newton_contracts (f f' f'' : ℝ → ℝ) (r ρ m M₂ : ℝ) (hm0 : 0 < m)
    (h1 : ∀ s ∈ Set.Icc (r - ρ) (r + ρ), HasDerivAt f (f' s) s)
    (h2 : ∀ s ∈ Set.Icc (r - ρ) (r + ρ), HasDerivAt f' (f'' s) s)
    (hM : ∀ s ∈ Set.Icc (r - ρ) (r + ρ), |f'' s| ≤ M₂)
    (hm : ∀ s ∈ Set.Icc (r - ρ) (r + ρ), m ≤ |f' s|) (hr : f r = 0)
    (x : ℝ) (hx : |x - r| ≤ ρ) :
    |x - f x / f' x - r| ≤ M₂ * ρ / (2 * m) * |x - r| := by
  have hρ : 0 ≤ ρ := le_trans (abs_nonneg _) hx
  obtain ⟨a, b⟩ := abs_le.mp hx
  have hxI : x ∈ Set.Icc (r - ρ) (r + ρ) := ⟨by linarith, by linarith⟩
  have hrI : r ∈ Set.Icc (r - ρ) (r + ρ) := ⟨by linarith, by linarith⟩
  have sub : Set.uIcc x r ⊆ Set.Icc (r - ρ) (r + ρ) := Set.ordConnected_Icc.uIcc_subset hxI hrI
  have hM0 : 0 ≤ M₂ := le_trans (abs_nonneg _) (hM r hrI)
  obtain ⟨_, g⟩ := C18.newton_step_general f f' f'' x r (f' x) 0 m M₂ (fun s hs => h1 s (sub hs))
    (fun s hs => h2 s (sub hs)) (fun s hs => hM s (sub hs)) hr (hm x hxI) (by simp) hm0
  refine g.trans ?_
  rw [sub_zero, zero_mul, add_zero, div_le_iff₀ hm0]
  have e : M₂ * ρ / (2 * m) * |x - r| * m = M₂ / 2 * (ρ * |x - r|) := by
    field_simp
  rw [e]
  have : |x - r| ^ 2 ≤ ρ * |x - r| := by nlinarith [abs_nonneg (x - r)]
  exact mul_le_mul_of_nonneg_left this (by linarith)

/-- **error of a computed quotient**: `|F - φ| ≤ η`, `|D - φ'| ≤ ε_d < m ≤ |φ'|` ⇒ `D ≠ 0` and
    `|F/D - φ/φ'| ≤ (η + |φ/φ'| ε_d)/(m - ε_d)` -/
theorem quot_error (F D φ φ' η εd m : ℝ) (hF : |F - φ| ≤ η) (hD : |D - φ'| ≤ εd)
    (hm : m ≤ |φ'|) (hε : εd < m) :
    D ≠ 0 ∧ |F / D - φ / φ'| ≤ (η + |φ / φ'| * εd) / (m - εd) := by
  have hdl : m - εd ≤ |D| := by
    have := abs_sub_abs_le_abs_sub φ' D
    rw [abs_sub_comm] at this
    linarith
  have hpos : 0 < m - εd := by linarith
  have hD0 : D ≠ 0 := abs_pos.mp (lt_of_lt_of_le hpos hdl)
  have hεd : 0 ≤ εd := le_trans (abs_nonneg _) hD
  have hφ' : φ' ≠ 0 := abs_pos.mp (by linarith)
  refine ⟨hD0, ?_⟩
  have e : F / D - φ / φ' = ((F - φ) + φ / φ' * (φ' - D)) / D := by
    field_simp
    ring
  rw [e, abs_div]
  have hnum : |(F - φ) + φ / φ' * (φ' - D)| ≤ η + |φ / φ'| * εd := by
    refine (abs_add_le _ _).trans ?_
    rw [abs_mul, abs_sub_comm φ' D]
    exact add_le_add hF (mul_le_mul_of_nonneg_left hD (abs_nonneg _))
  exact div_le_div₀ (le_trans (abs_nonneg _) hnum) hnum hpos hdl

/-- size of the exact Newton correction: (H1) ⇒ `|f x / f' x| ≤ (1 + q) |x - r|` -/
theorem exact_correction_le (f f' : ℝ → ℝ) (r q x : ℝ)
    (h : |x - f x / f' x - r| ≤ q * |x - r|) : |f x / f' x| ≤ (1 + q) * |x - r| := by
  have : |f x / f' x| ≤ |x - r| + |x - f x / f' x - r| := by
    have e : x - r - (x - f x / f' x - r) = f x / f' x := by ring
    have := abs_sub (x - r) (x - f x / f' x - r)
    rw [e] at this
    exact this
  linarith

/-- **Hypotheses for "the only error is in the evaluation of `f`"**: `f` is `C²` on the ball of
    radius `ρ + |δ|` with `|f''| ≤ M₂`, `|f'| ≥ m` on the ball of radius `ρ`, the exact Newton map
    contracts with factor `q` (H1), and the computed function `fc` is within `η` of `f` on the
    larger ball. -/
structure EvalError (f f' f'' fc : ℝ → ℝ) (δ r ρ q m M₂ η : ℝ) : Prop where
  hδ : δ ≠ 0
  h1 : ∀ s ∈ Set.Icc (r - (ρ + |δ|)) (r + (ρ + |δ|)), HasDerivAt f (f' s) s
  h2 : ∀ s ∈ Set.Icc (r - (ρ + |δ|)) (r + (ρ + |δ|)), HasDerivAt f' (f'' s) s
  hM : ∀ s ∈ Set.Icc (r - (ρ + |δ|)) (r + (ρ + |δ|)), |f'' s| ≤ M₂
  hm : ∀ s ∈ Set.Icc (r - ρ) (r + ρ), m ≤ |f' s|
  H1 : ∀ x, |x - r| ≤ ρ → |x - f x / f' x - r| ≤ q * |x - r|
  hη : ∀ s ∈ Set.Icc (r - (ρ + |δ|)) (r + (ρ + |δ|)), |fc s - f s| ≤ η

/-- the error of the model's derivative estimate computed from `fc`:
    `|fc'_δ(x) - f'(x)| ≤ η/|δ| + M₂ |δ|/2` (cancellation error + truncation error: the classical
    trade-off in `δ`) -/
theorem EvalError.deriv_error {f f' f'' fc : ℝ → ℝ} {δ r ρ q m M₂ η : ℝ}
    (E : EvalError f f' f'' fc δ r ρ q m M₂ η) (x : ℝ) (hx : |x - r| ≤ ρ) :
    |cdiff fc δ x - f' x| ≤ η / |δ| + M₂ * |δ| / 2 := by
  obtain ⟨a, b⟩ := abs_le.mp hx
  obtain ⟨d1, d2⟩ := abs_le.mp (le_refl |δ|)
  have hδ0 : 0 < |δ| := abs_pos.mpr E.hδ
  have hp : x + δ ∈ Set.Icc (r - (ρ + |δ|)) (r + (ρ + |δ|)) := ⟨by linarith, by linarith⟩
  have hmI : x - δ ∈ Set.Icc (r - (ρ + |δ|)) (r + (ρ + |δ|)) := ⟨by linarith, by linarith⟩
  have sub : Set.uIcc (x - δ) (x + δ) ⊆ Set.Icc (r - (ρ + |δ|)) (r + (ρ + |δ|)) :=
    Set.ordConnected_Icc.uIcc_subset hmI hp
  have hc := C18.centraldiff_error f f' f'' x δ M₂ E.hδ (fun s hs => E.h1 s (sub hs))
    (fun s hs => E.h2 s (sub hs)) (fun s hs => E.hM s (sub hs))
  have e1 := E.hη _ hp
  have e2 := E.hη _ hmI
  have hdiff : |cdiff fc δ x - cdiff f δ x| ≤ η / |δ| := by
    have e : cdiff fc δ x - cdiff f δ x
        = ((fc (x + δ) - f (x + δ)) - (fc (x - δ) - f (x - δ))) / ((1 + 1) * δ) := by
      simp only [cdiff]; rw [← sub_div]; congr 1; ring
    rw [e, abs_div, div_le_div_iff₀ (abs_pos.mpr (by simpa using E.hδ)) hδ0]
    have h2 : |(1 + 1) * δ| = 2 * |δ| := by rw [abs_mul]; norm_num
    rw [h2]
    have := abs_sub (fc (x + δ) - f (x + δ)) (fc (x - δ) - f (x - δ))
    have hη0 : 0 ≤ η := le_trans (abs_nonneg _) e1
    nlinarith
  have : cdiff fc δ x - f' x = (cdiff fc δ x - cdiff f δ x) + (cdiff f δ x - f' x) := by ring
  rw [this]
  refine (abs_add_le _ _).trans ?_
  have hc' : |cdiff f δ x - f' x| ≤ M₂ * |δ| / 2 := hc
  linarith

/-- **(H2)-type bound from the evaluation error alone**, and the resulting perturbed contraction.
    With `ε_d = η/|δ| + M₂|δ|/2 < m` the computed correction satisfies
    `|dx_c - f/f'| ≤ (η + |f/f'| ε_d)/(m - ε_d) ≤ η/(m - ε_d) + (1+q) ε_d/(m - ε_d) · |x - r|`:
    the error of `f` gives the FLOOR `ε = η/(m - ε_d)`, the error of the derivative estimate only
    degrades the RATE to `q' = q + (1+q) ε_d/(m - ε_d)`. -/
theorem EvalError.perturbed {f f' f'' fc : ℝ → ℝ} {δ r ρ q m M₂ η : ℝ}
    (E : EvalError f f' f'' fc δ r ρ q m M₂ η) (hq : 0 ≤ q)
    (hsmall : η / |δ| + M₂ * |δ| / 2 < m)
    (hq' : q + (1 + q) * (η / |δ| + M₂ * |δ| / 2) / (m - (η / |δ| + M₂ * |δ| / 2)) < 1)
    (hinv : (q + (1 + q) * (η / |δ| + M₂ * |δ| / 2) / (m - (η / |δ| + M₂ * |δ| / 2))) * ρ
      + η / (m - (η / |δ| + M₂ * |δ| / 2)) ≤ ρ) (hρ : 0 ≤ ρ) :
    PerturbedNewton (fun x : ℝ => x) (scalarStep fc δ) (fun x => |scalarDx fc δ x|) r ρ
      (q + (1 + q) * (η / |δ| + M₂ * |δ| / 2) / (m - (η / |δ| + M₂ * |δ| / 2)))
      (η / (m - (η / |δ| + M₂ * |δ| / 2))) 0 := by
  set εd := η / |δ| + M₂ * |δ| / 2 with hεd
  have hrI : r ∈ Set.Icc (r - (ρ + |δ|)) (r + (ρ + |δ|)) :=
    ⟨by linarith [abs_nonneg δ], by linarith [abs_nonneg δ]⟩
  have hη0 : 0 ≤ η := le_trans (abs_nonneg _) (E.hη r hrI)
  have hM0 : 0 ≤ M₂ := le_trans (abs_nonneg _) (E.hM r hrI)
  have hεd0 : 0 ≤ εd := by rw [hεd]; positivity
  have hpos : 0 < m - εd := by linarith
  have hκ : 0 ≤ (1 + q) * εd / (m - εd) := by positivity
  refine ⟨by linarith, hq', by positivity, hinv, fun x hx => ?_, fun x hx => ?_⟩
  · obtain ⟨a, b⟩ := abs_le.mp hx
    have hxI : x ∈ Set.Icc (r - ρ) (r + ρ) := ⟨by linarith, by linarith⟩
    have hxJ : x ∈ Set.Icc (r - (ρ + |δ|)) (r + (ρ + |δ|)) :=
      ⟨by linarith [abs_nonneg δ], by linarith [abs_nonneg δ]⟩
    have hd := E.deriv_error x hx
    obtain ⟨_, hQ⟩ := quot_error (fc x) (cdiff fc δ x) (f x) (f' x) η εd m (E.hη x hxJ) hd
      (E.hm x hxI) hsmall
    have hH1 := E.H1 x hx
    have hcorr := exact_correction_le f f' r q x hH1
    have hQ' : |scalarDx fc δ x - f x / f' x| ≤ η / (m - εd) + (1 + q) * εd / (m - εd) * |x - r| := by
      refine hQ.trans ?_
      have : η + |f x / f' x| * εd ≤ η + (1 + q) * |x - r| * εd := by
        have := mul_le_mul_of_nonneg_right hcorr hεd0
        linarith
      calc (η + |f x / f' x| * εd) / (m - εd) ≤ (η + (1 + q) * |x - r| * εd) / (m - εd) :=
            div_le_div_of_nonneg_right this hpos.le
        _ = η / (m - εd) + (1 + q) * εd / (m - εd) * |x - r| := by
            field_simp
    have e : scalarStep fc δ x - r = (x - f x / f' x - r) + (f x / f' x - scalarDx fc δ x) := by
      rw [scalarStep_real]; ring
    show |scalarStep fc δ x - r| ≤ _
    rw [e]
    refine (abs_add_le _ _).trans ?_
    rw [abs_sub_comm (f x / f' x)]
    have : (q + (1 + q) * εd / (m - εd)) * |x - r| = q * |x - r| + (1 + q) * εd / (m - εd) * |x - r| := by
      ring
    linarith
  · have e : x - scalarStep fc δ x = scalarDx fc δ x := by rw [scalarStep_real]; ring
    show |(|scalarDx fc δ x|) - abs (x - scalarStep fc δ x)| ≤ 0
    rw [e]; simp

end Real

/-! ### C. the model run in rounded arithmetic (`K := Fl M`) -/
section Rounding
variable {M : FlModel}

/-- the model's derivative estimate as computed in `Fl M` (four roundings besides those inside
    `fc`: `x ± δ`, the difference, `2 δ` (two), the quotient) -/
noncomputable def flDeriv (fc : Fl M → Fl M) (δ x : Fl M) : Fl M :=
  (fc (x + δ) - fc (x - δ)) / ((1 + 1) * δ)

theorem scalarDx_fl_val (fc : Fl M → Fl M) (δ x : Fl M) :
    (scalarDx fc δ x).val = M.fl ((fc x).val / (flDeriv fc δ x).val) := rfl
theorem scalarStep_fl_val (fc : Fl M → Fl M) (δ x : Fl M) :
    (scalarStep fc δ x).val = M.fl (x.val - (scalarDx fc δ x).val) := rfl

/-- **Hypotheses of the rounded limiting-accuracy theorem.**  `f`, `f'` exact, `r` the root;
    `fc : Fl M → Fl M` the function as the code evaluates it.  (H1) the exact Newton map contracts on
    the ball; `|f'| ≥ m` there; for every machine point `x` of the ball the computed value `fc x` is
    within `η` of `f x` and the computed derivative estimate `flDeriv fc δ x` is within `ε_d < m` of
    `f' x` (a bound for `ε_d` from `η`, `u` and bounds on `f'`, `f''` is `fl_deriv_error`). -/
structure FlNewton (M : FlModel) (f f' : ℝ → ℝ) (fc : Fl M → Fl M) (δ : Fl M)
    (r ρ q m η εd : ℝ) : Prop where
  q_nonneg : 0 ≤ q
  H1 : ∀ x : ℝ, |x - r| ≤ ρ → |x - f x / f' x - r| ≤ q * |x - r|
  hm : ∀ x : ℝ, |x - r| ≤ ρ → m ≤ |f' x|
  hη : ∀ x : Fl M, |x.val - r| ≤ ρ → |(fc x).val - f x.val| ≤ η
  hεd : ∀ x : Fl M, |x.val - r| ≤ ρ → |(flDeriv fc δ x).val - f' x.val| ≤ εd
  hsmall : εd < m

/-- contraction factor of the rounded step:
    `(1+u) (q + (1+u) (1+q) ε_d/(m - ε_d) + u (1+q))` (`= q` for `u = 0`, `ε_d = 0`) -/
noncomputable def flRate (u q m εd : ℝ) : ℝ :=
  (1 + u) * (q + (1 + u) * ((1 + q) * εd / (m - εd)) + u * (1 + q))

/-- absolute error per rounded step: `(1+u)² η/(m - ε_d) + u |r|` — the evaluation error of `f`
    divided by the derivative, plus the rounding of the iterate itself -/
noncomputable def flFloor (u r m η εd : ℝ) : ℝ := (1 + u) ^ 2 * (η / (m - εd)) + u * |r|

/-- the hypotheses are monotone in the two error bounds -/
theorem FlNewton.mono {f f' : ℝ → ℝ} {fc : Fl M → Fl M} {δ : Fl M} {r ρ q m η εd η' εd' : ℝ}
    (H : FlNewton M f f' fc δ r ρ q m η εd) (hη : η ≤ η') (hε : εd ≤ εd') (hs : εd' < m) :
    FlNewton M f f' fc δ r ρ q m η' εd' :=
  ⟨H.q_nonneg, H.H1, H.hm, fun x hx => (H.hη x hx).trans hη, fun x hx => (H.hεd x hx).trans hε, hs⟩

/-- one rounded step from a machine point of the ball: with `Y = x - dx` the unrounded update,
    `|Y - r| ≤ B` and `|fl Y - Y| ≤ u (|r| + B)`, `B = q t + (1+u)(ε₀ + κ₀ t) + u (1+q) t`,
    `t = |x - r|`, `ε₀ = η/(m - ε_d)`, `κ₀ = (1+q) ε_d/(m - ε_d)`. -/
theorem FlNewton.step_bounds {f f' : ℝ → ℝ} {fc : Fl M → Fl M} {δ : Fl M} {r ρ q m η εd : ℝ}
    (H : FlNewton M f f' fc δ r ρ q m η εd) (x : Fl M) (hx : |x.val - r| ≤ ρ) :
    |x.val - (scalarDx fc δ x).val - r|
      ≤ q * |x.val - r| + (1 + M.u) * (η / (m - εd) + (1 + q) * εd / (m - εd) * |x.val - r|)
        + M.u * (1 + q) * |x.val - r| ∧
    |(scalarStep fc δ x).val - (x.val - (scalarDx fc δ x).val)|
      ≤ M.u * (|r| + (q * |x.val - r| + (1 + M.u) * (η / (m - εd)
          + (1 + q) * εd / (m - εd) * |x.val - r|) + M.u * (1 + q) * |x.val - r|)) := by
  have hu := M.u_nonneg
  have hq := H.q_nonneg
  set X := x.val with hX
  set t := |X - r| with ht
  have ht0 : 0 ≤ t := abs_nonneg _
  have hεd0 : 0 ≤ εd := le_trans (abs_nonneg _) (H.hεd x hx)
  have hη0 : 0 ≤ η := le_trans (abs_nonneg _) (H.hη x hx)
  have hpos : 0 < m - εd := by linarith [H.hsmall]
  obtain ⟨_, hQ⟩ := quot_error (fc x).val (flDeriv fc δ x).val (f X) (f' X) η εd m (H.hη x hx)
    (H.hεd x hx) (H.hm X hx) H.hsmall
  have hH1 := H.H1 X hx
  have hcorr := exact_correction_le f f' r q X hH1
  set e := f X / f' X with he
  set G := (fc x).val / (flDeriv fc δ x).val with hG
  set ε₀ := η / (m - εd) with hε₀
  set κ₀ := (1 + q) * εd / (m - εd) with hκ₀
  have hε₀0 : 0 ≤ ε₀ := by positivity
  have hκ₀0 : 0 ≤ κ₀ := by positivity
  have hGe : |G - e| ≤ ε₀ + κ₀ * t := by
    refine hQ.trans ?_
    have : η + |e| * εd ≤ η + (1 + q) * t * εd := by
      have := mul_le_mul_of_nonneg_right hcorr hεd0
      linarith
    calc (η + |e| * εd) / (m - εd) ≤ (η + (1 + q) * t * εd) / (m - εd) :=
          div_le_div_of_nonneg_right this hpos.le
      _ = ε₀ + κ₀ * t := by
          rw [hε₀, hκ₀]; field_simp
  have hGabs : |G| ≤ (1 + q) * t + (ε₀ + κ₀ * t) := by
    have : |G| ≤ |G - e| + |e| := by simpa using abs_add_le (G - e) e
    linarith
  have hdx : |(scalarDx fc δ x).val - G| ≤ M.u * |G| := by
    rw [scalarDx_fl_val]; exact M.fl_err _
  have hedx : |e - (scalarDx fc δ x).val| ≤ (1 + M.u) * (ε₀ + κ₀ * t) + M.u * (1 + q) * t := by
    have e1 : e - (scalarDx fc δ x).val = (e - G) + (G - (scalarDx fc δ x).val) := by ring
    rw [e1]
    refine (abs_add_le _ _).trans ?_
    have a1 : |e - G| = |G - e| := abs_sub_comm _ _
    have a2 : |G - (scalarDx fc δ x).val| = |(scalarDx fc δ x).val - G| := abs_sub_comm _ _
    have := mul_le_mul_of_nonneg_left hGabs hu
    rw [a1, a2]
    linarith
  have hY : |X - (scalarDx fc δ x).val - r|
      ≤ q * t + (1 + M.u) * (ε₀ + κ₀ * t) + M.u * (1 + q) * t := by
    have e1 : X - (scalarDx fc δ x).val - r = (X - e - r) + (e - (scalarDx fc δ x).val) := by ring
    rw [e1]
    refine (abs_add_le _ _).trans ?_
    linarith
  refine ⟨hY, ?_⟩
  rw [scalarStep_fl_val]
  refine (M.fl_err _).trans (mul_le_mul_of_nonneg_left ?_ hu)
  have : |X - (scalarDx fc δ x).val| ≤ |r| + |X - (scalarDx fc δ x).val - r| := by
    have := abs_add_le r (X - (scalarDx fc δ x).val - r)
    simpa using this
  linarith

/-- **the rounded step is a perturbed contraction** with rate `flRate`, floor `flFloor` and test
    error `τ = u (|r| + ρ)` (the test compares `|dx|`, the iterate moves by `|x - fl(x - dx)|`). -/
theorem FlNewton.perturbed {f f' : ℝ → ℝ} {fc : Fl M → Fl M} {δ : Fl M} {r ρ q m η εd : ℝ}
    (H : FlNewton M f f' fc δ r ρ q m η εd) (hρ : 0 ≤ ρ) (hη0 : 0 ≤ η) (hεd0 : 0 ≤ εd)
    (hq' : flRate M.u q m εd < 1)
    (hinv : flRate M.u q m εd * ρ + flFloor M.u r m η εd ≤ ρ) :
    PerturbedNewton Fl.val (scalarStep fc δ) (fun x => |(scalarDx fc δ x).val|) r ρ
      (flRate M.u q m εd) (flFloor M.u r m η εd) (M.u * (|r| + ρ)) := by
  have hu := M.u_nonneg
  have hq := H.q_nonneg
  have hpos : 0 < m - εd := by linarith [H.hsmall]
  have hrate0 : 0 ≤ flRate M.u q m εd := by unfold flRate; positivity
  have hfloor0 : 0 ≤ flFloor M.u r m η εd := by unfold flFloor; positivity
  have key : ∀ x : Fl M, |x.val - r| ≤ ρ →
      (1 + M.u) * (q * |x.val - r| + (1 + M.u) * (η / (m - εd) + (1 + q) * εd / (m - εd) * |x.val - r|)
        + M.u * (1 + q) * |x.val - r|) + M.u * |r|
      = flRate M.u q m εd * |x.val - r| + flFloor M.u r m η εd := by
    intro x _
    unfold flRate flFloor
    ring
  have hB0 : ∀ x : Fl M, 0 ≤ q * |x.val - r| + (1 + M.u) * (η / (m - εd)
      + (1 + q) * εd / (m - εd) * |x.val - r|) + M.u * (1 + q) * |x.val - r| := by
    intro x; positivity
  refine ⟨hrate0, hq', hfloor0, hinv, fun x hx => ?_, fun x hx => ?_⟩
  · obtain ⟨b1, b2⟩ := H.step_bounds x hx
    have e1 : (scalarStep fc δ x).val - r
        = ((scalarStep fc δ x).val - (x.val - (scalarDx fc δ x).val))
          + (x.val - (scalarDx fc δ x).val - r) := by ring
    rw [e1]
    refine (abs_add_le _ _).trans ?_
    rw [← key x hx]
    nlinarith [hB0 x]
  · obtain ⟨b1, b2⟩ := H.step_bounds x hx
    have hBρ : q * |x.val - r| + (1 + M.u) * (η / (m - εd)
        + (1 + q) * εd / (m - εd) * |x.val - r|) + M.u * (1 + q) * |x.val - r| ≤ ρ := by
      have k := key x hx
      have : flRate M.u q m εd * |x.val - r| ≤ flRate M.u q m εd * ρ :=
        mul_le_mul_of_nonneg_left hx hrate0
      nlinarith [hB0 x, abs_nonneg r]
    have h1 := abs_abs_sub_abs_le_abs_sub (scalarDx fc δ x).val (x.val - (scalarStep fc δ x).val)
    have e2 : (scalarDx fc δ x).val - (x.val - (scalarStep fc δ x).val)
        = (scalarStep fc δ x).val - (x.val - (scalarDx fc δ x).val) := by ring
    rw [e2] at h1
    refine h1.trans (b2.trans (mul_le_mul_of_nonneg_left ?_ hu))
    linarith

/-- (F) **iterates of the rounded run**: all in the ball,
    `|x_k - r| ≤ q'^k |x₀ - r| + ε'/(1 - q')` -/
theorem iterates_stay_fl {f f' : ℝ → ℝ} {fc : Fl M → Fl M} {δ : Fl M} {r ρ q m η εd : ℝ}
    (H : FlNewton M f f' fc δ r ρ q m η εd) (hρ : 0 ≤ ρ) (hη0 : 0 ≤ η) (hεd0 : 0 ≤ εd)
    (hq' : flRate M.u q m εd < 1)
    (hinv : flRate M.u q m εd * ρ + flFloor M.u r m η εd ≤ ρ)
    (x₀ : Fl M) (hx₀ : |x₀.val - r| ≤ ρ) (k : ℕ) :
    |(scalarIter fc δ x₀ k).val - r| ≤ ρ ∧
    |(scalarIter fc δ x₀ k).val - r| ≤ flRate M.u q m εd ^ k * |x₀.val - r|
      + flFloor M.u r m η εd * (1 - flRate M.u q m εd ^ k) / (1 - flRate M.u q m εd) ∧
    |(scalarIter fc δ x₀ k).val - r| ≤ flRate M.u q m εd ^ k * |x₀.val - r|
      + flFloor M.u r m η εd / (1 - flRate M.u q m εd) :=
  (H.perturbed hρ hη0 hεd0 hq' hinv).iterates x₀ hx₀ k

/-! #### the error `ε_d` of the derivative estimate computed in `Fl M` -/

/-- `2.0 * δ` as the abstract model computes it (the literal `2.0` is `1 + 1`, rounded; the product
    is rounded): relative error at most `gam 2 = (1+u)² - 1`.  (In IEEE arithmetic both operations
    are exact.) -/
theorem two_delta_err (M : FlModel) (Δ : ℝ) :
    |M.fl (M.fl (1 + 1) * Δ) - (1 + 1) * Δ| ≤ M.gam 2 * |(1 + 1) * Δ| := by
  have hu := M.u_nonneg
  have h1 := M.fl_err (1 + 1)
  have h2 := M.fl_err (M.fl (1 + 1) * Δ)
  have h3 := M.abs_fl_le (1 + 1)
  have e2 : |(1 + 1 : ℝ)| = 2 := by norm_num
  rw [e2] at h1 h3
  have hg : M.gam 2 = 2 * M.u + M.u ^ 2 := by simp only [FlModel.gam]; ring
  have hΔ := abs_nonneg Δ
  have e : M.fl (M.fl (1 + 1) * Δ) - (1 + 1) * Δ
      = (M.fl (M.fl (1 + 1) * Δ) - M.fl (1 + 1) * Δ) + (M.fl (1 + 1) - (1 + 1)) * Δ := by ring
  rw [e, hg, abs_mul (1 + 1 : ℝ), e2]
  refine (abs_add_le _ _).trans ?_
  rw [abs_mul (M.fl (1 + 1) - (1 + 1)) Δ]
  rw [abs_mul] at h2
  have a1 : |M.fl (1 + 1)| * |Δ| ≤ (1 + M.u) * 2 * |Δ| := mul_le_mul_of_nonneg_right h3 hΔ
  have a2 : |M.fl (1 + 1) - (1 + 1)| * |Δ| ≤ M.u * 2 * |Δ| := mul_le_mul_of_nonneg_right h1 hΔ
  have a3 : M.u * (|M.fl (1 + 1)| * |Δ|) ≤ M.u * ((1 + M.u) * 2 * |Δ|) :=
    mul_le_mul_of_nonneg_left a1 hu
  nlinarith

/-- a quotient whose numerator has relative error `u` and whose denominator has relative error
    `g < 1` -/
theorem div_pert (S n₁ d₂ D2 u g : ℝ) (hD2 : D2 ≠ 0) (hu : 0 ≤ u) (hn : |n₁ - S| ≤ u * |S|)
    (hd : |d₂ - D2| ≤ g * |D2|) (hg : g < 1) :
    d₂ ≠ 0 ∧ |n₁ / d₂ - S / D2| ≤ |S / D2| * ((u + g) / (1 - g)) := by
  have hD2' : 0 < |D2| := abs_pos.mpr hD2
  have hg0 : 0 ≤ g := by
    by_contra h
    have h := not_le.mp h
    have : g * |D2| < 0 := mul_neg_of_neg_of_pos h hD2'
    linarith [abs_nonneg (d₂ - D2)]
  have hdl : |D2| * (1 - g) ≤ |d₂| := by
    have := abs_sub_abs_le_abs_sub D2 d₂
    rw [abs_sub_comm] at this
    nlinarith
  have h1g : 0 < 1 - g := by linarith
  have hpos : 0 < |D2| * (1 - g) := mul_pos hD2' h1g
  have hd0 : d₂ ≠ 0 := abs_pos.mp (lt_of_lt_of_le hpos hdl)
  refine ⟨hd0, ?_⟩
  have e : n₁ / d₂ - S / D2 = ((n₁ - S) * D2 + S * (D2 - d₂)) / (d₂ * D2) := by
    field_simp
    ring
  have hnum : |(n₁ - S) * D2 + S * (D2 - d₂)| ≤ |S| * |D2| * (u + g) := by
    refine (abs_add_le _ _).trans ?_
    rw [abs_mul, abs_mul, abs_sub_comm D2 d₂]
    have b1 := mul_le_mul_of_nonneg_right hn (abs_nonneg D2)
    have b2 := mul_le_mul_of_nonneg_left hd (abs_nonneg S)
    nlinarith
  have hden : |D2| * (1 - g) * |D2| ≤ |d₂ * D2| := by
    rw [abs_mul]; exact mul_le_mul_of_nonneg_right hdl (abs_nonneg _)
  have hden0 : 0 < |D2| * (1 - g) * |D2| := mul_pos hpos hD2'
  rw [e, abs_div]
  have hne1 := hD2'.ne'
  have hne2 := h1g.ne'
  calc |(n₁ - S) * D2 + S * (D2 - d₂)| / |d₂ * D2|
      ≤ |S| * |D2| * (u + g) / (|D2| * (1 - g) * |D2|) :=
        div_le_div₀ (mul_nonneg (mul_nonneg (abs_nonneg _) (abs_nonneg _)) (by linarith)) hnum
          hden0 hden
    _ = |S / D2| * ((u + g) / (1 - g)) := by
        rw [abs_div]; field_simp

/-- radius of the ball that contains the rounded evaluation points `fl(x ± δ)`, `|x - r| ≤ ρ` -/
noncomputable def flRadius (u r ρ Δ : ℝ) : ℝ := ρ + |Δ| + u * (|r| + ρ + |Δ|)

/-- error of the UNROUNDED central quotient of the computed values at the rounded points:
    truncation `M₂|δ|/2` + evaluation/cancellation `η/|δ|` + rounding of the evaluation points
    `L u (|r| + ρ + |δ|)/|δ|` (this last term is why `δ` must not be small against `u |x|`) -/
noncomputable def flQuotErr (u Δ r ρ L M₂ η : ℝ) : ℝ :=
  M₂ * |Δ| / 2 + (η + L * (u * (|r| + ρ + |Δ|))) / |Δ|

/-- relative error of the three remaining roundings (difference, `2δ`, quotient): `≈ 4u` -/
noncomputable def flPsi (u g₂ : ℝ) : ℝ := (1 + u) * ((u + g₂) / (1 - g₂)) + u

/-- **Hypotheses for the derivative estimate in `Fl M`**: `δ ≠ 0`, `gam 2 < 1`, `f` is `C²` on the
    ball of radius `flRadius` with `|f'| ≤ L`, `|f''| ≤ M₂` there, and at every machine point of
    that ball the computed `fc` is within `η` of `f`. -/
structure FlEval (M : FlModel) (f f' f'' : ℝ → ℝ) (fc : Fl M → Fl M) (δ : Fl M)
    (r ρ L M₂ η : ℝ) : Prop where
  hδ : δ.val ≠ 0
  hg : M.gam 2 < 1
  h1 : ∀ s ∈ Set.Icc (r - flRadius M.u r ρ δ.val) (r + flRadius M.u r ρ δ.val),
    HasDerivAt f (f' s) s
  h2 : ∀ s ∈ Set.Icc (r - flRadius M.u r ρ δ.val) (r + flRadius M.u r ρ δ.val),
    HasDerivAt f' (f'' s) s
  hM : ∀ s ∈ Set.Icc (r - flRadius M.u r ρ δ.val) (r + flRadius M.u r ρ δ.val), |f'' s| ≤ M₂
  hL : ∀ s ∈ Set.Icc (r - flRadius M.u r ρ δ.val) (r + flRadius M.u r ρ δ.val), |f' s| ≤ L
  hη : ∀ y : Fl M, |y.val - r| ≤ flRadius M.u r ρ δ.val → |(fc y).val - f y.val| ≤ η

/-- (F) **error of the model's derivative estimate computed in `Fl M`**: at every machine point
    `x` of the ball, `|flDeriv fc δ x - f'(x)| ≤ E + (L + E) ψ`, `E = flQuotErr`, `ψ = flPsi`. -/
theorem FlEval.deriv_error {f f' f'' : ℝ → ℝ} {fc : Fl M → Fl M} {δ : Fl M} {r ρ L M₂ η : ℝ}
    (E : FlEval M f f' f'' fc δ r ρ L M₂ η) (x : Fl M) (hx : |x.val - r| ≤ ρ) :
    |(flDeriv fc δ x).val - f' x.val|
      ≤ flQuotErr M.u δ.val r ρ L M₂ η
        + (L + flQuotErr M.u δ.val r ρ L M₂ η) * flPsi M.u (M.gam 2) := by
  have hu := M.u_nonneg
  set X := x.val with hX
  set Δ := δ.val with hΔ
  set R₁ := flRadius M.u r ρ Δ with hR₁
  set Bd := |r| + ρ + |Δ| with hBd
  have hρ : 0 ≤ ρ := le_trans (abs_nonneg _) hx
  have hΔ0 : 0 < |Δ| := abs_pos.mpr E.hδ
  obtain ⟨a, b⟩ := abs_le.mp hx
  obtain ⟨d1, d2⟩ := abs_le.mp (le_refl |Δ|)
  have r1 := neg_abs_le r
  have r2 := le_abs_self r
  have hBd0 : 0 ≤ Bd := by rw [hBd]; positivity
  have hR₁e : R₁ = ρ + |Δ| + M.u * Bd := rfl
  have huB : 0 ≤ M.u * Bd := mul_nonneg hu hBd0
  have mem : ∀ y, |y - r| ≤ R₁ → y ∈ Set.Icc (r - R₁) (r + R₁) := by
    intro y hy
    obtain ⟨p, q⟩ := abs_le.mp hy
    constructor <;> linarith
  have hXp : |X + Δ| ≤ Bd := by rw [abs_le]; constructor <;> linarith
  have hXm : |X - Δ| ≤ Bd := by rw [abs_le]; constructor <;> linarith
  have hA : |(x + δ).val - (X + Δ)| ≤ M.u * Bd :=
    (M.fl_err _).trans (mul_le_mul_of_nonneg_left hXp hu)
  have hB : |(x - δ).val - (X - Δ)| ≤ M.u * Bd :=
    (M.fl_err _).trans (mul_le_mul_of_nonneg_left hXm hu)
  obtain ⟨A1, A2⟩ := abs_le.mp hA
  obtain ⟨B1, B2⟩ := abs_le.mp hB
  have hAr : |(x + δ).val - r| ≤ R₁ := by rw [abs_le]; constructor <;> linarith
  have hBr : |(x - δ).val - r| ≤ R₁ := by rw [abs_le]; constructor <;> linarith
  have hpr : |X + Δ - r| ≤ R₁ := by rw [abs_le]; constructor <;> linarith
  have hmr : |X - Δ - r| ≤ R₁ := by rw [abs_le]; constructor <;> linarith
  have hxr : |X - r| ≤ R₁ := by rw [abs_le]; constructor <;> linarith
  have hL0 : 0 ≤ L := le_trans (abs_nonneg _) (E.hL X (mem X hxr))
  have hM0 : 0 ≤ M₂ := le_trans (abs_nonneg _) (E.hM X (mem X hxr))
  have hη0 : 0 ≤ η := le_trans (abs_nonneg _) (E.hη x hxr)
  have lip : ∀ y z, y ∈ Set.Icc (r - R₁) (r + R₁) → z ∈ Set.Icc (r - R₁) (r + R₁) →
      |f z - f y| ≤ L * |z - y| := by
    intro y z hy hz
    have := Convex.norm_image_sub_le_of_norm_hasDerivWithin_le (f := f) (f' := f')
      (s := Set.Icc (r - R₁) (r + R₁)) (fun s hs => (E.h1 s hs).hasDerivWithinAt)
      (fun s hs => by rw [Real.norm_eq_abs]; exact E.hL s hs) (convex_Icc _ _) hy hz
    simpa [Real.norm_eq_abs] using this
  have hfA : |f (x + δ).val - f (X + Δ)| ≤ L * (M.u * Bd) :=
    (lip _ _ (mem _ hpr) (mem _ hAr)).trans (mul_le_mul_of_nonneg_left hA hL0)
  have hfB : |f (x - δ).val - f (X - Δ)| ≤ L * (M.u * Bd) :=
    (lip _ _ (mem _ hmr) (mem _ hBr)).trans (mul_le_mul_of_nonneg_left hB hL0)
  have hFA := E.hη (x + δ) hAr
  have hFB := E.hη (x - δ) hBr
  set FA := (fc (x + δ)).val with hFAd
  set FB := (fc (x - δ)).val with hFBd
  -- the unrounded quotient of the computed values
  have sub : Set.uIcc (X - Δ) (X + Δ) ⊆ Set.Icc (r - R₁) (r + R₁) :=
    Set.ordConnected_Icc.uIcc_subset (mem _ hmr) (mem _ hpr)
  have hc : |(f (X + Δ) - f (X - Δ)) / ((1 + 1) * Δ) - f' X| ≤ M₂ * |Δ| / 2 :=
    C18.centraldiff_error f f' f'' X Δ M₂ E.hδ (fun s hs => E.h1 s (sub hs))
      (fun s hs => E.h2 s (sub hs)) (fun s hs => E.hM s (sub hs))
  have h2Δ : (1 + 1) * Δ ≠ 0 := by simpa using E.hδ
  have habs2Δ : |(1 + 1) * Δ| = 2 * |Δ| := by rw [abs_mul]; norm_num
  have hSdiff : |(FA - FB) - (f (X + Δ) - f (X - Δ))| ≤ 2 * (η + L * (M.u * Bd)) := by
    have e : (FA - FB) - (f (X + Δ) - f (X - Δ))
        = ((FA - f (x + δ).val) + (f (x + δ).val - f (X + Δ)))
          - ((FB - f (x - δ).val) + (f (x - δ).val - f (X - Δ))) := by ring
    rw [e]
    refine (abs_sub _ _).trans ?_
    have t1 := abs_add_le (FA - f (x + δ).val) (f (x + δ).val - f (X + Δ))
    have t2 := abs_add_le (FB - f (x - δ).val) (f (x - δ).val - f (X - Δ))
    linarith
  have hQ : |(FA - FB) / ((1 + 1) * Δ) - f' X| ≤ flQuotErr M.u Δ r ρ L M₂ η := by
    have e : (FA - FB) / ((1 + 1) * Δ) - f' X
        = ((FA - FB) - (f (X + Δ) - f (X - Δ))) / ((1 + 1) * Δ)
          + ((f (X + Δ) - f (X - Δ)) / ((1 + 1) * Δ) - f' X) := by
      rw [sub_div]; ring
    rw [e]
    refine (abs_add_le _ _).trans ?_
    have : |((FA - FB) - (f (X + Δ) - f (X - Δ))) / ((1 + 1) * Δ)|
        ≤ (η + L * (M.u * Bd)) / |Δ| := by
      rw [abs_div, habs2Δ, div_le_div_iff₀ (by linarith) hΔ0]
      nlinarith
    unfold flQuotErr
    linarith
  set Q := (FA - FB) / ((1 + 1) * Δ) with hQd
  set EQ := flQuotErr M.u Δ r ρ L M₂ η with hEQ
  have hEQ0 : 0 ≤ EQ := le_trans (abs_nonneg _) hQ
  have hQabs : |Q| ≤ L + EQ := by
    have : |Q| ≤ |Q - f' X| + |f' X| := by simpa using abs_add_le (Q - f' X) (f' X)
    linarith [E.hL X (mem X hxr)]
  -- the three roundings
  obtain ⟨hd0, hdiv⟩ := div_pert (FA - FB) (M.fl (FA - FB)) (M.fl (M.fl (1 + 1) * Δ)) ((1 + 1) * Δ)
    M.u (M.gam 2) h2Δ hu (M.fl_err _) (two_delta_err M Δ) E.hg
  have hval : (flDeriv fc δ x).val = M.fl (M.fl (FA - FB) / M.fl (M.fl (1 + 1) * Δ)) := rfl
  set W := M.fl (FA - FB) / M.fl (M.fl (1 + 1) * Δ) with hW
  have hg0 := M.gam_nonneg 2
  have h1g : 0 < 1 - M.gam 2 := by linarith [E.hg]
  have hφ0 : 0 ≤ (M.u + M.gam 2) / (1 - M.gam 2) := div_nonneg (by linarith) h1g.le
  have hdiv' : |W - Q| ≤ |Q| * ((M.u + M.gam 2) / (1 - M.gam 2)) := hdiv
  have hWabs : |W| ≤ |Q| + |Q| * ((M.u + M.gam 2) / (1 - M.gam 2)) := by
    have : |W| ≤ |W - Q| + |Q| := by simpa using abs_add_le (W - Q) Q
    linarith
  have hfl : |M.fl W - W| ≤ M.u * |W| := M.fl_err W
  have hDQ : |M.fl W - Q| ≤ |Q| * flPsi M.u (M.gam 2) := by
    have e : M.fl W - Q = (M.fl W - W) + (W - Q) := by ring
    rw [e]
    refine (abs_add_le _ _).trans ?_
    have h3 := mul_le_mul_of_nonneg_left hWabs hu
    have e2 : |Q| * flPsi M.u (M.gam 2)
        = M.u * (|Q| + |Q| * ((M.u + M.gam 2) / (1 - M.gam 2)))
          + |Q| * ((M.u + M.gam 2) / (1 - M.gam 2)) := by
      unfold flPsi; ring
    rw [e2]
    linarith
  have hψ0 : 0 ≤ flPsi M.u (M.gam 2) := by unfold flPsi; positivity
  rw [hval]
  have e : M.fl W - f' X = (M.fl W - Q) + (Q - f' X) := by ring
  rw [e]
  refine (abs_add_le _ _).trans ?_
  have := mul_le_mul_of_nonneg_right hQabs hψ0
  linarith

/-- (F) **from evaluation data to `FlNewton`**: `FlEval` + (H1) + `|f'| ≥ m` give the hypotheses of
    the rounded limiting-accuracy theorems with `ε_d = E + (L + E) ψ`. -/
theorem FlEval.flNewton {f f' f'' : ℝ → ℝ} {fc : Fl M → Fl M} {δ : Fl M} {r ρ L M₂ η q m : ℝ}
    (E : FlEval M f f' f'' fc δ r ρ L M₂ η) (hq : 0 ≤ q) (hρ : 0 ≤ ρ)
    (H1 : ∀ x : ℝ, |x - r| ≤ ρ → |x - f x / f' x - r| ≤ q * |x - r|)
    (hm : ∀ x : ℝ, |x - r| ≤ ρ → m ≤ |f' x|)
    (hsmall : flQuotErr M.u δ.val r ρ L M₂ η
        + (L + flQuotErr M.u δ.val r ρ L M₂ η) * flPsi M.u (M.gam 2) < m) :
    FlNewton M f f' fc δ r ρ q m η
      (flQuotErr M.u δ.val r ρ L M₂ η
        + (L + flQuotErr M.u δ.val r ρ L M₂ η) * flPsi M.u (M.gam 2)) := by
  have hR : ρ ≤ flRadius M.u r ρ δ.val := by
    unfold flRadius
    have := M.u_nonneg
    have : 0 ≤ M.u * (|r| + ρ + |δ.val|) := by positivity
    linarith [abs_nonneg δ.val]
  exact ⟨hq, H1, hm, fun x hx => E.hη x (hx.trans hR), fun x hx => E.deriv_error x hx, hsmall⟩

variable [T : Transc (Fl M)]

/-- the stopping test, for an exact `abs` and an exact comparison -/
theorem scalarTest_fl (hfabs : ∀ x : Fl M, (Transc.fabs x).val = |x.val|)
    (hle : ∀ a b : Fl M, Transc.le a b = decide (a.val ≤ b.val))
    (fc : Fl M → Fl M) (tol δ x : Fl M) :
    scalarTest fc tol δ x = true ↔ |(scalarDx fc δ x).val| ≤ tol.val := by
  simp [scalarTest, hle, hfabs]

/-- (F) **limiting accuracy of the model run in rounded arithmetic** (`K := Fl M`, every `+ - * /`
    of the iteration rounded; exact `abs` and `<=`).  From a machine guess in the ball, for every
    tolerance and budget: the returned point is in the ball;
    `Ok(x)` ⇒ `|x - r| ≤ (q' (tol + u (|r| + ρ)) + ε')/(1 - q')`;
    `Err(x)` ⇒ `|x - r| ≤ q'ⁿ |x₀ - r| + ε'/(1 - q')`, with `q' = flRate`, `ε' = flFloor`. -/
theorem limiting_accuracy_fl (hfabs : ∀ x : Fl M, (Transc.fabs x).val = |x.val|)
    (hle : ∀ a b : Fl M, Transc.le a b = decide (a.val ≤ b.val))
    {f f' : ℝ → ℝ} {fc : Fl M → Fl M} {δ : Fl M} {r ρ q m η εd : ℝ}
    (H : FlNewton M f f' fc δ r ρ q m η εd) (hρ : 0 ≤ ρ) (hη0 : 0 ≤ η) (hεd0 : 0 ≤ εd)
    (hq' : flRate M.u q m εd < 1)
    (hinv : flRate M.u q m εd * ρ + flFloor M.u r m η εd ≤ ρ)
    (tol : Fl M) (n : ℕ) (x₀ : Fl M) (tr : List (Fl M)) (hx₀ : |x₀.val - r| ≤ ρ) :
    |(solveScalar fc tol δ n x₀ tr).1.x.val - r| ≤ ρ ∧
    ((solveScalar fc tol δ n x₀ tr).1.ok = true →
      |(solveScalar fc tol δ n x₀ tr).1.x.val - r|
        ≤ (flRate M.u q m εd * (tol.val + M.u * (|r| + ρ)) + flFloor M.u r m η εd)
            / (1 - flRate M.u q m εd)) ∧
    ((solveScalar fc tol δ n x₀ tr).1.ok = false →
      |(solveScalar fc tol δ n x₀ tr).1.x.val - r|
        ≤ flRate M.u q m εd ^ n * |x₀.val - r|
            + flFloor M.u r m η εd / (1 - flRate M.u q m εd)) :=
  model_accuracy Fl.val fc tol δ _ r ρ _ _ _ tol.val (H.perturbed hρ hη0 hεd0 hq' hinv)
    (fun x _ => scalarTest_fl hfabs hle fc tol δ x) n x₀ tr hx₀

/-- (F) **the rounded run accepts within its budget** when `tol` is above the noise floor
    `(3 + q') ε'/(1 - q') + u (|r| + ρ)` and `maxIter > k₀`, `q'^k₀ ρ ≤ ε'/(1 - q')`. -/
theorem accepts_within_budget_fl (hfabs : ∀ x : Fl M, (Transc.fabs x).val = |x.val|)
    (hle : ∀ a b : Fl M, Transc.le a b = decide (a.val ≤ b.val))
    {f f' : ℝ → ℝ} {fc : Fl M → Fl M} {δ : Fl M} {r ρ q m η εd : ℝ}
    (H : FlNewton M f f' fc δ r ρ q m η εd) (hρ : 0 ≤ ρ) (hη0 : 0 ≤ η) (hεd0 : 0 ≤ εd)
    (hq' : flRate M.u q m εd < 1)
    (hinv : flRate M.u q m εd * ρ + flFloor M.u r m η εd ≤ ρ)
    (tol : Fl M) (n : ℕ) (x₀ : Fl M) (tr : List (Fl M)) (hx₀ : |x₀.val - r| ≤ ρ)
    (htol : (3 + flRate M.u q m εd) * flFloor M.u r m η εd / (1 - flRate M.u q m εd)
      + M.u * (|r| + ρ) ≤ tol.val)
    (k₀ : ℕ) (hk₀ : flRate M.u q m εd ^ k₀ * ρ
      ≤ flFloor M.u r m η εd / (1 - flRate M.u q m εd)) (hn : k₀ < n) :
    (solveScalar fc tol δ n x₀ tr).1.ok = true :=
  model_accepts Fl.val fc tol δ _ r ρ _ _ _ tol.val (H.perturbed hρ hη0 hεd0 hq' hinv)
    (fun x _ => scalarTest_fl hfabs hle fc tol δ x) n x₀ tr hx₀ htol k₀ hk₀ hn

/-- (F) both together: above the noise floor and with a sufficient budget the rounded run returns
    `Ok(x)` with `|x - r| ≤ (q' (tol + u (|r| + ρ)) + ε')/(1 - q')` -/
theorem accepts_accurately_fl (hfabs : ∀ x : Fl M, (Transc.fabs x).val = |x.val|)
    (hle : ∀ a b : Fl M, Transc.le a b = decide (a.val ≤ b.val))
    {f f' : ℝ → ℝ} {fc : Fl M → Fl M} {δ : Fl M} {r ρ q m η εd : ℝ}
    (H : FlNewton M f f' fc δ r ρ q m η εd) (hρ : 0 ≤ ρ) (hη0 : 0 ≤ η) (hεd0 : 0 ≤ εd)
    (hq' : flRate M.u q m εd < 1)
    (hinv : flRate M.u q m εd * ρ + flFloor M.u r m η εd ≤ ρ)
    (tol : Fl M) (n : ℕ) (x₀ : Fl M) (tr : List (Fl M)) (hx₀ : |x₀.val - r| ≤ ρ)
    (htol : (3 + flRate M.u q m εd) * flFloor M.u r m η εd / (1 - flRate M.u q m εd)
      + M.u * (|r| + ρ) ≤ tol.val)
    (k₀ : ℕ) (hk₀ : flRate M.u q m εd ^ k₀ * ρ
      ≤ flFloor M.u r m η εd / (1 - flRate M.u q m εd)) (hn : k₀ < n) :
    (solveScalar fc tol δ n x₀ tr).1.ok = true ∧
    |(solveScalar fc tol δ n x₀ tr).1.x.val - r|
      ≤ (flRate M.u q m εd * (tol.val + M.u * (|r| + ρ)) + flFloor M.u r m η εd)
          / (1 - flRate M.u q m εd) := by
  have hok := accepts_within_budget_fl hfabs hle H hρ hη0 hεd0 hq' hinv tol n x₀ tr hx₀ htol k₀ hk₀ hn
  exact ⟨hok, (limiting_accuracy_fl hfabs hle H hρ hη0 hεd0 hq' hinv tol n x₀ tr hx₀).2.1 hok⟩

end Rounding

/-! ### D. the hypotheses are satisfiable; the floor is real -/
section Examples
open Ohsl.Props.C18 (newtonDx newtonStep cdiff)

/-- the central quotient of a quadratic is exact -/
theorem cdiff_sq (c δ x : ℝ) (hδ : δ ≠ 0) : cdiff (fun x : ℝ => x ^ 2 - 2 + c) δ x = 2 * x := by
  simp only [cdiff]; field_simp; ring

/-- **non-vacuity of (H1)–(H3) with `ε > 0`**: `f(x) = x² - 2`, the computed function
    `fc = f + 1/1000` (a constant evaluation error), root `√2`, `I = [√2 - 1/4, √2 + 1/4]`,
    any `δ ≠ 0`, `q = 1/8`, `ε = 1/2000`. -/
theorem exInexact (δ : ℝ) (hδ : δ ≠ 0) :
    InexactNewton (fun x : ℝ => x ^ 2 - 2) (fun x => 2 * x) (fun x => x ^ 2 - 2 + 1 / 1000) δ
      (√2) (1 / 4) (1 / 8) (1 / 2000) := by
  obtain ⟨lo, hi⟩ := C18.sqrt_two_bounds
  have hs : √2 ^ 2 = 2 := Real.sq_sqrt (by norm_num)
  refine ⟨by norm_num, by norm_num, by norm_num, fun x hx => ?_, fun x hx => ?_, by norm_num⟩
  · obtain ⟨a, b⟩ := abs_le.mp hx
    have hx1 : 1 ≤ x := by linarith
    have e : x - (x ^ 2 - 2) / (2 * x) - √2 = (x - √2) ^ 2 / (2 * x) := by
      field_simp
      linear_combination (-1 : ℝ) * hs
    show |x - (x ^ 2 - 2) / (2 * x) - √2| ≤ _
    rw [e, abs_div, abs_of_pos (show (0:ℝ) < 2 * x by linarith), abs_pow,
      div_le_iff₀ (by linarith)]
    nlinarith [abs_nonneg (x - √2)]
  · obtain ⟨a, b⟩ := abs_le.mp hx
    have hx1 : 1 ≤ x := by linarith
    have e : scalarDx (fun x : ℝ => x ^ 2 - 2 + 1 / 1000) δ x - (x ^ 2 - 2) / (2 * x)
        = 1 / 1000 / (2 * x) := by
      have := cdiff_sq (1 / 1000) δ x hδ
      simp only [cdiff] at this
      rw [scalarDx_real, this]
      field_simp
      ring
    show |scalarDx (fun x : ℝ => x ^ 2 - 2 + 1 / 1000) δ x - (x ^ 2 - 2) / (2 * x)| ≤ _
    rw [e, abs_of_pos (by positivity), div_le_iff₀ (by linarith)]
    nlinarith

/-- … and the conclusion for the model: from the guess `3/2`, with `tol = 1/100` and a budget of
    four iterations, `solve` applied to the perturbed function reports `Ok(x)` with
    `|x - √2| ≤ 1/500` (`= (q·tol + ε)/(1 - q)`) -/
example (δ : ℝ) (hδ : δ ≠ 0) :
    (solveScalar (fun x : ℝ => x ^ 2 - 2 + 1 / 1000) (1 / 100) δ 4 (3 / 2) []).1.ok = true ∧
    |(solveScalar (fun x : ℝ => x ^ 2 - 2 + 1 / 1000) (1 / 100) δ 4 (3 / 2) []).1.x - √2|
      ≤ 1 / 500 := by
  obtain ⟨lo, hi⟩ := C18.sqrt_two_bounds
  have := accepts_accurately (exInexact δ hδ) (1 / 100) 4 (3 / 2) []
    (by rw [abs_le]; constructor <;> linarith) (by norm_num) 3 (by norm_num) (by norm_num)
  refine ⟨this.1, this.2.trans (by norm_num)⟩

theorem cdiff_shift (c δ x : ℝ) (hδ : δ ≠ 0) : cdiff (fun x : ℝ => x + c) δ x = 1 := by
  simp only [cdiff]; field_simp; ring

/-- (d) **the floor is real, and the bound of `iterates_stay` is attained.**  Take `f(x) = x`
    (root `0`, `f' = 1`, exact Newton map `N ≡ 0`, so `q = 0`) evaluated with a constant error:
    `fc(x) = x + c`.  The computed correction at `x` is `x + c` — off by exactly `ε = |c|` — and:
    * at the exact root the test quantity is `|fc 0 / fc'_δ(0)| = |c|`: with `tol < |c|` the
      iteration does NOT accept at the root;
    * started AT the root with `0 ≤ tol < |c|` and a budget `≥ 2`, the model walks away from it
      and reports `Ok(-c)`: the accepted point is at distance exactly `|c| = ε/(1 - q)` from the
      root of `f`, whatever the tolerance — a tolerance below the evaluation error of `f` (divided
      by `|f'|`) buys nothing. -/
theorem floor_is_real (c δ tol : ℝ) (hδ : δ ≠ 0) (htol0 : 0 ≤ tol) (htol : tol < |c|)
    (n : ℕ) (tr : List ℝ) :
    scalarTest (fun x : ℝ => x + c) tol δ 0 = false ∧
    (solveScalar (fun x : ℝ => x + c) tol δ (n + 2) 0 tr).1.ok = true ∧
    (solveScalar (fun x : ℝ => x + c) tol δ (n + 2) 0 tr).1.x = -c ∧
    InexactNewton (fun x : ℝ => x) (fun _ => 1) (fun x => x + c) δ 0 |c| 0 |c| := by
  have hdx : ∀ x, newtonDx (fun x : ℝ => x + c) δ x = x + c := by
    intro x; simp only [newtonDx, cdiff_shift c δ x hδ, div_one]
  have hdx' : ∀ x, scalarDx (fun x : ℝ => x + c) δ x = x + c := hdx
  refine ⟨?_, ?_, ?_, ?_⟩
  · have : ¬ scalarTest (fun x : ℝ => x + c) tol δ 0 = true := by
      rw [scalarTest_real, hdx']; simpa using htol
    simpa using this
  · rw [C18.solveScalar_cont _ _ _ _ _ _ (by rw [hdx]; simpa using htol)]
    rw [C18.solveScalar_stop _ _ _ _ _ _ (by rw [newtonStep, hdx, hdx]; simpa using htol0)]
  · rw [C18.solveScalar_cont _ _ _ _ _ _ (by rw [hdx]; simpa using htol)]
    rw [C18.solveScalar_stop _ _ _ _ _ _ (by rw [newtonStep, hdx, hdx]; simpa using htol0)]
    show newtonStep _ δ (newtonStep _ δ 0) = -c
    simp only [newtonStep, hdx]; ring
  · refine ⟨le_refl _, by norm_num, abs_nonneg _, fun x _ => by simp, fun x _ => ?_, by simp⟩
    rw [hdx']; simp

/-! #### a rounded instance -/

/-- a `Transc (Fl M)` for the example below: `abs`, `max`, `<=` and the constants exact (the Newton
    model uses only `abs` and `<=`), every other member the real function rounded once (the same
    choice as `C03.flTransc`) -/
@[reducible] noncomputable def exTransc (M : FlModel) : Transc (Fl M) where
  sqrt x := ⟨M.fl (Transc.sqrt x.val)⟩
  sin x := ⟨M.fl (Transc.sin x.val)⟩
  cos x := ⟨M.fl (Transc.cos x.val)⟩
  tan x := ⟨M.fl (Transc.tan x.val)⟩
  exp x := ⟨M.fl (Transc.exp x.val)⟩
  ln x := ⟨M.fl (Transc.ln x.val)⟩
  sinh x := ⟨M.fl (Transc.sinh x.val)⟩
  cosh x := ⟨M.fl (Transc.cosh x.val)⟩
  fabs x := ⟨|x.val|⟩
  atan2 y x := ⟨M.fl (Transc.atan2 y.val x.val)⟩
  powf x y := ⟨M.fl (Transc.powf x.val y.val)⟩
  fmax x y := ⟨max x.val y.val⟩
  ofNat n := ⟨M.fl (n : ℝ)⟩
  le a b := decide (a.val ≤ b.val)
  half := ⟨Transc.half⟩
  piHalf := ⟨M.fl Transc.piHalf⟩
  eps := ⟨Transc.eps⟩
  snap := ⟨M.fl Transc.snap⟩

attribute [local instance] exTransc

/-- the model `fl x = (1 + 10⁻³) x`: every operation commits the full relative error `u = 10⁻³` -/
noncomputable def exM : FlModel := FlModel.scale (1 / 1000) (by norm_num)

theorem exM_u : exM.u = 1 / 1000 := rfl
theorem exM_gam2 : exM.gam 2 = 2001 / 1000000 := by
  simp only [FlModel.gam, exM_u]; norm_num

/-- **non-vacuity of the rounded hypotheses with `u > 0`**: `f(x) = x - 1` (root `1`), computed as
    the ROUNDED subtraction `fc x = x ⊖ 1` in `Fl exM`, `δ = 1/10`, ball radius `1/2`:
    `L = 1`, `M₂ = 0`, `η = 10⁻³`. -/
theorem exFlEval :
    FlEval exM (fun x : ℝ => x - 1) (fun _ => 1) (fun _ => 0) (fun x : Fl exM => x - 1)
      (⟨1 / 10⟩ : Fl exM) 1 (1 / 2) 1 0 (1 / 1000) := by
  have hR : flRadius exM.u 1 (1 / 2) (1 / 10) = 376 / 625 := by
    rw [exM_u]; unfold flRadius
    rw [abs_of_pos (show (0:ℝ) < 1 / 10 by norm_num), abs_one]; norm_num
  refine ⟨by norm_num, by rw [exM_gam2]; norm_num, fun s _ => ?_, fun s _ => ?_, fun s _ => by simp,
    fun s _ => by simp, fun y hy => ?_⟩
  · exact (hasDerivAt_id' s).sub_const 1
  · exact hasDerivAt_const _ _
  · have hy' : |y.val - 1| ≤ 376 / 625 := by rw [← hR]; exact hy
    have h := exM.fl_err (y.val - 1)
    rw [exM_u] at h
    show |exM.fl (y.val - 1) - (y.val - 1)| ≤ 1 / 1000
    nlinarith

/-- … hence the hypotheses `FlNewton` with `q = 0`, `m = 1`, `η = 10⁻³`, `ε_d = 1/25` -/
theorem exFlNewton :
    FlNewton exM (fun x : ℝ => x - 1) (fun _ => 1) (fun x : Fl exM => x - 1) (⟨1 / 10⟩ : Fl exM)
      1 (1 / 2) 0 1 (1 / 1000) (1 / 25) := by
  have hE : flQuotErr exM.u (1 / 10) 1 (1 / 2) 1 0 (1 / 1000)
      + (1 + flQuotErr exM.u (1 / 10) 1 (1 / 2) 1 0 (1 / 1000)) * flPsi exM.u (exM.gam 2)
      ≤ 1 / 25 := by
    rw [exM_gam2, exM_u]; unfold flQuotErr flPsi
    rw [abs_of_pos (show (0:ℝ) < 1 / 10 by norm_num), abs_one]; norm_num
  have H := exFlEval.flNewton (q := 0) (m := 1) (le_refl _) (by norm_num)
    (fun x _ => by simp) (fun x _ => by simp) (lt_of_le_of_lt hE (by norm_num))
  exact H.mono (le_refl _) hE (by norm_num)

/-- … and the conclusion for the model run in `Fl exM` (every operation off by the full `10⁻³`):
    from the guess `3/2`, with `tol = 1/100` and a budget of three iterations, `solve` reports
    `Ok(x)` with `|x - 1| ≤ 3 · 10⁻³` — a few units of `u |r|`, the limiting accuracy. -/
example :
    (solveScalar (fun x : Fl exM => x - 1) ⟨1 / 100⟩ ⟨1 / 10⟩ 3
      ⟨3 / 2⟩ []).1.ok = true ∧
    |(solveScalar (fun x : Fl exM => x - 1) ⟨1 / 100⟩ ⟨1 / 10⟩ 3
      ⟨3 / 2⟩ []).1.x.val - 1| ≤ 3 / 1000 := by
  have hrate : flRate exM.u 0 1 (1 / 25) = 1026025 / 24000000 := by
    rw [exM_u]; unfold flRate; norm_num
  have hfloor : flFloor exM.u 1 1 (1 / 1000) (1 / 25) = 1002001 / 960000000 + 1 / 1000 := by
    rw [exM_u]; unfold flFloor; rw [abs_one]; norm_num
  have := accepts_accurately_fl (fun _ => rfl) (fun _ _ => rfl) exFlNewton
    (by norm_num) (by norm_num) (by norm_num) (by rw [hrate]; norm_num)
    (by rw [hrate, hfloor]; norm_num) ⟨1 / 100⟩ 3 ⟨3 / 2⟩ []
    (by show |(3 / 2 : ℝ) - 1| ≤ 1 / 2; rw [abs_of_pos] <;> norm_num)
    (by rw [hrate, hfloor, exM_u, abs_one]; norm_num) 2
    (by rw [hrate, hfloor]; norm_num) (by norm_num)
  refine ⟨this.1, this.2.trans ?_⟩
  rw [hrate, hfloor, exM_u, abs_one]; norm_num

end Examples

end Ohsl.Props.C17
