/-
  Property C05 (continued) — tridiagonal matrix: arithmetic, conversion to dense, element writes
  and constructors agree with the dense twin `dense t` (Props/C05T.lean).
  Model: Ohsl/Model/Tridiag.lean.
-/
import Ohsl.Props.C05T
import Ohsl.Lemmas.MatSpec2
set_option linter.unusedSectionVars false
set_option linter.unusedVariables false
set_option linter.unusedSimpArgs false
namespace Ohsl.Props.C05
open Ohsl Ohsl.Tri

/-- case analysis on nested `if`s over index conditions whose leaves are reads of one array at
    provably equal indices -/
macro "band_cases" : tactic =>
  `(tactic| (repeat' split) <;> first | rfl | (exfalso; omega) | (congr 2 <;> omega))

/-- (i,j) lies on one of the three diagonals: |i − j| ≤ 1 -/
def inBand (i j : Nat) : Prop := i = j ∨ i = j + 1 ∨ i + 1 = j

instance (i j : Nat) : Decidable (inBand i j) := by unfold inBand; infer_instance

theorem inBand_symm {i j : Nat} (h : inBand i j) : inBand j i := by
  unfold inBand at *; omega

/-! ### the dense twin on and off the band -/
section Dense
variable {K : Type} [Zero K]

theorem dense_diag (t : Tri K) (i : Nat) : dense t i i = t.main[i]?.getD 0 := by simp [dense]

theorem dense_lower (t : Tri K) (j : Nat) : dense t (j + 1) j = t.sub[j]?.getD 0 := by
  have h : ¬ j + 1 = j := by omega
  simp [dense, h]

theorem dense_upper (t : Tri K) (i : Nat) : dense t i (i + 1) = t.sup[i]?.getD 0 := by
  have h1 : ¬ i = i + 1 := by omega
  have h2 : ¬ i = i + 1 + 1 := by omega
  simp [dense, h1, h2]

/-- outside the three diagonals the dense twin is structurally `0`, whatever the storage holds -/
theorem dense_offband (t : Tri K) (i j : Nat) (h : ¬ inBand i j) : dense t i j = 0 := by
  unfold inBand at h
  have h1 : ¬ i = j := by omega
  have h2 : ¬ i = j + 1 := by omega
  have h3 : ¬ i + 1 = j := by omega
  simp [dense, h1, h2, h3]

/-- outside the index range the dense twin of a well-formed matrix is `0` -/
theorem dense_oob (t : Tri K) (h : WF t) (i j : Nat) (hij : t.n ≤ i ∨ t.n ≤ j) : dense t i j = 0 := by
  have hm := h.main
  have hsb := h.sub
  have hsp := h.sup
  unfold dense
  by_cases h1 : i = j
  · subst h1
    have : t.main.size ≤ i := by omega
    simp [this]
  · by_cases h2 : i = j + 1
    · subst h2
      have : t.sub.size ≤ j := by omega
      simp [this]
    · by_cases h3 : i + 1 = j
      · subst h3
        have : t.sup.size ≤ i := by omega
        simp [h1, h2, this]
      · simp [h1, h2, h3]

/-- a description of the three diagonals is a description of the band of the dense twin -/
theorem dense_inband_of (c : Tri K) (n : Nat) (e : Nat → Nat → K)
    (hm : ∀ k, k < n → c.main[k]?.getD 0 = e k k)
    (hs : ∀ k, k + 1 < n → c.sub[k]?.getD 0 = e (k + 1) k)
    (hp : ∀ k, k + 1 < n → c.sup[k]?.getD 0 = e k (k + 1)) :
    ∀ i j, i < n → j < n → inBand i j → dense c i j = e i j := by
  intro i j hi hj hb
  rcases hb with hb | hb | hb
  · subst hb; rw [dense_diag]; exact hm i hi
  · subst hb; rw [dense_lower]; exact hs j hi
  · subst hb; rw [dense_upper]; exact hp i hj

theorem getD_map (f : K → K) (a : Array K) {k : Nat} (h : k < a.size) :
    (a.map f)[k]?.getD 0 = f (a[k]?.getD 0) := by
  simp [h]

theorem getD_map_zero (f : K → K) (h0 : f 0 = 0) (a : Array K) (k : Nat) :
    (a.map f)[k]?.getD 0 = f (a[k]?.getD 0) := by
  by_cases h : k < a.size
  · exact getD_map f a h
  · have : a.size ≤ k := by omega
    simp [this, h0]

theorem getD_zipWith (f : K → K → K) (a b : Array K) {k : Nat} (ha : k < a.size) (hb : k < b.size) :
    (Array.zipWith f a b)[k]?.getD 0 = f (a[k]?.getD 0) (b[k]?.getD 0) := by
  simp [Array.getElem?_zipWith, ha, hb]

theorem getD_zipWith_zero (f : K → K → K) (h0 : f 0 0 = 0) (a b : Array K) (hs : a.size = b.size)
    (k : Nat) : (Array.zipWith f a b)[k]?.getD 0 = f (a[k]?.getD 0) (b[k]?.getD 0) := by
  by_cases h : k < a.size
  · exact getD_zipWith f a b h (by omega)
  · have h1 : a.size ≤ k := by omega
    have h2 : b.size ≤ k := by omega
    simp [Array.getElem?_zipWith, h1, h2, h0]

/-- the three diagonals combined entry by entry -/
def zip3 (f : K → K → K) (a b : Tri K) : Tri K :=
  ⟨Array.zipWith f a.sub b.sub, Array.zipWith f a.main b.main, Array.zipWith f a.sup b.sup, a.n⟩

/-- the three diagonals mapped entry by entry -/
def map3 (f : K → K) (t : Tri K) : Tri K := ⟨t.sub.map f, t.main.map f, t.sup.map f, t.n⟩

theorem zip3_wf (f : K → K → K) (a b : Tri K) (ha : WF a) (hb : WF b) (hn : a.n = b.n) :
    WF (zip3 f a b) := by
  have := ha.main; have := ha.sub; have := ha.sup
  have := hb.main; have := hb.sub; have := hb.sup
  exact ⟨ha.pos, by simp [zip3]; omega, by simp [zip3]; omega, by simp [zip3]; omega⟩

theorem map3_wf (f : K → K) (t : Tri K) (h : WF t) : WF (map3 f t) :=
  ⟨h.pos, by simp [map3, h.main], by simp [map3, h.sub], by simp [map3, h.sup]⟩

theorem zip3_dense (f : K → K → K) (a b : Tri K) (ha : WF a) (hb : WF b) (hn : a.n = b.n) :
    ∀ i j, i < a.n → j < a.n → inBand i j →
      dense (zip3 f a b) i j = f (dense a i j) (dense b i j) := by
  have := ha.main; have := ha.sub; have := ha.sup
  have := hb.main; have := hb.sub; have := hb.sup
  apply dense_inband_of
  · intro k hk
    rw [dense_diag, dense_diag]
    exact getD_zipWith f _ _ (by omega) (by omega)
  · intro k hk
    rw [dense_lower, dense_lower]
    exact getD_zipWith f _ _ (by omega) (by omega)
  · intro k hk
    rw [dense_upper, dense_upper]
    exact getD_zipWith f _ _ (by omega) (by omega)

theorem map3_dense (f : K → K) (t : Tri K) (h : WF t) :
    ∀ i j, i < t.n → j < t.n → inBand i j → dense (map3 f t) i j = f (dense t i j) := by
  have := h.main; have := h.sub; have := h.sup
  apply dense_inband_of
  · intro k hk
    rw [dense_diag]
    exact getD_map f _ (by omega)
  · intro k hk
    rw [dense_lower]
    exact getD_map f _ (by omega)
  · intro k hk
    rw [dense_upper]
    exact getD_map f _ (by omega)

/-- with `f 0 0 = 0` the whole dense twin (off-band and out-of-range entries included) is combined
    entry by entry -/
theorem zip3_dense_all (f : K → K → K) (h0 : f 0 0 = 0) (a b : Tri K) (ha : WF a) (hb : WF b)
    (hn : a.n = b.n) (i j : Nat) : dense (zip3 f a b) i j = f (dense a i j) (dense b i j) := by
  have := ha.main; have := ha.sub; have := ha.sup
  have := hb.main; have := hb.sub; have := hb.sup
  by_cases hb' : inBand i j
  · rcases hb' with e | e | e
    · subst e
      simp only [dense_diag]
      exact getD_zipWith_zero f h0 _ _ (by omega) _
    · subst e
      simp only [dense_lower]
      exact getD_zipWith_zero f h0 _ _ (by omega) _
    · subst e
      simp only [dense_upper]
      exact getD_zipWith_zero f h0 _ _ (by omega) _
  · rw [dense_offband _ _ _ hb', dense_offband _ _ _ hb', dense_offband _ _ _ hb', h0]

theorem map3_dense_all (f : K → K) (h0 : f 0 = 0) (t : Tri K) (i j : Nat) :
    dense (map3 f t) i j = f (dense t i j) := by
  by_cases hb' : inBand i j
  · rcases hb' with e | e | e
    · subst e
      simp only [dense_diag]
      exact getD_map_zero f h0 _ _
    · subst e
      simp only [dense_lower]
      exact getD_map_zero f h0 _ _
    · subst e
      simp only [dense_upper]
      exact getD_map_zero f h0 _ _
  · rw [dense_offband _ _ _ hb', dense_offband _ _ _ hb', h0]

end Dense

/-! ### arithmetic (class S: any scalar type, arbitrary operations) -/
section Arith
variable {K : Type} [Add K] [Sub K] [Mul K] [Neg K] [Zero K] [One K] [BEq K] [ScalarExt K]

theorem add_eq (a b : Tri K) (ha : WF a) (hb : WF b) (hn : a.n = b.n) :
    Tri.add a b = .ok (zip3 (· + ·) a b) := by
  have := ha.main; have := ha.sub; have := ha.sup
  have := hb.main; have := hb.sub; have := hb.sup
  have h0 : ¬ a.n ≠ b.n := by omega
  have h1 : ¬ a.sub.size ≠ b.sub.size := by omega
  have h2 : ¬ a.main.size ≠ b.main.size := by omega
  have h3 : ¬ a.sup.size ≠ b.sup.size := by omega
  simp only [Tri.add, Vec.add, h0, h1, h2, h3, if_false, bind, Except.bind, pure, Except.pure]
  rfl

theorem sub_eq (a b : Tri K) (ha : WF a) (hb : WF b) (hn : a.n = b.n) :
    Tri.sub' a b = .ok (zip3 (· - ·) a b) := by
  have := ha.main; have := ha.sub; have := ha.sup
  have := hb.main; have := hb.sub; have := hb.sup
  have h0 : ¬ a.n ≠ b.n := by omega
  have h1 : ¬ a.sub.size ≠ b.sub.size := by omega
  have h2 : ¬ a.main.size ≠ b.main.size := by omega
  have h3 : ¬ a.sup.size ≠ b.sup.size := by omega
  simp only [Tri.sub', Vec.sub, h0, h1, h2, h3, if_false, bind, Except.bind, pure, Except.pure]
  rfl

theorem neg_eq (t : Tri K) : Tri.neg t = map3 (fun x => -x) t := rfl
theorem smul_eq (t : Tri K) (s : K) : Tri.smul t s = map3 (· * s) t := rfl
theorem lsmul_eq (s : K) (t : Tri K) : Tri.lsmul s t = map3 (s * ·) t := rfl
theorem addS_eq (t : Tri K) (s : K) : Tri.addS t s = map3 (· + s) t := rfl
theorem subS_eq (t : Tri K) (s : K) : Tri.subS t s = map3 (· - s) t := rfl

/-- (S) **`T₁ + T₂`**: for well-formed operands of the same size n ≥ 1 the call succeeds, the
    result is well-formed of size n, every entry of the three diagonals is the sum of the
    corresponding entries, and nothing appears outside the band. -/
theorem add_spec (a b : Tri K) (ha : WF a) (hb : WF b) (hn : a.n = b.n) :
    ∃ c, Tri.add a b = .ok c ∧ WF c ∧ c.n = a.n ∧
      (∀ i j, i < a.n → j < a.n → inBand i j → dense c i j = dense a i j + dense b i j) ∧
      (∀ i j, ¬ inBand i j → dense c i j = 0) :=
  ⟨_, add_eq a b ha hb hn, zip3_wf _ a b ha hb hn, rfl, zip3_dense _ a b ha hb hn,
    fun i j h => dense_offband _ i j h⟩

/-- (S) operands of different sizes are rejected with the `size` class -/
theorem add_guard (a b : Tri K) (h : a.n ≠ b.n) : Tri.add a b = .error .size := by
  simp [Tri.add, h]

/-- (S) **`T₁ - T₂`** -/
theorem sub_spec (a b : Tri K) (ha : WF a) (hb : WF b) (hn : a.n = b.n) :
    ∃ c, Tri.sub' a b = .ok c ∧ WF c ∧ c.n = a.n ∧
      (∀ i j, i < a.n → j < a.n → inBand i j → dense c i j = dense a i j - dense b i j) ∧
      (∀ i j, ¬ inBand i j → dense c i j = 0) :=
  ⟨_, sub_eq a b ha hb hn, zip3_wf _ a b ha hb hn, rfl, zip3_dense _ a b ha hb hn,
    fun i j h => dense_offband _ i j h⟩

theorem sub_guard (a b : Tri K) (h : a.n ≠ b.n) : Tri.sub' a b = .error .size := by
  simp [Tri.sub', h]

/-- (S) **`-T`** (total) -/
theorem neg_spec (t : Tri K) (h : WF t) :
    WF (Tri.neg t) ∧ (Tri.neg t).n = t.n ∧
      (∀ i j, i < t.n → j < t.n → inBand i j → dense (Tri.neg t) i j = - dense t i j) ∧
      (∀ i j, ¬ inBand i j → dense (Tri.neg t) i j = 0) :=
  ⟨map3_wf _ t h, rfl, map3_dense _ t h, fun i j hb => dense_offband _ i j hb⟩

/-- (S) **`T * s`** and `T *= s` (total): `entry * s`, in this order -/
theorem smul_spec (t : Tri K) (h : WF t) (s : K) :
    WF (Tri.smul t s) ∧ (Tri.smul t s).n = t.n ∧
      (∀ i j, i < t.n → j < t.n → inBand i j → dense (Tri.smul t s) i j = dense t i j * s) ∧
      (∀ i j, ¬ inBand i j → dense (Tri.smul t s) i j = 0) :=
  ⟨map3_wf _ t h, rfl, map3_dense _ t h, fun i j hb => dense_offband _ i j hb⟩

/-- (S) **`s * T`** (total): `s * entry`, in this order -/
theorem lsmul_spec (s : K) (t : Tri K) (h : WF t) :
    WF (Tri.lsmul s t) ∧ (Tri.lsmul s t).n = t.n ∧
      (∀ i j, i < t.n → j < t.n → inBand i j → dense (Tri.lsmul s t) i j = s * dense t i j) ∧
      (∀ i j, ¬ inBand i j → dense (Tri.lsmul s t) i j = 0) :=
  ⟨map3_wf _ t h, rfl, map3_dense _ t h, fun i j hb => dense_offband _ i j hb⟩

/-- (S) **`T += s`** (total): the scalar is added to the entries of the three diagonals ONLY;
    entries outside the band stay structurally absent (`0` in the dense twin, not `0 + s`). -/
theorem addS_spec (t : Tri K) (h : WF t) (s : K) :
    WF (Tri.addS t s) ∧ (Tri.addS t s).n = t.n ∧
      (∀ i j, i < t.n → j < t.n → inBand i j → dense (Tri.addS t s) i j = dense t i j + s) ∧
      (∀ i j, ¬ inBand i j → dense (Tri.addS t s) i j = 0) :=
  ⟨map3_wf _ t h, rfl, map3_dense _ t h, fun i j hb => dense_offband _ i j hb⟩

/-- (S) **`T -= s`** (total): band entries only, as for `+=` -/
theorem subS_spec (t : Tri K) (h : WF t) (s : K) :
    WF (Tri.subS t s) ∧ (Tri.subS t s).n = t.n ∧
      (∀ i j, i < t.n → j < t.n → inBand i j → dense (Tri.subS t s) i j = dense t i j - s) ∧
      (∀ i j, ¬ inBand i j → dense (Tri.subS t s) i j = 0) :=
  ⟨map3_wf _ t h, rfl, map3_dense _ t h, fun i j hb => dense_offband _ i j hb⟩

/-! #### division by a scalar -/

theorem array_mapM_ok (a : Array K) (f : K → Res K) (g : K → K)
    (h : ∀ k, k < a.size → f (a[k]?.getD 0) = .ok (g (a[k]?.getD 0))) :
    a.mapM f = .ok (a.map g) := by
  have hl : a.toList.mapM f = .ok (a.toList.map g) := by
    apply list_mapM_ok
    intro x hx
    obtain ⟨k, hk, rfl⟩ := List.getElem_of_mem hx
    have hk' : k < a.size := by simpa using hk
    have := h k hk'
    simpa [hk'] using this
  rw [Array.mapM_eq_mapM_toList, hl]
  simp only [Functor.map, Except.map]
  congr 1
  apply Array.ext'
  simp

theorem array_mapM_err (a : Array K) (f : K → Res K) (e : Err) (hpos : 0 < a.size)
    (hf : ∀ x, f x = .error e) : a.mapM f = .error e := by
  rw [Array.mapM_eq_mapM_toList]
  cases hl : a.toList with
  | nil =>
    have : a.size = 0 := by rw [← Array.length_toList, hl]; rfl
    omega
  | cons x l => simp [List.mapM_cons, hf x, bind, Except.bind, Functor.map, Except.map]

theorem sdiv_eq (t : Tri K) (h : WF t) (s : K) (q : K → K)
    (hq : ∀ i j, i < t.n → j < t.n → inBand i j → divM (dense t i j) s = .ok (q (dense t i j))) :
    Tri.sdiv t s = .ok (map3 q t) := by
  have hm := h.main; have hsb := h.sub; have hsp := h.sup
  have e1 : Vec.sdiv t.sub s = .ok (t.sub.map q) := by
    apply array_mapM_ok
    intro k hk
    have := hq (k + 1) k (by omega) (by omega) (Or.inr (Or.inl rfl))
    rwa [dense_lower] at this
  have e2 : Vec.sdiv t.main s = .ok (t.main.map q) := by
    apply array_mapM_ok
    intro k hk
    have := hq k k (by omega) (by omega) (Or.inl rfl)
    rwa [dense_diag] at this
  have e3 : Vec.sdiv t.sup s = .ok (t.sup.map q) := by
    apply array_mapM_ok
    intro k hk
    have := hq k (k + 1) (by omega) (by omega) (Or.inr (Or.inr rfl))
    rwa [dense_upper] at this
  simp only [Tri.sdiv, e1, e2, e3, bind, Except.bind, pure, Except.pure]
  rfl

/-- (S) **`T / s`** and `T /= s`: if the scalar division succeeds on every entry of the three
    diagonals (`q` names the quotient), the call succeeds and divides exactly those entries. -/
theorem sdiv_spec (t : Tri K) (h : WF t) (s : K) (q : K → K)
    (hq : ∀ i j, i < t.n → j < t.n → inBand i j → divM (dense t i j) s = .ok (q (dense t i j))) :
    ∃ c, Tri.sdiv t s = .ok c ∧ WF c ∧ c.n = t.n ∧
      (∀ i j, i < t.n → j < t.n → inBand i j → dense c i j = q (dense t i j)) ∧
      (∀ i j, ¬ inBand i j → dense c i j = 0) :=
  ⟨map3 q t, sdiv_eq t h s q hq, map3_wf _ t h, rfl, map3_dense _ t h,
    fun i j hb => dense_offband _ i j hb⟩

/-- (S) a divisor on which the scalar division fails (an exact zero for exact types) makes the
    whole call fail with the same class, for every n ≥ 1 (for n = 1 the failure comes from the
    main diagonal, the sub-diagonal being empty) -/
theorem sdiv_guard (t : Tri K) (h : WF t) (s : K) (e : Err) (hf : ∀ x : K, divM x s = .error e) :
    Tri.sdiv t s = .error e := by
  have hm := h.main; have hsb := h.sub; have hpos := h.pos
  by_cases h1 : t.n = 1
  · have e1 : Vec.sdiv t.sub s = .ok #[] := by
      have : t.sub = #[] := by apply Array.eq_empty_of_size_eq_zero; omega
      rw [this]
      simp [Vec.sdiv, Array.mapM_eq_mapM_toList, Functor.map, Except.map, pure, Except.pure]
    have e2 : Vec.sdiv t.main s = .error e := array_mapM_err _ _ e (by omega) hf
    simp only [Tri.sdiv, e1, e2, bind, Except.bind]
  · have e1 : Vec.sdiv t.sub s = .error e := array_mapM_err _ _ e (by omega) hf
    simp only [Tri.sdiv, e1, bind, Except.bind]

end Arith

/-! ### element access and element writes -/
section Access
variable {K : Type} [Add K] [Sub K] [Mul K] [Neg K] [Zero K] [One K] [BEq K] [ScalarExt K]

/-- (S) on the band, the index operator returns the entry of the dense twin -/
theorem get_dense (t : Tri K) (h : WF t) (i j : Nat) (hi : i < t.n) (hj : j < t.n)
    (hb : inBand i j) : Tri.get t i j = .ok (dense t i j) := by
  have hm := h.main; have hsb := h.sub; have hsp := h.sup
  rcases hb with e | e | e
  · subst e
    rw [(get_spec t h i i).1 hi rfl, dense_diag, aget_getD (by omega)]
  · subst e
    rw [(get_spec t h (j + 1) j).2.1 hi rfl, dense_lower, aget_getD (by omega)]
  · subst e
    rw [(get_spec t h i (i + 1)).2.2.1 hj rfl, dense_upper, aget_getD (by omega)]

/-- (S) out-of-range and out-of-band reads are rejected (class `range`) -/
theorem get_guard (t : Tri K) (i j : Nat) (h : t.n ≤ i ∨ t.n ≤ j ∨ ¬ inBand i j) :
    Tri.get t i j = .error .range := by
  unfold Tri.get
  by_cases h0 : i ≥ t.n ∨ j ≥ t.n
  · rw [if_pos h0]
  · have hb : ¬ inBand i j := by
      rcases h with h | h | h
      · exact absurd (Or.inl h) h0
      · exact absurd (Or.inr h) h0
      · exact h
    unfold inBand at hb
    have h1 : ¬ i = j := by omega
    have h2 : ¬ i = j + 1 := by omega
    have h3 : ¬ i + 1 = j := by omega
    rw [if_neg h0, if_neg h1, if_neg h2, if_neg h3]

theorem aget_setIfInBounds_ne {α : Type} (a : Array α) (i k : Nat) (v : α) (h : k ≠ i) :
    aget (a.setIfInBounds i v) k = aget a k := by
  have h' : ¬ i = k := fun e => h e.symm
  simp [aget, Array.getElem?_setIfInBounds, h']

theorem aget_setIfInBounds_eq {α : Type} (a : Array α) (i : Nat) (v : α) (h : i < a.size) :
    aget (a.setIfInBounds i v) i = .ok v := by
  simp [aget, h]

theorem get_congr (t t' : Tri K) (hn : t'.n = t.n) (i j : Nat)
    (hm : i = j → aget t'.main i = aget t.main i)
    (hs : i = j + 1 → aget t'.sub j = aget t.sub j)
    (hp : i + 1 = j → aget t'.sup i = aget t.sup i) : Tri.get t' i j = Tri.get t i j := by
  unfold Tri.get
  rw [hn]
  by_cases h0 : i ≥ t.n ∨ j ≥ t.n
  · rw [if_pos h0, if_pos h0]
  · rw [if_neg h0, if_neg h0]
    by_cases h1 : i = j
    · rw [if_pos h1, if_pos h1]; exact hm h1
    · rw [if_neg h1, if_neg h1]
      by_cases h2 : i = j + 1
      · rw [if_pos h2, if_pos h2]; exact hs h2
      · rw [if_neg h2, if_neg h2]
        by_cases h3 : i + 1 = j
        · rw [if_pos h3, if_pos h3]; exact hp h3
        · rw [if_neg h3, if_neg h3]

theorem dense_congr (t t' : Tri K) (i j : Nat)
    (hm : i = j → t'.main[i]?.getD 0 = t.main[i]?.getD 0)
    (hs : i = j + 1 → t'.sub[j]?.getD 0 = t.sub[j]?.getD 0)
    (hp : i + 1 = j → t'.sup[i]?.getD 0 = t.sup[i]?.getD 0) : dense t' i j = dense t i j := by
  unfold dense
  by_cases h1 : i = j
  · rw [if_pos h1, if_pos h1]; exact hm h1
  · rw [if_neg h1, if_neg h1]
    by_cases h2 : i = j + 1
    · rw [if_pos h2, if_pos h2]; exact hs h2
    · rw [if_neg h2, if_neg h2]
      by_cases h3 : i + 1 = j
      · rw [if_pos h3, if_pos h3]; exact hp h3
      · rw [if_neg h3, if_neg h3]

theorem getD_setIfInBounds_ne (a : Array K) (i k : Nat) (v : K) (h : k ≠ i) :
    (a.setIfInBounds i v)[k]?.getD 0 = a[k]?.getD 0 := by
  have h' : ¬ i = k := fun e => h e.symm
  simp [Array.getElem?_setIfInBounds, h']

/-- (S) **element write** `T[(i,j)] = v` on the band of a well-formed matrix (every n ≥ 1):
    the call succeeds, keeps size and well-formedness, the entry reads back as `v`
    (`set_get`), and **every other entry is unchanged** — both as seen by the index operator
    (including which reads are rejected) and in the dense twin. -/
theorem set_spec (t : Tri K) (h : WF t) (i j : Nat) (v : K) (hi : i < t.n) (hj : j < t.n)
    (hb : inBand i j) :
    ∃ t', Tri.set t i j v = .ok t' ∧ WF t' ∧ t'.n = t.n ∧
      Tri.get t' i j = .ok v ∧ dense t' i j = v ∧
      (∀ i' j', (i' ≠ i ∨ j' ≠ j) → Tri.get t' i' j' = Tri.get t i' j') ∧
      (∀ i' j', (i' ≠ i ∨ j' ≠ j) → dense t' i' j' = dense t i' j') := by
  have hm := h.main; have hsb := h.sub; have hsp := h.sup; have hpos := h.pos
  have h0 : ¬ (i ≥ t.n ∨ j ≥ t.n) := by omega
  rcases hb with e | e | e
  · subst e
    have hlt : i < t.main.size := by omega
    have hwf : WF ({ t with main := t.main.setIfInBounds i v } : Tri K) :=
      ⟨hpos, by simpa using hm, hsb, hsp⟩
    refine ⟨{ t with main := t.main.setIfInBounds i v }, ?_, hwf, rfl, ?_, ?_, ?_, ?_⟩
    · simp [Tri.set, hi, hj, Mat.aset_ok v hlt, bind, Except.bind, pure, Except.pure]
    · rw [(get_spec _ hwf i i).1 hi rfl]
      exact aget_setIfInBounds_eq _ _ _ hlt
    · rw [dense_diag]; simp [hlt]
    · intro i' j' hne
      exact get_congr t ({ t with main := t.main.setIfInBounds i v }) rfl i' j'
        (fun e => aget_setIfInBounds_ne _ _ _ _ (by omega)) (fun _ => rfl) (fun _ => rfl)
    · intro i' j' hne
      exact dense_congr t ({ t with main := t.main.setIfInBounds i v }) i' j'
        (fun e => getD_setIfInBounds_ne _ _ _ _ (by omega)) (fun _ => rfl) (fun _ => rfl)
  · subst e
    have hlt : j < t.sub.size := by omega
    have hwf : WF ({ t with sub := t.sub.setIfInBounds j v } : Tri K) :=
      ⟨hpos, hm, by simpa using hsb, hsp⟩
    have h1 : ¬ j + 1 = j := by omega
    refine ⟨{ t with sub := t.sub.setIfInBounds j v }, ?_, hwf, rfl, ?_, ?_, ?_, ?_⟩
    · simp [Tri.set, hi, hj, h1, Mat.aset_ok v hlt, bind, Except.bind, pure, Except.pure]
    · rw [(get_spec _ hwf (j + 1) j).2.1 hi rfl]
      exact aget_setIfInBounds_eq _ _ _ hlt
    · rw [dense_lower]; simp [hlt]
    · intro i' j' hne
      exact get_congr t ({ t with sub := t.sub.setIfInBounds j v }) rfl i' j'
        (fun _ => rfl) (fun e => aget_setIfInBounds_ne _ _ _ _ (by omega)) (fun _ => rfl)
    · intro i' j' hne
      exact dense_congr t ({ t with sub := t.sub.setIfInBounds j v }) i' j'
        (fun _ => rfl) (fun e => getD_setIfInBounds_ne _ _ _ _ (by omega)) (fun _ => rfl)
  · subst e
    have hlt : i < t.sup.size := by omega
    have hwf : WF ({ t with sup := t.sup.setIfInBounds i v } : Tri K) :=
      ⟨hpos, hm, hsb, by simpa using hsp⟩
    have h1 : ¬ i = i + 1 := by omega
    have h2 : ¬ i = i + 1 + 1 := by omega
    refine ⟨{ t with sup := t.sup.setIfInBounds i v }, ?_, hwf, rfl, ?_, ?_, ?_, ?_⟩
    · simp [Tri.set, hi, hj, h1, h2, Mat.aset_ok v hlt, bind, Except.bind, pure, Except.pure]
    · rw [(get_spec _ hwf i (i + 1)).2.2.1 hj rfl]
      exact aget_setIfInBounds_eq _ _ _ hlt
    · rw [dense_upper]; simp [hlt]
    · intro i' j' hne
      exact get_congr t ({ t with sup := t.sup.setIfInBounds i v }) rfl i' j'
        (fun _ => rfl) (fun _ => rfl) (fun e => aget_setIfInBounds_ne _ _ _ _ (by omega))
    · intro i' j' hne
      exact dense_congr t ({ t with sup := t.sup.setIfInBounds i v }) i' j'
        (fun _ => rfl) (fun _ => rfl) (fun e => getD_setIfInBounds_ne _ _ _ _ (by omega))

/-- (S) read-after-write -/
theorem set_get (t : Tri K) (h : WF t) (i j : Nat) (v : K) (hi : i < t.n) (hj : j < t.n)
    (hb : inBand i j) (t' : Tri K) (ht : Tri.set t i j v = .ok t') : Tri.get t' i j = .ok v := by
  obtain ⟨t'', h1, _, _, h2, _⟩ := set_spec t h i j v hi hj hb
  rw [ht] at h1
  cases h1
  exact h2

/-- (S) out-of-range and out-of-band writes are rejected (class `range`), nothing is written -/
theorem set_guard (t : Tri K) (i j : Nat) (v : K) (h : t.n ≤ i ∨ t.n ≤ j ∨ ¬ inBand i j) :
    Tri.set t i j v = .error .range := by
  unfold Tri.set
  by_cases h0 : i ≥ t.n ∨ j ≥ t.n
  · rw [if_pos h0]
  · have hb : ¬ inBand i j := by
      rcases h with h | h | h
      · exact absurd (Or.inl h) h0
      · exact absurd (Or.inr h) h0
      · exact h
    unfold inBand at hb
    have h1 : ¬ i = j := by omega
    have h2 : ¬ i = j + 1 := by omega
    have h3 : ¬ i + 1 = j := by omega
    rw [if_neg h0, if_neg h1, if_neg h2, if_neg h3]

/-- (S) a write succeeds exactly on the band inside the index range -/
theorem set_ok_iff (t : Tri K) (h : WF t) (i j : Nat) (v : K) :
    (∃ t', Tri.set t i j v = .ok t') ↔ i < t.n ∧ j < t.n ∧ inBand i j := by
  constructor
  · rintro ⟨t', ht⟩
    by_cases hc : i < t.n ∧ j < t.n ∧ inBand i j
    · exact hc
    · have : t.n ≤ i ∨ t.n ≤ j ∨ ¬ inBand i j := by
        by_cases h1 : i < t.n
        · by_cases h2 : j < t.n
          · exact Or.inr (Or.inr (fun hb => hc ⟨h1, h2, hb⟩))
          · exact Or.inr (Or.inl (by omega))
        · exact Or.inl (by omega)
      rw [set_guard t i j v this] at ht
      cases ht
  · rintro ⟨hi, hj, hb⟩
    obtain ⟨t', ht, _⟩ := set_spec t h i j v hi hj hb
    exact ⟨t', ht⟩

end Access

/-! ### constructors -/
section Constructors
variable {K : Type} [Add K] [Sub K] [Mul K] [Neg K] [Zero K] [One K] [BEq K] [ScalarExt K]

theorem getD_replicate (n : Nat) (x : K) (k : Nat) :
    (Array.replicate n x)[k]?.getD 0 = if k < n then x else 0 := by
  rw [Array.getElem?_replicate]
  split <;> rfl

/-- (S) **`new(n)`**, n ≥ 1: the zero matrix of size n -/
theorem new_spec (n : Nat) (hn : 1 ≤ n) :
    ∃ t : Tri K, Tri.new n = .ok t ∧ WF t ∧ t.n = n ∧ ∀ i j, dense t i j = 0 := by
  refine ⟨⟨Array.replicate (n - 1) 0, Array.replicate n 0, Array.replicate (n - 1) 0, n⟩, ?_,
    ⟨hn, by simp, by simp, by simp⟩, rfl, ?_⟩
  · simp [Tri.new, usub, hn, bind, Except.bind, pure, Except.pure]
  · intro i j
    unfold dense
    simp only [getD_replicate, ite_self]

/-- (S) `new(0)` is rejected: `n - 1` underflows -/
theorem new_guard : Tri.new (K := K) 0 = .error .arith := by
  simp [Tri.new, usub, bind, Except.bind]

/-- (S) **`with_elements(a, b, c, n)`**, n ≥ 1: constant diagonals -/
theorem withElements_spec (a b c : K) (n : Nat) (hn : 1 ≤ n) :
    ∃ t : Tri K, Tri.withElements a b c n = .ok t ∧ WF t ∧ t.n = n ∧
      ∀ i j, i < n → j < n →
        dense t i j = triEntry (fun _ => a) (fun _ => b) (fun _ => c) i j := by
  refine ⟨⟨Array.replicate (n - 1) a, Array.replicate n b, Array.replicate (n - 1) c, n⟩, ?_,
    ⟨hn, by simp, by simp, by simp⟩, rfl, ?_⟩
  · simp [Tri.withElements, usub, hn, bind, Except.bind, pure, Except.pure]
  · intro i j hi hj
    unfold dense triEntry
    simp only [getD_replicate]
    by_cases h1 : i = j
    · rw [if_pos h1, if_pos h1, if_pos hi]
    · rw [if_neg h1, if_neg h1]
      by_cases h2 : i = j + 1
      · rw [if_pos h2, if_pos h2, if_pos (by omega)]
      · rw [if_neg h2, if_neg h2]
        by_cases h3 : i + 1 = j
        · rw [if_pos h3, if_pos h3, if_pos (by omega)]
        · rw [if_neg h3, if_neg h3]

theorem withElements_guard (a b c : K) : Tri.withElements a b c 0 = .error .arith := by
  simp [Tri.withElements, usub, bind, Except.bind]

/-- (S) **`with_vecs(sub, main, sup)`** with lengths n-1, n, n-1 (n ≥ 1): the three vectors
    become the three diagonals -/
theorem withVecs_spec (sub main sup : Array K) (hn : 1 ≤ main.size)
    (h1 : sub.size = main.size - 1) (h2 : sup.size = main.size - 1) :
    ∃ t, Tri.withVecs sub main sup = .ok t ∧ WF t ∧ t.n = main.size ∧
      t.sub = sub ∧ t.main = main ∧ t.sup = sup ∧
      dense t = triEntry (fun k => sub[k]?.getD 0) (fun k => main[k]?.getD 0)
        (fun k => sup[k]?.getD 0) := by
  refine ⟨⟨sub, main, sup, main.size⟩, ?_, ⟨hn, rfl, h1, h2⟩, rfl, rfl, rfl, rfl, rfl⟩
  simp [Tri.withVecs, usub, hn, h1, h2, bind, Except.bind, pure, Except.pure]

/-- (S) an empty main diagonal is rejected by the underflow of `n - 1` (class `arith`) -/
theorem withVecs_guard_empty (sub main sup : Array K) (h : main.size = 0) :
    Tri.withVecs sub main sup = .error .arith := by
  simp [Tri.withVecs, usub, h, bind, Except.bind]

/-- (S) wrong lengths of the off-diagonals are rejected with class `size` -/
theorem withVecs_guard_size (sub main sup : Array K) (hn : 1 ≤ main.size)
    (h : sub.size ≠ main.size - 1 ∨ sup.size ≠ main.size - 1) :
    Tri.withVecs sub main sup = .error .size := by
  simp [Tri.withVecs, usub, hn, h, bind, Except.bind]

end Constructors

/-! ### conversion to a dense matrix -/
section Convert
variable {K : Type} [Add K] [Sub K] [Mul K] [Neg K] [Zero K] [One K] [BEq K] [ScalarExt K]

/-- (S) **`convert()`**: for every well-formed tridiagonal matrix of size n ≥ 1 (n = 1 and n = 2
    included) the call succeeds and returns a well-formed n × n dense matrix whose entry (i,j) is
    the tridiagonal entry for |i − j| ≤ 1 and `0` elsewhere, i.e. the dense twin `dense t`. -/
theorem convert_spec (t : Tri K) (h : WF t) :
    ∃ m, Tri.convert t = .ok m ∧ Mat.Is m t.n t.n (dense t) := by
  have hpos := h.pos; have hm := h.main; have hsb := h.sub; have hsp := h.sup
  have hn0 : ¬ t.n = 0 := by omega
  unfold Tri.convert
  simp only [hn0, if_false]
  by_cases h1 : t.n = 1
  · rw [if_pos h1]
    obtain ⟨m', hm', hI⟩ := (Mat.Is.of_new t.n t.n (0 : K)).set (i := 0) (j := 0)
      (by omega) (by omega) (t.main[0]?.getD 0)
    refine ⟨m', ?_, hI.congr ?_⟩
    · simp only [aget_getD (by omega : 0 < t.main.size), hm', bind, Except.bind]
    · intro i j hi hj
      have e1 : i = 0 := by omega
      have e2 : j = 0 := by omega
      subst e1 e2
      simp [dense]
  · rw [if_neg h1]
    have hn2 : 2 ≤ t.n := by omega
    obtain ⟨d1, hd1, hI1⟩ := (Mat.Is.of_new t.n t.n (0 : K)).set (i := 0) (j := 0)
      (by omega) (by omega) (t.main[0]?.getD 0)
    obtain ⟨d2, hd2, hI2⟩ := hI1.set (i := 0) (j := 1) (by omega) (by omega) (t.sup[0]?.getD 0)
    obtain ⟨d3, hd3, hI3⟩ := Mat.forM'_inv
      (fun k (d : Mat K) => Mat.Is d t.n t.n (fun a b => if a < k then dense t a b else 0))
      1 (t.n - 1) d2
      (fun d i => do
        let a ← aget t.sub (i - 1)
        let d ← d.set i (i - 1) a
        let b ← aget t.main i
        let d ← d.set i i b
        let c ← aget t.sup i
        d.set i (i + 1) c)
      (by omega)
      (hI2.congr (by
        intro a b ha hb
        unfold dense
        band_cases))
      (by
        intro k s hk1 hk2 hs
        obtain ⟨s1, e1, I1⟩ := hs.set (i := k) (j := k - 1) (by omega) (by omega)
          (t.sub[k - 1]?.getD 0)
        obtain ⟨s2, e2, I2⟩ := I1.set (i := k) (j := k) (by omega) (by omega) (t.main[k]?.getD 0)
        obtain ⟨s3, e3, I3⟩ := I2.set (i := k) (j := k + 1) (by omega) (by omega)
          (t.sup[k]?.getD 0)
        refine ⟨s3, ?_, I3.congr ?_⟩
        · simp only [aget_getD (by omega : k - 1 < t.sub.size),
            aget_getD (by omega : k < t.main.size), aget_getD (by omega : k < t.sup.size),
            e1, e2, e3, bind, Except.bind]
        · intro a b ha hb
          unfold dense
          band_cases)
    obtain ⟨d4, e4, I4⟩ := hI3.set (i := t.n - 1) (j := t.n - 2) (by omega) (by omega)
      (t.sub[t.n - 2]?.getD 0)
    obtain ⟨d5, e5, I5⟩ := I4.set (i := t.n - 1) (j := t.n - 1) (by omega) (by omega)
      (t.main[t.n - 1]?.getD 0)
    refine ⟨d5, ?_, I5.congr ?_⟩
    · have hd3' := hd3
      simp only [bind, Except.bind] at hd3' ⊢
      rw [aget_getD (by omega : 0 < t.main.size)]
      simp only [hd1]
      rw [aget_getD (by omega : 0 < t.sup.size)]
      simp only [hd2, hd3']
      rw [aget_getD (by omega : t.n - 2 < t.sub.size)]
      simp only [e4]
      rw [aget_getD (by omega : t.n - 1 < t.main.size)]
      simp only [e5]
    · intro a b ha hb
      unfold dense
      band_cases

/-- (S) the size-0 matrix is rejected (class `range`) -/
theorem convert_guard (t : Tri K) (h : t.n = 0) : Tri.convert t = .error .range := by
  simp [Tri.convert, h]

/-- (S) reading the converted matrix: in range, entry (i,j) is the dense twin -/
theorem convert_get (t : Tri K) (h : WF t) (m : Mat K) (hc : Tri.convert t = .ok m) :
    m.WF ∧ m.rows = t.n ∧ m.cols = t.n ∧
      (∀ i j, i < t.n → j < t.n → inBand i j → m.get i j = Tri.get t i j) ∧
      (∀ i j, i < t.n → j < t.n → ¬ inBand i j → m.get i j = .ok 0) := by
  obtain ⟨m', hm', hI⟩ := convert_spec t h
  rw [hc] at hm'
  cases hm'
  refine ⟨hI.wf, hI.rows, hI.cols, ?_, ?_⟩
  · intro i j hi hj hb
    rw [hI.entry i j hi hj, get_dense t h i j hi hj hb]
  · intro i j hi hj hb
    rw [hI.entry i j hi hj, dense_offband t i j hb]

end Convert

/-! ### a description determines the matrix -/

/-- two dense matrices with the same description are equal -/
theorem mat_is_unique {K : Type} {m m' : Mat K} {r c : Nat} {e : Nat → Nat → K}
    (h : Mat.Is m r c e) (h' : Mat.Is m' r c e) : m = m' := by
  obtain ⟨d, r1, c1⟩ := m
  obtain ⟨d', r2, c2⟩ := m'
  have hr := h.rows; have hc := h.cols; have hr' := h'.rows; have hc' := h'.cols
  simp only at hr hc hr' hc'
  subst hr hc
  subst hr' hc'
  have hw : d.size = r2 * c2 := h.wf
  have hw' : d'.size = r2 * c2 := h'.wf
  have hd : d = d' := by
    apply Array.ext_getElem?
    intro k
    by_cases hk : k < r2 * c2
    · have hc0 : 0 < c2 := by
        rcases Nat.eq_zero_or_pos c2 with e0 | e0
        · subst e0; simp at hk
        · exact e0
      have hi : k / c2 < r2 := (Nat.div_lt_iff_lt_mul hc0).mpr hk
      have hj : k % c2 < c2 := Nat.mod_lt _ hc0
      have hidx : k / c2 * c2 + k % c2 = k := Nat.div_add_mod' k c2
      have g := h.entry _ _ hi hj
      have g' := h'.entry _ _ hi hj
      simp only [Mat.get, Mat.aget_eq_ok, hidx] at g g'
      rw [g, g']
    · have k1 : d.size ≤ k := by omega
      have k2 : d'.size ≤ k := by omega
      simp [k1, k2]
  subst hd
  rfl

/-! ### transpose and arithmetic against the dense conversion -/
section Diagrams
variable {K : Type} [Add K] [Sub K] [Mul K] [Neg K] [Zero K] [One K] [BEq K] [ScalarExt K]

/-- (S) the dense twin of the transpose is the transposed dense twin, entry by entry (all i, j) -/
theorem dense_transpose (t : Tri K) (i j : Nat) : dense (Tri.transpose t) i j = dense t j i := by
  unfold dense Tri.transpose
  band_cases

theorem transpose_wf (t : Tri K) (h : WF t) : WF (Tri.transpose t) ∧ (Tri.transpose t).n = t.n :=
  ⟨⟨h.pos, h.main, h.sup, h.sub⟩, rfl⟩

/-- (S) **transpose commutes with the dense conversion**: converting `Tᵀ` gives exactly the
    matrix obtained by transposing the conversion of `T` with the dense `transpose`. -/
theorem transpose_dense (t : Tri K) (h : WF t) :
    ∃ m mt, Tri.convert t = .ok m ∧ Tri.convert (Tri.transpose t) = .ok mt ∧
      Mat.transpose m = .ok mt ∧ Mat.Is mt t.n t.n (fun i j => dense t j i) := by
  obtain ⟨m, hm, I⟩ := convert_spec t h
  obtain ⟨mt, hmt, It⟩ := convert_spec _ (transpose_wf t h).1
  have It' : Mat.Is mt t.n t.n (fun i j => dense t j i) :=
    It.congr (fun i j _ _ => dense_transpose t i j)
  obtain ⟨m', hm', I'⟩ := Mat.transpose_spec I
  have e : m' = mt := mat_is_unique I' It'
  subst e
  exact ⟨m, m', hm, hmt, hm', It'⟩

theorem zip3_convert (f : K → K → K) (h0 : f 0 0 = 0) (a b : Tri K) (ha : WF a) (hb : WF b)
    (hn : a.n = b.n) (ms : Mat K)
    (hs : Mat.Is ms a.n a.n (fun i j => f (dense a i j) (dense b i j))) :
    Tri.convert (zip3 f a b) = .ok ms := by
  obtain ⟨mc, hmc, Ic⟩ := convert_spec _ (zip3_wf f a b ha hb hn)
  have Ic' : Mat.Is mc a.n a.n (fun i j => f (dense a i j) (dense b i j)) :=
    Ic.congr (fun i j _ _ => zip3_dense_all f h0 a b ha hb hn i j)
  rw [hmc, mat_is_unique hs Ic']

theorem map3_convert (f : K → K) (h0 : f 0 = 0) (t : Tri K) (h : WF t) (ms : Mat K)
    (hs : Mat.Is ms t.n t.n (fun i j => f (dense t i j))) :
    Tri.convert (map3 f t) = .ok ms := by
  obtain ⟨mc, hmc, Ic⟩ := convert_spec _ (map3_wf f t h)
  have Ic' : Mat.Is mc t.n t.n (fun i j => f (dense t i j)) :=
    Ic.congr (fun i j _ _ => map3_dense_all f h0 t i j)
  rw [hmc, mat_is_unique hs Ic']

/-- **`+` commutes with the dense conversion** as soon as `0 + 0 = 0` (the only fact about the
    scalar operations that is used: it says the absent entries stay absent). -/
theorem add_convert (h0 : (0 : K) + 0 = 0) (a b : Tri K) (ha : WF a) (hb : WF b) (hn : a.n = b.n) :
    ∃ c ma mb mc, Tri.add a b = .ok c ∧ Tri.convert a = .ok ma ∧ Tri.convert b = .ok mb ∧
      Tri.convert c = .ok mc ∧ Mat.add ma mb = .ok mc := by
  obtain ⟨ma, hma, Ia⟩ := convert_spec a ha
  obtain ⟨mb, hmb, Ib⟩ := convert_spec b hb
  rw [← hn] at Ib
  obtain ⟨ms, hms, Is⟩ := Mat.add_spec Ia Ib
  exact ⟨_, ma, mb, ms, add_eq a b ha hb hn, hma, hmb,
    zip3_convert (· + ·) h0 a b ha hb hn ms Is, hms⟩

/-- **`-` commutes with the dense conversion** as soon as `0 - 0 = 0` -/
theorem sub_convert (h0 : (0 : K) - 0 = 0) (a b : Tri K) (ha : WF a) (hb : WF b) (hn : a.n = b.n) :
    ∃ c ma mb mc, Tri.sub' a b = .ok c ∧ Tri.convert a = .ok ma ∧ Tri.convert b = .ok mb ∧
      Tri.convert c = .ok mc ∧ Mat.sub ma mb = .ok mc := by
  obtain ⟨ma, hma, Ia⟩ := convert_spec a ha
  obtain ⟨mb, hmb, Ib⟩ := convert_spec b hb
  rw [← hn] at Ib
  obtain ⟨ms, hms, Is⟩ := Mat.sub_spec Ia Ib
  exact ⟨_, ma, mb, ms, sub_eq a b ha hb hn, hma, hmb,
    zip3_convert (· - ·) h0 a b ha hb hn ms Is, hms⟩

/-- unary minus commutes with the dense conversion as soon as `-0 = 0` -/
theorem neg_convert (h0 : -(0 : K) = 0) (t : Tri K) (h : WF t) :
    ∃ m mc, Tri.convert t = .ok m ∧ Tri.convert (Tri.neg t) = .ok mc ∧ Mat.neg m = .ok mc := by
  obtain ⟨m, hm, I⟩ := convert_spec t h
  obtain ⟨ms, hms, Is⟩ := Mat.neg_spec I
  exact ⟨m, ms, hm, map3_convert (fun x => -x) h0 t h ms Is, hms⟩

/-- `T * s` commutes with the dense conversion as soon as `0 * s = 0` -/
theorem smul_convert (t : Tri K) (h : WF t) (s : K) (h0 : (0 : K) * s = 0) :
    ∃ m mc, Tri.convert t = .ok m ∧ Tri.convert (Tri.smul t s) = .ok mc ∧
      Mat.smul m s = .ok mc := by
  obtain ⟨m, hm, I⟩ := convert_spec t h
  obtain ⟨ms, hms, Is⟩ := Mat.smul_spec I s
  exact ⟨m, ms, hm, map3_convert (· * s) h0 t h ms Is, hms⟩

/-- `T / s` commutes with the dense conversion when the scalar division by `s` succeeds
    (quotient `q`) and `0 / s = 0` -/
theorem sdiv_convert (t : Tri K) (h : WF t) (s : K) (q : K → K)
    (hq : ∀ x : K, divM x s = .ok (q x)) (h0 : q 0 = 0) :
    ∃ c m mc, Tri.sdiv t s = .ok c ∧ Tri.convert t = .ok m ∧ Tri.convert c = .ok mc ∧
      Mat.sdiv m s = .ok mc := by
  obtain ⟨m, hm, I⟩ := convert_spec t h
  obtain ⟨ms, hms, Is⟩ := Mat.sdiv_spec I s q (fun i j _ _ => hq _)
  have hc' := sdiv_eq t h s q (fun i j _ _ _ => hq _)
  exact ⟨_, m, ms, hc', hm, map3_convert q h0 t h ms Is, hms⟩

/-- `s * T`: the whole dense twin is scaled as soon as `s * 0 = 0` -/
theorem lsmul_dense_all (s : K) (h0 : s * (0 : K) = 0) (t : Tri K) (i j : Nat) :
    dense (Tri.lsmul s t) i j = s * dense t i j :=
  map3_dense_all (s * ·) h0 t i j

/-- **`T += s` does NOT commute with the dense conversion**: it agrees with the dense `+= s`
    on the three diagonals, but outside the band the tridiagonal matrix keeps its structural
    zero where the dense twin receives `0 + s`. (This is the behaviour of the source:
    `add_assign` adds the scalar to the three stored vectors.) -/
theorem addS_convert (t : Tri K) (h : WF t) (s : K) :
    ∃ m mc md, Tri.convert t = .ok m ∧ Tri.convert (Tri.addS t s) = .ok mc ∧
      Mat.addS m s = .ok md ∧
      (∀ i j, i < t.n → j < t.n → inBand i j → mc.get i j = md.get i j) ∧
      (∀ i j, i < t.n → j < t.n → ¬ inBand i j →
        mc.get i j = .ok 0 ∧ md.get i j = .ok (0 + s)) := by
  obtain ⟨m, hm, I⟩ := convert_spec t h
  obtain ⟨md, hmd, Id⟩ := Mat.addS_spec I s
  obtain ⟨mc, hmc, Ic⟩ := convert_spec _ (map3_wf (· + s) t h)
  refine ⟨m, mc, md, hm, hmc, hmd, ?_, ?_⟩
  · intro i j hi hj hb
    rw [Ic.entry i j hi hj, Id.entry i j hi hj]
    exact congrArg _ (map3_dense (· + s) t h i j hi hj hb)
  · intro i j hi hj hb
    rw [Ic.entry i j hi hj, Id.entry i j hi hj, dense_offband _ i j hb, dense_offband _ i j hb]
    exact ⟨rfl, rfl⟩

/-- `T -= s`: as for `+=`, band entries only -/
theorem subS_convert (t : Tri K) (h : WF t) (s : K) :
    ∃ m mc md, Tri.convert t = .ok m ∧ Tri.convert (Tri.subS t s) = .ok mc ∧
      Mat.subS m s = .ok md ∧
      (∀ i j, i < t.n → j < t.n → inBand i j → mc.get i j = md.get i j) ∧
      (∀ i j, i < t.n → j < t.n → ¬ inBand i j →
        mc.get i j = .ok 0 ∧ md.get i j = .ok (0 - s)) := by
  obtain ⟨m, hm, I⟩ := convert_spec t h
  obtain ⟨md, hmd, Id⟩ := Mat.subS_spec I s
  obtain ⟨mc, hmc, Ic⟩ := convert_spec _ (map3_wf (· - s) t h)
  refine ⟨m, mc, md, hm, hmc, hmd, ?_, ?_⟩
  · intro i j hi hj hb
    rw [Ic.entry i j hi hj, Id.entry i j hi hj]
    exact congrArg _ (map3_dense (· - s) t h i j hi hj hb)
  · intro i j hi hj hb
    rw [Ic.entry i j hi hj, Id.entry i j hi hj, dense_offband _ i j hb, dense_offband _ i j hb]
    exact ⟨rfl, rfl⟩

end Diagrams

/-! ### class (E): over a field the absent entries take part in the arithmetic as exact zeros -/
section Exact
variable {K : Type} [Field K] [LinearOrder K]
attribute [local instance] Alg.scalarExt

/-- (E) `dense (T₁ + T₂) = dense T₁ + dense T₂` for ALL (i, j) -/
theorem add_exact (a b : Tri K) (ha : WF a) (hb : WF b) (hn : a.n = b.n) :
    ∃ c, Tri.add a b = .ok c ∧ WF c ∧ c.n = a.n ∧
      ∀ i j, dense c i j = dense a i j + dense b i j :=
  ⟨_, add_eq a b ha hb hn, zip3_wf _ a b ha hb hn, rfl,
    zip3_dense_all (· + ·) (add_zero 0) a b ha hb hn⟩

theorem sub_exact (a b : Tri K) (ha : WF a) (hb : WF b) (hn : a.n = b.n) :
    ∃ c, Tri.sub' a b = .ok c ∧ WF c ∧ c.n = a.n ∧
      ∀ i j, dense c i j = dense a i j - dense b i j :=
  ⟨_, sub_eq a b ha hb hn, zip3_wf _ a b ha hb hn, rfl,
    zip3_dense_all (· - ·) (sub_zero 0) a b ha hb hn⟩

theorem neg_exact (t : Tri K) (i j : Nat) : dense (Tri.neg t) i j = - dense t i j :=
  map3_dense_all (fun x => -x) neg_zero t i j

theorem smul_exact (t : Tri K) (s : K) (i j : Nat) : dense (Tri.smul t s) i j = dense t i j * s :=
  map3_dense_all (· * s) (zero_mul s) t i j

theorem lsmul_exact (s : K) (t : Tri K) (i j : Nat) : dense (Tri.lsmul s t) i j = s * dense t i j :=
  map3_dense_all (s * ·) (mul_zero s) t i j

/-- (E) division by a non-zero scalar divides the whole dense twin -/
theorem sdiv_exact (t : Tri K) (h : WF t) (s : K) (hs : s ≠ 0) :
    ∃ c, Tri.sdiv t s = .ok c ∧ WF c ∧ c.n = t.n ∧ ∀ i j, dense c i j = dense t i j / s :=
  ⟨_, sdiv_eq t h s (· / s) (fun _ _ _ _ _ => Alg.divM_ne hs), map3_wf _ t h, rfl,
    map3_dense_all (· / s) (zero_div s) t⟩

/-- (E) division by an exact zero is rejected (class `arith`) for every n ≥ 1 -/
theorem sdiv_zero (t : Tri K) (h : WF t) : Tri.sdiv t 0 = .error .arith :=
  sdiv_guard t h 0 .arith (fun x => Alg.divM_zero x)

/-- (E) the four ring operations commute with the dense conversion -/
theorem add_convert_exact (a b : Tri K) (ha : WF a) (hb : WF b) (hn : a.n = b.n) :
    ∃ c ma mb mc, Tri.add a b = .ok c ∧ Tri.convert a = .ok ma ∧ Tri.convert b = .ok mb ∧
      Tri.convert c = .ok mc ∧ Mat.add ma mb = .ok mc :=
  add_convert (add_zero 0) a b ha hb hn

theorem sub_convert_exact (a b : Tri K) (ha : WF a) (hb : WF b) (hn : a.n = b.n) :
    ∃ c ma mb mc, Tri.sub' a b = .ok c ∧ Tri.convert a = .ok ma ∧ Tri.convert b = .ok mb ∧
      Tri.convert c = .ok mc ∧ Mat.sub ma mb = .ok mc :=
  sub_convert (sub_zero 0) a b ha hb hn

theorem neg_convert_exact (t : Tri K) (h : WF t) :
    ∃ m mc, Tri.convert t = .ok m ∧ Tri.convert (Tri.neg t) = .ok mc ∧ Mat.neg m = .ok mc :=
  neg_convert neg_zero t h

theorem smul_convert_exact (t : Tri K) (h : WF t) (s : K) :
    ∃ m mc, Tri.convert t = .ok m ∧ Tri.convert (Tri.smul t s) = .ok mc ∧
      Mat.smul m s = .ok mc :=
  smul_convert t h s (zero_mul s)

theorem sdiv_convert_exact (t : Tri K) (h : WF t) (s : K) (hs : s ≠ 0) :
    ∃ c m mc, Tri.sdiv t s = .ok c ∧ Tri.convert t = .ok m ∧ Tri.convert c = .ok mc ∧
      Mat.sdiv m s = .ok mc :=
  sdiv_convert t h s (· / s) (fun _ => Alg.divM_ne hs) (zero_div s)

end Exact

/-! ### non-vacuity: a concrete 3 × 3 matrix over ℚ -/
section Examples
attribute [local instance] Alg.scalarExt

/-- [[1,6,0],[4,2,7],[0,5,3]] -/
def A3 : Tri ℚ := ⟨#[4, 5], #[1, 2, 3], #[6, 7], 3⟩

theorem A3_wf : WF A3 := ⟨by decide, rfl, rfl, rfl⟩

/-- the hypotheses of `convert_spec`, `add_spec`, `set_spec`, `transpose_dense` are satisfiable -/
example : ∃ m, Tri.convert A3 = .ok m ∧ Mat.Is m 3 3 (dense A3) := convert_spec A3 A3_wf

example : dense A3 1 0 = 4 ∧ dense A3 1 2 = 7 ∧ dense A3 0 2 = 0 ∧ dense A3 2 2 = 3 := by
  simp [dense, A3]

example : ∃ c, Tri.add A3 T3 = .ok c ∧ dense c 1 0 = 5 ∧ dense c 2 0 = 0 := by
  obtain ⟨c, hc, _, _, hd⟩ := add_exact A3 T3 A3_wf T3_wf rfl
  refine ⟨c, hc, ?_, ?_⟩
  · rw [hd]; simp [dense, A3, T3]; norm_num
  · rw [hd]; simp [dense, A3, T3]

example : ∃ t', Tri.set A3 1 2 9 = .ok t' ∧ dense t' 1 2 = 9 ∧ dense t' 1 0 = 4 := by
  obtain ⟨t', h1, _, _, _, h2, _, h3⟩ :=
    set_spec A3 A3_wf 1 2 9 (by decide) (by decide) (by decide)
  refine ⟨t', h1, h2, ?_⟩
  rw [h3 1 0 (Or.inr (by decide))]
  simp [dense, A3]

example : Tri.set A3 0 2 9 = .error .range := set_guard A3 0 2 9 (Or.inr (Or.inr (by decide)))
example : Tri.add A3 S2 = .error .size := add_guard A3 S2 (by decide)
example : Tri.sdiv A3 0 = .error .arith := sdiv_zero A3 A3_wf
end Examples

end Ohsl.Props.C05
