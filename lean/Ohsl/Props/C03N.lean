/-
  Property C03, matrix norms — `norm_1` (max absolute column sum), `norm_inf` (max absolute row
  sum), `norm_max` (max entry magnitude), `norm_p` / `norm_frob` of the dense-matrix model
  (Ohsl/Model/Mat.lean, section F64).

  Class (E)/(R): `K` is a linearly ordered field carrying a `Transc K` instance whose `fabs` is
  `|·|` and whose `fmax` is `max` (explicit hypotheses `hfabs`, `hfmax`; both hold by `rfl` at the
  real interpretation `Ohsl.RealI.transc`, see the `_real` versions).  `norm_p`/`norm_frob` are
  stated at ℝ (`powf = Real.rpow`).
  NOT proved here: anything about rounding in f64 (class F).
-/
import Ohsl.Props.C03M
import Ohsl.Lemmas.RealTransc
import Mathlib.Algebra.BigOperators.Group.Finset.Basic
import Mathlib.Algebra.Order.BigOperators.Group.Finset
import Mathlib.Analysis.SpecialFunctions.Pow.Real
import Mathlib.Analysis.SpecialFunctions.Sqrt
import Mathlib.Tactic.Ring
import Mathlib.Tactic.Linarith

set_option linter.unusedSectionVars false
set_option linter.unusedVariables false

namespace Ohsl.Props.C03
open Ohsl Ohsl.Mat

/-! ### two generic accumulation loops -/
section Loops
variable {K : Type} [Field K] [LinearOrder K] [IsStrictOrderedRing K]

/-- a loop that adds `g i` to its state at step `i` returns `init + Σ_{i<n} g i` -/
theorem sum_loop (n : Nat) (g : Nat → K) (F : K → Nat → Res K) (init : K)
    (hF : ∀ s i, i < n → F s i = .ok (s + g i)) :
    forM' 0 n init F = .ok (init + ∑ i ∈ Finset.range n, g i) := by
  obtain ⟨s', hs', hP⟩ := forM'_inv (fun k (s : K) => s = init + ∑ i ∈ Finset.range k, g i)
    0 n init F (Nat.zero_le _) (by simp) (by
      intro k s _ hk hs
      refine ⟨s + g k, hF s k hk, ?_⟩
      rw [hs, Finset.sum_range_succ, add_assoc])
  rw [hs', hP]

/-- a loop that replaces its state `v` by `max v (g j)` at step `j` returns the maximum of `init`
    and the `g j`, `j < n` -/
theorem max_loop (n : Nat) (g : Nat → K) (F : K → Nat → Res K) (init : K)
    (hF : ∀ v j, j < n → F v j = .ok (max v (g j))) :
    ∃ v, forM' 0 n init F = .ok v ∧ init ≤ v ∧ (∀ j, j < n → g j ≤ v) ∧
      (v = init ∨ ∃ j, j < n ∧ v = g j) := by
  refine forM'_inv
    (fun k (v : K) => init ≤ v ∧ (∀ j, j < k → g j ≤ v) ∧ (v = init ∨ ∃ j, j < k ∧ v = g j))
    0 n init F (Nat.zero_le _) ⟨le_refl _, fun j hj => absurd hj (Nat.not_lt_zero _), Or.inl rfl⟩ ?_
  intro k v _ hk hv
  obtain ⟨h1, h2, h3⟩ := hv
  refine ⟨max v (g k), hF v k hk, h1.trans (le_max_left _ _), ?_, ?_⟩
  · intro j hj
    rcases Nat.lt_succ_iff_lt_or_eq.mp hj with h | rfl
    · exact (h2 j h).trans (le_max_left _ _)
    · exact le_max_right _ _
  · rcases max_choice v (g k) with h | h
    · rw [h]
      rcases h3 with h3 | ⟨j, hj, h3⟩
      · exact Or.inl h3
      · exact Or.inr ⟨j, by omega, h3⟩
    · exact Or.inr ⟨k, by omega, h⟩

/-- "`v` is `max(0, g 0, …, g (n-1))`" determines `v` -/
theorem max0_unique {n : Nat} {g : Nat → K} {v v' : K}
    (h0 : 0 ≤ v) (h1 : ∀ j, j < n → g j ≤ v) (h2 : v = 0 ∨ ∃ j, j < n ∧ v = g j)
    (h0' : 0 ≤ v') (h1' : ∀ j, j < n → g j ≤ v') (h2' : v' = 0 ∨ ∃ j, j < n ∧ v' = g j) :
    v = v' := by
  apply le_antisymm
  · rcases h2 with h | ⟨j, hj, h⟩
    · rw [h]; exact h0'
    · rw [h]; exact h1' j hj
  · rcases h2' with h | ⟨j, hj, h⟩
    · rw [h]; exact h0
    · rw [h]; exact h1 j hj

end Loops

/-! ### `norm_1`, `norm_inf`, `norm_max` -/
section Norms
variable {K : Type} [Field K] [LinearOrder K] [IsStrictOrderedRing K] [Transc K]
attribute [local instance] Ohsl.Alg.scalarExt

/-- the inner loop of `norm_1`: the absolute sum of column `j` -/
theorem colSum_loop (hfabs : ∀ x : K, Transc.fabs x = |x|)
    {m : Mat K} {r c : Nat} {e : Nat → Nat → K} (h : Is m r c e) {j : Nat} (hj : j < c) :
    forM' 0 r (0 : K) (fun s i => do
      let x ← m.get i j
      pure (s + Transc.fabs x)) = .ok (∑ i ∈ Finset.range r, |e i j|) := by
  have := sum_loop r (fun i => |e i j|) (fun s i => do
      let x ← m.get i j
      pure (s + Transc.fabs x)) 0 (by
    intro s i hi
    simp only [h.get hi hj, bind, Except.bind, pure, Except.pure, hfabs])
  rw [this, zero_add]

/-- the inner loop of `norm_inf`: the absolute sum of row `i` -/
theorem rowSum_loop (hfabs : ∀ x : K, Transc.fabs x = |x|)
    {m : Mat K} {r c : Nat} {e : Nat → Nat → K} (h : Is m r c e) {i : Nat} (hi : i < r) :
    forM' 0 c (0 : K) (fun s j => do
      let x ← m.get i j
      pure (s + Transc.fabs x)) = .ok (∑ j ∈ Finset.range c, |e i j|) := by
  have := sum_loop c (fun j => |e i j|) (fun s j => do
      let x ← m.get i j
      pure (s + Transc.fabs x)) 0 (by
    intro s j hj
    simp only [h.get hi hj, bind, Except.bind, pure, Except.pure, hfabs])
  rw [this, zero_add]

/-- **`norm_1`** never fails on a well-formed matrix and returns the maximum absolute column sum
    (`0` for a matrix without columns): it bounds every column sum and is attained (or is `0`). -/
theorem norm1_spec (hfabs : ∀ x : K, Transc.fabs x = |x|)
    (hfmax : ∀ x y : K, Transc.fmax x y = max x y)
    {m : Mat K} {r c : Nat} {e : Nat → Nat → K} (h : Is m r c e) :
    ∃ v, Mat.norm1 m = .ok v ∧ 0 ≤ v ∧
      (∀ j, j < c → ∑ i ∈ Finset.range r, |e i j| ≤ v) ∧
      (v = 0 ∨ ∃ j, j < c ∧ v = ∑ i ∈ Finset.range r, |e i j|) := by
  simp only [Mat.norm1, h.rows, h.cols]
  exact max_loop c (fun j => ∑ i ∈ Finset.range r, |e i j|) (fun result j => do
      let s ← forM' 0 r (0 : K) (fun s i => do
        let x ← m.get i j
        pure (s + Transc.fabs x))
      pure (Transc.fmax result s)) 0 (by
    intro v j hj
    simp only [colSum_loop hfabs h hj]
    simp only [bind, Except.bind, pure, Except.pure, hfmax])

/-- **`norm_inf`** never fails on a well-formed matrix and returns the maximum absolute row sum
    (`0` for a matrix without rows). -/
theorem normInf_spec (hfabs : ∀ x : K, Transc.fabs x = |x|)
    (hfmax : ∀ x y : K, Transc.fmax x y = max x y)
    {m : Mat K} {r c : Nat} {e : Nat → Nat → K} (h : Is m r c e) :
    ∃ v, Mat.normInf m = .ok v ∧ 0 ≤ v ∧
      (∀ i, i < r → ∑ j ∈ Finset.range c, |e i j| ≤ v) ∧
      (v = 0 ∨ ∃ i, i < r ∧ v = ∑ j ∈ Finset.range c, |e i j|) := by
  simp only [Mat.normInf, h.rows, h.cols]
  exact max_loop r (fun i => ∑ j ∈ Finset.range c, |e i j|) (fun result i => do
      let s ← forM' 0 c (0 : K) (fun s j => do
        let x ← m.get i j
        pure (s + Transc.fabs x))
      pure (Transc.fmax result s)) 0 (by
    intro v i hi
    simp only [rowSum_loop hfabs h hi]
    simp only [bind, Except.bind, pure, Except.pure, hfmax])

/-- **`norm_max`** never fails on a well-formed matrix and returns the largest entry magnitude
    (`0` for an empty matrix). -/
theorem normMax_spec (hfabs : ∀ x : K, Transc.fabs x = |x|)
    (hfmax : ∀ x y : K, Transc.fmax x y = max x y)
    {m : Mat K} {r c : Nat} {e : Nat → Nat → K} (h : Is m r c e) :
    ∃ v, Mat.normMax m = .ok v ∧ 0 ≤ v ∧
      (∀ i j, i < r → j < c → |e i j| ≤ v) ∧
      (v = 0 ∨ ∃ i j, i < r ∧ j < c ∧ v = |e i j|) := by
  simp only [Mat.normMax, h.rows, h.cols]
  refine forM'_inv
    (fun k (v : K) => 0 ≤ v ∧ (∀ i j, i < k → j < c → |e i j| ≤ v) ∧
      (v = 0 ∨ ∃ i j, i < k ∧ j < c ∧ v = |e i j|))
    0 r (0 : K) (fun r' i => forM' 0 c r' (fun r' j => do
      let x ← m.get i j
      pure (Transc.fmax r' (Transc.fabs x))))
    (Nat.zero_le _) ⟨le_refl _, fun i j hi => absurd hi (Nat.not_lt_zero _), Or.inl rfl⟩ ?_
  intro k v _ hk hv
  obtain ⟨h1, h2, h3⟩ := hv
  obtain ⟨v', hv', g1, g2, g3⟩ := max_loop c (fun j => |e k j|) (fun r' j => do
      let x ← m.get k j
      pure (Transc.fmax r' (Transc.fabs x))) v (by
    intro w j hj
    simp only [h.get hk hj, bind, Except.bind, pure, Except.pure, hfabs, hfmax])
  refine ⟨v', hv', h1.trans g1, ?_, ?_⟩
  · intro i j hi hj
    rcases Nat.lt_succ_iff_lt_or_eq.mp hi with hlt | rfl
    · exact (h2 i j hlt hj).trans g1
    · exact g2 j hj
  · rcases g3 with g3 | ⟨j, hj, g3⟩
    · rw [g3]
      rcases h3 with h3 | ⟨i, j, hi, hj, h3⟩
      · exact Or.inl h3
      · exact Or.inr ⟨i, j, by omega, hj, h3⟩
    · exact Or.inr ⟨k, j, by omega, hj, g3⟩

/-! ### corollaries -/

theorem norm1_nonneg (hfabs : ∀ x : K, Transc.fabs x = |x|)
    (hfmax : ∀ x y : K, Transc.fmax x y = max x y)
    {m : Mat K} {r c : Nat} {e : Nat → Nat → K} (h : Is m r c e) {v : K}
    (hv : Mat.norm1 m = .ok v) : 0 ≤ v := by
  obtain ⟨v', hv', h0, _⟩ := norm1_spec hfabs hfmax h
  rw [hv'] at hv; cases hv; exact h0

theorem normInf_nonneg (hfabs : ∀ x : K, Transc.fabs x = |x|)
    (hfmax : ∀ x y : K, Transc.fmax x y = max x y)
    {m : Mat K} {r c : Nat} {e : Nat → Nat → K} (h : Is m r c e) {v : K}
    (hv : Mat.normInf m = .ok v) : 0 ≤ v := by
  obtain ⟨v', hv', h0, _⟩ := normInf_spec hfabs hfmax h
  rw [hv'] at hv; cases hv; exact h0

theorem normMax_nonneg (hfabs : ∀ x : K, Transc.fabs x = |x|)
    (hfmax : ∀ x y : K, Transc.fmax x y = max x y)
    {m : Mat K} {r c : Nat} {e : Nat → Nat → K} (h : Is m r c e) {v : K}
    (hv : Mat.normMax m = .ok v) : 0 ≤ v := by
  obtain ⟨v', hv', h0, _⟩ := normMax_spec hfabs hfmax h
  rw [hv'] at hv; cases hv; exact h0

/-- a matrix without columns (resp. rows) has `norm_1` (resp. `norm_inf`) zero; the empty matrix
    has `norm_max` zero -/
theorem norms_empty (hfabs : ∀ x : K, Transc.fabs x = |x|)
    (hfmax : ∀ x y : K, Transc.fmax x y = max x y)
    {m : Mat K} {r c : Nat} {e : Nat → Nat → K} (h : Is m r c e) :
    (c = 0 → Mat.norm1 m = .ok 0) ∧ (r = 0 → Mat.normInf m = .ok 0) ∧
    ((r = 0 ∨ c = 0) → Mat.normMax m = .ok 0) := by
  refine ⟨?_, ?_, ?_⟩
  · intro hc
    obtain ⟨v, hv, _, _, h3⟩ := norm1_spec hfabs hfmax h
    rcases h3 with h3 | ⟨j, hj, _⟩
    · rw [hv, h3]
    · omega
  · intro hr
    obtain ⟨v, hv, _, _, h3⟩ := normInf_spec hfabs hfmax h
    rcases h3 with h3 | ⟨i, hi, _⟩
    · rw [hv, h3]
    · omega
  · intro hrc
    obtain ⟨v, hv, _, _, h3⟩ := normMax_spec hfabs hfmax h
    rcases h3 with h3 | ⟨i, j, hi, hj, _⟩
    · rw [hv, h3]
    · omega

/-- the three specifications determine the returned value: any `w` that is non-negative, bounds
    all column sums and is attained (or zero) IS `norm_1 m` -/
theorem norm1_unique (hfabs : ∀ x : K, Transc.fabs x = |x|)
    (hfmax : ∀ x y : K, Transc.fmax x y = max x y)
    {m : Mat K} {r c : Nat} {e : Nat → Nat → K} (h : Is m r c e) {w : K} (h0 : 0 ≤ w)
    (h1 : ∀ j, j < c → ∑ i ∈ Finset.range r, |e i j| ≤ w)
    (h2 : w = 0 ∨ ∃ j, j < c ∧ w = ∑ i ∈ Finset.range r, |e i j|) :
    Mat.norm1 m = .ok w := by
  obtain ⟨v, hv, g0, g1, g2⟩ := norm1_spec hfabs hfmax h
  rw [hv, max0_unique (g := fun j => ∑ i ∈ Finset.range r, |e i j|) g0 g1 g2 h0 h1 h2]

theorem normInf_unique (hfabs : ∀ x : K, Transc.fabs x = |x|)
    (hfmax : ∀ x y : K, Transc.fmax x y = max x y)
    {m : Mat K} {r c : Nat} {e : Nat → Nat → K} (h : Is m r c e) {w : K} (h0 : 0 ≤ w)
    (h1 : ∀ i, i < r → ∑ j ∈ Finset.range c, |e i j| ≤ w)
    (h2 : w = 0 ∨ ∃ i, i < r ∧ w = ∑ j ∈ Finset.range c, |e i j|) :
    Mat.normInf m = .ok w := by
  obtain ⟨v, hv, g0, g1, g2⟩ := normInf_spec hfabs hfmax h
  rw [hv, max0_unique (g := fun i => ∑ j ∈ Finset.range c, |e i j|) g0 g1 g2 h0 h1 h2]

/-- **‖Aᵀ‖₁ = ‖A‖_∞**: `norm_1` of the transpose computed by the model equals `norm_inf` -/
theorem norm1_transpose (hfabs : ∀ x : K, Transc.fabs x = |x|)
    (hfmax : ∀ x y : K, Transc.fmax x y = max x y)
    {m : Mat K} {r c : Nat} {e : Nat → Nat → K} (h : Is m r c e) :
    ∃ mt, Mat.transpose m = .ok mt ∧ Mat.norm1 mt = Mat.normInf m := by
  obtain ⟨mt, hmt, hI⟩ := Mat.transpose_spec h
  refine ⟨mt, hmt, ?_⟩
  obtain ⟨v, hv, g0, g1, g2⟩ := normInf_spec hfabs hfmax h
  rw [hv]
  exact norm1_unique hfabs hfmax hI g0 g1 g2

/-- **‖Aᵀ‖_∞ = ‖A‖₁** -/
theorem normInf_transpose (hfabs : ∀ x : K, Transc.fabs x = |x|)
    (hfmax : ∀ x y : K, Transc.fmax x y = max x y)
    {m : Mat K} {r c : Nat} {e : Nat → Nat → K} (h : Is m r c e) :
    ∃ mt, Mat.transpose m = .ok mt ∧ Mat.normInf mt = Mat.norm1 m := by
  obtain ⟨mt, hmt, hI⟩ := Mat.transpose_spec h
  refine ⟨mt, hmt, ?_⟩
  obtain ⟨v, hv, g0, g1, g2⟩ := norm1_spec hfabs hfmax h
  rw [hv]
  exact normInf_unique hfabs hfmax hI g0 g1 g2

/-- **‖A‖_max ≤ ‖A‖₁** -/
theorem normMax_le_norm1 (hfabs : ∀ x : K, Transc.fabs x = |x|)
    (hfmax : ∀ x y : K, Transc.fmax x y = max x y)
    {m : Mat K} {r c : Nat} {e : Nat → Nat → K} (h : Is m r c e) {vm v1 : K}
    (hm : Mat.normMax m = .ok vm) (h1 : Mat.norm1 m = .ok v1) : vm ≤ v1 := by
  obtain ⟨v, hv, _, _, g3⟩ := normMax_spec hfabs hfmax h
  obtain ⟨w, hw, k0, k1, _⟩ := norm1_spec hfabs hfmax h
  rw [hv] at hm; cases hm
  rw [hw] at h1; cases h1
  rcases g3 with g3 | ⟨i, j, hi, hj, g3⟩
  · rw [g3]; exact k0
  · rw [g3]
    refine le_trans ?_ (k1 j hj)
    exact Finset.single_le_sum (f := fun i => |e i j|) (fun _ _ => abs_nonneg _)
      (Finset.mem_range.mpr hi)

/-- **‖A‖_max ≤ ‖A‖_∞** -/
theorem normMax_le_normInf (hfabs : ∀ x : K, Transc.fabs x = |x|)
    (hfmax : ∀ x y : K, Transc.fmax x y = max x y)
    {m : Mat K} {r c : Nat} {e : Nat → Nat → K} (h : Is m r c e) {vm vi : K}
    (hm : Mat.normMax m = .ok vm) (hi' : Mat.normInf m = .ok vi) : vm ≤ vi := by
  obtain ⟨v, hv, _, _, g3⟩ := normMax_spec hfabs hfmax h
  obtain ⟨w, hw, k0, k1, _⟩ := normInf_spec hfabs hfmax h
  rw [hv] at hm; cases hm
  rw [hw] at hi'; cases hi'
  rcases g3 with g3 | ⟨i, j, hi, hj, g3⟩
  · rw [g3]; exact k0
  · rw [g3]
    refine le_trans ?_ (k1 i hi)
    exact Finset.single_le_sum (f := fun j => |e i j|) (fun _ _ => abs_nonneg _)
      (Finset.mem_range.mpr hj)

/-- definiteness: `norm_max m = 0` exactly when every entry is zero -/
theorem normMax_eq_zero_iff (hfabs : ∀ x : K, Transc.fabs x = |x|)
    (hfmax : ∀ x y : K, Transc.fmax x y = max x y)
    {m : Mat K} {r c : Nat} {e : Nat → Nat → K} (h : Is m r c e) :
    Mat.normMax m = .ok 0 ↔ ∀ i j, i < r → j < c → e i j = 0 := by
  obtain ⟨v, hv, g0, g1, g2⟩ := normMax_spec hfabs hfmax h
  rw [hv]
  constructor
  · intro hz i j hi hj
    cases hz
    exact abs_nonpos_iff.mp (g1 i j hi hj)
  · intro hz
    rcases g2 with g2 | ⟨i, j, hi, hj, g2⟩
    · rw [g2]
    · rw [g2, hz i j hi hj, abs_zero]

end Norms

/-! ### the real interpretation (`Ohsl.RealI.transc`): the hypotheses hold by `rfl` -/
section RealNorms
open Ohsl.RealI

theorem fabs_real (x : ℝ) : (Transc.fabs x : ℝ) = |x| := rfl
theorem fmax_real (x y : ℝ) : (Transc.fmax x y : ℝ) = max x y := rfl

theorem norm1_spec_real {m : Mat ℝ} {r c : Nat} {e : Nat → Nat → ℝ} (h : Is m r c e) :
    ∃ v, Mat.norm1 m = .ok v ∧ 0 ≤ v ∧
      (∀ j, j < c → ∑ i ∈ Finset.range r, |e i j| ≤ v) ∧
      (v = 0 ∨ ∃ j, j < c ∧ v = ∑ i ∈ Finset.range r, |e i j|) :=
  norm1_spec fabs_real fmax_real h

theorem normInf_spec_real {m : Mat ℝ} {r c : Nat} {e : Nat → Nat → ℝ} (h : Is m r c e) :
    ∃ v, Mat.normInf m = .ok v ∧ 0 ≤ v ∧
      (∀ i, i < r → ∑ j ∈ Finset.range c, |e i j| ≤ v) ∧
      (v = 0 ∨ ∃ i, i < r ∧ v = ∑ j ∈ Finset.range c, |e i j|) :=
  normInf_spec fabs_real fmax_real h

theorem normMax_spec_real {m : Mat ℝ} {r c : Nat} {e : Nat → Nat → ℝ} (h : Is m r c e) :
    ∃ v, Mat.normMax m = .ok v ∧ 0 ≤ v ∧
      (∀ i j, i < r → j < c → |e i j| ≤ v) ∧
      (v = 0 ∨ ∃ i j, i < r ∧ j < c ∧ v = |e i j|) :=
  normMax_spec fabs_real fmax_real h

theorem norm1_transpose_real {m : Mat ℝ} {r c : Nat} {e : Nat → Nat → ℝ} (h : Is m r c e) :
    ∃ mt, Mat.transpose m = .ok mt ∧ Mat.norm1 mt = Mat.normInf m :=
  norm1_transpose fabs_real fmax_real h

/-- the accumulation loop of `norm_p`: the entrywise sum of `|e i j| ^ p` in row-major order -/
theorem normP_sum_loop {m : Mat ℝ} {r c : Nat} {e : Nat → Nat → ℝ} (h : Is m r c e) (p : ℝ) :
    forM' 0 r (0 : ℝ) (fun s i =>
      forM' 0 c s (fun s j => do
        let x ← m.get i j
        pure (s + Transc.powf (Transc.fabs x) p))) =
      .ok (∑ i ∈ Finset.range r, ∑ j ∈ Finset.range c, |e i j| ^ p) := by
  have := sum_loop r (fun i => ∑ j ∈ Finset.range c, |e i j| ^ p) (fun s i =>
      forM' 0 c s (fun s j => do
        let x ← m.get i j
        pure (s + Transc.powf (Transc.fabs x) p))) 0 (by
    intro s i hi
    exact sum_loop c (fun j => |e i j| ^ p) (fun s j => do
        let x ← m.get i j
        pure (s + Transc.powf (Transc.fabs x) p)) s (by
      intro s j hj
      simp only [h.get hi hj, bind, Except.bind, pure, Except.pure]
      rfl))
  rw [this, zero_add]

/-- **`norm_p`** (entrywise) for a non-zero exponent: `(Σ_i Σ_j |e i j| ^ p) ^ (1/p)` with
    `Real.rpow` -/
theorem normP_spec {m : Mat ℝ} {r c : Nat} {e : Nat → Nat → ℝ} (h : Is m r c e) {p : ℝ}
    (hp : p ≠ 0) :
    Mat.normP m p =
      .ok ((∑ i ∈ Finset.range r, ∑ j ∈ Finset.range c, |e i j| ^ p) ^ (1 / p)) := by
  simp only [Mat.normP, h.rows, h.cols, normP_sum_loop h p]
  simp only [bind, Except.bind, Alg.divM_ne hp]
  rfl

/-- exponent `0`: the exact division `1 / p` is rejected -/
theorem normP_zero_rejects {m : Mat ℝ} {r c : Nat} {e : Nat → Nat → ℝ} (h : Is m r c e) :
    Mat.normP m 0 = .error .arith := by
  simp only [Mat.normP, h.rows, h.cols, normP_sum_loop h 0]
  simp only [bind, Except.bind, Alg.divM_zero]

/-- **`norm_frob`** is the square root of the sum of the squared entries -/
theorem normFrob_spec {m : Mat ℝ} {r c : Nat} {e : Nat → Nat → ℝ} (h : Is m r c e) :
    Mat.normFrob m =
      .ok (Real.sqrt (∑ i ∈ Finset.range r, ∑ j ∈ Finset.range c, (e i j) ^ 2)) := by
  have h2 : (1 : ℝ) + 1 ≠ 0 := by norm_num
  rw [Mat.normFrob, normP_spec h h2, Real.sqrt_eq_rpow]
  congr 2
  · refine Finset.sum_congr rfl fun i _ => Finset.sum_congr rfl fun j _ => ?_
    rw [one_add_one_eq_two, Real.rpow_two, sq_abs]
  · norm_num

theorem normFrob_nonneg {m : Mat ℝ} {r c : Nat} {e : Nat → Nat → ℝ} (h : Is m r c e) {v : ℝ}
    (hv : Mat.normFrob m = .ok v) : 0 ≤ v := by
  rw [normFrob_spec h] at hv; cases hv; exact Real.sqrt_nonneg _

/-- **‖A‖_max ≤ ‖A‖_F** -/
theorem normMax_le_normFrob {m : Mat ℝ} {r c : Nat} {e : Nat → Nat → ℝ} (h : Is m r c e)
    {vm vf : ℝ} (hm : Mat.normMax m = .ok vm) (hf : Mat.normFrob m = .ok vf) : vm ≤ vf := by
  obtain ⟨v, hv, _, _, g3⟩ := normMax_spec_real h
  rw [hv] at hm; cases hm
  rw [normFrob_spec h] at hf; cases hf
  rcases g3 with g3 | ⟨i, j, hi, hj, g3⟩
  · rw [g3]; exact Real.sqrt_nonneg _
  · rw [g3, ← Real.sqrt_sq_eq_abs]
    apply Real.sqrt_le_sqrt
    refine le_trans ?_ (Finset.single_le_sum
      (f := fun i => ∑ j ∈ Finset.range c, (e i j) ^ 2)
      (fun _ _ => Finset.sum_nonneg fun _ _ => sq_nonneg _) (Finset.mem_range.mpr hi))
    exact Finset.single_le_sum (f := fun j => (e i j) ^ 2) (fun _ _ => sq_nonneg _)
      (Finset.mem_range.mpr hj)

/-- definiteness of the Frobenius norm -/
theorem normFrob_eq_zero_iff {m : Mat ℝ} {r c : Nat} {e : Nat → Nat → ℝ} (h : Is m r c e) :
    Mat.normFrob m = .ok 0 ↔ ∀ i j, i < r → j < c → e i j = 0 := by
  rw [normFrob_spec h]
  have hnn : ∀ i, 0 ≤ ∑ j ∈ Finset.range c, (e i j) ^ 2 :=
    fun i => Finset.sum_nonneg fun _ _ => sq_nonneg _
  constructor
  · intro hz i j hi hj
    have hz' : Real.sqrt (∑ i ∈ Finset.range r, ∑ j ∈ Finset.range c, (e i j) ^ 2) = 0 := by
      injection hz
    rw [Real.sqrt_eq_zero (Finset.sum_nonneg fun i _ => hnn i)] at hz'
    have h1 := (Finset.sum_eq_zero_iff_of_nonneg (fun i _ => hnn i)).mp hz' i
      (Finset.mem_range.mpr hi)
    have h2 := (Finset.sum_eq_zero_iff_of_nonneg (fun j _ => sq_nonneg (e i j))).mp h1 j
      (Finset.mem_range.mpr hj)
    exact pow_eq_zero_iff (two_ne_zero) |>.mp h2
  · intro hz
    have : ∑ i ∈ Finset.range r, ∑ j ∈ Finset.range c, (e i j) ^ 2 = 0 := by
      refine Finset.sum_eq_zero fun i hi => Finset.sum_eq_zero fun j hj => ?_
      rw [hz i j (Finset.mem_range.mp hi) (Finset.mem_range.mp hj)]; norm_num
    rw [this, Real.sqrt_zero]

/-! non-vacuity: a concrete 2×2 real matrix -/
example : Is (⟨#[1, -2, 3, 4], 2, 2⟩ : Mat ℝ) 2 2
    (Mat.entryOf (⟨#[1, -2, 3, 4], 2, 2⟩ : Mat ℝ)) :=
  Mat.Is.of_wf (by simp [Mat.WF])

end RealNorms

end Ohsl.Props.C03
