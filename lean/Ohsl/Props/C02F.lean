/-
  Property C02 (part F) — rounding-error statements for `determinant()` and `inverse()` of the
  dense-matrix model in the "rounded reals" interpretation `Fl M` (Ohsl/Lemmas/Rounding.lean): the
  SAME model definitions `Mat.determinant`, `Mat.inverse` (Ohsl/Model/Solve.lean) instantiated at
  real numbers whose `+ - * /` round with relative error `≤ u` (standard model of floating-point
  arithmetic, no overflow / underflow).  Clause "to rounding accuracy over floats" of C02.
  Built on the LU backward error analysis of C01F (Ohsl/Props/C01F.lean, Ohsl/Lemmas/LURounding.lean);
  helper file: Ohsl/Lemmas/DetRounding.lean.

  The transfer to the Rust `f64` code rests on the ASSUMPTION stated in Rounding.lean (IEEE binary64
  without overflow/underflow satisfies `FlModel` with `u = 2⁻⁵³`); it is not proved here.

  Notation (C01F): `Is A n n a`, `ent`, `Lhat s`, `Uhat n s` the real values of the computed
  factors, `absLU n s = |L̂||Û|`, `permFn π` the 0/1 matrix of the recorded row permutation
  (`(P A)_{rc} = a (π r) c`), `PermOK n π σ`: `π`, `σ` mutually inverse bijections of `{0..n-1}`;
  constants `M.gam k = (1+u)^k − 1 ≤ M.gq k = (1−u)^{−k} − 1 ≤ γ_k = k u/(1 − k u)`.
  A bound "`|ΔA (π r) c| ≤ κ · absLU n s r c` for all `r, c < n`" is `|ΔA| ≤ κ · Pᵀ|L̂||Û|`.

  Determinant (no `n ≥ 1` needed; only `u < 1`)
  * `determinant_backward`   `determinant A = .ok d` ⇒ `d = (1+θ) · det (A + ΔA)` with Mathlib's
        `Matrix.det` of the REAL matrix, `|ΔA| ≤ gq (n−1) · Pᵀ|L̂||Û|` (the backward error of the
        factorisation, `luDecomp_backward`, un-permuted) and `|θ| ≤ gam n` (the `n` rounded
        multiplications of `1·û_00·…·û_{n−1,n−1}`; the sign flip by the parity of `pivots` is
        exact, and `pivots` HAS the parity of the recorded permutation: `Mat.luDecomp_fl_par`).
  * `determinant_computed`   `d = (−1)^pivots · ∏ û_kk · (1+θ)`, `|θ| ≤ gam n`.
  * `determinant_relative_error`   `|d − det (A+ΔA)| ≤ gam n · |det (A+ΔA)|`.
  * `determinant_backward_gamma`   the classical constants `γ_{n−1}`, `γ_n` when `n u < 1`.
  * `determinant_singular_exact_zero`   a computed pivot that is exactly zero (a skipped column)
        gives the result exactly `0`.
  Inverse
  * `inverse_columns_structural` (S, any scalar type)   the in-place column loops of `inverse` ARE
        the recurrences of `forwardSub` / `backsolve` (`Mat.sdot`, cf. `Mat.forwardSub_sdot`,
        `Mat.backsolve_sdot`) applied to column `j` of the permutation matrix.
  * `inverse_backward_columns`   `inverse A = .ok X̂` ⇒ all computed pivots are non-zero and every
        column `j` of `X̂` is the EXACT solution of `(A + ΔA_j) x = e_j` with the column-dependent
        `|ΔA_j| ≤ (gq (n−1) + gq (2n−1)) · Pᵀ|L̂||Û|`  (`gq (n−1)`: factorisation; `gq (2n−1)`:
        forward and back substitution; smaller than the `gq n + gq (3n)` of `solveLU_backward`
        because `P e_j` is a column of the stored 0/1 matrix — copied, not multiplied).
  * `inverse_right_residual`   `|A X̂ − I| ≤ (gq (n−1) + gq (2n−1)) · Pᵀ|L̂||Û||X̂|` componentwise.
  * `inverse_right_residual_gamma`   with `γ_{n−1} + γ_{2n−1}` when `(2n−1) u < 1`.
  Nothing is `_partial`.  (No bound on the LEFT residual `X̂ A − I` or on `X̂ − A⁻¹` is claimed:
  those need `|A⁻¹|` / the conditioning, see Higham §14.)

  Examples (section `Examples`): exact arithmetic (`u = 0`): `θ = 0`, `ΔA = 0`, `d = det A` and
  `A X̂ = I` are recovered; binary64 `u = 2⁻⁵³`; the concrete `2 × 2` matrix `[[1,2],[3,4]]` (one
  row exchange): `determinant = −2`, `inverse = [[−2,1],[3/2,−1/2]]` evaluated in the exact model;
  the `1 × 1` matrix `[2]` in the model `fl x = (1+u) x`: `determinant = 2(1+u)`, so `θ = u = gam 1`
  is attained.
-/
import Ohsl.Props.C02D
import Ohsl.Props.C01F
import Ohsl.Lemmas.DetRounding
import Mathlib.Algebra.BigOperators.Intervals
import Mathlib.Algebra.Order.BigOperators.Group.Finset
import Mathlib.Algebra.BigOperators.Ring.Finset
import Mathlib.Tactic.Ring
import Mathlib.Tactic.Linarith
import Mathlib.Tactic.Positivity
import Mathlib.Tactic.NormNum
set_option linter.unusedSectionVars false
set_option linter.unusedVariables false
set_option linter.unusedSimpArgs false
namespace Ohsl.Props.C02
open Ohsl Ohsl.Mat
open Ohsl.Props.C01 (Lhat Uhat absLU permFn absLU_nonneg)

section Structural
variable {K : Type} [Add K] [Sub K] [Mul K] [Neg K] [Zero K] [One K] [BEq K] [ScalarExt K]

/-- (S) **`inverse()` runs `solve_lu`'s two substitutions on the columns of `P`, in place**: for
every scalar type (no algebraic law), whenever `inverse A` returns `X`, `luDecomp A` returned a
state `s`, and — `pe` describing `s.perm` — `X` is a well-formed `n × n` matrix with entries `b`
such that for every column `c` there is an intermediate vector `y` with
`y_r = sdot (l_r·) y (pe r c) 0 r` (the recurrence `x_r ← x_r − l_rk x_k`, `k = 0..r−1`, of
`forwardSub`, see `Mat.forwardSub_sdot`) and `b_ic = sdot (u_i·) b_·c (y i) (i+1) n / u_ii` with a
successful division (the recurrence of `backsolve`, see `Mat.backsolve_sdot`). -/
theorem inverse_columns_structural {A X : Mat K} {n : Nat} (hA : Mat.WFn A n)
    (h : Mat.inverse A = .ok X) :
    ∃ s : LU K, Mat.luDecomp A = .ok s ∧
      ∀ pe : Nat → Nat → K, Mat.WFn s.lu n → Mat.Is s.perm n n pe →
        ∃ b : Nat → Nat → K, Mat.Is X n n b ∧
          ∀ c, c < n → ∃ y : Nat → K,
            (∀ r, r < n → y r = sdot (ent s.lu r) y (pe r c) 0 r) ∧
            (∀ i, i < n → divM (sdot (ent s.lu i) (fun k => b k c) (y i) (i + 1) n)
              (ent s.lu i i) = .ok (b i c)) :=
  Mat.inverse_sdot hA h

end Structural

section Rounding
variable {M : FlModel}

/-! ### the determinant -/

/-- **`determinant()`, the computed value**: whenever `determinant A` returns `d` in `Fl M`, with
`s` the state returned by `luDecomp A`: `d = (−1)^pivots · ∏_k û_kk · (1+θ)` with `|θ| ≤ gam n`
(`n` rounded multiplications starting from the literal `1`; the final sign flip is exact). -/
theorem determinant_computed (hu : M.u < 1) {n : Nat} {A : Mat (Fl M)} {a : Nat → Nat → Fl M}
    (hA : Mat.Is A n n a) {d : Fl M} (h : Mat.determinant A = .ok d) :
    ∃ (s : LU (Fl M)) (θ : ℝ), Mat.luDecomp A = .ok s ∧ |θ| ≤ M.gam n ∧
      d.val = (-1 : ℝ) ^ s.pivots * (∏ k ∈ Finset.range n, Uhat n s k k) * (1 + θ) := by
  obtain ⟨s, π, σ, hd, hs, hpar, θ, hθ, hv⟩ := determinant_fl hu hA.wfn h
  refine ⟨s, θ, hd, hθ, ?_⟩
  rw [hv]
  congr 2
  apply Finset.prod_congr rfl
  intro k hk
  have hk' := Finset.mem_range.mp hk
  rw [C01.Uhat_apply n s hk', if_neg (by omega)]

/-- **`determinant()`, mixed backward–forward error** (`u < 1`).  Whenever `determinant A` returns
`d` in `Fl M`, with `s` the state returned by `luDecomp A` and `π` its row permutation:
`d = (1+θ) · det (A + ΔA)` — Mathlib's `Matrix.det` of the real matrix `A + ΔA` — where
`|ΔA_{π r, c}| ≤ gq (n−1) · (|L̂||Û|)_{rc}`, i.e. `|ΔA| ≤ gq (n−1) · Pᵀ|L̂||Û|` (exactly the backward
error of the factorisation), and `|θ| ≤ gam n = (1+u)^n − 1`: the computed determinant is, up to a
relative factor within `(1+u)^{±n}`, the EXACT determinant of a matrix within the LU backward error
of `A`. -/
theorem determinant_backward (hu : M.u < 1) {n : Nat} {A : Mat (Fl M)} {a : Nat → Nat → Fl M}
    (hA : Mat.Is A n n a) {d : Fl M} (h : Mat.determinant A = .ok d) :
    ∃ (s : LU (Fl M)) (π σ : Nat → Nat), Mat.luDecomp A = .ok s ∧ PermOK n π σ ∧
      Mat.Is s.perm n n (permFn π) ∧
      ∃ (ΔA : Nat → Nat → ℝ) (θ : ℝ),
        (∀ r c, r < n → c < n → |ΔA (π r) c| ≤ M.gq (n - 1) * absLU n s r c) ∧
        |θ| ≤ M.gam n ∧
        d.val = (1 + θ) *
          Matrix.det (Matrix.of fun (i j : Fin n) => (a i.val j.val).val + ΔA i.val j.val) := by
  obtain ⟨s, π, σ, hd, hs, hpar, θ, hθ, hv⟩ := determinant_fl hu hA.wfn h
  -- `ΔA = Pᵀ (L̂Û) − A`
  refine ⟨s, π, σ, hd, hs.permok, hs.perm,
    fun i j => (∑ k ∈ Finset.range n, Lhat s (σ i) k * Uhat n s k j) - (a i j).val, θ, ?_, hθ, ?_⟩
  · intro r c hr hc
    beta_reduce
    rw [(hs.permok.1 r hr).2]
    have := hs.backward hu r c hr hc
    rw [hA.ent_eq (hs.permok.1 r hr).1 hc] at this
    exact this
  · have hdet := det_LU_perm (valEnt s.lu)
      (fun i j => (a i j).val
        + ((∑ k ∈ Finset.range n, Lhat s (σ i) k * Uhat n s k j) - (a i j).val))
      π (fun r hr => (hs.permok.1 r hr).1) s.pivots hpar (by
        intro r c hr hc
        rw [(hs.permok.1 r hr).2]
        show _ = (a (π r) c).val
          + ((∑ k ∈ Finset.range n, Lfn (valEnt s.lu) r k * Ufn n (valEnt s.lu) k c)
            - (a (π r) c).val)
        ring)
    change d.val = (1 + θ) * (toMat n (fun i j => (a i j).val
        + ((∑ k ∈ Finset.range n, Lhat s (σ i) k * Uhat n s k j) - (a i j).val))).det
    rw [hdet, hv]
    unfold valEnt
    ring

/-- **relative error form**: `|d − det (A + ΔA)| ≤ gam n · |det (A + ΔA)|`, `|ΔA| ≤ gq (n−1) Pᵀ|L̂||Û|` -/
theorem determinant_relative_error (hu : M.u < 1) {n : Nat} {A : Mat (Fl M)}
    {a : Nat → Nat → Fl M} (hA : Mat.Is A n n a) {d : Fl M} (h : Mat.determinant A = .ok d) :
    ∃ (s : LU (Fl M)) (π σ : Nat → Nat), Mat.luDecomp A = .ok s ∧ PermOK n π σ ∧
      Mat.Is s.perm n n (permFn π) ∧
      ∃ ΔA : Nat → Nat → ℝ,
        (∀ r c, r < n → c < n → |ΔA (π r) c| ≤ M.gq (n - 1) * absLU n s r c) ∧
        |d.val - Matrix.det (Matrix.of fun (i j : Fin n) => (a i.val j.val).val + ΔA i.val j.val)|
          ≤ M.gam n *
            |Matrix.det (Matrix.of fun (i j : Fin n) => (a i.val j.val).val + ΔA i.val j.val)| := by
  obtain ⟨s, π, σ, hd, hp, hpm, ΔA, θ, hbd, hθ, hv⟩ := determinant_backward hu hA h
  refine ⟨s, π, σ, hd, hp, hpm, ΔA, hbd, ?_⟩
  rw [hv]
  set D := Matrix.det (Matrix.of fun (i j : Fin n) => (a i.val j.val).val + ΔA i.val j.val)
  have e : (1 + θ) * D - D = θ * D := by ring
  rw [e, abs_mul]
  exact mul_le_mul_of_nonneg_right hθ (abs_nonneg _)

/-- **the classical constants**: `|ΔA| ≤ γ_{n−1} · Pᵀ|L̂||Û|` and `|θ| ≤ γ_n`, `γ_k = k u/(1 − k u)`,
when `n u < 1` -/
theorem determinant_backward_gamma {n : Nat} (hn : 1 ≤ n) (hnu : (n : ℝ) * M.u < 1)
    {A : Mat (Fl M)} {a : Nat → Nat → Fl M} (hA : Mat.Is A n n a) {d : Fl M}
    (h : Mat.determinant A = .ok d) :
    ∃ (s : LU (Fl M)) (π σ : Nat → Nat), Mat.luDecomp A = .ok s ∧ PermOK n π σ ∧
      Mat.Is s.perm n n (permFn π) ∧
      ∃ (ΔA : Nat → Nat → ℝ) (θ : ℝ),
        (∀ r c, r < n → c < n → |ΔA (π r) c|
          ≤ (((n - 1 : ℕ) : ℝ) * M.u / (1 - ((n - 1 : ℕ) : ℝ) * M.u)) * absLU n s r c) ∧
        |θ| ≤ (n : ℝ) * M.u / (1 - n * M.u) ∧
        d.val = (1 + θ) *
          Matrix.det (Matrix.of fun (i j : Fin n) => (a i.val j.val).val + ΔA i.val j.val) := by
  have hu0 := M.u_nonneg
  have hn1 : (1 : ℝ) ≤ n := by exact_mod_cast hn
  have hu : M.u < 1 := by nlinarith
  have hle : ((n - 1 : ℕ) : ℝ) ≤ n := by exact_mod_cast Nat.sub_le n 1
  have hnu1 : ((n - 1 : ℕ) : ℝ) * M.u < 1 := by nlinarith
  obtain ⟨s, π, σ, hd, hp, hpm, ΔA, θ, hbd, hθ, hv⟩ := determinant_backward hu hA h
  refine ⟨s, π, σ, hd, hp, hpm, ΔA, θ, fun r c hr hc => (hbd r c hr hc).trans ?_,
    hθ.trans (M.gam_le_gamma n hnu), hv⟩
  exact mul_le_mul_of_nonneg_right (FlModel.gq_le_gamma (n - 1) hnu1) (absLU_nonneg n s r c)

/-- **a skipped column gives exactly zero**: if a pivot of the computed factorisation is exactly
`0` (the pivot search found only exact zeros and `lu_decomp_in_place` skipped the column), the
computed determinant is exactly `0` — no rounding error at all (`fl 0 = 0`). -/
theorem determinant_singular_exact_zero (hu : M.u < 1) {n : Nat} {A : Mat (Fl M)}
    {a : Nat → Nat → Fl M} (hA : Mat.Is A n n a) {d : Fl M} (h : Mat.determinant A = .ok d)
    {s : LU (Fl M)} (hs : Mat.luDecomp A = .ok s) {k : Nat} (hk : k < n)
    (hz : (ent s.lu k k).val = 0) : d.val = 0 := by
  obtain ⟨s', π, σ, hd, _, _, θ, _, hv⟩ := determinant_fl hu hA.wfn h
  rw [hs] at hd
  injection hd with hd
  subst hd
  rw [hv, Finset.prod_eq_zero (Finset.mem_range.mpr hk) hz]
  ring

/-! ### the inverse -/

/-- **`inverse()`, columnwise backward error** (the classical statement, Higham §14.3 "Method B"
column by column; `u < 1`).  Whenever `inverse A` returns `X̂` in `Fl M`, with `s` the state returned
by `luDecomp A` and `π` its row permutation: `X̂` is a well-formed `n × n` matrix, every computed
pivot `û_kk` is non-zero, and for EVERY column `j` there is a perturbation `ΔA_j` with
`(A + ΔA_j) x̂_j = e_j` EXACTLY and `|ΔA_j (π r) c| ≤ (gq (n−1) + gq (2n−1)) · (|L̂||Û|)_{rc}`, i.e.
`|ΔA_j| ≤ (gq (n−1) + gq (2n−1)) · Pᵀ|L̂||Û|`.  The perturbation depends on the column. -/
theorem inverse_backward_columns (hu : M.u < 1) {n : Nat} {A : Mat (Fl M)}
    {a : Nat → Nat → Fl M} (hA : Mat.Is A n n a) {X : Mat (Fl M)} (h : Mat.inverse A = .ok X) :
    ∃ (s : LU (Fl M)) (π σ : Nat → Nat), Mat.luDecomp A = .ok s ∧ PermOK n π σ ∧
      Mat.Is s.perm n n (permFn π) ∧ Mat.WFn X n ∧ (∀ k, k < n → Uhat n s k k ≠ 0) ∧
      ∀ j, j < n → ∃ ΔA : Nat → Nat → ℝ,
        (∀ i, i < n → ∑ c ∈ Finset.range n,
          ((a i c).val + ΔA i c) * (ent X c j).val = if i = j then 1 else 0) ∧
        ∀ r c, r < n → c < n →
          |ΔA (π r) c| ≤ (M.gq (n - 1) + M.gq (2 * n - 1)) * absLU n s r c := by
  obtain ⟨s, π, σ, hd, hs, hX, hpiv, hcols⟩ := inverse_fl_core hu hA.wfn h
  refine ⟨s, π, σ, hd, hs.permok, hs.perm, hX, ?_, ?_⟩
  · intro k hk
    rw [C01.Uhat_apply n s hk, if_neg (by omega)]
    exact hpiv k hk
  · intro j hj
    obtain ⟨ΔA', h1, h2⟩ := hcols j hj
    refine ⟨fun i c => ΔA' (σ i) c, ?_, ?_⟩
    · intro i hi
      obtain ⟨hσ, hπσ⟩ := hs.permok.2 i hi
      have := h1 (σ i) hσ
      rw [hπσ] at this
      have e : (if j = i then (1 : ℝ) else 0) = if i = j then 1 else 0 := by
        by_cases hij : i = j
        · simp [hij]
        · have : ¬ j = i := fun e => hij e.symm
          simp [hij, this]
      rw [← e, ← this]
      apply Finset.sum_congr rfl
      intro c hc
      rw [hA.ent_eq hi (Finset.mem_range.mp hc)]
    · intro r c hr hc
      show |ΔA' (σ (π r)) c| ≤ _
      rw [(hs.permok.1 r hr).2]
      exact h2 r c hr hc

/-- **`inverse()`, right residual**: `|A X̂ − I| ≤ (gq (n−1) + gq (2n−1)) · Pᵀ|L̂||Û||X̂|`
componentwise: for all `i, j < n`,
`|Σ_c a_ic x̂_cj − δ_ij| ≤ (gq (n−1) + gq (2n−1)) · Σ_c (|L̂||Û|)_{σ i, c} |x̂_cj|`
(`σ = π⁻¹`: row `i` of `Pᵀ|L̂||Û|` is row `σ i` of `|L̂||Û|`). -/
theorem inverse_right_residual (hu : M.u < 1) {n : Nat} {A : Mat (Fl M)}
    {a : Nat → Nat → Fl M} (hA : Mat.Is A n n a) {X : Mat (Fl M)} (h : Mat.inverse A = .ok X) :
    ∃ (s : LU (Fl M)) (π σ : Nat → Nat), Mat.luDecomp A = .ok s ∧ PermOK n π σ ∧
      Mat.Is s.perm n n (permFn π) ∧ Mat.WFn X n ∧
      ∀ i j, i < n → j < n →
        |(∑ c ∈ Finset.range n, (a i c).val * (ent X c j).val) - (if i = j then 1 else 0)|
          ≤ (M.gq (n - 1) + M.gq (2 * n - 1)) *
            ∑ c ∈ Finset.range n, absLU n s (σ i) c * |(ent X c j).val| := by
  obtain ⟨s, π, σ, hd, hp, hpm, hX, _, hcols⟩ := inverse_backward_columns hu hA h
  refine ⟨s, π, σ, hd, hp, hpm, hX, ?_⟩
  intro i j hi hj
  obtain ⟨ΔA, h1, h2⟩ := hcols j hj
  obtain ⟨hσ, hπσ⟩ := hp.2 i hi
  have e : (∑ c ∈ Finset.range n, (a i c).val * (ent X c j).val) - (if i = j then (1 : ℝ) else 0)
      = - ∑ c ∈ Finset.range n, ΔA i c * (ent X c j).val := by
    rw [← h1 i hi, ← Finset.sum_sub_distrib, ← Finset.sum_neg_distrib]
    apply Finset.sum_congr rfl
    intro c _
    ring
  rw [e, abs_neg, Finset.mul_sum]
  refine (Finset.abs_sum_le_sum_abs _ _).trans (Finset.sum_le_sum ?_)
  intro c hc
  have := h2 (σ i) c hσ (Finset.mem_range.mp hc)
  rw [hπσ] at this
  rw [abs_mul, ← mul_assoc]
  exact mul_le_mul_of_nonneg_right this (abs_nonneg _)

/-- **the classical constants** for the right residual:
`|A X̂ − I| ≤ (γ_{n−1} + γ_{2n−1}) · Pᵀ|L̂||Û||X̂|` when `(2n−1) u < 1` -/
theorem inverse_right_residual_gamma {n : Nat} (hn : 1 ≤ n)
    (hnu : ((2 * n - 1 : ℕ) : ℝ) * M.u < 1) {A : Mat (Fl M)} {a : Nat → Nat → Fl M}
    (hA : Mat.Is A n n a) {X : Mat (Fl M)} (h : Mat.inverse A = .ok X) :
    ∃ (s : LU (Fl M)) (π σ : Nat → Nat), Mat.luDecomp A = .ok s ∧ PermOK n π σ ∧
      Mat.Is s.perm n n (permFn π) ∧ Mat.WFn X n ∧
      ∀ i j, i < n → j < n →
        |(∑ c ∈ Finset.range n, (a i c).val * (ent X c j).val) - (if i = j then 1 else 0)|
          ≤ (((n - 1 : ℕ) : ℝ) * M.u / (1 - ((n - 1 : ℕ) : ℝ) * M.u)
              + ((2 * n - 1 : ℕ) : ℝ) * M.u / (1 - ((2 * n - 1 : ℕ) : ℝ) * M.u)) *
            ∑ c ∈ Finset.range n, absLU n s (σ i) c * |(ent X c j).val| := by
  have hu0 := M.u_nonneg
  have h1 : (1 : ℝ) ≤ ((2 * n - 1 : ℕ) : ℝ) := by
    have : 1 ≤ 2 * n - 1 := by omega
    exact_mod_cast this
  have hu : M.u < 1 := by nlinarith
  have hle : ((n - 1 : ℕ) : ℝ) ≤ ((2 * n - 1 : ℕ) : ℝ) := by
    have : n - 1 ≤ 2 * n - 1 := by omega
    exact_mod_cast this
  have hnu1 : ((n - 1 : ℕ) : ℝ) * M.u < 1 := by nlinarith
  obtain ⟨s, π, σ, hd, hp, hpm, hX, hres⟩ := inverse_right_residual hu hA h
  refine ⟨s, π, σ, hd, hp, hpm, hX, fun i j hi hj => (hres i j hi hj).trans ?_⟩
  refine mul_le_mul_of_nonneg_right
    (add_le_add (FlModel.gq_le_gamma (n - 1) hnu1) (FlModel.gq_le_gamma (2 * n - 1) hnu)) ?_
  exact Finset.sum_nonneg (fun c _ => mul_nonneg (absLU_nonneg n s _ c) (abs_nonneg _))

end Rounding

/-! ### non-vacuity -/

section Examples

/-- exact arithmetic is a model (`u = 0 < 1`); there `θ = 0` and `ΔA = 0`, and the exact theorem
(`determinant_correct` of C02D) is recovered: the returned value is `Matrix.det` -/
example {n : Nat} {A : Mat (Fl FlModel.exact)} {a : Nat → Nat → Fl FlModel.exact}
    (hA : Mat.Is A n n a) {d : Fl FlModel.exact} (h : Mat.determinant A = .ok d) :
    d.val = Matrix.det (Matrix.of fun (i j : Fin n) => (a i.val j.val).val) := by
  have hu : FlModel.exact.u < 1 := by simp [FlModel.exact]
  obtain ⟨s, π, σ, _, hperm, _, ΔA, θ, hbd, hθ, hv⟩ := determinant_backward hu hA h
  have hθ0 : θ = 0 := by
    have : FlModel.exact.gam n = 0 := by simp [FlModel.gam, FlModel.exact]
    rw [this] at hθ
    exact abs_nonpos_iff.mp hθ
  have hΔ : ∀ i j, i < n → j < n → ΔA i j = 0 := by
    intro i j hi hj
    obtain ⟨hσ, hπσ⟩ := hperm.2 i hi
    have := hbd (σ i) j hσ hj
    rw [hπσ, FlModel.gq_exact, zero_mul] at this
    exact abs_nonpos_iff.mp this
  rw [hv, hθ0, add_zero, one_mul]
  congr 1
  ext i j
  simp [hΔ i.val j.val i.isLt j.isLt]

/-- in exact arithmetic the residual bound is `0`: `A X̂ = I` (`inverse_correct` of C02D) -/
example {n : Nat} {A X : Mat (Fl FlModel.exact)} {a : Nat → Nat → Fl FlModel.exact}
    (hA : Mat.Is A n n a) (h : Mat.inverse A = .ok X) :
    ∀ i j, i < n → j < n →
      ∑ c ∈ Finset.range n, (a i c).val * (ent X c j).val = if i = j then 1 else 0 := by
  have hu : FlModel.exact.u < 1 := by simp [FlModel.exact]
  obtain ⟨s, π, σ, _, _, _, _, hres⟩ := inverse_right_residual hu hA h
  intro i j hi hj
  have := hres i j hi hj
  rw [FlModel.gq_exact, FlModel.gq_exact, add_zero, zero_mul] at this
  exact sub_eq_zero.mp (abs_nonpos_iff.mp this)

/-- the theorems apply to the binary64 significand format of Rounding.lean: `u = 2⁻⁵³ < 1`, and
`(2n−1) u < 1` for every order up to `10¹⁵` -/
example : FlModel.binary64.u < 1 ∧ ((2 * 10 ^ 15 - 1 : ℕ) : ℝ) * FlModel.binary64.u < 1 := by
  rw [FlModel.binary64_u]
  constructor <;> norm_num

/-! the concrete `2 × 2` matrix `[[1,2],[3,4]]` of C01F (`C01.Ex.A2`; its first column needs a row
exchange, `pivots = 1`), evaluated in the exact model -/

namespace Ex
open Ohsl.Props.C01.Ex

theorem determinant_A2 : Mat.determinant A2 = .ok ⟨-2⟩ := by
  have hr : A2.rows = 2 := rfl
  simp only [determinant, luDecomp_A2, bind, Except.bind, hr]
  norm_num [forM', List.range', Mat.get, aget, bind, Except.bind, pure, Except.pure,
    E.mul_eq, Fl.ext_iff]

theorem inverse_A2 : Mat.inverse A2 = .ok ⟨#[⟨-2⟩, ⟨1⟩, ⟨3/2⟩, ⟨-1/2⟩], 2, 2⟩ := by
  have hr : A2.rows = 2 := rfl
  have hc : A2.cols = 2 := rfl
  have h2 : ¬ (2 : Nat) ≠ 2 := by simp
  simp only [inverse, hr, hc, h2, if_false, luDecomp_A2, bind, Except.bind]
  norm_num [forM', List.range', List.range_succ, Mat.get, Mat.set, aget, aset, bind, Except.bind,
    pure, Except.pure, E.add_eq, E.sub_eq, E.mul_eq, E.divM_eq, Fl.ext_iff]

/-- the hypotheses of `determinant_backward` and `inverse_backward_columns` are satisfiable for a
concrete non-trivial matrix (with a genuine row exchange), and their conclusions hold there -/
example : ∃ (A X : Mat E) (d : E), Mat.Is A 2 2 (Mat.ent A) ∧ FlModel.exact.u < 1 ∧
    Mat.determinant A = .ok d ∧ d.val = -2 ∧ Mat.inverse A = .ok X ∧
    ∃ (s : LU E) (π σ : Nat → Nat), Mat.luDecomp A = .ok s ∧ s.pivots = 1 ∧ PermOK 2 π σ ∧
      (∃ (ΔA : Nat → Nat → ℝ) (θ : ℝ),
        (∀ r c, r < 2 → c < 2 → |ΔA (π r) c| ≤ FlModel.exact.gq (2 - 1) * absLU 2 s r c) ∧
        |θ| ≤ FlModel.exact.gam 2 ∧
        d.val = (1 + θ) * Matrix.det (Matrix.of fun (i j : Fin 2) =>
          (Mat.ent A i.val j.val).val + ΔA i.val j.val)) ∧
      ∀ j, j < 2 → ∃ ΔA : Nat → Nat → ℝ,
        (∀ i, i < 2 → ∑ c ∈ Finset.range 2,
          ((Mat.ent A i c).val + ΔA i c) * (ent X c j).val = if i = j then 1 else 0) ∧
        ∀ r c, r < 2 → c < 2 →
          |ΔA (π r) c| ≤ (FlModel.exact.gq (2 - 1) + FlModel.exact.gq (2 * 2 - 1)) * absLU 2 s r c := by
  have hu : FlModel.exact.u < 1 := by simp [FlModel.exact]
  have hA : Mat.Is A2 2 2 (Mat.ent A2) := Mat.WFn.is ⟨rfl, rfl, rfl⟩
  obtain ⟨s, π, σ, hd, hp, _, ΔA, θ, h1, h2, h3⟩ := determinant_backward hu hA determinant_A2
  obtain ⟨s', π', σ', hd', hp', hpm', _, _, hcols⟩ := inverse_backward_columns hu hA inverse_A2
  refine ⟨A2, _, _, hA, hu, determinant_A2, rfl, inverse_A2, s', π', σ', hd', ?_, hp', ?_, hcols⟩
  · rw [luDecomp_A2] at hd'
    injection hd' with hd'
    rw [← hd']
  · obtain ⟨s'', π'', σ'', hd'', hp'', hpm'', rest⟩ := determinant_backward hu hA determinant_A2
    rw [hd'] at hd''
    injection hd'' with hd''
    subst hd''
    -- the two descriptions of `s.perm` give the same permutation on `{0,1}`
    have hπ : ∀ r, r < 2 → π'' r = π' r := by
      intro r hr
      have e1 := hpm''.ent_eq hr (hp'.1 r hr).1
      have e2 := hpm'.ent_eq hr (hp'.1 r hr).1
      rw [e1] at e2
      unfold permFn at e2
      by_contra hne
      have hne' : ¬ π' r = π'' r := fun e => hne e.symm
      rw [if_neg hne', if_pos rfl] at e2
      have := congrArg Fl.val e2
      simp at this
    obtain ⟨ΔA, θ, g1, g2, g3⟩ := rest
    refine ⟨ΔA, θ, fun r c hr hc => ?_, g2, g3⟩
    rw [← hπ r hr]
    exact g1 r c hr hc

/-! a model that really rounds, `fl x = (1+u) x` (`FlModel.scale`), and the `1 × 1` matrix `[2]`:
the computed determinant is `fl(1·2) = 2(1+u)`, so `θ = u = gam 1`: the bound `|θ| ≤ gam n` of
`determinant_backward` is attained (here `ΔA = 0`: nothing is eliminated) -/

section Scale
variable (u : ℝ) (hu0 : 0 ≤ u)

theorem determinant_scale :
    Mat.determinant (⟨#[⟨2⟩], 1, 1⟩ : Mat (S u hu0)) = .ok ⟨2 * (1 + u)⟩ := by
  norm_num [determinant, luDecomp, eye, forM', Mat.new, Mat.set, aset, List.range', luStep, luPivot,
    Mat.get, aget, bind, Except.bind, pure, Except.pure, S.mul_eq, S.lt_eq, S.mag_eq, Fl.ext_iff]
  ring

example (hu1 : u < 1) :
    ∃ (A : Mat (S u hu0)) (d : S u hu0), Mat.Is A 1 1 (Mat.ent A) ∧
      Mat.determinant A = .ok d ∧ d.val = 2 * (1 + u) ∧
      ∃ (ΔA : Nat → Nat → ℝ) (θ : ℝ), |θ| ≤ (FlModel.scale u hu0).gam 1 ∧
        d.val = (1 + θ) * Matrix.det (Matrix.of fun (i j : Fin 1) =>
          (Mat.ent A i.val j.val).val + ΔA i.val j.val) := by
  have hA : Mat.Is (⟨#[⟨2⟩], 1, 1⟩ : Mat (S u hu0)) 1 1 (Mat.ent _) := Mat.WFn.is ⟨rfl, rfl, rfl⟩
  have hu : (FlModel.scale u hu0).u < 1 := hu1
  obtain ⟨s, π, σ, _, _, _, ΔA, θ, _, hθ, hv⟩ :=
    determinant_backward hu hA (determinant_scale u hu0)
  exact ⟨_, _, hA, determinant_scale u hu0, rfl, ΔA, θ, hθ, hv⟩

end Scale

end Ex

end Examples

end Ohsl.Props.C02
