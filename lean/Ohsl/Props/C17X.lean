/-
  Property C17 (continued) — the exact-arithmetic theorems about the SYSTEM Newton iteration
  (`Ohsl.Jac.solveSys`, Ohsl/Model/Newton.lean) for EVERY exact element type, complex scalars
  included (`Newton<Vector<Cmplx>>::solve` / `solve_jacobian`: `solveSys` at element type
  `Cx f64`, with `Vec.normInfC` — the largest MODULUS of the residual — and the real test
  `r <= tol`; the finite-difference Jacobian is `jacobian_cmplx`, step `⟨delta, 0⟩`).

  C17A / C17B / C17C state these for a linearly ordered field with `Alg.scalarExt`.  The proofs
  use only `Alg.DivLaw K` (soundness of `solve_basic`) and `Alg.PivotLaws K` (its completeness);
  the solver theorems are the `_gen` ones of C01X.

  Generic (`K` any field, any `ScalarExt K` satisfying the laws; the norm / tolerance test are
  parameters `normInf`, `leTol` as in `solveSys`; `f` is ANY function that is the residual
  `x ↦ M x − c` on the vectors of length `n`, `IsAffineRes`):
  * `solveBasic_zero_rhs_gen`, `affine_step_root_gen`, `affine_root_unique_gen`
  * `newton_affine_sys_supplied_solve_gen`   (DivLaw; the linear solves assumed to return)
  * `newton_affine_sys_supplied_det_gen`     (PivotLaws; `det M ≠ 0`): from ANY guess the first
        step lands exactly on THE solution, the second step is zero, budget 1 returns the
        solution flagged `Ok` iff the residual of the GUESS met the tolerance, every budget ≥ 2
        reports `Ok`
  * `newton_affine_sys_fd_det_gen`           the same with the finite-difference Jacobian
  * `newton_sys_fixed_point_genK`, `newton_sys_fixed_point_det_genK`,
    `newton_sys_fixed_point_singular_genK`   an exact root as guess: `Ok` at once if the
        Jacobian there is nonsingular, a PANIC if it is singular
  * `stepFails_iff_gen`, `sys_panics_iff_gen`  the run panics iff … the Jacobian is SINGULAR …
  (`…_genK` where the name `…_gen` is taken by the norm-generic theorems of C17A / C17C.)

  Complex (`…_cx`): the same for `solveSys` over `Cx ℝ` with the model's own instances,
  `Vec.normInfC` and `fun r => Transc.le r tol` over ℝ; equations and determinants in Mathlib's ℂ
  through `toC` (`AffineResC`, `RootC`, `C01.detC`).
-/
import Ohsl.Props.C17C
import Ohsl.Props.C01X
import Ohsl.Props.C18X
import Ohsl.Lemmas.C17X
set_option linter.unusedSectionVars false
set_option linter.unusedVariables false
set_option linter.unusedSimpArgs false
namespace Ohsl.Props.C17
open Ohsl Ohsl.Newton Ohsl.Jac Ohsl.Mat Ohsl.C17X

/-- `f` is the residual map `x ↦ M x − c` of the `n × n` linear system `M x = c` on the vectors
    of length `n` (nothing is assumed about `f` elsewhere) -/
def IsAffineRes {K : Type} [Field K] (M : Nat → Nat → K) (c : Nat → K) (n : Nat)
    (f : Array K → Array K) : Prop :=
  ∀ x : Array K, x.size = n → (f x).size = n ∧
    ∀ i, i < n → (f x)[i]?.getD 0 = (∑ j ∈ Finset.range n, M i j * (x[j]?.getD 0)) - c i

/-- `C17.affineRes M c n` is such a map -/
theorem affineRes_isAffineRes {K : Type} [Field K] (M : Nat → Nat → K) (c : Nat → K) (n : Nat) :
    IsAffineRes M c n (affineRes M c n) := by
  intro x _
  refine ⟨by simp [affineRes, C18.affineMap], fun i hi => ?_⟩
  simp [affineRes, C18.affineMap, hi, sub_eq_add_neg]

/-! ### generic in the division law -/
section Gen
variable {K : Type} [Field K] [BEq K] [LawfulBEq K] [ScalarExt K] [DecidableEq K]

section Div
variable [Alg.DivLaw K]

/-- at a root the residual is the zero vector -/
theorem isAffineRes_root {M : Nat → Nat → K} {c : Nat → K} {n : Nat} {f : Array K → Array K}
    (hF : IsAffineRes M c n f) {x : Array K} (h : IsRoot M c n x) :
    f x = Array.replicate n 0 := by
  obtain ⟨hs, he⟩ := hF x h.1
  apply Array.ext
  · simp [hs]
  · intro i h1 h2
    have hi : i < n := by rw [← hs]; exact h1
    have := he i hi
    simp only [h1, Array.getElem?_eq_getElem, Option.getD_some] at this
    rw [this, h.2 i hi]
    simp

/-- **a returning `solve_basic` with a zero right-hand side returns the zero vector** -/
theorem solveBasic_zero_rhs_gen {n : Nat} (hn : 1 ≤ n) {J : Mat K} {a : Nat → Nat → K}
    (hJ : Mat.Is J n n a) {dx : Array K}
    (h : Mat.solveBasic J (Array.replicate n (0 : K)) = .ok dx) : dx = Array.replicate n 0 := by
  have hb : (Array.replicate n (0 : K)).size = n := by simp
  obtain ⟨hs, _⟩ := C01.solveBasic_sound_gen hn hJ hb h
  have hu := C01.solveBasic_unique_gen hn hJ hb h (fun _ => 0) (by
    intro i hi
    simp [hi])
  apply Array.ext
  · simp [hs]
  · intro j h1 h2
    have := hu j (by omega)
    simp only [h1, Array.getElem?_eq_getElem, Option.getD_some] at this
    simp [← this]

/-- **one exact Newton step on an affine system lands on a root**: from any `x` of length `n`,
    with `J = M`, if `solve_basic J (M x − c)` returned `dx` then `x − dx` is computed and
    solves `M x' = c` exactly. -/
theorem affine_step_root_gen {M : Nat → Nat → K} {c : Nat → K} {n : Nat} (hn : 1 ≤ n)
    {f : Array K → Array K} (hF : IsAffineRes M c n f) {J : Mat K}
    (hJ : Mat.Is J n n M) {x dx : Array K} (hx : x.size = n)
    (h : Mat.solveBasic J (f x) = .ok dx) :
    ∃ x', Vec.sub x dx = .ok x' ∧ IsRoot M c n x' := by
  obtain ⟨hfs, hfe⟩ := hF x hx
  obtain ⟨hs, hsol⟩ := C01.solveBasic_sound_gen hn hJ hfs h
  refine ⟨Array.zipWith (· - ·) x dx, by simp [Vec.sub, hx, hs], by simp [hx, hs], ?_⟩
  intro i hi
  have e := hsol i hi
  rw [hfe i hi] at e
  have : ∀ j ∈ Finset.range n, M i j * ((Array.zipWith (· - ·) x dx)[j]?.getD 0)
      = M i j * (x[j]?.getD 0) - M i j * (dx[j]?.getD 0) := by
    intro j hj
    have hj' : j < n := Finset.mem_range.mp hj
    have h1 : j < x.size := by omega
    have h2 : j < dx.size := by omega
    simp [h1, h2, mul_sub]
  rw [Finset.sum_congr rfl this, Finset.sum_sub_distrib, e]
  ring

/-- **… and that root is THE solution**: a returning linear solve certifies that `M x = c` has
    no other solution than the point `x − dx` the step lands on. -/
theorem affine_root_unique_gen {M : Nat → Nat → K} {c : Nat → K} {n : Nat} (hn : 1 ≤ n)
    {f : Array K → Array K} (hF : IsAffineRes M c n f) {J : Mat K}
    (hJ : Mat.Is J n n M) {x dx x' : Array K} (hx : x.size = n)
    (h : Mat.solveBasic J (f x) = .ok dx) (hsub : Vec.sub x dx = .ok x') :
    ∀ ys, IsRoot M c n ys → ys = x' := by
  intro ys hy
  obtain ⟨hfs, hfe⟩ := hF x hx
  obtain ⟨hs, _⟩ := C01.solveBasic_sound_gen hn hJ hfs h
  have hu := C01.solveBasic_unique_gen hn hJ hfs h (fun j => x[j]?.getD 0 - ys[j]?.getD 0) (by
    intro i hi
    rw [hfe i hi, ← hy.2 i hi, ← Finset.sum_sub_distrib]
    apply Finset.sum_congr rfl
    intro j _
    ring)
  have hx' : x' = Array.zipWith (· - ·) x dx := by
    simp only [Vec.sub, hx, hs, ne_eq, not_true_eq_false, if_false] at hsub
    exact (Except.ok.inj hsub).symm
  subst hx'
  apply Array.ext
  · simp [hy.1, hx, hs]
  · intro j h1 h2
    have hj : j < n := by rw [← hy.1]; exact h1
    have := hu j hj
    have h3 : j < x.size := by omega
    have h4 : j < dx.size := by omega
    simp only [h1, h3, h4, Array.getElem?_eq_getElem, Option.getD_some] at this
    simp only [Array.getElem_zipWith]
    rw [← this]
    ring

/-- **Newton on an affine system, supplied Jacobian, the linear solves assumed to return**
    (any exact field, generic norm / tolerance test; the statement of
    `C17.newton_affine_sys_supplied_gen` plus uniqueness of the root). -/
theorem newton_affine_sys_supplied_solve_gen {R : Type} (M : Nat → Nat → K) (c : Nat → K)
    (n : Nat) (hn : 1 ≤ n) (f : Array K → Array K) (hF : IsAffineRes M c n f)
    (jacF : Array K → Res (Mat K × List (Array K)))
    (hJ : ∀ x : Array K, x.size = n → ∃ J jtr, jacF x = .ok (J, jtr) ∧ Mat.Is J n n M)
    (normInf : Array K → Res R) (leTol : R → Bool)
    (hN : ∀ v : Array K, v.size = n → ∃ r, normInf v = .ok r)
    (hN0 : ∀ r, normInf (Array.replicate n (0 : K)) = .ok r → leTol r = true)
    (guess : Array K) (hg : guess.size = n)
    (hsolve : ∀ J : Mat K, Mat.Is J n n M →
      (∃ dx, Mat.solveBasic J (f guess) = .ok dx) ∧
      (∃ dx, Mat.solveBasic J (Array.replicate n (0 : K)) = .ok dx))
    (tr : List (Array K)) :
    ∃ (xs : Array K) (r0 : R) (jtr0 jtr1 : List (Array K)),
      IsRoot M c n xs ∧ (∀ ys, IsRoot M c n ys → ys = xs) ∧
      normInf (f guess) = .ok r0 ∧
      (∃ J0, jacF guess = .ok (J0, jtr0)) ∧
      IsStep f jacF normInf leTol (leTol r0) guess xs ∧
      f xs = Array.replicate n 0 ∧
      (∃ J1, jacF xs = .ok (J1, jtr1) ∧
        Mat.solveBasic J1 (f xs) = .ok (Array.replicate n 0)) ∧
      IsStep f jacF normInf leTol true xs xs ∧
      solveSys f jacF normInf leTol 1 guess tr
        = .ok (⟨leTol r0, xs⟩, tr ++ [guess] ++ jtr0) ∧
      ∀ maxIter, 2 ≤ maxIter →
        solveSys f jacF normInf leTol maxIter guess tr
          = .ok (⟨true, xs⟩, if leTol r0 then tr ++ [guess] ++ jtr0
                              else tr ++ [guess] ++ jtr0 ++ [xs] ++ jtr1) := by
  -- first step
  obtain ⟨r0, hr0⟩ := hN (f guess) (hF guess hg).1
  obtain ⟨J0, jtr0, hj0, hI0⟩ := hJ guess hg
  obtain ⟨dx0, hdx0⟩ := (hsolve J0 hI0).1
  obtain ⟨xs, hsub0, hroot⟩ := affine_step_root_gen hn hF hI0 hg hdx0
  have huniq := affine_root_unique_gen hn hF hI0 hg hdx0 hsub0
  -- second step
  have hF1 : f xs = Array.replicate n 0 := isAffineRes_root hF hroot
  obtain ⟨r1, hr1⟩ := hN (f xs) (hF xs hroot.1).1
  have hle1 : leTol r1 = true := hN0 r1 (by rw [← hF1]; exact hr1)
  obtain ⟨J1, jtr1, hj1, hI1⟩ := hJ xs hroot.1
  obtain ⟨dx1, hdx1⟩ := (hsolve J1 hI1).2
  have hz : dx1 = Array.replicate n 0 := solveBasic_zero_rhs_gen hn hI1 hdx1
  subst hz
  have hdx1' : Mat.solveBasic J1 (f xs) = .ok (Array.replicate n 0) := by
    rw [hF1]; exact hdx1
  have hsub1 : Vec.sub xs (Array.replicate n (0 : K)) = .ok xs := vecSub_zero_field hroot.1
  have one : ∀ k t, solveSys f jacF normInf leTol (k + 1) xs t
      = .ok (⟨true, xs⟩, t ++ [xs] ++ jtr1) := by
    intro k t
    rw [sys_unfold _ _ _ _ k xs t hr1 hj1 hdx1' hsub1, hle1]
    rfl
  refine ⟨xs, r0, jtr0, jtr1, hroot, huniq, hr0, ⟨J0, hj0⟩,
    ⟨r0, J0, jtr0, dx0, hr0, rfl, hj0, hdx0, hsub0⟩,
    hF1, ⟨J1, hj1, hdx1'⟩, ⟨r1, J1, jtr1, _, hr1, hle1, hj1, hdx1', hsub1⟩, ?_, ?_⟩
  · rw [sys_unfold _ _ _ _ 0 guess tr hr0 hj0 hdx0 hsub0]
    cases leTol r0 <;> rfl
  · intro maxIter hm
    obtain ⟨k, rfl⟩ : ∃ k, maxIter = k + 2 := ⟨maxIter - 2, by omega⟩
    rw [sys_unfold _ _ _ _ (k + 1) guess tr hr0 hj0 hdx0 hsub0]
    cases hl : leTol r0
    · simp only [Bool.false_eq_true, if_false]
      exact one k _
    · simp

/-- **an exact root is a fixed point reported at once** (any exact field, generic norm): for
    ANY `f`, if `f x0` is the zero vector of length `n = |x0| ≥ 1`, the Jacobian call at `x0`
    returns a well-formed `n × n` matrix and the linear solve returns, then the step is exactly
    zero and every run with `maxIter ≥ 1` reports `Ok(x0)` in its first iteration. -/
theorem newton_sys_fixed_point_genK {R : Type} (f : Array K → Array K)
    (jacF : Array K → Res (Mat K × List (Array K)))
    (normInf : Array K → Res R) (leTol : R → Bool) (n : Nat) (hn : 1 ≤ n)
    (x0 : Array K) (hx : x0.size = n) (hroot : f x0 = Array.replicate n 0)
    {J : Mat K} {jtr : List (Array K)} (hjac : jacF x0 = .ok (J, jtr)) (hJ : Mat.WFn J n)
    (hsolve : ∃ dx, Mat.solveBasic J (f x0) = .ok dx)
    {r0 : R} (hN : normInf (Array.replicate n (0 : K)) = .ok r0) (hle : leTol r0 = true)
    (tr : List (Array K)) :
    Mat.solveBasic J (f x0) = .ok (Array.replicate n 0) ∧
    IsStep f jacF normInf leTol true x0 x0 ∧
    ∀ maxIter, 1 ≤ maxIter →
      solveSys f jacF normInf leTol maxIter x0 tr = .ok (⟨true, x0⟩, tr ++ [x0] ++ jtr) := by
  obtain ⟨dx, hdx⟩ := hsolve
  have hz : dx = Array.replicate n 0 := by
    rw [hroot] at hdx
    exact solveBasic_zero_rhs_gen hn hJ.is hdx
  subst hz
  have hr : normInf (f x0) = .ok r0 := by rw [hroot]; exact hN
  have hsub : Vec.sub x0 (Array.replicate n (0 : K)) = .ok x0 := vecSub_zero_field hx
  refine ⟨hdx, ⟨r0, J, jtr, _, hr, hle, hjac, hdx, hsub⟩, ?_⟩
  intro maxIter hm
  obtain ⟨k, rfl⟩ : ∃ k, maxIter = k + 1 := ⟨maxIter - 1, by omega⟩
  rw [sys_unfold _ _ _ _ k x0 tr hr hjac hdx hsub, hle]
  rfl

/-- **the guess is an exact root but the Jacobian there is singular: the run PANICS** (any exact
    field, generic norm / tolerance test); only `maxIter = 0` returns (`Err(x0)`). -/
theorem newton_sys_fixed_point_singular_genK {R : Type} (f : Array K → Array K)
    (jacF : Array K → Res (Mat K × List (Array K)))
    (normInf : Array K → Res R) (leTol : R → Bool) (n : Nat) (hn : 1 ≤ n)
    (x0 : Array K) (hroot : f x0 = Array.replicate n 0)
    {J : Mat K} {jtr : List (Array K)} (hjac : jacF x0 = .ok (J, jtr)) (hJ : Mat.WFn J n)
    (hdet : Matrix.det (Matrix.of fun (i j : Fin n) => Mat.ent J i.val j.val) = 0)
    (tr : List (Array K)) :
    (∃ e, Mat.solveBasic J (f x0) = .error e) ∧
    StepFails f jacF normInf x0 ∧
    (∀ maxIter, 1 ≤ maxIter → ∃ e, solveSys f jacF normInf leTol maxIter x0 tr = .error e) ∧
    solveSys f jacF normInf leTol 0 x0 tr = .ok (⟨false, x0⟩, tr) := by
  have hb : (f x0).size = n := by rw [hroot]; simp
  have hsb : ∃ e, Mat.solveBasic J (f x0) = .error e := by
    cases h : Mat.solveBasic J (f x0) with
    | error e => exact ⟨e, rfl⟩
    | ok dx => exact absurd hdet (C01.solveBasic_nonsingular_gen hn hJ.is hb h)
  obtain ⟨e, he⟩ := hsb
  have hfail : StepFails f jacF normInf x0 := by
    cases h1 : normInf (f x0) with
    | error e' => exact ⟨e', .inl h1⟩
    | ok r => exact ⟨e, .inr (.inr (.inl ⟨r, J, jtr, h1, hjac, he⟩))⟩
  refine ⟨⟨e, he⟩, hfail, ?_, rfl⟩
  intro maxIter hm
  obtain ⟨k, rfl⟩ : ∃ k, maxIter = k + 1 := ⟨maxIter - 1, by omega⟩
  obtain ⟨e', he'⟩ := hfail
  exact ⟨e', sys_step_error f jacF normInf leTol k x0 tr he'⟩

end Div

/-! ### generic in the pivot laws: completeness of `solve_basic` discharges the linear solves -/
section Pivot
variable [Alg.PivotLaws K]

/-- nonsingular `M` ⇒ every linear solve with a matrix of entries `M` returns -/
theorem hsolve_of_det_gen (M : Nat → Nat → K) (n : Nat) (hn : 1 ≤ n)
    (hdet : Matrix.det (Matrix.of fun (i j : Fin n) => M i.val j.val) ≠ 0)
    (b : Array K) (hb : b.size = n) :
    ∀ J : Mat K, Mat.Is J n n M →
      (∃ dx, Mat.solveBasic J b = .ok dx) ∧
      (∃ dx, Mat.solveBasic J (Array.replicate n (0 : K)) = .ok dx) := by
  intro J hJ
  exact ⟨C01.solveBasic_complete_gen hn hJ hb hdet,
         C01.solveBasic_complete_gen hn hJ (by simp) hdet⟩

/-- **Newton on a NONSINGULAR affine system, supplied Jacobian — any exact field.**
    `f x = M x − c` on the vectors of length `n ≥ 1` (`IsAffineRes`), `det M ≠ 0` (Mathlib's
    determinant over `K`); `jacF` returns a well-formed `n × n` matrix with entries `M` at every
    point of length `n`; the norm is defined on vectors of length `n` and the zero vector passes
    the tolerance test.  Then from ANY guess of length `n`:
    * the first step `guess ↦ x*` is computed and `x*` is THE solution of `M x = c`;
    * at `x*` the residual is the zero vector, the linear solve returns the zero step;
    * `maxIter = 1`: the model returns `x*`, flagged `Ok` iff the residual norm `r0` of the GUESS
      met the tolerance (else `Err(x*)` although `x*` solves the system exactly);
    * every `maxIter ≥ 2`: the model returns `Ok(x*)`, after one iteration if `r0` met the
      tolerance and after exactly two otherwise. -/
theorem newton_affine_sys_supplied_det_gen {R : Type} (M : Nat → Nat → K) (c : Nat → K)
    (n : Nat) (hn : 1 ≤ n)
    (hdet : Matrix.det (Matrix.of fun (i j : Fin n) => M i.val j.val) ≠ 0)
    (f : Array K → Array K) (hF : IsAffineRes M c n f)
    (jacF : Array K → Res (Mat K × List (Array K)))
    (hJ : ∀ x : Array K, x.size = n → ∃ J jtr, jacF x = .ok (J, jtr) ∧ Mat.Is J n n M)
    (normInf : Array K → Res R) (leTol : R → Bool)
    (hN : ∀ v : Array K, v.size = n → ∃ r, normInf v = .ok r)
    (hN0 : ∀ r, normInf (Array.replicate n (0 : K)) = .ok r → leTol r = true)
    (guess : Array K) (hg : guess.size = n) (tr : List (Array K)) :
    ∃ (xs : Array K) (r0 : R) (jtr0 jtr1 : List (Array K)),
      IsRoot M c n xs ∧ (∀ ys, IsRoot M c n ys → ys = xs) ∧
      normInf (f guess) = .ok r0 ∧
      (∃ J0, jacF guess = .ok (J0, jtr0)) ∧
      IsStep f jacF normInf leTol (leTol r0) guess xs ∧
      f xs = Array.replicate n 0 ∧
      (∃ J1, jacF xs = .ok (J1, jtr1) ∧
        Mat.solveBasic J1 (f xs) = .ok (Array.replicate n 0)) ∧
      IsStep f jacF normInf leTol true xs xs ∧
      solveSys f jacF normInf leTol 1 guess tr
        = .ok (⟨leTol r0, xs⟩, tr ++ [guess] ++ jtr0) ∧
      ∀ maxIter, 2 ≤ maxIter →
        solveSys f jacF normInf leTol maxIter guess tr
          = .ok (⟨true, xs⟩, if leTol r0 then tr ++ [guess] ++ jtr0
                              else tr ++ [guess] ++ jtr0 ++ [xs] ++ jtr1) :=
  newton_affine_sys_supplied_solve_gen M c n hn f hF jacF hJ normInf leTol hN hN0 guess hg
    (hsolve_of_det_gen M n hn hdet (f guess) (hF guess hg).1) tr

/-- the finite-difference Jacobian of an affine residual map is `M`, at every point of length `n` -/
theorem jacobian_isAffineRes_gen {M : Nat → Nat → K} {c : Nat → K} {n : Nat}
    {f : Array K → Array K} (hF : IsAffineRes M c n f) (delta : K) (hd : delta ≠ 0)
    (x : Array K) (hx : x.size = n) :
    ∃ J jtr, jacobian f x delta = .ok (J, jtr) ∧ jtr.length = n + 1 ∧ Mat.Is J n n M := by
  obtain ⟨J, jtr, h1, _, h3, h4⟩ := C18.jacobian_affine_fun_gen M (fun i => -c i) n f x delta hd
    (by
      intro y hy
      rw [hx] at hy ⊢
      refine ⟨(hF y hy).1, fun i hi => ?_⟩
      have := (hF y hy).2 i hi
      simp only [Array.getD_eq_getD_getElem?]
      rw [this, sub_eq_add_neg])
  rw [hx] at h3 h4
  exact ⟨J, jtr, h1, h3, h4⟩

/-- **Newton on a NONSINGULAR affine system, finite-difference Jacobian — any exact field**: over
    a field the finite-difference Jacobian of `x ↦ M x − c` is exactly `M` for every `delta ≠ 0`
    (`C18.jacobian_affine_fun_gen`), so the statement of `newton_affine_sys_supplied_det_gen`
    holds with `jacF x = jacobian f x delta`; each Jacobian evaluates `f` `n + 1` times. -/
theorem newton_affine_sys_fd_det_gen {R : Type} (M : Nat → Nat → K) (c : Nat → K)
    (n : Nat) (hn : 1 ≤ n)
    (hdet : Matrix.det (Matrix.of fun (i j : Fin n) => M i.val j.val) ≠ 0)
    (f : Array K → Array K) (hF : IsAffineRes M c n f) (delta : K) (hd : delta ≠ 0)
    (normInf : Array K → Res R) (leTol : R → Bool)
    (hN : ∀ v : Array K, v.size = n → ∃ r, normInf v = .ok r)
    (hN0 : ∀ r, normInf (Array.replicate n (0 : K)) = .ok r → leTol r = true)
    (guess : Array K) (hg : guess.size = n) (tr : List (Array K)) :
    ∃ (xs : Array K) (r0 : R) (jtr0 jtr1 : List (Array K)),
      IsRoot M c n xs ∧ (∀ ys, IsRoot M c n ys → ys = xs) ∧
      normInf (f guess) = .ok r0 ∧
      jtr0.length = n + 1 ∧ jtr1.length = n + 1 ∧
      (∃ J0, jacobian f guess delta = .ok (J0, jtr0) ∧ Mat.Is J0 n n M) ∧
      IsStep f (fun x => jacobian f x delta) normInf leTol (leTol r0) guess xs ∧
      f xs = Array.replicate n 0 ∧
      (∃ J1, jacobian f xs delta = .ok (J1, jtr1) ∧ Mat.Is J1 n n M ∧
        Mat.solveBasic J1 (f xs) = .ok (Array.replicate n 0)) ∧
      IsStep f (fun x => jacobian f x delta) normInf leTol true xs xs ∧
      solveSys f (fun x => jacobian f x delta) normInf leTol 1 guess tr
        = .ok (⟨leTol r0, xs⟩, tr ++ [guess] ++ jtr0) ∧
      ∀ maxIter, 2 ≤ maxIter →
        solveSys f (fun x => jacobian f x delta) normInf leTol maxIter guess tr
          = .ok (⟨true, xs⟩, if leTol r0 then tr ++ [guess] ++ jtr0
                              else tr ++ [guess] ++ jtr0 ++ [xs] ++ jtr1) := by
  have hJ : ∀ x : Array K, x.size = n → ∃ J jtr,
      (fun x => jacobian f x delta) x = .ok (J, jtr) ∧ Mat.Is J n n M := by
    intro x hx
    obtain ⟨J, jtr, h1, _, h3⟩ := jacobian_isAffineRes_gen hF delta hd x hx
    exact ⟨J, jtr, h1, h3⟩
  obtain ⟨xs, r0, jtr0, jtr1, h1, hu, h2, ⟨J0, h3⟩, h4, h5, ⟨J1, h6, h6'⟩, h7, h8, h9⟩ :=
    newton_affine_sys_supplied_det_gen M c n hn hdet f hF _ hJ normInf leTol hN hN0 guess hg tr
  have l0 := jacobian_trace_length _ _ _ _ _ h3
  have l1 := jacobian_trace_length _ _ _ _ _ h6
  have i0 : Mat.Is J0 n n M := by
    obtain ⟨J, jtr, e, hI⟩ := hJ guess hg
    simp only at e
    rw [h3] at e
    cases e
    exact hI
  have i1 : Mat.Is J1 n n M := by
    obtain ⟨J, jtr, e, hI⟩ := hJ xs h1.1
    simp only at e
    rw [h6] at e
    cases e
    exact hI
  exact ⟨xs, r0, jtr0, jtr1, h1, hu, h2, by rw [l0, hg], by rw [l1, h1.1], ⟨J0, h3, i0⟩, h4, h5,
    ⟨J1, h6, i1, h6'⟩, h7, h8, h9⟩

/-- **an exact root with a NONSINGULAR Jacobian is reported at once** (any exact field): the
    hypothesis "the linear solve returns" of `newton_sys_fixed_point_genK` discharged by
    `det J ≠ 0`. -/
theorem newton_sys_fixed_point_det_genK {R : Type} (f : Array K → Array K)
    (jacF : Array K → Res (Mat K × List (Array K)))
    (normInf : Array K → Res R) (leTol : R → Bool) (n : Nat) (hn : 1 ≤ n)
    (x0 : Array K) (hx : x0.size = n) (hroot : f x0 = Array.replicate n 0)
    {J : Mat K} {jtr : List (Array K)} (hjac : jacF x0 = .ok (J, jtr)) (hJ : Mat.WFn J n)
    (hdet : Matrix.det (Matrix.of fun (i j : Fin n) => Mat.ent J i.val j.val) ≠ 0)
    {r0 : R} (hN : normInf (Array.replicate n (0 : K)) = .ok r0) (hle : leTol r0 = true)
    (tr : List (Array K)) :
    Mat.solveBasic J (f x0) = .ok (Array.replicate n 0) ∧
    IsStep f jacF normInf leTol true x0 x0 ∧
    ∀ maxIter, 1 ≤ maxIter →
      solveSys f jacF normInf leTol maxIter x0 tr = .ok (⟨true, x0⟩, tr ++ [x0] ++ jtr) :=
  newton_sys_fixed_point_genK f jacF normInf leTol n hn x0 hx hroot hjac hJ
    (C01.solveBasic_complete_gen hn hJ.is (by rw [hroot]; simp) hdet) hN hle tr

/-- **`StepFails` = `StepPanics`, any exact field**, for a norm that panics exactly on the empty
    vector and Jacobian calls that return well-formed matrices: the iteration at `x` panics iff
    the residual `f x` is empty, or the Jacobian call panics, or the Jacobian is not square of the
    order of the residual, or it is SINGULAR (`det = 0`, `C01.solveBasic_ok_iff_gen`), or the
    point and the step have different lengths. -/
theorem stepFails_iff_gen {R : Type} (f : Array K → Array K)
    (jacF : Array K → Res (Mat K × List (Array K))) (normInf : Array K → Res R)
    (hNorm : ∀ v : Array K, (∃ e, normInf v = .error e) ↔ v.size = 0)
    (x : Array K) (hWF : ∀ J jtr, jacF x = .ok (J, jtr) → J.WF) :
    StepFails f jacF normInf x ↔ StepPanics f jacF x := by
  constructor
  · rintro ⟨e, h | ⟨r, h1, h2⟩ | ⟨r, J, jtr, h1, h2, h3⟩ | ⟨r, J, jtr, dx, h1, h2, h3, h4⟩⟩
    · exact .inl ((hNorm _).1 ⟨e, h⟩)
    · exact .inr (.inl ⟨e, h2⟩)
    · refine .inr (.inr ⟨J, jtr, h2, ?_⟩)
      by_cases a : J.rows ≠ (f x).size
      · exact .inl a
      by_cases b : J.rows ≠ J.cols
      · exact .inr (.inl b)
      refine .inr (.inr (.inl ?_))
      by_contra hdet
      have a' : (f x).size = J.rows := (not_not.mp a).symm
      have hpos : 1 ≤ J.rows := by
        rw [← a']
        by_contra h0
        obtain ⟨e', he'⟩ := (hNorm (f x)).2 (by omega)
        rw [he'] at h1; cases h1
      have hJ : Mat.WFn J J.rows := ⟨hWF J jtr h2, rfl, (not_not.mp b).symm⟩
      obtain ⟨dx, hdx⟩ := C01.solveBasic_complete_gen hpos hJ.is a' hdet
      rw [hdx] at h3; cases h3
    · refine .inr (.inr ⟨J, jtr, h2, .inr (.inr (.inr ?_))⟩)
      obtain ⟨a, b⟩ := solveBasic_ok_sizes_any h3
      have hpos : 1 ≤ J.rows := by
        rw [a]
        by_contra h0
        obtain ⟨e', he'⟩ := (hNorm (f x)).2 (by omega)
        rw [he'] at h1; cases h1
      have hJ : Mat.WFn J J.rows := ⟨hWF J jtr h2, rfl, b.symm⟩
      obtain ⟨hs, _⟩ := C01.solveBasic_sound_gen hpos hJ.is a.symm h3
      unfold Vec.sub at h4
      split at h4
      · rename_i hne
        rw [hs] at hne
        exact hne
      · cases h4
  · intro hp
    rcases sys_step_total f jacF normInf (fun _ => true) x with h | ⟨r, J, jtr, dx, x', h1, h2, h3, h4⟩
    · exact h
    · exfalso
      obtain ⟨a, b⟩ := solveBasic_ok_sizes_any h3
      have hpos : 1 ≤ J.rows := by
        rw [a]
        by_contra h0
        obtain ⟨e', he'⟩ := (hNorm (f x)).2 (by omega)
        rw [he'] at h1; cases h1
      have hJ : Mat.WFn J J.rows := ⟨hWF J jtr h2, rfl, b.symm⟩
      obtain ⟨hs, _⟩ := C01.solveBasic_sound_gen hpos hJ.is a.symm h3
      rcases hp with h0 | ⟨e, he⟩ | ⟨J', jtr', hj, hc⟩
      · omega
      · rw [he] at h2; cases h2
      · rw [hj] at h2
        cases h2
        rcases hc with c | c | c | c
        · exact c a
        · exact c b
        · exact C01.solveBasic_nonsingular_gen hpos hJ.is a.symm h3 c
        · have : x.size = dx.size := by
            unfold Vec.sub at h4
            split at h4
            · cases h4
            · rename_i hne; exact not_not.mp hne
          rw [hs] at this
          exact c this

/-- **`sys_panics_iff`, any exact field**: with a norm that panics exactly on the empty vector,
    any tolerance test, and Jacobian calls that return well-formed matrices: the run PANICS if
    and only if, after `k < maxIter` full Newton steps none of which met the tolerance, at the
    point `c` reached: the residual `f c` is empty, or the Jacobian call panics, or the Jacobian
    is not square of the order of the residual, or the Jacobian is SINGULAR (`det = 0`), or `c`
    and the step have different lengths (`StepPanics`). -/
theorem sys_panics_iff_gen {R : Type} (f : Array K → Array K)
    (jacF : Array K → Res (Mat K × List (Array K))) (normInf : Array K → Res R)
    (hNorm : ∀ v : Array K, (∃ e, normInf v = .error e) ↔ v.size = 0)
    (hWF : ∀ x J jtr, jacF x = .ok (J, jtr) → J.WF) (leTol : R → Bool)
    (n : Nat) (guess : Array K) (tr : List (Array K)) :
    (∃ e, solveSys f jacF normInf leTol n guess tr = .error e) ↔
      ∃ k c, k < n ∧ Chain f jacF normInf leTol k guess c ∧ StepPanics f jacF c := by
  constructor
  · rintro ⟨e, h⟩
    obtain ⟨k, c, hk, hc, hs⟩ := (sys_panics_iff_struct f jacF normInf leTol e n guess tr).1 h
    exact ⟨k, c, hk, hc, (stepFails_iff_gen f jacF normInf hNorm c (hWF c)).1 ⟨e, hs⟩⟩
  · rintro ⟨k, c, hk, hc, hs⟩
    obtain ⟨e, he⟩ := (stepFails_iff_gen f jacF normInf hNorm c (hWF c)).2 hs
    exact ⟨e, (sys_panics_iff_struct f jacF normInf leTol e n guess tr).2 ⟨k, c, hk, hc, he⟩⟩

end Pivot

end Gen

/-! ### the instance of C17B: a linearly ordered field with `Alg.scalarExt` -/
section Ordered
variable {K : Type} [Field K] [LinearOrder K] [IsStrictOrderedRing K] [Transc K]
attribute [local instance] Ohsl.Alg.scalarExt

/-- `newton_affine_sys_fd_det` of C17B is the instance `Alg.pivotLaws` (size `|·|`) of
    `newton_affine_sys_fd_det_gen`, with `f = affineRes M c n` and the model's real norm -/
example (hle : ∀ x y : K, Transc.le x y = decide (x ≤ y)) (habs0 : Transc.fabs (0 : K) = 0)
    (M : Nat → Nat → K) (c : Nat → K) (n : Nat) (hn : 1 ≤ n)
    (hdet : Matrix.det (Matrix.of fun (i j : Fin n) => M i.val j.val) ≠ 0)
    (delta : K) (hd : delta ≠ 0)
    (tol : K) (htol : 0 ≤ tol) (guess : Array K) (hg : guess.size = n) :
    ∃ xs : Array K, IsRoot M c n xs ∧
      ∀ maxIter, 2 ≤ maxIter → ∃ tr,
        solveSys (affineRes M c n) (fun x => jacobian (affineRes M c n) x delta) Vec.normInf
          (fun r => Transc.le r tol) maxIter guess [] = .ok (⟨true, xs⟩, tr) := by
  obtain ⟨hN, hN0⟩ := concrete_norm hle habs0 tol htol n hn
  obtain ⟨xs, r0, jtr0, jtr1, hroot, _, _, _, _, _, _, _, _, _, _, hall⟩ :=
    newton_affine_sys_fd_det_gen M c n hn hdet (affineRes M c n) (affineRes_isAffineRes M c n)
      delta hd Vec.normInf (fun r => Transc.le r tol) hN hN0 guess hg []
  exact ⟨xs, hroot, fun k hk => ⟨_, hall k hk⟩⟩

end Ordered

/-! ### complex systems: `solveSys` over the model's `Cx ℝ` with `Vec.normInfC` -/
section Complex
open Ohsl.RealI Ohsl.CxField Ohsl.Props.C13 Ohsl.Props.C14

/-- `f`, read in ℂ, is the residual `x ↦ M x − c` of the complex `n × n` system `M x = c` on the
    vectors of length `n`: `toC (f x)_i = Σ_j toC (M i j) · toC x_j − toC (c i)` -/
def AffineResC (M : Nat → Nat → Cx ℝ) (c : Nat → Cx ℝ) (n : Nat)
    (f : Array (Cx ℝ) → Array (Cx ℝ)) : Prop :=
  ∀ x : Array (Cx ℝ), x.size = n → (f x).size = n ∧
    ∀ i, i < n → toC ((f x)[i]?.getD 0)
      = (∑ j ∈ Finset.range n, toC (M i j) * toC (x[j]?.getD 0)) - toC (c i)

/-- `x` has length `n` and solves the complex system `M x = c` exactly (equations in ℂ) -/
def RootC (M : Nat → Nat → Cx ℝ) (c : Nat → Cx ℝ) (n : Nat) (x : Array (Cx ℝ)) : Prop :=
  x.size = n ∧ ∀ i, i < n → ∑ j ∈ Finset.range n, toC (M i j) * toC (x[j]?.getD 0) = toC (c i)

theorem toC_sum_field (n : Nat) (g : Nat → Cx ℝ) :
    toC (@Finset.sum _ _ CxField.field.toAddCommMonoid (Finset.range n) g)
      = ∑ j ∈ Finset.range n, toC (g j) := by
  let _ := CxField.field
  exact map_sum CxField.toCHom g _

theorem affineResC_iff (M : Nat → Nat → Cx ℝ) (c : Nat → Cx ℝ) (n : Nat)
    (f : Array (Cx ℝ) → Array (Cx ℝ)) :
    AffineResC M c n f ↔ @IsAffineRes (Cx ℝ) CxField.field M c n f := by
  unfold AffineResC IsAffineRes
  refine forall_congr' fun x => forall_congr' fun _ => and_congr Iff.rfl
    (forall_congr' fun i => forall_congr' fun _ => ?_)
  rw [← toC_inj, toC_sub, toC_sum_field]
  simp only [toC_mul]

theorem rootC_iff (M : Nat → Nat → Cx ℝ) (c : Nat → Cx ℝ) (n : Nat) (x : Array (Cx ℝ)) :
    RootC M c n x ↔ @IsRoot (Cx ℝ) CxField.field M c n x := by
  unfold RootC IsRoot
  refine and_congr Iff.rfl (forall_congr' fun i => forall_congr' fun _ => ?_)
  rw [← toC_inj, toC_sum_field]
  simp only [toC_mul]

/-- the iteration at `x` panics, complex data: the residual is empty, or the Jacobian call panics,
    or the Jacobian is not square of the order of the residual, or it is singular (`det = 0` in
    ℂ), or the point and the step have different lengths -/
def StepPanicsC (f : Array (Cx ℝ) → Array (Cx ℝ))
    (jacF : Array (Cx ℝ) → Res (Mat (Cx ℝ) × List (Array (Cx ℝ)))) (x : Array (Cx ℝ)) : Prop :=
  (f x).size = 0 ∨ (∃ e, jacF x = .error e) ∨
  ∃ J jtr, jacF x = .ok (J, jtr) ∧
    (J.rows ≠ (f x).size ∨ J.rows ≠ J.cols ∨ C01.detC J.rows (Mat.ent J) = 0 ∨ x.size ≠ J.rows)

theorem detC_eq_zero_iff (n : Nat) (a : Nat → Nat → Cx ℝ) :
    C01.detC n a = 0 ↔
      @Matrix.det _ _ _ _ CxField.field.toCommRing
        (Matrix.of fun (i j : Fin n) => a i.val j.val) = 0 :=
  not_iff_not.1 (C01.detC_ne_zero_iff n a)

theorem stepPanicsC_iff (f : Array (Cx ℝ) → Array (Cx ℝ))
    (jacF : Array (Cx ℝ) → Res (Mat (Cx ℝ) × List (Array (Cx ℝ)))) (x : Array (Cx ℝ)) :
    StepPanicsC f jacF x ↔ @StepPanics (Cx ℝ) CxField.field f jacF x := by
  unfold StepPanicsC StepPanics detOf
  refine or_congr Iff.rfl (or_congr Iff.rfl (exists_congr fun J => exists_congr fun jtr =>
    and_congr Iff.rfl (or_congr Iff.rfl (or_congr Iff.rfl (or_congr ?_ Iff.rfl)))))
  exact detC_eq_zero_iff J.rows (Mat.ent J)

variable (M : Nat → Nat → Cx ℝ) (c : Nat → Cx ℝ) (n : Nat)

/-- **Newton on a NONSINGULAR complex affine system, supplied Jacobian** (`solve_jacobian` of
    `Newton<Vector<Cmplx>>`).  `f`, read in ℂ, is `x ↦ M x − c` on the vectors of length `n ≥ 1`;
    `det (toC M) ≠ 0` in ℂ (it may be non-real); the supplied Jacobian returns a well-formed
    `n × n` matrix with entries `M`; `0 ≤ tol`.  The stopping test compares the largest MODULUS
    of the residual with `tol` in ℝ.  Then from ANY guess of length `n`:
    * the first step lands on THE solution `x*` of `M x = c`;
    * at `x*` the residual is the zero vector and the second step is exactly zero;
    * `maxIter = 1`: the model returns `x*` flagged `Ok` iff `‖F guess‖∞ ≤ tol` (`Err(x*)`
      otherwise);
    * every `maxIter ≥ 2`: `Ok(x*)`, after at most two iterations. -/
theorem newton_affine_sys_supplied_det_cx (hn : 1 ≤ n) (hdet : C01.detC n M ≠ 0)
    (f : Array (Cx ℝ) → Array (Cx ℝ)) (hF : AffineResC M c n f)
    (jacF : Array (Cx ℝ) → Res (Mat (Cx ℝ) × List (Array (Cx ℝ))))
    (hJ : ∀ x : Array (Cx ℝ), x.size = n → ∃ J jtr, jacF x = .ok (J, jtr) ∧ Mat.Is J n n M)
    (tol : ℝ) (htol : 0 ≤ tol) (guess : Array (Cx ℝ)) (hg : guess.size = n) :
    ∃ (xs : Array (Cx ℝ)) (r0 : ℝ) (jtr0 jtr1 : List (Array (Cx ℝ))),
      RootC M c n xs ∧ (∀ ys, RootC M c n ys → ys = xs) ∧
      Vec.normInfC (f guess) = .ok r0 ∧
      (∃ J0, jacF guess = .ok (J0, jtr0)) ∧
      IsStep f jacF Vec.normInfC (fun r => Transc.le r tol) (decide (r0 ≤ tol)) guess xs ∧
      f xs = Array.replicate n 0 ∧
      (∃ J1, jacF xs = .ok (J1, jtr1) ∧
        Mat.solveBasic J1 (f xs) = .ok (Array.replicate n 0)) ∧
      IsStep f jacF Vec.normInfC (fun r => Transc.le r tol) true xs xs ∧
      solveSys f jacF Vec.normInfC (fun r => Transc.le r tol) 1 guess []
        = .ok (⟨decide (r0 ≤ tol), xs⟩, [guess] ++ jtr0) ∧
      ∀ maxIter, 2 ≤ maxIter →
        solveSys f jacF Vec.normInfC (fun r => Transc.le r tol) maxIter guess []
          = .ok (⟨true, xs⟩, if r0 ≤ tol then [guess] ++ jtr0
                              else [guess] ++ jtr0 ++ [xs] ++ jtr1) := by
  obtain ⟨hN, hN0⟩ := concrete_normC tol htol n hn
  obtain ⟨xs, r0, jtr0, jtr1, h1, hu, h2, h3, h4, h5, h6, h7, h8, h9⟩ :=
    @newton_affine_sys_supplied_det_gen (Cx ℝ) CxField.field _ _ _ (Classical.decEq _) _ ℝ
      M c n hn ((C01.detC_ne_zero_iff n M).1 hdet) f ((affineResC_iff M c n f).1 hF) jacF hJ
      Vec.normInfC (fun r => Transc.le r tol) hN hN0 guess hg []
  refine ⟨xs, r0, jtr0, jtr1, (rootC_iff M c n xs).2 h1,
    fun ys hy => hu ys ((rootC_iff M c n ys).1 hy), h2, h3, h4, h5, h6, h7, h8, ?_⟩
  intro k hk
  have := h9 k hk
  simpa only [show ∀ x y : ℝ, Transc.le x y = decide (x ≤ y) from fun _ _ => rfl,
    decide_eq_true_eq, List.nil_append] using this

/-- **Newton on a NONSINGULAR complex affine system, finite-difference Jacobian**
    (`Newton<Vector<Cmplx>>::solve`): the forward difference of a complex affine map is exact
    for every complex step `delta ≠ 0` (`C18.jacobian_affine_cx`; the crate's `jacobian_cmplx`
    uses `delta = ⟨d, 0⟩` with `d` real), so the same holds with `jacF x = jacobian f x delta`;
    each iteration evaluates `f` `n + 2` times. -/
theorem newton_affine_sys_fd_det_cx (hn : 1 ≤ n) (hdet : C01.detC n M ≠ 0)
    (f : Array (Cx ℝ) → Array (Cx ℝ)) (hF : AffineResC M c n f)
    (delta : Cx ℝ) (hd : delta ≠ 0)
    (tol : ℝ) (htol : 0 ≤ tol) (guess : Array (Cx ℝ)) (hg : guess.size = n) :
    ∃ (xs : Array (Cx ℝ)) (r0 : ℝ) (jtr0 jtr1 : List (Array (Cx ℝ))),
      RootC M c n xs ∧ (∀ ys, RootC M c n ys → ys = xs) ∧
      Vec.normInfC (f guess) = .ok r0 ∧
      jtr0.length = n + 1 ∧ jtr1.length = n + 1 ∧
      (∃ J0, jacobian f guess delta = .ok (J0, jtr0) ∧ Mat.Is J0 n n M) ∧
      IsStep f (fun x => jacobian f x delta) Vec.normInfC (fun r => Transc.le r tol)
        (decide (r0 ≤ tol)) guess xs ∧
      f xs = Array.replicate n 0 ∧
      (∃ J1, jacobian f xs delta = .ok (J1, jtr1) ∧ Mat.Is J1 n n M ∧
        Mat.solveBasic J1 (f xs) = .ok (Array.replicate n 0)) ∧
      IsStep f (fun x => jacobian f x delta) Vec.normInfC (fun r => Transc.le r tol) true xs xs ∧
      solveSys f (fun x => jacobian f x delta) Vec.normInfC (fun r => Transc.le r tol) 1 guess []
        = .ok (⟨decide (r0 ≤ tol), xs⟩, [guess] ++ jtr0) ∧
      ∀ maxIter, 2 ≤ maxIter →
        solveSys f (fun x => jacobian f x delta) Vec.normInfC (fun r => Transc.le r tol)
            maxIter guess []
          = .ok (⟨true, xs⟩, if r0 ≤ tol then [guess] ++ jtr0
                              else [guess] ++ jtr0 ++ [xs] ++ jtr1) := by
  obtain ⟨hN, hN0⟩ := concrete_normC tol htol n hn
  obtain ⟨xs, r0, jtr0, jtr1, h1, hu, h2, l0, l1, h3, h4, h5, h6, h7, h8, h9⟩ :=
    @newton_affine_sys_fd_det_gen (Cx ℝ) CxField.field _ _ _ (Classical.decEq _) _ ℝ
      M c n hn ((C01.detC_ne_zero_iff n M).1 hdet) f ((affineResC_iff M c n f).1 hF) delta hd
      Vec.normInfC (fun r => Transc.le r tol) hN hN0 guess hg []
  refine ⟨xs, r0, jtr0, jtr1, (rootC_iff M c n xs).2 h1,
    fun ys hy => hu ys ((rootC_iff M c n ys).1 hy), h2, l0, l1, h3, h4, h5, h6, h7, h8, ?_⟩
  intro k hk
  have := h9 k hk
  simpa only [show ∀ x y : ℝ, Transc.le x y = decide (x ≤ y) from fun _ _ => rfl,
    decide_eq_true_eq, List.nil_append] using this

/-- the short forms: from ANY guess, every budget `≥ 2` reports `Ok` at THE solution -/
theorem newton_affine_sys_supplied_cx_short (hn : 1 ≤ n) (hdet : C01.detC n M ≠ 0)
    (f : Array (Cx ℝ) → Array (Cx ℝ)) (hF : AffineResC M c n f)
    (jacF : Array (Cx ℝ) → Res (Mat (Cx ℝ) × List (Array (Cx ℝ))))
    (hJ : ∀ x : Array (Cx ℝ), x.size = n → ∃ J jtr, jacF x = .ok (J, jtr) ∧ Mat.Is J n n M)
    (tol : ℝ) (htol : 0 ≤ tol) (guess : Array (Cx ℝ)) (hg : guess.size = n) :
    ∃ xs : Array (Cx ℝ), RootC M c n xs ∧ (∀ ys, RootC M c n ys → ys = xs) ∧
      ∀ maxIter, 2 ≤ maxIter → ∃ tr,
        solveSys f jacF Vec.normInfC (fun r => Transc.le r tol) maxIter guess []
          = .ok (⟨true, xs⟩, tr) := by
  obtain ⟨xs, r0, jtr0, jtr1, h1, hu, _, _, _, _, _, _, _, hall⟩ :=
    newton_affine_sys_supplied_det_cx M c n hn hdet f hF jacF hJ tol htol guess hg
  exact ⟨xs, h1, hu, fun k hk => ⟨_, hall k hk⟩⟩

/-- `Newton<Vector<Cmplx>>::solve` (real step `d ≠ 0` embedded as `d + 0i`) on a nonsingular
    complex affine system -/
theorem newton_affine_sys_fd_cmplx_short (hn : 1 ≤ n) (hdet : C01.detC n M ≠ 0)
    (f : Array (Cx ℝ) → Array (Cx ℝ)) (hF : AffineResC M c n f)
    (d : ℝ) (hd : d ≠ 0)
    (tol : ℝ) (htol : 0 ≤ tol) (guess : Array (Cx ℝ)) (hg : guess.size = n) :
    ∃ xs : Array (Cx ℝ), RootC M c n xs ∧ (∀ ys, RootC M c n ys → ys = xs) ∧
      ∀ maxIter, 2 ≤ maxIter → ∃ tr,
        solveSys f (fun x => jacobian f x (⟨d, 0⟩ : Cx ℝ)) Vec.normInfC
          (fun r => Transc.le r tol) maxIter guess [] = .ok (⟨true, xs⟩, tr) := by
  obtain ⟨xs, r0, jtr0, jtr1, h1, hu, _, _, _, _, _, _, _, _, _, hall⟩ :=
    newton_affine_sys_fd_det_cx M c n hn hdet f hF ⟨d, 0⟩ (C18.ofReal_ne_zero hd) tol htol guess hg
  exact ⟨xs, h1, hu, fun k hk => ⟨_, hall k hk⟩⟩

/-- **an exact root of a complex system with a NONSINGULAR Jacobian is reported at once**: for
    ANY `f : ℂⁿ → ℂⁿ` (on arrays over `Cx ℝ`), if `f x0` is the zero vector of length
    `n = |x0| ≥ 1`, the Jacobian call at `x0` returns a well-formed `n × n` matrix `J` with
    `det (toC J) ≠ 0` in ℂ, then the step is exactly zero and every run with `maxIter ≥ 1`,
    `tol ≥ 0` reports `Ok(x0)` in its first iteration. -/
theorem newton_sys_fixed_point_cx (f : Array (Cx ℝ) → Array (Cx ℝ))
    (jacF : Array (Cx ℝ) → Res (Mat (Cx ℝ) × List (Array (Cx ℝ))))
    (tol : ℝ) (htol : 0 ≤ tol) (n : Nat) (hn : 1 ≤ n)
    (x0 : Array (Cx ℝ)) (hx : x0.size = n) (hroot : f x0 = Array.replicate n 0)
    {J : Mat (Cx ℝ)} {jtr : List (Array (Cx ℝ))} (hjac : jacF x0 = .ok (J, jtr))
    (hJ : Mat.WFn J n) (hdet : C01.detC n (Mat.ent J) ≠ 0) :
    Mat.solveBasic J (f x0) = .ok (Array.replicate n 0) ∧
    IsStep f jacF Vec.normInfC (fun r => Transc.le r tol) true x0 x0 ∧
    ∀ maxIter, 1 ≤ maxIter →
      solveSys f jacF Vec.normInfC (fun r => Transc.le r tol) maxIter x0 []
        = .ok (⟨true, x0⟩, [x0] ++ jtr) := by
  have hle0 : (fun r => Transc.le r tol) (0 : ℝ) = true := by
    show decide ((0 : ℝ) ≤ tol) = true
    simpa using htol
  exact @newton_sys_fixed_point_det_genK (Cx ℝ) CxField.field _ _ _ (Classical.decEq _) _ ℝ
    f jacF Vec.normInfC (fun r => Transc.le r tol) n hn x0 hx hroot J jtr hjac hJ
    ((C01.detC_ne_zero_iff n (Mat.ent J)).1 hdet) 0 (normInfC_zero hn) hle0 []

/-- **… and with a SINGULAR Jacobian the run PANICS** although the guess solves the system: the
    residual norm (`0`) and the Jacobian are computed, `solve_basic` fails on the singular complex
    matrix, and every run with `maxIter ≥ 1` ends in that panic, for every `tol`. -/
theorem newton_sys_fixed_point_singular_cx (f : Array (Cx ℝ) → Array (Cx ℝ))
    (jacF : Array (Cx ℝ) → Res (Mat (Cx ℝ) × List (Array (Cx ℝ))))
    (tol : ℝ) (n : Nat) (hn : 1 ≤ n)
    (x0 : Array (Cx ℝ)) (hroot : f x0 = Array.replicate n 0)
    {J : Mat (Cx ℝ)} {jtr : List (Array (Cx ℝ))} (hjac : jacF x0 = .ok (J, jtr))
    (hJ : Mat.WFn J n) (hdet : C01.detC n (Mat.ent J) = 0) :
    ∃ e, Mat.solveBasic J (f x0) = .error e ∧
      ∀ maxIter, 1 ≤ maxIter →
        solveSys f jacF Vec.normInfC (fun r => Transc.le r tol) maxIter x0 [] = .error e := by
  obtain ⟨⟨e, he⟩, _⟩ := @newton_sys_fixed_point_singular_genK (Cx ℝ) CxField.field _ _ _
    (Classical.decEq _) _ ℝ f jacF Vec.normInfC (fun r => Transc.le r tol) n hn x0 hroot J jtr
    hjac hJ ((detC_eq_zero_iff n (Mat.ent J)).1 hdet) []
  refine ⟨e, he, ?_⟩
  intro maxIter hm
  obtain ⟨k, rfl⟩ : ∃ k, maxIter = k + 1 := ⟨maxIter - 1, by omega⟩
  obtain ⟨r, hr⟩ := normInfC_total (v := f x0) (by rw [hroot]; simpa using hn)
  exact sys_step_error f jacF Vec.normInfC _ k x0 [] (.inr (.inr (.inl ⟨r, J, jtr, hr, hjac, he⟩)))

/-- **when a complex system run panics**: with the complex inf-norm, any tolerance test, and
    Jacobian calls that return well-formed matrices, the run PANICS if and only if, after
    `k < maxIter` full Newton steps none of which met the tolerance, at the point `c` reached:
    the residual is empty, or the Jacobian call panics, or the Jacobian is not square of the
    order of the residual, or it is SINGULAR (`det = 0` over ℂ), or `c` and the step have
    different lengths (`StepPanicsC`). -/
theorem sys_panics_iff_cx (f : Array (Cx ℝ) → Array (Cx ℝ))
    (jacF : Array (Cx ℝ) → Res (Mat (Cx ℝ) × List (Array (Cx ℝ))))
    (hWF : ∀ x J jtr, jacF x = .ok (J, jtr) → J.WF) (leTol : ℝ → Bool)
    (n : Nat) (guess : Array (Cx ℝ)) (tr : List (Array (Cx ℝ))) :
    (∃ e, solveSys f jacF Vec.normInfC leTol n guess tr = .error e) ↔
      ∃ k c, k < n ∧ Chain f jacF Vec.normInfC leTol k guess c ∧ StepPanicsC f jacF c := by
  have := @sys_panics_iff_gen (Cx ℝ) CxField.field _ _ _ (Classical.decEq _) _ ℝ f jacF
    Vec.normInfC normInfC_error_iff hWF leTol n guess tr
  rw [this]
  exact exists_congr fun k => exists_congr fun c =>
    and_congr Iff.rfl (and_congr Iff.rfl (stepPanicsC_iff f jacF c).symm)

/-- **… for the finite-difference method** (`Newton<Vector<Cmplx>>::solve`): no hypothesis on
    `f` at all (a returning `jacobian_cmplx` is well-formed, `C17.jacobian_ok_wf`) -/
theorem sys_panics_iff_fd_cx (f : Array (Cx ℝ) → Array (Cx ℝ)) (delta : Cx ℝ) (leTol : ℝ → Bool)
    (n : Nat) (guess : Array (Cx ℝ)) (tr : List (Array (Cx ℝ))) :
    (∃ e, solveSys f (fun x => jacobian f x delta) Vec.normInfC leTol n guess tr = .error e) ↔
      ∃ k c, k < n ∧ Chain f (fun x => jacobian f x delta) Vec.normInfC leTol k guess c ∧
        StepPanicsC f (fun x => jacobian f x delta) c :=
  sys_panics_iff_cx f (fun x => jacobian f x delta)
    (fun x J jtr h => (jacobian_ok_wf f x delta J jtr h).1) leTol n guess tr

end Complex

/-! ### examples -/
section Examples
open Ohsl.RealI Ohsl.CxField Ohsl.Props.C13 Ohsl.Props.C14

/-- the complex matrix `[[i, 1], [1, 1]]`, `det = i − 1` (not real) -/
def exXJ : Mat (Cx ℝ) := ⟨#[⟨0, 1⟩, ⟨1, 0⟩, ⟨1, 0⟩, ⟨1, 0⟩], 2, 2⟩
/-- the right-hand side `(2i, 1 + i)`: the solution of `exXJ x = c` is `(1, i)` -/
def exXC (i : Nat) : Cx ℝ := (#[⟨0, 2⟩, ⟨1, 1⟩] : Array (Cx ℝ)).getD i 0
/-- the residual `(x, y) ↦ (i x + y − 2i, x + y − (1 + i))`, written with the model's complex
    operations -/
def exXF (x : Array (Cx ℝ)) : Array (Cx ℝ) :=
  #[⟨0, 1⟩ * x.getD 0 0 + x.getD 1 0 - ⟨0, 2⟩, x.getD 0 0 + x.getD 1 0 - ⟨1, 1⟩]
/-- the singular complex matrix `[[i, 1], [-1, i]]`, `det = i² + 1 = 0` -/
def exXS : Mat (Cx ℝ) := ⟨#[⟨0, 1⟩, ⟨1, 0⟩, ⟨-1, 0⟩, ⟨0, 1⟩], 2, 2⟩

theorem exXJ_is : Mat.Is exXJ 2 2 (Mat.ent exXJ) := Mat.WFn.is ⟨rfl, rfl, rfl⟩

theorem exXJ_det : C01.detC 2 (Mat.ent exXJ) ≠ 0 := by
  unfold C01.detC
  rw [Matrix.det_fin_two]
  simp [Mat.ent, exXJ, toC, Complex.ext_iff]

/-- the determinant is `i − 1`: its imaginary part is `1` -/
theorem exXJ_det_im : (C01.detC 2 (Mat.ent exXJ)).im = 1 := by
  unfold C01.detC
  rw [Matrix.det_fin_two]
  simp [Mat.ent, exXJ, toC]

theorem exXS_det : C01.detC 2 (Mat.ent exXS) = 0 := by
  unfold C01.detC
  rw [Matrix.det_fin_two]
  simp [Mat.ent, exXS, toC, Complex.ext_iff]

theorem exXF_affine : AffineResC (Mat.ent exXJ) exXC 2 exXF := by
  intro x _
  refine ⟨rfl, fun i hi => ?_⟩
  interval_cases i <;>
    simp [exXF, exXJ, exXC, Mat.ent, Finset.sum_range_succ, toC_add, toC_sub, toC_mul, toC,
      Complex.ext_iff, sub_eq_add_neg]

theorem exX_root : RootC (Mat.ent exXJ) exXC 2 #[⟨1, 0⟩, ⟨0, 1⟩] := by
  refine ⟨rfl, fun i hi => ?_⟩
  interval_cases i
  · simp [exXJ, exXC, Mat.ent, Finset.sum_range_succ, toC, Complex.ext_iff]
    norm_num
  · simp [exXJ, exXC, Mat.ent, Finset.sum_range_succ, toC, Complex.ext_iff]

/-- **a 2 × 2 complex affine system with a non-real determinant, solved in one step**: from ANY
    guess `(z₀, z₁)`, with the exact Jacobian supplied, a budget of ONE iteration already returns
    the solution `(1, i)` (flagged by the residual of the guess), and every budget `≥ 2` reports
    `Ok((1, i))`. -/
example (guess : Array (Cx ℝ)) (hg : guess.size = 2) :
    (∃ flag tr, solveSys exXF (fun _ => .ok (exXJ, [])) Vec.normInfC
        (fun r => Transc.le r (1 / 100)) 1 guess [] = .ok (⟨flag, #[⟨1, 0⟩, ⟨0, 1⟩]⟩, tr)) ∧
    ∀ maxIter, 2 ≤ maxIter → ∃ tr, solveSys exXF (fun _ => .ok (exXJ, [])) Vec.normInfC
        (fun r => Transc.le r (1 / 100)) maxIter guess [] = .ok (⟨true, #[⟨1, 0⟩, ⟨0, 1⟩]⟩, tr) := by
  obtain ⟨xs, r0, jtr0, jtr1, _, hu, _, _, _, _, _, _, h1, hall⟩ :=
    newton_affine_sys_supplied_det_cx (Mat.ent exXJ) exXC 2 (by norm_num) exXJ_det exXF exXF_affine
      (fun _ => .ok (exXJ, [])) (fun _ _ => ⟨_, _, rfl, exXJ_is⟩) (1 / 100) (by norm_num) guess hg
  have e : #[⟨1, 0⟩, ⟨0, 1⟩] = xs := hu _ exX_root
  rw [e]
  exact ⟨⟨_, _, h1⟩, fun k hk => ⟨_, hall k hk⟩⟩

/-- **… and with `jacobian_cmplx`** (finite differences, real step `1/4`): the same, each
    iteration evaluating the residual `2 + 2 = 4` times -/
example (guess : Array (Cx ℝ)) (hg : guess.size = 2) :
    ∀ maxIter, 2 ≤ maxIter → ∃ tr,
      solveSys exXF (fun x => jacobian exXF x (⟨1 / 4, 0⟩ : Cx ℝ)) Vec.normInfC
        (fun r => Transc.le r (1 / 100)) maxIter guess [] = .ok (⟨true, #[⟨1, 0⟩, ⟨0, 1⟩]⟩, tr) := by
  obtain ⟨xs, _, hu, hall⟩ :=
    newton_affine_sys_fd_cmplx_short (Mat.ent exXJ) exXC 2 (by norm_num) exXJ_det exXF exXF_affine
      (1 / 4) (by norm_num) (1 / 100) (by norm_num) guess hg
  have e : #[⟨1, 0⟩, ⟨0, 1⟩] = xs := hu _ exX_root
  rw [e]
  exact hall

/-- **an exact root with a singular complex Jacobian**: `F(x, y) = (i x + y, −x + i y)` vanishes
    at `(0, 0)`, its Jacobian `[[i, 1], [−1, i]]` has `det = i² + 1 = 0`: every run with
    `maxIter ≥ 1` started at the root PANICS. -/
example : ∃ e, ∀ maxIter, 1 ≤ maxIter →
    solveSys (fun x : Array (Cx ℝ) =>
        #[⟨0, 1⟩ * x.getD 0 0 + x.getD 1 0, -(x.getD 0 0) + ⟨0, 1⟩ * x.getD 1 0])
      (fun _ => .ok (exXS, [])) Vec.normInfC (fun r => Transc.le r (1 / 100)) maxIter
      #[0, 0] [] = .error e := by
  obtain ⟨e, _, h⟩ := newton_sys_fixed_point_singular_cx
    (fun x : Array (Cx ℝ) =>
        #[⟨0, 1⟩ * x.getD 0 0 + x.getD 1 0, -(x.getD 0 0) + ⟨0, 1⟩ * x.getD 1 0])
    (fun _ => .ok (exXS, [])) (1 / 100) 2 (by norm_num) #[0, 0]
    (by
      apply Array.ext
      · rfl
      · intro i h1 h2
        have hi : i < 2 := by simpa using h1
        apply toC_injective
        interval_cases i <;> simp [toC_add, toC_mul, toC_neg, toC_zero])
    (J := exXS) (jtr := []) rfl ⟨rfl, rfl, rfl⟩ exXS_det
  exact ⟨e, h⟩

end Examples

end Ohsl.Props.C17
