/-
  Property C01 — dense direct solvers (model: Ohsl/Model/Solve.lean).
  Proved here: (S) the entry guards — a non-square matrix or a right-hand side of the wrong
  length is rejected by both solvers before anything is computed, for ANY scalar type.
  The exact-arithmetic theorems are in C01S (soundness, uniqueness, agreement), C01C (completeness,
  iff det ≠ 0), C01X (generic pivot order, complex scalars), C01O (order 0); the rounded-arithmetic
  ones in C01F / C01G.
-/
import Ohsl.Model.Solve
set_option linter.unusedSectionVars false
namespace Ohsl.Props.C01
open Ohsl Ohsl.Mat
variable {K : Type} [Add K] [Sub K] [Mul K] [Neg K] [Zero K] [One K] [BEq K] [ScalarExt K]

theorem solveBasic_rejects (m : Mat K) (b : Array K) (h : m.rows ≠ b.size ∨ m.rows ≠ m.cols) :
    solveBasic m b = .error .size := by
  unfold solveBasic
  by_cases h1 : m.rows ≠ b.size
  · simp [h1]
  · have h2 : m.rows ≠ m.cols := h.resolve_left h1
    simp [h1, h2]

theorem solveLU_rejects (m : Mat K) (b : Array K) (h : m.rows ≠ b.size ∨ m.rows ≠ m.cols) :
    solveLU m b = .error .size := by
  unfold solveLU
  by_cases h1 : m.rows ≠ b.size
  · simp [h1]
  · have h2 : m.rows ≠ m.cols := h.resolve_left h1
    simp [h1, h2]

/-- an order-0 system is rejected (`rows - 1` underflows), it never returns a value -/
theorem solveBasic_order0 (m : Mat K) (b : Array K) (h0 : m.rows = 0) (hc : m.cols = 0) (hb : b.size = 0) :
    solveBasic m b = .error .arith := by
  simp [solveBasic, h0, hc, hb, gaussWithPivot, usub, bind, Except.bind]

end Ohsl.Props.C01
