/-
  Property C17 (continued), class (R) — LOCAL CONVERGENCE of the SYSTEM Newton iteration of the
  model (`Ohsl.Jac.solveSys`, Ohsl/Model/Newton.lean) from inside the basin of a simple root, in
  exact real arithmetic: the multivariate companion of the scalar theorems of C18R / C17R.
  Space: `ℝⁿ = Fin n → ℝ` with the sup norm (the model's `norm_inf`), arrays ↔ vectors through
  `vec n` / `C18.arrayForm`.

  Analysis (any real normed space, no model):
  * `taylor1_lipschitz`          `‖F y - F x - F' x (y - x)‖ ≤ γ/2 ‖y - x‖²` (Lipschitz derivative on a
                                 convex set, derivative WITHIN the set);
  * `newton_sys_step_core`       one (quasi-)Newton step `J (x - x⁺) = F x` with `‖v‖ ≤ β ‖J v‖`,
                                 `‖J - F' x‖ ≤ ε`:  `‖x⁺ - r‖ ≤ β (γ/2 ‖x - r‖² + ε ‖x - r‖)`;
  * `newton_sys_step_abstract`   the same with `J : E ≃L[ℝ] E`, `x⁺ = x - J⁻¹ (F x)`, `‖J⁻¹‖ ≤ β`;
  * `bddBelow_perturb`           perturbation lemma: `‖A⁻¹‖ ≤ β₀`, `‖J - A‖ ≤ ε`, `β₀ ε < 1` ⇒
                                 `‖J⁻¹‖ ≤ β₀/(1 - β₀ ε)` (in "bounded below" form);
  * `newton_sys_converges_abstract`, `newton_sys_converges_quadratic`, `newton_sys_tendsto`
                                 `q = β (γρ/2 + ε) < 1` ⇒ the iterates stay in `B(r, ρ)`,
                                 `‖x_k - r‖ ≤ q^k ‖x₀ - r‖`, one-step estimate at every step
                                 (quadratic for `ε = 0`), `x_k → r`;
  * `SysBall.residual_lower`, `SysBall.residual_upper`   `(1 - βγρ/2) ‖x - r‖ ≤ β ‖F x‖` and
                                 `‖F x‖ ≤ (‖F' r‖ + γρ/2) ‖x - r‖` on the ball.
  Model:
  * `normInf_ofFn`, `matCLM`, `det_ne_zero_of_bddBelow`  bridges (norm, matrices, nonsingularity);
  * `model_step_gen`, `model_step_qstep`, `model_step_supplied`   one iteration of the model IS
        the abstract step (completeness + soundness of `solve_basic`, C01C / C01S);
  * `solveSys_run`               the loop along a contracting invariant;
  * `solveSys_converges_gen`     any Jacobian routine within `ε` of `F'` on the ball;
  * `solveSys_converges_supplied`  user-supplied exact Jacobian (`ε = 0`, quadratic);
  * `opNorm_sub_le_of_entries`, `solveSys_converges_fd`   finite-difference Jacobian,
        `ε = n M₂ |δ| / 2` via `C18.jacobian_accuracy_fderiv`; invertibility of the computed matrix
        is DERIVED from `β₀ ε < 1`, not assumed.
  Remember (C17A): the stopping test of `solveSys` is on the residual `‖F(x_k)‖∞ ≤ tol` of the
  point the step starts from, and the UPDATED point is returned.  All statements are about exact
  real arithmetic; rounding (class F) is not modelled here.  Complex systems are not covered.
-/
import Ohsl.Props.C17B
import Ohsl.Props.C18R
import Ohsl.Props.C15N
import Mathlib.Analysis.Calculus.MeanValue
import Mathlib.Analysis.Calculus.FDeriv.Basic
import Mathlib.Analysis.Calculus.FDeriv.Add
import Mathlib.Analysis.Calculus.FDeriv.Pow
import Mathlib.Analysis.Calculus.FDeriv.Pi
import Mathlib.Analysis.Calculus.Deriv.Comp
import Mathlib.Analysis.Normed.Module.FiniteDimension
import Mathlib.LinearAlgebra.Matrix.ToLinearEquiv
set_option linter.unusedSectionVars false
set_option linter.unusedVariables false
set_option linter.unusedSimpArgs false
namespace Ohsl.Props.C17
open Ohsl Ohsl.Mat Ohsl.Jac Set
open Ohsl.Props.C18 (arrayForm)

section Abstract
variable {E : Type*} [NormedAddCommGroup E] [NormedSpace ℝ E]

/-- **first-order Taylor remainder with a Lipschitz derivative**: `F` differentiable within the
    convex set `B ∋ x, y`, `‖F' z - F' x‖ ≤ γ ‖z - x‖` on `B`; then
    `‖F y - F x - F' x (y - x)‖ ≤ γ/2 ‖y - x‖²`. -/
theorem taylor1_lipschitz (F : E → E) (F' : E → E →L[ℝ] E) (B : Set E) (hB : Convex ℝ B)
    (x y : E) (γ : ℝ) (hx : x ∈ B) (hy : y ∈ B)
    (hF : ∀ z ∈ B, HasFDerivWithinAt F (F' z) B z)
    (hL : ∀ z ∈ B, ‖F' z - F' x‖ ≤ γ * ‖z - x‖) :
    ‖F y - F x - F' x (y - x)‖ ≤ γ / 2 * ‖y - x‖ ^ 2 := by
  set d : E := y - x with hd
  have hline : ∀ t ∈ Icc (0 : ℝ) 1, x + t • d ∈ B := by
    intro t ht
    have : x + t • d = (1 - t) • x + t • y := by
      rw [hd, smul_sub, sub_smul, one_smul]; abel
    rw [this]
    exact hB hx hy (by linarith [ht.2]) ht.1 (by ring)
  have hlin : ∀ t : ℝ, HasDerivWithinAt (fun t : ℝ => x + t • d) d (Icc (0 : ℝ) 1) t := by
    intro t
    have := ((hasDerivAt_id t).smul_const d).const_add x
    simpa using this.hasDerivWithinAt
  -- g t = F (x + t d) - F x - t • F' x d
  have hg : ∀ t ∈ Icc (0 : ℝ) 1,
      HasDerivWithinAt (fun t : ℝ => F (x + t • d) - F x - t • F' x d)
        ((F' (x + t • d) - F' x) d) (Icc (0 : ℝ) 1) t := by
    intro t ht
    have h1 := (hF _ (hline t ht)).comp_hasDerivWithinAt t (hlin t) (fun s hs => hline s hs)
    have h2 := (h1.sub_const (F x)).sub (((hasDerivAt_id t).smul_const (F' x d)).hasDerivWithinAt)
    exact h2.congr_deriv (by simp [Function.comp_def])
  have key := image_norm_le_of_norm_deriv_right_le_deriv_boundary
    (f := fun t : ℝ => F (x + t • d) - F x - t • F' x d)
    (f' := fun t => (F' (x + t • d) - F' x) d) (a := 0) (b := 1)
    (B := fun t => γ * ‖d‖ ^ 2 * t ^ 2 / 2) (B' := fun t => γ * ‖d‖ ^ 2 * t)
    (fun t ht => (hg t ht).continuousWithinAt)
    (fun t ht => by
      have ht' : t ∈ Icc (0 : ℝ) 1 := ⟨ht.1, ht.2.le⟩
      refine (hg t ht').mono_of_mem_nhdsWithin ?_
      exact Filter.mem_of_superset (Icc_mem_nhdsGE ht.2) (Icc_subset_Icc_left ht.1))
    (by simp)
    (fun t => by
      have := ((hasDerivAt_pow 2 t).const_mul (γ * ‖d‖ ^ 2)).div_const 2
      exact this.congr_deriv (by push_cast; ring))
    (fun t ht => by
      have ht' : t ∈ Icc (0 : ℝ) 1 := ⟨ht.1, ht.2.le⟩
      calc ‖(F' (x + t • d) - F' x) d‖ ≤ ‖F' (x + t • d) - F' x‖ * ‖d‖ :=
            ContinuousLinearMap.le_opNorm _ _
        _ ≤ (γ * ‖x + t • d - x‖) * ‖d‖ :=
            mul_le_mul_of_nonneg_right (hL _ (hline t ht')) (norm_nonneg _)
        _ = γ * ‖d‖ ^ 2 * t := by
            rw [add_sub_cancel_left, norm_smul, Real.norm_eq_abs, abs_of_nonneg ht.1]; ring)
    (x := 1) ⟨zero_le_one, le_refl _⟩
  have e : x + d = y := by rw [hd]; abel
  simp only [e, one_smul] at key
  calc ‖F y - F x - F' x d‖ ≤ γ * ‖d‖ ^ 2 * 1 ^ 2 / 2 := key
    _ = γ / 2 * ‖d‖ ^ 2 := by ring

/-- **one (quasi-)Newton step, core form**: `F` differentiable within the convex set `B ∋ x, r`,
    `F r = 0`, `‖F' z - F' x‖ ≤ γ ‖z - x‖` on `B`; `J` any continuous linear map that is bounded
    below, `‖v‖ ≤ β ‖J v‖` (i.e. `‖J⁻¹‖ ≤ β`), with `‖J - F' x‖ ≤ ε`.  If `x'` is a point with
    `J (x - x') = F x` (the step `dx = x - x'` solves the linear system `J dx = F x`) then
    `‖x' - r‖ ≤ β (γ/2 ‖x - r‖² + ε ‖x - r‖)`. -/
theorem newton_sys_step_core (F : E → E) (F' : E → E →L[ℝ] E) (B : Set E) (hB : Convex ℝ B)
    (x r : E) (γ β ε : ℝ) (hx : x ∈ B) (hr : r ∈ B)
    (hF : ∀ z ∈ B, HasFDerivWithinAt F (F' z) B z)
    (hL : ∀ z ∈ B, ‖F' z - F' x‖ ≤ γ * ‖z - x‖) (hroot : F r = 0) (hβ : 0 ≤ β)
    (J : E →L[ℝ] E) (hJ : ∀ v, ‖v‖ ≤ β * ‖J v‖) (hε : ‖J - F' x‖ ≤ ε)
    (x' : E) (hstep : J (x - x') = F x) :
    ‖x' - r‖ ≤ β * (γ / 2 * ‖x - r‖ ^ 2 + ε * ‖x - r‖) := by
  have hT := taylor1_lipschitz F F' B hB x r γ hx hr hF hL
  rw [hroot] at hT
  have e : J (x' - r) = (J - F' x) (x - r) + (0 - F x - F' x (r - x)) := by
    have h1 : x' - r = (x - r) - (x - x') := by abel
    have h2 : r - x = -(x - r) := by abel
    rw [h1, map_sub, hstep, h2, map_neg, sub_apply]
    abel
  have hb : ‖J (x' - r)‖ ≤ γ / 2 * ‖x - r‖ ^ 2 + ε * ‖x - r‖ := by
    rw [e]
    calc ‖(J - F' x) (x - r) + (0 - F x - F' x (r - x))‖
        ≤ ‖(J - F' x) (x - r)‖ + ‖0 - F x - F' x (r - x)‖ := norm_add_le _ _
      _ ≤ ε * ‖x - r‖ + γ / 2 * ‖r - x‖ ^ 2 :=
          add_le_add ((J - F' x).le_of_opNorm_le hε _) hT
      _ = γ / 2 * ‖x - r‖ ^ 2 + ε * ‖x - r‖ := by rw [norm_sub_rev r x]; ring
  exact le_trans (hJ _) (mul_le_mul_of_nonneg_left hb hβ)

/-- **one (quasi-)Newton step** `x⁺ = x - J⁻¹ (F x)`, `J` invertible with `‖J⁻¹‖ ≤ β` and
    `‖J - F' x‖ ≤ ε` (`ε = 0` for the exact Jacobian):
    `‖x⁺ - r‖ ≤ β (γ/2 ‖x - r‖² + ε ‖x - r‖)`. -/
theorem newton_sys_step_abstract (F : E → E) (F' : E → E →L[ℝ] E) (B : Set E) (hB : Convex ℝ B)
    (x r : E) (γ β ε : ℝ) (hx : x ∈ B) (hr : r ∈ B)
    (hF : ∀ z ∈ B, HasFDerivWithinAt F (F' z) B z)
    (hL : ∀ z ∈ B, ‖F' z - F' x‖ ≤ γ * ‖z - x‖) (hroot : F r = 0)
    (J : E ≃L[ℝ] E) (hJ : ‖(J.symm : E →L[ℝ] E)‖ ≤ β) (hε : ‖(J : E →L[ℝ] E) - F' x‖ ≤ ε) :
    ‖x - J.symm (F x) - r‖ ≤ β * (γ / 2 * ‖x - r‖ ^ 2 + ε * ‖x - r‖) := by
  have hβ : 0 ≤ β := le_trans (norm_nonneg _) hJ
  refine newton_sys_step_core F F' B hB x r γ β ε hx hr hF hL hroot hβ (J : E →L[ℝ] E) ?_ hε _ ?_
  · intro v
    have := (J.symm : E →L[ℝ] E).le_of_opNorm_le hJ (J v)
    simpa using this
  · simp

/-- a map within `ε` of a map bounded below by `1/β₀` is bounded below by `(1 - β₀ ε)/β₀`
    (the Neumann-series perturbation lemma, in the form that needs no series) -/
theorem bddBelow_perturb (A J : E →L[ℝ] E) (β₀ ε : ℝ) (hβ : 0 ≤ β₀)
    (hA : ∀ v, ‖v‖ ≤ β₀ * ‖A v‖) (hε : ‖J - A‖ ≤ ε) (hsmall : β₀ * ε < 1) :
    ∀ v, ‖v‖ ≤ β₀ / (1 - β₀ * ε) * ‖J v‖ := by
  intro v
  have h1 : ‖A v‖ ≤ ‖J v‖ + ε * ‖v‖ := by
    have e : A v = J v - (J - A) v := by simp
    rw [e]
    exact le_trans (norm_sub_le _ _) (add_le_add (le_refl _) ((J - A).le_of_opNorm_le hε v))
  have h2 : ‖v‖ ≤ β₀ * (‖J v‖ + ε * ‖v‖) := le_trans (hA v) (mul_le_mul_of_nonneg_left h1 hβ)
  have hpos : 0 < 1 - β₀ * ε := by linarith
  rw [div_mul_eq_mul_div, le_div_iff₀ hpos]
  nlinarith

/-- the contraction factor of the (quasi-)Newton iteration on the ball of radius `ρ` -/
noncomputable def sysQ (β γ ρ ε : ℝ) : ℝ := β * (γ * ρ / 2 + ε)

/-- hypotheses on `F` around the root `r`: differentiable within the closed ball of radius `ρ`
    with a `γ`-Lipschitz derivative there -/
structure SysBall (F : E → E) (F' : E → E →L[ℝ] E) (r : E) (ρ γ : ℝ) : Prop where
  hroot : F r = 0
  hγ : 0 ≤ γ
  hF : ∀ z ∈ Metric.closedBall r ρ, HasFDerivWithinAt F (F' z) (Metric.closedBall r ρ) z
  hL : ∀ x ∈ Metric.closedBall r ρ, ∀ z ∈ Metric.closedBall r ρ, ‖F' z - F' x‖ ≤ γ * ‖z - x‖

/-- `x'` is a (quasi-)Newton update of `x`: `J (x - x') = F x` for some `J` with `‖J⁻¹‖ ≤ β`
    (bounded below by `1/β`) and `‖J - F' x‖ ≤ ε` -/
def QStep (F : E → E) (F' : E → E →L[ℝ] E) (β ε : ℝ) (x x' : E) : Prop :=
  ∃ J : E →L[ℝ] E, (∀ v, ‖v‖ ≤ β * ‖J v‖) ∧ ‖J - F' x‖ ≤ ε ∧ J (x - x') = F x

theorem mem_ball_iff (r x : E) (ρ : ℝ) : x ∈ Metric.closedBall r ρ ↔ ‖x - r‖ ≤ ρ := by
  rw [Metric.mem_closedBall, dist_eq_norm]

/-- one step inside the ball: the estimate of `newton_sys_step_core`, contraction by `q` and
    invariance of the ball -/
theorem SysBall.step {F : E → E} {F' : E → E →L[ℝ] E} {r : E} {ρ γ : ℝ}
    (H : SysBall F F' r ρ γ) {β ε : ℝ} (hβ : 0 ≤ β) (hq : sysQ β γ ρ ε ≤ 1) {x x' : E}
    (hx : ‖x - r‖ ≤ ρ) (hs : QStep F F' β ε x x') :
    ‖x' - r‖ ≤ β * (γ / 2 * ‖x - r‖ ^ 2 + ε * ‖x - r‖) ∧
    ‖x' - r‖ ≤ sysQ β γ ρ ε * ‖x - r‖ ∧ ‖x' - r‖ ≤ ρ := by
  obtain ⟨J, hJ, hε, hst⟩ := hs
  have hρ : 0 ≤ ρ := le_trans (norm_nonneg _) hx
  have hxB : x ∈ Metric.closedBall r ρ := (mem_ball_iff r x ρ).2 hx
  have hrB : r ∈ Metric.closedBall r ρ := Metric.mem_closedBall_self hρ
  have h1 := newton_sys_step_core F F' _ (convex_closedBall r ρ) x r γ β ε hxB hrB H.hF
    (H.hL x hxB) H.hroot hβ J hJ hε x' hst
  have h2 : ‖x' - r‖ ≤ sysQ β γ ρ ε * ‖x - r‖ := by
    refine le_trans h1 ?_
    rw [sysQ, mul_assoc]
    refine mul_le_mul_of_nonneg_left ?_ hβ
    have : γ / 2 * ‖x - r‖ ^ 2 ≤ γ * ρ / 2 * ‖x - r‖ := by
      have := mul_le_mul_of_nonneg_left hx (mul_nonneg H.hγ (norm_nonneg (x - r)))
      nlinarith
    nlinarith
  refine ⟨h1, h2, le_trans h2 ?_⟩
  calc sysQ β γ ρ ε * ‖x - r‖ ≤ 1 * ‖x - r‖ := mul_le_mul_of_nonneg_right hq (norm_nonneg _)
    _ ≤ ρ := by rw [one_mul]; exact hx

theorem sysQ_nonneg {β γ ρ ε : ℝ} (hβ : 0 ≤ β) (hγ : 0 ≤ γ) (hρ : 0 ≤ ρ) (hε : 0 ≤ ε) :
    0 ≤ sysQ β γ ρ ε := by
  rw [sysQ]; positivity

/-- **local convergence of the (quasi-)Newton iteration for systems**: in the ball `B(r, ρ)` on
    which `F'` is `γ`-Lipschitz, let every iterate be obtained from the previous one by a step
    with a matrix `J_k`, `‖J_k⁻¹‖ ≤ β`, `‖J_k - F'(x_k)‖ ≤ ε`, and let
    `q = β (γ ρ / 2 + ε) < 1`.  Then the iterates stay in the ball, `‖x_k - r‖ ≤ q^k ‖x₀ - r‖`,
    and `‖x_{k+1} - r‖ ≤ β (γ/2 ‖x_k - r‖² + ε ‖x_k - r‖)` at every step. -/
theorem newton_sys_converges_abstract (F : E → E) (F' : E → E →L[ℝ] E) (r : E) (ρ γ β ε : ℝ)
    (H : SysBall F F' r ρ γ) (hβ : 0 ≤ β) (hε : 0 ≤ ε) (hq : sysQ β γ ρ ε < 1)
    (x : ℕ → E) (hx₀ : ‖x 0 - r‖ ≤ ρ)
    (hstep : ∀ k, ‖x k - r‖ ≤ ρ → QStep F F' β ε (x k) (x (k + 1))) (k : ℕ) :
    ‖x k - r‖ ≤ ρ ∧ ‖x k - r‖ ≤ sysQ β γ ρ ε ^ k * ‖x 0 - r‖ ∧
    ‖x (k + 1) - r‖ ≤ β * (γ / 2 * ‖x k - r‖ ^ 2 + ε * ‖x k - r‖) ∧
    ‖x (k + 1) - r‖ ≤ sysQ β γ ρ ε * ‖x k - r‖ := by
  have hρ : 0 ≤ ρ := le_trans (norm_nonneg _) hx₀
  have hq0 := sysQ_nonneg hβ H.hγ hρ hε
  have main : ∀ k, ‖x k - r‖ ≤ ρ ∧ ‖x k - r‖ ≤ sysQ β γ ρ ε ^ k * ‖x 0 - r‖ := by
    intro k
    induction k with
    | zero => simpa using hx₀
    | succ k ih =>
      obtain ⟨i1, i2⟩ := ih
      obtain ⟨_, s2, s3⟩ := H.step hβ hq.le i1 (hstep k i1)
      refine ⟨s3, le_trans s2 ?_⟩
      calc sysQ β γ ρ ε * ‖x k - r‖ ≤ sysQ β γ ρ ε * (sysQ β γ ρ ε ^ k * ‖x 0 - r‖) :=
            mul_le_mul_of_nonneg_left i2 hq0
        _ = sysQ β γ ρ ε ^ (k + 1) * ‖x 0 - r‖ := by ring
  obtain ⟨m1, m2⟩ := main k
  obtain ⟨s1, s2, _⟩ := H.step hβ hq.le m1 (hstep k m1)
  exact ⟨m1, m2, s1, s2⟩

/-- with the exact Jacobian (`ε = 0`) the convergence is **quadratic**:
    `‖x_{k+1} - r‖ ≤ (β γ / 2) ‖x_k - r‖²` -/
theorem newton_sys_converges_quadratic (F : E → E) (F' : E → E →L[ℝ] E) (r : E) (ρ γ β : ℝ)
    (H : SysBall F F' r ρ γ) (hβ : 0 ≤ β) (hq : β * γ * ρ / 2 < 1)
    (x : ℕ → E) (hx₀ : ‖x 0 - r‖ ≤ ρ)
    (hstep : ∀ k, ‖x k - r‖ ≤ ρ → QStep F F' β 0 (x k) (x (k + 1))) (k : ℕ) :
    ‖x k - r‖ ≤ ρ ∧ ‖x k - r‖ ≤ (β * γ * ρ / 2) ^ k * ‖x 0 - r‖ ∧
    ‖x (k + 1) - r‖ ≤ β * γ / 2 * ‖x k - r‖ ^ 2 := by
  have e : sysQ β γ ρ 0 = β * γ * ρ / 2 := by rw [sysQ]; ring
  obtain ⟨h1, h2, h3, _⟩ := newton_sys_converges_abstract F F' r ρ γ β 0 H hβ (le_refl _)
    (by rw [e]; exact hq) x hx₀ hstep k
  rw [e] at h2
  refine ⟨h1, h2, le_trans h3 (le_of_eq ?_)⟩
  ring

/-- the iterates converge to the root -/
theorem newton_sys_tendsto (F : E → E) (F' : E → E →L[ℝ] E) (r : E) (ρ γ β ε : ℝ)
    (H : SysBall F F' r ρ γ) (hβ : 0 ≤ β) (hε : 0 ≤ ε) (hq : sysQ β γ ρ ε < 1)
    (x : ℕ → E) (hx₀ : ‖x 0 - r‖ ≤ ρ)
    (hstep : ∀ k, ‖x k - r‖ ≤ ρ → QStep F F' β ε (x k) (x (k + 1))) :
    Filter.Tendsto x Filter.atTop (nhds r) := by
  have hρ : 0 ≤ ρ := le_trans (norm_nonneg _) hx₀
  have hq0 := sysQ_nonneg hβ H.hγ hρ hε
  rw [tendsto_iff_dist_tendsto_zero]
  have lim : Filter.Tendsto (fun k : ℕ => sysQ β γ ρ ε ^ k * ‖x 0 - r‖) Filter.atTop (nhds 0) := by
    have := (tendsto_pow_atTop_nhds_zero_of_lt_one hq0 hq).mul_const ‖x 0 - r‖
    simpa using this
  refine squeeze_zero (fun k => dist_nonneg) (fun k => ?_) lim
  rw [dist_eq_norm]
  exact (newton_sys_converges_abstract F F' r ρ γ β ε H hβ hε hq x hx₀ hstep k).2.1

/-- **the residual controls the error** near a simple root: if `F' x` is bounded below by `1/β`
    at a point `x` of the ball then `‖x - r‖ ≤ β (‖F x‖ + γ/2 ‖x - r‖²)`, hence
    `(1 - β γ ρ / 2) ‖x - r‖ ≤ β ‖F x‖`. -/
theorem SysBall.residual_lower {F : E → E} {F' : E → E →L[ℝ] E} {r : E} {ρ γ : ℝ}
    (H : SysBall F F' r ρ γ) {β : ℝ} (hβ : 0 ≤ β) {x : E} (hx : ‖x - r‖ ≤ ρ)
    (hinv : ∀ v, ‖v‖ ≤ β * ‖F' x v‖) :
    (1 - β * γ * ρ / 2) * ‖x - r‖ ≤ β * ‖F x‖ := by
  have hρ : 0 ≤ ρ := le_trans (norm_nonneg _) hx
  have hxB : x ∈ Metric.closedBall r ρ := (mem_ball_iff r x ρ).2 hx
  have hrB : r ∈ Metric.closedBall r ρ := Metric.mem_closedBall_self hρ
  have hT := taylor1_lipschitz F F' _ (convex_closedBall r ρ) x r γ hxB hrB H.hF (H.hL x hxB)
  rw [H.hroot] at hT
  have h1 : ‖F' x (x - r)‖ ≤ ‖F x‖ + γ / 2 * ‖x - r‖ ^ 2 := by
    have e : F' x (x - r) = F x + (0 - F x - F' x (r - x)) := by
      have h2 : r - x = -(x - r) := by abel
      rw [h2, map_neg]; abel
    rw [e, ← norm_sub_rev r x]
    exact le_trans (norm_add_le _ _) (add_le_add (le_refl _) hT)
  have h2 := le_trans (hinv (x - r)) (mul_le_mul_of_nonneg_left h1 hβ)
  have h3 : β * (γ / 2 * ‖x - r‖ ^ 2) ≤ β * γ * ρ / 2 * ‖x - r‖ := by
    have := mul_le_mul_of_nonneg_left hx
      (mul_nonneg (mul_nonneg hβ H.hγ) (norm_nonneg (x - r)))
    nlinarith
  nlinarith

/-- **the error controls the residual**: `‖F x‖ ≤ (‖F' r‖ + γ ρ / 2) ‖x - r‖` on the ball -/
theorem SysBall.residual_upper {F : E → E} {F' : E → E →L[ℝ] E} {r : E} {ρ γ : ℝ}
    (H : SysBall F F' r ρ γ) {x : E} (hx : ‖x - r‖ ≤ ρ) :
    ‖F x‖ ≤ (‖F' r‖ + γ * ρ / 2) * ‖x - r‖ := by
  have hρ : 0 ≤ ρ := le_trans (norm_nonneg _) hx
  have hxB : x ∈ Metric.closedBall r ρ := (mem_ball_iff r x ρ).2 hx
  have hrB : r ∈ Metric.closedBall r ρ := Metric.mem_closedBall_self hρ
  have hT := taylor1_lipschitz F F' _ (convex_closedBall r ρ) r x γ hrB hxB H.hF (H.hL r hrB)
  rw [H.hroot] at hT
  have e : F x = (F x - 0 - F' r (x - r)) + F' r (x - r) := by abel
  have h1 : ‖F x‖ ≤ γ / 2 * ‖x - r‖ ^ 2 + ‖F' r‖ * ‖x - r‖ := by
    conv_lhs => rw [e]
    exact le_trans (norm_add_le _ _) (add_le_add hT ((F' r).le_opNorm _))
  have h3 : γ / 2 * ‖x - r‖ ^ 2 ≤ γ * ρ / 2 * ‖x - r‖ := by
    have := mul_le_mul_of_nonneg_left hx (mul_nonneg H.hγ (norm_nonneg (x - r)))
    nlinarith
  nlinarith

end Abstract

/-! ### the model -/
section Model

/-- the vector `(a₀, …, a_{n-1})` of an array (coordinates beyond its size read as 0) -/
noncomputable def vec (n : ℕ) (a : Array ℝ) : Fin n → ℝ := fun j => a.getD j 0

theorem arrayForm_eq {n : ℕ} (Ff : (Fin n → ℝ) → (Fin n → ℝ)) (a : Array ℝ) :
    arrayForm Ff a = Array.ofFn (Ff (vec n a)) := rfl

theorem vec_ofFn {n : ℕ} (w : Fin n → ℝ) : vec n (Array.ofFn w) = w := by
  funext j
  simp [vec, Array.getD]

theorem ofFn_vec {n : ℕ} {a : Array ℝ} (h : a.size = n) : Array.ofFn (vec n a) = a := by
  apply Array.ext
  · simp [h]
  · intro i h1 h2
    simp [vec, Array.getD, h2]

theorem vec_sub {n : ℕ} {a b : Array ℝ} (ha : a.size = n) (hb : b.size = n) :
    Vec.sub a b = .ok (Array.zipWith (· - ·) a b) ∧ (Array.zipWith (· - ·) a b).size = n ∧
    vec n (Array.zipWith (· - ·) a b) = vec n a - vec n b := by
  refine ⟨by simp [Vec.sub, ha, hb], by simp [ha, hb], ?_⟩
  funext j
  have h1 : (j : ℕ) < a.size := by rw [ha]; exact j.2
  have h2 : (j : ℕ) < b.size := by rw [hb]; exact j.2
  simp [vec, Array.getD, h1, h2]

/-- the model's `norm_inf` of the array of `w` is the sup norm of `w` -/
theorem normInf_ofFn {n : ℕ} (hn : 1 ≤ n) (w : Fin n → ℝ) :
    Vec.normInf (Array.ofFn w) = .ok ‖w‖ := by
  apply C15.normInf_of_isMaxAbs
  have hne : (Finset.univ : Finset (Fin n)).Nonempty := ⟨⟨0, hn⟩, Finset.mem_univ _⟩
  obtain ⟨i, _, hi⟩ := Finset.exists_max_image Finset.univ (fun i => ‖w i‖) hne
  constructor
  · intro k hk
    have hk' : k < n := by simpa using hk
    have := norm_le_pi_norm w ⟨k, hk'⟩
    simpa [Array.getD, hk'] using this
  · refine ⟨i, by simp, ?_⟩
    have h1 : ‖w‖ ≤ ‖w i‖ :=
      (pi_norm_le_iff_of_nonneg (norm_nonneg _)).2 (fun j => hi j (Finset.mem_univ _))
    have h2 := norm_le_pi_norm w i
    have : ‖w‖ = ‖w i‖ := le_antisymm h1 h2
    simpa [Array.getD] using this

/-- the continuous linear map of the `n × n` matrix with entries `e i j` -/
noncomputable def matCLM (n : ℕ) (e : ℕ → ℕ → ℝ) : (Fin n → ℝ) →L[ℝ] (Fin n → ℝ) :=
  LinearMap.toContinuousLinearMap (Matrix.toLin' (Matrix.of fun i j : Fin n => e i j))

theorem matCLM_apply (n : ℕ) (e : ℕ → ℕ → ℝ) (v : Fin n → ℝ) (i : Fin n) :
    matCLM n e v i = ∑ j : Fin n, e i j * v j := by
  simp [matCLM, Matrix.toLin'_apply, Matrix.mulVec, dotProduct]

theorem clm_apply_eq_sum {n : ℕ} (A : (Fin n → ℝ) →L[ℝ] (Fin n → ℝ)) (v : Fin n → ℝ) (i : Fin n) :
    A v i = ∑ j : Fin n, A (Pi.single j 1) i * v j := by
  have h : v = ∑ j : Fin n, v j • (Pi.single j (1 : ℝ) : Fin n → ℝ) := by
    funext k
    simp [Finset.sum_apply, Pi.single_apply]
  conv_lhs => rw [h]
  rw [map_sum, Finset.sum_apply]
  apply Finset.sum_congr rfl
  intro j _
  rw [map_smul, Pi.smul_apply, smul_eq_mul, mul_comm]

/-- a matrix whose entries are those of `A` is `A` -/
theorem matCLM_eq {n : ℕ} (e : ℕ → ℕ → ℝ) (A : (Fin n → ℝ) →L[ℝ] (Fin n → ℝ))
    (h : ∀ i j : Fin n, e i j = A (Pi.single j 1) i) : matCLM n e = A := by
  ext v i
  rw [matCLM_apply, clm_apply_eq_sum A v i]
  exact Finset.sum_congr rfl (fun j _ => by rw [h i j])

/-- a matrix that is bounded below is nonsingular -/
theorem det_ne_zero_of_bddBelow {n : ℕ} (e : ℕ → ℕ → ℝ) (β : ℝ)
    (hb : ∀ v, ‖v‖ ≤ β * ‖matCLM n e v‖) :
    Matrix.det (Matrix.of fun (i j : Fin n) => e i.val j.val) ≠ 0 := by
  intro hdet
  obtain ⟨v, hv, hz⟩ := Matrix.exists_mulVec_eq_zero_iff.mpr hdet
  have : matCLM n e v = 0 := by
    funext i
    rw [matCLM_apply]
    have := congrFun hz i
    simpa [Matrix.mulVec, dotProduct] using this
  have h := hb v
  rw [this, norm_zero, mul_zero] at h
  exact hv (norm_le_zero_iff.mp h)


/-- **one iteration of the model is a (quasi-)Newton step**: at a point `cur` of length `n ≥ 1`,
    if the Jacobian call returned a well-formed `n × n` matrix `J` with entries `e` that is bounded
    below (`‖v‖ ≤ β ‖J v‖`, i.e. nonsingular with `‖J⁻¹‖∞ ≤ β`), then the norm, the linear solve
    (completeness of `solve_basic`, C01C) and the update all return, the norm is the sup norm of
    `F(cur)`, and the new point `cur'` satisfies `J (cur - cur') = F(cur)` exactly (soundness of
    `solve_basic`, C01S). -/
theorem model_step_gen {n : ℕ} (hn : 1 ≤ n) (Ff : (Fin n → ℝ) → (Fin n → ℝ)) (cur : Array ℝ)
    (hc : cur.size = n) {J : Mat ℝ} {e : ℕ → ℕ → ℝ} (hJ : Mat.Is J n n e) {β : ℝ}
    (hb : ∀ v, ‖v‖ ≤ β * ‖matCLM n e v‖) :
    ∃ dx cur', Vec.normInf (arrayForm Ff cur) = .ok ‖Ff (vec n cur)‖ ∧
      Mat.solveBasic J (arrayForm Ff cur) = .ok dx ∧ Vec.sub cur dx = .ok cur' ∧ cur'.size = n ∧
      matCLM n e (vec n cur - vec n cur') = Ff (vec n cur) := by
  have hsz : (arrayForm Ff cur).size = n := by simp [arrayForm]
  obtain ⟨dx, hdx⟩ := C01.solveBasic_complete hn hJ hsz (det_ne_zero_of_bddBelow e β hb)
  obtain ⟨hs, hsol⟩ := C01.solveBasic_sound hn hJ hsz hdx
  obtain ⟨s1, s2, s3⟩ := vec_sub hc hs
  refine ⟨dx, _, ?_, hdx, s1, s2, ?_⟩
  · rw [arrayForm_eq]; exact normInf_ofFn hn _
  · rw [s3, sub_sub_cancel]
    funext i
    rw [matCLM_apply]
    have := hsol i i.2
    rw [Finset.sum_range] at this
    rw [arrayForm_eq] at this
    simpa [vec, Array.getD_eq_getD_getElem?] using this


/-- **the model's loop over ℝ along a contracting invariant**: `P` is an invariant of the
    iteration (e.g. "length `n` and inside the ball") such that from every `P`-point the four
    sub-computations of one iteration return, the new point satisfies `P` again, its error is at
    most `q` times the old one (`0 ≤ q ≤ 1`) and the pair is related by `Q`.  Then for every budget
    `m` the run returns (no panic); the returned point satisfies `P` and is never farther from `r`
    than the starting point; a failure has made `m` steps, has error `≤ q^m ‖x₀ - r‖` and at each
    of its steps `k < m` the residual norm of a point with error `≤ q^k ‖x₀ - r‖` exceeded `tol`;
    a success is the `Q`-successor of a point `c` with error `≤ q^k ‖x₀ - r‖`, `k < m`, whose
    residual norm met the tolerance. -/
theorem solveSys_run {n : ℕ} (Ff : (Fin n → ℝ) → (Fin n → ℝ)) (r : Fin n → ℝ)
    (jacF : Array ℝ → Res (Mat ℝ × List (Array ℝ))) (tol q : ℝ) (P : Array ℝ → Prop)
    (Q : Array ℝ → Array ℝ → Prop) (hq0 : 0 ≤ q) (hq1 : q ≤ 1)
    (hstep : ∀ cur, P cur → ∃ J jtr dx cur',
      Vec.normInf (arrayForm Ff cur) = .ok ‖Ff (vec n cur)‖ ∧ jacF cur = .ok (J, jtr) ∧
      Mat.solveBasic J (arrayForm Ff cur) = .ok dx ∧ Vec.sub cur dx = .ok cur' ∧ P cur' ∧
      ‖vec n cur' - r‖ ≤ q * ‖vec n cur - r‖ ∧ Q cur cur') :
    ∀ (m : ℕ) (cur : Array ℝ) (tr : List (Array ℝ)), P cur → ∃ out tr',
      solveSys (arrayForm Ff) jacF Vec.normInf (fun s => Transc.le s tol) m cur tr
        = .ok (out, tr') ∧
      P out.x ∧ ‖vec n out.x - r‖ ≤ ‖vec n cur - r‖ ∧
      (out.ok = false → ‖vec n out.x - r‖ ≤ q ^ m * ‖vec n cur - r‖ ∧
        ∀ k, k < m → ∃ c, P c ∧ ‖vec n c - r‖ ≤ q ^ k * ‖vec n cur - r‖ ∧ tol < ‖Ff (vec n c)‖) ∧
      (out.ok = true → ∃ k c, k < m ∧ P c ∧ ‖vec n c - r‖ ≤ q ^ k * ‖vec n cur - r‖ ∧
        ‖Ff (vec n c)‖ ≤ tol ∧ Q c out.x ∧ ‖vec n out.x - r‖ ≤ q * ‖vec n c - r‖)
  | 0, cur, tr, hP => by
    refine ⟨⟨false, cur⟩, tr, rfl, hP, le_refl _, fun _ => ⟨by simp, fun k hk => by omega⟩,
      fun h => by simp at h⟩
  | m + 1, cur, tr, hP => by
    obtain ⟨J, jtr, dx, cur', h1, h2, h3, h4, hP', hc, hQ⟩ := hstep cur hP
    have he : 0 ≤ ‖vec n cur - r‖ := norm_nonneg _
    have hle : ‖vec n cur' - r‖ ≤ ‖vec n cur - r‖ :=
      le_trans hc (by nlinarith)
    rw [sys_unfold _ _ _ _ m cur tr h1 h2 h3 h4]
    by_cases ht : ‖Ff (vec n cur)‖ ≤ tol
    · have : (fun s => Transc.le s tol) ‖Ff (vec n cur)‖ = true := by
        simpa [Transc.le] using ht
      rw [if_pos this]
      refine ⟨⟨true, cur'⟩, _, rfl, hP', hle, fun h => by simp at h, fun _ => ?_⟩
      exact ⟨0, cur, Nat.succ_pos m, hP, by simp, ht, hQ, hc⟩
    · have : ¬ (fun s => Transc.le s tol) ‖Ff (vec n cur)‖ = true := by
        simpa [Transc.le] using ht
      rw [if_neg this]
      obtain ⟨out, tr', e, o1, o2, o3, o4⟩ :=
        solveSys_run Ff r jacF tol q P Q hq0 hq1 hstep m cur' (tr ++ [cur] ++ jtr) hP'
      have hpow : ∀ k, q ^ k * ‖vec n cur' - r‖ ≤ q ^ (k + 1) * ‖vec n cur - r‖ := by
        intro k
        calc q ^ k * ‖vec n cur' - r‖ ≤ q ^ k * (q * ‖vec n cur - r‖) :=
              mul_le_mul_of_nonneg_left hc (pow_nonneg hq0 k)
          _ = q ^ (k + 1) * ‖vec n cur - r‖ := by ring
      refine ⟨out, tr', e, o1, le_trans o2 hle, fun ho => ?_, fun ho => ?_⟩
      · obtain ⟨f1, f2⟩ := o3 ho
        refine ⟨le_trans f1 (hpow m), fun k hk => ?_⟩
        cases k with
        | zero => exact ⟨cur, hP, by simp, lt_of_not_ge ht⟩
        | succ k =>
          obtain ⟨c, c1, c2, c3⟩ := f2 k (by omega)
          exact ⟨c, c1, le_trans c2 (hpow k), c3⟩
      · obtain ⟨k, c, c0, c1, c2, c3, c4, c5⟩ := o4 ho
        exact ⟨k + 1, c, by omega, c1, le_trans c2 (hpow k), c3, c4, c5⟩


section Conv
variable {n : ℕ}

/-- the perturbed inverse bound `β₀ / (1 - β₀ ε)` -/
noncomputable def pertB (β₀ ε : ℝ) : ℝ := β₀ / (1 - β₀ * ε)

theorem pertB_nonneg {β₀ ε : ℝ} (hβ : 0 ≤ β₀) (hsmall : β₀ * ε < 1) : 0 ≤ pertB β₀ ε :=
  div_nonneg hβ (by linarith)

theorem le_pertB {β₀ ε : ℝ} (hβ : 0 ≤ β₀) (hε : 0 ≤ ε) (hsmall : β₀ * ε < 1) :
    β₀ ≤ pertB β₀ ε := by
  rw [pertB, le_div_iff₀ (by linarith)]
  nlinarith [mul_nonneg hβ hε]

/-- **one iteration of the model with a Jacobian within `ε` of `F'`** is a quasi-Newton step in
    the sense of `QStep`, with `β = β₀ / (1 - β₀ ε)` -/
theorem model_step_qstep (hn : 1 ≤ n) (Ff : (Fin n → ℝ) → (Fin n → ℝ))
    (F' : (Fin n → ℝ) → (Fin n → ℝ) →L[ℝ] (Fin n → ℝ)) (β₀ ε : ℝ) (hβ : 0 ≤ β₀)
    (hsmall : β₀ * ε < 1) (cur : Array ℝ) (hc : cur.size = n)
    (hinv : ∀ v, ‖v‖ ≤ β₀ * ‖F' (vec n cur) v‖)
    {J : Mat ℝ} {e : ℕ → ℕ → ℝ} (hJ : Mat.Is J n n e) (hε : ‖matCLM n e - F' (vec n cur)‖ ≤ ε) :
    ∃ dx cur', Vec.normInf (arrayForm Ff cur) = .ok ‖Ff (vec n cur)‖ ∧
      Mat.solveBasic J (arrayForm Ff cur) = .ok dx ∧ Vec.sub cur dx = .ok cur' ∧ cur'.size = n ∧
      QStep Ff F' (pertB β₀ ε) ε (vec n cur) (vec n cur') := by
  have hb := bddBelow_perturb (F' (vec n cur)) (matCLM n e) β₀ ε hβ hinv hε hsmall
  obtain ⟨dx, cur', h1, h2, h3, h4, h5⟩ := model_step_gen hn Ff cur hc hJ hb
  exact ⟨dx, cur', h1, h2, h3, h4, matCLM n e, hb, hε, h5⟩

/-- **the model's system Newton iteration near a simple root, any Jacobian approximation**
    (exact real arithmetic, sup norm on `ℝⁿ`, `n ≥ 1`).  `F` has a `γ`-Lipschitz derivative `F'`
    on the ball `B(r, ρ)` around a root `r`, `‖F'(x)⁻¹‖ ≤ β₀` there (`hinv`), the Jacobian
    routine returns at every point of the ball a well-formed `n × n` matrix within `ε` of `F'`
    in operator norm, `β₀ ε < 1`, and `q = β (γ ρ / 2 + ε) < 1` with `β = β₀ / (1 - β₀ ε)`.
    Then from any guess in the ball, for every `tol` and budget `m`, the run returns (no panic) and
    * the returned point has length `n` and is never farther from `r` than the guess;
    * failure ⇒ error `≤ q^m ‖x₀ - r‖`;
    * success ⇒ the returned point is the Newton update of an iterate `c`, `‖c - r‖ ≤ q^k ‖x₀ - r‖`
      (`k < m`), whose residual met the tolerance, `‖F c‖∞ ≤ tol`; the one-step estimate
      `‖x - r‖ ≤ β (γ/2 ‖c - r‖² + ε ‖c - r‖) ≤ q ‖c - r‖` holds, and
      `(1 - β₀γρ/2) ‖c - r‖ ≤ β₀ tol`, `(1 - β₀γρ/2) ‖x - r‖ ≤ q β₀ tol`;
    * success IS reported once `(‖F' r‖ + γρ/2) q^(m-1) ‖x₀ - r‖ ≤ tol` (`m ≥ 1`). -/
theorem solveSys_converges_gen (hn : 1 ≤ n) (Ff : (Fin n → ℝ) → (Fin n → ℝ))
    (F' : (Fin n → ℝ) → (Fin n → ℝ) →L[ℝ] (Fin n → ℝ)) (r : Fin n → ℝ) (ρ γ β₀ ε : ℝ)
    (H : SysBall Ff F' r ρ γ) (hβ : 0 ≤ β₀) (hε : 0 ≤ ε) (hsmall : β₀ * ε < 1)
    (hinv : ∀ x, ‖x - r‖ ≤ ρ → ∀ v, ‖v‖ ≤ β₀ * ‖F' x v‖)
    (hq : sysQ (pertB β₀ ε) γ ρ ε < 1)
    (jacF : Array ℝ → Res (Mat ℝ × List (Array ℝ)))
    (hJac : ∀ cur : Array ℝ, cur.size = n → ‖vec n cur - r‖ ≤ ρ → ∃ J jtr e,
      jacF cur = .ok (J, jtr) ∧ Mat.Is J n n e ∧ ‖matCLM n e - F' (vec n cur)‖ ≤ ε)
    (tol : ℝ) (m : ℕ) (guess : Array ℝ) (hg : guess.size = n) (hg' : ‖vec n guess - r‖ ≤ ρ)
    (tr : List (Array ℝ)) :
    ∃ out tr', solveSys (arrayForm Ff) jacF Vec.normInf (fun s => Transc.le s tol) m guess tr
        = .ok (out, tr') ∧
      out.x.size = n ∧ ‖vec n out.x - r‖ ≤ ‖vec n guess - r‖ ∧
      (out.ok = false →
        ‖vec n out.x - r‖ ≤ sysQ (pertB β₀ ε) γ ρ ε ^ m * ‖vec n guess - r‖) ∧
      (out.ok = true → ∃ k c, k < m ∧ c.size = n ∧
        ‖vec n c - r‖ ≤ sysQ (pertB β₀ ε) γ ρ ε ^ k * ‖vec n guess - r‖ ∧
        ‖Ff (vec n c)‖ ≤ tol ∧
        ‖vec n out.x - r‖ ≤ pertB β₀ ε * (γ / 2 * ‖vec n c - r‖ ^ 2 + ε * ‖vec n c - r‖) ∧
        ‖vec n out.x - r‖ ≤ sysQ (pertB β₀ ε) γ ρ ε * ‖vec n c - r‖ ∧
        (1 - β₀ * γ * ρ / 2) * ‖vec n c - r‖ ≤ β₀ * tol ∧
        (1 - β₀ * γ * ρ / 2) * ‖vec n out.x - r‖ ≤ sysQ (pertB β₀ ε) γ ρ ε * (β₀ * tol)) ∧
      (1 ≤ m → (‖F' r‖ + γ * ρ / 2) * sysQ (pertB β₀ ε) γ ρ ε ^ (m - 1) * ‖vec n guess - r‖ ≤ tol →
        out.ok = true) := by
  have hρ : 0 ≤ ρ := le_trans (norm_nonneg _) hg'
  have hB := pertB_nonneg hβ hsmall
  have hq0 := sysQ_nonneg hB H.hγ hρ hε
  -- β₀ γ ρ / 2 ≤ q < 1
  have hlow : β₀ * γ * ρ / 2 ≤ sysQ (pertB β₀ ε) γ ρ ε := by
    have h1 := le_pertB hβ hε hsmall
    have h2 : 0 ≤ γ * ρ / 2 := by have := H.hγ; positivity
    rw [sysQ]
    nlinarith [mul_le_mul_of_nonneg_right h1 h2, mul_nonneg hB hε]
  obtain ⟨out, tr', e, ⟨o1, o1'⟩, o2, o3, o4⟩ := solveSys_run Ff r jacF tol (sysQ (pertB β₀ ε) γ ρ ε)
    (fun c => c.size = n ∧ ‖vec n c - r‖ ≤ ρ)
    (fun c c' => ‖vec n c' - r‖ ≤ pertB β₀ ε * (γ / 2 * ‖vec n c - r‖ ^ 2 + ε * ‖vec n c - r‖))
    hq0 hq.le
    (by
      rintro cur ⟨hc, hcb⟩
      obtain ⟨J, jtr, e, j1, j2, j3⟩ := hJac cur hc hcb
      obtain ⟨dx, cur', s1, s2, s3, s4, s5⟩ := model_step_qstep hn Ff F' β₀ ε hβ hsmall cur hc
        (hinv _ hcb) j2 j3
      obtain ⟨t1, t2, t3⟩ := H.step hB hq.le hcb s5
      exact ⟨J, jtr, dx, cur', s1, j1, s2, s3, ⟨s4, t3⟩, t2, t1⟩)
    m guess tr ⟨hg, hg'⟩
  refine ⟨out, tr', e, o1, o2, fun ho => (o3 ho).1, fun ho => ?_, fun hm htol => ?_⟩
  · obtain ⟨k, c, c0, ⟨c1, c1'⟩, c2, c3, c4, c5⟩ := o4 ho
    have hres := H.residual_lower hβ c1' (hinv _ c1')
    have hpos : 0 ≤ 1 - β₀ * γ * ρ / 2 := by linarith
    have hc : (1 - β₀ * γ * ρ / 2) * ‖vec n c - r‖ ≤ β₀ * tol :=
      le_trans hres (mul_le_mul_of_nonneg_left c3 hβ)
    refine ⟨k, c, c0, c1, c2, c3, c4, c5, hc, ?_⟩
    calc (1 - β₀ * γ * ρ / 2) * ‖vec n out.x - r‖
        ≤ (1 - β₀ * γ * ρ / 2) * (sysQ (pertB β₀ ε) γ ρ ε * ‖vec n c - r‖) :=
          mul_le_mul_of_nonneg_left c5 hpos
      _ = sysQ (pertB β₀ ε) γ ρ ε * ((1 - β₀ * γ * ρ / 2) * ‖vec n c - r‖) := by ring
      _ ≤ sysQ (pertB β₀ ε) γ ρ ε * (β₀ * tol) := mul_le_mul_of_nonneg_left hc hq0
  · by_contra hne
    have ho : out.ok = false := by simpa using hne
    obtain ⟨c, ⟨_, c1'⟩, c2, c3⟩ := (o3 ho).2 (m - 1) (by omega)
    have hL0 : 0 ≤ ‖F' r‖ + γ * ρ / 2 := by have := H.hγ; positivity
    have := H.residual_upper c1'
    have h2 : (‖F' r‖ + γ * ρ / 2) * ‖vec n c - r‖
        ≤ (‖F' r‖ + γ * ρ / 2) * (sysQ (pertB β₀ ε) γ ρ ε ^ (m - 1) * ‖vec n guess - r‖) :=
      mul_le_mul_of_nonneg_left c2 hL0
    have h3 : (‖F' r‖ + γ * ρ / 2) * (sysQ (pertB β₀ ε) γ ρ ε ^ (m - 1) * ‖vec n guess - r‖)
        = (‖F' r‖ + γ * ρ / 2) * sysQ (pertB β₀ ε) γ ρ ε ^ (m - 1) * ‖vec n guess - r‖ := by ring
    linarith

/-! #### supplied Jacobian -/

/-- **each model iteration with the supplied (exact) Jacobian IS the Newton step** (`ε = 0`):
    if the Jacobian routine returned a well-formed `n × n` matrix whose entries are those of
    `F'(cur)` and `F'(cur)` is bounded below by `1/β` (nonsingular, `‖F'(cur)⁻¹‖∞ ≤ β`), all four
    sub-computations of the iteration return and `F'(cur) (cur - cur') = F(cur)`. -/
theorem model_step_supplied (hn : 1 ≤ n) (Ff : (Fin n → ℝ) → (Fin n → ℝ))
    (F' : (Fin n → ℝ) → (Fin n → ℝ) →L[ℝ] (Fin n → ℝ)) (β : ℝ) (cur : Array ℝ) (hc : cur.size = n)
    (hinv : ∀ v, ‖v‖ ≤ β * ‖F' (vec n cur) v‖)
    {J : Mat ℝ} {e : ℕ → ℕ → ℝ} (hJ : Mat.Is J n n e)
    (he : ∀ i j : Fin n, e i j = F' (vec n cur) (Pi.single j 1) i) :
    ∃ dx cur', Vec.normInf (arrayForm Ff cur) = .ok ‖Ff (vec n cur)‖ ∧
      Mat.solveBasic J (arrayForm Ff cur) = .ok dx ∧ Vec.sub cur dx = .ok cur' ∧ cur'.size = n ∧
      F' (vec n cur) (vec n cur - vec n cur') = Ff (vec n cur) ∧
      QStep Ff F' β 0 (vec n cur) (vec n cur') := by
  have hm := matCLM_eq e _ he
  obtain ⟨dx, cur', h1, h2, h3, h4, h5⟩ := model_step_gen hn Ff cur hc hJ (β := β)
    (by rw [hm]; exact hinv)
  rw [hm] at h5
  exact ⟨dx, cur', h1, h2, h3, h4, h5, F' (vec n cur), hinv, by simp, h5⟩

/-- **local convergence of the model's system Newton iteration, SUPPLIED Jacobian**
    (`solve_jacobian`; exact real arithmetic, sup norm, `n ≥ 1`).  `F` has a `γ`-Lipschitz
    derivative on the ball `B(r, ρ)` around the root `r`, `‖F'(x)⁻¹‖∞ ≤ β` there (so `r` is a simple
    root and `solve_basic` never refuses), the supplied routine returns the matrix of `F'` at every
    point of the ball, and `q = β γ ρ / 2 < 1`.  From any guess in the ball, any `tol`, any budget `m`:
    the run returns; the returned point is never farther from `r` than the guess; a failure has
    error `≤ q^m ‖x₀ - r‖`; a success returns the Newton update `x` of an iterate `c` with
    `‖F c‖∞ ≤ tol`, `‖c - r‖ ≤ q^k ‖x₀ - r‖`, and `‖x - r‖ ≤ (βγ/2) ‖c - r‖² ≤ q ‖c - r‖`
    (QUADRATIC convergence), `(1 - q) ‖c - r‖ ≤ β tol`, `(1 - q) ‖x - r‖ ≤ q β tol` — a distance of
    the order of the tolerance; and success IS reported once
    `(‖F' r‖ + γρ/2) q^(m-1) ‖x₀ - r‖ ≤ tol`. -/
theorem solveSys_converges_supplied (hn : 1 ≤ n) (Ff : (Fin n → ℝ) → (Fin n → ℝ))
    (F' : (Fin n → ℝ) → (Fin n → ℝ) →L[ℝ] (Fin n → ℝ)) (r : Fin n → ℝ) (ρ γ β : ℝ)
    (H : SysBall Ff F' r ρ γ) (hβ : 0 ≤ β)
    (hinv : ∀ x, ‖x - r‖ ≤ ρ → ∀ v, ‖v‖ ≤ β * ‖F' x v‖)
    (hq : β * γ * ρ / 2 < 1)
    (jacF : Array ℝ → Res (Mat ℝ × List (Array ℝ)))
    (hJac : ∀ cur : Array ℝ, cur.size = n → ‖vec n cur - r‖ ≤ ρ → ∃ J jtr e,
      jacF cur = .ok (J, jtr) ∧ Mat.Is J n n e ∧
      ∀ i j : Fin n, e i j = F' (vec n cur) (Pi.single j 1) i)
    (tol : ℝ) (m : ℕ) (guess : Array ℝ) (hg : guess.size = n) (hg' : ‖vec n guess - r‖ ≤ ρ)
    (tr : List (Array ℝ)) :
    ∃ out tr', solveSys (arrayForm Ff) jacF Vec.normInf (fun s => Transc.le s tol) m guess tr
        = .ok (out, tr') ∧
      out.x.size = n ∧ ‖vec n out.x - r‖ ≤ ‖vec n guess - r‖ ∧
      (out.ok = false → ‖vec n out.x - r‖ ≤ (β * γ * ρ / 2) ^ m * ‖vec n guess - r‖) ∧
      (out.ok = true → ∃ k c, k < m ∧ c.size = n ∧
        ‖vec n c - r‖ ≤ (β * γ * ρ / 2) ^ k * ‖vec n guess - r‖ ∧
        ‖Ff (vec n c)‖ ≤ tol ∧
        ‖vec n out.x - r‖ ≤ β * γ / 2 * ‖vec n c - r‖ ^ 2 ∧
        ‖vec n out.x - r‖ ≤ β * γ * ρ / 2 * ‖vec n c - r‖ ∧
        (1 - β * γ * ρ / 2) * ‖vec n c - r‖ ≤ β * tol ∧
        (1 - β * γ * ρ / 2) * ‖vec n out.x - r‖ ≤ β * γ * ρ / 2 * (β * tol)) ∧
      (1 ≤ m → (‖F' r‖ + γ * ρ / 2) * (β * γ * ρ / 2) ^ (m - 1) * ‖vec n guess - r‖ ≤ tol →
        out.ok = true) := by
  have hB : pertB β 0 = β := by simp [pertB]
  have hQ : sysQ β γ ρ 0 = β * γ * ρ / 2 := by rw [sysQ]; ring
  obtain ⟨out, tr', e, o1, o2, o3, o4, o5⟩ := solveSys_converges_gen hn Ff F' r ρ γ β 0 H hβ
    (le_refl _) (by simp) hinv (by rw [hB, hQ]; exact hq) jacF
    (by
      intro cur hc hcb
      obtain ⟨J, jtr, e, j1, j2, j3⟩ := hJac cur hc hcb
      exact ⟨J, jtr, e, j1, j2, by rw [matCLM_eq e _ j3]; simp⟩)
    tol m guess hg hg' tr
  rw [hB, hQ] at o3 o4 o5
  refine ⟨out, tr', e, o1, o2, o3, fun ho => ?_, o5⟩
  obtain ⟨k, c, c0, c1, c2, c3, c4, c5, c6, c7⟩ := o4 ho
  refine ⟨k, c, c0, c1, c2, c3, le_trans c4 (le_of_eq ?_), c5, c6, c7⟩
  ring

/-! #### finite-difference Jacobian -/

/-- sup-norm operator distance of a matrix from a linear map with entrywise error `η`:
    `‖J - A‖∞ ≤ n η` -/
theorem opNorm_sub_le_of_entries (e : ℕ → ℕ → ℝ) (A : (Fin n → ℝ) →L[ℝ] (Fin n → ℝ)) (η : ℝ)
    (hη : 0 ≤ η) (h : ∀ i j : Fin n, |e i j - A (Pi.single j 1) i| ≤ η) :
    ‖matCLM n e - A‖ ≤ n * η := by
  refine ContinuousLinearMap.opNorm_le_bound _ (by positivity) (fun v => ?_)
  rw [pi_norm_le_iff_of_nonneg (by positivity)]
  intro i
  rw [sub_apply, Pi.sub_apply, matCLM_apply, clm_apply_eq_sum A v i,
    ← Finset.sum_sub_distrib, Real.norm_eq_abs]
  calc |∑ j : Fin n, (e i j * v j - A (Pi.single j 1) i * v j)|
      ≤ ∑ j : Fin n, |e i j * v j - A (Pi.single j 1) i * v j| := Finset.abs_sum_le_sum_abs _ _
    _ ≤ ∑ j : Fin n, η * ‖v‖ := by
        apply Finset.sum_le_sum
        intro j _
        rw [← sub_mul, abs_mul]
        exact mul_le_mul (h i j) (norm_le_pi_norm v j) (abs_nonneg _) hη
    _ = n * η * ‖v‖ := by simp [Finset.sum_const]; ring

/-- **local convergence of the model's system Newton iteration, FINITE-DIFFERENCE Jacobian**
    (`Newton<Vec64>::solve`; exact real arithmetic, sup norm, `n ≥ 1`).  As
    `solveSys_converges_supplied`, with `F` Fréchet differentiable at every point of the ball and
    every partial function `t ↦ F_i(x + t e_j)` twice differentiable between `0` and `δ` with
    second derivative bounded by `M₂` (for `x` in the ball): by `C18.jacobian_accuracy_fderiv` the
    computed Jacobian is within `M₂|δ|/2` of `F'` entrywise, hence within `ε = n M₂ |δ| / 2` in
    operator norm; if `β₀ ε < 1` it is nonsingular with inverse bounded by `β = β₀/(1 - β₀ ε)` (no
    hypothesis on the computed matrix is needed) and if `q = β (γρ/2 + ε) < 1` the conclusions of
    `solveSys_converges_gen` hold: geometric decrease with ratio `q`, one-step estimate
    `‖x⁺ - r‖ ≤ β (γ/2 ‖x - r‖² + ε ‖x - r‖)` (quadratic up to the `O(δ)` linear term), success
    within a distance of the order of `tol`. -/
theorem solveSys_converges_fd (hn : 1 ≤ n) (Ff : (Fin n → ℝ) → (Fin n → ℝ))
    (F' : (Fin n → ℝ) → (Fin n → ℝ) →L[ℝ] (Fin n → ℝ)) (r : Fin n → ℝ) (ρ γ β₀ δ M₂ : ℝ)
    (H : SysBall Ff F' r ρ γ) (hβ : 0 ≤ β₀) (hδ : δ ≠ 0)
    (hFD : ∀ x, ‖x - r‖ ≤ ρ → HasFDerivAt Ff (F' x) x)
    (hsm : ∀ x, ‖x - r‖ ≤ ρ → ∀ (i j : Fin n), ∃ g' g'' : ℝ → ℝ,
      (∀ t ∈ uIcc 0 δ, HasDerivAt (fun s => Ff (Function.update x j (x j + s)) i) (g' t) t) ∧
      (∀ t ∈ uIcc 0 δ, HasDerivAt g' (g'' t) t) ∧ ∀ t ∈ uIcc 0 δ, |g'' t| ≤ M₂)
    (hsmall : β₀ * (n * (M₂ * |δ| / 2)) < 1)
    (hinv : ∀ x, ‖x - r‖ ≤ ρ → ∀ v, ‖v‖ ≤ β₀ * ‖F' x v‖)
    (hq : sysQ (pertB β₀ (n * (M₂ * |δ| / 2))) γ ρ (n * (M₂ * |δ| / 2)) < 1)
    (tol : ℝ) (m : ℕ) (guess : Array ℝ) (hg : guess.size = n) (hg' : ‖vec n guess - r‖ ≤ ρ)
    (tr : List (Array ℝ)) :
    ∃ out tr', solveSys (arrayForm Ff) (fun x => jacobian (arrayForm Ff) x δ) Vec.normInf
        (fun s => Transc.le s tol) m guess tr = .ok (out, tr') ∧
      out.x.size = n ∧ ‖vec n out.x - r‖ ≤ ‖vec n guess - r‖ ∧
      (out.ok = false → ‖vec n out.x - r‖
        ≤ sysQ (pertB β₀ (n * (M₂ * |δ| / 2))) γ ρ (n * (M₂ * |δ| / 2)) ^ m * ‖vec n guess - r‖) ∧
      (out.ok = true → ∃ k c, k < m ∧ c.size = n ∧
        ‖vec n c - r‖
          ≤ sysQ (pertB β₀ (n * (M₂ * |δ| / 2))) γ ρ (n * (M₂ * |δ| / 2)) ^ k * ‖vec n guess - r‖ ∧
        ‖Ff (vec n c)‖ ≤ tol ∧
        ‖vec n out.x - r‖ ≤ pertB β₀ (n * (M₂ * |δ| / 2)) *
          (γ / 2 * ‖vec n c - r‖ ^ 2 + n * (M₂ * |δ| / 2) * ‖vec n c - r‖) ∧
        ‖vec n out.x - r‖
          ≤ sysQ (pertB β₀ (n * (M₂ * |δ| / 2))) γ ρ (n * (M₂ * |δ| / 2)) * ‖vec n c - r‖ ∧
        (1 - β₀ * γ * ρ / 2) * ‖vec n c - r‖ ≤ β₀ * tol ∧
        (1 - β₀ * γ * ρ / 2) * ‖vec n out.x - r‖
          ≤ sysQ (pertB β₀ (n * (M₂ * |δ| / 2))) γ ρ (n * (M₂ * |δ| / 2)) * (β₀ * tol)) ∧
      (1 ≤ m → (‖F' r‖ + γ * ρ / 2) *
          sysQ (pertB β₀ (n * (M₂ * |δ| / 2))) γ ρ (n * (M₂ * |δ| / 2)) ^ (m - 1) *
          ‖vec n guess - r‖ ≤ tol → out.ok = true) := by
  have hρ : 0 ≤ ρ := le_trans (norm_nonneg _) hg'
  -- `M₂ ≥ 0` (read off the hypothesis at the root)
  have hM : 0 ≤ M₂ := by
    obtain ⟨g', g'', _, _, h3⟩ := hsm r (by simpa using hρ) ⟨0, hn⟩ ⟨0, hn⟩
    exact le_trans (abs_nonneg _) (h3 0 left_mem_uIcc)
  have hη : 0 ≤ M₂ * |δ| / 2 := by positivity
  refine solveSys_converges_gen hn Ff F' r ρ γ β₀ (n * (M₂ * |δ| / 2)) H hβ (by positivity)
    hsmall hinv hq _ ?_ tol m guess hg hg' tr
  intro cur hc hcb
  obtain ⟨J, jtr, e, j1, _, j3, j4⟩ := C18.jacobian_accuracy_fderiv Ff (vec n cur) δ M₂ hδ
    (F' (vec n cur)) (hFD _ hcb) (hsm _ hcb)
  rw [ofFn_vec hc] at j1
  exact ⟨J, jtr, e, j1, j3, opNorm_sub_le_of_entries e _ _ hη j4⟩

end Conv

end Model

/-! ### the hypotheses are satisfiable -/
section Examples

/-- `G(x, y) = (x² + y - 2, x + y² - 2)`, simple root `(1, 1)` -/
noncomputable def exG : (Fin 2 → ℝ) → (Fin 2 → ℝ) :=
  fun v => ![v 0 ^ 2 + v 1 - 2, v 0 + v 1 ^ 2 - 2]

/-- its Jacobian matrix `[[2x, 1], [1, 2y]]` -/
noncomputable def exGJ (x : Fin 2 → ℝ) : ℕ → ℕ → ℝ := fun i j =>
  if i = 0 then (if j = 0 then 2 * x 0 else 1) else (if j = 0 then 1 else 2 * x 1)

noncomputable def exG' (x : Fin 2 → ℝ) : (Fin 2 → ℝ) →L[ℝ] (Fin 2 → ℝ) := matCLM 2 (exGJ x)

theorem exG'_apply (x v : Fin 2 → ℝ) :
    exG' x v = ![2 * x 0 * v 0 + v 1, v 0 + 2 * x 1 * v 1] := by
  funext i
  fin_cases i <;> simp [exG', matCLM_apply, Fin.sum_univ_two, exGJ]

theorem exG_hasFDerivAt (x : Fin 2 → ℝ) : HasFDerivAt exG (exG' x) x := by
  rw [hasFDerivAt_pi']
  intro i
  have p0 : HasFDerivAt (fun v : Fin 2 → ℝ => v 0) (ContinuousLinearMap.proj (R := ℝ) (φ := fun _ : Fin 2 => ℝ) 0) x :=
    (ContinuousLinearMap.proj (R := ℝ) (φ := fun _ : Fin 2 => ℝ) 0).hasFDerivAt
  have p1 : HasFDerivAt (fun v : Fin 2 → ℝ => v 1) (ContinuousLinearMap.proj (R := ℝ) (φ := fun _ : Fin 2 => ℝ) 1) x :=
    (ContinuousLinearMap.proj (R := ℝ) (φ := fun _ : Fin 2 => ℝ) 1).hasFDerivAt
  fin_cases i
  · have h := ((p0.pow 2).add p1).sub_const 2
    have e : (fun v : Fin 2 → ℝ => exG v (0 : Fin 2)) = fun v => v 0 ^ 2 + v 1 - 2 := by
      funext v; simp [exG]
    simp only [Fin.zero_eta]
    rw [e]
    refine h.congr_fderiv ?_
    ext v
    simp [exG'_apply]
  · have h := (p0.add (p1.pow 2)).sub_const 2
    have e : (fun v : Fin 2 → ℝ => exG v (1 : Fin 2)) = fun v => v 0 + v 1 ^ 2 - 2 := by
      funext v; simp [exG]
    simp only [Fin.mk_one]
    rw [e]
    refine h.congr_fderiv ?_
    ext v
    simp [exG'_apply]


theorem exG'_lipschitz (x z : Fin 2 → ℝ) : ‖exG' z - exG' x‖ ≤ 2 * ‖z - x‖ := by
  refine ContinuousLinearMap.opNorm_le_bound _ (by positivity) (fun v => ?_)
  rw [pi_norm_le_iff_of_nonneg (by positivity)]
  intro i
  have hz := norm_le_pi_norm (z - x) i
  have hv := norm_le_pi_norm v i
  rw [Real.norm_eq_abs] at hz hv
  have key : (exG' z - exG' x) v i = 2 * (z - x) i * v i := by
    rw [sub_apply, exG'_apply, exG'_apply]
    fin_cases i <;> simp <;> ring
  rw [key, Real.norm_eq_abs, abs_mul, abs_mul, abs_of_pos (by norm_num : (0 : ℝ) < 2)]
  have := mul_le_mul hz hv (abs_nonneg _) (norm_nonneg _)
  nlinarith

/-- at the root `(1, 1)` the Jacobian `[[2, 1], [1, 2]]` has `‖·⁻¹‖∞ = 1` -/
theorem exG'_root_bddBelow (v : Fin 2 → ℝ) : ‖v‖ ≤ 1 * ‖exG' (fun _ => 1) v‖ := by
  rw [one_mul, pi_norm_le_iff_of_nonneg (norm_nonneg _)]
  have h0 := norm_le_pi_norm (exG' (fun _ => 1) v) 0
  have h1 := norm_le_pi_norm (exG' (fun _ => 1) v) 1
  have e0 : exG' (fun _ => 1) v 0 = 2 * v 0 + v 1 := by rw [exG'_apply]; simp
  have e1 : exG' (fun _ => 1) v 1 = v 0 + 2 * v 1 := by rw [exG'_apply]; simp
  rw [e0, Real.norm_eq_abs] at h0
  rw [e1, Real.norm_eq_abs] at h1
  obtain ⟨a0, b0⟩ := abs_le.mp h0
  obtain ⟨a1, b1⟩ := abs_le.mp h1
  intro i
  rw [Real.norm_eq_abs, abs_le]
  fin_cases i <;> constructor <;> simp <;> linarith

/-- on the ball of radius `1/8` around `(1, 1)`: `‖G'(x)⁻¹‖∞ ≤ 4/3` (perturbation lemma) -/
theorem exG'_bddBelow (x : Fin 2 → ℝ) (hx : ‖x - (fun _ => 1)‖ ≤ 1 / 8) (v : Fin 2 → ℝ) :
    ‖v‖ ≤ 4 / 3 * ‖exG' x v‖ := by
  have h := bddBelow_perturb (exG' (fun _ => 1)) (exG' x) 1 (1 / 4) (by norm_num)
    exG'_root_bddBelow (le_trans (exG'_lipschitz _ x) (by linarith)) (by norm_num) v
  norm_num at h
  linarith

theorem exG_sysBall : SysBall exG exG' (fun _ => 1) (1 / 8) 2 where
  hroot := by funext i; fin_cases i <;> simp [exG] <;> norm_num
  hγ := by norm_num
  hF := fun z _ => (exG_hasFDerivAt z).hasFDerivWithinAt
  hL := fun x _ z _ => exG'_lipschitz x z

/-- the user-supplied Jacobian routine of `G` -/
noncomputable def exGJac : Array ℝ → Res (Mat ℝ × List (Array ℝ)) :=
  fun a => .ok (⟨#[2 * a.getD 0 0, 1, 1, 2 * a.getD 1 0], 2, 2⟩, [])

theorem exGJac_spec (cur : Array ℝ) : ∃ J jtr e, exGJac cur = .ok (J, jtr) ∧ Mat.Is J 2 2 e ∧
    ∀ i j : Fin 2, e i j = exG' (vec 2 cur) (Pi.single j 1) i := by
  refine ⟨_, _, _, rfl, Mat.WFn.is ⟨rfl, rfl, rfl⟩, ?_⟩
  intro i j
  rw [exG'_apply]
  fin_cases i <;> fin_cases j <;> simp [Mat.ent, vec]


theorem exGuess_mem : ‖vec 2 #[9 / 8, 7 / 8] - (fun _ => (1 : ℝ))‖ ≤ 1 / 8 := by
  rw [pi_norm_le_iff_of_nonneg (by norm_num)]
  intro i
  rw [Real.norm_eq_abs, abs_le]
  fin_cases i <;> constructor <;> simp [vec] <;> norm_num

/-- **non-vacuity, supplied Jacobian**: `G(x, y) = (x² + y - 2, x + y² - 2)` near its simple root
    `(1, 1)`: `ρ = 1/8`, `γ = 2`, `β = 4/3`, `q = 1/6`.  From the guess `(9/8, 7/8)` the model's
    `solve_jacobian` returns for every `tol` and every budget, stays within `1/8` of the root, a
    failure has error `≤ (1/6)^m / 8`, and a reported success is within `4/15 · tol` of the root. -/
example (tol : ℝ) (m : ℕ) :
    ∃ out tr', solveSys (arrayForm exG) exGJac Vec.normInf (fun s => Transc.le s tol) m
        #[9 / 8, 7 / 8] [] = .ok (out, tr') ∧
      ‖vec 2 out.x - (fun _ => (1 : ℝ))‖ ≤ 1 / 8 ∧
      (out.ok = false → ‖vec 2 out.x - (fun _ => (1 : ℝ))‖ ≤ (1 / 6) ^ m * (1 / 8)) ∧
      (out.ok = true → ‖vec 2 out.x - (fun _ => (1 : ℝ))‖ ≤ 4 / 15 * tol) := by
  obtain ⟨out, tr', e, _, o2, o3, o4, _⟩ := solveSys_converges_supplied (n := 2) (by norm_num) exG
    exG' (fun _ => 1) (1 / 8) 2 (4 / 3) exG_sysBall (by norm_num) exG'_bddBelow (by norm_num)
    exGJac (fun cur _ _ => exGJac_spec cur) tol m #[9 / 8, 7 / 8] rfl exGuess_mem []
  have hq : (4 / 3 : ℝ) * 2 * (1 / 8) / 2 = 1 / 6 := by norm_num
  rw [hq] at o3 o4
  refine ⟨out, tr', e, le_trans o2 exGuess_mem, fun ho => le_trans (o3 ho) ?_, fun ho => ?_⟩
  · exact mul_le_mul_of_nonneg_left exGuess_mem (by positivity)
  · obtain ⟨k, c, _, _, _, _, _, _, _, c7⟩ := o4 ho
    linarith

/-- the partial functions of `G` are quadratics with `|∂²G_i/∂x_j²| ≤ 2` -/
theorem exG_partials (x : Fin 2 → ℝ) (δ : ℝ) (i j : Fin 2) : ∃ g' g'' : ℝ → ℝ,
    (∀ t ∈ uIcc 0 δ, HasDerivAt (fun s => exG (Function.update x j (x j + s)) i) (g' t) t) ∧
    (∀ t ∈ uIcc 0 δ, HasDerivAt g' (g'' t) t) ∧ ∀ t ∈ uIcc 0 δ, |g'' t| ≤ 2 := by
  fin_cases i <;> fin_cases j
  · refine ⟨fun t => 2 * (x 0 + t), fun _ => 2, fun t _ => ?_, fun t _ => ?_, fun t _ => by simp⟩
    · have e : (fun s => exG (Function.update x (0 : Fin 2) (x 0 + s)) (0 : Fin 2))
          = fun s => (x 0 + s) ^ 2 + x 1 - 2 := by funext s; simp [exG]
      simp only [Fin.zero_eta]
      rw [e]
      exact (((((hasDerivAt_id' t).const_add (x 0)).pow 2).add_const (x 1)).sub_const 2).congr_deriv
        (by simp)
    · exact (((hasDerivAt_id' t).const_add (x 0)).const_mul 2).congr_deriv (by ring)
  · refine ⟨fun _ => 1, fun _ => 0, fun t _ => ?_, fun t _ => hasDerivAt_const _ _,
      fun t _ => by simp⟩
    have e : (fun s => exG (Function.update x (1 : Fin 2) (x 1 + s)) (0 : Fin 2))
        = fun s => x 0 ^ 2 + (x 1 + s) - 2 := by funext s; simp [exG]
    simp only [Fin.zero_eta, Fin.mk_one]
    rw [e]
    exact ((((hasDerivAt_id' t).const_add (x 1)).const_add (x 0 ^ 2)).sub_const 2)
  · refine ⟨fun _ => 1, fun _ => 0, fun t _ => ?_, fun t _ => hasDerivAt_const _ _,
      fun t _ => by simp⟩
    have e : (fun s => exG (Function.update x (0 : Fin 2) (x 0 + s)) (1 : Fin 2))
        = fun s => x 0 + s + x 1 ^ 2 - 2 := by funext s; simp [exG]
    simp only [Fin.zero_eta, Fin.mk_one]
    rw [e]
    exact ((((hasDerivAt_id' t).const_add (x 0)).add_const (x 1 ^ 2)).sub_const 2)
  · refine ⟨fun t => 2 * (x 1 + t), fun _ => 2, fun t _ => ?_, fun t _ => ?_, fun t _ => by simp⟩
    · have e : (fun s => exG (Function.update x (1 : Fin 2) (x 1 + s)) (1 : Fin 2))
          = fun s => x 0 + (x 1 + s) ^ 2 - 2 := by funext s; simp [exG]
      simp only [Fin.mk_one]
      rw [e]
      exact (((((hasDerivAt_id' t).const_add (x 1)).pow 2).const_add (x 0)).sub_const 2).congr_deriv
        (by simp)
    · exact (((hasDerivAt_id' t).const_add (x 1)).const_mul 2).congr_deriv (by ring)

/-- **non-vacuity, finite-difference Jacobian**: the same system with `δ = 1/1000`
    (`M₂ = 2`, `ε = 1/500`, `β = 250/187`, `q = 127/748`): the model's `solve` returns from the
    guess `(9/8, 7/8)` for every `tol` and budget, stays within `1/8` of the root, and a failure
    has error `≤ (127/748)^m / 8`. -/
example (tol : ℝ) (m : ℕ) :
    ∃ out tr', solveSys (arrayForm exG) (fun x => jacobian (arrayForm exG) x (1 / 1000)) Vec.normInf
        (fun s => Transc.le s tol) m #[9 / 8, 7 / 8] [] = .ok (out, tr') ∧
      ‖vec 2 out.x - (fun _ => (1 : ℝ))‖ ≤ 1 / 8 ∧
      (out.ok = false → ‖vec 2 out.x - (fun _ => (1 : ℝ))‖ ≤ (127 / 748) ^ m * (1 / 8)) ∧
      (out.ok = true → ‖vec 2 out.x - (fun _ => (1 : ℝ))‖ ≤ 127 / 748 * (8 / 5 * tol)) := by
  have hδ : |(1 / 1000 : ℝ)| = 1 / 1000 := abs_of_pos (by norm_num)
  have hε : ((2 : ℕ) : ℝ) * (2 * |(1 / 1000 : ℝ)| / 2) = 1 / 500 := by rw [hδ]; norm_num
  have hB : pertB (4 / 3) (1 / 500) = 250 / 187 := by rw [pertB]; norm_num
  have hQ : sysQ (250 / 187) 2 (1 / 8) (1 / 500) = 127 / 748 := by rw [sysQ]; norm_num
  obtain ⟨out, tr', e, _, o2, o3, o4, _⟩ := solveSys_converges_fd (n := 2) (by norm_num) exG
    exG' (fun _ => 1) (1 / 8) 2 (4 / 3) (1 / 1000) 2 exG_sysBall (by norm_num) (by norm_num)
    (fun x _ => exG_hasFDerivAt x) (fun x _ i j => exG_partials x _ i j)
    (by rw [hε]; norm_num) exG'_bddBelow (by rw [hε, hB, hQ]; norm_num)
    tol m #[9 / 8, 7 / 8] rfl exGuess_mem []
  rw [hε, hB, hQ] at o3 o4
  refine ⟨out, tr', e, le_trans o2 exGuess_mem, fun ho => le_trans (o3 ho) ?_, fun ho => ?_⟩
  · exact mul_le_mul_of_nonneg_left exGuess_mem (by positivity)
  · obtain ⟨k, c, _, _, _, _, _, _, _, c7⟩ := o4 ho
    linarith

end Examples
end Ohsl.Props.C17
