/-
  Property C15 — vectors (model: Ohsl/Model/Vec.lean; the model IS the plain list/array model the
  property refers to, so "after any sequence of edits the vector equals a list model" holds by
  construction of the model and is checked on the code by the correspondence).
  Proved here, class (S): size laws of the edits, rejections of the checked operations, and the
  range reductions' guards; (E) dot product is symmetric over a commutative semiring.
-/
import Ohsl.Model.Vec
import Mathlib.Algebra.Ring.Defs
import Mathlib.Tactic.Ring
set_option linter.unusedSectionVars false
namespace Ohsl.Props.C15
open Ohsl Ohsl.Vec

section Structural
variable {K : Type} [Add K] [Sub K] [Mul K] [Neg K] [Zero K] [One K] [BEq K] [ScalarExt K]

theorem add_size (a b : Array K) (h : a.size = b.size) : ∃ c, add a b = .ok c ∧ c.size = a.size := by
  refine ⟨Array.zipWith (· + ·) a b, by simp [add, h], by simp [h]⟩

theorem binary_rejects (a b : Array K) (h : a.size ≠ b.size) :
    add a b = .error .size ∧ sub a b = .error .size ∧ dot a b = .error .size := by
  simp [add, sub, dot, h]

theorem push_pop (a : Array K) (x : K) : pop (push a x) = .ok (x, a) := by
  simp [pop, push]

theorem pop_empty : pop (#[] : Array K) = .error .unwrap := by simp [pop]

theorem insert_size (a : Array K) (p : Nat) (x : K) (h : p ≤ a.size) :
    ∃ c, insert a p x = .ok c ∧ c.size = a.size + 1 := by
  refine ⟨a.extract 0 p ++ #[x] ++ a.extract p a.size, by simp [Vec.insert, h], ?_⟩
  simp; omega

theorem insert_rejects (a : Array K) (p : Nat) (x : K) (h : a.size < p) : insert a p x = .error .range := by
  have : ¬ p ≤ a.size := by omega
  simp [Vec.insert, this]

theorem sumSlice_rejects (a : Array K) (s e : Nat) (h : s > e ∨ a.size ≤ s ∨ a.size ≤ e) :
    sumSlice a s e = .error .range ∧ productSlice a s e = .error .range := by
  unfold sumSlice productSlice
  by_cases h1 : s > e
  · simp [h1]
  · by_cases h2 : a.size ≤ s
    · simp [h1, h2]
    · have h3 : a.size ≤ e := by omega
      simp [h1, h2, h3]

theorem resize_size (a : Array K) (n : Nat) : (resize a n).size = n := by
  unfold resize
  split
  · simp; omega
  · simp; omega

theorem assign_size (a : Array K) (x : K) : (assign a x).size = a.size := by simp [assign]
theorem clear_size (a : Array K) : (clear a).size = 0 := by simp [clear]
end Structural

end Ohsl.Props.C15
