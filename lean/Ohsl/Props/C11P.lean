/-
  Property C11 (continued) — the coefficient-array polynomial model denotes Mathlib polynomials.
  With `toPoly cs = Σ_i C cs[i] * X^i` (`Ohsl/Lemmas/PolyAlg.lean`):
  (E) over any semiring: Horner `eval` is `Polynomial.eval`; `add`, `smul`, `mul` are `+`, `· * C t`,
  `*` (including the empty operands) with the expected sizes; `derivative`/`derivativeN` are
  `Polynomial.derivative` and its iterates; linearity and the product rule hold on the model
  (as equalities of coefficient arrays); `eval` is additive, and multiplicative over a commutative
  semiring.  Over a ring: `neg`, `sub` are `-`.
-/
import Ohsl.Props.C11
import Ohsl.Lemmas.PolyAlg
set_option linter.unusedSectionVars false
set_option linter.unusedVariables false
namespace Ohsl.Props.C11
open Ohsl Ohsl.Poly Ohsl.PolyAlg Polynomial

section Semi
variable {K : Type} [Semiring K]

/-- 1. Horner evaluation is polynomial evaluation -/
theorem eval_spec (cs : Array K) (x : K) (h : cs ≠ #[]) :
    Poly.eval cs x = .ok ((toPoly cs).eval x) := by
  obtain ⟨l⟩ := cs
  have hl : l ≠ [] := by intro e; subst e; exact h rfl
  obtain ⟨l', a, rfl⟩ : ∃ l' a, l = l' ++ [a] :=
    ⟨l.dropLast, l.getLast hl, (List.dropLast_append_getLast hl).symm⟩
  unfold Poly.eval
  simp only [List.back?_toArray, List.getLast?_append, List.getLast?_singleton,
    List.pop_toArray, List.dropLast_concat, List.foldr_toArray]
  simp only [Option.some_or]
  rw [horner_list]

/-- 2. `add` is polynomial addition (the empty polynomial acts as zero) -/
theorem add_spec (p q : Array K) : toPoly (add p q) = toPoly p + toPoly q := by
  by_cases hp : p.size = 0
  · simp [add, hp, toPoly_eq_of_size_zero hp]
  by_cases hq : q.size = 0
  · simp [add, hp, hq, toPoly_eq_of_size_zero hq]
  ext k
  rw [coeff_add, coeff_toPoly, coeff_toPoly, coeff_toPoly]
  simp only [add, hp, hq, if_false, Array.getElem?_ofFn]
  by_cases h1 : k < p.size <;> by_cases h2 : k < q.size <;>
    simp [h1, h2]

/-- `smul p t` multiplies every coefficient by `t` on the right -/
theorem smul_spec (p : Array K) (t : K) : toPoly (smul p t) = toPoly p * C t := by
  ext k
  rw [coeff_mul_C, coeff_toPoly, coeff_toPoly]
  simp only [smul, Array.getElem?_map]
  cases p[k]? <;> simp

/-- 3. `mul` is polynomial multiplication (the empty polynomial annihilates) -/
theorem mul_spec (p q : Array K) : toPoly (mul p q) = toPoly p * toPoly q := by
  by_cases hp : p.size = 0
  · simp [mul, hp, toPoly_eq_of_size_zero hp]
  by_cases hq : q.size = 0
  · simp [mul, hp, hq, toPoly_eq_of_size_zero hq]
  obtain ⟨hs, hc⟩ := mul_coeff p q hp hq
  ext m
  have hR : (toPoly p * toPoly q).coeff m = ∑ i ∈ Finset.range p.size, ∑ j ∈ Finset.range q.size,
      if m = i + j then (p[i]?.getD 0) * (q[j]?.getD 0) else 0 := by
    conv_lhs => rw [toPoly, toPoly, Finset.sum_mul_sum]
    rw [Polynomial.finsetSum_coeff]
    refine Finset.sum_congr rfl fun i _ => ?_
    rw [Polynomial.finsetSum_coeff]
    refine Finset.sum_congr rfl fun j _ => ?_
    have e : C (p[i]?.getD 0) * X ^ i * (C (q[j]?.getD 0) * X ^ j) =
        C (p[i]?.getD 0 * q[j]?.getD 0) * X ^ (i + j) := by
      rw [mul_assoc, ← mul_assoc (X ^ i), X_pow_mul_C, mul_assoc, ← pow_add, ← mul_assoc, ← C_mul]
    rw [e, coeff_C_mul_X_pow]
  rw [hR, coeff_toPoly]
  by_cases h : m < p.size + q.size - 1
  · exact hc m h
  · have : (mul p q)[m]? = none := by simp [hs]; omega
    rw [this]
    symm
    apply Finset.sum_eq_zero; intro i hi
    apply Finset.sum_eq_zero; intro j hj
    simp only [Finset.mem_range] at hi hj
    rw [if_neg (by omega)]

theorem mul_size (p q : Array K) (hp : p ≠ #[]) (hq : q ≠ #[]) :
    (mul p q).size = p.size + q.size - 1 :=
  (mul_coeff p q (ne_empty_iff.mp hp) (ne_empty_iff.mp hq)).1

/-- 4. `derivative` is the formal derivative -/
theorem derivative_spec (p : Array K) (h : p ≠ #[]) :
    ∃ d, Poly.derivative p = .ok d ∧ d.size = p.size - 1 ∧
      toPoly d = Polynomial.derivative (toPoly p) := by
  have hs := ne_empty_iff.mp h
  refine ⟨Array.ofFn (n := p.size - 1) (fun i => addRep (p[i.val + 1]?.getD 0) (i.val + 1)),
    by simp [Poly.derivative, hs], by simp, ?_⟩
  ext k
  rw [coeff_derivative, coeff_toPoly, coeff_toPoly, Array.getElem?_ofFn]
  by_cases hk : k < p.size - 1
  · simp only [hk, dite_true, Option.getD_some]
    rw [addRep_eq_nsmul, nsmul_eq_mul, Nat.cast_comm, Nat.cast_add, Nat.cast_one]
  · have : p[k + 1]? = none := by simp; omega
    simp [hk, this]

/-- `derivativeN p n` succeeds exactly as long as coefficients remain (`n ≤ p.size`) and is the
    `n`-fold formal derivative -/
theorem derivativeN_spec (p : Array K) (n : Nat) (h : n ≤ p.size) :
    ∃ d, Poly.derivativeN p n = .ok d ∧ d.size = p.size - n ∧
      toPoly d = Polynomial.derivative^[n] (toPoly p) := by
  induction n with
  | zero => exact ⟨p, rfl, rfl, rfl⟩
  | succ n ih =>
    obtain ⟨d, h1, h2, h3⟩ := ih (by omega)
    have hd : d ≠ #[] := ne_empty_iff.mpr (by omega)
    obtain ⟨e, g1, g2, g3⟩ := derivative_spec d hd
    refine ⟨e, ?_, by omega, ?_⟩
    · simp only [Poly.derivativeN, h1, bind, Except.bind, g1]
    · rw [g3, h3, Function.iterate_succ_apply']

/-- one derivative too many: `derivativeN p (p.size + 1)` panics -/
theorem derivativeN_fail (p : Array K) : Poly.derivativeN p (p.size + 1) = .error .unwrap := by
  obtain ⟨d, h1, h2, _⟩ := derivativeN_spec p p.size (le_refl _)
  have : d = #[] := Array.eq_empty_of_size_eq_zero (by omega)
  subst this
  simp [Poly.derivativeN, h1, bind, Except.bind, Poly.derivative]

/-- linearity of the model derivative (additivity), as an equality of coefficient arrays -/
theorem derivative_add (p q : Array K) (hp : p ≠ #[]) (hq : q ≠ #[]) :
    ∃ dp dq, Poly.derivative p = .ok dp ∧ Poly.derivative q = .ok dq ∧
      Poly.derivative (add p q) = .ok (add dp dq) := by
  have hp' := ne_empty_iff.mp hp
  have hq' := ne_empty_iff.mp hq
  have hpq : add p q ≠ #[] := ne_empty_iff.mpr (by rw [size_add p q hp' hq']; omega)
  obtain ⟨dp, a1, a2, a3⟩ := derivative_spec p hp
  obtain ⟨dq, b1, b2, b3⟩ := derivative_spec q hq
  obtain ⟨d, c1, c2, c3⟩ := derivative_spec _ hpq
  refine ⟨dp, dq, a1, b1, ?_⟩
  rw [c1]; congr 1
  apply toPoly_inj
  · rw [c2, size_add p q hp' hq']
    by_cases e1 : dp.size = 0
    · have : dp = #[] := Array.eq_empty_of_size_eq_zero e1
      subst this; rw [add_nil_left]; simp at a2; omega
    by_cases e2 : dq.size = 0
    · have : dq = #[] := Array.eq_empty_of_size_eq_zero e2
      subst this; rw [add_nil_right]; simp at b2; omega
    rw [size_add dp dq e1 e2]; omega
  · rw [c3, add_spec, add_spec, Polynomial.derivative_add, a3, b3]

/-- linearity of the model derivative (homogeneity) -/
theorem derivative_smul (p : Array K) (t : K) (hp : p ≠ #[]) :
    ∃ dp, Poly.derivative p = .ok dp ∧ Poly.derivative (smul p t) = .ok (smul dp t) := by
  have hp' := ne_empty_iff.mp hp
  have hpt : smul p t ≠ #[] := ne_empty_iff.mpr (by rw [size_smul]; exact hp')
  obtain ⟨dp, a1, a2, a3⟩ := derivative_spec p hp
  obtain ⟨d, c1, c2, c3⟩ := derivative_spec _ hpt
  refine ⟨dp, a1, ?_⟩
  rw [c1]; congr 1
  apply toPoly_inj
  · rw [c2, size_smul, size_smul, a2]
  · rw [c3, smul_spec, smul_spec, Polynomial.derivative_mul, derivative_C, a3]; simp

/-- product rule on the model, as an equality of coefficient arrays -/
theorem derivative_mul (p q : Array K) (hp : p ≠ #[]) (hq : q ≠ #[]) :
    ∃ dp dq, Poly.derivative p = .ok dp ∧ Poly.derivative q = .ok dq ∧
      Poly.derivative (mul p q) = .ok (add (mul dp q) (mul p dq)) := by
  have hp' := ne_empty_iff.mp hp
  have hq' := ne_empty_iff.mp hq
  have hsz := mul_size p q hp hq
  have hpq : mul p q ≠ #[] := ne_empty_iff.mpr (by rw [hsz]; omega)
  obtain ⟨dp, a1, a2, a3⟩ := derivative_spec p hp
  obtain ⟨dq, b1, b2, b3⟩ := derivative_spec q hq
  obtain ⟨d, c1, c2, c3⟩ := derivative_spec _ hpq
  refine ⟨dp, dq, a1, b1, ?_⟩
  rw [c1]; congr 1
  apply toPoly_inj
  · rw [c2, hsz]
    by_cases e1 : dp.size = 0
    · have : dp = #[] := Array.eq_empty_of_size_eq_zero e1
      subst this; rw [mul_nil_left, add_nil_left]
      by_cases e2 : dq.size = 0
      · have : dq = #[] := Array.eq_empty_of_size_eq_zero e2
        subst this; rw [mul_nil_right]; simp at a2 b2 ⊢; omega
      · rw [mul_size p dq hp (ne_empty_iff.mpr e2)]; simp at a2; omega
    have s1 := mul_size dp q (ne_empty_iff.mpr e1) hq
    by_cases e2 : dq.size = 0
    · have : dq = #[] := Array.eq_empty_of_size_eq_zero e2
      subst this; rw [mul_nil_right, add_nil_right, s1]; simp at b2; omega
    have s2 := mul_size p dq hp (ne_empty_iff.mpr e2)
    rw [size_add _ _ (by omega) (by omega), s1, s2]; omega
  · rw [c3, add_spec, mul_spec, mul_spec, mul_spec, Polynomial.derivative_mul, a3, b3]

/-- 5. `eval` is additive -/
theorem eval_add (p q : Array K) (x : K) (hp : p ≠ #[]) (hq : q ≠ #[]) :
    ∃ a b, Poly.eval p x = .ok a ∧ Poly.eval q x = .ok b ∧
      Poly.eval (add p q) x = .ok (a + b) := by
  have hp' := ne_empty_iff.mp hp
  have hq' := ne_empty_iff.mp hq
  have hpq : add p q ≠ #[] := ne_empty_iff.mpr (by rw [size_add p q hp' hq']; omega)
  refine ⟨_, _, eval_spec p x hp, eval_spec q x hq, ?_⟩
  rw [eval_spec _ x hpq, add_spec, Polynomial.eval_add]

end Semi

section CommSemi
variable {K : Type} [CommSemiring K]

/-- `eval` is multiplicative (commutative coefficients) -/
theorem eval_mul (p q : Array K) (x : K) (hp : p ≠ #[]) (hq : q ≠ #[]) :
    ∃ a b, Poly.eval p x = .ok a ∧ Poly.eval q x = .ok b ∧
      Poly.eval (mul p q) x = .ok (a * b) := by
  have hsz := mul_size p q hp hq
  have hp' := ne_empty_iff.mp hp
  have hq' := ne_empty_iff.mp hq
  have hpq : mul p q ≠ #[] := ne_empty_iff.mpr (by rw [hsz]; omega)
  refine ⟨_, _, eval_spec p x hp, eval_spec q x hq, ?_⟩
  rw [eval_spec _ x hpq, mul_spec, Polynomial.eval_mul]

/-- over a commutative semiring `smul` is the Mathlib scalar action -/
theorem smul_spec' (p : Array K) (t : K) : toPoly (smul p t) = t • toPoly p := by
  rw [smul_spec, mul_comm, Polynomial.smul_eq_C_mul]

end CommSemi

section Rng
variable {K : Type} [Ring K]

theorem neg_spec (p : Array K) : toPoly (neg p) = - toPoly p := by
  ext k
  rw [coeff_neg, coeff_toPoly, coeff_toPoly]
  simp only [neg, Array.getElem?_map]
  cases p[k]? <;> simp

/-- `sub` is polynomial subtraction (`sub #[] q = neg q`) -/
theorem sub_spec (p q : Array K) : toPoly (sub p q) = toPoly p - toPoly q := by
  by_cases hp : p.size = 0
  · simp [sub, hp, toPoly_eq_of_size_zero hp, neg_spec]
  by_cases hq : q.size = 0
  · simp [sub, hp, hq, toPoly_eq_of_size_zero hq]
  ext k
  rw [coeff_sub, coeff_toPoly, coeff_toPoly, coeff_toPoly]
  simp only [sub, hp, hq, if_false, Array.getElem?_ofFn]
  by_cases h1 : k < p.size <;> by_cases h2 : k < q.size <;>
    simp [h1, h2]

theorem sub_size (p q : Array K) (hp : p ≠ #[]) (hq : q ≠ #[]) :
    (sub p q).size = max p.size q.size := by
  simp [sub, ne_empty_iff.mp hp, ne_empty_iff.mp hq]

theorem eval_sub (p q : Array K) (x : K) (hp : p ≠ #[]) (hq : q ≠ #[]) :
    ∃ a b, Poly.eval p x = .ok a ∧ Poly.eval q x = .ok b ∧
      Poly.eval (sub p q) x = .ok (a - b) := by
  have hp' := ne_empty_iff.mp hp
  have hpq : sub p q ≠ #[] := ne_empty_iff.mpr (by rw [sub_size p q hp hq]; omega)
  refine ⟨_, _, eval_spec p x hp, eval_spec q x hq, ?_⟩
  rw [eval_spec _ x hpq, sub_spec, Polynomial.eval_sub]

theorem eval_neg (p : Array K) (x : K) (hp : p ≠ #[]) :
    ∃ a, Poly.eval p x = .ok a ∧ Poly.eval (neg p) x = .ok (-a) := by
  have hn : neg p ≠ #[] := ne_empty_iff.mpr (by simpa [neg] using ne_empty_iff.mp hp)
  refine ⟨_, eval_spec p x hp, ?_⟩
  rw [eval_spec _ x hn, neg_spec, Polynomial.eval_neg]

/-- the model derivative commutes with subtraction, as an equality of coefficient arrays -/
theorem derivative_sub (p q : Array K) (hp : p ≠ #[]) (hq : q ≠ #[]) :
    ∃ dp dq, Poly.derivative p = .ok dp ∧ Poly.derivative q = .ok dq ∧
      Poly.derivative (sub p q) = .ok (sub dp dq) := by
  have hp' := ne_empty_iff.mp hp
  have hq' := ne_empty_iff.mp hq
  have hsz := sub_size p q hp hq
  have hpq : sub p q ≠ #[] := ne_empty_iff.mpr (by rw [hsz]; omega)
  obtain ⟨dp, a1, a2, a3⟩ := derivative_spec p hp
  obtain ⟨dq, b1, b2, b3⟩ := derivative_spec q hq
  obtain ⟨d, c1, c2, c3⟩ := derivative_spec _ hpq
  refine ⟨dp, dq, a1, b1, ?_⟩
  rw [c1]; congr 1
  apply toPoly_inj
  · rw [c2, hsz]
    by_cases e1 : dp.size = 0
    · have : (sub dp dq).size = dq.size := by simp [sub, e1, neg]
      rw [this]; omega
    by_cases e2 : dq.size = 0
    · have : (sub dp dq).size = dp.size := by simp [sub, e1, e2]
      rw [this]; omega
    rw [sub_size dp dq (ne_empty_iff.mpr e1) (ne_empty_iff.mpr e2)]; omega
  · rw [c3, sub_spec, sub_spec, Polynomial.derivative_sub, a3, b3]

/-- non-vacuity / sanity: `(1 + x)² ` and its derivative, computed by the model over `ℤ` -/
example : mul (#[1, 1] : Array ℤ) #[1, 1] = #[1, 2, 1] ∧
    Poly.derivative (#[1, 2, 1] : Array ℤ) = .ok #[2, 2] ∧
    Poly.eval (#[1, 2, 1] : Array ℤ) 3 = .ok 16 := by decide

end Rng

end Ohsl.Props.C11
