/-
  Property C11 (part G) — the rounding statements about `derivative` of C11F, linked to Mathlib.

  C11F states the rounding of `Poly.derivative` / `Poly.derivativeAt · · 1` against explicit real
  expressions: the termwise product `(i+1)·a_{i+1}` and the local sum
  `exactDeriv p x = Σ_{i < n} (i+1)·a_{i+1}·xⁱ`.  Unlike `exactEval` and `exactConv`
  (`exactEval_eq_toPoly`, `exactConv_eq_toPoly`) these were not tied to `Polynomial.derivative`.
  Here: with `P = toPoly (p.map Fl.val)` the exact real polynomial denoted by the coefficients
  (`Ohsl.PolyAlg.toPoly`, the interpretation used by `derivative_spec` in C11P),

  * `coeff_derivative_toPoly`   `(i+1)·a_{i+1}` is coefficient `i` of `Polynomial.derivative P`;
  * `exactDeriv_eq_toPoly`      `exactDeriv p x = (Polynomial.derivative P).eval x`;
  * `absDeriv_eq_toPoly`        `absDeriv p x = Σ_{i<n} |(P').coeff i|·|x|ⁱ`;
  * `derivative_rounding_toPoly`, `derivative_rounding_rep_toPoly`  C11F's `derivative_rounding`
    (`…_rep`) restated: coefficient `i` of the computed derivative has relative error `≤ gam (i+1)`
    (`gam i` for representable coefficients) w.r.t. coefficient `i` of `Polynomial.derivative P`;
  * `derivativeAt_one_rounding_toPoly`  C11F's `derivativeAt_one_rounding` against
    `(Polynomial.derivative P).eval x`;
  * `derivative_exact_of_no_rounding`  consistency with the exact statement `derivative_spec`:
    without rounding (`u = 0`, `FlModel.exact`) the computed derivative
    denotes `Polynomial.derivative P`.
-/
import Ohsl.Props.C11F
set_option linter.unusedSectionVars false
set_option linter.unusedVariables false
namespace Ohsl.Props.C11
open Ohsl Ohsl.Poly Ohsl.PolyAlg

section RoundingG
variable {M : FlModel}
open Fl

/-- coefficient `i` of the Mathlib derivative of the exact real polynomial denoted by `p` is the
termwise expression `(i+1)·a_{i+1}` that C11F's `derivative_rounding` compares with -/
theorem coeff_derivative_toPoly (p : Array (Fl M)) (i : Nat) :
    (Polynomial.derivative (toPoly (p.map Fl.val))).coeff i = ((i : ℝ) + 1) * coef p (i + 1) := by
  rw [Polynomial.coeff_derivative, coeff_toPoly, coef_eq_map]
  ring

/-- **`exactDeriv` is the value of the Mathlib derivative** of the exact real polynomial denoted
by the coefficients (cf. `exactEval_eq_toPoly`, and `derivative_spec` in C11P) -/
theorem exactDeriv_eq_toPoly (p : Array (Fl M)) (x : Fl M) :
    exactDeriv p x = (Polynomial.derivative (toPoly (p.map Fl.val))).eval x.val := by
  unfold exactDeriv toPoly
  rw [Polynomial.derivative_sum, Polynomial.eval_finsetSum, Array.size_map]
  cases hn : p.size with
  | zero => simp
  | succ m =>
    rw [Finset.sum_range_succ']
    simp only [Polynomial.derivative_C_mul_X_pow, Polynomial.eval_mul, Polynomial.eval_C,
      Polynomial.eval_pow, Polynomial.eval_X, Nat.add_sub_cancel, Nat.cast_zero, mul_zero,
      zero_mul, add_zero, Nat.cast_add, Nat.cast_one]
    apply Finset.sum_congr rfl
    intro i _
    rw [coef_eq_map]
    ring

/-- the companion majorant `absDeriv` in terms of the coefficients of the Mathlib derivative -/
theorem absDeriv_eq_toPoly (p : Array (Fl M)) (x : Fl M) :
    absDeriv p x = ∑ i ∈ Finset.range (p.size - 1),
      |(Polynomial.derivative (toPoly (p.map Fl.val))).coeff i| * |x.val| ^ i := by
  unfold absDeriv
  apply Finset.sum_congr rfl
  intro i _
  rw [coeff_derivative_toPoly]

/-- **`derivative_rounding` against `Polynomial.derivative`**: `Poly.derivative p` succeeds on a
non-empty `p`, and coefficient `i` of the polynomial denoted by the computed coefficients differs
from coefficient `i` of the Mathlib derivative of the polynomial denoted by `p` by a relative error
`≤ gam (i+1)` (`i + 1` rounded additions). -/
theorem derivative_rounding_toPoly (p : Array (Fl M)) (h : p ≠ #[]) :
    ∃ d, Poly.derivative p = .ok d ∧ d.size = p.size - 1 ∧
      ∀ i, |(toPoly (d.map Fl.val)).coeff i
              - (Polynomial.derivative (toPoly (p.map Fl.val))).coeff i|
          ≤ M.gam (i + 1) * |(Polynomial.derivative (toPoly (p.map Fl.val))).coeff i| := by
  obtain ⟨d, hd, hs, hb⟩ := derivative_rounding p h
  refine ⟨d, hd, hs, fun i => ?_⟩
  rw [coeff_derivative_toPoly, coeff_toPoly, coef_eq_map]
  exact hb i

/-- … `gam i` when the coefficients are representable (`derivative_rounding_rep`) -/
theorem derivative_rounding_rep_toPoly (p : Array (Fl M)) (h : p ≠ #[])
    (hrep : ∀ i, M.Rep (coef p i)) :
    ∃ d, Poly.derivative p = .ok d ∧ d.size = p.size - 1 ∧
      ∀ i, |(toPoly (d.map Fl.val)).coeff i
              - (Polynomial.derivative (toPoly (p.map Fl.val))).coeff i|
          ≤ M.gam i * |(Polynomial.derivative (toPoly (p.map Fl.val))).coeff i| := by
  obtain ⟨d, hd, hs, hb⟩ := derivative_rounding_rep p h hrep
  refine ⟨d, hd, hs, fun i => ?_⟩
  rw [coeff_derivative_toPoly, coeff_toPoly, coef_eq_map]
  exact hb i

/-- **`derivativeAt_one_rounding` against `Polynomial.derivative`**: the computed first derivative
at `x` differs from the value of the Mathlib derivative by at most
`gam (2(n−1) + n) · Σ_{i<n} |(P').coeff i|·|x|ⁱ`, `n = p.size − 1` the degree. -/
theorem derivativeAt_one_rounding_toPoly (p : Array (Fl M)) (x : Fl M) (h : 2 ≤ p.size) :
    ∃ r, Poly.derivativeAt p x 1 = .ok r ∧
      |r.val - (Polynomial.derivative (toPoly (p.map Fl.val))).eval x.val|
        ≤ M.gam (2 * (p.size - 2) + (p.size - 1)) *
          ∑ i ∈ Finset.range (p.size - 1),
            |(Polynomial.derivative (toPoly (p.map Fl.val))).coeff i| * |x.val| ^ i := by
  obtain ⟨r, hr, hb⟩ := derivativeAt_one_rounding p x h
  refine ⟨r, hr, ?_⟩
  rw [← exactDeriv_eq_toPoly, ← absDeriv_eq_toPoly]
  exact hb

/-- consistency with the exact statement (`derivative_spec`, C11P): without rounding (`u = 0`, e.g.
`FlModel.exact`) the computed derivative denotes exactly `Polynomial.derivative P` -/
theorem derivative_exact_of_no_rounding (p : Array (Fl M)) (h : p ≠ #[]) (hu : M.u = 0) :
    ∃ d, Poly.derivative p = .ok d ∧
      toPoly (d.map Fl.val) = Polynomial.derivative (toPoly (p.map Fl.val)) := by
  obtain ⟨d, hd, _, hb⟩ := derivative_rounding_toPoly p h
  refine ⟨d, hd, ?_⟩
  ext i
  have := hb i
  have h0 : M.gam (i + 1) = 0 := by simp [FlModel.gam, hu]
  rw [h0, zero_mul] at this
  exact sub_eq_zero.1 (abs_nonpos_iff.1 this)

/-- the hypothesis `u = 0` is satisfiable -/
example : (FlModel.exact).u = 0 := rfl

end RoundingG

end Ohsl.Props.C11
