/-
  Property C12 (part E) — the NUMBER OF ITERATIONS of the polynomial long division of the model
  (`Ohsl/Model/Poly.lean`: `divStep`, `divLoop`, `polydiv`) and the sharpness of the iteration cap.

  The model's loop carries the counter `count` of the Rust code but does not return it.  `divLoopC` /
  `polydivC` below are the SAME loop returning the final value of the counter as well
  (`divLoopC_erase`, `polydivC_erase`: forgetting the counter gives back `divLoop` / `polydiv`,
  for any scalar type).  `Run v m q r q' r'` (C12F) is the run of `m` iterations as a relation.

  (S) any scalar type, arbitrary operations:
  * `divLoopC_of_run`, `polydivC_of_run`, `divLoop_of_run`  a run of `m` iterations that ends in the
    exit condition is what the loop performs: the counter ends at `count + m`, and the error is
    reported exactly when `count + m > 1000` (the counter is then `1001`);
  * `run_steps_le`   `m ≤ r.size + 1 − v.size` (`0` for a zero remainder);
  * `run_size_drop`  after `m` iterations the remainder has at most `max 1 (r.size − m)` coefficients:
    every iteration removes at least one;
  * `run_exists`     the run to the exit condition exists when the leading division does not panic;
  * `polydiv_steps_zero`, `polydiv_steps_le`.
  (E) a field whose `==` is lawful and whose `divM` is the guarded field division (`Alg.DivLaw`:
      ordered fields with `Alg.scalarExt`, the executable `Rat`, the model's `Cx ℝ`), divisor with
      non-zero last coefficient:
  * `run_spec`, `run_quotient`  every iteration at a non-zero leading coefficient contributes one
    non-zero coefficient to the quotient, at strictly decreasing positions;
  * `polydiv_steps_exact`  the counter ends at `min 1001 (divSteps u v)` where
    `divSteps u v = #{non-zero coefficients of toPoly u / toPoly v}` `+ 1` if the dividend is stored
    with a zero last coefficient (un-trimmed; that first iteration only trims), and the result is
    `none` exactly when `divSteps u v > 1000` (`polydiv_eq_of_steps`, `polydiv_none_iff`);
  * `divSteps_le`, `divSteps_eq_zero`, `divSteps_eq_bound_iff` (the bound `u.size − v.size + 1` is
    attained exactly when no coefficient of the quotient vanishes);
  * `polydiv_cap_reached` the cap IS reached: `(1 + x + … + x^1000) / 1` is reported as an error
    although `q = u`, `r = 0` solves `u = q·v + r`; with 1000 coefficients it succeeds
    (`polydiv_cap_not_reached`, `polydiv_ones_none_iff`); `polydiv_cap_reached_of_divisor`: the same
    for EVERY divisor `v` with a dividend of `v.size + 1000` coefficients — the hypothesis
    `u.size < v.size + 1000` of `polydiv_terminates_of_lead` / `polydiv_total` is sharp.
-/
import Ohsl.Props.C12F
import Ohsl.Lemmas.C12E
set_option linter.unusedSectionVars false
set_option linter.unusedVariables false
namespace Ohsl.Props.C12
open Ohsl Ohsl.Poly Ohsl.PolyDiv

/-! ### the loop with its counter exposed (any scalar type) -/

section Structural
variable {K : Type} [Add K] [Sub K] [Mul K] [Neg K] [Zero K] [One K] [BEq K] [ScalarExt K]

/-- `Poly.divLoop`, returning the final value of the iteration counter too (same control flow) -/
def divLoopC (v : Array K) :
    Nat → Nat → Array K → Array K → Res (Nat × Option (Array K × Array K))
  | 0, count, _, _ => .ok (count, none)
  | fuel + 1, count, q, r =>
    if !(isZero r) && decide (r.size ≥ v.size) then do
      let (q, r) ← divStep v q r
      if count + 1 > 1000 then .ok (count + 1, none)
      else divLoopC v fuel (count + 1) q r
    else .ok (count, some (q, r))

/-- `Poly.polydiv`, returning the number of iterations performed too -/
def polydivC (u v : Array K) : Res (Nat × Option (Array K × Array K)) :=
  if v.size = 0 then .ok (0, none)
  else if isZero v then .ok (0, none)
  else divLoopC v 1002 0 #[] u

/-- forgetting the counter gives the model's loop -/
theorem divLoopC_erase (v : Array K) : ∀ (fuel count : Nat) (q r : Array K),
    (divLoopC v fuel count q r).map Prod.snd = divLoop v fuel count q r := by
  intro fuel
  induction fuel with
  | zero => intro count q r; rfl
  | succ fuel ih =>
    intro count q r
    unfold divLoopC divLoop
    split
    · cases hd : divStep v q r with
      | error e => rfl
      | ok p =>
        obtain ⟨q1, r1⟩ := p
        simp only [bind, Except.bind]
        split
        · rfl
        · exact ih (count + 1) q1 r1
    · rfl

/-- forgetting the counter gives the model's `polydiv` -/
theorem polydivC_erase (u v : Array K) : (polydivC u v).map Prod.snd = polydiv u v := by
  unfold polydivC polydiv
  split
  · rfl
  · split
    · rfl
    · exact divLoopC_erase v 1002 0 #[] u

/-- **the counter counts the iterations of the run.**  If `m` iterations lead from `(q, r)` to a state
`(q', r')` satisfying the exit condition, the loop started with counter `count ≤ 1000` (and the fuel
of `polydiv`) ends with counter `count + m` and returns `(q', r')` — unless `count + m > 1000`, in which
case it stops at counter `1001` with the error result. -/
theorem divLoopC_of_run (v : Array K) {m : Nat} {q r q' r' : Array K} (h : Run v m q r q' r')
    (hex : isZero r' = true ∨ r'.size < v.size) :
    ∀ (fuel count : Nat), count ≤ 1000 → 1002 ≤ fuel + count →
      divLoopC v fuel count q r =
        .ok (if count + m ≤ 1000 then (count + m, some (q', r')) else (1001, none)) := by
  induction h with
  | done q r =>
    intro fuel count hc hf
    obtain ⟨fuel, rfl⟩ : ∃ f, fuel = f + 1 := ⟨fuel - 1, by omega⟩
    unfold divLoopC
    have hg : ¬ ((!(isZero r) && decide (r.size ≥ v.size)) = true) := by
      rcases hex with h | h
      · simp [h]
      · simp; intro _; omega
    rw [if_neg hg, if_pos (by omega)]; rfl
  | @step m q r q1 r1 q' r' hr hz hstep hrun ih =>
    intro fuel count hc hf
    obtain ⟨fuel, rfl⟩ : ∃ f, fuel = f + 1 := ⟨fuel - 1, by omega⟩
    unfold divLoopC
    have hg : (!(isZero r) && decide (r.size ≥ v.size)) = true := by simp [hz, hr]
    rw [if_pos hg, hstep]
    simp only [bind, Except.bind]
    by_cases hcap : count + 1 > 1000
    · rw [if_pos hcap, if_neg (by omega)]
      have : count + 1 = 1001 := by omega
      rw [this]
    · rw [if_neg hcap, ih hex fuel (count + 1) (by omega) (by omega)]
      have e : count + 1 + m = count + (m + 1) := by omega
      rw [e]

/-- the same for the model's loop itself: started with counter `count`, it reports the error exactly
when `count + m > 1000` — the number of iterations `m` is observable through the model alone -/
theorem divLoop_of_run (v : Array K) {m : Nat} {q r q' r' : Array K} (h : Run v m q r q' r')
    (hex : isZero r' = true ∨ r'.size < v.size) (fuel count : Nat) (hc : count ≤ 1000)
    (hf : 1002 ≤ fuel + count) :
    divLoop v fuel count q r = .ok (if count + m ≤ 1000 then some (q', r') else none) := by
  rw [← divLoopC_erase, divLoopC_of_run v h hex fuel count hc hf]
  split <;> rfl

theorem polydivC_of_run (u v : Array K) (hv : v.size ≠ 0) (hz : isZero v = false) {m : Nat}
    {q r : Array K} (h : Run v m #[] u q r) (hex : isZero r = true ∨ r.size < v.size) :
    polydivC u v = .ok (if m ≤ 1000 then (m, some (q, r)) else (1001, none)) := by
  unfold polydivC
  rw [if_neg hv, hz]
  simp only [Bool.false_eq_true, if_false]
  rw [divLoopC_of_run v h hex 1002 0 (by omega) (by omega)]
  simp only [Nat.zero_add]

/-- a run is determined by its start: number of iterations and final state -/
theorem run_unique (v : Array K) {m m' : Nat} {q r q1 r1 q2 r2 : Array K}
    (h1 : Run v m q r q1 r1) (hex1 : isZero r1 = true ∨ r1.size < v.size)
    (h2 : Run v m' q r q2 r2) (hex2 : isZero r2 = true ∨ r2.size < v.size) :
    m = m' ∧ q1 = q2 ∧ r1 = r2 := by
  induction h1 generalizing m' with
  | done q r =>
    cases h2 with
    | done => exact ⟨rfl, rfl, rfl⟩
    | step hr hz _ _ =>
      rcases hex1 with h | h
      · rw [hz] at h; cases h
      · omega
  | @step m q r qa ra q1 r1 hr hz hstep hrun ih =>
    cases h2 with
    | done =>
      rcases hex2 with h | h
      · rw [hz] at h; cases h
      · omega
    | @step m'' _ _ qb rb _ _ hr' hz' hstep' hrun' =>
      rw [hstep] at hstep'
      simp only [Except.ok.injEq, Prod.mk.injEq] at hstep'
      obtain ⟨rfl, rfl⟩ := hstep'
      obtain ⟨e, e1, e2⟩ := ih hex1 hrun'
      exact ⟨by omega, e1, e2⟩

/-- **every iteration shortens the remainder**: the number of iterations of a run from `r` is at most
`r.size + 1 − v.size`, and `0` for a zero remainder -/
theorem run_steps_le (v : Array K) (hv : 1 ≤ v.size) (h00 : ((0 : K) == 0) = true) {m : Nat}
    {q r q' r' : Array K} (h : Run v m q r q' r') :
    m ≤ (if isZero r then 0 else r.size + 1 - v.size) := by
  induction h with
  | done q r => exact Nat.zero_le _
  | @step m q r q1 r1 q' r' hr hz hstep hrun ih =>
    obtain ⟨c, hc, hq1, hr1⟩ := divStep_ok v q r q1 r1 hv hr hstep
    have hsz : r1.size ≤ max 1 (r.size - 1) := by
      rw [hr1]; exact stepR_size_le v r c h00 hv hr
    rw [hz]
    simp only [Bool.false_eq_true, if_false]
    by_cases h1 : r.size = 1
    · have hz1 : isZero r1 = true := by
        rw [hr1, stepR_single v r c hv hr h1]
        simpa [isZero] using h00
      rw [hz1] at ih
      simp only [if_true] at ih
      omega
    · split at ih <;> omega

/-- after `m` iterations the remainder has lost at least `m` coefficients (it never drops below a
single coefficient: the last step leaves the zero polynomial `[0]`) -/
theorem run_size_drop (v : Array K) (hv : 1 ≤ v.size) (h00 : ((0 : K) == 0) = true) {m : Nat}
    {q r q' r' : Array K} (h : Run v m q r q' r') : r'.size ≤ max 1 (r.size - m) := by
  induction h with
  | done q r => omega
  | @step m q r q1 r1 q' r' hr hz hstep hrun ih =>
    obtain ⟨c, hc, hq1, hr1⟩ := divStep_ok v q r q1 r1 hv hr hstep
    have hsz : r1.size ≤ max 1 (r.size - 1) := by
      rw [hr1]; exact stepR_size_le v r c h00 hv hr
    omega

/-- the run to the exit condition exists as soon as the division by the leading coefficient of the
divisor does not panic (no cap here: `Run` is the un-capped loop) -/
theorem run_exists (v : Array K) (hv : 1 ≤ v.size) (h00 : ((0 : K) == 0) = true)
    (hdiv : ∀ a lv : K, v[v.size - 1]? = some lv → ∃ c, divM a lv = .ok c) :
    ∀ (n : Nat) (q r : Array K), (if isZero r then 0 else r.size + 1 - v.size) ≤ n →
      ∃ m q' r', Run v m q r q' r' ∧ (isZero r' = true ∨ r'.size < v.size) := by
  intro n
  induction n with
  | zero =>
    intro q r hn
    refine ⟨0, q, r, Run.done q r, ?_⟩
    by_cases hz : isZero r = true
    · exact Or.inl hz
    · have hz' : isZero r = false := by simpa using hz
      rw [hz'] at hn
      simp only [Bool.false_eq_true, if_false] at hn
      right; omega
  | succ n ih =>
    intro q r hn
    by_cases hz : isZero r = true
    · exact ⟨0, q, r, Run.done q r, Or.inl hz⟩
    · have hz' : isZero r = false := by simpa using hz
      by_cases hs : v.size ≤ r.size
      · obtain ⟨q1, r1, hstep, hle, hpos, _, hone⟩ := divStep_size v q r hs hv h00 hdiv
        rw [hz'] at hn
        simp only [Bool.false_eq_true, if_false] at hn
        have hpot : (if isZero r1 then 0 else r1.size + 1 - v.size) ≤ n := by
          by_cases h1 : r.size = 1
          · simp [hone h1]
          · split <;> omega
        obtain ⟨m, q', r', hrun, hex⟩ := ih q1 r1 hpot
        exact ⟨m + 1, q', r', Run.step hs hz' hstep hrun, hex⟩
      · exact ⟨0, q, r, Run.done q r, Or.inr (by omega)⟩

/-- **no iteration** when the dividend is zero (or empty) or shorter than the divisor: the counter
ends at `0`, the quotient is empty and the remainder is the dividend -/
theorem polydiv_steps_zero (u v : Array K) (hv : v.size ≠ 0) (hz : isZero v = false)
    (hu : isZero u = true ∨ u.size < v.size) : polydivC u v = .ok (0, some (#[], u)) := by
  have := polydivC_of_run u v hv hz (Run.done #[] u) hu
  simpa using this

/-- **bound on the number of iterations**, any scalar type: the loop never panics, and its counter
ends at a value `n ≤ u.size + 1 − v.size` (i.e. `≤ u.size − v.size + 1` when `v.size ≤ u.size`), `n ≤ 1001`;
the result is `none` exactly when `n = 1001`. -/
theorem polydiv_steps_le (u v : Array K) (hv : v.size ≥ 1) (hz : isZero v = false)
    (h00 : ((0 : K) == 0) = true)
    (hdiv : ∀ a lv : K, v[v.size - 1]? = some lv → ∃ c, divM a lv = .ok c) :
    ∃ n res, polydivC u v = .ok (n, res) ∧ n ≤ u.size + 1 - v.size ∧ n ≤ 1001 ∧
      (isZero u = true → n = 0) ∧ (res = none ↔ n = 1001) := by
  obtain ⟨m, q, r, hrun, hex⟩ := run_exists v hv h00 hdiv _ #[] u (le_refl _)
  have hm := run_steps_le v hv h00 hrun
  have hpc := polydivC_of_run u v (by omega) hz hrun hex
  have hm' : m ≤ u.size + 1 - v.size := by split at hm <;> omega
  have hm0 : isZero u = true → m = 0 := by intro h; rw [h] at hm; simpa using hm
  by_cases hcap : m ≤ 1000
  · rw [if_pos hcap] at hpc
    exact ⟨m, some (q, r), hpc, hm', by omega, hm0, by simp; omega⟩
  · rw [if_neg hcap] at hpc
    exact ⟨1001, none, hpc, by omega, le_refl _, fun h => by have := hm0 h; omega, by simp⟩

end Structural

/-! ### the exact number of iterations over a field -/

section Exact
open Polynomial Ohsl.PolyDivE
variable {K : Type} [Field K] [BEq K] [LawfulBEq K] [ScalarExt K] [Alg.DivLaw K]

/-- consequences of a non-zero last coefficient of the divisor -/
theorem lead_facts (v : Array K) (hlead : v[v.size - 1]?.getD 0 ≠ 0) :
    ∃ hv : 1 ≤ v.size, v[v.size - 1]'(by omega) ≠ 0 ∧ isZero v = false ∧ toPoly v ≠ 0 ∧
      (∀ a lv : K, v[v.size - 1]? = some lv → ∃ c, divM a lv = .ok c) := by
  have hv : 1 ≤ v.size := by
    by_contra hc
    have : v.size = 0 := by omega
    apply hlead; simp [this]
  have hlv : v[v.size - 1]'(by omega) ≠ 0 := by
    rw [Array.getElem?_eq_getElem (by omega)] at hlead; simpa using hlead
  have hne : toPoly v ≠ 0 := by
    intro e; apply hlead; rw [← coeff_toPoly, e, coeff_zero]
  refine ⟨hv, hlv, (isZero_false_iff v).2 hne, hne, ?_⟩
  intro a lv hl
  have : lv ≠ 0 := by rw [hl] at hlead; simpa using hlead
  exact ⟨a / lv, Alg.divM_law_ne this⟩

/-- a successful step in closed form -/
theorem divStep_closed (v q r q1 r1 : Array K) (hv : 1 ≤ v.size) (hr : v.size ≤ r.size)
    (hlv : v[v.size - 1]'(by omega) ≠ 0) (h : divStep v q r = .ok (q1, r1)) :
    q1 = trimA (stepQ0 v q r (r[r.size - 1]'(by omega) / v[v.size - 1]'(by omega))) ∧
    r1 = trimA (stepR0 v r (r[r.size - 1]'(by omega) / v[v.size - 1]'(by omega))) := by
  rw [divStep_ok_of_lead v q r hv hr hlv] at h
  simp only [Except.ok.injEq, Prod.mk.injEq] at h
  exact ⟨h.1.symm, h.2.symm⟩

/-- a run preserves `q·v + r` -/
theorem run_spec (v : Array K) (hv : 1 ≤ v.size) (hlv : v[v.size - 1]'(by omega) ≠ 0) {m : Nat}
    {q r q' r' : Array K} (h : Run v m q r q' r') :
    toPoly q' * toPoly v + toPoly r' = toPoly q * toPoly v + toPoly r := by
  induction h with
  | done q r => rfl
  | @step m q r q1 r1 q' r' hr hz hstep hrun ih =>
    obtain ⟨rfl, rfl⟩ := divStep_closed v q r q1 r1 hv hr hlv hstep
    rw [ih, PolyDivE.toPoly_trimA, PolyDivE.toPoly_trimA, PolyDivE.toPoly_stepQ0, PolyDivE.toPoly_stepR0 v r hv hr hlv]
    ring

/-- **one non-zero quotient coefficient per iteration.**  From a remainder that is zero or has a
non-zero last coefficient (every remainder after the first step is of this kind), a run of `m`
iterations adds to the quotient a polynomial `D` with exactly `m` non-zero coefficients, all at
positions `j ≤ r.size − v.size`. -/
theorem run_quotient (v : Array K) (hv : 1 ≤ v.size) (hlv : v[v.size - 1]'(by omega) ≠ 0) {m : Nat}
    {q r q' r' : Array K} (h : Run v m q r q' r')
    (hn : isZero r = true ∨ r[r.size - 1]?.getD 0 ≠ 0) :
    ∃ D : Polynomial K, toPoly q' = toPoly q + D ∧ D.support.card = m ∧
      ∀ j, D.coeff j ≠ 0 → j + v.size ≤ r.size := by
  have h00 : ((0 : K) == 0) = true := by simp
  induction h with
  | done q r => exact ⟨0, by simp, by simp, by simp⟩
  | @step m q r q1 r1 q' r' hr hz hstep hrun ih =>
    have hlr : r[r.size - 1]'(by omega) ≠ 0 := by
      rcases hn with hn | hn
      · rw [hz] at hn; cases hn
      · rw [Array.getElem?_eq_getElem (by omega)] at hn; simpa using hn
    obtain ⟨hq1, hr1⟩ := divStep_closed v q r q1 r1 hv hr hlv hstep
    set c := r[r.size - 1]'(by omega) / v[v.size - 1]'(by omega) with hc
    have hc0 : c ≠ 0 := div_ne_zero hlr hlv
    set k := r.size - 1 - (v.size - 1) with hk
    have hs0 : (stepR0 v r c).size = r.size := stepR0_size v r c hv hr
    have hnorm : isZero r1 = true ∨ r1[r1.size - 1]?.getD 0 ≠ 0 := by
      rw [hr1]; exact trimA_normal _ (by rw [hs0]; omega)
    obtain ⟨D1, hD1, hcard, hbound⟩ := ih hnorm
    have hszle : r1.size ≤ max 1 (r.size - 1) := by
      rw [hr1]; exact stepR_size_le v r c h00 hv hr
    have hszle' : r1.size ≤ r.size := by
      rw [hr1, ← hs0]; exact trimA_size_le _
    have hDk : D1.coeff k = 0 := by
      by_contra hne
      have h1 := hbound k hne
      have hr1' : r.size = 1 := by omega
      have hz1 : isZero r1 = true := by
        rw [hr1, stepR_single v r c hv hr hr1']
        simp [isZero]
      obtain ⟨hm0, _, _⟩ := run_of_isZero v hrun hz1
      rw [hm0, Finset.card_eq_zero, support_eq_empty] at hcard
      rw [hcard, coeff_zero] at hne
      exact hne rfl
    have hq1p : toPoly q1 = toPoly q + C c * X ^ k := by
      rw [hq1, PolyDivE.toPoly_trimA, PolyDivE.toPoly_stepQ0]
    refine ⟨C c * X ^ k + D1, by rw [hD1, hq1p, add_assoc], ?_, ?_⟩
    · have hsupp : (C c * X ^ k + D1).support = insert k D1.support := by
        ext j
        simp only [mem_support_iff, coeff_add, coeff_C_mul_X_pow, Finset.mem_insert]
        by_cases hj : j = k
        · subst hj; simp [hDk, hc0]
        · simp [hj]
      rw [hsupp, Finset.card_insert_of_notMem (by simp [mem_support_iff, hDk]), hcard]
    · intro j hj
      rw [coeff_add, coeff_C_mul_X_pow] at hj
      by_cases hjk : j = k
      · omega
      · rw [if_neg hjk, zero_add] at hj
        have := hbound j hj
        omega

/-- **the predicted number of iterations**: the number of non-zero coefficients of the Euclidean
quotient, plus one if a non-zero dividend at least as long as the divisor is stored with a zero
last coefficient (the first iteration then only trims it) -/
noncomputable def divSteps (u v : Array K) : Nat :=
  (toPoly u / toPoly v).support.card +
    (if (!(isZero u) && decide (v.size ≤ u.size) && (u[u.size - 1]?.getD 0 == 0)) = true
      then 1 else 0)

/-- a complete run computes Mathlib's quotient and remainder and takes `divSteps u v` iterations -/
theorem run_count_exact (u v : Array K) (hlead : v[v.size - 1]?.getD 0 ≠ 0) {m : Nat}
    {q r : Array K} (h : Run v m #[] u q r) (hex : isZero r = true ∨ r.size < v.size) :
    m = divSteps u v ∧ toPoly q = toPoly u / toPoly v ∧ toPoly r = toPoly u % toPoly v := by
  obtain ⟨hv, hlv, hzv, hv0, _⟩ := lead_facts v hlead
  have h00 : ((0 : K) == 0) = true := by simp
  have hspec := run_spec v hv hlv h
  rw [toPoly_empty, zero_mul, zero_add] at hspec
  have hdeg : (toPoly r).degree < (toPoly v).degree := by
    rcases hex with h2 | h2
    · rw [(isZero_iff r).1 h2, degree_zero]
      exact bot_lt_iff_ne_bot.2 (fun e => hv0 (degree_eq_bot.1 e))
    · calc (toPoly r).degree < (r.size : WithBot ℕ) := degree_toPoly_lt r
        _ ≤ ((v.size - 1 : ℕ) : WithBot ℕ) := by exact_mod_cast (by omega : r.size ≤ v.size - 1)
        _ ≤ _ := le_degree_toPoly v hlead
  obtain ⟨hq, hr⟩ := div_mod_unique _ _ _ _ hv0 hspec.symm hdeg
  refine ⟨?_, hq, hr⟩
  unfold divSteps
  rw [← hq]
  by_cases hzu : isZero u = true
  · -- zero dividend: no iteration
    obtain ⟨hm0, hq0, _⟩ := run_of_isZero v h hzu
    rw [hm0, hq0, toPoly_empty, hzu]
    simp
  · have hzu' : isZero u = false := by simpa using hzu
    by_cases hlu : u[u.size - 1]?.getD 0 = 0
    · -- un-trimmed dividend
      cases h with
      | done =>
        have hlt : ¬ v.size ≤ u.size := by
          rcases hex with h2 | h2
          · rw [hzu'] at h2; cases h2
          · omega
        simp [hlt]
      | @step m' _ _ q1 r1 _ _ hr' hz' hstep hrun =>
        obtain ⟨hq1, hr1⟩ := divStep_closed v #[] u q1 r1 hv hr' hlv hstep
        have hc : u[u.size - 1]'(by omega) / v[v.size - 1]'(by omega) = 0 := by
          rw [Array.getElem?_eq_getElem (by omega)] at hlu
          simp only [Option.getD_some] at hlu
          rw [hlu, zero_div]
        rw [hc] at hq1 hr1
        have hs0 : (stepR0 v u (0 : K)).size = u.size := stepR0_size v u 0 hv hr'
        have hnorm : isZero r1 = true ∨ r1[r1.size - 1]?.getD 0 ≠ 0 := by
          rw [hr1]; exact trimA_normal _ (by rw [hs0]; omega)
        obtain ⟨D, hD, hcard, _⟩ := run_quotient v hv hlv hrun hnorm
        have hq1p : toPoly q1 = 0 := by
          rw [hq1, PolyDivE.toPoly_trimA, PolyDivE.toPoly_stepQ0]; simp
        rw [hq1p, zero_add] at hD
        rw [hD, hcard, hzu']
        simp [hr', hlu]
    · -- trimmed dividend
      obtain ⟨D, hD, hcard, _⟩ := run_quotient v hv hlv h (Or.inr hlu)
      rw [toPoly_empty, zero_add] at hD
      rw [hD, hcard]
      have : (u[u.size - 1]?.getD 0 == 0) = false := by simpa using hlu
      simp [this]

/-- **`polydiv_steps_exact`: the exact number of loop iterations over a field.**  For a divisor with
non-zero last coefficient the loop never panics; its counter ends at `divSteps u v` and it returns
Mathlib's Euclidean quotient and remainder — unless `divSteps u v > 1000`, in which case the counter
stops at `1001` and the error result `none` is returned. -/
theorem polydiv_steps_exact (u v : Array K) (hlead : v[v.size - 1]?.getD 0 ≠ 0) :
    ∃ q r, toPoly q = toPoly u / toPoly v ∧ toPoly r = toPoly u % toPoly v ∧
      (isZero r = true ∨ r.size < v.size) ∧
      polydivC u v =
        .ok (if divSteps u v ≤ 1000 then (divSteps u v, some (q, r)) else (1001, none)) := by
  obtain ⟨hv, hlv, hzv, hv0, hdiv⟩ := lead_facts v hlead
  obtain ⟨m, q, r, hrun, hex⟩ := run_exists v hv (by simp) hdiv _ #[] u (le_refl _)
  obtain ⟨hm, hq, hr⟩ := run_count_exact u v hlead hrun hex
  refine ⟨q, r, hq, hr, hex, ?_⟩
  rw [← hm]
  exact polydivC_of_run u v (by omega) hzv hrun hex

/-- the model's `polydiv` in terms of the iteration count -/
theorem polydiv_eq_of_steps (u v : Array K) (hlead : v[v.size - 1]?.getD 0 ≠ 0) :
    ∃ q r, toPoly q = toPoly u / toPoly v ∧ toPoly r = toPoly u % toPoly v ∧
      polydiv u v = .ok (if divSteps u v ≤ 1000 then some (q, r) else none) := by
  obtain ⟨q, r, hq, hr, _, h⟩ := polydiv_steps_exact u v hlead
  refine ⟨q, r, hq, hr, ?_⟩
  rw [← polydivC_erase, h]
  split <;> rfl

/-- the model's loop started with counter `count` reports the error exactly when
`count + divSteps u v > 1000`: the iteration count is observable through `Poly.divLoop` alone -/
theorem divLoop_counter_exact (u v : Array K) (hlead : v[v.size - 1]?.getD 0 ≠ 0)
    (fuel count : Nat) (hc : count ≤ 1000) (hf : 1002 ≤ fuel + count) :
    (divLoop v fuel count #[] u = .ok none ↔ 1000 < count + divSteps u v) ∧
      ∃ res, divLoop v fuel count #[] u = .ok res := by
  obtain ⟨hv, hlv, hzv, hv0, hdiv⟩ := lead_facts v hlead
  obtain ⟨m, q, r, hrun, hex⟩ := run_exists v hv (by simp) hdiv _ #[] u (le_refl _)
  obtain ⟨hm, _, _⟩ := run_count_exact u v hlead hrun hex
  rw [divLoop_of_run v hrun hex fuel count hc hf, ← hm]
  refine ⟨?_, _, rfl⟩
  by_cases h : count + m ≤ 1000
  · rw [if_pos h]; simp; omega
  · rw [if_neg h]; simp; omega

/-- **the iteration error is reported exactly when more than 1000 iterations are needed** -/
theorem polydiv_none_iff (u v : Array K) (hlead : v[v.size - 1]?.getD 0 ≠ 0) :
    polydiv u v = .ok none ↔ 1000 < divSteps u v := by
  obtain ⟨q, r, _, _, h⟩ := polydiv_eq_of_steps u v hlead
  rw [h]
  by_cases hc : divSteps u v ≤ 1000
  · rw [if_pos hc]; simp; omega
  · rw [if_neg hc]; simp; omega

/-- `count ≤ u.size − v.size + 1` (for `v.size ≤ u.size`; in general `≤ u.size + 1 − v.size`) -/
theorem divSteps_le (u v : Array K) (hlead : v[v.size - 1]?.getD 0 ≠ 0) :
    divSteps u v ≤ u.size + 1 - v.size := by
  obtain ⟨hv, hlv, hzv, hv0, hdiv⟩ := lead_facts v hlead
  obtain ⟨m, q, r, hrun, hex⟩ := run_exists v hv (by simp) hdiv _ #[] u (le_refl _)
  obtain ⟨hm, _, _⟩ := run_count_exact u v hlead hrun hex
  have := run_steps_le v hv (by simp) hrun
  rw [← hm]
  split at this <;> omega

/-- `count = 0` when the dividend is zero (or empty) or shorter than the divisor -/
theorem divSteps_eq_zero (u v : Array K) (hlead : v[v.size - 1]?.getD 0 ≠ 0)
    (hu : isZero u = true ∨ u.size < v.size) : divSteps u v = 0 := by
  obtain ⟨hm, _, _⟩ := run_count_exact u v hlead (Run.done #[] u) hu
  exact hm.symm

/-- the position of every non-zero quotient coefficient is `≤ u.size − v.size` -/
theorem quotient_coeff_bound (u v : Array K) (hlead : v[v.size - 1]?.getD 0 ≠ 0) (j : Nat)
    (hj : (toPoly u / toPoly v).coeff j ≠ 0) : j + v.size ≤ u.size := by
  obtain ⟨hv, hlv, hzv, hv0, _⟩ := lead_facts v hlead
  by_contra hlt
  have hdiv0 : toPoly u / toPoly v ≠ 0 := fun e => by rw [e, coeff_zero] at hj; exact hj rfl
  have hle : (toPoly v).degree ≤ (toPoly u).degree := by
    by_contra hc
    exact hdiv0 ((Polynomial.div_eq_zero_iff hv0).2 (not_le.1 hc))
  have hd := degree_add_div hv0 hle
  have h1 : (j : WithBot ℕ) ≤ (toPoly u / toPoly v).degree := le_degree_of_ne_zero hj
  have h2 := le_degree_toPoly v hlead
  have h3 := degree_toPoly_lt u
  have h4 : (((v.size - 1) + j : ℕ) : WithBot ℕ) < (u.size : WithBot ℕ) := by
    calc (((v.size - 1) + j : ℕ) : WithBot ℕ)
        = ((v.size - 1 : ℕ) : WithBot ℕ) + (j : WithBot ℕ) := Nat.cast_add _ _
      _ ≤ (toPoly v).degree + (toPoly u / toPoly v).degree := add_le_add h2 h1
      _ = (toPoly u).degree := hd
      _ < _ := h3
  have : (v.size - 1) + j < u.size := by exact_mod_cast h4
  omega

/-- **the bound is attained exactly when no coefficient of the quotient vanishes** (dividend stored
with a non-zero last coefficient, at least as long as the divisor) -/
theorem divSteps_eq_bound_iff (u v : Array K) (hlead : v[v.size - 1]?.getD 0 ≠ 0)
    (hu : u[u.size - 1]?.getD 0 ≠ 0) (hs : v.size ≤ u.size) :
    divSteps u v = u.size - v.size + 1 ↔
      ∀ j, j ≤ u.size - v.size → (toPoly u / toPoly v).coeff j ≠ 0 := by
  have hsub : (toPoly u / toPoly v).support ⊆ Finset.range (u.size - v.size + 1) := by
    intro j hj
    have := quotient_coeff_bound u v hlead j (mem_support_iff.1 hj)
    rw [Finset.mem_range]; omega
  have hext : (u[u.size - 1]?.getD 0 == 0) = false := by simpa using hu
  have hds : divSteps u v = (toPoly u / toPoly v).support.card := by
    unfold divSteps; simp [hext]
  rw [hds]
  constructor
  · intro hcard j hj
    have heq : (toPoly u / toPoly v).support = Finset.range (u.size - v.size + 1) :=
      Finset.eq_of_subset_of_card_le hsub (by rw [hcard, Finset.card_range])
    have : j ∈ (toPoly u / toPoly v).support := by rw [heq, Finset.mem_range]; omega
    exact mem_support_iff.1 this
  · intro hall
    have heq : (toPoly u / toPoly v).support = Finset.range (u.size - v.size + 1) := by
      apply Finset.Subset.antisymm hsub
      intro j hj
      rw [Finset.mem_range] at hj
      exact mem_support_iff.2 (hall j (by omega))
    rw [heq, Finset.card_range]

/-! ### the cap is reached -/

/-- the dense polynomial `1 + x + … + x^(n−1)` -/
theorem support_toPoly_ones (n : Nat) :
    (toPoly (Array.replicate n (1 : K))).support = Finset.range n := by
  ext j
  rw [mem_support_iff, coeff_toPoly, Finset.mem_range, Array.getElem?_replicate]
  by_cases hj : j < n <;> simp [hj]

/-- dividing the dense polynomial of `n` coefficients by the constant `1` takes exactly `n`
iterations -/
theorem divSteps_ones (n : Nat) : divSteps (Array.replicate n (1 : K)) #[1] = n := by
  have h1 : toPoly (#[1] : Array K) = 1 := by simp [toPoly]
  unfold divSteps
  rw [h1, EuclideanDomain.div_one, support_toPoly_ones, Finset.card_range]
  by_cases hn : n = 0
  · subst hn; simp [isZero]
  · have : ((Array.replicate n (1 : K))[(Array.replicate n (1 : K)).size - 1]?.getD 0 == 0)
        = false := by
      rw [Array.size_replicate, Array.getElem?_replicate, if_pos (by omega)]
      simp
    rw [this]; simp

/-- `polydiv` of the dense polynomial with `n` coefficients by the constant `1` fails exactly for
`n > 1000` -/
theorem polydiv_ones_none_iff (n : Nat) :
    polydiv (Array.replicate n (1 : K)) #[1] = .ok none ↔ 1000 < n := by
  rw [polydiv_none_iff _ _ (by simp), divSteps_ones]

/-- **`polydiv_cap_reached`: the iteration cap is reachable.**  Over any field, the dense dividend
`1 + x + … + x^1000` (1001 coefficients, `= v.size + 1000`) divided by the constant `1` is reported as
"exceeded maximum iterations" (`none`) after 1001 iterations, although `q = u`, `r = 0` satisfies
`u = q·v + r`: the hypothesis `u.size < v.size + 1000` of `polydiv_terminates_of_lead` and
`polydiv_total` cannot be relaxed. -/
theorem polydiv_cap_reached :
    polydiv (Array.replicate 1001 (1 : K)) #[1] = .ok none ∧
    polydivC (Array.replicate 1001 (1 : K)) #[1] = .ok (1001, none) ∧
    toPoly (Array.replicate 1001 (1 : K))
      = toPoly (Array.replicate 1001 (1 : K)) * toPoly (#[1] : Array K) + toPoly (#[0] : Array K) := by
  refine ⟨(polydiv_ones_none_iff 1001).2 (by omega), ?_, by simp [toPoly]⟩
  obtain ⟨q, r, _, _, _, h⟩ := polydiv_steps_exact (Array.replicate 1001 (1 : K)) #[1] (by simp)
  rw [h, divSteps_ones, if_neg (by omega)]

/-- … and with 1000 coefficients the division succeeds after exactly 1000 iterations, with quotient
`u` and remainder `0` -/
theorem polydiv_cap_not_reached :
    ∃ q r, polydiv (Array.replicate 1000 (1 : K)) #[1] = .ok (some (q, r)) ∧
      polydivC (Array.replicate 1000 (1 : K)) #[1] = .ok (1000, some (q, r)) ∧
      toPoly q = toPoly (Array.replicate 1000 (1 : K)) ∧ toPoly r = 0 := by
  have h1 : toPoly (#[1] : Array K) = 1 := by simp [toPoly]
  obtain ⟨q, r, hq, hr, _, h⟩ := polydiv_steps_exact (Array.replicate 1000 (1 : K)) #[1] (by simp)
  rw [divSteps_ones, if_pos (by omega)] at h
  refine ⟨q, r, ?_, h, by rw [hq, h1, EuclideanDomain.div_one], by rw [hr, h1, EuclideanDomain.mod_one]⟩
  rw [← polydivC_erase, h]; rfl

/-- **sharpness for every divisor**: for ANY divisor `v` with non-zero last coefficient the dividend
`u = (1 + x + … + x^1000)·v` has `u.size = v.size + 1000` coefficients and `polydiv u v` reports the
iteration error, although `u = q·v + 0` with `q = 1 + x + … + x^1000`. -/
theorem polydiv_cap_reached_of_divisor (v : Array K) (hlead : v[v.size - 1]?.getD 0 ≠ 0) :
    (mul (Array.replicate 1001 (1 : K)) v).size = v.size + 1000 ∧
      polydiv (mul (Array.replicate 1001 (1 : K)) v) v = .ok none := by
  obtain ⟨hv, hlv, hzv, hv0, _⟩ := lead_facts v hlead
  refine ⟨by rw [mul_size _ _ (by simp) (by omega)]; simp; omega, ?_⟩
  rw [polydiv_none_iff _ _ hlead]
  unfold divSteps
  rw [PolyDivE.toPoly_mul, mul_div_cancel_right₀ _ hv0, support_toPoly_ones, Finset.card_range]
  exact Nat.lt_of_lt_of_le (by omega) (Nat.le_add_right _ _)

end Exact

/-! ### instances: the executable `Rat`, ordered fields with `Alg.scalarExt` -/

/-- the cap is reached in the executable rational interpretation the differential harness runs
(`ScalarExt Rat` of Ohsl/Model/Inst.lean) -/
theorem polydiv_cap_reached_rat :
    polydiv (Array.replicate 1001 (1 : Rat)) #[1] = .ok none ∧
    ∃ q r, polydiv (Array.replicate 1000 (1 : Rat)) #[1] = .ok (some (q, r)) :=
  ⟨polydiv_cap_reached.1, by
    obtain ⟨q, r, h, _⟩ := polydiv_cap_not_reached (K := Rat)
    exact ⟨q, r, h⟩⟩

/-- the hypothesis of the class-(E) theorems is satisfiable: `(x² + 2x + 3) / (2x + 1)` over `Rat`
takes at most `2` iterations and is not an error -/
example : divSteps (#[3, 2, 1] : Array Rat) #[1, 2] ≤ 2 ∧
    polydiv (#[3, 2, 1] : Array Rat) #[1, 2] ≠ .ok none := by
  have hl : (#[1, 2] : Array Rat)[(#[1, 2] : Array Rat).size - 1]?.getD 0 ≠ 0 := by simp
  have h := divSteps_le (#[3, 2, 1] : Array Rat) #[1, 2] hl
  refine ⟨h, fun e => ?_⟩
  have := (polydiv_none_iff _ _ hl).1 e
  simp at h
  omega

section Ordered
variable {K : Type} [Field K] [LinearOrder K]
attribute [local instance] Ohsl.Alg.scalarExt

/-- the class-(E) interpretation of C12D (`Alg.scalarExt` on a linearly ordered field) is an
instance: `polydiv_total` fails at `u.size = v.size + 1000` -/
theorem polydiv_cap_reached_ordered :
    ¬ ∃ q r, polydiv (Array.replicate 1001 (1 : K)) #[1] = .ok (some (q, r)) := by
  rintro ⟨q, r, h⟩
  rw [polydiv_cap_reached.1] at h
  cases h

end Ordered

end Ohsl.Props.C12
