/-
  Property C20 — mismatched shapes rejected; operands never mutated; clones independent.
  Class (S): every lemma below holds for ANY scalar type with arbitrary operations.

  `rejects_all` collects, per checked entry point of the model, the statement that a failed size /
  shape / range guard yields `.error` — no value is produced.  In the model a rejected operation
  returns no state at all, so "the state is unchanged after a rejection" is checked on the CODE
  (the harness compares the post-panic state with the pre-state), together with operand snapshots
  around every by-reference call and clone/mutation interleavings: operand immutability and clone
  independence are true by construction of a pure model and follow on the code from Rust's `&`
  borrow rules and the deep `Clone` impls.
-/
import Ohsl.Props.C01
import Ohsl.Props.C02
import Ohsl.Props.C03
import Ohsl.Props.C04
import Ohsl.Props.C05
import Ohsl.Props.C06
import Ohsl.Props.C07
import Ohsl.Props.C11
import Ohsl.Props.C15
import Ohsl.Props.C16
import Ohsl.Props.C19
import Ohsl.Props.C19M
import Ohsl.Props.C03M
set_option linter.unusedSectionVars false
namespace Ohsl.Props.C20
open Ohsl
variable {K : Type} [Add K] [Sub K] [Mul K] [Neg K] [Zero K] [One K] [BEq K] [ScalarExt K]

/-- Vector entry points -/
theorem rejects_vector (a b : Array K) (h : a.size ≠ b.size) (p s e : Nat) (x : K) :
    Vec.add a b = .error .size ∧ Vec.sub a b = .error .size ∧ Vec.dot a b = .error .size ∧
    (a.size < p → Vec.insert a p x = .error .range) ∧
    ((s > e ∨ a.size ≤ s ∨ a.size ≤ e) → Vec.sumSlice a s e = .error .range ∧ Vec.productSlice a s e = .error .range) ∧
    Vec.pop (#[] : Array K) = .error .unwrap :=
  ⟨(C15.binary_rejects a b h).1, (C15.binary_rejects a b h).2.1, (C15.binary_rejects a b h).2.2,
   C15.insert_rejects a p x, C15.sumSlice_rejects a s e, C15.pop_empty⟩

/-- Matrix entry points (accessors and products) -/
theorem rejects_matrix (m b : Mat K) (v : Array K) (k : Nat) :
    (m.cols ≤ k → Mat.getCol m k = .error .range) ∧ (m.rows ≤ k → Mat.getRow m k = .error .range) ∧
    ((v.size ≠ m.rows ∨ m.cols ≤ k) → ∃ e, Mat.setCol m k v = .error e) ∧
    (v.size ≠ m.cols → Mat.mulVec m v = .error .size) ∧ (m.cols ≠ b.rows → Mat.mul m b = .error .size) :=
  ⟨Mat.getCol_rejects m, Mat.getRow_rejects m, Mat.setCol_rejects m k v, Mat.mulVec_rejects m v, Mat.mul_rejects m b⟩

theorem rejects_matrix_more (m b : Mat K) (v : Array K) (k k2 : Nat) (x : K) :
    ((v.size ≠ m.cols ∨ m.rows ≤ k) → ∃ e, Mat.setRow m k v = .error e) ∧
    ((m.rows ≤ k ∨ m.rows ≤ k2) → Mat.swapRows m k k2 = .error .range) ∧
    (m.rows ≤ k → Mat.deleteRow m k = .error .range) ∧
    (m.rows ≤ k → Mat.fillRow m k x = .error .range) ∧ (m.cols ≤ k → Mat.fillCol m k x = .error .range) ∧
    ((m.rows ≠ b.rows ∨ m.cols ≠ b.cols) → Mat.add m b = .error .size ∧ Mat.sub m b = .error .size) := by
  refine ⟨?_, ?_, ?_, ?_, ?_, ?_⟩
  · intro h; unfold Mat.setRow
    by_cases h1 : v.size ≠ m.cols
    · exact ⟨.size, by simp [h1]⟩
    · exact ⟨.range, by simp [h1, h.resolve_left h1]⟩
  · intro h; simp [Mat.swapRows, h]
  · intro h; simp [Mat.deleteRow, h]
  · intro h; simp [Mat.fillRow, h]
  · intro h; simp [Mat.fillCol, h]
  · intro h; unfold Mat.add Mat.sub
    by_cases h1 : m.rows ≠ b.rows
    · simp [h1]
    · simp [h1, h.resolve_left h1]

/-- solver entry points -/
theorem rejects_solvers (m : Mat K) (b : Array K) (h : m.rows ≠ b.size ∨ m.rows ≠ m.cols) (hns : m.rows ≠ m.cols) :
    Mat.solveBasic m b = .error .size ∧ Mat.solveLU m b = .error .size ∧
    Mat.determinant m = .error .size ∧ Mat.inverse m = .error .size :=
  ⟨C01.solveBasic_rejects m b h, C01.solveLU_rejects m b h, C02.determinant_rejects m hns, C02.inverse_rejects m hns⟩

/-- Banded / Tridiagonal entry points -/
theorem rejects_banded (a b : Band K) (v : Array K) (i j : Nat) (band : Int) (x : K) :
    ((a.n ≠ b.n ∨ a.m1 ≠ b.m1 ∨ a.m2 ≠ b.m2) → Band.add a b = .error .size ∧ Band.sub' a b = .error .size) ∧
    (a.n ≠ v.size → Band.solve a v = .error .size ∧ Band.mulVec a v = .error .size) ∧
    ((j > i + a.m2 ∨ i > j + a.m1) → Band.get a i j = .error .range ∧ Band.set a i j x = .error .range) ∧
    ((band < -(a.m1 : Int) ∨ band > (a.m2 : Int)) → Band.fillBand a band x = .error .range) :=
  ⟨C04.add_rejects a b, fun h => ⟨C04.solve_rejects a v h, C04.mulVec_rejects a v h⟩,
   fun h => ⟨C04.get_rejects a i j h, C04.set_rejects a i j x h⟩, C04.fillBand_rejects a band x⟩

theorem rejects_tridiagonal (t : Tri K) (h : C05.WF t) (v : Array K) (i j : Nat) :
    (t.n ≠ v.size → Tri.solve t v = .error .size ∧ Tri.mulVec t v = .error .size) ∧
    ((i ≥ t.n ∨ j ≥ t.n ∨ (i ≠ j ∧ i ≠ j + 1 ∧ i + 1 ≠ j)) → Tri.get t i j = .error .range) :=
  ⟨fun hn => ⟨C05.solve_rejects_size t v hn, C05.mulVec_rejects t v hn⟩, (C05.get_spec t h i j).2.2.2⟩

/-- Sparse, mesh, polynomial, threaded dot -/
theorem rejects_sparse_mesh_poly (s : Sp K) (x : Array K) (r c : Nat) (v : K) (p : Array K) (w : Nat) (a b : Array K) :
    (s.cols ≠ x.size → Sp.multiply s x = .error .size) ∧ (s.rows ≠ x.size → Sp.transposeMultiply s x = .error .size) ∧
    ((s.rows ≤ r ∨ s.cols ≤ c) → Sp.get s r c = .error .range ∧ Sp.insert s r c v = .error .range) ∧
    (p.size ≤ r → Poly.get p r = .error .range) ∧ (a.size ≠ b.size → Dot.dotThreaded w a b = .error .size) :=
  ⟨C07.multiply_rejects s x, C07.transposeMultiply_rejects s x,
   fun h => ⟨C06.get_rejects s r c h, C06.insert_rejects s r c v h⟩, C11.get_rejects p r, C16.rejects w a b⟩

theorem rejects_mesh {T X : Type} [Zero T] (m : Mesh1 T X) (node : Nat) (v : Array T) :
    ((node ≥ m.nodes.size ∨ v.size ≠ m.nvars) → ∃ e, Mesh1.setNodesVars m node v = .error e) ∧
    (node ≥ m.nodes.size → Mesh1.getNodesVars m node = .error .range) :=
  ⟨C19.set_rejects m node v, C19.get_rejects m node⟩

/-- 2-D mesh entry points -/
theorem rejects_mesh2 {T X : Type} [Zero T] (m : Mesh2 T X) (i j var : Nat) (v : Array T) :
    ((m.nx ≤ i ∨ m.ny ≤ j ∨ v.size ≠ m.nvars) → ∃ e, Mesh2.setNodesVars m i j v = .error e) ∧
    ((m.nx ≤ i ∨ m.ny ≤ j) → ∃ e, Mesh2.getNodesVars m i j = .error e) ∧
    (m.nvars ≤ var → Mesh2.varAsMatrix m var = .error .range) ∧
    (m.nx ≤ i → 0 < m.ny → ∃ e, Mesh2.crossSectionX m i = .error e) :=
  ⟨C19.set_rejects2 m i j v, C19.get_rejects2 m i j, fun h => C19.varAsMatrix_rejects m h,
   fun h hy => C19.crossSectionX_rejects m h hy⟩

/-- after ANY history of editing operations that does not panic the dense matrix is still well formed
    (len == rows*cols), and a rejected operation of a history yields `.error` — no value -/
theorem history_keeps_wf (ops : List (Mat.MatOp K)) (m m' : Mat K) (h : m.WF)
    (hv : ∀ op ∈ ops, op.Valid) (hr : Mat.run ops m = .ok m') : m'.WF :=
  C03.history_wf ops hv h hr

/-- a successful write changes only the addressed entry (frame condition for the dense matrix) -/
theorem no_stray_write {m : Mat K} (h : m.WF) {i j : Nat} (hi : i < m.rows) (hj : j < m.cols) (v : K) :
    ∃ m', m.set i j v = .ok m' ∧
      ∀ i' j', j' < m.cols → (i' ≠ i ∨ j' ≠ j) → m'.get i' j' = m.get i' j' := by
  obtain ⟨m', h1, _, _, _, _, h6⟩ := C03.set_frame h hi hj v
  exact ⟨m', h1, h6⟩

end Ohsl.Props.C20
